#!/bin/sh
# usage: seedwt.sh <tag>   -> creates a scratch git worktree of /repo HEAD at /tmp/seed-<tag> with a pre-warmed target dir
# and prints the prompt for the seeding sub-agent (PROMPT_TEMPLATE.md instantiated with the property text ONLY).
T=$1; PID=$(echo $T | cut -d- -f1)
W=/tmp/seed-$T
git -C /repo worktree add --detach $W HEAD >/dev/null 2>&1 || { echo "worktree failed"; exit 1; }
[ -d /repo/target ] && cp -a /repo/target $W/target
python3 - "$PID" "$W" <<'P'
import json,sys
pid,w=sys.argv[1],sys.argv[2]
for l in open('/verif/properties.jsonl'):
    p=json.loads(l)
    if p['id']==pid:
        text=p.get('title','')+"\n"+(p.get('statement') or '')+"\nCode the property is anchored in: "+", ".join(p['anchors'].get('files',[]))
t=open('/verif/seeded/PROMPT_TEMPLATE.md').read()
print(t.replace('{WORKTREE}',w).replace('{PROPERTY_TEXT}',text).replace('{PID}',pid))
P
