#!/bin/sh
# usage: keep_seed.sh <tag> '<checks run>' '<result>'  - store a confirmed seeded change under /verif/seeded/<tag>/ and remove its worktree
T=$1; W=/tmp/seed-$T; D=/verif/seeded/$T
mkdir -p $D
cp $W/patch.diff $D/patch.diff
cp $W/crates/*/tests/seeded_demo.rs $D/seeded_demo.rs
python3 - "$W/meta.json" "$D/meta.json" "$T" "$2" "$3" <<'P'
import json,sys,glob,os
src,dst,tag,checks,result=sys.argv[1:6]
m=json.load(open(src))
logs=[]
for f in ('/tmp/runs/confirm-%s.log'%tag,'/tmp/runs/confirmdemo-%s.log'%tag):
    if os.path.exists(f): logs+= [l.rstrip() for l in open(f) if l.strip()]
m['confirmed_by_me']={"how":"tools/confirm_seed.sh in the scratch worktree: demonstration with / without the change, then the whole existing suite (cargo nextest run --workspace, demo excluded) with the change","output":logs,
 "checks_run":checks,"result":result}
json.dump(m,open(dst,'w'),indent=1)
P
git -C /repo worktree remove --force $W && echo "removed $W"
