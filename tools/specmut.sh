#!/bin/sh
# usage: specmut.sh <trace spec> <trace file> <sed expr on Conditions.tla|file:expr> ...
# binding-negative self test: mutate a scratch copy of the spec, require TLC to reject the trace
SPEC=$1; TRACE_F=$2; shift 2
D=$(mktemp -d /tmp/specmut.XXXX)
cp /verif/spec/*.tla /verif/spec/lib/*.tla /verif/spec/trace/* /verif/spec/mc/* $D/ 2>/dev/null
cd $D
for m in "$@"; do
  f=${m%%:*}; e=${m#*:}
  cp /verif/spec/$f $D/ 2>/dev/null || cp /verif/spec/lib/$f $D/
  before=$(md5sum $(basename $f) | cut -c1-8)
  sed -i "$e" $(basename $f)
  after=$(md5sum $(basename $f) | cut -c1-8)
  [ "$before" = "$after" ] && echo "MUTATION DID NOT APPLY: $m"
  r=$(TRACE=$TRACE_F java -XX:+UseParallelGC -Xss1g -Dtlc2.tool.queue.IStateQueue=StateDeque -Dtlc2.overrides.TLCOverrides=tlc2.overrides.TLCOverrides:VerifOverrides -cp /opt/veriftools/tla/tla2tools.jar:/opt/veriftools/tla/CommunityModules-deps.jar:/verif/build/classes tlc2.TLC -workers 1 -metadir $D/meta -cleanup -config ${SPEC%.tla}.cfg $SPEC 2>&1 | grep -E "NMISMATCH|Error" | head -2 | tr '\n' ' ')
  echo "$m => $r"
  cp /verif/spec/$f $D/ 2>/dev/null || cp /verif/spec/lib/$f $D/
done
cd /; rm -rf $D
