#!/usr/bin/env python3
"""Pre-generate the TLC case files of the quick tier (they depend only on the specs and are
cached under /verif/cache/<spec hash>/). Run by bin/setup so that a quick check is: build the
harness, replay, record, trace-validate. A failure here is not fatal: the check regenerates."""
import concurrent.futures as cf
import sys
sys.path.insert(0, "/verif")
sys.path.insert(0, "/verif/lib")
from checks.common import gen_cases
import vlib

QUICK = [
    ("MC_Ints.tla", "MC_Ints_quick.cfg"),
    ("MC_Cond.tla", "MC_Cond_single.cfg"), ("MC_Cond.tla", "MC_Cond_struct.cfg"), ("MC_Cond.tla", "MC_Cond_twobyte.cfg"),
    ("MC_Cond.tla", "MC_Cond_cross.cfg"), ("MC_Cond.tla", "MC_Cond_pairq.cfg"), ("MC_Cond.tla", "MC_Cond_big.cfg"), ("MC_Cond.tla", "MC_Cond_locks3.cfg"),
    ("MC_Rel.tla", "MC_Rel_strict.cfg"), ("MC_Rel.tla", "MC_Rel_perm.cfg"),
    ("MC_TimeLocks.tla", "MC_TimeLocks.cfg"), ("MC_GenShape.tla", "MC_GenShape.cfg"), ("MC_Bundle.tla", "MC_Bundle.cfg"),
    ("MC_AggSig.tla", "MC_AggSig.cfg"),
]


def one(sc):
    try:
        _, meta = gen_cases(sc[0], sc[1], workers=5, timeout=3000)
        return "%s/%s: %d cases" % (sc[0], sc[1], meta["cases"])
    except Exception as e:  # noqa
        return "%s/%s: FAILED %s" % (sc[0], sc[1], str(e)[:300])


if __name__ == "__main__":
    with cf.ThreadPoolExecutor(max_workers=3) as ex:
        for r in ex.map(one, QUICK):
            print(r, flush=True)
