#!/bin/sh
# usage: newbin.sh <domain> [extra module ...]  -> harness/vh/src/bin/vh_<domain>.rs
# A per-domain harness binary: compile errors in one domain cannot break other domains' checks.
D=$1; shift
F=/verif/harness/vh/src/bin/vh_$D.rs
{
echo '#![allow(irrefutable_let_patterns, dead_code)]'
echo '#[path = "../util.rs"]'
echo 'mod util;'
echo '#[path = "../sx.rs"]'
echo 'mod sx;'
for m in "$@"; do echo "#[path = \"../$m.rs\"]"; echo "mod $m;"; done
echo "#[path = \"../$D.rs\"]"
echo "mod $D;"
cat <<'EOT'

fn main() {
    let argv: Vec<String> = std::env::args().collect();
    if argv.len() < 2 {
        eprintln!("usage: <bin> <domain> [--key value ...]");
        std::process::exit(2);
    }
    std::panic::set_hook(Box::new(|info| {
        if !util::QUIET.with(|q| q.get()) {
            eprintln!("harness panic: {info}");
        }
    }));
    let args = util::Args::parse(&argv[2..]);
EOT
echo "    // deep S-expressions recurse deeply: run on a thread with a large stack"
echo "    let h = std::thread::Builder::new().stack_size(2 << 30).spawn(move || $D::record(&args)).expect(\"spawn\");"
echo "    if h.join().is_err() { std::process::exit(101); }"
echo "}"
} > $F
echo created $F
