#!/bin/sh
# usage: confirm_seed.sh <tag>  - independent confirmation of a seeded change in its scratch worktree /tmp/seed-<tag>:
# (1) the demonstration fails with the change, (2) passes without it, (3) the whole existing suite passes with the change.
T=$1; W=/tmp/seed-$T; cd $W || exit 2
DEMO=$(ls crates/*/tests/seeded_demo.rs | head -1); CR=$(echo $DEMO | cut -d/ -f2)
git diff --quiet && { echo "NO CHANGE APPLIED"; exit 2; }
echo "== demo with change ($CR)"; ( cd crates/$CR && timeout 3000 cargo test -q --offline -j 8 --test seeded_demo ) 2>&1 | grep -E "^test result|panicked|error\[" | head -5; 
git diff > /tmp/confirm-$T.diff; git apply -R /tmp/confirm-$T.diff
echo "== demo without change"; ( cd crates/$CR && timeout 3000 cargo test -q --offline -j 8 --test seeded_demo ) 2>&1 | grep -E "^test result|panicked|error\[" | head -5
git apply /tmp/confirm-$T.diff
[ "$2" = demo ] && exit 0
echo "== existing suite with change"; timeout 3000 cargo nextest run --workspace --offline --no-fail-fast --test-threads 8 -E 'not binary(seeded_demo)' 2>&1 | grep -E "Summary|FAIL" | head -10
