#!/bin/sh
# usage: mutant.sh "<sed expr>" <file under /repo> <check id>...
# Applies a mutation to a PRIVATE scratch copy of /repo (never to /repo itself, so concurrent
# builders and checks are not disturbed), builds a private copy of the harness against it, runs
# the quick checks there and prints their verdict lines. Scratch: /tmp/mut-<first check id>/.
E=$1; F=$2; shift 2
D=${MUTDIR:-/tmp/mut-$1}
mkdir -p $D/repo $D/harness
rsync -a --delete --exclude target --exclude .git /repo/ $D/repo/
rsync -a --exclude target /verif/harness/ $D/harness/
find $D/harness -name Cargo.toml | xargs sed -i "s|\"/repo/crates/|\"$D/repo/crates/|g"
# rsync restores a previously mutated file with its ORIGINAL mtime; cargo would then keep the stale mutant artifact: touch it
[ -f $D/last ] && for f in $(cat $D/last); do touch "$D/repo/$f"; done
echo "$F" > $D/last
cp $D/repo/$F $D/mutant.bak
sed -i "$E" $D/repo/$F
if cmp -s $D/repo/$F $D/mutant.bak; then echo "MUTATION DID NOT APPLY"; exit 3; fi
( cd $D/repo && diff -u $D/mutant.bak $F | head -20 | grep '^[-+]' | grep -v '^[-+][-+]' )
for c in "$@"; do VERIF_PRIVATE=$D VERIF_REPO=$D/repo /verif/bin/check $c quick 2>&1 | grep -E "VIOLATION|held|TOOL-ERROR|KNOWN|Error|rror:" | cut -c1-400 ; done
