#!/bin/sh
# usage: mutant.sh "<sed expr>" <file under /repo> <check id>...   (applies, runs quick checks, reverts)
E=$1; F=$2; shift 2
cd /repo
cp $F /tmp/mutant.bak
sed -i "$E" $F
if cmp -s $F /tmp/mutant.bak; then echo "MUTATION DID NOT APPLY"; exit 3; fi
git diff --stat | tail -1
for c in "$@"; do /verif/bin/check $c quick 2>&1 | grep -E "VIOLATION|held|TOOL-ERROR|KNOWN" ; done
cp /tmp/mutant.bak $F
git -C /repo status --short | head -3
