#!/usr/bin/env python3
"""Regenerate /verif/MANIFEST.json from the table below (one source of truth)."""
import json

BASE = "cd /repo && cargo nextest run --workspace --no-fail-fast --test-threads 8 --offline || cargo test --workspace --no-fail-fast --offline"

# id -> (built?, category, technique, level text, level note, design ref)
P = {
 "C11": (True, "model_checking", "TLA+ transcription of the canonical-integer rule (ClvmInt) model-checked by TLC; TLC-enumerated boundary cases and dense sweeps replayed through all encoders and trace-validated",
         "TLC exhaustively checks the canonical-form lemmas on the boundary lattice and all short adversarial atoms; every case and dense sweeps of values run through the five encoders/decoders and are validated against the spec by TLC trace validation",
         "SHA-256 from the JDK; clvmr as interpreter reference; interior of the u64 range is sampled, not enumerated", "3 C11"),
 "C01": (True, "model_checking", "explicit TLA+ state machine of spend/condition validation (Conditions.tla) model-checked by TLC over systematic opcode x argument-shape x flag menus; every TLC terminal state replayed into parse_spends and random bundles trace-validated by TLC against the same machine",
         "TLC explores the condition machine exhaustively over the menus (single, struct, two-byte, cross-spend, pair, big-amount); every terminal state becomes an input replayed through parse_spends<Empty|Mempool visitor>, and TLC trace validation re-runs the machine on each logged input (menus + seeded random/mutated bundles) comparing verdict and the full summary",
         "SHA-256 from the JDK; key validity from raw blst; bounded menus + random sampling beyond them; signature checking itself is C05", "3 C01"),
 "C02": (True, "model_checking", "C02 invariants (conservation, no double spend, no duplicate output, totals, coin-id definition) as TLC invariants of the Conditions machine and re-evaluated by TLC on the implementation's reported results in every validated trace",
         "invariants hold in every reachable state of MC_Cond (amounts up to 2^64-1, sums beyond 64 bits); TLC trace validation evaluates the same invariants on the numbers the implementation itself reports for every accepted result",
         "entry points beyond parse_spends are added as the generator pipeline comes online (see evidence: entry_points)", "3 C02"),
 "C04": (True, "model_checking", "cost modelled twice in TLA+ (operational countdown vs declarative table sum) and checked equal by TLC; limit exactness (total / total-1) as a TLC invariant; reported costs compared with the machine in trace validation incl. frontier re-runs",
         "TLC checks countdown = table sum, accumulator consistency and exactness of the limit over all menus incl. all 256 two-byte opcodes and both fork modes; the implementation's reported costs are validated against the machine on every event and accepted bundles are re-run at limit = total and total-1",
         "cost-table literals in the spec are the consensus rule; byte/interned and CLVM execution cost composition is covered with the generator pipeline", "3 C04"),
 "C03": (True, "model_checking", "TLA+ per-assertion arithmetic semantics (TimeLocks.tla) proved equivalent by TLC to the parse-time fold of the Conditions machine composed with a transcription of check_time_locks over a boundary lattice; bundles x chain states replayed through parse_spends + check_time_locks and trace-validated against the per-assertion oracle",
         "TLC proves Equiv and ImpossibleSound for all multisets of boundary assertions (incl. ephemeral second spend) over the chain lattice; the implementation's verdicts for TLC-generated and random bundles in boundary chain states are validated by TLC against the per-assertion oracle (the fold is not used on that path)",
         "consistent chain states below the type maxima; non-lock rules delegated to the Conditions machine; legacy wrapping mode not judged", "3 C03"),
 "C06": (True, "model_checking", "relational TLA+ driver specs over the Conditions machine (strict subset implication over all strictness subsets; invariance under every order reachable by adjacent swaps) model-checked by TLC; each visited pair replayed on the implementation and the relation evaluated by TLC on the two implementation results",
         "TLC checks StrictImplies and PermEq on the machine over interaction-heavy menus visiting all orders; every visited (input, permutation/strict subset) and seeded random bundles are run pairwise through parse_spends and TLC trace validation evaluates the relation between the two implementation results",
         "compared: everything but listing order and the positional ELIGIBLE_FOR_FF bit; fingerprint not computed on this path", "3 C06"),
 "C05": (True, "model_checking", "symbolic (bag-of-signed-pairs) TLA+ model of aggregate signatures over the Conditions machine's required-pair list; TLC checks per-opcode domain separation and that every single-point tampering changes the bag; the harness signs spec-prescribed and tampered lists with real keys and TLC validates all verifier verdicts",
         "TLC proves on the model that each AGG_SIG opcode requires message||attributes||constant and that every tampering changes the required bag; each case and random bundles are signed with real secret keys and every verdict of parse_spends (4 cache modes), run_block_generator2 and validate_clvm_and_signature must equal 'valid and signed bag = required bag'; make_aggsig_final_message must reproduce the required messages",
         "symbolic signature model (BLS unforgeability assumed); chia_bls::sign/aggregate and blst trusted", "3 C05"),
 "C07": (True, "model_checking", "TLA+ model of the native generator path around the interpreter (Generator.tla: guards, base cost, spend extraction, puzzle hashing, condition machine, termination, cost) with CLVM runs as logged oracle inputs; TLC explores output shapes (MC_GenShape) and validates both execution paths' results per generator (Agree relation + native vs model)",
         "every output shape of MC_GenShape, seeded random generators and the repository's generator corpus run through BOTH run_block_generator and run_block_generator2; TLC trace validation evaluates Agree on the two results and compares the native result with Generator.tla",
         "CLVM execution results are oracle inputs from clvmr; cost comparison only in byte-cost mode (legacy has no INTERNED_GENERATOR mode); huge outputs judged by the pair of verdicts only", "3 C07"),
 "C08": (True, "model_checking", "TLA+ model of run_spendbundle and of generators built from a bundle (Bundle.tla: length formula, generator tree, base cost, quote overhead); TLC proves the length formula and cost delta over all amount-length classes (MC_Bundle) and validates recorded runs of the mempool path, four generator forms and both block builders",
         "TLC proves predicted length = serialised length and the fixed quote overhead in the model; each MC bundle, random bundles and recorded test-bundles run through run_spendbundle, solution_generator(_backrefs), both block builders and run_block_generator2; TLC validates verdict/conditions equality, byte-exact plain generator, exact cost delta and builder cost = consensus cost",
         "CLVM execution results are oracle inputs; plainly serialised reveals (premise of the property)", "3 C08"),
 "C09": (True, "model_checking", "trusted view (removals, additions with the validation hint rule, coin spends, lookups) defined in TLA+ as a projection of the validated machine state (Generator.tla); TLC validates the outputs of every trusted helper against it for every accepted generator in the C07/C08 streams",
         "for every accepted generator: additions_and_removals, get_coinspends_for_trusted_block (+ rebuilt generator re-validated), get_coinspends_with_conditions_for_trusted_block, get_puzzle_and_solution_for_coin (members and a non-member) and SpendBundle::additions are compared by TLC with the projection of the validated conditions",
         "CLVM execution results are oracle inputs; three defects found by this check were repaired (see known_findings.json)", "3 C09"),
 "C16": (True, "model_checking", "symbolic exponent algebra (KeyAlgebra.tla) and point-encoding case table (PointEncoding.tla) model-checked by TLC; TLC-generated operation stores / table rows replayed with real keys and seeded random scripts and strings trace-validated (equality relation among concrete values = relation among symbolic values)",
         "TLC checks the commuting laws (derive/synthetic/add vs public key), path helpers, serialisation identity and the flag-bit x coordinate-class acceptance table on the model; every TLC store is executed with real keys under two seed sets and every encoding class is realised on real strings; TLC trace validation compares the concrete equality relation, scalar arithmetic mod r and parser verdicts with the spec",
         "curve arithmetic, subgroup test and hash-to-curve trusted to blst (oracle facts per string from raw blst); predicted differences accepted w.h.p. over two seed sets; hardened derivation / from_seed opaque", "3 C16"),
 "C10": (True, "model_checking", "explicit TLA+ state machine of both block builders (BlockBuilder.tla: four exits of add_spend_bundles, running estimate, finalize) model-checked by TLC over all interleavings of accepted / rejected adds with declared costs on each guard boundary; every TLC history replayed on the real builders with real signed bundles and seeded random histories trace-validated by TLC (Trace_BlockBuilder, twin-builder comparison for 'rejected attempt leaves later output unchanged')",
         "TLC checks AllOrNothing (action property), EstimateUpper, WithinLimit, FinalizeEnabled, OutputIsAccepted, SigIsAggregate, CostIsConsensus and LaterOutputUnaffected in every reachable state for both builders (exhaustive to a small depth, simulated beyond); every finalized state is a replay case scaled up to real bundles, and every recorded history (TLC cases + random histories over synthetic bundles and /repo/test-bundles) is validated by TLC: decoded generator = accepted spends, signature = aggregate, cost = run_block_generator2 cost <= max, estimate >= final, finalize never panics",
         "max_block_cost lowered in the harness so quantities fit TLC integers; compressed sizes are logged observations; two recorded known findings (C10E estimate before first serialisation, C10L clvmr Serializer::restore cache) in known_findings.json", "3 C10"),
 "C12": (True, "model_checking", "TLA+ definition of the collapsed binary-trie root and of proof semantics (MerkleSet.tla) model-checked by TLC for canonicity, completeness and soundness over all proof terms of bounded sets at real depth 256; TLC-generated sets / forged proofs replayed into both root computations, generate_proof and validate_merkle_proof, random sets trace-validated byte for byte",
         "TLC checks Canonical (orders, duplicates), Complete and Sound on every set of embedded model keys up to the bound and every proof term of the guided family; each case and seeded random sets (shared prefixes up to 255 bits) run through compute_merkle_set_root, MerkleSet::from_leafs, generate_proof, validate_merkle_proof and deserialize_proof; TLC compares roots with the reference definition byte for byte and the verdict of every (proof, item) pair incl. forged, truncated and extended proofs",
         "SHA-256 from the JDK (collision resistance assumed for soundness); forged proofs limited to the structured families + random mutation", "3 C12"),
 "C13": (True, "model_checking", "TLA+ wire grammar of Streamable (Streamable.tla: combinators + hand-written block / proof-of-space codecs) model-checked by TLC for Canon, PrefixFree, RoundTrip, TrustedAgrees and HashIsShaOfEncoding; the grammar is instantiated with the schema extracted from the current sources and TLC re-parses every recorded from_bytes / to_bytes / hash event of ~190 concrete types",
         "TLC proves the grammar a canonical prefix-free bijection with hash = SHA-256(encoding) over all combinator terms of depth <= 2 and all short byte strings; TLC-enumerated byte strings, arbitrary values, schema-generated boundary values and single-position perturbations run through from_bytes, from_bytes_unchecked, to_bytes, hash and == of every registered type; Trace_Streamable recomputes verdict, re-encoding, digest and trusted/untrusted agreement from the logged bytes",
         "curve-point validity and CLVM program length are oracle facts from blst / clvmr; PoS v2 quality strings from chia-pos2 vectors; types whose source form the schema extractor cannot model are listed in the evidence (unmodelled)", "3 C13"),
 "C14": (True, "exploration", "the TLA+ wire grammar (Streamable.tla, model-checked PrefixFree / Canon) used as adversarial input generator: every length / option / enum / version position of every type driven to extreme values, deep CLVM nesting, truncation / extension / bit flips; each decode runs in a child process under a counting allocator and CPU clock, and TLC (Trace_Totality) judges outcome, rejection of truncated / extended input, consumed length, post-operations and the stated resource bounds",
         "exploration: grammar-directed adversarial inputs for every registered streamable type through from_bytes and from_bytes_unchecked in child processes; TLC validates every event against Trace_Totality (value-or-error, no panic / abort / hang, must-reject classes rejected, allocation <= stated multiple of input, CPU bound, re-encode / hash / == complete)",
         "resource bounds are stated thresholds with large margins, not derived; one recorded known finding (hash of a v2 ProofOfSpace without quality string panics)", "3 C14"),
 "C15": (True, "model_checking", "PlusCal-style TLA+ model of the shared pairing cache at lock granularity (BlsCache.tla) model-checked by TLC over all interleavings of concurrent cache-assisted verifications and environment operations (Bounded, CacheCoherent, Transparent), plus symbolic models of the stand-alone verifiers (BlsVerify.tla); every TLC schedule forced on real OS threads through the verif-hooks yield points and all logs trace-validated by TLC",
         "TLC explores every interleaving for all capacities / prior contents / calls of the menu and checks len <= capacity, cache coherence and verdict transparency; each terminal state (schedule + predicted contents per step + verdicts) is forced on real threads and compared step by step; seeded random histories (more threads, larger calls, evict / update) and sequential inputs over verify, aggregate_verify, BlsCache::aggregate_verify, aggregate_verify_gt and validate_clvm_and_signature are validated by TLC against the reference verdict (never valid with an infinity key)",
         "symbolic cryptography (distinct bags give distinct pairing products); schedules are forced at the hook points (lock acquisitions), not inside blst; off-subgroup / tampered signatures from raw blst", "3 C15"),
 "C17": (True, "model_checking", "TLA+ state machine of the memoizing tree hash (TreeHashCache.tla: visit counting, memo, reuse across calls) over explicit DAG node tables, model-checked by TLC against the recursive reference (atoms prefix 1, pairs prefix 2) for every small DAG and cache history; TLC histories replayed through one shared TreeCache and all tree-hash routines, serialisation modes and curry_tree_hash trace-validated byte for byte",
         "TLC explores every DAG with a bounded number of pair nodes and every reachable state of one shared TreeCache and checks cached = plain = reference; each history and seeded random DAGs (heavy sharing, deep lists, back-reference serialisations) run through tree_hash, tree_hash_cached, tree_hash_from_bytes, TreeCache reuse and curry_tree_hash vs the tree hash of the real curried program; TLC recomputes every hash from the logged node table",
         "SHA-256 from the JDK; clvmr Allocator / serialisers trusted for logging node tables", "3 C17"),
 "C18": (True, "model_checking", "explicit TLA+ state machine of the DataLayer Merkle blob (MerkleBlob.tla: insert at every location class, upsert, delete, batch insert, lazy hash recomputation, reload) refining a plain map, model-checked by TLC (RefinesMap, Integrity, FailedIsStutter, ReloadEquivalent, RootHashDef, ProofsValid); TLC histories replayed on the real MerkleBlob and seeded random histories trace-validated with the tree shape logged",
         "TLC checks the refinement and integrity invariants on every reachable state of bounded histories incl. failing operations; every TLC history and seeded random histories (duplicate keys / hashes, freed and internal reference indexes, batches, reloads) run on the real blob; after every call TLC validates content = map, check_integrity, failed = unchanged (bytes), reload equivalence, root hash = independent recomputation and every key's proof of inclusion",
         "SHA-256 from the JDK; auto insert locations are logged observations pinned by the resulting shape; three defects found by this check were repaired (known_findings.json)", "3 C18"),
 "C19": (True, "model_checking", "TLA+ models of the dedup fingerprint preimage framing and eligibility rule (Fingerprint.tla over the Conditions machine in mempool mode) and of the fast-forward guard table and solution rewrite (FastForward.tla), model-checked by TLC (framing injective on accepted lists, eligibility rule, guard table); TLC-generated condition-list pairs and corruption matrices replayed on real singleton spends and trace-validated (Trace_Mempool)",
         "TLC checks on pair menus that equal fingerprints of two accepted lists imply identical parsed conditions and that DEDUP is flagged only without AGG_SIG / message conditions and with outputs >= input; every pair and every row of the fast-forward corruption matrix (wrong coin, lineage, amounts, non-singleton puzzles) runs through run_spendbundle fingerprints / flags and fast_forward_singleton on real singleton spends; TLC validates refusal / acceptance, that the rewritten solution differs only in the three lineage fields, re-runs against the new coin and equal created coins",
         "clvmr runs the singleton puzzle (oracle); one recorded known finding C19_TAIL (trailing solution elements dropped by the rewrite)", "3 C19"),
 "C20": (True, "model_checking", "TLA+ model of the Python JSON-dict form of the Streamable types (JsonDict.tla on the Streamable.tla type terms: ToJ / FromJ, per-class JSON views with upper-cased keys, transparent tuple structs and the hand-written block / proof-of-space layouts, 14 single-position corruption classes) model-checked by TLC; the model is instantiated with the schema and views extracted from the current sources, TLC enumerates every applicable (path, corruption) of canonical values of all modelled classes as replay cases, and TLC re-derives the JSON form and every verdict of each recorded to_json_dict / from_json_dict event of a pyo3-embedded harness (Trace_Json)",
         "TLC checks RoundTrip (FromJ o ToJ = id), CorruptRejected (every applicable hex-length / hex-digit / 0x / integer-range / enum / element-count / missing-key / null corruption is rejected), LocalIsGlobal and IntExact (integers accepted exactly in range, widths 1..16 bytes) over all combinator terms of depth <= 1 (quick) / 3 (thorough) and model structs; every TLC case plus schema-generated boundary and arbitrary values of all registered classes go through to_json_dict and from_json_dict inside an embedded interpreter; TLC parses the encoding with the wire grammar, requires the logged JSON to equal ToJ, the way back to give an equal value with identical bytes and hash, and every logged corruption (spec-recomputed) to be rejected",
         "JSON views extracted from the sources by checks/c20.py + tools/schema.py; point validity / CLVM length are oracle facts from blst / clvmr; Python objects outside the JSON model (bool for int, str / dict for list, int list for BLS elements) and missing keys of optional fields are not judged; SecretKey / GTElement round-trip clauses only; value equality observed through PartialEq + re-encoding + hash", "3 C20"),
}
ORDER = ["C%02d" % i for i in range(1, 21)]
PENDING_REASON = "check not built yet in this round (construction order DESIGN section 8); no claim is made"

def main():
    checks, na = [], []
    for pid in ORDER:
        if pid in P and P[pid][0]:
            _, cat, tech, text, note, ref = P[pid]
            checks.append({
                "property_id": pid,
                "quick_cmd": "bin/check %s quick" % pid,
                "thorough_cmd": "bin/check %s thorough" % pid,
                "evidence_file": "/verif/evidence/%s.json" % pid,
                "replay_cmd_template": "bin/check %s --replay {path}" % pid,
                "engine": "tlc+vh",
                "level_claimed": {"category": cat, "text": text, "design_ref": "DESIGN.md section " + ref},
                "level_note": note,
                "technique": tech,
            })
        else:
            na.append({"property_id": pid, "reason": P[pid][1] if pid in P and not P[pid][0] and isinstance(P[pid][1], str) and len(P[pid]) == 2 else PENDING_REASON})
    m = {
        "version": 1,
        "setup_cmd": "bin/setup",
        "hooks": {
            "guard": "cargo feature verif-hooks on crate chia-bls",
            "enable": "the harness (/verif/harness/vh) depends on /repo/crates/chia-bls with features=[\"verif-hooks\"]",
            "baseline_off_cmd": BASE,
            "source_commits": ["0e40322b"],
            "add_only": True,
        },
        "engines": [
            {"name": "tlc+vh", "path": "/verif/bin/check", "serves_properties": [c["property_id"] for c in checks],
             "kind_free_text": "explicit TLA+ specifications (spec/) model-checked with TLC; conformance by replaying TLC-generated cases into the Rust harness (harness/vh) and validating recorded traces with TLC trace specs (spec/trace)"},
        ],
        "checks": checks,
        "not_applicable": na,
        "notes": "See DESIGN.md. Exit codes: 0 held, 1 with VIOLATION line, 2 tool error.",
    }
    json.dump(m, open("/verif/MANIFEST.json", "w"), indent=1)
    print("checks:", [c["property_id"] for c in checks], "not_applicable:", len(na))

if __name__ == "__main__":
    main()
