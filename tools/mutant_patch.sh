#!/bin/sh
# usage: mutant_patch.sh <patch.diff> <check id>...  - like mutant.sh but applies a patch file (private scratch copy)
P=$1; shift
D=${MUTDIR:-/tmp/mut-$1}
mkdir -p $D/repo $D/harness
rsync -a --delete --exclude target --exclude .git /repo/ $D/repo/
rsync -a --exclude target /verif/harness/ $D/harness/
find $D/harness -name Cargo.toml | xargs sed -i "s|\"/repo/crates/|\"$D/repo/crates/|g"
[ -f $D/last ] && for f in $(cat $D/last); do touch "$D/repo/$f"; done
grep '^+++ b/' $P | sed 's|^+++ b/||' > $D/last
( cd $D/repo && patch -p1 --no-backup-if-mismatch < $P ) || { echo "PATCH DID NOT APPLY"; exit 3; }
for c in "$@"; do VERIF_PRIVATE=$D VERIF_REPO=$D/repo /verif/bin/check $c quick 2>&1 | grep -E "VIOLATION|held|TOOL-ERROR|KNOWN|Error|rror:" | cut -c1-400 ; done
