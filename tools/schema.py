#!/usr/bin/env python3
"""Streamable schema extractor (C13/C14/C20).

Reads the CURRENT Rust sources under <repo>/crates and produces, for every type that gets a
Streamable implementation from `#[streamable...]` / `#[derive(Streamable)]` (and for the small
family of hand-written codecs whose `parse` body is a plain sequence of field parses), a type
term of the grammar of /verif/spec/Streamable.tla:

  {"k":"u","n":N} {"k":"i","n":N} {"k":"bool"} {"k":"opt","t":T} {"k":"opt2","a":T,"b":U}
  {"k":"vec","t":T} {"k":"tup","ts":[..]} {"k":"arr","t":T,"n":N} {"k":"bytesn","n":N}
  {"k":"bytes"} {"k":"str"} {"k":"enum","vals":[..]} {"k":"struct","fs":[{"n":name,"t":T}]}
  {"k":"g1"} {"k":"g2"} {"k":"prog"} {"k":"ref","name":X}
  {"k":"block","fs":[..]}   FullBlock / UnfinishedBlock: leading fields + versioned generator tail
  {"k":"pos"}               ProofOfSpace (fixed hand-written grammar, see the spec)

usage: schema.py [--repo /repo] [--names file-with-one-rust-type-expression-per-line] [--out f]
Output JSON: {"types": {name: term}, "top": {registry name: term}, "unmodelled": {name: reason}}
"""
import json
import os
import re
import sys

INTS = {"u8": ("u", 1), "u16": ("u", 2), "u32": ("u", 4), "u64": ("u", 8), "u128": ("u", 16),
        "i8": ("i", 1), "i16": ("i", 2), "i32": ("i", 4), "i64": ("i", 8), "i128": ("i", 16)}
# leaf codecs that are written by hand in the code and by hand in the spec
LEAVES = {"bool": {"k": "bool"}, "String": {"k": "str"}, "Bytes": {"k": "bytes"},
          "G1Element": {"k": "g1"}, "PublicKey": {"k": "g1"}, "G2Element": {"k": "g2"}, "Signature": {"k": "g2"},
          "Program": {"k": "prog"}}
CUSTOM_BLOCK = ("FullBlock", "UnfinishedBlock")
CUSTOM_POS = ("ProofOfSpace",)
# (crate dir, namespace, source sub dir)
CRATES = [("chia-protocol", "", "src"), ("chia-bls", "", "src"), ("chia-consensus", "consensus", "src"),
          ("chia-datalayer", "datalayer", "src")]
CRATE_PATH_PREFIX = {"chia_protocol": "", "chia_bls": "", "chia_consensus": "consensus", "chia_datalayer": "datalayer",
                     "consensus": "consensus", "datalayer": "datalayer", "crate": None, "super": None, "self": None}


class Unmodelled(Exception):
    pass


def strip_comments(src):
    src = re.sub(r"/\*.*?\*/", "", src, flags=re.S)
    return re.sub(r"//[^\n]*", "", src)


def strip_tests(src):
    # drop `#[cfg(test)] mod tests { ... }` tails (they may define helper structs)
    i = src.find("#[cfg(test)]\nmod ")
    return src if i < 0 else src[:i]


def skip_attr(src, i):
    """src[i] == '#': return index after the balanced #[...] attribute"""
    j = src.index("[", i)
    depth = 0
    while True:
        c = src[j]
        if c == "[":
            depth += 1
        elif c == "]":
            depth -= 1
            if depth == 0:
                return j + 1
        j += 1


def balanced(src, i, open_c, close_c):
    """src[i] == open_c: return (inner text, index after the closing char)"""
    depth = 0
    j = i
    while True:
        c = src[j]
        if c == open_c:
            depth += 1
        elif c == close_c:
            depth -= 1
            if depth == 0:
                return src[i + 1:j], j + 1
        j += 1


def split_top(s, sep=","):
    out, depth, cur = [], 0, ""
    for c in s:
        if c in "<([{":
            depth += 1
        elif c in ">)]}":
            depth -= 1
        if c == sep and depth == 0:
            out.append(cur)
            cur = ""
        else:
            cur += c
    if cur.strip():
        out.append(cur)
    return [x.strip() for x in out]


def drop_attrs(s):
    out = ""
    i = 0
    while i < len(s):
        if s[i] == "#" and s[i + 1:i + 2] in ("[", "!"):
            i = skip_attr(s, i)
        else:
            out += s[i]
            i += 1
    return out


class Extractor:
    def __init__(self, repo):
        self.repo = repo
        self.defs = {}      # (ns, name) -> ("struct", [(fname, typeexpr)]) | ("enum", [vals]) | ("custom", kind, fields)
        self.aliases = {}   # (ns, name) -> type expr
        self.manual = {}    # (ns, name) -> body of hand-written `fn parse`
        self.no_streamable = set()
        self.files = {}
        for crate, ns, sub in CRATES:
            root = os.path.join(repo, "crates", crate, sub)
            for dp, _, fns in sorted(os.walk(root)):
                for fn in sorted(fns):
                    if fn.endswith(".rs"):
                        self.scan(os.path.join(dp, fn), ns)

    def scan(self, path, ns):
        src = strip_tests(strip_comments(open(path, encoding="utf-8").read()))
        for m in re.finditer(r"^\s*(?:pub(?:\([a-z]+\))?\s+)?type\s+(\w+)\s*=\s*([^;]+);", src, flags=re.M):
            self.aliases[(ns, m.group(1))] = m.group(2).strip()
        for m in re.finditer(r"impl\s+Streamable\s+for\s+(\w+)\s*\{", src):
            body, _ = balanced(src, m.end() - 1, "{", "}")
            pm = re.search(r"fn\s+parse\s*<[^>]*>\s*\([^)]*\)\s*->\s*[^{]+\{", body)
            if pm:
                pbody, _ = balanced(body, pm.end() - 1, "{", "}")
                self.manual[(ns, m.group(1))] = pbody
        # items preceded by attributes
        i = 0
        n = len(src)
        while i < n:
            m = re.compile(r"#\[").search(src, i)
            if not m:
                break
            start = m.start()
            attrs = []
            j = start
            while True:
                k = j
                while k < n and src[k].isspace():
                    k += 1
                if k < n and src[k] == "#" and src[k + 1:k + 2] == "[":
                    e = skip_attr(src, k)
                    attrs.append(src[k:e])
                    j = e
                else:
                    j = k
                    break
            i = max(j, start + 2)
            allattr = " ".join(attrs)
            is_attr_macro = re.search(r"#\[\s*streamable\b", allattr) is not None
            is_derive = re.search(r"derive\s*\([^\]]*\bStreamable\b", allattr.replace("PyStreamable", "")) is not None
            if not (is_attr_macro or is_derive):
                continue
            im = re.compile(r"(?:pub(?:\([a-z]+\))?\s+)?(struct|enum)\s+(\w+)\s*").match(src, j)
            if not im:
                continue
            kind, name = im.group(1), im.group(2)
            k = im.end()
            key = (ns, name)
            if re.search(r"#\[\s*streamable\s*\(\s*no_streamable\s*\)", allattr):
                self.no_streamable.add(key)
            if kind == "enum":
                body, e = balanced(src, k, "{", "}")
                vals = []
                ok = True
                for v in split_top(drop_attrs(body)):
                    vm = re.fullmatch(r"\w+\s*=\s*(\d+)", v.strip())
                    if not vm:
                        ok = False
                        break
                    vals.append(int(vm.group(1)))
                self.defs[key] = ("enum", vals) if ok else ("bad", "enum without integer discriminants")
                i = e
            elif src[k] == "{":
                body, e = balanced(src, k, "{", "}")
                fields = []
                for f in split_top(drop_attrs(body)):
                    f = re.sub(r"^pub(?:\([a-z]+\))?\s+", "", f.strip())
                    if not f:
                        continue
                    fname, ftype = f.split(":", 1)
                    fields.append((fname.strip(), ftype.strip()))
                self.defs[key] = ("struct", fields)
                i = e
            elif src[k] == "(":
                body, e = balanced(src, k, "(", ")")
                fields = []
                for idx, f in enumerate(split_top(drop_attrs(body))):
                    f = re.sub(r"^pub(?:\([a-z]+\))?\s+", "", f.strip())
                    if f:
                        fields.append(("field_%d" % idx, f))
                self.defs[key] = ("struct", fields)
                i = e
            elif src[k] == ";":
                self.defs[key] = ("struct", [])
                i = k + 1

    # ---- type expressions -------------------------------------------------------------------
    def lookup(self, name, ns):
        for cand in ([ns] if ns is not None else []) + ["", "consensus", "datalayer"]:
            if (cand, name) in self.defs or (cand, name) in self.aliases or (cand, name) in self.manual:
                return cand
        return None

    def pubname(self, ns, name):
        others = [k for k in list(self.defs) + list(self.manual) if k[1] == name and k[0] != ns]
        return name if (ns == "" or not others) else ns + "::" + name

    def term(self, expr, ns):
        t = expr.strip()
        if t.startswith("&"):
            raise Unmodelled("reference type " + t)
        # strip a module path
        if "::" in t.split("<")[0]:
            head, rest = t.split("<")[0], t[len(t.split("<")[0]):]
            parts = head.split("::")
            pfx = parts[0]
            if pfx in CRATE_PATH_PREFIX and CRATE_PATH_PREFIX[pfx] is not None:
                ns = CRATE_PATH_PREFIX[pfx]
            t = parts[-1] + rest
        if t in INTS:
            return {"k": INTS[t][0], "n": INTS[t][1]}
        if t == "()":
            return {"k": "tup", "ts": []}
        m = re.fullmatch(r"Vec<(.+)>", t)
        if m:
            return {"k": "vec", "t": self.term(m.group(1), ns)}
        m = re.fullmatch(r"Option<(.+)>", t)
        if m:
            return {"k": "opt", "t": self.term(m.group(1), ns)}
        m = re.fullmatch(r"BytesImpl<\s*(\d+)\s*>", t)
        if m:
            return {"k": "bytesn", "n": int(m.group(1))}
        m = re.fullmatch(r"\((.*)\)", t)
        if m:
            return {"k": "tup", "ts": [self.term(x, ns) for x in split_top(m.group(1))]}
        m = re.fullmatch(r"\[(.+);\s*(\d+)\s*\]", t)
        if m:
            return {"k": "arr", "t": self.term(m.group(1), ns), "n": int(m.group(2))}
        if not re.fullmatch(r"\w+", t):
            raise Unmodelled("type expression not understood: " + t)
        if t in LEAVES and self.lookup(t, None) in (None, "") and ("", t) not in self.defs:
            return dict(LEAVES[t])
        where = self.lookup(t, ns)
        if where is None:
            raise Unmodelled("unknown type " + t)
        if (where, t) in self.aliases and (where, t) not in self.defs:
            return self.term(self.aliases[(where, t)], where)
        return {"k": "ref", "name": self.pubname(where, t)}

    # ---- definitions ------------------------------------------------------------------------
    def manual_fields(self, key, upto=None):
        """field list of a hand-written codec whose parse body is a plain sequence of
        `<T as Streamable>::parse::<TRUSTED>(input)?` and `parse::<TRUSTED, T, U>(input)?`"""
        body = self.manual[key]
        if upto is not None:
            cut = body.find(upto)
            if cut < 0:
                raise Unmodelled("hand-written codec: marker %r not found" % upto)
            body = body[:cut]
        else:
            cut = body.find("Ok(Self")
            if cut < 0:
                raise Unmodelled("hand-written codec not understood")
            body = body[:cut]
        fields = []
        for stmt in body.split(";"):
            s = " ".join(stmt.split())
            if not s:
                continue
            m = re.fullmatch(r"let (\w+) = <(.+) as Streamable>::parse::<TRUSTED>\(input\)\?", s)
            if m:
                fields.append({"n": m.group(1), "t": self.term(m.group(2), key[0])})
                continue
            m = re.fullmatch(r"let \((\w+), (\w+)\) = parse::<TRUSTED, (.+)>\(input\)\?", s)
            if m:
                a, b = split_top(m.group(3))
                fields.append({"n": m.group(1) + "+" + m.group(2), "t": {"k": "opt2", "a": self.term(a, key[0]), "b": self.term(b, key[0])}})
                continue
            raise Unmodelled("hand-written codec statement not understood: " + s[:80])
        return fields

    def definition(self, key):
        ns, name = key
        if ns == "" and name in CUSTOM_POS:
            if key not in self.manual:
                raise Unmodelled("ProofOfSpace is no longer hand-written")
            return {"k": "pos"}
        if ns == "" and name in CUSTOM_BLOCK:
            if key not in self.manual:
                raise Unmodelled(name + " is no longer hand-written")
            return {"k": "block", "fs": self.manual_fields(key, upto="let prefix")}
        if key in self.no_streamable or (key in self.manual and key not in self.defs):
            if key not in self.manual:
                raise Unmodelled("no_streamable without a Streamable impl")
            return {"k": "struct", "fs": self.manual_fields(key)}
        d = self.defs[key]
        if d[0] == "enum":
            return {"k": "enum", "vals": d[1]}
        if d[0] == "bad":
            raise Unmodelled(d[1])
        return {"k": "struct", "fs": [{"n": fn, "t": self.term(ft, ns)} for fn, ft in d[1]]}

    def build(self, names=None):
        types, unmodelled = {}, {}
        keys = sorted(set(self.defs) | {k for k in self.manual if k in self.no_streamable})
        for key in keys:
            pn = self.pubname(*key)
            try:
                types[pn] = self.definition(key)
            except Unmodelled as e:
                unmodelled[pn] = str(e)
        # a type is modelled only if everything it refers to is
        changed = True
        while changed:
            changed = False
            for pn in list(types):
                for r in refs(types[pn]):
                    if r not in types:
                        unmodelled[pn] = "refers to unmodelled " + r
                        del types[pn]
                        changed = True
                        break
        top = {}
        for nm in names or []:
            try:
                t = self.term(nm, "")
                bad = [r for r in refs(t) if r not in types]
                if bad:
                    raise Unmodelled("refers to unmodelled " + bad[0])
                top[nm] = t
            except Unmodelled as e:
                unmodelled[nm] = str(e)
        return {"types": types, "top": top, "unmodelled": unmodelled}


def refs(t):
    if isinstance(t, dict):
        if t.get("k") == "ref":
            yield t["name"]
        for v in t.values():
            yield from refs(v)
    elif isinstance(t, list):
        for v in t:
            yield from refs(v)


def extract(repo="/repo", names=None):
    return Extractor(repo).build(names)


def main():
    a = sys.argv[1:]
    repo = a[a.index("--repo") + 1] if "--repo" in a else "/repo"
    names = None
    if "--names" in a:
        names = [l.strip() for l in open(a[a.index("--names") + 1]) if l.strip()]
    res = extract(repo, names)
    txt = json.dumps(res, indent=None if "--out" in a else 1, sort_keys=True)
    if "--out" in a:
        open(a[a.index("--out") + 1], "w").write(txt)
        print("types=%d top=%d unmodelled=%d" % (len(res["types"]), len(res["top"]), len(res["unmodelled"])))
    else:
        print(txt)


if __name__ == "__main__":
    main()
