#!/bin/sh
# Re-record /verif/corpus/parse_spends_inputs.log.gz: the inputs (tree, limits, flags, visitor, constants) of every
# parse_spends call made by the chia-consensus test-suite, through the hook of the cargo feature `verif-hooks`
# (crates/chia-consensus/src/verif_hooks.rs). Inputs only; the checks run them again on the current tree.
set -e
T=${1:-/tmp/pslog-target}
L=$(mktemp /tmp/pslog.XXXXXX)
( cd /repo && CHIA_VERIF_PARSE_SPENDS_LOG=$L CARGO_TARGET_DIR=$T timeout 3000 cargo test -p chia-consensus --features verif-hooks --offline --lib -j 8 2>&1 | tail -3 )
mkdir -p /verif/corpus
sort -u $L | gzip -9 > /verif/corpus/parse_spends_inputs.log.gz
echo "recorded $(sort -u $L | wc -l) distinct inputs"
rm -f $L; rm -rf $T
