"""Shared driver library for /verif/bin/check (python3 stdlib only).

Pipeline stages (DESIGN 1.2):
  M  model check a TLA+ spec with TLC                       -> tlc()
  G  collect the JSON cases TLC prints from terminal states -> TlcResult.cases
  R  replay cases into the real code through the harness     -> harness()
  T  record traces from the real code, validate with TLC     -> tlc(trace=...)
Exit codes: 0 held, 1 only with a VIOLATION line, 2 tool failure.
"""
import hashlib
import json
import os
import re
import shutil
import subprocess
import sys
import time

sys.setrecursionlimit(1000000)
import threading
threading.stack_size(512 * 1024 * 1024)

V = "/verif"
REPO = os.environ.get("VERIF_REPO", "/repo")
# the overrides below are used only by tools/mutant.sh (private scratch copy of /repo + harness)
_PRIV = os.environ.get("VERIF_PRIVATE")
WORK = os.path.join(_PRIV or V, "work")
CACHE = os.path.join(V, "cache")
REPLAYS = os.path.join(_PRIV or V, "replays")
EVID = os.path.join(_PRIV or V, "evidence")
HARNESS = os.path.join(_PRIV or V, "harness")
SPEC_DIRS = [os.path.join(V, "spec", d) for d in ("lib", "", "mc", "trace")]


class ToolError(Exception):
    pass


def log(*a):
    print("[verif]", *a, file=sys.stderr, flush=True)


def seed_from_env(default=1):
    try:
        return int(os.environ.get("VERIF_SEED", default))
    except ValueError:
        return default


def find_spec(name):
    for d in SPEC_DIRS:
        p = os.path.join(d, name)
        if os.path.exists(p):
            return p
    raise ToolError("spec not found: " + name)


class TlcResult:
    def __init__(self):
        self.ok = False
        self.generated = 0
        self.distinct = 0
        self.depth = 0
        self.cases = []  # parsed JSON of PrintT(<<"CASE", json>>)
        self.tags = {}  # other PrintT(<<"TAG", json>>) lines by tag
        self.error = None  # first error text (invariant violated, ...)
        self.coverage = {}  # action name -> (distinct, total)
        self.out = ""
        self.wall = 0.0


_ESC = re.compile(r"\\(.)")


def _unescape(s):
    return _ESC.sub(lambda m: {"n": "\n", "t": "\t"}.get(m.group(1), m.group(1)), s)


_TAGLINE = re.compile(r'^<<"([A-Z_]+)", "(.*)">>$')


def tlc(
    spec,
    cfg=None,
    workers=8,
    timeout=1800,
    env=None,
    simulate=None,
    depth=None,
    dfs=False,
    coverage=False,
    xmx="6g",
    seed=None,
    tag="tlc",
    keep_cases=True,
    case_sink=None,
):
    """Run TLC (with the SHA override) on spec (.tla name or path)."""
    spec_path = spec if os.path.isabs(spec) else find_spec(spec)
    cfg_path = cfg if cfg and os.path.isabs(cfg) else find_spec(cfg or os.path.basename(spec_path)[:-4] + ".cfg")
    import tempfile
    os.makedirs(os.path.join(WORK, "tlc"), exist_ok=True)
    meta = tempfile.mkdtemp(prefix="%s-%d-" % (tag, os.getpid()), dir=os.path.join(WORK, "tlc"))
    cmd = [os.path.join(V, "bin", "vtlc"), "-metadir", meta, "-cleanup", "-noGenerateSpecTE", "-workers", str(workers)]
    if simulate:
        cmd += ["-simulate", "num=%d" % simulate]
        if depth:
            cmd += ["-depth", str(depth)]
    if coverage:
        cmd += ["-coverage", "1"]
    if seed is not None:
        cmd += ["-seed", str(seed)]
    cmd += ["-config", cfg_path, spec_path]
    e = dict(os.environ)
    e["VTLC_XMX"] = xmx
    if dfs:
        e["VTLC_DFS"] = "1"
    if env:
        e.update({k: str(v) for k, v in env.items()})
    t0 = time.time()
    res = TlcResult()
    try:
        p = subprocess.Popen(cmd, stdout=subprocess.PIPE, stderr=subprocess.STDOUT, env=e, cwd=os.path.dirname(spec_path), text=True, errors="replace")
    except OSError as ex:
        raise ToolError("cannot start TLC: %s" % ex)
    lines = []
    err_lines = []
    in_err = False
    deadline = t0 + timeout
    try:
        for line in p.stdout:
            line = line.rstrip("\n")
            m = _TAGLINE.match(line)
            if m:
                t, body = m.group(1), _unescape(m.group(2))
                try:
                    obj = json.loads(body)
                except ValueError:
                    obj = body
                if t == "CASE":
                    if case_sink is not None:
                        case_sink(obj)
                    elif keep_cases:
                        res.cases.append(obj)
                else:
                    res.tags.setdefault(t, []).append(obj)
                continue
            if len(lines) < 20000:
                lines.append(line)
            if line.startswith("Error:"):
                in_err = True
            if in_err and len(err_lines) < 80:
                err_lines.append(line)
            m = re.match(r"^(\d+) states generated, (\d+) distinct states found", line)
            if m:
                res.generated, res.distinct = int(m.group(1)), int(m.group(2))
            m = re.match(r"^The depth of the complete state graph search is (\d+)", line)
            if m:
                res.depth = int(m.group(1))
            m = re.match(r"^<(\w+) line \d+, col \d+ to line \d+, col \d+ of module \w+>: (\d+):(\d+)", line)
            if m:
                res.coverage[m.group(1)] = (int(m.group(2)), int(m.group(3)))
            if time.time() > deadline:
                p.kill()
                raise ToolError("TLC timeout after %ds: %s" % (timeout, spec))
        p.wait()
    finally:
        shutil.rmtree(meta, ignore_errors=True)
    res.wall = time.time() - t0
    res.out = "\n".join(lines)
    if err_lines:
        res.error = "\n".join(err_lines)
    res.ok = p.returncode == 0 and not err_lines
    if simulate and res.generated == 0:
        m = re.search(r"(\d+) states checked", res.out)
        if m:
            res.generated = res.distinct = int(m.group(1))
    return res


def tlc_must_pass(*a, **kw):
    r = tlc(*a, **kw)
    if not r.ok:
        raise ToolError("TLC failed on %s:\n%s" % (a[0], r.error or r.out[-3000:]))
    return r


_built = {}


def bin_for(domain):
    """each domain may live in its own binary harness/vh/src/bin/vh_<domain>.rs so that a
    compile error in one domain cannot break the checks of the others"""
    if os.path.exists(os.path.join(HARNESS, "vh", "src", "bin", "vh_%s.rs" % domain)):
        return "vh_" + domain
    return "vh"


def build_harness(pkg="vh", bin=None):
    """(Re)build the harness against /repo's current working tree."""
    bin = bin or pkg
    if (pkg, bin) in _built:
        return _built[(pkg, bin)]
    lock = os.path.join(HARNESS, "Cargo.lock")
    if not os.path.exists(lock):
        shutil.copy(os.path.join(REPO, "Cargo.lock"), lock)
    e = dict(os.environ)
    e["CARGO_NET_OFFLINE"] = "true"
    t0 = time.time()
    p = subprocess.run(["cargo", "build", "-q", "-p", pkg, "--bin", bin], cwd=HARNESS, env=e, stdout=subprocess.PIPE, stderr=subprocess.STDOUT, text=True)
    if p.returncode != 0:
        raise ToolError("harness build failed (does /repo still compile?):\n" + p.stdout[-6000:])
    log("harness %s built in %.1fs" % (bin, time.time() - t0))
    path = os.path.join(HARNESS, "target", "debug", bin)
    _built[(pkg, bin)] = path
    return path


def harness(args, pkg="vh", timeout=3600, stdin=None, env=None, check=True):
    exe = build_harness(pkg, bin_for(str(args[0])) if pkg == "vh" else None)
    e = dict(os.environ)
    if env:
        e.update({k: str(v) for k, v in env.items()})
    try:
        p = subprocess.run([exe] + [str(a) for a in args], stdout=subprocess.PIPE, stderr=subprocess.PIPE, text=True, timeout=timeout, input=stdin, env=e)
    except subprocess.TimeoutExpired:
        raise ToolError("harness timeout: %s" % (args,))
    if check and p.returncode != 0:
        raise ToolError("harness %s failed rc=%d:\n%s\n%s" % (args, p.returncode, p.stdout[-2000:], p.stderr[-4000:]))
    return p


def spec_hash(*names):
    """hash of ALL specification modules (spec/lib and spec/) plus the named files (MC module, cfg):
    any change to any specification invalidates every cached model-checking result"""
    h = hashlib.sha256()
    for d in SPEC_DIRS[:2]:
        for f in sorted(os.listdir(d)):
            if f.endswith(".tla"):
                h.update(open(os.path.join(d, f), "rb").read())
    for n in names:
        h.update(open(find_spec(n), "rb").read())
    return h.hexdigest()[:16]


def cached_cases(key_names, gen, extra=""):
    """Cases depend only on the spec; cache them under cache/<hash>/."""
    k = spec_hash(*key_names) + hashlib.sha256(extra.encode()).hexdigest()[:8]
    d = os.path.join(CACHE, k)
    f = os.path.join(d, "cases.ndjson")
    meta = os.path.join(d, "meta.json")
    if os.path.exists(f) and os.path.exists(meta):
        return f, json.load(open(meta))
    os.makedirs(d, exist_ok=True)
    # two checks may generate the same entry at the same time: private temporary names, atomic renames,
    # and the meta file (written last) is what marks the entry complete
    tmp = "%s.%d.tmp" % (f, os.getpid())
    with open(tmp, "w") as out:
        m = gen(out)
    os.replace(tmp, f)
    mtmp = "%s.%d.tmp" % (meta, os.getpid())
    with open(mtmp, "w") as mo:
        json.dump(m, mo)
    os.replace(mtmp, meta)
    return f, m


def workdir(pid):
    d = os.path.join(WORK, pid)
    os.makedirs(d, exist_ok=True)
    return d


class Check:
    """Collects results of one check run, writes evidence, decides exit code."""

    def __init__(self, pid, tier, level="model_checking"):
        self.pid = pid
        self.tier = tier
        self.level = level
        self.seed = seed_from_env()
        self.t0 = time.time()
        self.states = 0
        self.transitions = 0
        self.traces = 0
        self.evaluations = 0
        self.nontrivial = set()
        self.samples = []
        self.violations = []  # (signature dict, description, replay obj)
        self.extra = {}
        self.assumptions = []
        self.rule = ""
        self.known = load_known().get(pid, [])
        self.known_hit = []

    def add_tlc(self, r):
        self.states += r.distinct
        self.transitions += r.generated

    def sample(self, obj, limit=6):
        if len(self.samples) < limit:
            s = json.dumps(obj)
            if len(s) > 1500:
                s = s[:1500] + "..."
                self.samples.append(s)
            else:
                self.samples.append(obj)

    def nontrivial_add(self, fp):
        self.nontrivial.add(fp)

    def violation(self, sig, desc, replay):
        for k in self.known:
            if all(sig.get(a) == b for a, b in k["match"].items()):
                if k not in self.known_hit:
                    self.known_hit.append(k)
                return
        self.violations.append((sig, desc, replay))

    def finish(self):
        wall = time.time() - self.t0
        os.makedirs(EVID, exist_ok=True)
        cov = {
            "states": self.states,
            "transitions": self.transitions,
            "traces_validated_against_impl": self.traces,
            "evaluations": self.evaluations,
            "distinct_nontrivial": len(self.nontrivial),
            "rule": self.rule,
            "samples": self.samples or ["(none)"],
        }
        cov.update(self.extra)
        ev = {
            "property_id": self.pid,
            "tier": self.tier,
            "seed": self.seed,
            "level": self.level,
            "coverage": cov,
            "assumptions": self.assumptions,
            "wall_s": round(wall, 2),
            "violations": len(self.violations),
        }
        with open(os.path.join(EVID, self.pid + ".json"), "w") as f:
            json.dump(ev, f)
        for k in self.known_hit:
            print("KNOWN-FINDING: property=%s %s" % (self.pid, k["what"]))
        if self.violations:
            os.makedirs(REPLAYS, exist_ok=True)
            path = os.path.join(REPLAYS, "%s-%s-%d.json" % (self.pid, self.tier, self.seed))
            with open(path, "w") as f:
                json.dump([{"signature": s, "description": d, "case": r} for s, d, r in self.violations[:50]], f, indent=1)
            for s, d, r in self.violations[:10]:
                log("violation:", d)
            print("VIOLATION property=%s replay=%s" % (self.pid, path))
            return 1
        log("%s %s: held (states=%d transitions=%d traces=%d evaluations=%d nontrivial=%d, %.1fs)" % (self.pid, self.tier, self.states, self.transitions, self.traces, self.evaluations, len(self.nontrivial), wall))
        return 0


def load_known():
    p = os.path.join(V, "known_findings.json")
    out = {}
    if os.path.exists(p):
        for k in json.load(open(p)).get("findings", []):
            if k.get("status") == "known":
                out.setdefault(k["property"], []).append(k)
    return out


def read_ndjson(path):
    with open(path) as f:
        for line in f:
            line = line.strip()
            if line:
                yield json.loads(line)


def validate_trace(spec, trace_path, tag, timeout=1800, extra_env=None, xmx="4g"):
    """TLC trace validation: the trace spec reads IOEnv.TRACE, steps one event per
    state, collects mismatching event indices in TLC register 1 and reports
    them from its POSTCONDITION as <<"MISMATCH", json>> / <<"CONSUMED", n>>."""
    env = {"TRACE": trace_path}
    if extra_env:
        env.update(extra_env)
    r = tlc(spec, workers=1, dfs=True, env=env, timeout=timeout, tag=tag, xmx=xmx)
    return r
