------------------------------ MODULE Messages ------------------------------
(***************************************************************************)
(* Growth item X09: the SEND_MESSAGE / RECEIVE_MESSAGE matching machine of *)
(* chia-consensus (messages.rs, the two arms of parse_args, the message    *)
(* arms of parse_conditions and the counter check of validate_conditions), *)
(* as a STANDALONE machine, written from the README ("SEND_MESSAGE /       *)
(* RECEIVE_MESSAGE") and the code where the README leaves a choice open.   *)
(*                                                                         *)
(* A message condition is (op mode msg . idargs). mode is a canonical      *)
(* integer 0..63: the upper 3 bits say what the SENDER commits to          *)
(* (4 = parent, 2 = puzzle hash, 1 = amount), the lower 3 bits the same    *)
(* for the RECEIVER. The condition's own side is taken from the spend that *)
(* carries it, the other side from idargs: one argument per set bit, in    *)
(* the order parent, puzzle, amount - except that all three bits (7) is    *)
(* ONE 32-byte coin id. So "parent+puzzle+amount given separately" cannot  *)
(* be written at all; mode 6 (parent, puzzle) and mode 7 (coin id) naming  *)
(* the same coin are DIFFERENT keys and never match each other.            *)
(* The bundle is valid iff for every key (sender commitment, receiver      *)
(* commitment, message bytes) #sends = #receives.                          *)
(*                                                                         *)
(* One step function per critical section:                                 *)
(*   ApplyCond - one SEND/RECEIVE condition of spend i (parse, count)      *)
(*   FinishSt  - the deferred balance check                                *)
(***************************************************************************)
EXTENDS SExp, CoinId, FiniteSets, TLC

SEND == 66  RECEIVE == 67
ANNOUNCE_LIMIT == 1024

Bit(m, b) == (m \div b) % 2 = 1
IsHash32(x) == IsAtom(x) /\ Len(x.a) = 32
IsMsg(x) == IsAtom(x) /\ Len(x.a) <= 1024

\* a spend of the bundle; amt is a BigNat, the id is the real SHA-256 coin id
MkSpend(p, z, a) == [parent |-> p, ph |-> z, amt |-> a, id |-> CoinId(p, z, a)]

(* ----------------------------- commitments ------------------------------ *)
\* a commitment: the 3-bit mode and the committed attributes (unused ones empty)
Id(m, id, p, z, a) == [m |-> m, id |-> id, parent |-> p, ph |-> z, amt |-> a]

\* what spend sp is, seen through mode m (SpendId::from_self)
Commit(m, sp) ==
  IF m = 7 THEN Id(7, sp.id, <<>>, <<>>, <<>>)
  ELSE Id(m, <<>>, IF Bit(m, 4) THEN sp.parent ELSE <<>>, IF Bit(m, 2) THEN sp.ph ELSE <<>>,
          IF Bit(m, 1) THEN sp.amt ELSE <<>>)

\* does spend sp satisfy commitment c ?
Satisfies(sp, c) == Commit(c.m, sp) = c

\* the byte string the code uses as hash-map key for one side (SpendId::make_key)
IdBytes(c) ==
  <<c.m>> \o (IF c.m = 7 THEN c.id
              ELSE (IF Bit(c.m, 4) THEN c.parent ELSE <<>>) \o (IF Bit(c.m, 2) THEN c.ph ELSE <<>>)
                   \o (IF Bit(c.m, 1) THEN FixedBE(c.amt, 8) ELSE <<>>))
ByteKey(k) == IdBytes(k.src) \o IdBytes(k.dst) \o k.msg

(* ------------------------------ parsing --------------------------------- *)
Bad(e) == [ok |-> FALSE, err |-> e]

\* message mode: a canonical non-negative integer with only the low 6 bits
ModeOf(x) == IF IsPair(x) THEN -1
             ELSE IF x.a = <<>> THEN 0
             ELSE IF Len(x.a) = 1 /\ x.a[1] >= 1 /\ x.a[1] <= 63 THEN x.a[1]
             ELSE -1

TakeHash(args, code) ==
  IF ~IsPair(args) THEN Bad("InvalidCondition")
  ELSE IF ~IsHash32(args.l) THEN Bad(code)
  ELSE [ok |-> TRUE, v |-> args.l.a, rest |-> args.r]

TakeAmount(args) ==
  IF ~IsPair(args) THEN Bad("InvalidCondition")
  ELSE IF IsPair(args.l) THEN Bad("InvalidCoinAmount")
  ELSE LET s == Sanitize(args.l.a, 8) IN
       CASE s.k = "neg" -> Bad("CoinAmountNegative")
         [] s.k = "malformed" -> Bad("InvalidCoinAmount")
         [] s.k = "pos" -> Bad("CoinAmountExceedsMaximum")
         [] OTHER -> [ok |-> TRUE, v |-> s.v, rest |-> args.r]

Skip(args) == [ok |-> TRUE, v |-> <<>>, rest |-> args]

\* the counterpart named in the argument list (SpendId::parse): [ok, id, rest] or [ok = FALSE, err]
ParseId(args, m) ==
  IF m = 7 THEN
    LET h == TakeHash(args, "InvalidCoinId") IN
    IF h.ok THEN [ok |-> TRUE, id |-> Id(7, h.v, <<>>, <<>>, <<>>), rest |-> h.rest] ELSE h
  ELSE
    LET p == IF Bit(m, 4) THEN TakeHash(args, "InvalidParentId") ELSE Skip(args) IN
    IF ~p.ok THEN p ELSE
    LET z == IF Bit(m, 2) THEN TakeHash(p.rest, "InvalidPuzzleHash") ELSE Skip(p.rest) IN
    IF ~z.ok THEN z ELSE
    LET a == IF Bit(m, 1) THEN TakeAmount(z.rest) ELSE Skip(z.rest) IN
    IF ~a.ok THEN a
    ELSE [ok |-> TRUE, id |-> Id(m, <<>>, p.v, z.v, a.v), rest |-> a.rest]

SrcMode(mode) == mode \div 8
DstMode(mode) == mode % 8

\* one condition's arguments (everything after the opcode)
ParseCond(op, args, strict) ==
  IF ~IsPair(args) THEN Bad("InvalidCondition")
  ELSE LET mode == ModeOf(args.l) IN
    IF mode = -1 THEN Bad("InvalidMessageMode")
    ELSE IF ~IsPair(args.r) THEN Bad("InvalidCondition")
    ELSE IF ~IsMsg(args.r.l) THEN Bad("InvalidMessage")
    ELSE LET o == ParseId(args.r.r, IF op = SEND THEN DstMode(mode) ELSE SrcMode(mode)) IN
      IF ~o.ok THEN o
      ELSE IF strict /\ ~IsNil(o.rest) THEN Bad("InvalidCondition")
      ELSE [ok |-> TRUE, mode |-> mode, msg |-> args.r.l.a, other |-> o.id]

KeyOf(op, sp, pc) ==
  IF op = SEND THEN [src |-> Commit(SrcMode(pc.mode), sp), dst |-> pc.other, msg |-> pc.msg]
  ELSE [src |-> pc.other, dst |-> Commit(DstMode(pc.mode), sp), msg |-> pc.msg]

(* ------------------------------- machine -------------------------------- *)
\* in: [spends : Seq(spend), strict : BOOLEAN, cc : BOOLEAN]  (cc = COST_CONDITIONS: no per-spend limit)
Start(in) == [bal |-> <<>>,                                   \* key -> #sends - #receives (a function)
              hist |-> <<>>,                                  \* ghost: the counted conditions, in order
              ann |-> [i \in DOMAIN in.spends |-> ANNOUNCE_LIMIT],
              err |-> "", done |-> FALSE]

Bump(bal, k, d) == IF k \in DOMAIN bal THEN [bal EXCEPT ![k] = @ + d] ELSE bal @@ (k :> d)

ApplyCond(in, st, i, op, args) ==
  IF st.err # "" \/ st.done THEN st
  ELSE LET pc == ParseCond(op, args, in.strict) IN
    IF ~pc.ok THEN [st EXCEPT !.err = pc.err]
    ELSE IF ~in.cc /\ st.ann[i] = 0 THEN [st EXCEPT !.err = "TooManyAnnouncements"]
    ELSE LET k == KeyOf(op, in.spends[i], pc) IN
         [st EXCEPT !.bal = Bump(@, k, IF op = SEND THEN 1 ELSE -1),
                    !.hist = Append(@, [op |-> op, sp |-> i, mode |-> pc.mode, key |-> k]),
                    !.ann[i] = IF in.cc THEN @ ELSE @ - 1]

Balanced(bal) == \A k \in DOMAIN bal : bal[k] = 0

FinishSt(st) ==
  IF st.done THEN st
  ELSE [st EXCEPT !.done = TRUE,
                  !.err = IF st.err # "" THEN st.err
                          ELSE IF ~Balanced(st.bal) THEN "MessageNotSentOrReceived" ELSE ""]

\* a whole bundle: conds is a sequence of [sp, op, args] in parse order
RECURSIVE RunFrom(_, _, _, _)
RunFrom(in, st, conds, n) ==
  IF n > Len(conds) \/ st.err # "" THEN st
  ELSE RunFrom(in, ApplyCond(in, st, conds[n].sp, conds[n].op, conds[n].args), conds, n + 1)
Run(in, conds) == FinishSt(RunFrom(in, Start(in), conds, 1))

Accepted(st) == st.done /\ st.err = ""

(* ------------------------ declarative properties ------------------------ *)
\* (these talk about the ghost history only; they never look at bal)
Sends(h) == {i \in DOMAIN h : h[i].op = SEND}
Recvs(h) == {i \in DOMAIN h : h[i].op = RECEIVE}
Keys(h) == {h[i].key : i \in DOMAIN h}
Count(h, S, k) == Cardinality({i \in S : h[i].key = k})

\* "for every key the number of sends equals the number of receives"
CountsEqual(h) == \A k \in Keys(h) : Count(h, Sends(h), k) = Count(h, Recvs(h), k)

\* a perfect matching: a bijection from send events to receive events that preserves the key
PerfectMatching(h) ==
  /\ Cardinality(Sends(h)) = Cardinality(Recvs(h))
  /\ \E f \in [Sends(h) -> Recvs(h)] :
       /\ \A a, b \in Sends(h) : a # b => f[a] # f[b]
       /\ \A a \in Sends(h) : h[f[a]].key = h[a].key
=============================================================================
