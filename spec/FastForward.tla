---------------------------- MODULE FastForward ----------------------------
(***************************************************************************)
(* C19, part B: fast-forwarding a singleton spend onto a newer coin of the *)
(* same singleton.                                                         *)
(*                                                                         *)
(* A singleton coin's puzzle is the singleton top layer curried with       *)
(*   struct = (mod_hash . (launcher_id . launcher_puzzle_hash))  and the   *)
(*   inner puzzle;                                                         *)
(* its solution is (lineage_proof my_amount inner_solution) where a        *)
(* lineage proof (parent_parent_id parent_inner_puzzle_hash parent_amount) *)
(* describes the parent coin (an eve proof has two elements). The top      *)
(* layer asserts  my_amount  and  my parent id = CoinId(parent_parent_id,  *)
(* singleton puzzle hash with parent_inner_puzzle_hash, parent_amount).    *)
(*                                                                         *)
(* The call is abstracted to what matters (hashes are real SHA-256):       *)
(*  in.shape      "curried" when the reveal is a program curried with      *)
(*                exactly two arguments (anything else cannot be parsed)   *)
(*  in.prog_hash  tree hash of the curried program                         *)
(*  in.structsx   first curried argument (S-expression)                    *)
(*  in.inner_hash tree hash of the second curried argument                 *)
(*  in.sol        the solution (S-expression)                              *)
(*  in.coin, in.nc (new coin), in.np (parent of the new coin)              *)
(***************************************************************************)
EXTENDS ConditionsObs, ClvmSer

\* tree hash of singleton_top_layer_v1_1.clsp (chia-puzzles; the harness re-derives it from the program bytes)
SingletonModHash == <<127, 170, 50, 83, 191, 221, 209, 224, 222, 203, 9, 6, 178, 220, 98, 71,
                      187, 196, 207, 96, 143, 88, 52, 93, 23, 58, 219, 99, 232, 180, 124, 159>>

(* ---- tree hashes of curried programs, from the tree hashes of the parts ---- *)
AtomH(b) == SHA256(<<1>> \o b)
PairH(x, y) == SHA256(<<2>> \o x \o y)
QuoteH(h) == PairH(AtomH(<<1>>), h)                                    \* (q . X)
RECURSIVE CurryEnvH(_)
CurryEnvH(hs) == IF hs = <<>> THEN AtomH(<<1>>)                        \* 1
                 ELSE PairH(AtomH(<<4>>), PairH(QuoteH(hs[1]), PairH(CurryEnvH(Tail(hs)), AtomH(<<>>))))   \* (c (q . A) rest)
CurryH(progH, hs) == PairH(AtomH(<<2>>), PairH(QuoteH(progH), PairH(CurryEnvH(hs), AtomH(<<>>))))       \* (a (q . P) env)

(* ---- decoding (clvm-traits list / integer conventions) ---- *)
\* u64: at most 8 significant bytes, no sign bit, up to 64 bytes of zero padding beyond 8 bytes
U64Ok(x) == IsAtom(x) /\ (x.a = <<>> \/ (x.a[1] < 128 /\ Len(Norm(x.a)) <= 8 /\ Len(x.a) <= 72))
U64Val(x) == Norm(x.a)

ParseStruct(x) ==
  IF IsPair(x) /\ IsHash(x.l, 32) /\ IsPair(x.r) /\ IsHash(x.r.l, 32) /\ IsHash(x.r.r, 32)
  THEN [ok |-> TRUE, mod |-> x.l.a, lid |-> x.r.l.a, lph |-> x.r.r.a] ELSE [ok |-> FALSE]

\* clvm-traits "list" representation: the listed elements must be present, whatever follows them is
\* ignored (documented leniency); the ignored tails are kept here so that the rewrite can be compared
ParseProof(x) ==
  IF IsPair(x) /\ IsHash(x.l, 32) /\ IsPair(x.r) /\ IsHash(x.r.l, 32) /\ IsPair(x.r.r) /\ U64Ok(x.r.r.l)
  THEN [ok |-> TRUE, k |-> "lineage", pp |-> x.l.a, pih |-> x.r.l.a, pamt |-> U64Val(x.r.r.l), tail |-> x.r.r.r]
  ELSE IF IsPair(x) /\ IsHash(x.l, 32) /\ IsPair(x.r) /\ U64Ok(x.r.l)
  THEN [ok |-> TRUE, k |-> "eve", pp |-> x.l.a, pamt |-> U64Val(x.r.l), tail |-> x.r.r]
  ELSE [ok |-> FALSE]

ParseSolution(x) ==
  IF IsPair(x) /\ IsPair(x.r) /\ IsPair(x.r.r) /\ ParseProof(x.l).ok /\ U64Ok(x.r.l)
  THEN [ok |-> TRUE, proof |-> ParseProof(x.l), amount |-> U64Val(x.r.l), inner |-> x.r.r.l, tail |-> x.r.r.r] ELSE [ok |-> FALSE]

SolutionSx(s) ==
  ListWithTail(<<IF s.proof.k = "lineage" THEN ListWithTail(<<Atom(s.proof.pp), Atom(s.proof.pih), Atom(Enc(s.proof.pamt))>>, s.proof.tail)
                                           ELSE ListWithTail(<<Atom(s.proof.pp), Atom(Enc(s.proof.pamt))>>, s.proof.tail),
                 Atom(Enc(s.amount)), s.inner>>, s.tail)
\* the same solution without what a lenient parser ignores
DropTails(s) == [s EXCEPT !.tail = Nil, !.proof.tail = Nil]

IdOf(c) == CoinIdOf(c.parent, c.ph, Enc(c.amt))
\* puzzle hash of the singleton (struct) with an inner puzzle of hash ih
SingletonPH(structsx, ih) == CurryH(SingletonModHash, <<TreeHash(structsx), ih>>)
PuzzleHashOf(in) == CurryH(in.prog_hash, <<TreeHash(in.structsx), in.inner_hash>>)

(* ---- the rule ---- *)
Parses(in) == in.shape = "curried" /\ ParseStruct(in.structsx).ok /\ ParseSolution(in.sol).ok

GOdd(in)     == IsOdd(in.coin.amt) /\ IsOdd(in.np.amt) /\ IsOdd(in.nc.amt)
GSamePh(in)  == in.coin.ph = in.np.ph /\ in.coin.ph = in.nc.ph
GLineage(in) == ParseSolution(in.sol).proof.k = "lineage"
GMod(in)     == ParseStruct(in.structsx).mod = SingletonModHash /\ in.prog_hash = SingletonModHash
GAmount(in)  == in.coin.amt = ParseSolution(in.sol).amount
GParent(in)  == LET p == ParseSolution(in.sol).proof IN
                CoinIdOf(p.pp, SingletonPH(in.structsx, p.pih), Enc(p.pamt)) = in.coin.parent
GInner(in)   == in.inner_hash = ParseSolution(in.sol).proof.pih
GPuzzle(in)  == PuzzleHashOf(in) = in.coin.ph
GNewParent(in) == in.nc.parent = IdOf(in.np)

\* the spend is a genuine singleton spend of in.coin with matching lineage, and (nc, np) is a
\* later coin of the same singleton with its parent
FFGuard(in) == /\ GOdd(in) /\ GSamePh(in) /\ Parses(in) /\ GLineage(in) /\ GMod(in) /\ GAmount(in)
               /\ GParent(in) /\ GInner(in) /\ GPuzzle(in) /\ GNewParent(in)

\* exactly three fields of the solution are replaced
FFResult(in) == LET s == ParseSolution(in.sol) IN
                [s EXCEPT !.proof.pp = in.np.parent, !.proof.pamt = in.np.amt, !.amount = in.nc.amt]
FFResultSx(in) == SolutionSx(FFResult(in))
FFResultNoTailsSx(in) == SolutionSx(DropTails(FFResult(in)))
Rewrite(in) == IF FFGuard(in) THEN [ok |-> TRUE, sol |-> FFResultSx(in)] ELSE [ok |-> FALSE]

(* ---- properties of the rule (checked by MC_FastForward) ---- *)
OnlyThreeFields(in) ==
  FFGuard(in) => LET a == ParseSolution(in.sol)  b == ParseSolution(Rewrite(in).sol) IN
                 /\ b.ok /\ b.inner = a.inner /\ b.proof.k = a.proof.k /\ b.proof.pih = a.proof.pih
                 /\ b.tail = a.tail /\ b.proof.tail = a.proof.tail
                 /\ b.proof.pp = in.np.parent /\ b.proof.pamt = in.np.amt /\ b.amount = in.nc.amt
Refuses(in) == ~FFGuard(in) => ~Rewrite(in).ok
\* what the top layer asserts about itself when run with solution s: amount and parent id
TopLayerHolds(in, solsx, coin) ==
  LET s == ParseSolution(solsx) IN
  /\ s.ok /\ s.proof.k = "lineage"
  /\ s.amount = coin.amt
  /\ CoinIdOf(s.proof.pp, SingletonPH(in.structsx, s.proof.pih), Enc(s.proof.pamt)) = coin.parent
  /\ PuzzleHashOf(in) = coin.ph
\* an accepted rewrite is a valid top-layer spend of the NEW coin
Sound(in) == FFGuard(in) => TopLayerHolds(in, Rewrite(in).sol, in.nc)

(* ---- semantic side, on outputs of the real puzzle (trace) ---- *)
IsCondOp(c, op) == IsPair(c) /\ c.l = Atom(<<op>>)
SelfAssertionOf(c, coin) ==
  \/ c = ListOf(<<Atom(<<ASSERT_MY_AMOUNT>>), Atom(Enc(coin.amt))>>)
  \/ c = ListOf(<<Atom(<<ASSERT_MY_PARENT_ID>>), Atom(coin.parent)>>)
\* the new output is the old output with self-assertions re-targeted to the new coin
Retargeted(out1, out2, nc) ==
  LET a == Elems(out1)  b == Elems(out2) IN
  /\ Len(a) = Len(b) /\ Terminator(out1) = Terminator(out2)
  /\ \A i \in DOMAIN a : a[i] = b[i] \/ (SelfAssertionOf(b[i], nc) /\ IsPair(a[i]) /\ a[i].l = b[i].l)
CountOp(out, op) == Cardinality({i \in DOMAIN Elems(out) : IsCondOp(Elems(out)[i], op)})

Big == <<127, 255, 255, 255, 255, 255, 255, 255>>
CoinSpendSx(c, out) == ListOf(<<Atom(c.parent), Atom(c.ph), Atom(Enc(c.amt)), out>>)
MachineIn(coin, out, funders, consts, vk) ==
  [tree |-> ListOf(<<ListOf(<<CoinSpendSx(coin, out)>> \o [i \in DOMAIN funders |-> CoinSpendSx(funders[i], Nil)])>>),
   flags |-> {"DONT_VALIDATE_SIGNATURE"}, max |-> Big, clvm |-> Zero, vis |-> "mempool", consts |-> consts, validKeys |-> vk]
=============================================================================
