----------------------------- MODULE KeyAlgebra -----------------------------
(* C16, part A: symbolic exponent algebra of the BLS key operations.        *)
(*                                                                          *)
(* The group is abstracted as the free module over "atoms": a secret key is *)
(* a formal linear form  sum c_a * a  with small positive coefficients over *)
(*   seed(i)          the master key of seed i                              *)
(*   h(F, idx)        the unhardened tweak  SHA256(bytes(PK(F)) || idx)      *)
(*   syn(F, hid)      the synthetic offset  SHA256(bytes(PK(F)) || hidden)   *)
(*   hard(F, idx)     the hardened child of the secret key F (a fresh key)  *)
(* where F is itself a linear form (the argument of the hash is a group     *)
(* element and the encoding of group elements is injective, part B).        *)
(* PK(x) is the homomorphic image: the same form tagged "pk". A signature   *)
(* is  sk-form x H2(pk-form, message)  (augmented scheme), i.e. the pair    *)
(* (form, message token).  Hash atoms are uninterpreted and independent:    *)
(* two values are equal in the model iff their normal forms are identical.  *)
(* The binding (Trace_Keys) requires the byte-equality relation among the   *)
(* real keys to be exactly this relation.                                   *)
EXTENDS Integers, Sequences, FiniteSets, TLC, BigNat

\* ---------------------------------------------------------------- forms --
ZeroF == <<>>                                    \* the function with empty domain
Coef(f, a) == IF a \in DOMAIN f THEN f[a] ELSE 0
AddF(f, g) == [a \in (DOMAIN f) \cup (DOMAIN g) |-> Coef(f, a) + Coef(g, a)]
Gen(a) == a :> 1

\* atoms: x = string token (seed name / hidden-puzzle token), n = BigNat index
Atom(t, f, x, n) == [t |-> t, f |-> f, x |-> x, n |-> n]
SeedAtom(s)     == Atom("seed", ZeroF, s, <<>>)
HAtom(f, n)     == Atom("h", f, "", n)
HardAtom(f, n)  == Atom("hard", f, "", n)
\* the hidden puzzle hash tokens "D" (derive_synthetic(), the default hash) and "DX"
\* (derive_synthetic_hidden(&DEFAULT_HIDDEN_PUZZLE_HASH)) denote the same 32 bytes
HidCanon(x) == IF x = "DX" THEN "D" ELSE x
SynAtom(f, x)   == Atom("syn", f, HidCanon(x), <<>>)

\* --------------------------------------------------------------- values --
V(k, f, m) == [k |-> k, f |-> f, m |-> m]         \* k in {"sk","pk","sig"}; m = message token of a signature
NilV == V("nil", ZeroF, "")
IsSk(v) == v.k = "sk"
IsPk(v) == v.k = "pk"

Pub(v)          == V("pk", v.f, "")
DeriveU(v, n)   == V(v.k, AddF(v.f, Gen(HAtom(v.f, n))), "")      \* same rule on sk and on pk
DeriveH(v, n)   == V("sk", Gen(HardAtom(v.f, n)), "")
AddV(v, w)      == V(v.k, AddF(v.f, w.f), "")
Synth(v, x)     == V(v.k, AddF(v.f, Gen(SynAtom(v.f, x))), "")     \* same rule on sk and on pk
SignV(v, m)     == V("sig", v.f, m)

\* documented derivation paths (derive_keys.rs)
I12381 == <<48, 93>>
I8444  == <<32, 252>>
I2 == <<2>>
I5 == <<5>>
I6 == <<6>>
PathU(v, path) == LET RECURSIVE G(_, _)
                      G(w, p) == IF p = <<>> THEN w ELSE G(DeriveU(w, p[1]), Tail(p))
                  IN G(v, path)
PathH(v, path) == LET RECURSIVE G(_, _)
                      G(w, p) == IF p = <<>> THEN w ELSE G(DeriveH(w, p[1]), Tail(p))
                  IN G(v, path)
PoolAuthIndex(pw, idx) == Add(MulSmall(pw, 10000), idx)

\* ----------------------------------------------------------- operations --
\* one operation = [op, a, b, x, n, n2]; a, b operands (values here), x token, n / n2 indices
SkOps1 == {"dsk", "hard", "pub", "synsk", "sign", "wu_sk", "wui_sk", "wh", "whi", "ps", "pa"}
PkOps1 == {"dpk", "synpk", "wu_pk", "wui_pk"}
AnyOps1 == {"ser"}
SkOps2 == {"addsk"}
PkOps2 == {"addpk"}
Ops0 == {"seed"}
Arity(op) == IF op \in Ops0 THEN 0 ELSE IF op \in SkOps2 \cup PkOps2 THEN 2 ELSE 1

\* is the operation applicable to operand values va, vb
WellTyped(op, va, vb) ==
  CASE op \in Ops0 -> TRUE
    [] op \in SkOps1 -> IsSk(va)
    [] op \in PkOps1 -> IsPk(va)
    [] op \in AnyOps1 -> va.k \in {"sk", "pk", "sig"}
    [] op \in SkOps2 -> IsSk(va) /\ IsSk(vb)
    [] op \in PkOps2 -> IsPk(va) /\ IsPk(vb)
    [] OTHER -> FALSE

Apply(op, va, vb, x, n, n2) ==
  CASE op = "seed"   -> V("sk", Gen(SeedAtom(x)), "")
    [] op = "dsk"    -> DeriveU(va, n)
    [] op = "dpk"    -> DeriveU(va, n)
    [] op = "hard"   -> DeriveH(va, n)
    [] op = "pub"    -> Pub(va)
    [] op = "addsk"  -> AddV(va, vb)
    [] op = "addpk"  -> AddV(va, vb)
    [] op = "synsk"  -> Synth(va, x)
    [] op = "synpk"  -> Synth(va, x)
    [] op = "sign"   -> SignV(va, x)
    [] op = "ser"    -> va                                           \* to_bytes / from_bytes is the identity
    [] op = "wu_sk"  -> PathU(va, <<I12381, I8444, I2, n>>)          \* master_to_wallet_unhardened
    [] op = "wu_pk"  -> PathU(va, <<I12381, I8444, I2, n>>)
    [] op = "wui_sk" -> PathU(va, <<I12381, I8444, I2>>)             \* master_to_wallet_unhardened_intermediate
    [] op = "wui_pk" -> PathU(va, <<I12381, I8444, I2>>)
    [] op = "wh"     -> PathH(va, <<I12381, I8444, I2, n>>)          \* master_to_wallet_hardened
    [] op = "whi"    -> PathH(va, <<I12381, I8444, I2>>)             \* master_to_wallet_hardened_intermediate
    [] op = "ps"     -> PathH(va, <<I12381, I8444, I5, n>>)          \* master_to_pool_singleton
    [] op = "pa"     -> PathH(va, <<I12381, I8444, I6, PoolAuthIndex(n, n2)>>)  \* master_to_pool_authentication

\* ------------------------------------------------------ scripts (stores) --
\* flat script: operands are indices of earlier store entries (0 = none)
Opnd(store, i) == IF i = 0 THEN NilV ELSE store[i]
ScriptWellFormed(ops) ==
  LET RECURSIVE G(_, _)
      G(store, k) ==
        IF k > Len(ops) THEN TRUE
        ELSE LET o == ops[k] IN
             /\ o.a \in 0..(k - 1) /\ o.b \in 0..(k - 1)
             /\ (Arity(o.op) >= 1 => o.a > 0) /\ (Arity(o.op) = 2 => o.b > 0)
             /\ WellTyped(o.op, Opnd(store, o.a), Opnd(store, o.b))
             /\ G(Append(store, Apply(o.op, Opnd(store, o.a), Opnd(store, o.b), o.x, o.n, o.n2)), k + 1)
  IN G(<<>>, 1)
EvalScript(ops) ==
  LET RECURSIVE G(_, _)
      G(store, k) ==
        IF k > Len(ops) THEN store
        ELSE LET o == ops[k] IN
             G(Append(store, Apply(o.op, Opnd(store, o.a), Opnd(store, o.b), o.x, o.n, o.n2)), k + 1)
  IN G(<<>>, 1)

\* the equality relation as class numbers: class of entry i = least j with the same value
ClassOf(vals, i) == CHOOSE j \in 1..i : vals[j] = vals[i] /\ \A k \in 1..(j - 1) : vals[k] # vals[i]
Classes(vals) == [i \in DOMAIN vals |-> ClassOf(vals, i)]

\* ------------------------------------------------------ terms (for MC) --
\* a term is an operation whose operands are terms; Nil fills unused operand slots
NilT == [op |-> "nil"]
T0(op, x) == [op |-> op, a |-> NilT, b |-> NilT, x |-> x, n |-> <<>>, n2 |-> <<>>]
T1(op, a, x, n) == [op |-> op, a |-> a, b |-> NilT, x |-> x, n |-> n, n2 |-> <<>>]
T1b(op, a, n, n2) == [op |-> op, a |-> a, b |-> NilT, x |-> "", n |-> n, n2 |-> n2]
T2(op, a, b) == [op |-> op, a |-> a, b |-> b, x |-> "", n |-> <<>>, n2 |-> <<>>]

RECURSIVE NF(_)
NF(t) == IF t.op = "nil" THEN NilV
         ELSE IF Arity(t.op) = 0 THEN Apply(t.op, NilV, NilV, t.x, t.n, t.n2)
         ELSE IF Arity(t.op) = 1 THEN Apply(t.op, NF(t.a), NilV, t.x, t.n, t.n2)
         ELSE Apply(t.op, NF(t.a), NF(t.b), t.x, t.n, t.n2)
=============================================================================
