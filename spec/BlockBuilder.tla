---------------------------- MODULE BlockBuilder ----------------------------
(***************************************************************************)
(* C10: the two block builders of chia-consensus                            *)
(*   compressed: build_compressed_block.rs  (BlockBuilder, incremental      *)
(*               back-reference Serializer with restore(state) undo)        *)
(*   interned:   build_interned_block.rs    (InternedBlockBuilder, vbyte    *)
(*               estimate per spend, allocator checkpoint undo)             *)
(* A history is a sequence of add_spend_bundles(batch, declared cost) calls *)
(* followed by finalize(). The specification is the guard arithmetic of     *)
(* both files, exit by exit, over an abstract notion of "size":             *)
(*   compressed: size = Serializer::size() (bytes written so far, 3 for the *)
(*               prefix ff 01 ff); the closing of the two lists costs 2     *)
(*               more bytes, so byteCost = (size + 2) * cpb                 *)
(*   interned:   size = sum over accepted spends of (isolated interned      *)
(*               vbytes + 3); byteCost = size * cpb and every comparison    *)
(*               and cost() add WRAPPER_VBYTES (11) * cpb                   *)
(* What the serializer / interner do with the bytes is NOT modelled: the    *)
(* tentative size s of an add is an input of AddStep, constrained only by   *)
(* TentativeSizes (back references only shrink; isolated vbytes are exact), *)
(* and the exact final size is constrained only by FinalSizes (the triangle *)
(* inequality of interning, stated as an ASSUME-style envelope).            *)
(*                                                                         *)
(* The functional core takes the configuration c = [kind, max, cpb, thr,    *)
(* skip] (thr = MIN_COST_THRESHOLD, skip = MAX_SKIPPED_ITEMS)               *)
(* and the state record as arguments so that the trace specification can    *)
(* run many histories with different configurations; the state machine      *)
(* below (variables + actions) is the same thing for the model checker.     *)
(***************************************************************************)
EXTENDS Integers, Sequences, FiniteSets

QuoteCost    == 20     \* block_cost starts with the cost of executing the quote
MaxSkippedItems == 6   \* MAX_SKIPPED_ITEMS (c.skip of the real builders; scaled down by the model checker)
WrapperVB    == 11     \* WRAPPER_VBYTES: interned weight of (q . ((spend_list)))
InitSerSize  == 3      \* ff 01 ff is written by BlockBuilder::new()
ClosingBytes == 2      \* "closing the lists at the end needs 2 extra bytes"

IsCompressed(c) == c.kind = "compressed"
WrapCost(c)     == IF IsCompressed(c) THEN 0 ELSE WrapperVB * c.cpb
ByteCostOf(c, s) == IF IsCompressed(c) THEN (s + ClosingBytes) * c.cpb ELSE s * c.cpb

\* the smallest block: what finalize() charges for the empty generator
EmptyFinalCost(c) == QuoteCost + (IF IsCompressed(c) THEN InitSerSize + ClosingBytes ELSE WrapperVB) * c.cpb
\* configurations the property quantifies over: the empty block fits
ConfigOk(c) == c.kind \in {"compressed", "interned"} /\ c.cpb >= 1 /\ c.thr >= 0 /\ c.skip >= 0 /\ c.max >= EmptyFinalCost(c)

(* state: blockCost, byteCost, size, skipped, acc = sequence of [b |-> batch, d |-> declared],       *)
(* sigs = sequence (bag) of the signature ids aggregated into self.signature.                         *)
(* batch b = [n (spends), plain (bytes of the uncompressed serialisation of what the batch appends    *)
(* to the stream: 1 + SerLen(item) per spend), iso (sum of isolated vbytes + 3 per spend), spends,    *)
(* sigs, truthful (execution + condition cost of the batch)]                                          *)
\* NOTE byteCost starts at 0 in BOTH builders as written today: the compressed builder only computes
\* (size + 2) * cpb when an add reaches the serializer, so until then its cost() ignores the 5 bytes of the
\* empty block ("stale" start, see Stale and EstimateUpper below). A compressed builder that starts with the
\* exact byte cost of the empty block is equally admitted (exactStart), so that repairing the estimate is not
\* reported as a deviation.
InitStateWith(c, exactStart) ==
  [blockCost |-> QuoteCost, byteCost |-> IF IsCompressed(c) /\ exactStart THEN ByteCostOf(c, InitSerSize) ELSE 0,
   size |-> IF IsCompressed(c) THEN InitSerSize ELSE 0, skipped |-> 0, acc |-> <<>>, sigs |-> <<>>]
InitState(c)  == InitStateWith(c, FALSE)
InitStates(c) == IF IsCompressed(c) THEN {InitStateWith(c, FALSE), InitStateWith(c, TRUE)} ELSE {InitState(c)}

\* cost(): the running estimate
Est(c, st) == st.byteCost + WrapCost(c) + st.blockCost
\* result(num_skipped)
GiveUp(c, skipped) == skipped > c.skip

\* AddTentative: the sizes the serializer / the vbyte sum may have after tentatively appending b
TentativeSizes(c, st, b) ==
  IF IsCompressed(c) THEN (IF b.n = 0 THEN {st.size} ELSE (st.size + 1)..(st.size + b.plain))
  ELSE {st.size + b.iso}

\* one add_spend_bundles(b, d) call whose tentative size is s: the exit taken, the returned pair and the next state
AddStep(c, st, b, d, s) ==
  IF Est(c, st) + c.thr > c.max
  THEN \* "very close to a full block": only the compressed builder counts it as skipped
       [exit |-> "full", added |-> FALSE, done |-> TRUE,
        st |-> [st EXCEPT !.skipped = IF IsCompressed(c) THEN @ + 1 ELSE @]]
  ELSE IF Est(c, st) + d > c.max
  THEN [exit |-> "declared", added |-> FALSE, done |-> GiveUp(c, st.skipped + 1), st |-> [st EXCEPT !.skipped = @ + 1]]
  ELSE LET bc == ByteCostOf(c, s)
           est2 == bc + WrapCost(c) + st.blockCost + d
       IN IF est2 > c.max
          THEN \* undo: serializer restored / checkpoint restored; the compressed builder recomputes byte_cost
               \* from the restored size (which also ends the stale initial value 0)
               [exit |-> "after", added |-> FALSE, done |-> GiveUp(c, st.skipped + 1),
                st |-> [st EXCEPT !.skipped = @ + 1,
                                  !.byteCost = IF IsCompressed(c) THEN ByteCostOf(c, st.size) ELSE @]]
          ELSE [exit |-> "accept", added |-> TRUE, done |-> est2 + c.thr > c.max,
                st |-> [st EXCEPT !.blockCost = @ + d, !.byteCost = bc, !.size = s,
                                  !.acc = Append(@, [b |-> b, d |-> d]), !.sigs = @ \o b.sigs]]

\* finalize(): the exact size of the generator (bytes / interned vbytes of the whole tree)
\* compressed: the two closing nil atoms; interned: at most the estimate, by the triangle inequality
\* vbytes(A u B) <= vbytes(A) + vbytes(B) (see TriangleInequality below)
FinalSizes(c, st)   == IF IsCompressed(c) THEN {st.size + ClosingBytes} ELSE 1..(st.size + WrapperVB)
MaxFinalSize(c, st) == IF IsCompressed(c) THEN st.size + ClosingBytes ELSE st.size + WrapperVB
FinalCost(c, st, exact) == st.blockCost + exact * c.cpb

RECURSIVE FlattenSpends(_)
FlattenSpends(acc) == IF acc = <<>> THEN <<>> ELSE acc[1].b.spends \o FlattenSpends(Tail(acc))
RECURSIVE FlattenSigs(_)
FlattenSigs(acc) == IF acc = <<>> THEN <<>> ELSE acc[1].b.sigs \o FlattenSigs(Tail(acc))
RECURSIVE SumDeclared(_)
SumDeclared(acc) == IF acc = <<>> THEN 0 ELSE acc[1].d + SumDeclared(Tail(acc))
RECURSIVE SumTruthful(_)
SumTruthful(acc) == IF acc = <<>> THEN 0 ELSE acc[1].b.truthful + SumTruthful(Tail(acc))
RECURSIVE SumIso(_)
SumIso(acc) == IF acc = <<>> THEN 0 ELSE acc[1].b.iso + SumIso(Tail(acc))
AllTruthful(acc) == \A i \in DOMAIN acc : acc[i].d = acc[i].b.truthful
BagOfSeq(q) == [x \in {q[i] : i \in DOMAIN q} |-> Cardinality({i \in DOMAIN q : q[i] = x})]
SameBag(p, q) == BagOfSeq(p) = BagOfSeq(q)

\* what run_block_generator2 charges for a generator of that size holding exactly acc:
\* base (size * cpb) + the quote + execution and condition cost of every spend
ConsensusCost(c, acc, exact) == exact * c.cpb + QuoteCost + SumTruthful(acc)

\* the compressed builder's estimate is stale (byte_cost still 0) until the first add reaches the serializer
Stale(c, st) == IsCompressed(c) /\ st.byteCost = 0

(* ---- properties of a state, in functional form (used by the trace specification too) ---- *)
EstimateUpperAt(c, st) == Est(c, st) >= FinalCost(c, st, MaxFinalSize(c, st))
FinalizeEnabledAt(c, st) == FinalCost(c, st, MaxFinalSize(c, st)) <= c.max
\* the builder's output is a function of the accepted attempts only
DeterminedByAccepted(c, st) ==
  /\ st.blockCost = QuoteCost + SumDeclared(st.acc)
  /\ SameBag(st.sigs, FlattenSigs(st.acc))
  /\ ~IsCompressed(c) => st.size = SumIso(st.acc) /\ st.byteCost = st.size * c.cpb
  /\ (IsCompressed(c) /\ ~Stale(c, st)) => st.byteCost = ByteCostOf(c, st.size)

(***************************************************************************)
(* The state machine                                                        *)
(***************************************************************************)
VARIABLES cfg, accepted, blockCost, byteCost, size, skipped, sigBag, phase, last
bvars == <<cfg, accepted, blockCost, byteCost, size, skipped, sigBag, phase, last>>

St == [blockCost |-> blockCost, byteCost |-> byteCost, size |-> size, skipped |-> skipped, acc |-> accepted, sigs |-> sigBag]
SetSt(s) == /\ accepted' = s.acc /\ blockCost' = s.blockCost /\ byteCost' = s.byteCost /\ size' = s.size
            /\ skipped' = s.skipped /\ sigBag' = s.sigs

BInit(c) == /\ cfg = c /\ phase = "open" /\ last = [k |-> "new"]
            /\ \E s \in InitStates(c) :
               /\ accepted = s.acc /\ blockCost = s.blockCost /\ byteCost = s.byteCost /\ size = s.size
               /\ skipped = s.skipped /\ sigBag = s.sigs

\* one call; AddTentative (the choice of s) is internal to it
AddAny(b, d, s) ==
  /\ phase = "open" /\ s \in TentativeSizes(cfg, St, b)
  /\ LET r == AddStep(cfg, St, b, d, s) IN
     /\ SetSt(r.st)
     /\ last' = [k |-> "add", added |-> r.added, done |-> r.done, exit |-> r.exit]
  /\ UNCHANGED <<cfg, phase>>
\* the four exits of add_spend_bundles as separate actions
AddRejectFull(b, d, s)     == AddAny(b, d, s) /\ last'.exit = "full"
AddRejectDeclared(b, d, s) == AddAny(b, d, s) /\ last'.exit = "declared"
AddRejectAfter(b, d, s)    == AddAny(b, d, s) /\ last'.exit = "after"
AddAccept(b, d, s)         == AddAny(b, d, s) /\ last'.exit = "accept"

Finalize(exact) ==
  /\ phase = "open" /\ exact \in FinalSizes(cfg, St)
  /\ phase' = "finalized"
  /\ last' = [k |-> "finalize", exact |-> exact, cost |-> FinalCost(cfg, St, exact),
              panics |-> FinalCost(cfg, St, exact) > cfg.max,            \* assert!(cost <= max)
              spends |-> FlattenSpends(accepted), sigs |-> sigBag]
  /\ UNCHANGED <<cfg, accepted, blockCost, byteCost, size, skipped, sigBag>>

(* ---- the properties of C10 on the state machine ---- *)
\* each attempt is all-or-nothing
AllOrNothing ==
  [][(phase = "open" /\ phase' = "open") =>
       \/ /\ last'.added
          /\ Len(accepted') = Len(accepted) + 1 /\ SubSeq(accepted', 1, Len(accepted)) = accepted
          /\ LET x == accepted'[Len(accepted')] IN
             /\ blockCost' = blockCost + x.d
             /\ sigBag' = sigBag \o x.b.sigs
       \/ /\ ~last'.added
          /\ UNCHANGED <<accepted, blockCost, size, sigBag>>]_bvars
\* the running estimate never underestimates what finalize() would return now.
\* EXCEPTION recorded as a finding: the compressed builder before any add reached the serializer (Stale)
EstimateUpperStrict == phase = "open" => EstimateUpperAt(cfg, St)
EstimateUpper       == (phase = "open" /\ ~Stale(cfg, St)) => EstimateUpperAt(cfg, St)
StaleGap            == (phase = "open" /\ Stale(cfg, St)) =>
                          /\ accepted = <<>>
                          /\ FinalCost(cfg, St, MaxFinalSize(cfg, St)) - Est(cfg, St) = (InitSerSize + ClosingBytes) * cfg.cpb
WithinLimit         == phase = "finalized" => last.cost <= cfg.max
FinalizeEnabled     == /\ phase = "open" => FinalizeEnabledAt(cfg, St)
                       /\ phase = "finalized" => ~last.panics
OutputIsAccepted    == phase = "finalized" => SameBag(last.spends, FlattenSpends(accepted))
SigIsAggregate      == /\ SameBag(sigBag, FlattenSigs(accepted))
                       /\ phase = "finalized" => SameBag(last.sigs, FlattenSigs(accepted))
CostIsConsensus     == (phase = "finalized" /\ AllTruthful(accepted)) =>
                          last.cost = ConsensusCost(cfg, accepted, last.exact)
\* two histories that differ only by rejected attempts are in states with the same accepted sequence, and the
\* output-relevant state is a function of that sequence
LaterOutputUnaffected == DeterminedByAccepted(cfg, St)

(* The triangle inequality on which the interned builder's EstimateUpper rests, as an explicit assumption  *)
(* about the interner: for a measure ExactVB of the exact interned vbytes of the generator holding the     *)
(* accepted batches, ExactVB(acc) <= WrapperVB + SumIso(acc). FinalSizes encodes exactly this envelope;    *)
(* MC_BlockBuilder instantiates ExactVB with a set-union model and checks the ASSUME, the trace             *)
(* specification checks the measured value of every real finalize() against it.                            *)
TriangleInequality(ExactVB(_), Accs) == \A acc \in Accs : ExactVB(acc) <= WrapperVB + SumIso(acc)
=============================================================================
