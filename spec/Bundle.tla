------------------------------- MODULE Bundle -------------------------------
(* C08: the mempool path (run_spendbundle on a SpendBundle) and the block    *)
(* path (a generator built from the same bundle) around the interpreter.    *)
(* Puzzle runs are oracle inputs (e.runs), as in Generator.tla.              *)
EXTENDS Generator

\* trees are logged in flat list form
NormSbRun(r) == IF "res" \in DOMAIN r THEN [r EXCEPT !.res = FromJ(@)] ELSE r
NormSb(e) == [e EXCEPT !.spends = [i \in DOMAIN @ |-> [@[i] EXCEPT !.puzzle = FromJ(@), !.solution = FromJ(@)]],
                       !.runs = [i \in DOMAIN @ |-> NormSbRun(@[i])]]

\* a puzzle whose output is too large to log ("big": the harness keeps only cost and verdict) makes the event opaque:
\* the condition machine cannot be run on it; only the clauses on observed numbers are judged
SbOpaque(e) == \E i \in DOMAIN e.runs : e.runs[i].ok /\ "res" \notin DOMAIN e.runs[i]

Rev(s) == [i \in DOMAIN s |-> s[Len(s) + 1 - i]]

\* (q . (((parent puzzle amount solution) ...))) - build_generator prepends, so the list is reversed
SpendItem(s) == ListOf(<<Atom(s.parent), s.puzzle, Atom(Enc(s.amt)), s.solution>>)
GeneratorTree(e) == Cons(Atom(<<1>>), ListOf(<<ListOf(Rev([i \in DOMAIN e.spends |-> SpendItem(e.spends[i])]))>>))

\* calculate_generator_length: 5 + sum(39 + |puzzle| + serialised amount + |solution|)
RECURSIVE SumInts(_)
SumInts(s) == IF s = <<>> THEN 0 ELSE s[1] + SumInts(Tail(s))
PredictedLen(e) == 5 + SumInts([i \in DOMAIN e.spends |-> 39 + e.spends[i].plen + SerLenOfAmount(e.spends[i].amt) + e.spends[i].slen])

SbFlags(e) == RangeOf(e.flags)
Interned(e) == "INTERNED_GENERATOR" \in SbFlags(e)
Cpb(e) == ToInt(e.cpb)
DirectBase(e) == IF Interned(e) THEN MulSmall(Of(InternedVBytes(GeneratorTree(e))), Cpb(e))
                 ELSE MulSmall(Of(PredictedLen(e) - 2), Cpb(e))
ExecCost(e) == SumSeq([i \in DOMAIN e.runs |-> IF e.runs[i].ok THEN e.runs[i].cost ELSE Zero])
HashesMatch(e) == \A i \in DOMAIN e.spends : TreeHash(e.spends[i].puzzle) = e.spends[i].ph

\* the spends as the condition machine sees them, in bundle order, under the mempool visitor
SbMachineIn(e) ==
  [tree |-> ListOf(<<ListOf([i \in DOMAIN e.spends |->
               ListOf(<<Atom(e.spends[i].parent), Atom(TreeHash(e.spends[i].puzzle)), Atom(Enc(e.spends[i].amt)), e.runs[i].res>>)])>>),
   flags |-> SbFlags(e) \cap CondFlagNames, max |-> Unbounded, clvm |-> Zero, clvms |-> [i \in DOMAIN e.runs |-> e.runs[i].cost],
   vis |-> "mempool", consts |-> e.consts, validKeys |-> RangeOf(e.vk)]

\* run_spendbundle
Direct(e) ==
  LET runsOk == \A i \in DOMAIN e.runs : e.runs[i].ok
      countOk == ("LIMIT_SPENDS" \in SbFlags(e)) => Len(e.spends) <= MAX_SPENDS_PER_BLOCK
  IN IF ~(runsOk /\ countOk /\ HashesMatch(e)) THEN [ok |-> FALSE, why |-> "shape", condsOk |-> FALSE]
     ELSE LET st == Run(SbMachineIn(e))
              total == Add(Add(DirectBase(e), ExecCost(e)), st.ret.ccost)
          IN IF ~Accepted(st) THEN [ok |-> FALSE, why |-> st.err, condsOk |-> FALSE]
             ELSE IF Lt(e.max, total) THEN [ok |-> FALSE, why |-> "CostExceeded", condsOk |-> TRUE, st |-> st, cost |-> total]
             ELSE [ok |-> TRUE, condsOk |-> TRUE, st |-> st, cost |-> total, ecost |-> ExecCost(e)]

\* cost consensus charges for a generator of `len` bytes built from this bundle (the quote costs 20)
QuoteOverhead(e) == Add(MulSmall(<<2>>, Cpb(e)), <<20>>)
BlockCost(e, len, d, interned) ==
  Add(Add(Add(IF interned THEN MulSmall(Of(InternedVBytes(GeneratorTree(e))), Cpb(e)) ELSE MulSmall(Of(len), Cpb(e)), <<20>>), ExecCost(e)), d.st.ret.ccost)
=============================================================================
