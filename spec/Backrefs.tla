------------------------------ MODULE Backrefs ------------------------------
(* X05 (growth, DESIGN section 4 item 4): CLVM serialisation WITH back-references.       *)
(*                                                                                        *)
(* Wire grammar (clvmr serde/de_br.rs, parse_atom.rs, traverse_path.rs):                  *)
(*   sexp  ::= 0xff sexp sexp | 0xfe path | atom                                          *)
(*   atom  ::= one byte 0x00..0x7f | length prefix (1..6 bytes, unary-coded width) + data *)
(*   path  ::= atom (parsed with the atom rule; first byte 0xfe / 0xff is illegal)        *)
(* The decoder is a stack machine: an operation stack `ops` ("S" = parse one sexp, "C" =  *)
(* pop two values and push their pair) and a value stack `vals` of finished subtrees whose*)
(* parent pair is not finished yet. A back-reference is evaluated against the value stack *)
(* READ AS A CLVM LIST (top of stack first, nil-terminated) with the usual CLVM path      *)
(* semantics: the path atom is a big-endian integer, all-zero (or empty) means nil, else  *)
(* bits are consumed from the least significant one (0 = first/left, 1 = rest/right) up to*)
(* (excluding) the most significant set bit. Walking into an atom is an error.            *)
(* Trailing input after the first complete object is ignored; the consumed length is part *)
(* of the result.                                                                         *)
(*                                                                                        *)
(* Three modes of the same machine:                                                       *)
(*   "br"    node_from_bytes_backrefs / serialized_length_from_bytes (validating)         *)
(*   "plain" node_from_bytes: 0xfe is an (illegal) atom prefix                            *)
(*   "len"   serialized_length_from_bytes_trusted: paths are skipped, never resolved      *)
EXTENDS ClvmSer

BrTop(s) == s[Len(s)]
BrPop(s) == SubSeq(s, 1, Len(s) - 1)

\* ------------------------------------------------------------------ atom tokens
\* number of leading one bits of a byte >= 0x80 = width of the length prefix
LeadOnes(b) == IF b < 192 THEN 1 ELSE IF b < 224 THEN 2 ELSE IF b < 240 THEN 3 ELSE IF b < 248 THEN 4
               ELSE IF b < 252 THEN 5 ELSE IF b < 254 THEN 6 ELSE IF b < 255 THEN 7 ELSE 8
\* b % PrefixMod(k) = b & (0xff >> k)
PrefixMod(k) == CASE k = 1 -> 128 [] k = 2 -> 64 [] k = 3 -> 32 [] k = 4 -> 16 [] k = 5 -> 8 [] k = 6 -> 4

\* TLC integers are 32 bit: a size with a non-zero digit above the low 31 bits exceeds every input
\* (the code rejects sizes >= 0x400000000 outright and smaller ones because the buffer is shorter)
SizeTooBig(s) == \/ \E i \in 1..(Len(s) - 4) : s[i] # 0
                 \/ Len(s) >= 4 /\ s[Len(s) - 3] >= 128
RECURSIVE BeVal(_)
BeVal(s) == IF s = <<>> THEN 0 ELSE BeVal(BrPop(s)) * 256 + s[Len(s)]

\* the atom whose first byte is inp[p] (p <= Len(inp)):
\*   [k |-> "ok", a |-> bytes, next |-> index after it] | [k |-> "bad"] (illegal prefix) |
\*   [k |-> "short"] (the input ends inside the token)
AtomTok(inp, p) ==
  LET b == inp[p] IN
  IF b < 128 THEN [k |-> "ok", a |-> <<b>>, next |-> p + 1]
  ELSE LET w == LeadOnes(b) IN
    IF w > 6 THEN [k |-> "bad"]
    ELSE IF p + w - 1 > Len(inp) THEN [k |-> "short"]
    ELSE LET s == <<b % PrefixMod(w)>> \o SubSeq(inp, p + 1, p + w - 1) IN
      IF SizeTooBig(s) THEN [k |-> "bad"]
      ELSE LET sz == BeVal(s) IN
        IF sz > Len(inp) - (p + w - 1) THEN [k |-> "short"]
        ELSE [k |-> "ok", a |-> SubSeq(inp, p + w, p + w - 1 + sz), next |-> p + w + sz]

\* ------------------------------------------------------------------ paths
ByteBitsLE(b) == [i \in 1..8 |-> (b \div (2 ^ (i - 1))) % 2 = 1]
\* bits of a big-endian byte string, least significant bit first
RECURSIVE BitsLE(_)
BitsLE(p) == IF p = <<>> THEN <<>> ELSE ByteBitsLE(p[Len(p)]) \o BitsLE(BrPop(p))
PathZero(p) == \A i \in DOMAIN p : p[i] = 0
TopBit(bits) == CHOOSE i \in DOMAIN bits : bits[i] /\ \A j \in (i + 1)..Len(bits) : ~bits[j]
\* the walking steps of a non-zero path: TRUE = rest/right, FALSE = first/left
PathSteps(p) == LET bits == BitsLE(p) IN SubSeq(bits, 1, TopBit(bits) - 1)

\* the minimal path atom with the given steps (sentinel bit above the last step)
PathBytes(steps) ==
  LET bits == Append(steps, TRUE)
      nb == (Len(bits) + 7) \div 8
      BitAt(i) == IF i <= Len(bits) /\ bits[i] THEN 1 ELSE 0
      ByteAt(j) == LET o == (nb - j) * 8 IN
                   BitAt(o + 1) + 2 * BitAt(o + 2) + 4 * BitAt(o + 3) + 8 * BitAt(o + 4)
                   + 16 * BitAt(o + 5) + 32 * BitAt(o + 6) + 64 * BitAt(o + 7) + 128 * BitAt(o + 8)
  IN [j \in 1..nb |-> ByteAt(j)]

LookOk(v) == [ok |-> TRUE, v |-> v]
LookErr == [ok |-> FALSE, v |-> Nil]

RECURSIVE WalkTree(_, _, _)
WalkTree(x, steps, i) == IF i > Len(steps) THEN LookOk(x)
                         ELSE IF IsAtom(x) THEN LookErr
                         ELSE WalkTree(IF steps[i] THEN x.r ELSE x.l, steps, i + 1)

\* the value stack (bottom first) read as a CLVM list (top first)
RECURSIVE StackList(_)
StackList(vals) == IF vals = <<>> THEN Nil ELSE Cons(BrTop(vals), StackList(BrPop(vals)))

\* reference semantics (node_from_stream_backrefs_old, serialized_length_from_bytes): walk the list
LookupListSteps(vals, steps) == WalkTree(StackList(vals), steps, 1)

\* the same lookup on the vector (traverse_path_with_vec): leading "rest" steps move an index down the
\* stack and never below its bottom; the first "first" step enters the value at that index; a path that
\* ends on the spine denotes the list of the remaining entries
LeadingRests(steps) == IF \A i \in DOMAIN steps : steps[i] THEN Len(steps)
                       ELSE (CHOOSE i \in DOMAIN steps : ~steps[i] /\ \A j \in 1..(i - 1) : steps[j]) - 1
LookupVecSteps(vals, steps) ==
  LET n == Len(vals)
      r == LeadingRests(steps)
  IN IF r = Len(steps)
     THEN (IF r <= n THEN LookOk(StackList(SubSeq(vals, 1, n - r))) ELSE LookErr)
     ELSE IF r >= n THEN LookErr
     ELSE WalkTree(vals[n - r], steps, r + 2)

LookupList(vals, p) == IF PathZero(p) THEN LookOk(Nil) ELSE LookupListSteps(vals, PathSteps(p))
LookupVec(vals, p)  == IF PathZero(p) THEN LookOk(Nil) ELSE LookupVecSteps(vals, PathSteps(p))

\* ------------------------------------------------------------------ the stack machine
BrInit == [pos |-> 1, ops |-> <<"S">>, vals |-> <<>>, st |-> "run", err |-> "none"]
BrFail(s, e) == [s EXCEPT !.st = "err", !.err = e]

WantTok(s)                 == s.ops # <<>> /\ BrTop(s.ops) = "S"
EnFinish(inp, s, mode)     == s.ops = <<>>
EnOpCons(inp, s, mode)     == s.ops # <<>> /\ BrTop(s.ops) = "C"
EnEof(inp, s, mode)        == WantTok(s) /\ s.pos > Len(inp)
EnTokCons(inp, s, mode)    == WantTok(s) /\ s.pos <= Len(inp) /\ inp[s.pos] = 255
EnTokBackref(inp, s, mode) == WantTok(s) /\ s.pos <= Len(inp) /\ inp[s.pos] = 254 /\ mode # "plain"
EnTokAtom(inp, s, mode)    == WantTok(s) /\ s.pos <= Len(inp) /\ inp[s.pos] # 255 /\ (inp[s.pos] # 254 \/ mode = "plain")

DoFinish(s)  == [s EXCEPT !.st = "ok"]
DoEof(s)     == BrFail(s, "eof")
\* the two topmost values become one pair (left = the older one)
DoOpCons(s)  == LET n == Len(s.vals) IN
                [s EXCEPT !.ops = BrPop(@), !.vals = Append(SubSeq(@, 1, n - 2), Cons(@[n - 1], @[n]))]
\* 0xff: parse two more objects, then cons them
DoTokCons(s) == [s EXCEPT !.pos = @ + 1, !.ops = BrPop(@) \o <<"C", "S", "S">>]
DoTokAtom(inp, s) ==
  LET t == AtomTok(inp, s.pos) IN
  IF t.k = "ok" THEN [s EXCEPT !.pos = t.next, !.ops = BrPop(@), !.vals = Append(@, Atom(t.a))]
  ELSE BrFail(s, IF t.k = "short" THEN "eof" ELSE "prefix")
\* 0xfe path: push the value the path denotes in the current stack
DoTokBackref(inp, s, mode) ==
  IF s.pos + 1 > Len(inp) THEN BrFail(s, "eof")
  ELSE LET t == AtomTok(inp, s.pos + 1) IN
    IF t.k # "ok" THEN BrFail(s, IF t.k = "short" THEN "eof" ELSE "prefix")
    ELSE LET r == IF mode = "len" THEN LookOk(Nil) ELSE LookupVec(s.vals, t.a) IN
      IF r.ok THEN [s EXCEPT !.pos = t.next, !.ops = BrPop(@), !.vals = Append(@, r.v)]
      ELSE BrFail(s, "path")

Step(inp, s, mode) ==
  IF EnFinish(inp, s, mode) THEN DoFinish(s)
  ELSE IF EnOpCons(inp, s, mode) THEN DoOpCons(s)
  ELSE IF EnEof(inp, s, mode) THEN DoEof(s)
  ELSE IF EnTokCons(inp, s, mode) THEN DoTokCons(s)
  ELSE IF EnTokBackref(inp, s, mode) THEN DoTokBackref(inp, s, mode)
  ELSE DoTokAtom(inp, s)

\* 2^k steps (terminal states absorb); recursion depth k instead of the number of tokens
RECURSIVE Iter(_, _, _, _)
Iter(inp, s, mode, k) ==
  IF s.st # "run" THEN s
  ELSE IF k = 0 THEN Step(inp, s, mode)
  ELSE LET h == Iter(inp, s, mode, k - 1) IN Iter(inp, h, mode, k - 1)

BrResult(s) == IF s.st = "ok" THEN [ok |-> TRUE, v |-> s.vals[1], n |-> s.pos - 1, err |-> "none"]
               ELSE [ok |-> FALSE, v |-> Nil, n |-> 0, err |-> s.err]

\* every step either consumes a byte or executes one "C" (at most one per 0xff byte) or finishes:
\* fewer than 2 * Len + 3 < 2^31 steps
RECURSIVE Log2Ceil(_, _, _)
Log2Ceil(n, k, p) == IF p >= n THEN k ELSE Log2Ceil(n, k + 1, 2 * p)
Deser(inp, mode) == BrResult(Iter(inp, BrInit, mode, Log2Ceil(2 * Len(inp) + 3, 0, 1)))
DeserBr(inp)    == Deser(inp, "br")
DeserPlain(inp) == Deser(inp, "plain")
TokLen(inp)     == LET r == Deser(inp, "len") IN [ok |-> r.ok, n |-> r.n]

\* ------------------------------------------------------------------ a greedy compressor (model)
\* Every subtree is replaced by a back-reference when the current stack holds an equal value at a path
\* of at most MaxSteps steps whose encoding is strictly shorter than the plain form; among the
\* candidates the one with the fewest steps, then the numerically smallest, is taken.
StepSeqs(n) == UNION {[1..k -> BOOLEAN] : k \in 0..n}
RECURSIVE BytesLess(_, _)
BytesLess(a, b) == IF a = <<>> THEN FALSE ELSE a[1] < b[1] \/ (a[1] = b[1] /\ BytesLess(Tail(a), Tail(b)))
PathLess(a, b) == Len(a) < Len(b) \/ (Len(a) = Len(b) /\ BytesLess(PathBytes(a), PathBytes(b)))
PathsTo(vals, t, maxSteps) == {st \in StepSeqs(maxSteps) : LookupVecSteps(vals, st) = LookOk(t)}
BackrefTok(steps) == <<254>> \o SerAtom(PathBytes(steps))

RECURSIVE Compress(_, _, _)
Compress(t, vals, maxSteps) ==
  LET c == PathsTo(vals, t, maxSteps)
      best == CHOOSE x \in c : \A y \in c \ {x} : PathLess(x, y)
  IN IF c # {} /\ Len(BackrefTok(best)) < SerLen(t) THEN BackrefTok(best)
     ELSE IF IsAtom(t) THEN SerAtom(t.a)
     ELSE <<255>> \o Compress(t.l, vals, maxSteps) \o Compress(t.r, Append(vals, t.l), maxSteps)
=============================================================================
