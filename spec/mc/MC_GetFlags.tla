----------------------------- MODULE MC_GetFlags -----------------------------
EXTENDS GetFlags, TLC
Hs == {<<>>, <<1>>, <<2>>, <<3>>, <<255, 255, 255, 254>>, <<255, 255, 255, 255>>}
VARIABLE c
Init == c \in [hf2 : Hs, sf8 : Hs, sf9 : Hs]
Next == UNCHANGED c
MonotoneInv == Monotone(c, Hs)
ExactThresholds == \A h \in Hs : /\ ("COST_CONDITIONS" \in FlagsAt(h, c)) <=> Le(c.hf2, h)
                                 /\ ("DISABLE_OP" \in FlagsAt(h, c)) <=> Le(c.sf8, h)
                                 /\ ("LIMIT_SPENDS" \in FlagsAt(h, c)) <=> Le(c.sf9, h)
=============================================================================
