INIT Init
NEXT Next
CHECK_DEADLOCK FALSE
CONSTANT Mode = "hist"
CONSTANT Alphabet = "tiny"
CONSTANT NAtoms = 0
CONSTANT NPairs = 0
CONSTANT AtomsFirst = TRUE
CONSTANT MaxOps = 3
CONSTANT Cpbs = {12000}
CONSTANT MaxCost = 100000000
CONSTANT Menu = {"s1", "s3", "s5"}
CONSTANT EmitOneIn = 8
CONSTANT Batches <- BatchesFull
INVARIANT Accumulation
INVARIANT UpperBound
INVARIANT Monotone
INVARIANT WithinLimit
INVARIANT TablesExact
INVARIANT WrapperIs11
INVARIANT Emit
PROPERTY RejectStutters
