----------------------------- MODULE MC_PeerRpc -----------------------------
(* M: the concurrent machine. K client tasks run AllocId / Register / Send /  *)
(* Complete independently, the server sends up to NR messages from a menu    *)
(* (ids of requests, unknown ids, duplicates, id-less events and non-events, *)
(* wrong types, rejections, malformed bodies) and may close; Inbound handles *)
(* one message at a time. All properties of PeerRpc are invariants; a         *)
(* completed request never changes again (action property).                  *)
EXTENDS PeerRpc
CONSTANTS K, NR, Tys, BadTys
VARIABLES s, sent
Kind(r) == IF r % 2 = 1 THEN "rem" ELSE "ses"
RECURSIVE Mk(_, _)
Mk(t, r) == IF r > K THEN t ELSE Mk(AddReq(t, r, Kind(r), 10 + r), r + 1)
Init == s = Mk(S0, 1) /\ sent = 0
Ids == {None} \cup {Some(i) : i \in 0..(IdMod - 1)}
Msgs == {[id |-> i, ty |-> t, v |-> 1, good |-> TRUE, data |-> <<>>] : i \in Ids, t \in Tys}
        \cup {[id |-> i, ty |-> t, v |-> 1, good |-> FALSE, data |-> <<>>] : i \in Ids, t \in BadTys}
Next ==
  \/ \E r \in 1..K : \/ CanAlloc(s, r) /\ s' = AllocIdF(s, r) /\ UNCHANGED sent
                     \/ CanRegister(s, r) /\ s' = RegisterF(s, r) /\ UNCHANGED sent
                     \/ CanSend(s, r) /\ s' = SendF(s, r) /\ UNCHANGED sent
                     \/ CanComplete(s, r) /\ s' = CompleteF(s, r) /\ UNCHANGED sent
  \/ sent < NR /\ ~s.closed /\ (\A i \in DOMAIN s.inbox : s.inbox[i].ty # "close")
       /\ \E m \in Msgs \cup {CloseMsg} : s' = ServerReplyF(s, m) /\ sent' = sent + 1
  \/ CanInbound(s) /\ s' = InboundF(s) /\ UNCHANGED sent
Inv == AllProps(s)
Once == [][\A r \in 1..K : s.reqs[r].st = "done" => s'.reqs[r] = s.reqs[r]]_<<s, sent>>
Spec == Init /\ [][Next]_<<s, sent>>
=============================================================================
