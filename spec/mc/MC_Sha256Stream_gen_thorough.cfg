CONSTANTS BlkMax = 0 Lens = {0, 1, 2, 55, 56, 57, 63, 64, 65, 119, 120, 127, 128, 129, 191, 192, 193} CloneLens = {0, 1, 56, 63, 64, 65, 128, 129} MaxUpd = 4 CloneMaxUpd = 3 MaxTot = 800 Modes = {"chunk", "clone"}
INIT Init
NEXT Next
INVARIANT ChunkingIrrelevant
INVARIANT BlockInv
INVARIANT ForkInv
INVARIANT Emit
CHECK_DEADLOCK FALSE
