--------------------------- MODULE MC_Streamable ---------------------------
(* C13 (M + G): the Streamable grammar is a canonical, prefix-free          *)
(* bijection, checked exhaustively over bounded type terms and all short    *)
(* byte strings over a small alphabet.                                      *)
(*  Mode "scaled": every combinator term of depth <= 2 over the leaf types, *)
(*    the block / proof-of-space grammars, with scaled-down widths          *)
(*    (LenW = 1, HashW = 1, G1W = G2W = 2) so that short strings reach      *)
(*    every branch. Oracles are model functions tabulated per byte string.  *)
(*  Mode "gen": real widths, the combinator instances that exist as         *)
(*    concrete Rust types; every state is also emitted as a replay case,    *)
(*    plus abstract shapes of the three hand-written codecs.                *)
EXTENDS Streamable, TLC, Json

CONSTANTS Mode, MaxLen, Alphabet

\* ---------------- model oracles (any prefix-consistent function would do) ----------------
\* "program": the real CLVM length rule on atoms < 0x80, nil 0x80, short atoms 0x81..0xbf and
\* pairs 0xff; the trusted variant additionally takes 0xc0 as a one-byte item
RECURSIVE PL(_, _, _)
PL(b, pos, tr) ==
  IF pos > Len(b) THEN 0
  ELSE LET x == b[pos] IN
       IF x <= 128 THEN 1
       ELSE IF x <= 191 THEN (IF Avail(b, pos, 1 + x - 128) THEN 1 + x - 128 ELSE 0)
       ELSE IF x = 255 THEN (LET l1 == PL(b, pos + 1, tr) IN
                             IF l1 = 0 THEN 0
                             ELSE LET l2 == PL(b, pos + 1 + l1, tr) IN IF l2 = 0 THEN 0 ELSE 1 + l1 + l2)
       ELSE IF x = 192 /\ tr THEN 1
       ELSE 0
\* "point": decodes iff the last byte is 1..3, in the subgroup iff it is 1..2
PointFact(b, pos, w) ==
  IF ~Avail(b, pos, w) THEN <<pos, 0, 0>>
  ELSE LET x == b[pos + w - 1] IN <<pos, IF x \in {1, 2, 3} THEN 1 ELSE 0, IF x \in {1, 2} THEN 1 ELSE 0>>
\* "quality string": a proof of space starting with byte 2 has none
ModelOracle(b) ==
  [g1 |-> [p \in 1..Len(b) |-> PointFact(b, p, G1W)],
   g2 |-> [p \in 1..Len(b) |-> PointFact(b, p, G2W)],
   prog |-> [p \in 1..(Len(b) + 1) |-> <<p, PL(b, p, FALSE), PL(b, p, TRUE)>>],
   qs |-> [p \in 1..Len(b) |-> <<p, IF b[p] = 2 THEN <<>> ELSE [i \in 1..HashW |-> 7]>>]]

MCSchema == [Inner |-> [k |-> "struct", fs |-> <<[n |-> "a", t |-> U(1)], [n |-> "b", t |-> OptT(BoolT)]>>]]
Ctx(b, tr) == [s |-> MCSchema, o |-> ModelOracle(b), tr |-> tr]

\* ---------------- type terms ----------------
D0 == {U(1), U(2), BoolT, BytesT, StrT, EnumT(<<1, 3>>), BytesNT(2), ProgT, G1T, G2T}
D0s == {U(1), BoolT, BytesT, ProgT, G1T}
D1c == {OptT(t) : t \in D0s} \cup {VecT(t) : t \in D0s}
D1 == D0 \cup {OptT(t) : t \in D0} \cup {VecT(t) : t \in D0} \cup {ArrT(t, 2) : t \in D0}
         \cup {TupT(<<a, b>>) : a, b \in D0s} \cup {Opt2T(a, b) : a, b \in D0s}
D2 == D1 \cup {OptT(t) : t \in D1} \cup {VecT(t) : t \in D1}
         \cup {TupT(<<a, b>>) : a \in D0s, b \in D1c} \cup {TupT(<<b, a>>) : a \in D0s, b \in D1c}
Custom == {PosT, BlockT(<<>>), BlockT(<<[n |-> "x", t |-> OptT(U(1))]>>),
           RefT("Inner"), VecT(RefT("Inner")), OptT(PosT), TupT(<<U(1), U(1), U(1)>>), TupT(<<>>)}
ScaledTypes == D2 \cup Custom

\* combinator instances that exist as concrete Rust types in the harness registry (names must match it)
GenTypes == {
  [name |-> "u8", t |-> U(1)], [name |-> "u16", t |-> U(2)], [name |-> "bool", t |-> BoolT],
  [name |-> "Option<u8>", t |-> OptT(U(1))], [name |-> "Option<bool>", t |-> OptT(BoolT)],
  [name |-> "Option<Option<bool>>", t |-> OptT(OptT(BoolT))],
  [name |-> "Vec<bool>", t |-> VecT(BoolT)], [name |-> "Vec<u8>", t |-> VecT(U(1))],
  [name |-> "Vec<Option<u8>>", t |-> VecT(OptT(U(1)))], [name |-> "Option<Vec<bool>>", t |-> OptT(VecT(BoolT))],
  [name |-> "Vec<Vec<u8>>", t |-> VecT(VecT(U(1)))],
  [name |-> "(u8, Option<u16>)", t |-> TupT(<<U(1), OptT(U(2))>>)],
  [name |-> "(bool, bool, u8)", t |-> TupT(<<BoolT, BoolT, U(1)>>)],
  [name |-> "(Option<bool>, Vec<u8>, bool, u8)", t |-> TupT(<<OptT(BoolT), VecT(U(1)), BoolT, U(1)>>)],
  [name |-> "Vec<(u8, bool)>", t |-> VecT(TupT(<<U(1), BoolT>>))],
  [name |-> "[u8; 2]", t |-> ArrT(U(1), 2)], [name |-> "[bool; 3]", t |-> ArrT(BoolT, 3)],
  [name |-> "Bytes", t |-> BytesT], [name |-> "String", t |-> StrT], [name |-> "Option<String>", t |-> OptT(StrT)],
  [name |-> "Option<Bytes>", t |-> OptT(BytesT)], [name |-> "(u8, Bytes)", t |-> TupT(<<U(1), BytesT>>)],
  [name |-> "Program", t |-> ProgT], [name |-> "Option<Program>", t |-> OptT(ProgT)],
  [name |-> "(Program, u8)", t |-> TupT(<<ProgT, U(1)>>)], [name |-> "Vec<Program>", t |-> VecT(ProgT)]}

RECURSIVE StringsOfLen(_)
StringsOfLen(n) == IF n = 0 THEN {<<>>} ELSE {Append(s, x) : s \in StringsOfLen(n - 1), x \in Alphabet}
Strings == UNION {StringsOfLen(n) : n \in 0..MaxLen}

\* ---------------- bounded values (value direction, scaled mode) ----------------
Pairs(A, B) == {<<a, b>> : a \in A, b \in B}
RECURSIVE Vals(_)
Vals(T) ==
  CASE T.k = "u" -> (IF T.n = 1 THEN {<<0>>, <<1>>, <<255>>} ELSE {[i \in 1..T.n |-> 0], [i \in 1..T.n |-> 255]})
    [] T.k = "bool" -> BOOLEAN
    [] T.k = "bytesn" -> {[i \in 1..T.n |-> 0], [i \in 1..T.n |-> 255]}
    [] T.k = "bytes" -> {<<>>, <<0>>, <<1, 255>>}
    [] T.k = "str" -> {<<>>, <<65>>, <<195, 169>>}
    [] T.k = "enum" -> SeqToSet(T.vals)
    [] T.k = "prog" -> {<<128>>, <<255, 1, 128>>, <<129, 255>>}
    [] T.k = "g1" -> {<<192, 0>>, <<128, 1>>}
    [] T.k = "g2" -> {<<0, 2>>, <<192, 1>>}
    [] T.k = "opt" -> {<<>>} \cup {<<v>> : v \in Vals(T.t)}
    [] T.k = "opt2" -> Pairs({<<>>} \cup {<<v>> : v \in Vals(T.a)}, {<<>>} \cup {<<v>> : v \in Vals(T.b)})
    [] T.k = "vec" -> {<<>>} \cup {<<v>> : v \in Vals(T.t)} \cup Pairs(Vals(T.t), Vals(T.t))
    [] T.k = "arr" -> Pairs(Vals(T.t), Vals(T.t))
    [] T.k = "tup" -> (IF Len(T.ts) = 2 THEN Pairs(Vals(T.ts[1]), Vals(T.ts[2])) ELSE {})
    [] OTHER -> {}

\* abstract shapes of the hand-written codecs: every prefix byte; the interesting ones with every continuation
PSmall == 0..7 \cup {128, 255}
TailRests == {<<>>, <<128>>, <<128, 0, 0, 0, 0>>, <<0, 0, 0, 0>>, <<0, 0, 0, 1, 7>>, <<0, 0, 0, 1>>,
              <<255, 1, 128, 0, 0, 0, 1, 0, 0, 0, 9>>, <<0, 0, 0, 0, 0>>, <<0, 0, 0, 2, 7, 7>>, <<255, 255, 255, 255>>}

\* structured strings for the proof-of-space grammar (its shortest encoding is longer than MaxLen):
\* challenge, optional pool key, prefix byte, optional contract hash, plot key, version-specific tail
PosStrings == {ch \o pk \o <<p>> \o cph \o ppk \o tail :
                 ch \in {<<0>>, <<2>>}, pk \in {<<0>>, <<1, 128, 1>>, <<1, 192, 0>>, <<2>>}, p \in 0..5, cph \in {<<>>, <<9>>},
                 ppk \in {<<128, 1>>, <<192, 0>>, <<128, 0>>},
                 tail \in {<<7, 0>>, <<7, 1, 5>>, <<7>>, <<0, 1, 2, 3, 0>>, <<0, 1, 2, 3, 1, 9>>, <<0, 1, 2, 3, 2, 9>>, <<0, 1, 2, 3>>}}

VARIABLES x, phase
Init == /\ phase = 0
        /\ \/ /\ Mode = "scaled"
              /\ \/ \E T \in ScaledTypes, b \in Strings : x = [k |-> "bytes", t |-> T, b |-> b]
                 \/ \E b \in PosStrings : x = [k |-> "bytes", t |-> PosT, b |-> b]
                 \/ \E T \in {OptT(PosT), VecT(PosT)}, b \in PosStrings : x = [k |-> "bytes", t |-> T, b |-> <<1>> \o b]
                 \/ \E T \in D2 : \E v \in Vals(T) : x = [k |-> "val", t |-> T, v |-> v]
           \/ /\ Mode = "gen"
              /\ \/ \E g \in GenTypes, b \in Strings : x = [k |-> "bytes", t |-> g.t, b |-> b, name |-> g.name]
                 \/ \E p \in 0..255, rest \in TailRests :
                      /\ (p \in PSmall \/ rest \in {<<>>, <<0, 0, 0, 0>>})
                      /\ x = [k |-> "tail", tail |-> <<p>> \o rest]
                 \/ \E pkp \in {0, 1, 2, 255}, p \in 0..255, hasc \in BOOLEAN, shape \in 1..4 :
                      /\ (p \in PSmall \/ (pkp = 1 /\ ~hasc /\ shape = 1))
                      /\ x = [k |-> "pos", pkp |-> pkp, p |-> p, hasc |-> hasc, shape |-> shape]
Next == phase = 0 /\ phase' = 1 /\ UNCHANGED x

IsBytes == phase = 1 /\ x.k = "bytes"
R(tr) == FromBytes(Ctx(x.b, tr), x.t, x.b)
Pre(m) == SubSeq(x.b, 1, m)

\* the model oracle answers every query
NoOracleGaps == IsBytes => \A tr \in BOOLEAN : R(tr).ok \/ R(tr).why = "syntax"
\* a byte string that decodes re-encodes to exactly itself
Canon == IsBytes => \A tr \in BOOLEAN : R(tr).ok => Encode(Ctx(x.b, tr), x.t, R(tr).v) = x.b
\* a successful parse of a prefix fixes the result on every extension; so no valid encoding is a
\* proper prefix of another, and truncation / extension of a valid encoding is never valid
PrefixFree == IsBytes => \A tr \in BOOLEAN : \A m \in 0..(Len(x.b) - 1) :
  LET rm == Parse(Ctx(Pre(m), tr), x.t, Pre(m), 1) IN
  rm.ok => LET r == Parse(Ctx(x.b, tr), x.t, x.b, 1) IN
           /\ r.ok /\ r.v = rm.v /\ r.pos = rm.pos
           /\ ~R(tr).ok
\* the trusted decoder accepts everything the untrusted one accepts, with the same value
TrustedAgrees == IsBytes => (R(FALSE).ok => R(TRUE).ok /\ R(TRUE).v = R(FALSE).v)
\* the digest form is the encoding itself, except inside a v2 proof of space
RECURSIVE ContainsPos(_)
ContainsPos(T) == T.k = "pos" \/ (T.k \in {"opt", "vec"} /\ ContainsPos(T.t))
HashIsShaOfEncoding == IsBytes => (R(FALSE).ok =>
  LET d == Digest(Ctx(x.b, FALSE), x.t, R(FALSE).v) IN
  /\ ~ContainsPos(x.t) => d = x.b
  /\ (x.t.k = "pos" /\ R(FALSE).v.ver = 0) => d = x.b
  /\ (x.t.k = "pos" /\ R(FALSE).v.ver = 1 /\ HashDefined(d)) => (d # x.b /\ Len(d) = Len(x.b) - LenW - Len(R(FALSE).v.proof) + HashW))
\* value direction: encode, decode, same value, everything consumed
RoundTrip == (phase = 1 /\ x.k = "val") =>
  LET b == Encode([s |-> MCSchema, o |-> ModelOracle(<<>>), tr |-> FALSE], x.t, x.v) IN
  \A tr \in BOOLEAN : LET r == FromBytes(Ctx(b, tr), x.t, b) IN r.ok /\ r.v = x.v

\* ---------------- replay cases ----------------
PosSegs ==
  <<[s |-> "fill", n |-> 32], [s |-> "lit", b |-> <<x.pkp>>]>>
  \o (IF x.pkp % 2 = 1 THEN <<[s |-> "g1"]>> ELSE <<>>)
  \o <<[s |-> "lit", b |-> <<x.p>>]>>
  \o (IF x.hasc THEN <<[s |-> "fill", n |-> 32]>> ELSE <<>>)
  \o <<[s |-> "g1"]>>
  \o (CASE x.shape = 1 -> <<[s |-> "lit", b |-> <<32, 0, 0, 0, 2, 9, 9>>]>>          \* size + proof
        [] x.shape = 2 -> <<[s |-> "lit", b |-> <<0, 1, 2, 3, 0, 0, 0, 2, 9, 9>>]>>   \* index, group, strength, proof
        [] x.shape = 3 -> <<[s |-> "lit", b |-> <<32, 0, 0, 0, 0>>]>>
        [] x.shape = 4 -> <<[s |-> "lit", b |-> <<0, 1, 2, 3, 0, 0, 0, 0>>]>>)
Emit == (phase = 1 /\ Mode = "gen") =>
  CASE x.k = "bytes" -> PrintT(<<"CASE", ToJson([k |-> "bytes", type |-> x.name, bytes |-> x.b])>>)
    [] x.k = "tail" -> PrintT(<<"CASE", ToJson([k |-> "tail", tail |-> x.tail])>>)
    [] x.k = "pos" -> PrintT(<<"CASE", ToJson([k |-> "segs", type |-> "ProofOfSpace", segs |-> PosSegs])>>)
=============================================================================
