INIT Init
NEXT Next
CONSTANT NSpends = 3
CONSTANT MaxConds = 2
CONSTANT Kind = "same"
CONSTANT Stricts = {TRUE}
INVARIANT BalIsCount
INVARIANT AcceptIffMatched
INVARIANT Confluent
INVARIANT ModeIsolation
INVARIANT CoinIdFormDistinct
INVARIANT ByteKeyInjective
INVARIANT NoOutsiders
INVARIANT ArgCountRule
INVARIANT Emit
CHECK_DEADLOCK FALSE
