---------------------------- MODULE MC_BlobViews ----------------------------
(* X07 (M + G): the state space of MC_MerkleBlob (every history of at most   *)
(* MaxOps write calls over NK keys / NH leaf hashes) with the read-side      *)
(* invariants of BlobViews checked on every reachable tree - dirty or clean, *)
(* every sub-root, every key, every single-point tampering over the hash     *)
(* menu, every withheld subset of the node hashes - and one history emitted  *)
(* per (state, last call) for replay on the real code.                       *)
EXTENDS MC_MerkleBlob, BlobViews

\* hashes offered to the tamperings: every hash of the tree itself and a foreign one
TamperMenu(t) == {At(FullCalc(t), p).h : p \in Paths(t)} \cup {<<"z">>}

\* a tree is judged once, in its result state (every reachable tree is the result of some call)
IteratorsInv == ~AtRest => IteratorsOk(tree) /\ LazyOrderOk(tree)
QueriesInv == ~AtRest => QueriesOk(tree, pm)
ProofsInv == ~AtRest => ProofsOk(tree, TamperMenu(tree))
DeltaInv == ~AtRest => DeltaOk(tree)
=============================================================================
