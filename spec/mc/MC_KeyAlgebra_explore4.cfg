INIT Init
NEXT Next
CONSTANT Mode = "explore"
CONSTANT MaxTerms = 4
CONSTANT EmitBelow = 2
CONSTANT ChainLen = 1
CONSTANT Seeds = {"s1", "s2"}
CONSTANT Idx <- IdxOne
CONSTANT Hid = {"H1"}
CONSTANT Msg = {"m1"}
INVARIANT Closed
INVARIANT Typed
INVARIANT CommuteDerive
INVARIANT CommuteSynthetic
INVARIANT CommuteAdd
INVARIANT SerIdentity
INVARIANT SignDeterministic
INVARIANT SignSeparates
INVARIANT PubInjective
INVARIANT HardenedFresh
INVARIANT IndexSeparates

INVARIANT Emit
CHECK_DEADLOCK FALSE
