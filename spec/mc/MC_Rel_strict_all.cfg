INIT Init
NEXT Next
CONSTANT Mode = "strict"
CONSTANT MenuSize = 99
INVARIANT StrictOnlyRestricts
INVARIANT OrderIrrelevant
INVARIANT Emit
CHECK_DEADLOCK FALSE
