INIT Init
NEXT Next
INVARIANT LenFormula
INVARIANT CostDelta
INVARIANT Emit
CHECK_DEADLOCK FALSE
