------------------------------ MODULE MC_Cond ------------------------------
(* M + G for C01 / C02 / C04: the condition machine explored exhaustively   *)
(* over the input menus; property invariants in every state; every terminal *)
(* state is emitted as a replay case for the implementation.                *)
EXTENDS CondMenus, TLC, Json

CONSTANT Mode          \* "single" | "pair" | "cross" | "struct" | "twobyte"
CONSTANT FlagChoice    \* "all" | "few"

StrictFlags == {"NO_UNKNOWN_CONDS", "STRICT_ARGS_COUNT", "COST_CONDITIONS"}
FlagSets == IF FlagChoice = "all" THEN {f \cup {"DONT_VALIDATE_SIGNATURE"} : f \in SUBSET StrictFlags} \cup {{}, {"COST_CONDITIONS"}}
            ELSE {{"DONT_VALIDATE_SIGNATURE"}, {"DONT_VALIDATE_SIGNATURE", "COST_CONDITIONS"},
                  {"DONT_VALIDATE_SIGNATURE", "NO_UNKNOWN_CONDS", "STRICT_ARGS_COUNT"},
                  {"DONT_VALIDATE_SIGNATURE", "NO_UNKNOWN_CONDS", "STRICT_ARGS_COUNT", "COST_CONDITIONS"}, {}}
BigMax == <<2, 143, 166, 174, 0>>     \* 11 000 000 000

Spend(parent, ph, amtAtom, conds) == L(<<Atom(parent), Atom(ph), Atom(amtAtom), conds>>)
Bundle(spends) == L(<<L(spends)>>)

\* second coin of the cross menus: either unrelated or the child of coin 1 (ephemeral)
EphAmt == <<7>>
EphId == CoinIdOf(Coin1Id, Z2, EphAmt)
CrossA == {Cons(Op(60), L(<<Atom(<<3>>)>>)), Cons(Op(62), L(<<Atom(<<3>>)>>)),
           Cons(Op(64), L(<<Atom(Coin2Id)>>)), Cons(Op(64), L(<<Atom(EphId)>>)), Cons(Op(65), L(<<Atom(Z2)>>)), Cons(Op(65), L(<<Atom(H6)>>)),
           Cons(Op(51), L(<<Atom(Z2), Atom(EphAmt)>>)), Cons(Op(51), L(<<Atom(Z2), Atom(EphAmt), L(<<Atom(H5)>>)>>)), Cons(Op(51), L(<<Atom(Z2), Atom(<<8>>)>>)),
           Cons(Op(51), L(<<Atom(Z1), Atom(Coin1Amt)>>)),
           MsgCond(66, 63, <<3>>), MsgCond(66, 8 + 2, <<3>>), MsgCond(66, 7, <<3>>), MsgCond(66, 32 + 16, <<3>>), MsgCond(67, 63, <<3>>),
           Cons(Op(66), L(<<Atom(<<63>>), Atom(<<3>>), Atom(EphId)>>)),
           Cons(Op(1), Nil), Cons(Op(61), L(<<Atom(SHA256(Coin2Id \o <<3>>))>>)), Cons(Op(61), L(<<Atom(SHA256(EphId \o <<3>>))>>))}
\* conditions of the second coin; me = its identity
CrossB(parent, ph, amt, id) ==
  {Cons(Op(61), L(<<Atom(SHA256(Coin1Id \o <<3>>))>>)), Cons(Op(63), L(<<Atom(SHA256(Z1 \o <<3>>))>>)), Cons(Op(61), L(<<Atom(SHA256(Z1 \o <<3>>))>>)),
   Cons(Op(63), L(<<Atom(SHA256(Coin1Id \o <<3>>))>>)), Cons(Op(60), L(<<Atom(<<3>>)>>)),
   Cons(Op(64), L(<<Atom(Coin1Id)>>)), Cons(Op(65), L(<<Atom(Z1)>>)),
   Cons(Op(76), Nil), Cons(Op(82), L(<<Nil>>)), Cons(Op(80), L(<<Nil>>)), Cons(Op(84), L(<<Atom(<<5>>)>>)), Cons(Op(86), L(<<Atom(<<5>>)>>)),
   Cons(Op(74), L(<<Atom(<<5>>)>>)), Cons(Op(75), L(<<Atom(<<5>>)>>)), Cons(Op(82), L(<<Atom(<<255>>)>>)), Cons(Op(86), L(<<Atom(<<1, 0, 0, 0, 0>>)>>)),
   Cons(Op(83), L(<<Atom(<<5>>)>>)), Cons(Op(1), Nil),
   \* receive what coin 1 sent (modes must mirror), from coin 1 identified several ways
   Cons(Op(67), L(<<Atom(<<63>>), Atom(<<3>>), Atom(Coin1Id)>>)),
   Cons(Op(67), L(<<Atom(<<8 + 2>>), Atom(<<3>>), Atom(Coin1Amt)>>)),
   Cons(Op(67), L(<<Atom(<<7>>), Atom(<<3>>)>>)),
   Cons(Op(67), L(<<Atom(<<32 + 16>>), Atom(<<3>>), Atom(P1), Atom(Z1)>>)),
   Cons(Op(67), L(<<Atom(<<63>>), Atom(<<4>>), Atom(Coin1Id)>>)),
   Cons(Op(66), L(<<Atom(<<63>>), Atom(<<3>>), Atom(Coin1Id)>>))}

Inputs ==
  CASE Mode = "single" ->
         {[tree |-> Bundle(<<Spend(P1, Z1, Coin1Amt, L(<<c>>))>>), flags |-> f, max |-> BigMax, clvm |-> Zero, vis |-> v,
           consts |-> Doms, validKeys |-> {GenKey}] : c \in SingleMenu, f \in FlagSets, v \in {"empty", "mempool"}}
    [] Mode = "twobyte" ->
         {[tree |-> Bundle(<<Spend(P1, Z1, Coin1Amt, L(<<c>>))>>), flags |-> f, max |-> BigMax, clvm |-> Zero, vis |-> "empty",
           consts |-> Doms, validKeys |-> {GenKey}] : c \in TwoByteConds(0..255) \cup {Cons(Op(90), L(<<Atom(x)>>)) : x \in IntAtoms},
           f \in {{"DONT_VALIDATE_SIGNATURE"}, {"DONT_VALIDATE_SIGNATURE", "COST_CONDITIONS"}}}
    [] Mode = "pair" ->
         {[tree |-> Bundle(<<Spend(P1, Z1, Coin1Amt, L(<<c1, c2>>))>>), flags |-> f, max |-> BigMax, clvm |-> Zero, vis |-> v,
           consts |-> Doms, validKeys |-> {GenKey}] : c1 \in PairMenu, c2 \in PairMenu, f \in FlagSets, v \in {"empty", "mempool"}}
    [] Mode = "pairq" ->
         \* reduced pair menu of the quick tier: lock / birth folding and positional rules
         LET M == {Cons(Op(op), L(<<Atom(v)>>)) : op \in {74, 75, 80, 82, 84, 85, 86, 87, 81, 83}, v \in {<<>>, <<1>>, <<5>>, U32MAXA}}
                  \cup {Cons(Op(71), L(<<Atom(P1)>>)), Cons(Op(73), L(<<Atom(Coin1Amt)>>)), Cons(Op(1), Nil), Cons(Atom(<<42>>), Nil),
                        Cons(Op(51), L(<<Atom(Z1), Atom(Coin1Amt)>>)), Cons(Op(51), L(<<Atom(Z2), Atom(<<7>>)>>)),
                        Cons(Op(51), L(<<Atom(Z2), Atom(<<7>>), L(<<Atom(H5)>>)>>)), Cons(Op(52), L(<<Atom(<<116>>)>>)), Cons(Op(52), L(<<Atom(<<117>>)>>)),
                        Cons(Op(60), L(<<Atom(<<3>>)>>)), Cons(Op(61), L(<<Atom(SHA256(Coin1Id \o <<3>>))>>)),
                        Cons(Op(66), L(<<Atom(<<18>>), Atom(<<3>>), Atom(Z1)>>)), Cons(Op(67), L(<<Atom(<<18>>), Atom(<<3>>), Atom(Z1)>>))}
         IN {[tree |-> Bundle(<<Spend(P1, Z1, Coin1Amt, L(<<c1, c2>>))>>), flags |-> f, max |-> BigMax, clvm |-> Zero, vis |-> "mempool",
              consts |-> Doms, validKeys |-> {GenKey}] : c1 \in M, c2 \in M,
              f \in {{"DONT_VALIDATE_SIGNATURE"}, {"DONT_VALIDATE_SIGNATURE", "COST_CONDITIONS", "STRICT_ARGS_COUNT"}}}
    [] Mode = "locks3" ->
         \* three locks of one family on one spend, every order: folding to min / max and conflict detection
         {[tree |-> Bundle(<<Spend(P1, Z1, Coin1Amt, L(t))>>), flags |-> f, max |-> BigMax, clvm |-> Zero, vis |-> "mempool",
           consts |-> Doms, validKeys |-> {GenKey}] : t \in LockTriplesAll,
           f \in {{"DONT_VALIDATE_SIGNATURE"}, {"DONT_VALIDATE_SIGNATURE", "COST_CONDITIONS", "STRICT_ARGS_COUNT"}}}
    [] Mode = "big" ->
         \* amounts near 2^64: totals that only fit in 128 bits, reserve-fee overflow
         LET Two63 == <<0, 128, 0, 0, 0, 0, 0, 0, 0>>
             Big == {Cons(Op(51), L(<<Atom(Z2), Atom(Two63)>>)), Cons(Op(51), L(<<Atom(H5), Atom(Two63)>>)), Cons(Op(51), L(<<Atom(Z2), Atom(U64MAXA)>>)),
                     Cons(Op(51), L(<<Atom(H5), Atom(U64MAXA)>>)), Cons(Op(52), L(<<Atom(U64MAXA)>>)), Cons(Op(52), L(<<Atom(Two63)>>)),
                     Cons(Op(52), L(<<Atom(<<1>>)>>)), Cons(Op(1), Nil)}
         IN {[tree |-> Bundle(<<Spend(P1, Z1, a1, L(<<c1, c2>>)), Spend(P2, Z2, a2, L(<<c3>>))>>), flags |-> {"DONT_VALIDATE_SIGNATURE"},
              max |-> BigMax, clvm |-> Zero, vis |-> v, consts |-> Doms, validKeys |-> {GenKey}]
             : c1 \in Big, c2 \in Big, c3 \in Big, a1 \in {U64MAXA, Two63}, a2 \in {U64MAXA, <<1>>}, v \in {"empty", "mempool"}}
    [] Mode = "cross" ->
         {[tree |-> Bundle(IF ord = 1 THEN <<Spend(P1, Z1, Coin1Amt, L(<<ca>>)), Spend(b[1], b[2], b[3], L(<<cb>>))>>
                           ELSE <<Spend(b[1], b[2], b[3], L(<<cb>>)), Spend(P1, Z1, Coin1Amt, L(<<ca>>))>>),
           flags |-> f, max |-> BigMax, clvm |-> Zero, vis |-> v, consts |-> Doms, validKeys |-> {GenKey}]
          : ca \in CrossA, b \in {<<P2, Z2, Coin2Amt, Coin2Id>>, <<Coin1Id, Z2, EphAmt, EphId>>, <<P1, Z1, Coin1Amt, Coin1Id>>},
            cb \in CrossB(P2, Z2, Coin2Amt, Coin2Id), ord \in {1, 2}, f \in FlagSets, v \in {"empty", "mempool"}}
    [] Mode = "struct" ->
         LET okSpend == Spend(P1, Z1, Coin1Amt, Nil)
             okSpend2 == Spend(P2, Z2, Coin2Amt, Nil)
             spendShapes == {okSpend, ListWithTail(<<Atom(P1), Atom(Z1), Atom(Coin1Amt), Nil>>, A1),
                             L(<<Atom(P1), Atom(Z1), Atom(Coin1Amt), Nil, Extra>>), L(<<Atom(P1), Atom(Z1), Atom(Coin1Amt)>>),
                             ListWithTail(<<Atom(P1), Atom(Z1), Atom(Coin1Amt)>>, A1), L(<<Atom(P1), Atom(Z1)>>), Nil, A1,
                             Spend(P1, Z1, Coin1Amt, A1), Spend(P1, Z1, Coin1Amt, Cons(Cons(Op(1), Nil), A1)),
                             Spend(P1, Z1, Coin1Amt, L(<<Cons(Op(1), Nil), Cons(Op(1), A1)>>)),
                             Spend(Bytes(31, 1), Z1, Coin1Amt, Nil), Spend(P1, Bytes(33, 2), Coin1Amt, Nil),
                             Spend(P1, Z1, <<0, 123>>, Nil), Spend(P1, Z1, <<128>>, Nil), Spend(P1, Z1, <<>>, Nil),
                             Spend(P1, Z1, U64MAXA, Nil), Spend(P1, Z1, <<1, 0, 0, 0, 0, 0, 0, 0, 0>>, Nil),
                             L(<<Cons(Atom(P1), Nil), Atom(Z1), Atom(Coin1Amt), Nil>>), L(<<Atom(P1), Atom(Z1), Cons(Atom(Coin1Amt), Nil), Nil>>)}
             trees == {Bundle(<<s>>) : s \in spendShapes}
                      \cup {Bundle(<<okSpend, s>>) : s \in spendShapes}
                      \cup {Nil, A1, L(<<Nil>>), L(<<A1>>), Cons(L(<<okSpend>>), A1), L(<<L(<<okSpend>>), Extra>>),
                            L(<<ListWithTail(<<okSpend>>, A1)>>), L(<<ListWithTail(<<okSpend, okSpend2>>, A1)>>), L(<<L(<<okSpend, okSpend2>>)>>),
                            Cons(Nil, Nil), Cons(A1, Nil)}
         IN {[tree |-> t, flags |-> f, max |-> m, clvm |-> c, vis |-> v, consts |-> Doms, validKeys |-> {GenKey}]
             : t \in trees, f \in FlagSets \cup {{"LIMIT_SPENDS", "DONT_VALIDATE_SIGNATURE"}}, v \in {"empty", "mempool"},
               m \in {BigMax, Zero, Of(449999), Of(450000)}, c \in {Zero, Of(77)}}

VARIABLES in, st
vars == <<in, st>>

Init == in \in Inputs /\ st = Start(in)

\* one named action per critical section of the implementation
Advance == st' = Step(in, st) /\ UNCHANGED in
ABegin      == st.pc = "begin" /\ Advance
ABeginSpend == st.pc = "spend" /\ IsPair(st.spendsLeft) /\ Advance
AEndSpends  == st.pc = "spend" /\ IsAtom(st.spendsLeft) /\ Advance
ACond       == st.pc = "cond" /\ IsPair(st.condsLeft) /\ Advance
AEndSpend   == st.pc = "cond" /\ IsAtom(st.condsLeft) /\ Advance
AFinish     == st.pc = "finish" /\ Advance
Next == ABegin \/ ABeginSpend \/ AEndSpends \/ ACond \/ AEndSpend \/ AFinish

Done == st.pc = "done"
Ok == Done /\ st.err = ""

(* ------------------------- C02 on the machine --------------------------- *)
SpendSeq == st.ret.spends
Conservation == Ok => Le(Add(st.ret.add, st.ret.fee), st.ret.rem)
NoDoubleSpend == \A i, j \in DOMAIN SpendSeq : i # j => SpendSeq[i].id # SpendSeq[j].id
NoDupOutput == \A i \in DOMAIN SpendSeq : \A a, b \in SpendSeq[i].cc : a # b => <<a.ph, a.amt>> # <<b.ph, b.amt>>
TotalsAreSums == Ok => /\ st.ret.rem = SumSeq([i \in DOMAIN SpendSeq |-> SpendSeq[i].amt])
                       /\ st.ret.add = SumSeq([i \in DOMAIN SpendSeq |-> SumAmounts(SpendSeq[i].cc)])
CoinIdDef == \A i \in DOMAIN SpendSeq : SpendSeq[i].id = SHA256(SpendSeq[i].parent \o SpendSeq[i].ph \o Enc(SpendSeq[i].amt))

(* ------------------------- C04 on the machine --------------------------- *)
CondCost(c) == LET op == ParseOpcode(c.l) IN
  IF op = -1 THEN (IF CC(in) THEN GENERIC_COND_COST ELSE Zero)
  ELSE Add(PreCost(in, op),
           IF op = SOFTFORK THEN MulSmall(Sanitize(c.r.l.a, 4).v, 10000)
           ELSE IF op >= 256 THEN Of(TwoByteCosts[(op % 256) + 1]) ELSE Zero)
SpendCost(s) == Add(IF CC(in) THEN SPEND_COST ELSE Zero,
                    LET cs == Elems(s.r.r.r.l) IN SumSeq([i \in DOMAIN cs |-> CondCost(cs[i])]))
DeclCost == LET ss == Elems(in.tree.l) IN SumSeq([i \in DOMAIN ss |-> SpendCost(ss[i])])
CostIsTableSum == Ok => /\ CostOf(in, st) = DeclCost
                        /\ st.ret.ccost = DeclCost
                        /\ st.ret.ccost = SumSeq([i \in DOMAIN SpendSeq |-> SpendSeq[i].ccost])
CostWithinLimit == Le(CostOf(in, st), in.max) /\ Add(CostOf(in, st), st.costLeft) = in.max
\* exactness of the limit: accepted at the total, CostExceeded one below
LimitExact == Ok => LET t == CostOf(in, st) IN
  /\ Accepted(Run([in EXCEPT !.max = t]))
  /\ t # Zero => Run([in EXCEPT !.max = Sub(t, <<1>>)]).err = "CostExceeded"

(* ------------------------------ cases ----------------------------------- *)
FlagSeq(f) == LET RECURSIVE G(_)
                  G(S) == IF S = {} THEN <<>> ELSE LET x == CHOOSE x \in S : TRUE IN <<x>> \o G(S \ {x})
              IN G(f)
CaseOf == [tree |-> in.tree, flags |-> FlagSeq(in.flags), max |-> in.max, clvm |-> in.clvm, vis |-> in.vis, consts |-> in.consts,
           expect |-> IF st.err = "" THEN "ok" ELSE st.err]
Emit == Done => PrintT(<<"CASE", ToJson(CaseOf)>>)
=============================================================================
