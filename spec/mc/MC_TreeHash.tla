---------------------------- MODULE MC_TreeHash ----------------------------
(* C17 (M + G): all DAGs with <= NPairs pair nodes, grown by AllocMore       *)
(* between the calls, and all histories of <= MaxOps calls through ONE       *)
(* shared TreeCache. Every emitted history is a replay case.                 *)
(*  Mode "dag":   atoms {nil, 1}; calls on pair nodes.                       *)
(*  Mode "dag1":  one atom only (the cache never looks at atoms), which      *)
(*                makes one more pair node affordable.                       *)
(*  Mode "atoms": every pair of atoms of the menu (small-integer fast path,  *)
(*                both allocator representations), <= 1 pair.                *)
(*  Full = TRUE : the history is part of the state: every history of <=      *)
(*                MaxOps calls (interleaved with allocations) is a state;    *)
(*                complete histories are emitted by the invariant Emit.      *)
(*  Full = FALSE: cfg uses VIEW ViewNoHist and MaxOps = 99: the state is     *)
(*                (table, cache), so TLC explores EVERY reachable cache      *)
(*                state of every DAG under histories of ANY length; results  *)
(*                are checked and cases emitted per transition (action       *)
(*                properties ResultStep / EmitStep), each with the           *)
(*                representative history of its source state.                *)
EXTENDS TreeHashCache, Json

CONSTANTS Mode, NPairs, MaxOps, Full, EmitOneIn, Kinds   \* Kinds: the enabled calls

VARIABLES nops, st, internal
allvars == <<tbl, cache, hist, nops, st, internal>>

A32 == [i \in 1..32 |-> (i * 7 + 3) % 256]
AtomBytes == {<<>>, <<1>>, <<23>>, <<24>>, <<127>>, <<0, 128>>, <<3, 255, 255, 255>>,    \* canonical, SmallAtom-capable
              <<0>>, <<0, 1>>, <<0, 23>>, <<0, 0>>, <<128>>, <<4, 0, 0, 0>>, A32}           \* Buffer only
AtomMenu == {AtomNode(b, "buf") : b \in AtomBytes} \cup {AtomNode(b, "small") : b \in {x \in AtomBytes : FitsSmall(x)}}

IsDag == Mode \in {"dag", "dag1"}
BaseTables == IF Mode = "dag" THEN {<<AtomNode(<<>>, "small"), AtomNode(<<1>>, "small")>>}
              ELSE IF Mode = "dag1" THEN {<<AtomNode(<<1>>, "small")>>}
              ELSE {<<x>> : x \in AtomMenu} \cup {<<x, y>> : x \in AtomMenu, y \in AtomMenu}

PairCount == Cardinality({k \in DOMAIN tbl : IsPairNode(tbl[k])})
Targets == IF IsDag THEN {k \in DOMAIN tbl : IsPairNode(tbl[k])} ELSE DOMAIN tbl

Init == /\ tbl \in BaseTables
        /\ cache = EmptyCache
        /\ hist = <<>>
        /\ nops = 0 /\ st = "open" /\ internal = FALSE

Alloc == /\ PairCount < NPairs /\ nops < MaxOps
         /\ \E i, j \in DOMAIN tbl : (IsDag \/ (i = 1 /\ j = Len(tbl))) /\ AllocMore(PairNode(i, j))
         /\ UNCHANGED <<nops, st, internal>>
\* calls that change the shared cache
Stateful == /\ nops < MaxOps /\ nops' = nops + 1
            /\ \E n \in Targets :
                 \/ "visit" \in Kinds /\ VisitTreeA(n) /\ UNCHANGED <<st, internal>>
                 \/ "cached" \in Kinds /\ HashCachedA(n) /\ UNCHANGED <<st, internal>>
                 \/ "insert" \in Kinds /\ IsPairNode(tbl[n]) /\ InsertA(n) /\ UNCHANGED <<st, internal>>
                 \/ "novisit" \in Kinds /\ HashNoVisitA(n) /\ internal' = TRUE /\ UNCHANGED st
\* calls that neither read nor write the shared cache: checked once per table, on a fresh history
\* (the harness additionally runs them at the end of every replayed history)
Stateless == /\ cache = EmptyCache /\ nops < MaxOps /\ nops' = nops + 1 /\ st' = "done"
             /\ \E n \in Targets :
                  \/ "plain" \in Kinds /\ HashPlainA(n)
                  \/ "bytes" \in Kinds /\ HashFromBytesA(n, FALSE)
                  \/ "bytes_br" \in Kinds /\ HashFromBytesA(n, TRUE)
                  \/ "enc" \in Kinds /\ HashEncoderA(n)
             /\ UNCHANGED internal
Next == st = "open" /\ (Alloc \/ Stateful \/ Stateless)

ViewNoHist == <<tbl, cache, st, internal>>

ASSUME SmallAtoms

TableOK == WellFormed(tbl)
RefAgreesOnAlloc == (hist = <<>> \/ ~IsCall(Top(hist))) => RefAgrees
\* the non-canonical / Buffer atoms never take the fast path, canonical ones may: both equal the reference
AtomFastPathSound == \A k \in DOMAIN tbl : IsAtomNode(tbl[k]) => AtomHashFast(tbl[k]) = AtomHash(tbl[k].a)

\* Full = FALSE: results are checked and cases emitted per TRANSITION (TLC evaluates action properties
\* also for successors whose view was seen before), with the representative history of the source state
ResultStep == [][LastResultCorrect']_allvars
Strip(e) == IF IsCall(e) THEN [k |-> e.k, n |-> e.n] ELSE [k |-> "alloc", l |-> e.nd.l, r |-> e.nd.r]
CaseOf(t, h) == [k |-> "hist", base |-> SelectSeq(t, IsAtomNode), ev |-> [i \in DOMAIN h |-> Strip(h[i])]]
Emit == (Full /\ hist # <<>> /\ IsCall(Top(hist)) /\ ~internal /\ (nops = MaxOps \/ st = "done")) => PrintT(<<"CASE", ToJson(CaseOf(tbl, hist))>>)
\* EmitOneIn > 1: only a random 1/EmitOneIn of the transitions become replay cases (all are model checked)
EmitStep == [][(~Full /\ hist' # hist /\ IsCall(Top(hist')) /\ ~internal' /\ (EmitOneIn = 1 \/ RandomElement(1..EmitOneIn) = 1)) => PrintT(<<"CASE", ToJson(CaseOf(tbl', hist'))>>)]_allvars
=============================================================================
