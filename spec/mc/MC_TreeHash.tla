---------------------------- MODULE MC_TreeHash ----------------------------
(* C17 (M + G): all DAGs with <= NPairs pair nodes, grown by AllocMore       *)
(* between the calls, and all histories of <= MaxOps calls through ONE       *)
(* shared TreeCache. Every emitted history is a replay case.                 *)
(*  Mode "dag":   atoms {nil, 1}; calls on pair nodes.                       *)
(*  Mode "atoms": every pair of atoms of the menu (small-integer fast path,  *)
(*                both allocator representations), <= 1 pair.                *)
(*  Full = TRUE : the history is part of the state (every history is a       *)
(*                state, complete histories are emitted).                    *)
(*  Full = FALSE: cfg uses VIEW ViewNoHist: states are (table, cache, number *)
(*                of calls, last event); every reachable cache state and     *)
(*                every call from it is checked once and emitted with one    *)
(*                representative history.                                    *)
EXTENDS TreeHashCache, Json

CONSTANTS Mode, NPairs, MaxOps, Full

VARIABLES nops, st, internal
allvars == <<tbl, cache, hist, nops, st, internal>>

A32 == [i \in 1..32 |-> (i * 7 + 3) % 256]
AtomBytes == {<<>>, <<1>>, <<23>>, <<24>>, <<127>>, <<0, 128>>, <<3, 255, 255, 255>>,    \* canonical, SmallAtom-capable
              <<0>>, <<0, 1>>, <<0, 23>>, <<0, 0>>, <<128>>, <<4, 0, 0, 0>>, A32}           \* Buffer only
AtomMenu == {AtomNode(b, "buf") : b \in AtomBytes} \cup {AtomNode(b, "small") : b \in {x \in AtomBytes : FitsSmall(x)}}

BaseTables == IF Mode = "dag" THEN {<<AtomNode(<<>>, "small"), AtomNode(<<1>>, "small")>>}
              ELSE {<<x>> : x \in AtomMenu} \cup {<<x, y>> : x \in AtomMenu, y \in AtomMenu}

PairCount == Cardinality({k \in DOMAIN tbl : IsPairNode(tbl[k])})
Targets == IF Mode = "dag" THEN {k \in DOMAIN tbl : IsPairNode(tbl[k])} ELSE DOMAIN tbl

Init == /\ tbl \in BaseTables
        /\ cache = EmptyCache
        /\ hist = <<>>
        /\ nops = 0 /\ st = "open" /\ internal = FALSE

Alloc == /\ PairCount < NPairs /\ nops < MaxOps
         /\ \E i, j \in DOMAIN tbl : AllocMore(PairNode(i, j))
         /\ UNCHANGED <<nops, st, internal>>
\* calls that change the shared cache
Stateful == /\ nops < MaxOps /\ nops' = nops + 1
            /\ \E n \in Targets :
                 \/ VisitTreeA(n) /\ UNCHANGED <<st, internal>>
                 \/ HashCachedA(n) /\ UNCHANGED <<st, internal>>
                 \/ HashNoVisitA(n) /\ internal' = TRUE /\ UNCHANGED st
\* calls that do not touch it end the history (they cannot influence later calls)
Stateless == /\ nops < MaxOps /\ nops' = nops + 1 /\ st' = "done"
             /\ \E n \in Targets : HashPlainA(n) \/ HashFromBytesA(n, FALSE) \/ HashFromBytesA(n, TRUE) \/ HashEncoderA(n)
             /\ UNCHANGED internal
Next == st = "open" /\ (Alloc \/ Stateful \/ Stateless)

ViewNoHist == <<tbl, cache, nops, st, internal, IF hist = <<>> THEN <<>> ELSE Top(hist)>>

ASSUME SmallAtoms

TableOK == WellFormed(tbl)
RefAgreesOnAlloc == (hist = <<>> \/ ~IsCall(Top(hist))) => RefAgrees
\* the non-canonical / Buffer atoms never take the fast path, canonical ones may: both equal the reference
AtomFastPathSound == \A k \in DOMAIN tbl : IsAtomNode(tbl[k]) => AtomHashFast(tbl[k]) = AtomHash(tbl[k].a)

Strip(e) == IF IsCall(e) THEN [k |-> e.k, n |-> e.n] ELSE [k |-> "alloc", l |-> e.nd.l, r |-> e.nd.r]
Emit == (hist # <<>> /\ IsCall(Top(hist)) /\ ~internal /\ (~Full \/ nops = MaxOps \/ st = "done")) =>
          PrintT(<<"CASE", ToJson([k |-> "hist", base |-> SelectSeq(tbl, IsAtomNode), ev |-> [i \in DOMAIN hist |-> Strip(hist[i])]])>>)
=============================================================================
