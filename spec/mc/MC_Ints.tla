------------------------------ MODULE MC_Ints ------------------------------
(* C11 (M + G): exhaustive check of the canonical-integer lemmas of ClvmInt *)
(* on the boundary lattice and on all short atoms with adversarial leading  *)
(* bytes; every visited state is also emitted as a replay case.             *)
EXTENDS ClvmInt, TLC, Json, FiniteSets
CONSTANT MaxAtomLen

Deltas == {0, 1, 2}
\* thresholds 2^(8k-1) and 2^(8k), k = 1..16, +- Deltas
Thresholds(K) == UNION { {HalfPow(k), Pow256(k)} : k \in 1..K }
Around(t) == {Add(t, Of(d)) : d \in Deltas} \cup {Sub(t, Of(d)) : d \in Deltas}
NatLattice(K) == {Zero, <<1>>, <<2>>} \cup UNION {Around(t) : t \in Thresholds(K)}

U64Values == {v \in NatLattice(8) : Le(v, U64MAX)}
SignedValues == {SNat(m) : m \in NatLattice(16)} \cup {SNeg(m) : m \in NatLattice(16) \ {Zero}}

Lead == {0, 1, 127, 128, 255}
RestB == {0, 255}
AtomsOfLen(n) == IF n = 0 THEN {<<>>}
                 ELSE {b \in [1..n -> Lead \cup RestB] : \A i \in 1..n : i > 3 => b[i] \in RestB}
Atoms == UNION {AtomsOfLen(n) : n \in 0..MaxAtomLen}


VARIABLE x
Init == \/ \E v \in U64Values : x = [k |-> "u64", v |-> v]
        \/ \E b \in Atoms : x = [k |-> "atom", b |-> b]
        \/ \E s \in SignedValues : x = [k |-> "int", neg |-> s.neg, mag |-> s.mag]
Next == UNCHANGED x

InRangeU(v, w) == ~v.neg /\ Len(v.mag) <= w
InRangeS(v, w) == IF v.neg THEN Le(v.mag, HalfPow(w)) ELSE Lt(v.mag, HalfPow(w))

\* ---- properties of the specification itself ----
\* the canonical form is the unique shortest atom with its value
CanonUnique == x.k = "atom" =>
  LET v == TwosValue(x.b) e == EncSigned(v) IN
  /\ TwosValue(e) = v
  /\ Len(e) <= Len(x.b)
  /\ (Len(e) = Len(x.b) => e = x.b)
  /\ (IsCanonical(x.b) <=> e = x.b)
\* decode after encode is the identity for every value
DecEnc == /\ x.k = "u64" => TwosValue(Enc(x.v)) = SNat(x.v) /\ IsCanonical(Enc(x.v))
          /\ x.k = "int" => LET s == [neg |-> x.neg, mag |-> x.mag] IN
                             TwosValue(EncSigned(s)) = s /\ IsCanonical(EncSigned(s))
\* the four Sanitize outcomes are exactly the declarative classes; never truncation
SanitizeClasses == x.k = "atom" => \A w \in {4, 8} :
  LET v == TwosValue(x.b) r == Sanitize(x.b, w) IN
  /\ r.k = "neg" <=> v.neg
  /\ r.k = "malformed" <=> (~v.neg /\ ~IsCanonical(x.b))
  /\ r.k = "pos" <=> (~v.neg /\ IsCanonical(x.b) /\ Len(v.mag) > w)
  /\ r.k = "ok" <=> (~v.neg /\ IsCanonical(x.b) /\ Len(v.mag) <= w)
  /\ r.k = "ok" => r.v = v.mag
\* the serialised length of an amount follows the ten-step ladder
SerLenLadder == x.k = "u64" => SerLenOfAmount(x.v) = (IF Lt(x.v, <<128>>) THEN 1 ELSE 1 + EncLen(x.v))

Emit == PrintT(<<"CASE", ToJson(x)>>)
=============================================================================
