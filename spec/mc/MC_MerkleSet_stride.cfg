INIT Init
NEXT Next
CONSTANT D = 3
CONSTANT EmbKind = "stride"
CONSTANT MinSet = 0
CONSTANT MaxSet = 8
CONSTANT SoundMax = 4
CONSTANT ExhH = 0
CONSTANT GuidedH = 4
CONSTANT PermMax = 4
CONSTANT DupMax = 2
CONSTANT EmitCases = TRUE
INVARIANT Canonical
INVARIANT Complete
INVARIANT Sound
CHECK_DEADLOCK FALSE
