INIT Init
NEXT Next
CONSTANT D = 2
CONSTANT EmbKind = "low"
CONSTANT MinSet = 1
CONSTANT MaxSet = 3
CONSTANT SoundMax = 3
CONSTANT ExhH = 0
CONSTANT GuidedH = 0
CONSTANT PermMax = 4
CONSTANT DupMax = 2
CONSTANT EmitCases = TRUE
INVARIANT Canonical
INVARIANT Complete
INVARIANT Sound
CHECK_DEADLOCK FALSE
