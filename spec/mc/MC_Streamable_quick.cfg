INIT Init
NEXT Next
CONSTANT Mode = "scaled"
CONSTANT MaxLen = 4
CONSTANT Alphabet = {0, 1, 2, 128, 192, 255}
CONSTANT LenW = 1
CONSTANT HashW = 1
CONSTANT G1W = 2
CONSTANT G2W = 2
INVARIANT NoOracleGaps
INVARIANT Canon
INVARIANT PrefixFree
INVARIANT TrustedAgrees
INVARIANT HashIsShaOfEncoding
INVARIANT RoundTrip
INVARIANT Emit
CHECK_DEADLOCK FALSE
