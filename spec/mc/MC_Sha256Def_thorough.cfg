CONSTANTS MaxLen = 260 NRand = 3000 RandMaxLen = 400 NOps = 1000
INIT Init
NEXT Next
INVARIANT PureEqualsOverride
INVARIANT NistVectors
INVARIANT WordOps
INVARIANT Stats
CHECK_DEADLOCK FALSE
