INIT Init
NEXT Next
CONSTANT IH <- SymIH
CONSTANT NK = 5
CONSTANT NH = 5
CONSTANT Spread = 1
CONSTANT MaxOps = 4
CONSTANT MaxBatch = 3
VIEW View
CONSTRAINT Bound
INVARIANT RefinesMap
INVARIANT IntegrityInv
INVARIANT CleanHashesInv
INVARIANT RootHashDef
INVARIANT ProofsValid
INVARIANT OkMeansApplied
PROPERTY FailedIsStutterMC
PROPERTY ReloadEquivalentMC
INVARIANT Emit
CHECK_DEADLOCK FALSE
