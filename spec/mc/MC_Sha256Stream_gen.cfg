CONSTANTS BlkMax = 0 Lens = {0, 1, 55, 56, 63, 64, 65, 119, 120, 127, 128, 129} CloneLens = {0, 1, 64, 65} MaxUpd = 3 CloneMaxUpd = 3 MaxTot = 400 Modes = {"chunk", "clone"}
INIT Init
NEXT Next
INVARIANT ChunkingIrrelevant
INVARIANT BlockInv
INVARIANT ForkInv
INVARIANT Emit
CHECK_DEADLOCK FALSE
