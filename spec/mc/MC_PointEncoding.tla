-------------------------- MODULE MC_PointEncoding --------------------------
(* C16 part B (M + G): the flag-bit x coordinate-class table and the secret *)
(* key range lattice. Every row is checked against the laws of the encoding *)
(* and emitted; the harness realises each row on real strings.              *)
EXTENDS PointEncoding, TLC, Json

Rows == [kind : Kinds, c : Bits, i : Bits, s : Bits, xc : XClasses]
Acc(r) == CheckedT(r.c, r.i, r.s, r.xc)
Cur(r) == CurvePointT(r.c, r.i, r.s, r.xc)

\* boundary lattice of 32-byte scalars around 0, r, 2r, 2^255, 2^256
SkLattice == LET near(v) == {Sub(v, <<2>>), Sub(v, <<1>>), v, Add(v, <<1>>), Add(v, <<2>>)} IN
  {<<>>, <<1>>, <<2>>} \cup near(ROrd) \cup near(MulSmall(ROrd, 2)) \cup near([j \in 1..32 |-> IF j = 1 THEN 128 ELSE 0])
  \cup {AllOnes(32), Sub(AllOnes(32), <<1>>), ROrd \o <<>>, <<1>> \o [j \in 1..31 |-> 0]}

VARIABLE x
Init == \/ \E r \in Rows : x = [k |-> "enc", row |-> r, v |-> <<>>]
        \/ \E v \in SkLattice : x = [k |-> "skr", row |-> [kind |-> "sk", c |-> 0, i |-> 0, s |-> 0, xc |-> "zero"], v |-> Fixed32(v)]
Next == UNCHANGED x

IsEnc == x.k = "enc"
\* checked parsing accepts only canonical encodings of curve points; unchecked may accept all of those
CheckedWithinCurve == IsEnc => (Acc(x.row) => Cur(x.row))
\* an accepted row re-encodes to itself (unique encoding) ...
Canonical == IsEnc => (Cur(x.row) => FlagsOf(PointOf(x.row.c, x.row.i, x.row.s, x.row.xc)) = <<x.row.c, x.row.i, x.row.s>>)
\* ... and no other flag combination denoting the same point is accepted
UniqueEncoding == IsEnc => (Cur(x.row) =>
  \A r \in Rows : (r.kind = x.row.kind /\ Cur(r) /\ LenientPoint(r.c, r.i, r.s, r.xc) = LenientPoint(x.row.c, x.row.i, x.row.s, x.row.xc))
                  => r = x.row)
\* exactly one accepted encoding of infinity per kind; nothing outside the subgroup is accepted by checked parsing
OneInfinity == \A kd \in Kinds : Cardinality({r \in Rows : r.kind = kd /\ Acc(r) /\ PointOf(r.c, r.i, r.s, r.xc).inf}) = 1
SubgroupOnly == IsEnc => (Acc(x.row) => x.row.xc \in {"zero", "insub"} /\ (x.row.xc = "zero" => x.row.i = 1))
\* without the compression bit or with stray bits next to the infinity bit nothing is accepted
FlagsStrict == IsEnc => ((x.row.c = 0 \/ (x.row.i = 1 /\ (x.row.s = 1 \/ x.row.xc # "zero"))) => ~Cur(x.row))
\* secret keys: accepted iff below the group order; the sum of two accepted keys is again accepted
SkRange == x.k = "skr" => /\ SkAccept(x.v) <=> Lt(Norm(x.v), ROrd)
                          /\ SkAccept(x.v) => SkAccept(Fixed32(AddModR(x.v, x.v))) /\ SkAccept(Fixed32(AddModR(x.v, Fixed32(Sub(ROrd, <<1>>)))))
                          /\ UnsignedModR(x.v) = ModR(Norm(x.v)) /\ Lt(SignedModR(x.v), ROrd)
                          /\ (x.v[1] >= 128 => ModR(Add(SignedModR(x.v), ModR(Sub(TwoTo256, Norm(x.v))))) = <<>>)

Emit == PrintT(<<"CASE", ToJson([k |-> x.k, row |-> x.row, v |-> x.v,
                                  chk |-> IF IsEnc THEN Acc(x.row) ELSE SkAccept(x.v)])>>)
=============================================================================
