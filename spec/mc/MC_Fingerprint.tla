--------------------------- MODULE MC_Fingerprint ---------------------------
(* C19 part A (M + G): relational driver over PAIRS of condition lists.      *)
(* Init picks a base list (up to MaxLen conditions from a menu that contains *)
(* every fingerprint branch); Next applies one perturbation: one atom        *)
(* replaced, one byte moved between adjacent atoms (length split), a         *)
(* condition split in two, the CREATE_COIN hint shape changed, a condition   *)
(* inserted or deleted. Both lists are spent by the same coin (plus a funder *)
(* spend so that outputs may exceed the coin). The invariants compare the    *)
(* preimages with the meaning the condition machine gives the two lists in   *)
(* mempool mode.                                                             *)
EXTENDS Fingerprint, ClvmSer, TLC, Json

CONSTANT MaxLen,      \* conditions in the base list
         Menu,        \* "quick" | "full"
         Forks        \* set of fork-flag sets, e.g. {{}, {"COST_CONDITIONS"}}

CM == INSTANCE CondMenus
GenKey == CM!GenKey
Doms == CM!Doms

H(n) == [i \in 1..32 |-> n]
L(s) == ListOf(s)
\* the puzzle the harness uses: (r (c (q . salt) 1)) returns its solution
IdPuzzle(salt) == L(<<Atom(<<6>>), L(<<Atom(<<4>>), Cons(Atom(<<1>>), Atom(salt)), Atom(<<1>>)>>)>>)
Salt1 == <<>>
Salt2 == <<7>>
P1 == H(1)  P2 == H(3)  H5 == H(5)
Z1 == TreeHash(IdPuzzle(Salt1))
Z2 == TreeHash(IdPuzzle(Salt2))
Amt1 == <<3>>
FunderAmt == <<3, 232>>
Coin1Id == CoinIdOf(P1, Z1, Enc(Amt1))
B33 == [i \in 1..33 |-> 4]

(* ---- abstract conditions: opcode atom, argument atoms, shape of what follows ---- *)
Absent == [k |-> "absent"]
Hint(h) == [k |-> "hint", h |-> h]
C(op, args) == [op |-> <<op>>, args |-> args, third |-> Absent]
CT(op, args, t) == [op |-> <<op>>, args |-> args, third |-> t]

ThirdSx(t) ==
  CASE t.k = "absent" -> <<>>
    [] t.k = "nil"    -> <<Nil>>                                     \* memo list present but empty
    [] t.k = "hint"   -> <<L(<<Atom(t.h)>>)>>                         \* one memo
    [] t.k = "pair"   -> <<L(<<L(<<Atom(H5)>>)>>)>>                   \* first memo is a list
    [] t.k = "two"    -> <<L(<<Atom(<<1>>), Atom(<<0>>)>>)>>          \* two memos
    [] t.k = "two0"   -> <<L(<<Atom(<<1>>), Atom(<<9, 9>>)>>)>>       \* same hint, other second memo
    [] t.k = "atom"   -> <<Atom(H5)>>                                 \* third argument is not a list
    [] t.k = "dotted" -> <<Cons(Atom(<<1>>), Atom(<<1>>))>>           \* memo list with an atom tail
    [] t.k = "extra"  -> <<L(<<Atom(<<1>>)>>), Atom(<<1>>)>>          \* a fourth argument

BuildCond(c) == Cons(Atom(c.op), L([i \in DOMAIN c.args |-> Atom(c.args[i])] \o ThirdSx(c.third)))
BuildList(l) == L([i \in DOMAIN l |-> BuildCond(l[i])])

MsgSelf(op) == C(op, <<<<18>>, <<3>>, Z1>>)          \* puzzle-to-puzzle message addressed to the own puzzle hash

BaseQuick == {
  C(51, <<Z1, <<3>>>>), C(51, <<H5, <<1>>>>), C(51, <<H5, <<1, 0>>>>), CT(51, <<H5, <<2>>>>, Hint(<<1>>)),
  C(52, <<<<1>>>>), C(83, <<<<1>>>>), C(80, <<<<1, 0>>>>), C(1, <<>>), C(1, <<<<1>>>>), C(60, <<<<1>>>>),
  C(73, <<<<3>>>>), C(71, <<P1>>), C(49, <<GenKey, <<3>>>>), C(44, <<GenKey, <<3>>>>), MsgSelf(66), MsgSelf(67), C(42, <<>>)}
BaseFull == BaseQuick \cup {
  C(51, <<H5, <<>>>>), CT(51, <<H5, <<1>>>>, Hint(H5)), CT(51, <<Z1, <<3>>>>, [k |-> "two"]),
  C(85, <<<<1, 0>>>>), C(87, <<<<1>>>>), C(82, <<<<128>>>>), C(74, <<<<1>>>>), C(75, <<<<1>>>>),
  C(62, <<<<51>>>>), C(72, <<Z1>>), C(70, <<Coin1Id>>), C(76, <<>>),
  C(43, <<GenKey, <<3>>>>), C(45, <<GenKey, <<3>>>>), C(46, <<GenKey, <<3>>>>), C(47, <<GenKey, <<3>>>>),
  C(48, <<GenKey, <<3>>>>), C(50, <<GenKey, <<3>>>>),
  C(90, <<<<1>>>>), [op |-> <<51, 0>>, args |-> <<>>, third |-> Absent]}
Base == IF Menu = "quick" THEN BaseQuick ELSE BaseFull
BaseLists == UNION {[1..n -> Base] : n \in 0..MaxLen}

OpAlphabet == {<<>>, <<0>>, <<1>>, <<1, 0>>, <<51>>, <<51, 0>>, <<0, 51>>, <<52>>, <<73>>, <<50>>, <<66>>, <<90>>, <<42>>}
ArgAlphabet == {<<>>, <<0>>, <<1>>, <<1, 0>>, <<0, 1>>, <<51>>, <<51, 0>>, <<3>>, <<128>>, H5, Z1}
ThirdShapes == {Absent, [k |-> "nil"], Hint(<<>>), Hint(<<0>>), Hint(<<1>>), Hint(<<1, 0>>), Hint(H5), Hint(B33),
                [k |-> "pair"], [k |-> "two"], [k |-> "two0"], [k |-> "atom"], [k |-> "dotted"], [k |-> "extra"]}
InsMenu == IF Menu = "quick" THEN {C(1, <<>>), C(1, <<<<51>>>>), C(42, <<>>), C(51, <<H5, <<1>>>>), C(49, <<GenKey, <<3>>>>), MsgSelf(66)} ELSE Base

(* ---- perturbations ---- *)
\* all hashed atoms of a condition in order (the hint of a one-memo CREATE_COIN included)
AtomsOf(c) == <<c.op>> \o c.args \o (IF c.third.k = "hint" THEN <<c.third.h>> ELSE <<>>)
WithAtoms(c, s) == IF c.third.k = "hint"
                   THEN [op |-> s[1], args |-> SubSeq(s, 2, Len(s) - 1), third |-> Hint(s[Len(s)])]
                   ELSE [op |-> s[1], args |-> Tail(s), third |-> c.third]
Front1(b) == SubSeq(b, 1, Len(b) - 1)
MoveRight(s, k) == [s EXCEPT ![k] = Front1(s[k]), ![k + 1] = <<s[k][Len(s[k])]>> \o s[k + 1]]
MoveLeft(s, k) == [s EXCEPT ![k] = s[k] \o <<s[k + 1][1]>>, ![k + 1] = Tail(s[k + 1])]

AtomSubst(l) ==
  UNION {{[l EXCEPT ![i].op = a] : a \in OpAlphabet \ {l[i].op}} : i \in DOMAIN l}
  \cup UNION {UNION {{[l EXCEPT ![i].args[j] = a] : a \in ArgAlphabet \ {l[i].args[j]}} : j \in DOMAIN l[i].args} : i \in DOMAIN l}
ByteMoves(l) ==
  UNION {(LET s == AtomsOf(l[i]) IN
          {[l EXCEPT ![i] = WithAtoms(l[i], MoveRight(s, k))] : k \in {k \in 1..(Len(s) - 1) : s[k] # <<>>}}
          \cup {[l EXCEPT ![i] = WithAtoms(l[i], MoveLeft(s, k))] : k \in {k \in 1..(Len(s) - 1) : s[k + 1] # <<>>}})
         : i \in DOMAIN l}
InsertAt(l, i, c) == SubSeq(l, 1, i - 1) \o <<c>> \o SubSeq(l, i, Len(l))
DeleteAt(l, i) == SubSeq(l, 1, i - 1) \o SubSeq(l, i + 1, Len(l))
\* (op .. x.b) -> (op .. x) (b)   and   (op .. x.b.c) -> (op .. x) (b c): the same bytes, regrouped
Splits(l) ==
  UNION {(LET c == l[i]  n == Len(c.args) IN
         IF c.third # Absent \/ n = 0 THEN {}
         ELSE LET x == c.args[n] IN
              (IF Len(x) >= 1 THEN {InsertAt([l EXCEPT ![i].args[n] = Front1(x)], i + 1, [op |-> <<x[Len(x)]>>, args |-> <<>>, third |-> Absent])} ELSE {})
              \cup (IF Len(x) >= 2 THEN {InsertAt([l EXCEPT ![i].args[n] = SubSeq(x, 1, Len(x) - 2)], i + 1,
                                                   [op |-> <<x[Len(x) - 1]>>, args |-> <<<<x[Len(x)]>>>>, third |-> Absent])} ELSE {}))
         : i \in DOMAIN l}
ThirdSubst(l) == UNION {(IF l[i].op = <<51>> THEN {[l EXCEPT ![i].third = t] : t \in ThirdShapes \ {l[i].third}} ELSE {}) : i \in DOMAIN l}
Inserts(l) == UNION {{InsertAt(l, i, c) : c \in InsMenu} : i \in 1..(Len(l) + 1)}
Deletes(l) == {DeleteAt(l, i) : i \in DOMAIN l}
Perturb(l) == AtomSubst(l) \cup ByteMoves(l) \cup Splits(l) \cup ThirdSubst(l) \cup Inserts(l) \cup Deletes(l)

(* ---- the two runs ---- *)
Subject(conds) == [parent |-> P1, ph |-> Z1, amt |-> Amt1, conds |-> conds]
Funder == [parent |-> P2, ph |-> Z2, amt |-> FunderAmt, conds |-> Nil]
InOf(l, fork) == MempoolIn(<<Subject(BuildList(l)), Funder>>, fork, Doms, {GenKey})

ResultOf(l, fork) ==
  LET conds == BuildList(l)
      st == Run(InOf(l, fork))
      acc == Accepted(st)
  IN [acc |-> acc, err |-> st.err, parsed |-> IF acc THEN Parsed(st) ELSE <<>>,
      dedup |-> IF acc THEN [i \in DOMAIN st.ret.spends |-> DEDUP \in st.ret.spends[i].flags] ELSE <<>>,
      pre |-> Preimage(conds), unf |-> PreimageF(conds, FALSE)]

VARIABLES l1, l2, phase, r1, r2
vars == <<l1, l2, phase, r1, r2>>
ForkSeq == LET RECURSIVE G(_)
               G(S) == IF S = {} THEN <<>> ELSE LET x == CHOOSE x \in S : TRUE IN <<x>> \o G(S \ {x})
           IN G(Forks)
Results(l) == [i \in DOMAIN ForkSeq |-> ResultOf(l, ForkSeq[i])]

Init == l1 \in BaseLists /\ l2 = l1 /\ phase = 0 /\ r1 = <<>> /\ r2 = <<>>
Next == /\ phase = 0
        /\ \E x \in Perturb(l1) : l2' = x
        /\ phase' = 1 /\ UNCHANGED l1
        /\ r1' = Results(l1) /\ r2' = Results(l2')

(* ---- invariants ---- *)
\* equal preimages of two lists that both pass mempool validation => identical parsed conditions
Injective == phase = 1 => \A i \in DOMAIN r1 :
  (r1[i].acc /\ r2[i].acc /\ r1[i].pre.ok /\ r1[i].pre = r2[i].pre) => r1[i].parsed = r2[i].parsed
\* the machine's ELIGIBLE_FOR_DEDUP flag is the declarative rule, for the subject and the funder
DedupOf(l, r) == r.acc => /\ r.dedup[1] = DedupEligible(BuildList(l), Amt1)
                           /\ r.dedup[2] = DedupEligible(Nil, FunderAmt)
DedupRule == phase = 1 => \A i \in DOMAIN r1 : DedupOf(l1, r1[i]) /\ DedupOf(l2, r2[i])
\* a flagged spend always has a fingerprint (compute_puzzle_fingerprint cannot fail on it)
FpTotal == phase = 1 => \A i \in DOMAIN r1 : /\ (r1[i].acc /\ r1[i].dedup[1]) => r1[i].pre.ok
                                             /\ (r2[i].acc /\ r2[i].dedup[1]) => r2[i].pre.ok
\* the verdict and the flags do not depend on the fork flag
ForkIndependent == phase = 1 => \A i, j \in DOMAIN r1 : r1[i].acc = r1[j].acc /\ r1[i].dedup = r1[j].dedup

\* the full menu prints only pairs that constrain something: both accepted, or colliding (un)framed preimages
Interesting == Menu = "quick" \/ (r1[1].acc /\ r2[1].acc) \/ (r1[1].pre.ok /\ r1[1].pre = r2[1].pre) \/ (r1[1].unf.ok /\ r1[1].unf = r2[1].unf)
Emit == (phase = 1 /\ Interesting) => PrintT(<<"CASE", ToJson([
          k |-> "fp", c1 |-> BuildList(l1), c2 |-> BuildList(l2), salt1 |-> Salt1, salt2 |-> Salt2,
          parent1 |-> P1, parent2 |-> P2, amt1 |-> Amt1, amt2 |-> FunderAmt,
          acc |-> <<r1[1].acc, r2[1].acc>>, pe |-> (r1[1].pre.ok /\ r1[1].pre = r2[1].pre), ue |-> (r1[1].unf.ok /\ r1[1].unf = r2[1].unf),
          same |-> (r1[1].parsed = r2[1].parsed), d |-> <<r1[1].acc /\ r1[1].dedup[1], r2[1].acc /\ r2[1].dedup[1]>>])>>)
=============================================================================
