INIT Init
NEXT Next
CONSTANT MaxAsserts = 2
CONSTANT TwoSpends = TRUE
INVARIANT Equiv
INVARIANT ImpossibleSound
INVARIANT Emit
CHECK_DEADLOCK FALSE
