---------------------------- MODULE MC_Backrefs ----------------------------
(* X05 (M + G): the back-reference decoder as an explicit stack machine, one TLC action   *)
(* per token kind, explored                                                                *)
(*  - lazily over ALL byte strings over Alphabet up to MaxLen: the machine runs on the     *)
(*    prefix fed so far; when it is starved (the next token is incomplete) TLC either      *)
(*    feeds one more byte (every byte of Alphabet) or ends the input (error "eof").        *)
(*    A string is abandoned as soon as its verdict is decided, so every string of length   *)
(*    <= MaxLen is either the input of a terminal state or has such an input as a prefix   *)
(*    (the rest is trailing garbage the machine never reads: invariant TrailingIgnored);   *)
(*  - eagerly (EagerLen > 0): every string up to EagerLen is an initial state;             *)
(*  - on Ser(t) and Compress(t) of every tree t of the menu.                               *)
(* Every terminal state is emitted as a replay case with the predicted result.             *)
EXTENDS Backrefs, TLC, Json

CONSTANTS Alphabet,   \* bytes fed lazily
          MaxLen,     \* bound of the lazy exploration
          EagerLen,   \* all strings up to this length are initial states (0 = none)
          TreeDepth,  \* trees of the menu: depth <= TreeDepth over AtomMenu
          PathMax,    \* compressor: longest path searched
          EmitCases

AtomMenu == {<<>>, <<1>>, <<97, 98, 99>>}
RECURSIVE TreesD(_)
TreesD(d) == IF d = 0 THEN {Atom(b) : b \in AtomMenu}
             ELSE LET S == TreesD(d - 1) IN S \cup {Cons(x, y) : x \in S, y \in S}
Trees == TreesD(TreeDepth)
AllStrings(n) == UNION {[1..k -> Alphabet] : k \in 0..n}

VARIABLES inp,   \* the input (grows only in lazy runs)
          m,     \* machine state
          src,   \* where the input comes from
          toks   \* back-reference tokens executed so far: [from, to, path, vals, r]

vars == <<inp, m, src, toks>>

Init == /\ toks = <<>>
        /\ \/ inp = <<>> /\ src = [k |-> "lazy"] /\ m = BrInit
           \/ \E s \in AllStrings(EagerLen) : inp = s /\ src = [k |-> "eager"] /\ m = BrInit
           \/ \E t \in Trees : inp = <<>> /\ src = [k |-> "tree", t |-> t] /\ m = [BrInit EXCEPT !.st = "seed"]

Running == m.st = "run"
Done == m.st \in {"ok", "err"}

\* a tree of the menu is encoded plainly and by the greedy compressor (an action, so that the encodings
\* are computed by the workers and not while the initial states are enumerated)
Seed == /\ m.st = "seed"
        /\ \/ inp' = Ser(src.t) /\ src' = [k |-> "plain", t |-> src.t]
           \/ inp' = Compress(src.t, <<>>, PathMax) /\ src' = [k |-> "greedy", t |-> src.t]
        /\ m' = BrInit /\ UNCHANGED toks

\* the next token exists only partly
TokShort == /\ WantTok(m) /\ m.pos <= Len(inp)
            /\ LET b == inp[m.pos] IN
               IF b = 255 THEN FALSE
               ELSE IF b = 254 THEN (IF m.pos + 1 > Len(inp) THEN TRUE ELSE AtomTok(inp, m.pos + 1).k = "short")
               ELSE AtomTok(inp, m.pos).k = "short"
\* (IF, not \/: inside an action TLC would evaluate both disjuncts)
Starved == WantTok(m) /\ (IF m.pos > Len(inp) THEN TRUE ELSE TokShort)

Feed == /\ Running /\ src.k = "lazy" /\ Starved /\ Len(inp) < MaxLen
        /\ \E b \in Alphabet : inp' = Append(inp, b)
        /\ UNCHANGED <<m, src, toks>>
\* end of input inside or before a token
AEof == /\ Running /\ Starved
        /\ m' = BrFail(m, "eof")
        /\ UNCHANGED <<inp, src, toks>>
ATokAtom == /\ Running /\ ~Starved /\ EnTokAtom(inp, m, "br")
            /\ m' = DoTokAtom(inp, m)
            /\ UNCHANGED <<inp, src, toks>>
ATokCons == /\ Running /\ EnTokCons(inp, m, "br")
            /\ m' = DoTokCons(m)
            /\ UNCHANGED <<inp, src, toks>>
ATokBackref == /\ Running /\ ~Starved /\ EnTokBackref(inp, m, "br")
               /\ m' = DoTokBackref(inp, m, "br")
               /\ LET t == AtomTok(inp, m.pos + 1) IN
                  toks' = Append(toks, IF t.k = "ok"
                                       THEN [from |-> m.pos, to |-> t.next - 1, path |-> t.a, vals |-> m.vals, ok |-> m'.st = "run"]
                                       ELSE [from |-> m.pos, to |-> Len(inp), path |-> <<>>, vals |-> m.vals, ok |-> FALSE])
               /\ UNCHANGED <<inp, src>>
AOpCons == /\ Running /\ EnOpCons(inp, m, "br")
           /\ m' = DoOpCons(m)
           /\ UNCHANGED <<inp, src, toks>>
AFinish == /\ Running /\ EnFinish(inp, m, "br")
           /\ m' = DoFinish(m)
           /\ UNCHANGED <<inp, src, toks>>

Next == Seed \/ Feed \/ AEof \/ ATokAtom \/ ATokCons \/ ATokBackref \/ AOpCons \/ AFinish

\* ---------------------------------------------------------------- invariants
Count(seq, x) == Cardinality({i \in DOMAIN seq : seq[i] = x})
Ens == <<EnFinish(inp, m, "br"), EnOpCons(inp, m, "br"), EnEof(inp, m, "br"), EnTokCons(inp, m, "br"),
         EnTokBackref(inp, m, "br"), EnTokAtom(inp, m, "br")>>

\* (b) exactly one rule applies in every running state: the decoder is total and deterministic
TotalDeterministic == Running => Cardinality({i \in DOMAIN Ens : Ens[i]}) = 1

\* the operation stack always leaves exactly one value, "C" always finds two values, the
\* position never passes the end of the input
StackDiscipline ==
  /\ m.pos <= Len(inp) + 1
  /\ Running => Len(m.vals) + Count(m.ops, "S") - Count(m.ops, "C") = 1
  /\ Running /\ EnOpCons(inp, m, "br") => Len(m.vals) >= 2
  /\ m.st = "ok" => Len(m.vals) = 1 /\ m.ops = <<>>

\* the action-by-action run and the functional form agree
FunctionalAgrees == Done => DeserBr(inp) = BrResult(m)

\* (b) trailing input is never read: one more byte changes nothing; the consumed length is the
\* length of the shortest prefix that decodes
TrailingIgnored == m.st = "ok" =>
  /\ \A b \in Alphabet : DeserBr(Append(inp, b)) = BrResult(m)
  /\ m.pos - 1 > 0 => ~DeserBr(SubSeq(inp, 1, m.pos - 2)).ok

\* (a) plain serialisations are valid compressed ones; re-serialising ANY decoded value plainly
\* decodes to it again (so Ser is injective on decoded values: two encodings decode to equal
\* trees iff the plain forms of their values are the same byte string)
PlainRoundTrip ==
  /\ Done /\ src.k = "plain" => BrResult(m) = [ok |-> TRUE, v |-> src.t, n |-> Len(inp), err |-> "none"]
  /\ m.st = "ok" => LET p == Ser(m.vals[1]) r == [ok |-> TRUE, v |-> m.vals[1], n |-> Len(p), err |-> "none"] IN
                    DeserBr(p) = r /\ DeserPlain(p) = r /\ Len(p) = SerLen(m.vals[1])

\* (e) the greedy compressor round-trips and never loses against the plain form
GreedyRoundTrip == Done /\ src.k = "greedy" =>
  /\ BrResult(m) = [ok |-> TRUE, v |-> src.t, n |-> Len(inp), err |-> "none"]
  /\ Len(inp) <= SerLen(src.t)
  /\ Len(toks) = 0 => inp = Ser(src.t)

\* the plain decoder agrees exactly where no back-reference token was executed and rejects otherwise
SameVerdict(x, y) == x.ok = y.ok /\ x.v = y.v /\ x.n = y.n
PlainDecoder == Done =>
  IF toks = <<>> THEN SameVerdict(DeserPlain(inp), BrResult(m)) ELSE ~DeserPlain(inp).ok

\* (c) a back-reference is a macro for the plain form of the value it denotes: replacing any executed
\* back-reference token by Ser(value) yields an encoding of the same tree
Splice(k, bytes) == SubSeq(inp, 1, toks[k].from - 1) \o bytes \o SubSeq(inp, toks[k].to + 1, Len(inp))
TokVal(k) == LookupVec(toks[k].vals, toks[k].path).v
ExpandOne == m.st = "ok" => \A k \in DOMAIN toks :
  LET e == Splice(k, Ser(TokVal(k))) r == DeserBr(e) IN
  /\ r.ok /\ r.v = m.vals[1]
  /\ r.n = (m.pos - 1) - (toks[k].to - toks[k].from + 1) + SerLen(TokVal(k))

\* (d) the lookup on the vector never leaves the stack and equals the walk on the stack read as a list;
\* a successful lookup returns nil or a subtree of that list; all other paths are errors
LookupInside == \A k \in DOMAIN toks : toks[k].path # <<>> \/ toks[k].ok =>
  LET t == toks[k] lv == LookupVec(t.vals, t.path) ll == LookupList(t.vals, t.path) IN
  /\ lv = ll /\ lv.ok = t.ok
  /\ lv.ok => lv.v = Nil \/ lv.v \in SubTrees(StackList(t.vals))
  /\ ~PathZero(t.path) => PathSteps(PathBytes(PathSteps(t.path))) = PathSteps(t.path)

\* the non-validating length scan agrees whenever the validating decoder accepts, and the only way to
\* accept less is an illegal path
LenScan == Done => LET l == TokLen(inp) IN
  /\ m.st = "ok" => l = [ok |-> TRUE, n |-> m.pos - 1]
  /\ m.st = "err" /\ l.ok => m.err = "path"

Emit == Done /\ EmitCases =>
  PrintT(<<"CASE", ToJson([k |-> src.k, b |-> inp, ok |-> m.st = "ok", v |-> BrResult(m).v, n |-> BrResult(m).n,
                           err |-> m.err, nbr |-> Len(toks)])>>)
=============================================================================
