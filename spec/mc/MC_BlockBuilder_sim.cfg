SPECIFICATION Spec
VIEW View
CONSTANT Configs <- ConfigsBoth
CONSTANT ClassNames <- ClassesAll
CONSTANT Labels <- LabelsAll
CONSTANT MaxBatch = 2
CONSTANT MaxAdds = 10
CONSTANT TrackHist = TRUE
PROPERTY AllOrNothing
INVARIANT EstimateUpper
INVARIANT StaleGap
INVARIANT WithinLimit
INVARIANT FinalizeEnabled
INVARIANT OutputIsAccepted
INVARIANT SigIsAggregate
INVARIANT CostIsConsensus
INVARIANT LaterOutputUnaffected
INVARIANT CompressedSizeDetermined
INVARIANT ExactInEnvelope
INVARIANT AcceptWithinLimit
INVARIANT DoneMeansNoRoom
INVARIANT RejectDone
CHECK_DEADLOCK FALSE
INVARIANT Emit
