--------------------------- MODULE MC_BlockRecord ---------------------------
(* X02 (M + G): the arithmetic identities that the iteration helpers of     *)
(* BlockRecord promise, checked on a boundary lattice of inputs; every      *)
(* lattice point is also emitted as a replay case for the real functions.   *)
EXTENDS BlockRecord, TLC, Json, FiniteSets
CONSTANTS Ns,    \* values of num_sps_sub_slot
          Wide   \* TRUE: the full lattice (thorough tier)

Pred(a) == IF a = Zero THEN Zero ELSE Sub(a, <<1>>)
Succ(a) == Add(a, <<1>>)
Near(a) == {Pred(a), a, Succ(a)}
P2(k)   == <<2 ^ (k % 8)>> \o [i \in 1..(k \div 8) |-> 0]
U8(S)   == {v \in S : v \in 0..255}
\* floor((2^64 - 1) / k)
QU(k)   == IF k = 0 THEN U64MAX ELSE DivModSmall(U64MAX, k).q

Extras(n) == IF Wide THEN U8({0, 1, 3, n - 1, n, n + 1, 255}) ELSE U8({0, 3, n, n + 1})
Idxs(n, ex) == IF Wide THEN U8({0, 1, n - ex - 1, n - ex, n - 1, n, n + 1, 255})
               ELSE U8({0, n - ex - 1, n - ex, n - 1, n})

\* lengths of one signage-point interval: small, real-world (2^27/64, 37.6e9/64, unit test), powers of two,
\* and the u64 boundaries of n * iv (sub_slot_iters) and of (idx + extra [+ 1]) * iv (the infusion sum)
IvBase == {Zero, <<1>>, <<2>>, <<3>>, Of(255), Of(256), P2(21), Of(800008), Of(587500000)}
            \cup (IF Wide THEN Near(P2(32)) \cup {P2(56), Pred(P2(56))} ELSE {P2(32)})
IvSet(n, ex, idx) == IvBase \cup Near(QU(n)) \cup Near(QU(idx + ex)) \cup Near(QU(idx + ex + 1))
                       \cup (IF Wide THEN Near(QU(2 * n)) ELSE {})

SsiSet(n, ex, idx) ==
  {s \in {MulSmall(iv, n) : iv \in IvSet(n, ex, idx)}
         \cup {Succ(MulSmall(iv, n)) : iv \in {Zero, <<1>>, P2(21)}}      \* not divisible for n >= 2
         \cup {U64MAX, Pred(U64MAX), P2(63), P2(27)}
     : FitsU64(s)}

ReqSet(n, ex, idx, ssi) ==
  IF ~IsOk(SpIters(n, ssi, idx)) THEN {<<1>>, U64MAX}
  ELSE LET iv  == DivModSmall(ssi, n).q
           pre == MulSmall(iv, idx + ex)
           B   == IF Le(pre, U64MAX) THEN Sub(U64MAX, pre) ELSE Zero   \* largest req without u64 overflow
       IN {r \in {Zero, <<1>>, <<2>>, DivModSmall(iv, 2).q, Pred(iv), iv, Succ(iv), U64MAX, Pred(B), B, Succ(B)}
                 \cup (IF Wide THEN {Pred(Pred(iv)), DivModSmall(iv, 3).q} ELSE {})
              : FitsU64(r)}

TotalSet(n, ex, idx, ssi, req) ==
  LET ip == IpIters(n, ex, ssi, idx, req) IN
  IF ~IsOk(ip) THEN {U128MAX}
  ELSE LET sp == SpIters(n, ssi, idx).v
           e1 == Add(ip.v, ssi)
           B  == IF Le(ip.v, sp) THEN Sub(U128MAX, Sub(sp, ip.v)) ELSE U128MAX   \* u128 boundary of sp_total_iters
       IN {t \in {Zero, Pred(ip.v), ip.v, Succ(ip.v), Pred(e1), e1, Succ(e1), P2(64), U128MAX, B, Succ(B)}
                 \cup (IF Wide THEN {<<1>>, Pred(B), Pred(U128MAX), Add(e1, ssi)} ELSE {})
              : FitsU128(t)}

Deficits == {0, 1, 14, 15, 16, 254, 255}
MinBs    == {0, 1, 2, 15, 16, 17, 255}

VARIABLES x,     \* the input (one lattice point)
          v,     \* the values the specification assigns to it (computed once, in Next)
          phase
Values(y) ==
  IF y.k # "iters" THEN <<>>
  ELSE LET i == SpIntervalIters(y.n, y.ssi)
           s == SpIters(y.n, y.ssi, y.idx)
           p == IpIters(y.n, y.extra, y.ssi, y.idx, y.req)
           a == IpSubOf(y.total, p)
           b == SpSubOf(a, y.overflow, y.ssi)
       IN [iv |-> i, sp |-> s, ip |-> p, ovf |-> IsOverflowBlock(y.n, y.extra, y.idx),
           raw |-> IF IsOk(i) /\ IsOk(s) THEN IpRaw(i.v, s.v, y.extra, y.req) ELSE Zero,
           ipsub |-> a, spsub |-> b, sptot |-> SpTotOf(b, s)]

Init == /\ phase = 0 /\ v = <<>>
        /\ \/ \E n \in Ns : \E ex \in Extras(n) : \E idx \in Idxs(n, ex) : \E ssi \in SsiSet(n, ex, idx) :
              \E req \in ReqSet(n, ex, idx, ssi) : \E tot \in TotalSet(n, ex, idx, ssi, req) : \E ov \in BOOLEAN :
                x = [k |-> "iters", n |-> n, extra |-> ex, idx |-> idx, ssi |-> ssi, req |-> req, total |-> tot, overflow |-> ov]
           \/ \E d \in Deficits, m \in MinBs : x = [k |-> "chal", deficit |-> d, minb |-> m]
           \/ \E a, b \in BOOLEAN : x = [k |-> "flags", has_ts |-> a, has_fcs |-> b]
Next == phase = 0 /\ phase' = 1 /\ v' = Values(x) /\ UNCHANGED x

It == phase = 1 /\ x.k = "iters"
vIv    == v.iv
vSp    == v.sp
vIp    == v.ip
vOvf   == v.ovf
vRaw   == v.raw
vIpSub == v.ipsub
vSpSub == v.spsub
vSpTot == v.sptot

\* the division helpers satisfy the defining equation a = q * d + r, r < d
DivisionLemma == It =>
  /\ x.n > 0 => LET dm == DivModSmall(x.ssi, x.n) IN Add(MulSmall(dm.q, x.n), Of(dm.r)) = x.ssi /\ dm.r < x.n
  /\ x.ssi # Zero => \A a \in {x.total, U64MAX, x.req} :
       LET dm == DivMod(a, x.ssi) IN Add(Mul(dm.q, x.ssi), dm.r) = a /\ Lt(dm.r, x.ssi)
\* the n intervals tile the sub-slot exactly
IntervalExact == It => /\ IsOk(vIv) => MulSmall(vIv.v, x.n) = x.ssi
                       /\ IsOk(vIv) <=> (x.n > 0 /\ DivModSmall(x.ssi, x.n).r = 0)
\* a signage point lies inside the sub-slot, on the interval grid
SpBounds == (It /\ IsOk(vSp)) =>
  /\ x.ssi # Zero => Lt(vSp.v, x.ssi)
  /\ Add(vSp.v, MulSmall(vIv.v, x.n - x.idx)) = x.ssi
\* an infusion point lies strictly inside its sub-slot, required_iters after a grid point
IpBounds == (It /\ IsOk(vIp)) =>
  /\ Lt(vIp.v, x.ssi) /\ vIp.v # Zero
  /\ DivMod(vIp.v, vIv.v).r = x.req
  /\ Add(vIp.v, Mul(DivMod(vRaw, x.ssi).q, x.ssi)) = vRaw
\* the reduction modulo sub_slot_iters removes exactly one sub-slot, exactly for overflow blocks
WrapOnce == (It /\ IsOk(vIp) /\ IsOk(vOvf)) => DivMod(vRaw, x.ssi).q = (IF vOvf.v THEN <<1>> ELSE Zero)
\* overflow blocks are those whose infusion point offset is smaller than their signage point offset
OverflowOrder == (It /\ IsOk(vIp) /\ IsOk(vOvf) /\ x.extra < x.n) => (vOvf.v <=> Lt(vIp.v, vSp.v))
\* ip_sub_slot_total_iters + ip_iters = total_iters
TotalSplit == (It /\ IsOk(vIpSub)) => Add(vIpSub.v, vIp.v) = x.total
\* sp_total_iters = sp_sub_slot_total_iters + sp_iters
SpTotalSplit == (It /\ IsOk(vSpTot)) => vSpTot.v = Add(vSpSub.v, vSp.v)
\* the signage point of an overflow block lies one sub-slot before the infusion point's sub-slot
OverflowShift == (It /\ IsOk(vSpSub)) => (IF x.overflow THEN Add(vSpSub.v, x.ssi) = vIpSub.v ELSE vSpSub.v = vIpSub.v)
\* with the overflow flag set as is_overflow_block says: the signage point precedes the infusion point by
\* exactly extra intervals + required_iters, and adding sp_iters cannot leave u128
SpBeforeIp == (It /\ IsOk(vOvf) /\ x.overflow = vOvf.v /\ IsOk(vSpSub)) =>
  /\ IsOk(vSpTot)
  /\ Add(Add(vSpTot.v, MulSmall(vIv.v, x.extra)), x.req) = x.total
  /\ Lt(vSpTot.v, x.total)
\* the domain of definition, stated independently of the definitions
Definedness == It =>
  /\ IsOk(vSp) <=> (IsOk(vIv) /\ x.idx < x.n)
  /\ IsOk(vIp) <=> (IsOk(vSp) /\ x.ssi # Zero /\ x.req # Zero /\ Lt(MulSmall(x.req, x.n), x.ssi)
                    /\ Le(Add(MulSmall(vIv.v, x.idx + x.extra), x.req), U64MAX))
  /\ IsOk(vOvf) <=> (x.idx < x.n /\ x.extra <= x.n)
  /\ IsOk(vIpSub) <=> (IsOk(vIp) /\ Le(vIp.v, x.total))
  /\ IsOk(vSpSub) <=> (IsOk(vIpSub) /\ (x.overflow => Le(Add(vIp.v, x.ssi), x.total)))
  /\ IsOk(vSpTot) => IsOk(vSpSub)
ChallengeBlock == (phase = 1 /\ x.k = "chal") =>
  LET r == IsChallengeBlock(x.deficit, x.minb) IN
  /\ IsOk(r) <=> x.minb >= 1
  /\ IsOk(r) => (r.v <=> x.deficit + 1 = x.minb)

Emit == phase = 1 => PrintT(<<"CASE", ToJson(x)>>)
=============================================================================
