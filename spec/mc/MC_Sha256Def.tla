---------------------------- MODULE MC_Sha256Def ----------------------------
(* X08 (M, library level): the pure TLA+ SHA-256 of Sha256Def.tla equals the  *)
(* Java-overridden Sha!SHA256 (and, on the NIST vectors, the literal NIST      *)
(* digests) on: the four FIPS 180 example messages ("", "abc", the 448-bit and *)
(* the 896-bit message), a patterned message of every length 0..MaxLen (all    *)
(* padding boundaries 55/56/63/64/119/120), and NRand pseudo-random messages   *)
(* (LCG seeded from the environment variable X08SEED). The word operations are *)
(* additionally checked bit by bit against their definitions on random words.  *)
EXTENDS Sha256Def, Sha, TLC, IOUtils
CONSTANTS MaxLen, NRand, RandMaxLen, NOps

NistMsg == <<
  <<>>,
  <<97, 98, 99>>,
  <<97, 98, 99, 100, 98, 99, 100, 101, 99, 100, 101, 102, 100, 101, 102, 103, 101, 102, 103, 104, 102, 103, 104, 105, 103, 104, 105, 106, 104, 105, 106, 107, 105, 106, 107, 108, 106, 107, 108, 109, 107, 108, 109, 110, 108, 109, 110, 111, 109, 110, 111, 112, 110, 111, 112, 113>>,
  <<97, 98, 99, 100, 101, 102, 103, 104, 98, 99, 100, 101, 102, 103, 104, 105, 99, 100, 101, 102, 103, 104, 105, 106, 100, 101, 102, 103, 104, 105, 106, 107, 101, 102, 103, 104, 105, 106, 107, 108, 102, 103, 104, 105, 106, 107, 108, 109, 103, 104, 105, 106, 107, 108, 109, 110, 104, 105, 106, 107, 108, 109, 110, 111, 105, 106, 107, 108, 109, 110, 111, 112, 106, 107, 108, 109, 110, 111, 112, 113, 107, 108, 109, 110, 111, 112, 113, 114, 108, 109, 110, 111, 112, 113, 114, 115, 109, 110, 111, 112, 113, 114, 115, 116, 110, 111, 112, 113, 114, 115, 116, 117>>
>>
NistDigest == <<
  <<227, 176, 196, 66, 152, 252, 28, 20, 154, 251, 244, 200, 153, 111, 185, 36, 39, 174, 65, 228, 100, 155, 147, 76, 164, 149, 153, 27, 120, 82, 184, 85>>,
  <<186, 120, 22, 191, 143, 1, 207, 234, 65, 65, 64, 222, 93, 174, 34, 35, 176, 3, 97, 163, 150, 23, 122, 156, 180, 16, 255, 97, 242, 0, 21, 173>>,
  <<36, 141, 106, 97, 210, 6, 56, 184, 229, 192, 38, 147, 12, 62, 96, 57, 163, 60, 228, 89, 100, 255, 33, 103, 246, 236, 237, 212, 25, 219, 6, 193>>,
  <<207, 91, 22, 167, 120, 175, 131, 128, 3, 108, 229, 158, 123, 4, 146, 55, 11, 36, 155, 17, 232, 240, 122, 81, 175, 172, 69, 3, 122, 254, 233, 209>>
>>

Seed == atoi(IOEnv.X08SEED) % 65537
Lcg(x) == (x * 75 + 74) % 65537
RECURSIVE LcgN(_, _)
LcgN(x, n) == IF n = 0 THEN x ELSE LcgN(Lcg(x), n - 1)
RECURSIVE RandBytes(_, _, _)
RandBytes(x, n, acc) == IF n = 0 THEN acc ELSE RandBytes(Lcg(x), n - 1, Append(acc, (x \div 7) % 256))
\* the i-th random message: its own stream start, its own length
RandMsg(i) == LET s == LcgN((Seed + 257 * i) % 65537, 3) IN RandBytes(Lcg(s), s % (RandMaxLen + 1), <<>>)
PatMsg(n) == [i \in 1..n |-> (i * 7 + n * 13 + 3) % 256]

Msg(c) == CASE c.k = "nist" -> NistMsg[c.i] [] c.k = "len" -> PatMsg(c.i) [] c.k = "rnd" -> RandMsg(c.i)

Bit(x, j) == IF j < 16 THEN (x[2] \div P2(j)) % 2 ELSE (x[1] \div P2(j - 16)) % 2
RandWord(i, j) == LET s == LcgN((Seed + 31 * i + j) % 65537, 2) IN <<s % 65536, Lcg(s) % 65536>>
OpsOk(i) ==
  LET x == RandWord(i, 0)
      y == RandWord(i, 7)
  IN /\ Xor16(x[1], y[2]) = XorN(x[1], y[2], 16) /\ And16(x[1], y[2]) = AndN(x[1], y[2], 16)
     /\ Xor16(x[2], y[1]) = XorN(x[2], y[1], 16) /\ And16(x[2], y[1]) = AndN(x[2], y[1], 16)
     /\ \A n \in 1..31 : \A j \in 0..31 :
          /\ Bit(Rotr(x, n), j) = Bit(x, (j + n) % 32)
          /\ Bit(Shr(x, n), j) = (IF j + n < 32 THEN Bit(x, j + n) ELSE 0)
     /\ \A j \in 0..31 : /\ Bit(WNot(x), j) = 1 - Bit(x, j)
                         /\ Bit(Ch(x, y, WNot(y)), j) = (IF Bit(x, j) = 1 THEN Bit(y, j) ELSE 1 - Bit(y, j))
                         /\ Bit(Maj(x, y, WNot(y)), j) = Bit(x, j)
     /\ LET s == WAdd(x, y) IN
        /\ s[2] = (x[2] + y[2]) % 65536
        /\ s[1] = (x[1] + y[1] + (IF x[2] + y[2] >= 65536 THEN 1 ELSE 0)) % 65536

VARIABLES c, phase
Cases == {[k |-> "nist", i |-> i] : i \in 1..4} \cup {[k |-> "len", i |-> n] : n \in 0..MaxLen}
         \cup {[k |-> "rnd", i |-> i] : i \in 1..NRand} \cup {[k |-> "ops", i |-> i] : i \in 1..NOps}
Init == c \in Cases /\ phase = 0
Next == phase = 0 /\ phase' = 1 /\ UNCHANGED c

PureEqualsOverride == (phase = 1 /\ c.k # "ops") => SHA256Def(Msg(c)) = SHA256(Msg(c))
NistVectors == (phase = 1 /\ c.k = "nist") => /\ SHA256Def(NistMsg[c.i]) = NistDigest[c.i]
                                               /\ SHA256(NistMsg[c.i]) = NistDigest[c.i]
WordOps == (phase = 1 /\ c.k = "ops") => OpsOk(c.i)
\* vacuity guards: the random messages are not all short / all alike
Stats == IF phase = 1 /\ c.k = "rnd" THEN PrintT(<<"RNDLEN", ToString(Len(RandMsg(c.i)))>>) ELSE TRUE
=============================================================================
