INIT Init
NEXT Next
CONSTANT MaxLen = 2
CONSTANT Menu = "full"
CONSTANT Forks = {{}, {"COST_CONDITIONS"}}
INVARIANT Injective
INVARIANT DedupRule
INVARIANT FpTotal
INVARIANT ForkIndependent
INVARIANT Emit
CHECK_DEADLOCK FALSE
