INIT Init
NEXT Next
CONSTANT IH <- SymIH
CONSTANT NK = 4
CONSTANT NH = 4
CONSTANT Spread = 3
CONSTANT MaxOps = 6
CONSTANT MaxBatch = 3
VIEW View
CONSTRAINT Bound
INVARIANT RefinesMap
INVARIANT IntegrityInv
INVARIANT CleanHashesInv
INVARIANT IteratorsInv
INVARIANT QueriesInv
INVARIANT ProofsInv
INVARIANT DeltaInv
INVARIANT Emit
CHECK_DEADLOCK FALSE
