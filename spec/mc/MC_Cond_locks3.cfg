INIT Init
NEXT Next
CONSTANT Mode = "locks3"
CONSTANT FlagChoice = "few"
INVARIANT Conservation
INVARIANT NoDoubleSpend
INVARIANT NoDupOutput
INVARIANT TotalsAreSums
INVARIANT CoinIdDef
INVARIANT CostIsTableSum
INVARIANT CostWithinLimit
INVARIANT LimitExact
INVARIANT Emit
CHECK_DEADLOCK FALSE
