INIT Init
NEXT Next
CONSTANT D = 3
CONSTANT EmbKind = "top"
CONSTANT MinSet = 0
CONSTANT MaxSet = 4
CONSTANT ExhH = 0
CONSTANT GuidedH = 4
CONSTANT PermMax = 4
INVARIANT Canonical
INVARIANT Complete
INVARIANT SoundExh
INVARIANT SoundGuided
INVARIANT SoundRw
INVARIANT Emit
CHECK_DEADLOCK FALSE
