--------------------------- MODULE MC_LegacyLocks ---------------------------
(* X03 (M + G): every summary that sets at most MaxSlots of the 16 lock     *)
(* fields (4 absolute, 6 on each of two spends; optionally a missing coin   *)
(* record) to a value of the boundary lattice {0,1,2,3,MAX-2,MAX-1,MAX} at  *)
(* the real widths (pairs of a height and a seconds field: {0,2,MAX-1,MAX}, *)
(* triples: {1,MAX-1,MAX}), in every chain state of the same lattice (previous *)
(* height, timestamp, birth height, birth timestamp; chain states need NOT  *)
(* be consistent, wrapping is the point). The four lemmas of LegacyLocks    *)
(* are invariants; every summary is emitted as a replay case with the       *)
(* verdict (error code) of both modes in every chain state of its axes.     *)
EXTENDS LegacyLocks, TLC, Json

CONSTANT MaxSlots,    \* 1..3 fields set
         MixedFull    \* TRUE: height x seconds pairs use the full lattice (7^4 chain states each)

LatFull(w) == LET m == AllOnes(w) IN <<Zero, <<1>>, <<2>>, <<3>>, Sub(m, <<2>>), Sub(m, <<1>>), m>>
LatSmall(w) == LET m == AllOnes(w) IN <<Zero, <<2>>, Sub(m, <<1>>), m>>
LatTiny(w) == LET m == AllOnes(w) IN <<<<1>>, Sub(m, <<1>>), m>>
\* constant definitions: TLC evaluates them once
F4 == LatFull(4)  F8 == LatFull(8)  S4 == LatSmall(4)  S8 == LatSmall(8)  T4 == LatTiny(4)  T8 == LatTiny(8)

SlotsH == {<<"ha", 0>>, <<"bha", 0>>} \cup {<<f, k>> : f \in {"bh", "hr", "bhr"}, k \in 1..2}
SlotsS == {<<"sa", 0>>, <<"bsa", 0>>} \cup {<<f, k>> : f \in {"bs", "sr", "bsr"}, k \in 1..2}
SlotsU == {<<"unk", 1>>, <<"unk", 2>>}
AllSlots == SlotsH \cup SlotsS \cup SlotsU
SlotSets == {D \in SUBSET AllSlots : Cardinality(D) <= MaxSlots}
HasH(D) == D \cap SlotsH # {}
HasS(D) == D \cap SlotsS # {}
\* does a field of a spend look at the coin record's height / timestamp
HasHB(D) == \E s \in D \cap SlotsH : s[2] # 0
HasSB(D) == \E s \in D \cap SlotsS : s[2] # 0
\* height x seconds pairs only interact through the order of the checks: small lattice; triples: tiny lattice
Small(D) == HasH(D) /\ HasS(D) /\ ~MixedFull
Lat4(D) == IF Cardinality(D) >= 3 THEN T4 ELSE IF Small(D) THEN S4 ELSE F4
Lat8(D) == IF Cardinality(D) >= 3 THEN T8 ELSE IF Small(D) THEN S8 ELSE F8
ValsOf(D, s) == IF s \in SlotsU THEN {Zero} ELSE IF s \in SlotsH THEN RangeOf(Lat4(D)) ELSE RangeOf(Lat8(D))
AnyVal == RangeOf(F4) \cup RangeOf(F8)
Picks == UNION {{f \in [D -> AnyVal] : \A s \in D : f[s] \in ValsOf(D, s)} : D \in SlotSets}

\* the second spend is born at the next lattice point (so that a mixed-up record is visible)
Nxt(ax, i) == ax[(i % Len(ax)) + 1]
\* everything derived from a pick: the summary, the chain axes (components that no field of the summary
\* looks at are pinned), all chain states (index n, 1-based, last axis fastest: ph, ts, bh, bs) and both verdicts
CtxOf(p) ==
  LET D == DOMAIN p
      NS == IF \E s \in D : s[2] = 2 THEN 2 ELSE 1
      Abs(f) == IF <<f, 0>> \in D THEN p[<<f, 0>>] ELSE Zero
      OptAbs(f) == IF <<f, 0>> \in D THEN Some(p[<<f, 0>>]) ELSE None
      Fld(f, k) == IF <<f, k>> \in D THEN Some(p[<<f, k>>]) ELSE None
      a == [ha |-> Abs("ha"), sa |-> Abs("sa"), bha |-> OptAbs("bha"), bsa |-> OptAbs("bsa"),
            spends |-> [k \in 1..NS |-> [bh |-> Fld("bh", k), bs |-> Fld("bs", k), hr |-> Fld("hr", k), sr |-> Fld("sr", k),
                                         bhr |-> Fld("bhr", k), bsr |-> Fld("bsr", k)]]]
      kn == [k \in 1..NS |-> <<"unk", k>> \notin D]
      PH == IF HasH(D) THEN Lat4(D) ELSE <<<<3>>>>
      BH == IF HasHB(D) THEN Lat4(D) ELSE <<Zero>>
      TS == IF HasS(D) THEN Lat8(D) ELSE <<<<3>>>>
      BS == IF HasSB(D) THEN Lat8(D) ELSE <<Zero>>
      n1 == Len(PH) n2 == Len(TS) n3 == Len(BH) n4 == Len(BS)
      ChainAt(n) ==
        LET m == n - 1
            i4 == (m % n4) + 1
            i3 == ((m \div n4) % n3) + 1
            i2 == ((m \div (n4 * n3)) % n2) + 1
            i1 == (m \div (n4 * n3 * n2)) + 1
        IN [prevH |-> PH[i1], ts |-> TS[i2],
            births |-> [k \in 1..NS |-> [known |-> kn[k], h |-> IF k = 1 THEN BH[i3] ELSE Nxt(BH, i3), s |-> IF k = 1 THEN BS[i4] ELSE Nxt(BS, i4)]]]
      chains == [n \in 1..(n1 * n2 * n3 * n4) |-> ChainAt(n)]
  IN [agg |-> a, known |-> kn, ph |-> PH, ts |-> TS, bh |-> BH, bs |-> BS,
      bh2 |-> [i \in DOMAIN BH |-> Nxt(BH, i)], bs2 |-> [i \in DOMAIN BS |-> Nxt(BS, i)],
      chains |-> chains,
      nowrap |-> [n \in DOMAIN chains |-> Verdict("nowrap", a, chains[n])],
      legacy |-> [n \in DOMAIN chains |-> Verdict("legacy", a, chains[n])]]

VARIABLES pick, phase, ctx
Init == pick \in Picks /\ phase = 0 /\ ctx = <<>>
Next == phase = 0 /\ phase' = 1 /\ ctx' = CtxOf(pick) /\ UNCHANGED pick

OverChains(P(_, _)) == phase = 1 => \A n \in DOMAIN ctx.chains : P(ctx.agg, ctx.chains[n])
InvFirstFailure == phase = 1 => \A n \in DOMAIN ctx.chains :
  /\ ctx.nowrap[n] = FirstFailing("nowrap", ctx.agg, ctx.chains[n])
  /\ ctx.legacy[n] = FirstFailing("legacy", ctx.agg, ctx.chains[n])
InvDifferExactly == OverChains(DifferExactly)
InvNoOverflowExact == OverChains(NoOverflowExact)
InvNowrapIsCheckAgg == OverChains(NowrapIsCheckAgg)
InvArith == phase = 1 => \A s \in DOMAIN pick \ SlotsU : LET w == IF s \in SlotsH THEN 4 ELSE 8 IN
                           \A x \in RangeOf(IF w = 4 THEN F4 ELSE F8) : ArithLemmas(pick[s], x, w)

Emit == phase = 1 =>
  PrintT(<<"CASE", ToJson([k |-> "lat", agg |-> ctx.agg, known |-> ctx.known, ph |-> ctx.ph, ts |-> ctx.ts, bh |-> ctx.bh, bs |-> ctx.bs,
                           bh2 |-> ctx.bh2, bs2 |-> ctx.bs2,
                           nowrap |-> [n \in DOMAIN ctx.nowrap |-> Code(ctx.nowrap[n])],
                           legacy |-> [n \in DOMAIN ctx.legacy |-> Code(ctx.legacy[n])]])>>)

\* (a) the single-assertion points on which the two modes disagree, printed once as a case
RelPoints(w) == {<<b, v, n>> : b \in RangeOf(IF w = 4 THEN F4 ELSE F8), v \in RangeOf(IF w = 4 THEN F4 ELSE F8), n \in RangeOf(IF w = 4 THEN F4 ELSE F8)}
DiffPoints(w) == {p \in RelPoints(w) : Overflows(p[1], p[2], w) /\ Le(WrapAddW(p[1], p[2], w), p[3]) /\ Lt(p[3], AllOnes(w))}
OverflowPoints(w) == {p \in RelPoints(w) : Overflows(p[1], p[2], w)}
ASSUME PrintT(<<"CASE", ToJson([k |-> "diffset",
                                 h |-> [total |-> Cardinality(RelPoints(4)), overflow |-> Cardinality(OverflowPoints(4)), differ |-> Cardinality(DiffPoints(4)), pts |-> DiffPoints(4)],
                                 s |-> [total |-> Cardinality(RelPoints(8)), overflow |-> Cardinality(OverflowPoints(8)), differ |-> Cardinality(DiffPoints(8)), pts |-> DiffPoints(8)]])>>)
=============================================================================
