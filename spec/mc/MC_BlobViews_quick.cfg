INIT Init
NEXT Next
CONSTANT IH <- SymIH
CONSTANT NK = 3
CONSTANT NH = 3
CONSTANT Spread = 2
CONSTANT MaxOps = 4
CONSTANT MaxBatch = 3
VIEW View
CONSTRAINT Bound
INVARIANT RefinesMap
INVARIANT IntegrityInv
INVARIANT CleanHashesInv
INVARIANT IteratorsInv
INVARIANT QueriesInv
INVARIANT ProofsInv
INVARIANT DeltaInv
INVARIANT Emit
CHECK_DEADLOCK FALSE
