INIT Init
NEXT Next
CONSTANT MaxPairs = 3
INVARIANT Agreement
INVARIANT OrderFree
INVARIANT ValidIffNoInf
INVARIANT ExemptOnlyInf
INVARIANT Emit
CHECK_DEADLOCK FALSE
