INIT Init
NEXT Next
CONSTANT Depth = 2
INVARIANT AcceptedBlockOk
INVARIANT RefSelOk
INVARIANT Emit
CHECK_DEADLOCK FALSE
