INIT Init
NEXT Next
CONSTANT Depth = 2
INVARIANT AcceptedBlockOk
INVARIANT Emit
CHECK_DEADLOCK FALSE
