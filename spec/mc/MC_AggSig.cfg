INIT Init
NEXT Next
INVARIANT EveryTamperChangesTheBag
INVARIANT DomainSeparated
INVARIANT BadIsInvalid
INVARIANT Emit
CHECK_DEADLOCK FALSE
