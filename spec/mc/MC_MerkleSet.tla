---------------------------- MODULE MC_MerkleSet ----------------------------
(* C12 (M + G). A state is one set S of keys drawn from a small universe of  *)
(* D-bit model keys embedded into 32-byte leaves; every operator of          *)
(* MerkleSet is evaluated at the real depth 256 on the embedded keys.        *)
(*   EmbKind "top":    model bit i -> key bit i                              *)
(*           "stride": model bit i -> key bit 8i+3 (one-sided levels between)*)
(*           "low":    model bit i -> key bit 256-D+i (common 256-D prefix,  *)
(*                     every proof walks down to depth 255)                  *)
(* Invariants (phase = 1, so that TLC evaluates them in parallel):           *)
(*   Canonical  the partition algorithm on every sequence over S (all orders,*)
(*              one duplicate) gives RefRoot(S)                              *)
(*   Complete   Validate(Ser(GenProof(S,x)), x, RefRoot(S)) = (x \in S),     *)
(*              Deser(Ser(p)) = p                                            *)
(*   Sound, over three families of proof terms:                              *)
(*   (Exh)      all proof terms of height <= ExhH over E | T(any key) |      *)
(*              R(honest node hash or junk)                                  *)
(*   (Guided)   all terms of height <= GuidedH whose every middle node has  *)
(*              the hash of an honest node (root-plausible terms; prunes only*)
(*              terms that would need a SHA-256 collision to match the root) *)
(*   (Rw)       all single rewrites (and selected double rewrites) of every  *)
(*              honest proof, and honest proofs of neighbouring sets         *)
(*   each: Classify(p, x, RefRoot(S)) accepting => verdict = (x \in S)       *)
(* for sets of at most SoundMax keys; one replay case per state is printed    *)
(* (EmitCases).                                                              *)
EXTENDS MerkleSet, TLC, Json

CONSTANTS D, EmbKind, MinSet, MaxSet, SoundMax, ExhH, GuidedH, PermMax, DupMax, EmitCases

N == Pow2(D)
Pos(i) == CASE EmbKind = "top" -> i [] EmbKind = "stride" -> 8 * i + 3 [] EmbKind = "low" -> 256 - D + i
BgByte(j) == (37 * j + 11) % 256
BgBit(j) == (BgByte((j \div 8) + 1) \div Pow2(7 - (j % 8))) % 2
ModelBit(m, i) == (m \div Pow2(D - 1 - i)) % 2
KeyOfBits(f) == [b \in 1..32 |-> LET o == 8 * (b - 1) IN
   128 * f[o] + 64 * f[o + 1] + 32 * f[o + 2] + 16 * f[o + 3] + 8 * f[o + 4] + 4 * f[o + 5] + 2 * f[o + 6] + f[o + 7]]
EmbBits(m) == [j \in 0..255 |-> IF \E i \in 0..(D - 1) : Pos(i) = j
                                 THEN ModelBit(m, CHOOSE i \in 0..(D - 1) : Pos(i) = j) ELSE BgBit(j)]
Emb(m) == TLCEval(KeyOfBits(EmbBits(m)))
Flip(k, j) == TLCEval(KeyOfBits([t \in 0..255 |-> IF t = j THEN 1 - Bit(k, t) ELSE Bit(k, t)]))

U == {Emb(m) : m \in 0..(N - 1)}
\* two query items outside the universe: one parting from Emb(0) in the middle
\* of the key, one parting from Emb(N-1) at the far end
Out1 == Flip(Emb(0), IF EmbKind = "low" THEN 100 ELSE 200)
Out2 == Flip(Emb(N - 1), IF EmbKind = "low" THEN 0 ELSE 255)
Items == U \cup {Out1, Out2}
Junk == [i \in 1..32 |-> 171]

VARIABLES S, phase
Init == phase = 0 /\ S \in {X \in SUBSET U : Cardinality(X) >= MinSet /\ Cardinality(X) <= MaxSet}
Next == phase = 0 /\ phase' = 1 /\ UNCHANGED S

Root == RefRoot(S)
Sound1(p, x) == LET c == ClassifyTree(p, x, Root) IN Accepting(c) => c = YesNo(x \in S)
SoundTerm(p) == Structural(p, Root) = "" => \A x \in Items : Lookup(p, x, 0) \in {"err", YesNo(x \in S)}
SoundAll(P) == \A p \in P : SoundTerm(p)

(* ---------------- Canonical ---------------- *)
SeqsOver(X, n) == {s \in [1..n -> X] : Range(s) = X}
Canonical == phase = 1 =>
  /\ Cardinality(S) <= PermMax => \A s \in SeqsOver(S, Cardinality(S)) : SeqRoot(s) = Root
  /\ Cardinality(S) <= DupMax => \A s \in SeqsOver(S, Cardinality(S) + 1) : SeqRoot(s) = Root
  /\ LET RECURSIVE AsSeq(_)
         AsSeq(X) == IF X = {} THEN <<>> ELSE LET k == CHOOSE k \in X : TRUE IN <<k>> \o AsSeq(X \ {k})
         s == AsSeq(S)
     IN SeqRoot(s) = Root /\ SeqRoot(s \o s) = Root

(* ---------------- Complete ---------------- *)
Complete == phase = 1 => \A x \in Items :
  LET p == GenProof(S, x) b == Ser(p) IN
  /\ Deser(b) = [why |-> "", p |-> p]
  /\ Classify(b, x, Root) = YesNo(x \in S)
  /\ \A y \in Items : Sound1(p, y)

(* ---------------- hashes of honest nodes ---------------- *)
RECURSIVE NodeHashes(_, _)
NodeHashes(X, d) ==
  IF Cardinality(X) <= 1 THEN {}
  ELSE LET L == {k \in X : Bit(k, d) = 0} R == X \ L IN
       {Node(X, d)[1]} \cup (IF L = {} \/ R = {} THEN NodeHashes(X, d + 1) ELSE NodeHashes(L, d + 1) \cup NodeHashes(R, d + 1))
Honest == IF GuidedH = 0 /\ ExhH = 0 THEN {} ELSE NodeHashes(S, 0) \cup {Root}
LeafTerms == {PE} \cup {PT(k) : k \in U} \cup {PR(h) : h \in Honest \cup {Junk}}

(* ---------------- SoundExh ---------------- *)
RECURSIVE Terms(_)
Terms(h) == IF h = 0 THEN LeafTerms ELSE LET g == Terms(h - 1) IN LeafTerms \cup {PM(pr[1], pr[2]) : pr \in g \X g}
ExhSet == IF ExhH = 0 THEN {} ELSE Terms(ExhH)

(* ---------------- SoundGuided ---------------- *)
\* terms paired with their node <<hash, type>> so that nothing is hashed twice
RECURSIVE Guided(_)
Guided(h) == LET lt == {[p |-> q, n |-> PNode(q)] : q \in LeafTerms} IN
             IF h = 0 THEN lt
             ELSE LET g == Guided(h - 1) IN
                  lt \cup {c \in {[p |-> PM(pr[1].p, pr[2].p), n |-> Join(pr[1].n, pr[2].n)] : pr \in g \X g} : c.n[1] \in Honest}
GuidedSet == IF GuidedH = 0 THEN {} ELSE {c.p : c \in Guided(GuidedH)}

(* ---------------- rewrites of honest proofs ---------------- *)
RECURSIVE Height(_)
Height(p) == IF p.t = "M" THEN 1 + (LET a == Height(p.l) b == Height(p.r) IN IF a > b THEN a ELSE b) ELSE 0
RECURSIVE PathsOf(_, _)
PathsOf(p, path) == {path} \cup (IF p.t = "M" THEN PathsOf(p.l, Append(path, 0)) \cup PathsOf(p.r, Append(path, 1)) ELSE {})
RECURSIVE SubAt(_, _, _)
SubAt(p, path, i) == IF i > Len(path) THEN p ELSE SubAt(IF path[i] = 0 THEN p.l ELSE p.r, path, i + 1)
RECURSIVE ReplAt(_, _, _, _)
ReplAt(p, path, i, q) == IF i > Len(path) THEN q
                         ELSE IF path[i] = 0 THEN PM(ReplAt(p.l, path, i + 1, q), p.r) ELSE PM(p.l, ReplAt(p.r, path, i + 1, q))
\* rewrite positions: every node of a shallow proof; for deep proofs the top,
\* the middle and the bottom levels
DepthSel(h) == IF h <= 24 THEN 0..h ELSE (0..1) \cup {128} \cup ((h - 2)..h)
Nbrs(k) == {k2 \in U : Cardinality({j \in 0..(D - 1) : Bit(k, Pos(j)) # Bit(k2, Pos(j))}) = 1} \cup {Out1, Out2}
Variants(n, x) ==
  {PE, PR(Junk), PM(n, PE), PM(PE, n)}
  \cup (IF n.t = "M" THEN {PM(n.r, n.l), PR(PNode(n)[1]), n.l, n.r} ELSE {})
  \cup (IF n.t = "M" /\ n.r.t = "E" /\ n.l.t = "M" THEN {PM(PE, PR(PNode(n.l)[1])), PM(PR(PNode(n.l)[1]), PE)} ELSE {})
  \cup (IF n.t = "M" /\ n.l.t = "E" /\ n.r.t = "M" THEN {PM(PR(PNode(n.r)[1]), PE), PM(PE, PR(PNode(n.r)[1]))} ELSE {})
  \cup (IF n.t = "T" THEN {PT(k) : k \in Nbrs(n.v)} \cup {PR(n.v), PR(LeafHash(n.v))} ELSE {})
  \cup (IF n.t \in {"E", "R"} THEN {PT(k) : k \in S \cup {x}} ELSE {})
\* mirror every one-sided level (the whole collapsed chain changes side)
RECURSIVE Mirror(_)
Mirror(p) == IF p.t # "M" THEN p
             ELSE IF p.l.t = "E" \/ p.r.t = "E" THEN PM(Mirror(p.r), Mirror(p.l)) ELSE PM(Mirror(p.l), Mirror(p.r))
Rewrites(p, x) ==
  LET h == Height(p)
      paths == {q \in PathsOf(p, <<>>) : Len(q) \in DepthSel(h)}
  IN {Mirror(p)} \cup UNION {{ReplAt(p, q, 1, v) : v \in Variants(SubAt(p, q, 1), x)} : q \in paths}
NbrSets == {S \ {k} : k \in S} \cup {S \cup {k} : k \in {k2 \in Items \ S : \E k3 \in S \cup {Out1} : k2 \in Nbrs(k3)}}
RwSet == UNION {Rewrites(GenProof(S, x), x) : x \in Items}
         \cup {GenProof(X, x) : X \in NbrSets, x \in Items}

(* ---------------- Sound + replay cases ---------------- *)
\* Adversarial terms sent to the implementation: all rewrites and guided terms
\* (they include terms that this specification rejects for each reason).
RECURSIVE SetToSeq(_)
SetToSeq(X) == IF X = {} THEN <<>> ELSE LET k == CHOOSE k \in X : TRUE IN <<k>> \o SetToSeq(X \ {k})
Case(adv) == LET s == SetToSeq(S) IN
  [emb |-> EmbKind, d |-> D,
   leafs |-> IF s = <<>> THEN s ELSE s \o <<s[1]>>,
   items |-> SetToSeq(Items),
   adv |-> SetToSeq({Ser(p) : p \in adv \ {GenProof(S, x) : x \in Items}})]
\* sets larger than SoundMax are checked for Canonical and Complete only (and replayed without adversarial terms)
Sound == phase = 1 =>
  LET small == Cardinality(S) <= SoundMax
      rw == IF small THEN RwSet ELSE {}
      g == IF small THEN GuidedSet ELSE {}
  IN /\ SoundAll(rw)
     /\ SoundAll(g)
     /\ small => SoundAll(ExhSet)
     /\ EmitCases => PrintT(<<"CASE", ToJson(Case(rw \cup g))>>)
=============================================================================
