INIT Init
NEXT Next
CONSTANT D = 4
CONSTANT EmbKind = "top"
CONSTANT MinSet = 0
CONSTANT MaxSet = 16
CONSTANT SoundMax = 4
CONSTANT ExhH = 0
CONSTANT GuidedH = 5
CONSTANT PermMax = 4
CONSTANT DupMax = 2
CONSTANT EmitCases = TRUE
INVARIANT Canonical
INVARIANT Complete
INVARIANT Sound
CHECK_DEADLOCK FALSE
