INIT Init
NEXT Next
CONSTANT Alphabet = {0, 1, 2, 3, 5, 6, 128, 129, 254, 255}
CONSTANT MaxLen = 6
CONSTANT EagerLen = 3
CONSTANT TreeDepth = 2
CONSTANT PathMax = 5
CONSTANT EmitCases = TRUE
INVARIANT TotalDeterministic
INVARIANT StackDiscipline
INVARIANT FunctionalAgrees
INVARIANT TrailingIgnored
INVARIANT PlainRoundTrip
INVARIANT GreedyRoundTrip
INVARIANT PlainDecoder
INVARIANT ExpandOne
INVARIANT LookupInside
INVARIANT LenScan
INVARIANT Emit
CHECK_DEADLOCK FALSE
