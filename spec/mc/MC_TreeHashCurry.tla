-------------------------- MODULE MC_TreeHashCurry --------------------------
(* C17 (M + G): curry_tree_hash(h(p), <<h(a_i)>>) = TreeHash of the curried  *)
(* program built per curried_program.rs, for every program and argument list *)
(* of <= MaxArgs trees from a menu; plus the PRECOMPUTED table lemma.        *)
EXTENDS TreeHashCache, Json
CONSTANT MaxArgs

A32 == [i \in 1..32 |-> (i * 11 + 5) % 256]
Menu == {Nil, Atom(<<1>>), Atom(<<4>>), Atom(<<0, 128>>), Atom(A32),
         Cons(Atom(<<1>>), Nil), Cons(Nil, Atom(<<1>>)),
         ListOf(<<Atom(<<2>>), Atom(<<2>>), Atom(<<3>>)>>),
         CurriedTree(Atom(<<2>>), <<Atom(<<5>>)>>)}
RECURSIVE SeqsUpTo(_, _)
SeqsUpTo(S, n) == IF n = 0 THEN {<<>>} ELSE SeqsUpTo(S, n - 1) \cup {Append(s, x) : s \in {q \in SeqsUpTo(S, n - 1) : Len(q) = n - 1}, x \in S}

VARIABLES x, phase
Init == phase = 0 /\ tbl = <<>> /\ cache = EmptyCache /\ hist = <<>> /\ x \in {[p |-> p, args |-> a] : p \in Menu, a \in SeqsUpTo(Menu, MaxArgs)}
Next == phase = 0 /\ phase' = 1 /\ UNCHANGED <<x, vars>>

CurryOK == phase = 1 => CurryCorrect(x.p, x.args)
\* the curried tree has the documented shape: (a (q . p) ARGS), evaluated head is the apply operator
CurryShape == phase = 1 => LET t == CurriedTree(x.p, x.args) IN
  /\ t.l = Atom(<<2>>) /\ t.r.l = Cons(Atom(<<1>>), x.p) /\ t.r.r.r = Nil
  /\ (x.args = <<>> => t.r.r.l = Atom(<<1>>))
  /\ (x.args # <<>> => t.r.r.l.l = Atom(<<4>>) /\ t.r.r.l.r.l = Cons(Atom(<<1>>), x.args[1]))
\* argument order matters: swapping two different arguments changes the hash
OrderMatters == (phase = 1 /\ Len(x.args) >= 2 /\ x.args[1] # x.args[2]) =>
  CurryTreeHash(TreeHash(x.p), <<TreeHash(x.args[2]), TreeHash(x.args[1])>> \o [i \in 1..(Len(x.args) - 2) |-> TreeHash(x.args[i + 2])])
    # TreeHash(CurriedTree(x.p, x.args))
PrecomputedOK == SmallAtoms
Emit == phase = 1 => PrintT(<<"CASE", ToJson([k |-> "curry", p |-> x.p, args |-> x.args])>>)
=============================================================================
