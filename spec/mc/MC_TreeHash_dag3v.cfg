INIT Init
NEXT Next
CONSTANT Mode = "dag"
CONSTANT NPairs = 3
CONSTANT MaxOps = 99
CONSTANT Full = FALSE
CONSTANT EmitOneIn = 1
CONSTANT Kinds = {"visit", "cached", "insert", "novisit", "plain", "bytes", "bytes_br", "enc"}
INVARIANT TableOK
INVARIANT SlotsCorrect
INVARIANT CacheShape
INVARIANT RefAgreesOnAlloc
INVARIANT AtomFastPathSound
INVARIANT LastResultCorrect
INVARIANT Emit
PROPERTY ResultStep
PROPERTY EmitStep
PROPERTY MemoStable
CHECK_DEADLOCK FALSE
VIEW ViewNoHist
