---------------------------- MODULE MC_JsonDict ----------------------------
(* C20 (M + G).                                                             *)
(*  Mode "model": every JSON-able combinator term of depth <= Depth (1, 2; 3  *)
(*    adds options / vectors of all depth-1 terms, all leaf pairs) over the *)
(*    leaf types plus model structs (upper-cased keys, single-field tuple   *)
(*    structs, opt2 wire fields, block and proof-of-space views), small     *)
(*    exhaustive value sets, scaled point widths. Invariants: FromJ inverts *)
(*    ToJ; every applicable single-position corruption is rejected; no      *)
(*    oracle gaps; integer JSON is accepted exactly in range and canonical. *)
(*  Mode "gen": the schema and the JSON views extracted from the current    *)
(*    sources (IOEnv.JSCHEMA), every registry type, the canonical values     *)
(*    Val(T, k), k in Variants; same invariants, and every state is emitted as a *)
(*    replay case: (type, encoding, every applicable (path, class)).        *)
EXTENDS JsonDict, TLC, Json, IOUtils

CONSTANTS Mode, Depth, Variants

\* ---------------- model oracles ----------------
RECURSIVE PL(_, _)
PL(b, pos) ==
  IF pos > Len(b) THEN 0
  ELSE LET x == b[pos] IN
       IF x <= 128 THEN 1
       ELSE IF x <= 191 THEN (IF Avail(b, pos, 1 + x - 128) THEN 1 + x - 128 ELSE 0)
       ELSE IF x = 255 THEN (LET l1 == PL(b, pos + 1) IN
                             IF l1 = 0 THEN 0
                             ELSE LET l2 == PL(b, pos + 1 + l1) IN IF l2 = 0 THEN 0 ELSE 1 + l1 + l2)
       ELSE 0
Progs == <<<<128>>, <<255, 1, 128>>, <<1>>, <<129, 255>>>>
ProgCandSeq == <<<<128>>, <<>>, <<128, 0>>, <<255, 1, 128>>, <<255, 1>>, <<255, 1, 128, 0>>, <<1>>, <<1, 0>>, <<129, 255>>, <<129>>, <<129, 255, 0>>>>
ProgTable == [i \in 1..Len(ProgCandSeq) |-> <<ProgCandSeq[i], PL(ProgCandSeq[i], 1)>>]

G1Inf == <<192>> \o [i \in 1..(G1W - 1) |-> 0]
G2Inf == <<192>> \o [i \in 1..(G2W - 1) |-> 0]
G1Gen == IF G1W = 48
         THEN <<151, 241, 211, 167, 49, 151, 215, 148, 38, 149, 99, 140, 79, 169, 172, 15, 195, 104, 140, 79, 151, 116, 185, 5, 161, 78, 58, 63, 23, 27, 172, 88, 108, 85, 232, 63, 249, 122, 26, 239, 251, 58, 240, 10, 219, 34, 198, 187>>
         ELSE <<128>> \o [i \in 1..(G1W - 1) |-> 1]
G2Gen == IF G2W = 96
         THEN <<147, 224, 43, 96, 82, 113, 159, 96, 125, 172, 211, 160, 136, 39, 79, 101, 89, 107, 208, 208, 153, 32, 182, 26, 181, 218, 97, 187, 220, 127, 80, 73, 51, 76, 241, 18, 19, 148, 93, 87, 229, 172, 125, 5, 93, 4, 43, 126, 2, 74, 162, 178, 240, 143, 10, 145, 38, 8, 5, 39, 45, 197, 16, 81, 198, 228, 122, 212, 250, 64, 59, 2, 180, 81, 11, 100, 122, 227, 209, 119, 11, 172, 3, 38, 168, 5, 187, 239, 212, 128, 86, 200, 193, 33, 189, 184>>
         ELSE <<128>> \o [i \in 1..(G2W - 1) |-> 2]
ModelOracle == [g1 |-> <<>>, g2 |-> <<>>, prog |-> <<>>, qs |-> <<>>, jprog |-> ProgTable,
                jg1 |-> <<<<G1Inf, 1, 1>>, <<G1Gen, 1, 1>>>>, jg2 |-> <<<<G2Inf, 1, 1>>, <<G2Gen, 1, 1>>>>]

\* ---------------- model schema (mode "model") ----------------
\* keys of the model structs are written as code sequences directly
F(c, t, w, s) == [c |-> c, t |-> t, w |-> w, s |-> s]
MSchema ==
  [Inner |-> [k |-> "struct", fs |-> <<[n |-> "a", t |-> U(1)], [n |-> "b", t |-> OptT(BoolT)]>>],
   Upper |-> [k |-> "struct", fs |-> <<[n |-> "min_x", t |-> U(2)], [n |-> "h", t |-> BytesNT(2)]>>],
   New |-> [k |-> "struct", fs |-> <<[n |-> "field_0", t |-> [k |-> "i", n |-> 1]]>>],
   NewOpt |-> [k |-> "struct", fs |-> <<[n |-> "field_0", t |-> OptT(U(1))]>>],
   En |-> EnumT(<<0, 1, 3>>),
   Sub |-> [k |-> "struct", fs |-> <<[n |-> "x", t |-> U(1)], [n |-> "nd", t |-> OptT(U(1))], [n |-> "a+b", t |-> Opt2T(U(1), BytesNT(1))]>>],
   Outer |-> [k |-> "struct", fs |-> <<[n |-> "n", t |-> RefT("New")], [n |-> "p", t |-> RefT("NewOpt")], [n |-> "i", t |-> RefT("Inner")],
                                        [n |-> "e", t |-> RefT("En")], [n |-> "t", t |-> TupT(<<U(1), BoolT>>)]>>],
   Empty |-> [k |-> "struct", fs |-> <<>>],
   Blk |-> BlockT(<<[n |-> "x", t |-> OptT(U(1))]>>),
   Pos |-> PosT]
MViews ==
  [Inner |-> [up |-> FALSE, nt |-> FALSE, jfs |-> <<F(<<97>>, U(1), 1, 0), F(<<98>>, OptT(BoolT), 2, 0)>>],
   Upper |-> [up |-> TRUE, nt |-> FALSE, jfs |-> <<F(<<109, 105, 110, 95, 120>>, U(2), 1, 0), F(<<104>>, BytesNT(2), 2, 0)>>],
   New |-> [up |-> FALSE, nt |-> TRUE, jfs |-> <<F(<<102>>, [k |-> "i", n |-> 1], 1, 0)>>],
   NewOpt |-> [up |-> FALSE, nt |-> TRUE, jfs |-> <<F(<<102>>, OptT(U(1)), 1, 0)>>],
   Sub |-> [up |-> FALSE, nt |-> FALSE, jfs |-> <<F(<<120>>, U(1), 1, 0), F(<<110, 100>>, OptT(U(1)), 2, 0),
                                                   F(<<97>>, OptT(U(1)), 3, 1), F(<<98>>, OptT(BytesNT(1)), 3, 2)>>],
   Outer |-> [up |-> FALSE, nt |-> FALSE, jfs |-> <<F(<<110>>, RefT("New"), 1, 0), F(<<112>>, RefT("NewOpt"), 2, 0), F(<<105>>, RefT("Inner"), 3, 0),
                                                     F(<<101>>, RefT("En"), 4, 0), F(<<116>>, TupT(<<U(1), BoolT>>), 5, 0)>>],
   Empty |-> [up |-> FALSE, nt |-> FALSE, jfs |-> <<>>],
   Blk |-> [up |-> FALSE, nt |-> FALSE, jfs |-> <<F(<<120>>, OptT(U(1)), 1, 0), F(<<103>>, OptT(ProgT), 0, 1), F(<<114>>, VecT(U(4)), 0, 2),
                                                   F(<<98>>, OptT(VecT(U(1))), 0, 3), F(<<118>>, U(1), 0, 4)>>],
   Pos |-> [up |-> FALSE, nt |-> FALSE, jfs |-> <<F(<<99>>, BytesNT(HashW), 0, 1), F(<<112>>, OptT(G1T), 0, 2), F(<<104>>, OptT(BytesNT(HashW)), 0, 3),
                                                   F(<<107>>, G1T, 0, 4), F(<<118>>, U(1), 0, 5), F(<<105>>, U(2), 0, 6), F(<<109>>, U(1), 0, 7),
                                                   F(<<115>>, U(1), 0, 8), F(<<122>>, U(1), 0, 9), F(<<111>>, BytesT, 0, 10)>>]]

JS == IF Mode = "gen" THEN JsonDeserialize(IOEnv.JSCHEMA) ELSE [types |-> MSchema, views |-> MViews, top |-> <<>>]
Ctx == [s |-> JS.types, j |-> JS.views, o |-> ModelOracle, tr |-> FALSE, b |-> <<>>]

\* ---------------- type terms (mode "model") ----------------
I(n) == [k |-> "i", n |-> n]
D0 == {U(1), U(2), U(8), U(16), I(1), I(2), I(16), BoolT, BytesT, StrT, EnumT(<<1, 3>>), BytesNT(2), BytesNT(0), ProgT, G1T, G2T}
D0s == {U(1), I(1), BoolT, BytesT, ProgT, G1T, BytesNT(1)}
D1v == {VecT(t) : t \in D0s}
D1c == {OptT(t) : t \in D0s} \cup D1v
D1 == D0 \cup {OptT(t) : t \in D0} \cup {VecT(t) : t \in D0} \cup {ArrT(t, 2) : t \in D0s}
         \cup {TupT(<<a, b>>) : a, b \in D0s} \cup {TupT(<<U(1), BoolT, BytesT>>)}
\* Option<Option<T>> is not a JSON-able term: Some(None) and None both render as null (no exported class nests options)
D2 == D1 \cup {OptT(t) : t \in D1v} \cup {VecT(t) : t \in D1c} \cup {VecT(TupT(<<a, b>>)) : a, b \in {U(1), BoolT}}
         \cup {TupT(<<a, b>>) : a \in D0s, b \in D1c} \cup {ArrT(t, 2) : t \in D1c}
Named == {RefT("Inner"), RefT("Upper"), RefT("New"), RefT("NewOpt"), RefT("En"), RefT("Sub"), RefT("Outer"), RefT("Empty"),
          RefT("Blk"), RefT("Pos"), VecT(RefT("Inner")), OptT(RefT("Upper")), TupT(<<RefT("New"), RefT("Upper")>>), VecT(RefT("Pos"))}
\* depth 3 (thorough): options / vectors of every depth-1 term, pairs and arrays over all leaf types
D1n == D1 \ {OptT(t) : t \in D0}
D3 == D2 \cup {OptT(t) : t \in D1n} \cup {VecT(t) : t \in D1} \cup {TupT(<<a, b>>) : a, b \in D0} \cup {ArrT(t, 2) : t \in D0 \cup D1c}
ModelTypes == (IF Depth >= 3 THEN D3 ELSE IF Depth >= 2 THEN D2 ELSE D1) \cup Named

Pairs(A, B) == {<<a, b>> : a \in A, b \in B}
OptOf(S) == {<<>>} \cup {<<v>> : v \in S}
RECURSIVE Vals(_)
Vals(T) ==
  CASE T.k = "u" -> (IF T.n = 1 THEN {<<0>>, <<1>>, <<127>>, <<128>>, <<255>>}
                     ELSE {[i \in 1..T.n |-> 0], [i \in 1..T.n |-> 255], [i \in 1..T.n |-> IF i = 1 THEN 128 ELSE 0], [i \in 1..T.n |-> IF i = T.n THEN 1 ELSE 0]})
    [] T.k = "i" -> (IF T.n = 1 THEN {<<0>>, <<1>>, <<127>>, <<128>>, <<255>>}
                     ELSE {[i \in 1..T.n |-> 0], [i \in 1..T.n |-> 255], [i \in 1..T.n |-> IF i = 1 THEN 128 ELSE 0], [i \in 1..T.n |-> IF i = 1 THEN 127 ELSE 255]})
    [] T.k = "bool" -> BOOLEAN
    [] T.k = "bytesn" -> {[i \in 1..T.n |-> 0], [i \in 1..T.n |-> 171]}
    [] T.k = "bytes" -> {<<>>, <<0>>, <<1, 255>>}
    [] T.k = "str" -> {<<>>, <<65>>, <<195, 169>>, <<48, 120>>}
    [] T.k = "enum" -> SeqToSet(T.vals)
    [] T.k = "prog" -> {Progs[1], Progs[2], Progs[4]}
    [] T.k = "g1" -> {G1Inf, G1Gen}
    [] T.k = "g2" -> {G2Inf, G2Gen}
    [] T.k = "opt" -> OptOf(Vals(T.t))
    [] T.k = "opt2" -> Pairs(OptOf(Vals(T.a)), OptOf(Vals(T.b)))
    [] T.k = "vec" -> {<<>>} \cup {<<v>> : v \in Vals(T.t)} \cup Pairs(Vals(T.t), Vals(T.t))
    [] T.k = "arr" -> Pairs(Vals(T.t), Vals(T.t))
    [] T.k = "tup" -> (IF Len(T.ts) = 2 THEN Pairs(Vals(T.ts[1]), Vals(T.ts[2]))
                       ELSE {<<a, b, c>> : a \in Vals(T.ts[1]), b \in Vals(T.ts[2]), c \in Vals(T.ts[3])})
    [] T.k = "struct" -> (CASE Len(T.fs) = 0 -> {<<>>}
                            [] Len(T.fs) = 1 -> {<<a>> : a \in Vals(T.fs[1].t)}
                            [] Len(T.fs) = 2 -> Pairs(Vals(T.fs[1].t), Vals(T.fs[2].t))
                            [] Len(T.fs) = 3 -> {<<a, b, c>> : a \in Vals(T.fs[1].t), b \in Vals(T.fs[2].t), c \in Vals(T.fs[3].t)}
                            [] Len(T.fs) = 5 -> {<<a, b, c, d, e>> : a \in Vals(T.fs[1].t), b \in Vals(T.fs[2].t), c \in {<<<<0>>, <<TRUE>>>>, <<<<9>>, <<>>>>},
                                                                       d \in Vals(T.fs[4].t), e \in Vals(T.fs[5].t)})
    [] T.k = "ref" -> Vals(MSchema[T.name])
    [] T.k = "block" -> {[pre |-> <<x>>, ver |-> 0, gen |-> g, refs |-> r] : x \in {<<>>, <<<<7>>>>}, g \in OptOf({Progs[1], Progs[2]}), r \in {<<>>, <<<<0, 0, 1, 0>>>>}}
                        \cup {[pre |-> <<x>>, ver |-> 1, gen |-> g, refs |-> <<>>] : x \in {<<>>, <<<<7>>>>}, g \in OptOf({<<>>, <<1, 255>>})}
    [] T.k = "pos" -> {[ch |-> [i \in 1..HashW |-> 9], pk |-> pk, ver |-> 0, cph |-> cph, ppk |-> G1Gen, par |-> <<32>>, proof |-> pr, at |-> 0] :
                          pk \in OptOf({G1Gen}), cph \in OptOf({[i \in 1..HashW |-> 5]}), pr \in {<<>>, <<1, 2>>}}
                      \cup {[ch |-> [i \in 1..HashW |-> 9], pk |-> pk, ver |-> 1, cph |-> cph, ppk |-> G1Inf, par |-> <<1, 2, 3, 4>>, proof |-> <<7>>, at |-> 0] :
                          pk \in OptOf({G1Gen}), cph \in OptOf({[i \in 1..HashW |-> 5]})}

\* ---------------- canonical values (mode "gen"): variant k of every type ----------------
Pat(n, k) == [i \in 1..n |-> CASE k = 1 -> 0 [] k = 2 -> 255 [] k = 3 -> i % 256 [] OTHER -> (i * 37 + 11) % 256]
RECURSIVE Val(_, _)
Val(T, k) ==
  CASE T.k = "u" -> (CASE k = 1 -> [i \in 1..T.n |-> 0] [] k = 2 -> [i \in 1..T.n |-> 255]
                       [] k = 3 -> [i \in 1..T.n |-> IF i = T.n THEN 1 ELSE 0] [] OTHER -> [i \in 1..T.n |-> IF i = 1 THEN 128 ELSE 0])
    [] T.k = "i" -> (CASE k = 1 -> [i \in 1..T.n |-> 0] [] k = 2 -> [i \in 1..T.n |-> IF i = 1 THEN 128 ELSE 0]
                       [] k = 3 -> [i \in 1..T.n |-> 255] [] OTHER -> [i \in 1..T.n |-> IF i = 1 THEN 127 ELSE 255])
    [] T.k = "bool" -> k % 2 = 0
    [] T.k = "bytesn" -> Pat(T.n, k)
    [] T.k = "bytes" -> (CASE k = 1 -> <<>> [] k = 2 -> <<0>> [] k = 3 -> <<1, 255>> [] OTHER -> <<171>>)
    [] T.k = "str" -> (CASE k = 1 -> <<>> [] k = 2 -> <<65>> [] k = 3 -> <<195, 169>> [] OTHER -> <<48, 120, 97>>)
    [] T.k = "enum" -> T.vals[((k - 1) % Len(T.vals)) + 1]
    [] T.k = "prog" -> Progs[k]
    [] T.k = "g1" -> (IF k % 2 = 1 THEN G1Inf ELSE G1Gen)
    [] T.k = "g2" -> (IF k % 2 = 1 THEN G2Inf ELSE G2Gen)
    [] T.k = "opt" -> (IF k = 1 THEN <<>> ELSE <<Val(T.t, k)>>)
    [] T.k = "opt2" -> (CASE k = 1 -> <<<<>>, <<>>>> [] k = 2 -> <<<<Val(T.a, 2)>>, <<Val(T.b, 2)>>>>
                          [] k = 3 -> <<<<Val(T.a, 3)>>, <<>>>> [] OTHER -> <<<<>>, <<Val(T.b, 4)>>>>)
    [] T.k = "vec" -> (CASE k = 1 -> <<>> [] k = 2 -> <<Val(T.t, 2)>> [] k = 3 -> <<Val(T.t, 3), Val(T.t, 1)>> [] OTHER -> <<Val(T.t, 4)>>)
    [] T.k = "arr" -> [i \in 1..T.n |-> Val(T.t, k)]
    [] T.k = "tup" -> [i \in 1..Len(T.ts) |-> Val(T.ts[i], k)]
    [] T.k = "struct" -> [i \in 1..Len(T.fs) |-> Val(T.fs[i].t, k)]
    [] T.k = "ref" -> Val(JS.types[T.name], k)
    [] T.k = "block" -> [pre |-> [i \in 1..Len(T.fs) |-> Val(T.fs[i].t, k)], ver |-> IF k <= 2 THEN 0 ELSE 1,
                         gen |-> (CASE k = 1 -> <<>> [] k = 2 -> <<Progs[2]>> [] k = 3 -> <<>> [] OTHER -> <<<<1, 2>>>>),
                         refs |-> IF k = 2 THEN <<<<0, 0, 0, 7>>>> ELSE <<>>]
    [] T.k = "pos" -> [ch |-> Pat(HashW, k), pk |-> IF k % 2 = 1 THEN <<G1Gen>> ELSE <<>>, ver |-> IF k <= 2 THEN 0 ELSE 1,
                       cph |-> IF k % 2 = 1 THEN <<>> ELSE <<Pat(HashW, k)>>, ppk |-> IF k = 1 THEN G1Inf ELSE G1Gen,
                       par |-> IF k <= 2 THEN <<32>> ELSE <<1, 2, 3, 4>>, proof |-> IF k = 1 THEN <<>> ELSE <<7, 8>>, at |-> 0]

TopNames == DOMAIN JS.top

VARIABLES x, phase
Init == /\ phase = 0
        /\ \/ /\ Mode = "model"
              /\ \/ \E T \in ModelTypes : \E v \in Vals(T) : x = [k |-> "val", t |-> T, v |-> v]
                 \/ \E n \in {1, 2, 4, 8, 16}, sg \in {"u", "i"}, neg \in BOOLEAN, base \in 0..2, d \in 0..2, minus \in BOOLEAN :
                      x = [k |-> "int", t |-> [k |-> sg, n |-> n], neg |-> neg, base |-> base, d |-> d, minus |-> minus]
           \/ /\ Mode = "gen"
              /\ \E nm \in TopNames, k \in Variants : x = [k |-> "val", name |-> nm, t |-> JS.top[nm], v |-> Val(JS.top[nm], k)]
Next == phase = 0 /\ phase' = 1 /\ UNCHANGED x

IsVal == phase = 1 /\ x.k = "val"

\* FromJ inverts ToJ
RoundTrip == IsVal => LET r == FromJ(Ctx, x.t, ToJ(Ctx, x.t, x.v)) IN r.ok /\ r.v = x.v
\* every applicable single-position corruption of the JSON form is rejected (for a modelled reason);
\* the enumeration and the pointwise predicate agree; the corrupted value differs from the original
CorruptRejected == IsVal =>
  LET j == ToJ(Ctx, x.t, x.v) IN
  \A pc \in AllCorr(Ctx, x.t, j) :
    LET r == LocalFromJ(Ctx, x.t, j, pc[1], pc[2])
    IN /\ ~r.ok /\ r.why = "syntax"
       /\ Applicable(Ctx, x.t, j, pc[1], pc[2])
       /\ Len(KeysAt(Ctx, x.t, j, pc[1])) = Len(pc[1])
\* the verdict at the smallest enclosing sub-value is the verdict on the whole corrupted value, which differs
\* from the original (model terms only: quadratic in the size of the value)
LocalIsGlobal == (IsVal /\ Mode = "model") =>
  LET j == ToJ(Ctx, x.t, x.v) IN
  \A pc \in AllCorr(Ctx, x.t, j) :
    LET cj == Corrupt(Ctx, x.t, j, pc[1], pc[2])
        r == FromJ(Ctx, x.t, cj)
    IN /\ ~JEq(cj, j)
       /\ r.ok = LocalFromJ(Ctx, x.t, j, pc[1], pc[2]).ok
       /\ ~r.ok => r.why = "syntax"
\* integer JSON: accepted exactly when in range, and then canonical (ToJ of the result is the input)
IntJ == LET b == CASE x.base = 0 -> Zero [] x.base = 1 -> HalfPow(x.t.n) [] x.base = 2 -> Pow256(x.t.n)
            m == IF x.minus THEN (IF Ge(b, Of(x.d)) THEN Sub(b, Of(x.d)) ELSE Zero) ELSE Add(b, Of(x.d))
        IN JInt(x.neg /\ m # Zero, m)
IntExact == (phase = 1 /\ x.k = "int") =>
  LET j == IntJ
      r == FromJ(Ctx, x.t, j)
      inrange == IF x.t.k = "u" THEN ~j.neg /\ Lt(j.v, Pow256(x.t.n))
                 ELSE IF j.neg THEN Le(j.v, HalfPow(x.t.n)) ELSE Lt(j.v, HalfPow(x.t.n))
  IN /\ r.ok <=> inrange
     /\ r.ok => Len(r.v) = x.t.n /\ JEq(ToJ(Ctx, x.t, r.v), j)

\* ---------------- replay cases ----------------
Emit == (IsVal /\ Mode = "gen") =>
  PrintT(<<"CASE", ToJson([type |-> x.name, bytes |-> Encode(Ctx, x.t, x.v),
                           cs |-> {[p |-> pc[1], c |-> pc[2]] : pc \in AllCorr(Ctx, x.t, ToJ(Ctx, x.t, x.v))}])>>)
=============================================================================
