----------------------------- MODULE MC_Listing -----------------------------
(* M stage for the raw condition listing of the trusted helper                *)
(* (Generator.tla ListingOfConds) with the three limits scaled down           *)
(* (soft cap 3 conditions, atoms of 4 bytes or more are "long"; the argument  *)
(* limit stays 6): every condition list of up to MaxLen conditions over a     *)
(* menu of condition kinds. The scaled limits are substituted in the cfg      *)
(* (ListingSoftCap <- Cap3, ListingMaxAtom <- Atom4).                         *)
EXTENDS Generator, TLC

CONSTANT MaxLen
Cap3 == 3
Atom4 == 4

A(b) == Atom(b)
Menu == <<Cons(A(<<1>>), Nil),                                              \* low priority, no arguments
          Cons(A(<<1>>), ListOf(<<A(<<2>>), ListOf(<<A(<<3>>)>>), A(<<4>>)>>)),  \* low priority, a pair among the arguments
          Cons(A(<<51>>), ListOf(<<A(<<7, 7>>), A(<<1>>)>>)),                  \* high priority
          Cons(A(<<49>>), ListOf(<<A(<<7, 7, 7>>), A(<<1, 2, 3, 4>>)>>)),      \* high priority with a long atom: dropped
          Cons(A(<<0, 51>>), ListOf(<<A(<<7>>)>>)),                            \* opcode not a small number
          Cons(A(<<1>>), ListOf(<<A(<<1>>), A(<<2>>), A(<<3>>), A(<<4>>), A(<<5>>), A(<<6>>), A(<<1, 2, 3, 4>>)>>)),  \* long atom beyond the sixth argument: not examined
          A(<<9>>)>>                                                           \* an atom where a condition is expected

VARIABLES conds, phase
Init == conds \in UNION {[1..n -> 1..Len(Menu)] : n \in 0..MaxLen} /\ phase = 0
Next == phase = 0 /\ phase' = 1 /\ UNCHANGED conds

CondSeq == [i \in DOMAIN conds |-> Menu[conds[i]]]
Tree(s) == ListOf(s)
Lst(s) == ListingOfConds(Tree(s))
Kept(s) == SelectSeq([i \in DOMAIN s |-> ListingEntry(s[i])], LAMBDA e : e.keep)
IsSubSeq(a, b) == \* a is a subsequence of b (greedy embedding)
  LET RECURSIVE G(_, _)
      G(i, j) == IF i > Len(a) THEN TRUE ELSE IF j > Len(b) THEN FALSE
                 ELSE IF a[i] = b[j] THEN G(i + 1, j + 1) ELSE G(i, j + 1)
  IN G(1, 1)
Strip(e) == [op |-> e.op, args |-> e.args]

\* at most six arguments, every one shorter than the long-atom limit
ArgsBounded == phase = 1 => \A i \in DOMAIN Lst(CondSeq) : Len(Lst(CondSeq)[i].args) <= 6 /\ \A j \in DOMAIN Lst(CondSeq)[i].args : Len(Lst(CondSeq)[i].args[j]) < Atom4
\* the listing is a subsequence (order kept) of the conditions that qualify at all
OrderKept == phase = 1 => IsSubSeq(Lst(CondSeq), [i \in DOMAIN Kept(CondSeq) |-> Strip(Kept(CondSeq)[i])])
\* a qualifying AGG_SIG_* / CREATE_COIN condition is never dropped, whatever came before it
HighPriorityComplete == phase = 1 =>
  Cardinality({i \in DOMAIN Lst(CondSeq) : ListingHighPriority(Lst(CondSeq)[i].op)})
    = Cardinality({i \in DOMAIN Kept(CondSeq) : ListingHighPriority(Kept(CondSeq)[i].op)})
\* low-priority conditions are listed only while fewer than the cap are listed: no low-priority entry at a position beyond the cap
LowPriorityCapped == phase = 1 => \A i \in DOMAIN Lst(CondSeq) : i > Cap3 => ListingHighPriority(Lst(CondSeq)[i].op)
\* below the cap nothing qualifying is dropped
BelowCapComplete == phase = 1 => (Len(Kept(CondSeq)) <= Cap3 => Lst(CondSeq) = [i \in DOMAIN Kept(CondSeq) |-> Strip(Kept(CondSeq)[i])])
\* streaming: the listing of a prefix is a prefix of the listing
PrefixMonotone == phase = 1 => \A n \in 0..Len(CondSeq) :
  LET p == Lst(SubSeq(CondSeq, 1, n)) IN Len(p) <= Len(Lst(CondSeq)) /\ SubSeq(Lst(CondSeq), 1, Len(p)) = p
\* list termination is lax: an atom tail does not change the listing
LaxTail == phase = 1 => ListingOfConds(ListWithTail(CondSeq, A(<<5>>))) = Lst(CondSeq)
=============================================================================
