INIT Init
NEXT Next
CONSTANT Alphabet = {0, 1, 2, 3, 4, 5, 6, 7, 128, 129, 130, 192, 254, 255}
CONSTANT MaxLen = 6
CONSTANT EagerLen = 3
CONSTANT TreeDepth = 2
CONSTANT PathMax = 6
CONSTANT EmitCases = TRUE
INVARIANT TotalDeterministic
INVARIANT StackDiscipline
INVARIANT FunctionalAgrees
INVARIANT TrailingIgnored
INVARIANT PlainRoundTrip
INVARIANT GreedyRoundTrip
INVARIANT PlainDecoder
INVARIANT ExpandOne
INVARIANT LookupInside
INVARIANT LenScan
INVARIANT Emit
CHECK_DEADLOCK FALSE
