INIT Init
NEXT Next
CONSTANT Mode = "model"
CONSTANT LenW = 4
CONSTANT HashW = 2
CONSTANT G1W = 2
CONSTANT G2W = 3
INVARIANT RoundTrip
INVARIANT CorruptRejected
INVARIANT IntExact
CHECK_DEADLOCK FALSE
