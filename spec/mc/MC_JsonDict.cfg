INIT Init
NEXT Next
CONSTANT Mode = "model"
CONSTANT Depth = 3
CONSTANT Variants = {1, 2, 3, 4}
CONSTANT LenW = 4
CONSTANT HashW = 2
CONSTANT G1W = 2
CONSTANT G2W = 3
INVARIANT RoundTrip
INVARIANT CorruptRejected
INVARIANT LocalIsGlobal
INVARIANT IntExact
CHECK_DEADLOCK FALSE
