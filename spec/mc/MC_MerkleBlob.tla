---------------------------- MODULE MC_MerkleBlob ----------------------------
(* C18 (M + G): every history of at most MaxOps calls over NK keys and NH    *)
(* leaf hashes (so duplicate keys AND duplicate hashes occur), batches of    *)
(* 0..MaxBatch items. TLC checks the invariants of MerkleBlob on every       *)
(* reachable state and emits, for every distinct (state, last call) pair,    *)
(* one history that reaches it; the harness replays the (prefix-closed) set  *)
(* of histories on a real MerkleBlob.                                        *)
(* Internal hashes are symbolic here: IH(l, r) = <<l, r>> is collision free  *)
(* by construction; leaf hash number j is <<HS[j]>> (a 1-tuple, so that leaf *)
(* and internal hashes never compare equal and never raise a type error).    *)
EXTENDS MerkleBlob, Json

CONSTANTS NK, NH, Spread, MaxOps, MaxBatch

SymIH(l, r) == <<l, r>>

HS == <<"a", "b", "c", "d", "e", "f", "g", "h">>
Key(i) == ToString(i)
Hash(j) == <<HS[j]>>
Val(i, j) == ToString(10 * i + j)
\* key i may be offered with hash j iff j is one of the Spread hashes starting at i (cyclically)
Pairs == {p \in (1..NK) \X (1..NH) : \E d \in 0..(Spread - 1) : p[2] = ((p[1] - 1 + d) % NH) + 1}
Item(p) == [key |-> Key(p[1]), val |-> Val(p[1], p[2]), h |-> Hash(p[2])]

Locs(t) == {[k |-> "auto"], [k |-> "root"], [k |-> "freed", side |-> 0]}
           \cup {[k |-> "index0", side |-> s] : s \in {0, 1}}
           \cup {[k |-> "leaf", key |-> x, side |-> s] : x \in KeysOf(t), s \in {0, 1}}
\* inserts with at most ONE reason to fail (duplicate key, duplicate hash, unusable location): each
\* reason is tried alone in every state that admits it; combinations add nothing
InsertViolations(t, op) == (IF op.key \in KeysOf(t) THEN 1 ELSE 0) + (IF op.h \in HashesOf(t) THEN 1 ELSE 0)
                           + (IF LocOk(t, op.loc) THEN 0 ELSE 1)
InsertOps(t) == {op \in {[k |-> "insert", key |-> Item(p).key, val |-> Item(p).val, h |-> Item(p).h, loc |-> l] : p \in Pairs, l \in Locs(t)} :
                   InsertViolations(t, op) <= 1}
UpsertOps == {[k |-> "upsert", key |-> Item(p).key, val |-> Item(p).val, h |-> Item(p).h] : p \in Pairs}
DeleteOps == {[k |-> "delete", key |-> Key(i)] : i \in 1..NK}
\* batches: item lists with non-decreasing keys and at most ONE violation of the guard (an item whose key,
\* or whose hash, is already in the tree or earlier in the list): every way of failing is tried once,
\* piles of simultaneous violations are not
BatchSeqs == UNION {{s \in [1..n -> Pairs] : \A i \in 1..(n - 1) : s[i][1] <= s[i + 1][1]} : n \in 0..MaxBatch}
Violations(t, s) ==
  Cardinality({i \in DOMAIN s : Key(s[i][1]) \in KeysOf(t) \/ \E j \in 1..(i - 1) : s[j][1] = s[i][1]})
  + Cardinality({i \in DOMAIN s : Hash(s[i][2]) \in HashesOf(t) \/ \E j \in 1..(i - 1) : s[j][2] = s[i][2]})
BatchOps(t) == {[k |-> "batch", items |-> [i \in DOMAIN s |-> Item(s[i])]] : s \in {x \in BatchSeqs : Violations(t, x) <= 1}}

VARIABLE hist
mcvars == <<tree, pm, last, hist>>

Init == MInit /\ hist = <<>>
\* Two kinds of states: "rest" states (last call forgotten: last.op.k = "rest"/"init") from which every
\* call of the menu is tried, and "result" states (tree, last call) whose only step is Forget.
\* Without this, each (tree, last call) pair would re-expand the whole menu.
AtRest == last.op.k \in {"init", "rest"}
Step(op) == AtRest /\ (Do(op) \/ Fail(op)) /\ hist' = Append(hist, op)
Forget == ~AtRest /\ last' = [op |-> [k |-> "rest"], ok |-> TRUE] /\ UNCHANGED <<tree, pm, hist>>
Insert == \E op \in InsertOps(tree) : Step(op)
Upsert == \E op \in UpsertOps : Step(op)
Delete == \E op \in DeleteOps : Step(op)
BatchInsert == \E op \in BatchOps(tree) : Step(op)
CalcLazyHashes == Step([k |-> "calc"])
Reload == Step([k |-> "reload"])
Next == Insert \/ Upsert \/ Delete \/ BatchInsert \/ CalcLazyHashes \/ Reload \/ Forget

Bound == Len(hist) <= MaxOps

\* the stale hash of a dirty node is never read: identify states that differ only there.
\* hist and pm (a function of tree, see RefinesMap) are hidden as well.
RECURSIVE MaskT(_)
MaskT(t) == IF t.t # "N" THEN t
            ELSE [t |-> "N", l |-> MaskT(t.l), r |-> MaskT(t.r), h |-> IF t.d THEN <<>> ELSE t.h, d |-> t.d]
View == <<MaskT(tree), last>>

FailedIsStutterMC == [][~last'.ok => tree' = tree /\ pm' = pm]_mcvars
ReloadEquivalentMC == [][last'.op.k = "reload" => last'.ok /\ tree' = tree /\ pm' = pm]_mcvars
\* a successful call never leaves the map it was asked to produce
OkMeansApplied == last.ok /\ last.op.k \in {"insert", "upsert"} => <<last.op.key, last.op.val>> \in KV(tree)

Emit == ~AtRest => PrintT(<<"CASE", ToJson([hist |-> hist, ok |-> last.ok, n |-> NLeaves(tree)])>>)
=============================================================================
