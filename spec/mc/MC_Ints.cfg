INIT Init
NEXT Next
CONSTANT MaxAtomLen = 10
INVARIANT CanonUnique
INVARIANT DecEnc
INVARIANT SanitizeClasses
INVARIANT SerLenLadder
INVARIANT Emit
CHECK_DEADLOCK FALSE
