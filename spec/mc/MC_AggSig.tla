------------------------------ MODULE MC_AggSig ------------------------------
(* C05 (M + G): bundles mixing the 8 AGG_SIG opcodes over coins whose amount *)
(* covers every encoding-length class. Invariants: every single-point        *)
(* tampering of the required list, of a coin attribute or of the domain      *)
(* constants yields a bag different from the required one (so rejection is   *)
(* implied by the rules); UNSAFE messages ending in a domain constant and    *)
(* invalid keys make the bundle invalid. Each bundle is emitted with its     *)
(* required list and the tampered lists; the harness signs them with real    *)
(* keys and the implementation must accept exactly the required one.         *)
EXTENDS AggSig, CondMenus, TLC, Json

Key1 == GenKey   \* public key of secret key 1
Key2 == <<165, 114, 203, 234, 144, 77, 103, 70, 136, 8, 200, 235, 80, 169, 69, 12, 151, 33, 219, 48, 145, 40, 1, 37, 67, 144, 45, 10,
          195, 88, 166, 42, 226, 143, 117, 187, 143, 28, 124, 66, 195, 154, 140, 85, 41, 191, 15, 78>>   \* secret key 2
Key3 == <<137, 236, 227, 8, 249, 209, 240, 19, 23, 101, 33, 45, 236, 169, 150, 151, 177, 18, 214, 31, 155, 233, 165, 241, 243, 120, 10, 81,
          51, 91, 63, 249, 129, 116, 122, 11, 44, 162, 23, 155, 150, 210, 192, 201, 2, 78, 82, 36>>     \* secret key 3

Amounts == {<<>>, <<1>>, <<127>>, <<0, 128>>, <<0, 255, 255>>, <<1, 0, 0, 0>>, <<0, 128, 0, 0, 0, 0>>, <<0, 255, 255, 255, 255, 255, 255, 255, 255>>}
Msgs == {<<>>, <<3>>, SubSeq(Doms.me, 1, 31)}
AggCond(op, k, m) == Cons(Op(op), L(<<Atom(k), Atom(m)>>))
QuoteP(conds) == Cons(A1, conds)

\* one spend with two AGG_SIG conditions (all opcode pairs), or two spends with one each
Picks == {<<"one", amt, o1, o2, m>> : amt \in Amounts, o1 \in 43..50, o2 \in 43..50, m \in Msgs}
         \cup {<<"two", amt, o1, o2>> : amt \in {<<>>, <<0, 128>>}, o1 \in 43..50, o2 \in 43..50}
         \cup {<<"bad", op, w>> : op \in 43..50, w \in {"inf", "badkey", "banned", "banned33", "pair"}}

MkSpend(parent, amt, conds) == LET p == QuoteP(conds) IN
  [parent |-> parent, ph |-> TreeHash(p), amt |-> Norm(amt), puzzle |-> p, solution |-> Nil, plen |-> SerLen(p), slen |-> 1]
SpendsOf(p) ==
  CASE p[1] = "one" -> <<MkSpend(P1, p[2], L(<<AggCond(p[3], Key1, p[5]), AggCond(p[4], Key2, <<3>>)>>))>>
    [] p[1] = "two" -> <<MkSpend(P1, p[2], L(<<AggCond(p[3], Key1, <<3>>)>>)), MkSpend(P2, <<0, 200>>, L(<<AggCond(p[4], Key1, <<3>>)>>))>>
    [] p[1] = "bad" -> <<MkSpend(P1, <<123>>, L(<<
           CASE p[3] = "inf" -> AggCond(p[2], InfKey, <<3>>)
             [] p[3] = "badkey" -> AggCond(p[2], BadKey, <<3>>)
             [] p[3] = "banned" -> AggCond(p[2], Key1, Doms.puzzle_amount)
             [] p[3] = "banned33" -> AggCond(p[2], Key1, <<9>> \o Doms.parent)
             [] p[3] = "pair" -> Cons(Op(p[2]), L(<<Atom(Key1), Cons(Atom(<<3>>), Nil)>>))>>))>>
FlagSeq(f) == LET RECURSIVE G(_)
                  G(S) == IF S = {} THEN <<>> ELSE LET x == CHOOSE x \in S : TRUE IN <<x>> \o G(S \ {x})
              IN G(f)
BigMax == <<2, 143, 166, 174, 0>>
EventOf(p, consts) == LET ss == SpendsOf(p) IN
  [spends |-> ss, flags |-> <<>>, max |-> BigMax, cpb |-> Of(12000), consts |-> consts, vk |-> <<Key1, Key2, Key3>>,
   runs |-> [i \in DOMAIN ss |-> [ok |-> TRUE, cost |-> <<20>>, res |-> ss[i].puzzle.r]]]

VARIABLES pick, phase
Init == pick \in Picks /\ phase = 0
Next == phase = 0 /\ phase' = 1 /\ UNCHANGED pick
E == EventOf(pick, Doms)
Req == RequiredPairs(E)

\* swapping the domain constants of two opcodes, or re-encoding the amount with a leading zero, changes what must be signed
SwappedDoms == [Doms EXCEPT !.me = Doms.parent, !.parent = Doms.me, !.puzzle = Doms.amount, !.amount = Doms.puzzle,
                            !.puzzle_amount = Doms.parent_amount, !.parent_amount = Doms.puzzle_amount, !.parent_puzzle = Doms.me]
Tampers ==
  IF Req = <<>> THEN {<<"extra", <<[pk |-> Key1, msg |-> <<1, 2, 3>>]>> >>}
  ELSE UNION {{<<"drop", DropAt(Req, i)>>, <<"dup", DupAt(Req, i)>>, <<"flip", FlipAt(Req, i)>>, <<"trunc", TruncAt(Req, i)>>,
               <<"key", KeyAt(Req, i, Key3)>>} : i \in DOMAIN Req}
       \cup {<<"extra", Append(Req, [pk |-> Key3, msg |-> <<9>>])>>}
       \* AGG_SIG_UNSAFE uses no domain constant, so swapping constants is a tampering only when another opcode is present
       \cup (IF (pick[1] \in {"one", "two"} /\ (pick[3] # 49 \/ pick[4] # 49)) THEN {<<"swapdoms", RequiredPairs(EventOf(pick, SwappedDoms))>>} ELSE {})

EveryTamperChangesTheBag == (phase = 1 /\ pick[1] # "bad" /\ BundleValid(E)) =>
  \A t \in Tampers : ~Verifies(t[2], TRUE, Req)
\* eight opcodes: the right attributes in the right order with the right constant (spot definition, independent of SignedText)
DomainSeparated == (phase = 1 /\ pick[1] = "one") =>
  LET s == E.spends[1] id == CoinIdOf(P1, s.ph, Enc(s.amt)) m == pick[5]
      expect(op) == CASE op = 50 -> m \o id \o Doms.me [] op = 43 -> m \o P1 \o Doms.parent [] op = 44 -> m \o s.ph \o Doms.puzzle
                      [] op = 45 -> m \o Enc(s.amt) \o Doms.amount [] op = 46 -> m \o s.ph \o Enc(s.amt) \o Doms.puzzle_amount
                      [] op = 47 -> m \o P1 \o Enc(s.amt) \o Doms.parent_amount [] op = 48 -> m \o P1 \o s.ph \o Doms.parent_puzzle [] op = 49 -> m
  IN BundleValid(E) => Req[1] = [pk |-> Key1, msg |-> expect(pick[3])]
BadIsInvalid == (phase = 1 /\ pick[1] = "bad") =>
  (BundleValid(E) <=> (pick[3] \in {"banned", "banned33"} /\ pick[2] # 49))
Emit == phase = 1 => PrintT(<<"CASE", ToJson([flags |-> <<>>, consts |-> Doms, required |-> Req,
          spends |-> [i \in DOMAIN E.spends |-> [parent |-> E.spends[i].parent, amt |-> E.spends[i].amt, puzzle |-> E.spends[i].puzzle, solution |-> Nil]],
          tampers |-> IF pick[1] = "bad" \/ ~BundleValid(E) THEN <<>>
                      ELSE LET T == Tampers
                               RECURSIVE G(_)
                               G(S) == IF S = {} THEN <<>> ELSE LET x == CHOOSE x \in S : TRUE IN <<[kind |-> x[1], signed |-> x[2]]>> \o G(S \ {x})
                           IN G(T)])>>)
=============================================================================
