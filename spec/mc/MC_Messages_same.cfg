INIT Init
NEXT Next
CONSTANT NSpends = 2
CONSTANT MaxConds = 3
CONSTANT Kind = "same"
CONSTANT Stricts = {TRUE}
INVARIANT BalIsCount
INVARIANT AcceptIffMatched
INVARIANT Confluent
INVARIANT ModeIsolation
INVARIANT CoinIdFormDistinct
INVARIANT ByteKeyInjective
INVARIANT NoOutsiders
INVARIANT ArgCountRule
INVARIANT Emit
CHECK_DEADLOCK FALSE
