INIT Init
NEXT Next
CONSTANT D = 2
CONSTANT EmbKind = "top"
CONSTANT MinSet = 0
CONSTANT MaxSet = 4
CONSTANT SoundMax = 4
CONSTANT ExhH = 2
CONSTANT GuidedH = 3
CONSTANT PermMax = 4
CONSTANT DupMax = 3
CONSTANT EmitCases = TRUE
INVARIANT Canonical
INVARIANT Complete
INVARIANT Sound
CHECK_DEADLOCK FALSE
