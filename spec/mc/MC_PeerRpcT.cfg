SPECIFICATION Spec
CONSTANT IdMod = 3
CONSTANT K = 2
CONSTANT NR = 2
CONSTANT Tys = {"respond_ses_info", "respond_removals", "reject_removals_request", "new_peak_wallet", "respond_children"}
CONSTANT BadTys = {"respond_removals", "new_peak_wallet"}
INVARIANT Inv
PROPERTY Once
CHECK_DEADLOCK FALSE
