--------------------------- MODULE MC_BlockBuilder ---------------------------
(* C10 (M + G): every interleaving of accepted and rejected adds over scaled  *)
(* constants (max block cost ~100, threshold 6, bundle sizes / costs 1..40),  *)
(* for both builders. The declared cost of an add is picked from a menu that  *)
(* is RELATIVE to the state: 0, the truthful cost, a large value and the      *)
(* values that land on =, -1, +1 of each of the three guards, so every        *)
(* frontier is hit in every reachable state. The serializer / interner are    *)
(* replaced by a deterministic toy: a bundle class compresses to `comp` bytes *)
(* once a bundle of its class is in the block (back references), and shares   *)
(* `shared` vbytes with every other bundle of its class (interning).          *)
(* G: with TrackHist the history (batch classes + menu label per add) is part *)
(* of the state and every finalized state is emitted as a replay case; the    *)
(* harness scales it up with real signed bundles and the same labels.         *)
EXTENDS BlockBuilder, TLC, Json

CONSTANTS Configs, ClassNames, MaxBatch, MaxAdds, Labels, TrackHist

\* bundle classes: n spends, plain / compressed bytes appended, isolated vbytes (+3 per spend), shared vbytes, truthful cost
Attr == [A |-> [n |-> 1, plain |-> 6,  comp |-> 3,  iso |-> 8,  shared |-> 4,  cost |-> 4],
         B |-> [n |-> 2, plain |-> 14, comp |-> 5,  iso |-> 18, shared |-> 9,  cost |-> 9],
         C |-> [n |-> 3, plain |-> 30, comp |-> 12, iso |-> 36, shared |-> 20, cost |-> 25],
         D |-> [n |-> 1, plain |-> 40, comp |-> 38, iso |-> 40, shared |-> 1,  cost |-> 1]]

RECURSIVE SeqsUpTo(_, _)
SeqsUpTo(S, k) == IF k = 0 THEN {<<>>} ELSE LET r == SeqsUpTo(S, k - 1) IN r \cup {Append(q, x) : q \in r, x \in S}
BatchShapes == SeqsUpTo(ClassNames, MaxBatch)

RECURSIVE SumOver(_, _)
SumOver(q, f) == IF q = <<>> THEN 0 ELSE Attr[q[1]][f] + SumOver(Tail(q), f)
RECURSIVE SpendIds(_)
SpendIds(q) == IF q = <<>> THEN <<>> ELSE [i \in 1..Attr[q[1]].n |-> <<q[1], i>>] \o SpendIds(Tail(q))
Batch(q) == [n |-> SumOver(q, "n"), plain |-> SumOver(q, "plain"), iso |-> SumOver(q, "iso"), spends |-> SpendIds(q),
             sigs |-> q, truthful |-> SumOver(q, "cost"), cls |-> q]

\* classes of the bundles of an accepted sequence
RECURSIVE ClassesOf(_)
ClassesOf(acc) == IF acc = <<>> THEN <<>> ELSE acc[1].b.cls \o ClassesOf(Tail(acc))
RangeOf(q) == {q[i] : i \in DOMAIN q}

\* toy serializer: bytes appended for the batch q when the classes in `seen` are already in the stream
RECURSIVE Appended(_, _)
Appended(q, seen) == IF q = <<>> THEN 0
                     ELSE (IF q[1] \in seen THEN Attr[q[1]].comp ELSE Attr[q[1]].plain) + Appended(Tail(q), seen \cup {q[1]})
RECURSIVE SharedOfSet(_)
SharedOfSet(S) == IF S = {} THEN 0 ELSE LET x == CHOOSE y \in S : TRUE IN Attr[x].shared + SharedOfSet(S \ {x})
\* toy interner: every bundle pays its private vbytes, every class present pays its shared part once,
\* and the wrapper shares its two atoms with the spends as soon as there is one
ExactVB(acc) == LET cs == ClassesOf(acc) IN
  (IF cs = <<>> THEN WrapperVB ELSE 6)
  + SumOver(cs, "iso") - SumOver(cs, "shared")
  + SharedOfSet(RangeOf(cs))

NewSize(c, st, b) == IF IsCompressed(c) THEN st.size + Appended(b.cls, RangeOf(ClassesOf(st.acc))) ELSE st.size + b.iso
ExactSize(c, st)  == IF IsCompressed(c) THEN st.size + ClosingBytes ELSE ExactVB(st.acc)

\* the declared cost behind a menu label, relative to the state (s = tentative size)
Declared(c, st, b, s, lbl) ==
  LET base == ByteCostOf(c, s) + WrapCost(c) + st.blockCost IN
  CASE lbl = "zero" -> 0
    [] lbl = "truthful" -> b.truthful
    [] lbl = "huge" -> c.max
    [] lbl = "pre-1" -> c.max - Est(c, st) - 1
    [] lbl = "pre0" -> c.max - Est(c, st)
    [] lbl = "pre+1" -> c.max - Est(c, st) + 1
    [] lbl = "fit-1" -> c.max - base - 1
    [] lbl = "fit0" -> c.max - base
    [] lbl = "fit+1" -> c.max - base + 1
    [] lbl = "near0" -> c.max - c.thr - base
    [] lbl = "near+1" -> c.max - c.thr - base + 1

\* constant menus for the .cfg files
CfgC1 == [kind |-> "compressed", max |-> 100, cpb |-> 1, thr |-> 6, skip |-> 2]
CfgI1 == [kind |-> "interned", max |-> 100, cpb |-> 1, thr |-> 6, skip |-> 2]
CfgC2 == [kind |-> "compressed", max |-> 120, cpb |-> 2, thr |-> 6, skip |-> 2]
CfgI2 == [kind |-> "interned", max |-> 120, cpb |-> 2, thr |-> 6, skip |-> 2]
ConfigsBoth == {CfgC1, CfgI1}
ConfigsAll  == {CfgC1, CfgI1, CfgC2, CfgI2}
LabelsAll   == {"zero", "truthful", "huge", "pre-1", "pre0", "pre+1", "fit-1", "fit0", "fit+1", "near0", "near+1"}
LabelsGen   == {"zero", "truthful", "pre0", "pre+1", "fit0", "fit+1", "near0", "near+1"}
ClassesABC  == {"A", "B", "C"}
ClassesAll  == {"A", "B", "C", "D"}
ClassesAB   == {"A", "C"}

VARIABLES nadds, hist
vars == <<bvars, nadds, hist>>

Init == /\ \E c \in Configs : BInit(c)
        /\ nadds = 0 /\ hist = <<>>

Step(q, lbl) ==
  LET b == Batch(q)
      s == NewSize(cfg, St, b)
      d == Declared(cfg, St, b, s, lbl) IN
  /\ d >= 0
  /\ AddAny(b, d, s)      \* = AddRejectFull \/ AddRejectDeclared \/ AddRejectAfter \/ AddAccept
  /\ nadds' = nadds + 1
  /\ hist' = IF TrackHist THEN Append(hist, [b |-> q, lbl |-> lbl, exit |-> last'.exit, d |-> d]) ELSE hist

Next == \/ /\ nadds < MaxAdds
           /\ \E q \in BatchShapes, lbl \in Labels : Step(q, lbl)
        \/ /\ Finalize(ExactSize(cfg, St)) /\ UNCHANGED <<nadds, hist>>

Spec == Init /\ [][Next]_vars

\* States are explored modulo this view: everything the future behaviour and the invariants depend on.
\* Of the accepted sequence only the sums, the truthfulness and the bag of bundle classes matter
\* (the toys are functions of the class bag), so histories that agree on them are merged.
RECURSIVE Declareds(_)
Declareds(acc) == IF acc = <<>> THEN <<>> ELSE <<acc[1].d>> \o Declareds(Tail(acc))
View == <<cfg, blockCost, byteCost, size, skipped, BagOfSeq(sigBag), phase, last, nadds, hist,
          Len(accepted), SumDeclared(accepted), AllTruthful(accepted), BagOfSeq(ClassesOf(accepted))>>

(* ---- assumptions checked by TLC at start-up ---- *)
ASSUME \A c \in Configs : ConfigOk(c)
\* the toys stay inside the envelopes of BlockBuilder.tla
ASSUME \A q \in BatchShapes, seen \in SUBSET ClassNames :
          IF q = <<>> THEN Appended(q, seen) = 0
          ELSE Appended(q, seen) >= 1 /\ Appended(q, seen) <= Batch(q).plain
\* the triangle inequality of interning holds for the toy interner on all short accepted sequences
ShortAccs == {[i \in DOMAIN qs |-> [b |-> Batch(qs[i]), d |-> 0]] : qs \in SeqsUpTo(BatchShapes, 2)}
ASSUME TriangleInequality(ExactVB, ShortAccs)

(* ---- invariants beyond those of BlockBuilder.tla ---- *)
\* the serializer size is a function of the accepted sequence (restore() undoes a rejected add completely)
RECURSIVE SizeOfAccepted(_, _, _)
SizeOfAccepted(acc, sz, seen) ==
  IF acc = <<>> THEN sz
  ELSE SizeOfAccepted(Tail(acc), sz + Appended(acc[1].b.cls, seen), seen \cup RangeOf(acc[1].b.cls))
CompressedSizeDetermined == IsCompressed(cfg) => size = SizeOfAccepted(accepted, InitSerSize, {})
\* the exact size the toy interner reports is inside FinalSizes (so Finalize is never blocked)
ExactInEnvelope == phase = "open" => ExactSize(cfg, St) \in FinalSizes(cfg, St)
\* a rejected add reports the exit the guards dictate and an accepted add never exceeds the limit
AcceptWithinLimit == (last.k = "add" /\ last.added) => Est(cfg, St) <= cfg.max
DoneMeansNoRoom == (last.k = "add" /\ last.added) => (last.done <=> Est(cfg, St) + cfg.thr > cfg.max)

\* the Done flag of a rejected attempt: always at the "full" exit, otherwise iff more than c.skip attempts were skipped
RejectDone == (last.k = "add" /\ ~last.added) =>
                 IF last.exit = "full" THEN last.done ELSE (last.done <=> skipped > cfg.skip)

Emit == (TrackHist /\ phase = "finalized") =>
          PrintT(<<"CASE", ToJson([kind |-> cfg.kind, steps |-> hist, cost |-> last.cost, exact |-> last.exact])>>)
=============================================================================
