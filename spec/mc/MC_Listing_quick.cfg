INIT Init
NEXT Next
CONSTANT MaxLen = 4
CONSTANT ListingSoftCap <- Cap3
CONSTANT ListingMaxAtom <- Atom4
INVARIANT ArgsBounded
INVARIANT OrderKept
INVARIANT HighPriorityComplete
INVARIANT LowPriorityCapped
INVARIANT BelowCapComplete
INVARIANT PrefixMonotone
INVARIANT LaxTail
CHECK_DEADLOCK FALSE
