CONSTANTS BlkMax = 200 Lens = {0, 1, 63, 64, 65} CloneLens = {0, 65} MaxUpd = 3 CloneMaxUpd = 2 MaxTot = 130 Modes = {"chunk", "clone"}
INIT Init
NEXT Next
INVARIANT ChunkingIrrelevant
INVARIANT BlockInv
INVARIANT ForkInv
INVARIANT Emit
CHECK_DEADLOCK FALSE
