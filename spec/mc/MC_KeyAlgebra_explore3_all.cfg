INIT Init
NEXT Next
CONSTANT Mode = "explore"
CONSTANT MaxTerms = 3
CONSTANT EmitBelow = 3
CONSTANT ChainLen = 1
CONSTANT Seeds = {"s1", "s2"}
CONSTANT Idx <- IdxAll
CONSTANT Hid = {"D", "DX", "H1"}
CONSTANT Msg = {"m1", "m2"}
INVARIANT Closed
INVARIANT Typed
INVARIANT CommuteDerive
INVARIANT CommuteSynthetic
INVARIANT CommuteAdd
INVARIANT SerIdentity
INVARIANT SignDeterministic
INVARIANT SignSeparates
INVARIANT PubInjective
INVARIANT HardenedFresh
INVARIANT IndexSeparates

INVARIANT Emit
CHECK_DEADLOCK FALSE
