INIT Init
NEXT Next
CONSTANT Mode = "gen"
CONSTANT Depth = 2
CONSTANT Variants = {2, 3, 4}
CONSTANT LenW = 4
CONSTANT HashW = 32
CONSTANT G1W = 48
CONSTANT G2W = 96
INVARIANT RoundTrip
INVARIANT CorruptRejected
INVARIANT Emit
CHECK_DEADLOCK FALSE
