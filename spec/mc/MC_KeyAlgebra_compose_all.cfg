INIT Init
NEXT Next
CONSTANT Mode = "compose"
CONSTANT MaxTerms = 0
CONSTANT EmitBelow = 0
CONSTANT ChainLen = 3
CONSTANT Seeds = {"s1", "s2"}
CONSTANT Idx <- IdxAll
CONSTANT Hid = {"D", "DX", "H1"}
CONSTANT Msg = {"m1"}
INVARIANT Closed
INVARIANT Typed
INVARIANT CommuteDerive
INVARIANT CommuteSynthetic
INVARIANT CommuteAdd
INVARIANT SerIdentity
INVARIANT SignDeterministic
INVARIANT SignSeparates
INVARIANT PubInjective
INVARIANT HardenedFresh
INVARIANT IndexSeparates

INVARIANT Emit
CHECK_DEADLOCK FALSE
