INIT Init
NEXT Next
CONSTANT Ns = {0, 1, 3, 32, 64, 255}
CONSTANT Wide = TRUE
INVARIANT DivisionLemma
INVARIANT IntervalExact
INVARIANT SpBounds
INVARIANT IpBounds
INVARIANT WrapOnce
INVARIANT OverflowOrder
INVARIANT TotalSplit
INVARIANT SpTotalSplit
INVARIANT OverflowShift
INVARIANT SpBeforeIp
INVARIANT Definedness
INVARIANT ChallengeBlock
INVARIANT Emit
CHECK_DEADLOCK FALSE
