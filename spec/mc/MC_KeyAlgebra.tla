--------------------------- MODULE MC_KeyAlgebra ---------------------------
(* C16 part A (M + G). State = a subterm-closed set of key terms (a store   *)
(* of named keys without the irrelevant order of independent operations).   *)
(* Next adds one operation applied to keys of the store. The laws of the    *)
(* algebra are invariants over every reachable store; every maximal store   *)
(* (and every small one) is emitted as a replay case together with the      *)
(* equality relation the algebra predicts among its values.                 *)
(*  Mode "explore": base {seed, pub(seed)} for every seed, all stores with  *)
(*                  up to MaxTerms further operations.                      *)
(*  Mode "compose": Init = a commuting diagram for a chain of ChainLen      *)
(*                  unary sk operations and its public-key mirror.          *)
(*  Mode "paths":   Init = a documented path helper next to the iterated    *)
(*                  derivation it stands for.                               *)
EXTENDS KeyAlgebra, Json

CONSTANTS Mode, MaxTerms, EmitBelow, ChainLen, Seeds, Idx, Hid, Msg

IdxAll   == {<<>>, <<1>>, <<128, 0, 0, 0>>, <<255, 255, 255, 255>>}      \* 0, 1, 2^31, 2^32-1
IdxQuick == {<<1>>, <<128, 0, 0, 0>>}
IdxOne   == {<<128, 0, 0, 0>>}
IdxTwo   == {<<>>, <<1>>, <<128, 0, 0, 0>>}
PoolIdx  == {<<>>, <<1>>, <<39, 15>>}                                     \* 0, 1, 9999

RECURSIVE KindT(_)
KindT(t) == IF t.op \in {"seed", "dsk", "hard", "addsk", "synsk", "wu_sk", "wui_sk", "wh", "whi", "ps", "pa"} THEN "sk"
            ELSE IF t.op \in {"pub", "dpk", "addpk", "synpk", "wu_pk", "wui_pk"} THEN "pk"
            ELSE IF t.op = "sign" THEN "sig"
            ELSE KindT(t.a)
SkT(S) == {t \in S : KindT(t) = "sk"}
PkT(S) == {t \in S : KindT(t) = "pk"}

SeedT(s) == T0("seed", s)
PubT(a) == T1("pub", a, "", <<>>)
Dsk(a, n) == T1("dsk", a, "", n)
Dpk(a, n) == T1("dpk", a, "", n)
Hard(a, n) == T1("hard", a, "", n)
SynSk(a, h) == T1("synsk", a, h, <<>>)
SynPk(a, h) == T1("synpk", a, h, <<>>)
SignT(a, m) == T1("sign", a, m, <<>>)
SerT(a) == T1("ser", a, "", <<>>)
AddSk(a, b) == T2("addsk", a, b)
AddPk(a, b) == T2("addpk", a, b)

Candidates(S) ==
  LET sk == SkT(S) pk == PkT(S) IN
  {Dsk(a, n) : a \in sk, n \in Idx} \cup {Hard(a, n) : a \in sk, n \in Idx}
  \cup {PubT(a) : a \in sk} \cup {SynSk(a, h) : a \in sk, h \in Hid} \cup {SignT(a, m) : a \in sk, m \in Msg}
  \cup {AddSk(a, b) : a \in sk, b \in sk}
  \cup {Dpk(a, n) : a \in pk, n \in Idx} \cup {SynPk(a, h) : a \in pk, h \in Hid}
  \cup {AddPk(a, b) : a \in pk, b \in pk}
  \cup {SerT(a) : a \in S}

Base == {SeedT(s) : s \in Seeds} \cup {PubT(SeedT(s)) : s \in Seeds}

\* ---- compose: a chain of unary secret-key operations and its mirror on public keys
S1 == SeedT("s1")
S2 == SeedT("s2")
ChainOps == {[c |-> "d", x |-> "", n |-> n] : n \in Idx} \cup {[c |-> "s", x |-> h, n |-> <<>>] : h \in Hid}
            \cup {[c |-> "a2", x |-> "", n |-> <<>>], [c |-> "aself", x |-> "", n |-> <<>>], [c |-> "ser", x |-> "", n |-> <<>>]}
StepSk(t, o) == CASE o.c = "d" -> Dsk(t, o.n) [] o.c = "s" -> SynSk(t, o.x) [] o.c = "a2" -> AddSk(t, S2)
                  [] o.c = "aself" -> AddSk(t, t) [] o.c = "ser" -> SerT(t)
StepPk(t, o) == CASE o.c = "d" -> Dpk(t, o.n) [] o.c = "s" -> SynPk(t, o.x) [] o.c = "a2" -> AddPk(t, PubT(S2))
                  [] o.c = "aself" -> AddPk(t, t) [] o.c = "ser" -> SerT(t)
RECURSIVE ChainSk(_, _)
ChainSk(ch, k) == IF k = 0 THEN S1 ELSE StepSk(ChainSk(ch, k - 1), ch[k])
RECURSIVE ChainPk(_, _)
ChainPk(ch, k) == IF k = 0 THEN PubT(S1) ELSE StepPk(ChainPk(ch, k - 1), ch[k])
RECURSIVE Subterms(_)
Subterms(t) == IF t.op = "nil" THEN {} ELSE {t} \cup Subterms(t.a) \cup Subterms(t.b)
Closure(X) == UNION {Subterms(t) : t \in X}
Diagram(ch) == LET L == Len(ch) top == ChainSk(ch, L) IN
  Closure({PubT(top), ChainPk(ch, L), SignT(top, "m1"), SignT(SerT(top), "m1")})
Chains == UNION {[1..L -> ChainOps] : L \in 1..ChainLen}

\* ---- paths: helper next to the iterated derivation
It(v, path, hardened) == LET RECURSIVE G(_, _)
                             G(w, p) == IF p = <<>> THEN w
                                        ELSE G(IF hardened THEN Hard(w, p[1]) ELSE (IF KindT(w) = "sk" THEN Dsk(w, p[1]) ELSE Dpk(w, p[1])), Tail(p))
                         IN G(v, path)
PathDiagrams ==
  {Subterms(T1("wu_sk", S1, "", n)) \cup Subterms(It(S1, <<I12381, I8444, I2, n>>, FALSE))
     \cup Subterms(T1("wu_pk", PubT(S1), "", n)) \cup Subterms(It(PubT(S1), <<I12381, I8444, I2, n>>, FALSE))
     \cup {PubT(T1("wu_sk", S1, "", n)), Dsk(T1("wui_sk", S1, "", <<>>), n), Dpk(T1("wui_pk", PubT(S1), "", <<>>), n)} : n \in Idx}
  \cup {Subterms(T1("wui_sk", S1, "", <<>>)) \cup Subterms(It(S1, <<I12381, I8444, I2>>, FALSE))
     \cup Subterms(T1("wui_pk", PubT(S1), "", <<>>)) \cup Subterms(It(PubT(S1), <<I12381, I8444, I2>>, FALSE))
     \cup {PubT(T1("wui_sk", S1, "", <<>>))}}
  \cup {Subterms(T1("wh", S1, "", n)) \cup Subterms(It(S1, <<I12381, I8444, I2, n>>, TRUE))
     \cup {Hard(T1("whi", S1, "", <<>>), n), T1("wu_sk", S1, "", n), T1("ps", S1, "", n)} : n \in Idx}
  \cup {Subterms(T1("whi", S1, "", <<>>)) \cup Subterms(It(S1, <<I12381, I8444, I2>>, TRUE)) \cup {T1("wui_sk", S1, "", <<>>)}}
  \cup {Subterms(T1("ps", S1, "", n)) \cup Subterms(It(S1, <<I12381, I8444, I5, n>>, TRUE)) : n \in Idx}
  \cup {Subterms(T1b("pa", S1, pw, i)) \cup Subterms(It(S1, <<I12381, I8444, I6, PoolAuthIndex(pw, i)>>, TRUE))
     \cup {T1b("pa", S1, i, pw)} : pw \in PoolIdx, i \in PoolIdx}

\* further diagrams whose point is a predicted DIFFERENCE (the tweak depends on the parent key, hardened children
\* are unrelated to unhardened ones, derivation steps do not commute with each other, messages separate signatures)
CrossDiagrams ==
  {{AddSk(Dsk(S1, n), S2), AddSk(S1, Dsk(S2, n)), AddPk(Dpk(PubT(S1), n), PubT(S2)), AddPk(PubT(S1), Dpk(PubT(S2), n)),
    PubT(AddSk(Dsk(S1, n), S2)), PubT(AddSk(S1, Dsk(S2, n)))} : n \in Idx}
  \cup {{AddSk(SynSk(S1, h), S2), AddSk(S1, SynSk(S2, h)), AddPk(SynPk(PubT(S1), h), PubT(S2)), AddPk(PubT(S1), SynPk(PubT(S2), h)),
    PubT(AddSk(SynSk(S1, h), S2)), SynSk(S1, "H2"), SynPk(PubT(S1), "DX")} : h \in Hid}
  \cup {{Hard(S1, n), Dsk(S1, n), PubT(Hard(S1, n)), Dpk(PubT(S1), n), Hard(S2, n), Hard(Hard(S1, n), n), Hard(SerT(S1), n)} : n \in Idx}
  \cup {{Dsk(Dsk(S1, n), m), Dsk(Dsk(S1, m), n), Dpk(Dpk(PubT(S1), n), m), Dpk(Dpk(PubT(S1), m), n), SynSk(Dsk(S1, n), "D"), Dsk(SynSk(S1, "D"), n),
    SynPk(Dpk(PubT(S1), n), "D")} : n \in Idx, m \in Idx}
  \cup {{SignT(S1, "m1"), SignT(S1, "m2"), SignT(S2, "m1"), SignT(AddSk(S1, S2), "m1"), SignT(AddSk(S2, S1), "m1"), SerT(SignT(S1, "m1")),
    SignT(Dsk(S1, <<1>>), "m1"), SerT(PubT(S1)), SerT(S1)}}

VARIABLES S, phase
Init == /\ CASE Mode = "explore" -> S = Base
             [] Mode = "compose" -> \E ch \in Chains : S = Diagram(ch)
             [] Mode = "paths" -> \E D \in PathDiagrams \cup CrossDiagrams : S = Closure(D)
        /\ phase = IF Mode = "explore" THEN 1 ELSE 0
Extra == IF Mode = "explore" THEN Cardinality(S) - Cardinality(Base) ELSE 0
InitSize == Cardinality(S)
\* (the laws of non-explore modes are evaluated in the successor state so that TLC's workers share the work)
Next == \/ /\ Mode = "explore"
           /\ Extra < MaxTerms
           /\ \E t \in Candidates(S) \ S : S' = S \cup {t}
           /\ UNCHANGED phase
        \/ phase = 0 /\ phase' = 1 /\ UNCHANGED S

\* ------------------------------------------------------------ theorems --
Closed == phase = 0 \/ \A t \in S : t.a \in S \cup {NilT} /\ t.b \in S \cup {NilT}
Typed == phase = 0 \/ \A t \in S : WellTyped(t.op, NF(t.a), NF(t.b))
\* Pub o DeriveSk = DerivePk o Pub
CommuteDerive == phase = 0 \/ \A a \in SkT(S), n \in Idx : NF(PubT(Dsk(a, n))) = NF(Dpk(PubT(a), n))
\* Pub o Synthetic = Synthetic o Pub
CommuteSynthetic == phase = 0 \/ \A a \in SkT(S), h \in Hid : NF(PubT(SynSk(a, h))) = NF(SynPk(PubT(a), h))
\* Pub(a + b) = Pub(a) + Pub(b); addition is commutative
CommuteAdd == phase = 0 \/ \A a, b \in SkT(S) : /\ NF(PubT(AddSk(a, b))) = NF(AddPk(PubT(a), PubT(b)))
                                   /\ NF(AddSk(a, b)) = NF(AddSk(b, a))
\* serialise / parse is the identity; signing is a function of (key value, message)
SerIdentity == phase = 0 \/ \A t \in S : NF(SerT(t)) = NF(t)
SignDeterministic == phase = 0 \/ \A a, b \in SkT(S), m \in Msg : NF(a) = NF(b) => NF(SignT(a, m)) = NF(SignT(b, m))
SignSeparates == phase = 0 \/ \A a, b \in SkT(S), m1, m2 \in Msg : NF(SignT(a, m1)) = NF(SignT(b, m2)) => NF(a) = NF(b) /\ m1 = m2
\* taking the public key loses nothing; hardened children are unrelated to unhardened ones
PubInjective == phase = 0 \/ \A a, b \in SkT(S) : NF(PubT(a)) = NF(PubT(b)) => NF(a) = NF(b)
HardenedFresh == phase = 0 \/ \A a \in SkT(S), n \in Idx : NF(Hard(a, n)) # NF(Dsk(a, n)) /\ NF(PubT(Hard(a, n))) # NF(Dpk(PubT(a), n))
IndexSeparates == phase = 0 \/ \A a \in SkT(S), n, m \in Idx : n # m => NF(Dsk(a, n)) # NF(Dsk(a, m))
\* the path helpers are iterated derivation with the documented constants and commute with Pub
PathLaw == phase = 0 \/ \A a \in SkT(S), n \in Idx :
  /\ NF(T1("wu_sk", a, "", n)) = NF(Dsk(Dsk(Dsk(Dsk(a, I12381), I8444), I2), n))
  /\ NF(PubT(T1("wu_sk", a, "", n))) = NF(T1("wu_pk", PubT(a), "", n))
  /\ NF(T1("wu_sk", a, "", n)) = NF(Dsk(T1("wui_sk", a, "", <<>>), n))
  /\ NF(T1("wh", a, "", n)) = NF(Hard(Hard(Hard(Hard(a, I12381), I8444), I2), n))
  /\ NF(T1("ps", a, "", n)) = NF(Hard(Hard(Hard(Hard(a, I12381), I8444), I5), n))
  /\ NF(T1("wh", a, "", n)) # NF(T1("ps", a, "", n))
PoolAuthLaw == phase = 0 \/ \A a \in SkT(S), pw, i \in PoolIdx :
  NF(T1b("pa", a, pw, i)) = NF(Hard(Hard(Hard(Hard(a, I12381), I8444), I6), Add(MulSmall(pw, 10000), i)))

\* ----------------------------------------------------------- emission --
SetToSeq(X) == LET RECURSIVE G(_)
                   G(Y) == IF Y = {} THEN <<>> ELSE LET y == CHOOSE y \in Y : TRUE IN <<y>> \o G(Y \ {y})
               IN G(X)
\* a store is interesting when two different routes (not merely a serialisation round trip) meet
Interesting == \E t, u \in S : t # u /\ t.op # "ser" /\ u.op # "ser" /\ NF(t) = NF(u)
Final == phase = 1 /\ (IF Mode = "explore" THEN Extra = MaxTerms \/ Extra < EmitBelow ELSE TRUE)
Emit == (Final /\ (Interesting \/ Extra < EmitBelow \/ Mode # "explore")) =>
  LET seq == SetToSeq(S)
      vals == [i \in DOMAIN seq |-> NF(seq[i])]
  IN PrintT(<<"CASE", ToJson([k |-> "terms", mode |-> Mode, terms |-> seq, cls |-> Classes(vals)])>>)
=============================================================================
