SPECIFICATION Spec
VIEW View
CONSTANT Configs <- ConfigsBoth
CONSTANT ClassNames <- ClassesAB
CONSTANT Labels <- LabelsGen
CONSTANT MaxBatch = 1
CONSTANT MaxAdds = 3
CONSTANT TrackHist = TRUE
PROPERTY AllOrNothing
INVARIANT EstimateUpper
INVARIANT StaleGap
INVARIANT WithinLimit
INVARIANT FinalizeEnabled
INVARIANT OutputIsAccepted
INVARIANT SigIsAggregate
INVARIANT CostIsConsensus
INVARIANT LaterOutputUnaffected
INVARIANT CompressedSizeDetermined
INVARIANT ExactInEnvelope
INVARIANT AcceptWithinLimit
INVARIANT DoneMeansNoRoom
INVARIANT RejectDone
CHECK_DEADLOCK FALSE
INVARIANT Emit
