---------------------------- MODULE MC_GenShape ----------------------------
(* M + G for the generator family (C07 / C09, and C02 / C04 at block level): *)
(* every output shape over a structural menu is pushed through the native   *)
(* path of Generator.tla; invariants of accepted blocks are checked and     *)
(* each shape is emitted as a replay case (the harness wraps it as          *)
(* (q . out), serialises it plainly and with back-references, and runs      *)
(* BOTH execution paths and the trusted helpers on it).                     *)
(* Puzzles are restricted to the two whose CLVM behaviour is fixed by       *)
(* definition: (q . X) returns X at cost 20; (x) raises.                    *)
EXTENDS Generator, CondMenus, TLC, Json

CONSTANT Depth      \* 1 = one spend per output, 2 = up to two

QuoteP(conds) == Cons(A1, conds)
RaiseP == L(<<Atom(<<8>>)>>)
OracleRun(puzzle) == IF puzzle = RaiseP \/ IsAtom(puzzle) \/ puzzle.l # A1 THEN [ok |-> FALSE, cost |-> Zero, res |-> Nil]
                     ELSE [ok |-> TRUE, cost |-> <<20>>, res |-> puzzle.r]

\* shapes that matter to the raw condition listing of the trusted helper (opcode forms, argument selection, long atoms)
ListingLists ==
  {L(<<Cons(Atom(<<0, 51>>), L(<<Atom(Z2), Atom(<<7>>)>>)), Cons(Op(51), L(<<Atom(Z2), Atom(<<7>>)>>))>>),       \* non-canonical opcode next to a real one
   L(<<Cons(Nil, L(<<Atom(<<5>>)>>)), Cons(Atom(<<3, 255, 255, 255>>), L(<<Atom(<<5>>)>>)), Cons(Atom(<<4, 0, 0, 0>>), L(<<Atom(<<6>>)>>))>>),
   L(<<Cons(Atom(<<128>>), Nil), Cons(Atom(<<0, 128>>), L(<<Atom(<<1>>)>>)), Cons(Atom(<<1, 0, 0, 0, 0>>), Nil)>>),
   L(<<Cons(Op(1), L(<<Atom(<<1>>), Atom(<<2>>), Atom(<<3>>), Atom(<<4>>), Atom(<<5>>), Atom(<<6>>), Atom(<<7>>), Atom(<<8>>)>>))>>),
   L(<<Cons(Op(1), L(<<L(<<Atom(<<9>>)>>), Atom(<<1>>), L(<<Nil>>), Atom(<<2>>), Atom(<<3>>), Atom(<<4>>), Atom(<<5>>), Atom(<<6>>), Atom(Bytes(1024, 7))>>))>>),
   L(<<Cons(Op(1), L(<<Atom(<<1>>), Atom(Bytes(1024, 7))>>)), Cons(Op(1), L(<<Atom(Bytes(1023, 7))>>))>>),
   L(<<Cons(Op(1), Atom(<<9>>)), Cons(Op(1), ListWithTail(<<Atom(<<1>>)>>, Atom(<<2>>)))>>),
   L(<<Cons(Op(51), L(<<Atom(Z2), Atom(<<7>>), L(<<Atom(H5)>>), Atom(<<1>>), Atom(<<2>>), Atom(<<3>>), Atom(<<4>>), Atom(<<5>>)>>))>>),
   L(<<Cons(Op(51), L(<<Atom(Z2), Atom(<<100>>)>>)), Cons(Op(50), L(<<Atom(GenKey), Atom(<<1, 2, 3>>)>>)), Cons(Op(50), L(<<Atom(GenKey), Atom(<<1, 2, 3>>)>>))>>)}

\* condition lists with the hint / memo shapes that matter to the trusted helpers
CondLists == {Nil,
              L(<<Cons(Op(51), L(<<Atom(Z2), Atom(<<7>>)>>))>>),
              L(<<Cons(Op(51), L(<<Atom(Z2), Atom(<<7>>), L(<<Atom(H5)>>)>>))>>),
              L(<<Cons(Op(51), L(<<Atom(Z2), Atom(<<7>>), L(<<Nil>>)>>))>>),                      \* empty first memo
              L(<<Cons(Op(51), L(<<Atom(Z2), Atom(<<7>>), L(<<Atom(Bytes(33, 4))>>)>>))>>),
              L(<<Cons(Op(51), L(<<Atom(Z2), Atom(<<7>>), L(<<Atom(<<1, 2>>), Atom(H5)>>)>>))>>),
              L(<<Cons(Op(51), L(<<Atom(Z2), Atom(<<7>>), L(<<L(<<Atom(H5)>>)>>)>>))>>),          \* pair memo
              L(<<Cons(Op(51), L(<<Atom(Z2), Atom(<<7>>), Atom(H5)>>))>>),                        \* non-list memos
              L(<<Cons(Op(51), L(<<Atom(Z2), Atom(<<7>>), Cons(Atom(H5), A1)>>))>>),
              L(<<Cons(Op(51), ListWithTail(<<Atom(Z2), Atom(<<7>>), L(<<Atom(H5)>>)>>, A1))>>),
              L(<<Cons(Op(51), L(<<Atom(Z2), Atom(<<0, 128>>)>>)), Cons(Op(51), L(<<Atom(H5), Atom(<<>>)>>))>>),
              L(<<Cons(Op(51), L(<<Atom(Z2), Atom(<<0, 7>>)>>))>>),                               \* non-canonical amount
              L(<<Cons(Op(51), L(<<Atom(Z2), Atom(<<7>>)>>)), Cons(Op(51), L(<<Atom(Z2), Atom(<<7>>), L(<<Atom(H5)>>)>>))>>),  \* duplicate output
              L(<<Cons(Atom(<<42>>), Nil), Cons(Op(51), L(<<Atom(Z2), Atom(<<1>>)>>))>>),
              L(<<Cons(Cons(Op(51), Nil), Nil), Cons(Op(1), Nil)>>),                              \* pair opcode
              L(<<Cons(Op(73), L(<<Atom(<<123>>)>>)), Cons(Op(60), L(<<Atom(<<3>>)>>))>>),
              L(<<Cons(Op(82), L(<<Atom(<<5>>)>>)), Cons(Op(52), L(<<Atom(<<100>>)>>))>>),
              ListWithTail(<<Cons(Op(1), Nil)>>, A1), A1, L(<<A1>>)}
             \cup ListingLists

Puzzles == {QuoteP(c) : c \in CondLists} \cup {RaiseP, A1, Nil}
Amounts == {<<123>>, <<>>, <<0, 128>>, <<0, 123>>, <<128>>, <<0, 255, 255, 255, 255, 255, 255, 255, 255>>, <<1, 0, 0, 0, 0, 0, 0, 0, 0>>}
Parents == {Atom(P1), Atom(Bytes(31, 1)), Atom(Bytes(33, 1)), Cons(Atom(P1), Nil), Nil}

GoodSpend(puz) == L(<<Atom(P1), puz, Atom(<<123>>), Nil>>)
SpendShapes ==
  {GoodSpend(p) : p \in Puzzles}
  \cup {L(<<par, QuoteP(Nil), Atom(<<123>>), Nil>>) : par \in Parents}
  \cup {L(<<Atom(P1), QuoteP(Nil), Atom(a), Nil>>) : a \in Amounts}
  \cup {L(<<Atom(P1), QuoteP(Nil), Cons(Atom(<<123>>), Nil), Nil>>)}
  \* arity 0..5 and tails
  \cup {Nil, A1, L(<<Atom(P1)>>), L(<<Atom(P1), QuoteP(Nil)>>), L(<<Atom(P1), QuoteP(Nil), Atom(<<123>>)>>),
        ListWithTail(<<Atom(P1), QuoteP(Nil), Atom(<<123>>)>>, A1),
        L(<<Atom(P1), QuoteP(Nil), Atom(<<123>>), Nil, Extra>>), ListWithTail(<<Atom(P1), QuoteP(Nil), Atom(<<123>>), Nil>>, A1),
        ListWithTail(<<Atom(P1), QuoteP(L(<<Cons(Op(51), L(<<Atom(Z2), Atom(<<7>>), L(<<Atom(H5)>>)>>))>>)), Atom(<<123>>), Nil>>, Atom(<<9, 9>>)),
        L(<<Atom(P1), QuoteP(Nil), Atom(<<123>>), Atom(<<7, 7>>)>>)}
Second == {L(<<Atom(P2), QuoteP(Nil), Atom(<<0, 200>>), Nil>>),
           L(<<Atom(P1), QuoteP(Nil), Atom(<<123>>), Nil>>),                               \* possible double spend
           L(<<Atom(P2), QuoteP(L(<<Cons(Op(61), L(<<Atom(H6)>>))>>)), Atom(<<0, 200>>), Nil>>),
           L(<<Atom(P2), RaiseP, Atom(<<0, 200>>), Nil>>)}

Outer == {"proper", "ext", "atomtail", "bare", "atom"}
Term == {Nil, A1}
FlagSets == {{}, {"SIMPLE_GENERATOR"}, {"COST_CONDITIONS"}, {"INTERNED_GENERATOR"}, {"SIMPLE_GENERATOR", "INTERNED_GENERATOR", "COST_CONDITIONS", "LIMIT_SPENDS"},
             {"NO_UNKNOWN_CONDS", "STRICT_ARGS_COUNT", "LIMIT_SPENDS"}}

\* reference-selecting generators: the first spend's parent is block reference k of nr (distinct 32-byte references)
RefTails == {L(<<QuoteP(Nil), Atom(<<123>>), Nil>>),
             L(<<QuoteP(L(<<Cons(Op(51), L(<<Atom(Z2), Atom(<<7>>), L(<<Atom(H5)>>)>>))>>)), Atom(<<123>>), Nil>>)}
RefOthers == {Nil, L(<<L(<<Atom(P2), QuoteP(Nil), Atom(<<0, 200>>), Nil>>)>>)}
RefsOf(nr) == [i \in 1..nr |-> H(160 + i)]
RefPicks == {<<"refsel", rt, ro, f, nr, k>> : rt \in RefTails, ro \in RefOthers, f \in FlagSets, nr \in 1..3, k \in 0..3}

Picks == {<<"one", s, t, o, f, nr>> : s \in SpendShapes, t \in Term, o \in Outer, f \in FlagSets, nr \in {0, 1}}
         \cup RefPicks
         \cup (IF Depth >= 2 THEN {<<"two", s, s2, f>> : s \in SpendShapes, s2 \in Second, f \in FlagSets} ELSE {})
         \cup {<<"none", t, o, f>> : t \in Term, o \in Outer, f \in FlagSets}

IsRef(p) == p[1] = "refsel"
RefProg(p) == RefSelProg(p[6], p[2], p[3], Nil)
SpendListOf(p) == CASE p[1] = "one" -> ListWithTail(<<p[2]>>, p[3]) [] p[1] = "two" -> L(<<p[2], p[3]>>) [] p[1] = "none" -> p[2]
OuterOf(p) == IF p[1] = "two" THEN "proper" ELSE IF p[1] = "one" THEN p[4] ELSE p[3]
OutOf(p) == IF IsRef(p) THEN RefSelRun(RefProg(p), p[6], RefsOf(p[5]), "SIMPLE_GENERATOR" \in p[4]).res ELSE
            LET sl == SpendListOf(p) o == OuterOf(p) IN
            CASE o = "proper" -> L(<<sl>>) [] o = "ext" -> L(<<sl, Extra>>) [] o = "atomtail" -> Cons(sl, A1) [] o = "bare" -> sl [] o = "atom" -> A1
FlagsOf(p) == (IF p[1] = "one" THEN p[5] ELSE p[4]) \cup {"DONT_VALIDATE_SIGNATURE"}
NRefs(p) == IF p[1] = "one" THEN p[6] ELSE IF p[1] = "refsel" THEN p[5] ELSE 0

FlagSeq(f) == LET RECURSIVE G(_)
                  G(S) == IF S = {} THEN <<>> ELSE LET x == CHOOSE x \in S : TRUE IN <<x>> \o G(S \ {x})
              IN G(f)
BigMax == <<2, 143, 166, 174, 0>>
\* the event the harness would log for this pick, with the oracle answers fixed by definition
EventOf(p) ==
  LET out == OutOf(p)
      prog == IF IsRef(p) THEN RefProg(p) ELSE Cons(A1, out)
      genok == IF IsRef(p) THEN RefSelRun(RefProg(p), p[6], RefsOf(p[5]), "SIMPLE_GENERATOR" \in p[4]).ok ELSE TRUE
      items == IF IsPair(out) THEN Elems(out.l) ELSE <<>>
  IN [prog |-> prog, prog_len |-> SerLen(prog), prefix |-> SubSeq(Ser(prog), 1, 2), nrefs |-> NRefs(p), flags |-> FlagSeq(FlagsOf(p)),
      max |-> BigMax, cpb |-> Of(12000), consts |-> Doms, vk |-> <<GenKey>>,
      genrun |-> [ok |-> genok, cost |-> <<20>>, res |-> out],
      runs |-> [i \in DOMAIN items |-> IF HasItems(items[i], 4) THEN OracleRun(items[i].r.l) ELSE [ok |-> FALSE, cost |-> Zero, res |-> Nil]]]

VARIABLES pick, phase
Init == pick \in Picks /\ phase = 0
Next == phase = 0 /\ phase' = 1 /\ UNCHANGED pick

Res == Native(EventOf(pick))
\* invariants of accepted blocks
AcceptedBlockOk == (phase = 1 /\ Res.ok) =>
  LET st == Res.st IN
  /\ Le(Add(st.ret.add, st.ret.fee), st.ret.rem)
  /\ \A i, j \in DOMAIN st.ret.spends : i # j => st.ret.spends[i].id # st.ret.spends[j].id
  /\ \A i \in DOMAIN st.ret.spends : st.ret.spends[i].ph = Res.phs[i]
  /\ Res.cost = Add(Add(BaseCost(EventOf(pick), FlagsOf(pick)), Res.ecost), st.ret.ccost)
  /\ Le(Res.cost, BigMax)
  \* the trusted view is well defined: one addition per created coin
  /\ Cardinality(ExpectedAdditions(st)) <= NumAdditions(st)
  \* the raw condition listing of the trusted helper contains exactly the validated created coins / AGG_SIG_ME of each spend
  /\ \A i \in DOMAIN st.ret.spends : ListingCoversValidated(ListingOfConds(EventOf(pick).runs[i].res), st.ret.spends[i])
\* reference k beyond the list walks off its end: the generator raises and both paths must reject
RefSelOk == (phase = 1 /\ IsRef(pick)) =>
  /\ IsRefSelProg(RefProg(pick))
  /\ (pick[6] >= pick[5] \/ "SIMPLE_GENERATOR" \in pick[4]) => ~Res.ok
  /\ (Res.ok => Res.st.ret.spends[1].parent = RefsOf(pick[5])[pick[6] + 1])
Emit == phase = 1 => PrintT(<<"CASE", ToJson(IF IsRef(pick) THEN [prog |-> RefProg(pick), refsel |-> pick[6], nrefs |-> NRefs(pick), flags |-> FlagSeq(FlagsOf(pick)), ok |-> Res.ok]
                                             ELSE [out |-> OutOf(pick), nrefs |-> NRefs(pick), flags |-> FlagSeq(FlagsOf(pick)), ok |-> Res.ok])>>)
=============================================================================
