---------------------------- MODULE MC_TimeLocks ----------------------------
(* C03 (M + G): for every small multiset of lock/birth assertions with      *)
(* boundary arguments and every chain state of the boundary lattice:        *)
(*   Equiv:           parse-time fold + check_time_locks == per-assertion   *)
(*   ImpossibleSound: an "impossible constraints" rejection happens only    *)
(*                    when no chain state satisfies the assertions          *)
EXTENDS TimeLocks, CondMenus, TLC, Json

CONSTANT MaxAsserts, TwoSpends

BigMax == <<2, 143, 166, 174, 0>>
\* boundary arguments at the real widths: negative, 0, 1, 2, MAX-1, MAX, MAX+1
Args32 == {<<255>>, <<>>, <<1>>, <<2>>, <<0, 255, 255, 255, 254>>, <<0, 255, 255, 255, 255>>, <<1, 0, 0, 0, 0>>}
Args64 == {<<255>>, <<>>, <<1>>, <<2>>, <<0, 255, 255, 255, 255, 255, 255, 255, 254>>, <<0, 255, 255, 255, 255, 255, 255, 255, 255>>,
           <<1, 0, 0, 0, 0, 0, 0, 0, 0>>}
LockConds == {Cons(Op(op), L(<<Atom(a)>>)) : op \in HeightOps, a \in Args32}
             \cup {Cons(Op(op), L(<<Atom(a)>>)) : op \in LockOps \ HeightOps, a \in Args64}

CondSeqs == UNION {[1..n -> LockConds] : n \in 1..MaxAsserts}

Spend(parent, ph, amtAtom, conds) == L(<<Atom(parent), Atom(ph), Atom(amtAtom), conds>>)
EphAmt == <<7>>
Inputs ==
  {[tree |-> L(<<L(<<Spend(P1, Z1, Coin1Amt, L(cs))>>)>>), flags |-> {"DONT_VALIDATE_SIGNATURE"}, max |-> BigMax, clvm |-> Zero, vis |-> "empty",
    consts |-> Doms, validKeys |-> {}] : cs \in CondSeqs}
  \cup (IF TwoSpends THEN
        \* the second spend is the ephemeral child of the first, or an unrelated coin; one assertion each
        {[tree |-> L(<<L(<<Spend(P1, Z1, Coin1Amt, L(<<Cons(Op(51), L(<<Atom(Z2), Atom(EphAmt)>>)), c1>>)),
                          Spend(p, Z2, EphAmt, L(<<c2>>))>>)>>),
          flags |-> {"DONT_VALIDATE_SIGNATURE"}, max |-> BigMax, clvm |-> Zero, vis |-> "empty", consts |-> Doms, validKeys |-> {}]
         : c1 \in LockConds, c2 \in LockConds, p \in {Coin1Id, P2}}
        ELSE {})

\* chain lattice (consistent states): small values and values next to the type maximum
H32 == {<<>>, <<1>>, <<2>>, <<3>>, <<255, 255, 255, 253>>, <<255, 255, 255, 254>>}
H64 == {<<>>, <<1>>, <<2>>, <<3>>, <<255, 255, 255, 255, 255, 255, 255, 253>>, <<255, 255, 255, 255, 255, 255, 255, 254>>}
\* height and seconds assertions never interact, so the lattice pairs them up diagonally plus a few mixed states
MkChain(n, ph, bh, ts, bs) == [prevH |-> ph, ts |-> ts, births |-> [i \in 1..n |-> [h |-> bh, s |-> bs]]]
Chains(n) ==
  UNION {{MkChain(n, ph, bh, ts, bs) : bh \in {x \in H32 : Le(x, ph)}, ts \in {<<3>>, <<255, 255, 255, 255, 255, 255, 255, 254>>}, bs \in {<<>>, <<2>>}}
         : ph \in H32}
  \cup UNION {{MkChain(n, ph, bh, ts, bs) : ph \in {<<3>>, <<255, 255, 255, 254>>}, bh \in {<<>>, <<2>>}, bs \in {x \in H64 : Le(x, ts)}}
              : ts \in H64}

VARIABLES in, phase
Init == in \in Inputs /\ phase = 0
Next == phase = 0 /\ phase' = 1 /\ UNCHANGED in

NSpends == Len(SpendsOfTree(in.tree))
Equiv == phase = 1 =>
  LET st == Run(in) IN
  \A ch \in Chains(NSpends) : (Accepted(st) /\ CheckAgg(st.ret, ch)) <=> Oracle(in.tree, ch)
ImpossibleSound == phase = 1 =>
  LET st == Run(in) IN
  st.err \in {"ImpossibleSecondsRelativeConstraints", "ImpossibleHeightRelativeConstraints",
              "ImpossibleSecondsAbsoluteConstraints", "ImpossibleHeightAbsoluteConstraints"}
    => \A ch \in Chains(NSpends) : \E a \in AssertionsOf(in.tree) : ~Holds(a, ch)
ChainsConsistent == \A ch \in Chains(1) : ConsistentChain(ch)
Emit == phase = 1 => PrintT(<<"CASE", ToJson([tree |-> in.tree])>>)
=============================================================================
