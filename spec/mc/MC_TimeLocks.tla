---------------------------- MODULE MC_TimeLocks ----------------------------
(* C03 (M + G): for every small multiset of lock/birth assertions with      *)
(* boundary arguments and every chain state of the boundary lattice:        *)
(*   Equiv:           parse-time fold + check_time_locks == per-assertion   *)
(*   ImpossibleSound: an "impossible constraints" rejection happens only    *)
(*                    when no chain state satisfies the assertions          *)
EXTENDS TimeLocks, CondMenus, TLC, Json

CONSTANT MaxAsserts, TwoSpends

BigMax == <<2, 143, 166, 174, 0>>
\* boundary arguments at the real widths: negative, 0, 1, 2, MAX-1, MAX, MAX+1
Args32 == {<<255>>, <<>>, <<1>>, <<2>>, <<0, 255, 255, 255, 254>>, <<0, 255, 255, 255, 255>>, <<1, 0, 0, 0, 0>>}
Args64 == {<<255>>, <<>>, <<1>>, <<2>>, <<0, 255, 255, 255, 255, 255, 255, 255, 254>>, <<0, 255, 255, 255, 255, 255, 255, 255, 255>>,
           <<1, 0, 0, 0, 0, 0, 0, 0, 0>>}
ArgsOf(op) == IF op \in HeightOps THEN Args32 ELSE Args64
LockPicks == UNION {{<<op, a>> : a \in ArgsOf(op)} : op \in LockOps}
CondOf(p) == Cons(Op(p[1]), L(<<Atom(p[2])>>))

Spend(parent, ph, amtAtom, conds) == L(<<Atom(parent), Atom(ph), Atom(amtAtom), conds>>)
EphAmt == <<7>>
\* a pick is a small tuple; the input tree is built from it on demand (keeps Init cheap)
Picks == {<<"one", s>> : s \in UNION {[1..n -> LockPicks] : n \in 1..MaxAsserts}}
         \cup (IF TwoSpends THEN {<<"two", c1, c2, eph>> : c1 \in LockPicks, c2 \in LockPicks, eph \in BOOLEAN} ELSE {})
TreeOf(p) ==
  IF p[1] = "one" THEN L(<<L(<<Spend(P1, Z1, Coin1Amt, L([i \in DOMAIN p[2] |-> CondOf(p[2][i])]))>>)>>)
  ELSE \* the second spend is the ephemeral child of the first, or an unrelated coin
       L(<<L(<<Spend(P1, Z1, Coin1Amt, L(<<Cons(Op(51), L(<<Atom(Z2), Atom(EphAmt)>>)), CondOf(p[2])>>)),
               Spend(IF p[4] THEN Coin1Id ELSE P2, Z2, EphAmt, L(<<CondOf(p[3])>>))>>)>>)
InOf(p) == [tree |-> TreeOf(p), flags |-> {"DONT_VALIDATE_SIGNATURE"}, max |-> BigMax, clvm |-> Zero, vis |-> "empty",
            consts |-> Doms, validKeys |-> {}]

\* chain lattice (consistent states): small values and values next to the type maximum
H32 == {<<>>, <<1>>, <<2>>, <<3>>, <<255, 255, 255, 253>>, <<255, 255, 255, 254>>}
H64 == {<<>>, <<1>>, <<2>>, <<3>>, <<255, 255, 255, 255, 255, 255, 255, 253>>, <<255, 255, 255, 255, 255, 255, 255, 254>>}
\* height and seconds assertions never interact, so the lattice pairs them up diagonally plus a few mixed states
MkChain(n, ph, bh, ts, bs) == [prevH |-> ph, ts |-> ts, births |-> [i \in 1..n |-> [h |-> bh, s |-> bs]]]
Chains(n) ==
  UNION {{MkChain(n, ph, bh, ts, bs) : bh \in {x \in H32 : Le(x, ph)}, ts \in {<<3>>, <<255, 255, 255, 255, 255, 255, 255, 254>>}, bs \in {<<>>, <<2>>}}
         : ph \in H32}
  \cup UNION {{MkChain(n, ph, bh, ts, bs) : ph \in {<<3>>, <<255, 255, 255, 254>>}, bh \in {<<>>, <<2>>}, bs \in {x \in H64 : Le(x, ts)}}
              : ts \in H64}

VARIABLES pick, phase
Init == pick \in Picks /\ phase = 0
Next == phase = 0 /\ phase' = 1 /\ UNCHANGED pick
in == InOf(pick)

NSpends == Len(SpendsOfTree(in.tree))
Equiv == phase = 1 =>
  LET st == Run(in) IN
  \A ch \in Chains(NSpends) : (Accepted(st) /\ CheckAgg(st.ret, ch)) <=> Oracle(in.tree, ch)
ImpossibleSound == phase = 1 =>
  LET st == Run(in) IN
  st.err \in {"ImpossibleSecondsRelativeConstraints", "ImpossibleHeightRelativeConstraints",
              "ImpossibleSecondsAbsoluteConstraints", "ImpossibleHeightAbsoluteConstraints"}
    => \A ch \in Chains(NSpends) : \E a \in AssertionsOf(in.tree) : ~Holds(a, ch)
ChainsConsistent == \A ch \in Chains(1) : ConsistentChain(ch)
Emit == phase = 1 => PrintT(<<"CASE", ToJson([tree |-> in.tree])>>)
=============================================================================
