SPECIFICATION Spec
CONSTANT IdMod = 2
CONSTANT K = 2
CONSTANT NR = 2
CONSTANT Tys = {"respond_removals", "reject_removals_request", "new_peak_wallet"}
CONSTANT BadTys = {"respond_removals"}
INVARIANT Inv
PROPERTY Once
CHECK_DEADLOCK FALSE
