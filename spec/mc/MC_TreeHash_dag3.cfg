INIT Init
NEXT Next
CONSTANT Mode = "dag"
CONSTANT NPairs = 3
CONSTANT MaxOps = 3
CONSTANT Full = TRUE
INVARIANT TableOK
INVARIANT LastResultCorrect
INVARIANT SlotsCorrect
INVARIANT CacheShape
INVARIANT RefAgreesOnAlloc
INVARIANT Emit
PROPERTY MemoStable
CHECK_DEADLOCK FALSE
