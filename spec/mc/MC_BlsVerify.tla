---------------------------- MODULE MC_BlsVerify ----------------------------
(* C15 (M + G): sequential agreement. Every pair list of at most MaxPairs    *)
(* pairs over keys {Inf, 1, 2} and messages {0 (empty), 1} (repeated keys,    *)
(* repeated messages, repeated pairs) against every signature of the menu:    *)
(* the symbolic models of verify / aggregate_verify / aggregate_verify_gt     *)
(* agree with RefVerdict (the last one wherever no key is infinity). Each     *)
(* input is emitted as a replay case for the five real verifiers.             *)
EXTENDS BlsVerify, TLC, Json

CONSTANT MaxPairs

Keys == {Inf, 1, 2}
Msgs == {0, 1}
PairU == Keys \X Msgs
Lists(S, n) == UNION {[1..k -> S] : k \in 0..n}

Dedup(s) == LET RECURSIVE G(_, _)
                G(i, out) == IF i > Len(s) THEN out
                             ELSE G(i + 1, IF \E j \in DOMAIN out : out[j] = s[i] THEN out ELSE Append(out, s[i]))
            IN G(1, <<>>)
OtherMsg(p) == <<p[1], IF p[2] = 1 THEN 2 ELSE 1>>
OtherKey(p) == <<IF p[1] = 1 THEN 2 ELSE 1, p[2]>>
Rev(s) == [i \in DOMAIN s |-> s[Len(s) + 1 - i]]
\* signatures: aggregate over the real-key pairs (the valid one if no key is infinity), the
\* same in reverse order of aggregation, identity, one dropped, one doubled, one added, signed
\* over another message, signed by another key, a foreign single signature; off-subgroup
\* points (bare, and added to the otherwise valid aggregate)
SigMenu(pairs) ==
  LET r == Real(pairs) IN
  Dedup(<<[wf |-> TRUE, bag |-> r], [wf |-> TRUE, bag |-> Rev(r)], [wf |-> TRUE, bag |-> <<>>],
          [wf |-> TRUE, bag |-> <<<<2, 2>>>>], [wf |-> FALSE, bag |-> <<>>], [wf |-> FALSE, bag |-> r]>>
        \o (IF r = <<>> THEN <<>>
            ELSE <<[wf |-> TRUE, bag |-> Tail(r)],
                   [wf |-> TRUE, bag |-> Append(r, r[1])],
                   [wf |-> TRUE, bag |-> Append(r, OtherKey(r[1]))],
                   [wf |-> TRUE, bag |-> <<OtherMsg(r[1])>> \o Tail(r)],
                   [wf |-> TRUE, bag |-> <<OtherKey(r[1])>> \o Tail(r)]>>))
Inputs == UNION {{[pairs |-> l, sig |-> SigMenu(l)[i]] : i \in DOMAIN SigMenu(l)} : l \in Lists(PairU, MaxPairs)}

VARIABLES x, phase
Init == x \in Inputs /\ phase = 0
Next == phase = 0 /\ phase' = 1 /\ UNCHANGED x

Agreement == phase = 1 => /\ AggAgrees(x.pairs, x.sig)
                          /\ VerifyAgrees(x.pairs, x.sig)
                          /\ GtAgrees(x.pairs, x.sig)
\* the reference verdict does not depend on the order of the pairs
OrderFree == phase = 1 => RefVerdict(Rev(x.pairs), x.sig) = RefVerdict(x.pairs, x.sig)
\* a valid signature exists exactly for the lists without an infinity key, and it is the first of the menu
ValidIffNoInf == phase = 1 => (RefVerdict(x.pairs, SigMenu(x.pairs)[1]) <=> NoInf(x.pairs))
\* wherever the pairing path needs its exemption a key is infinity (the exemption is not wider than stated)
ExemptOnlyInf == phase = 1 => (GtExemptNeeded(x.pairs, x.sig) => ~NoInf(x.pairs))

Case == [k |-> "seq", pairs |-> x.pairs, sig |-> x.sig,
         exp |-> [v \in Verifiers |-> Expected(v, x.pairs, x.sig)],
         gtalg |-> VStr(AlgGt(x.pairs, x.sig))]
Emit == phase = 1 => PrintT(<<"CASE", ToJson(Case)>>)
=============================================================================
