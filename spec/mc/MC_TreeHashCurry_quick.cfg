INIT Init
NEXT Next
CONSTANT MaxArgs = 2
INVARIANT CurryOK
INVARIANT CurryShape
INVARIANT OrderMatters
INVARIANT PrecomputedOK
INVARIANT Emit
CHECK_DEADLOCK FALSE
