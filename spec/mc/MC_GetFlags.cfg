INIT Init
NEXT Next
INVARIANT MonotoneInv
INVARIANT ExactThresholds
CHECK_DEADLOCK FALSE
