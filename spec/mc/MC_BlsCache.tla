---------------------------- MODULE MC_BlsCache ----------------------------
(* C15 (M + G): all interleavings, at lock granularity, of NT concurrent     *)
(* cache-assisted verifications and at most one environment operation, for   *)
(* every capacity in Caps, every prior content over three keys and every     *)
(* call of the menu. Every terminal state is emitted as a replay case: the   *)
(* schedule (history variable `sched`, hidden from the fingerprint by the    *)
(* VIEW), the cache contents the spec predicts after every critical section  *)
(* (`obs`) and the verdict for every signature of the menu.                  *)
EXTENDS BlsCache, TLC, Json

CONSTANTS NT,        \* number of verifying threads
          MaxPairs,  \* pairs per call
          Caps,      \* set of capacities
          Menu,      \* "small" | "small3" | "full": size of the call / environment menus
          Reduce,    \* TRUE: run the lock-free actions (Compute, Final) eagerly
          EmitMod    \* emit every terminal state (1) or a fixed arithmetic selection of 1 in EmitMod

VARIABLES sched,     \* history: the lock-granularity schedule (thread id, or NT + env index)
          obs,       \* history: cache contents after each scheduled critical section
          prior0     \* history: the initial contents

\* two keys sharing a message, one key with two messages (one of them empty), the infinity key
PA == <<1, 1>>
PB == <<2, 1>>
PC == <<1, 0>>
PD == <<Inf, 1>>
PU == IF Menu = "full" THEN {PA, PB, PC, PD} ELSE {PA, PB, PD}
PriorU == {PA, PB, PC}

Lists(S, n) == UNION {[1..k -> S] : k \in 0..n}
PairLists == Lists(PU, MaxPairs)
\* sequences of distinct keys, at most n
Priors(n) == {s \in Lists(PriorU, n) : \A i, j \in DOMAIN s : s[i] = s[j] => i = j}

Dedup(s) == LET RECURSIVE G(_, _)
                G(i, out) == IF i > Len(s) THEN out
                             ELSE G(i + 1, IF \E j \in DOMAIN out : out[j] = s[i] THEN out ELSE Append(out, s[i]))
            IN G(1, <<>>)
OtherMsg(p) == <<p[1], IF p[2] = 1 THEN 2 ELSE 1>>
OtherKey(p) == <<IF p[1] = 1 THEN 2 ELSE 1, p[2]>>
\* the signatures tried against a pair list: the aggregate over its real-key pairs (the valid
\* one when no key is infinity), the identity, one signature dropped, one added, one doubled,
\* one signed over another message / by another key; and two off-subgroup points
SigMenu(pairs, wf) ==
  LET r == Real(pairs) IN
  IF wf THEN Dedup(<<[wf |-> TRUE, bag |-> r], [wf |-> TRUE, bag |-> <<>>]>>
                   \o (IF r = <<>> THEN <<[wf |-> TRUE, bag |-> <<PA>>]>>
                       ELSE <<[wf |-> TRUE, bag |-> Tail(r)],
                              [wf |-> TRUE, bag |-> Append(r, r[1])],
                              [wf |-> TRUE, bag |-> Append(r, OtherKey(r[1]))],
                              [wf |-> TRUE, bag |-> <<OtherMsg(r[1])>> \o Tail(r)],
                              [wf |-> TRUE, bag |-> <<OtherKey(r[1])>> \o Tail(r)]>>))
  ELSE Dedup(<<[wf |-> FALSE, bag |-> r], [wf |-> FALSE, bag |-> <<>>]>>)
MkCall(pairs, wf) == [pairs |-> pairs, wf |-> wf, sigs |-> SigMenu(pairs, wf)]
\* an off-subgroup signature is rejected before the first pair: no cache traffic at all, so
\* one such call per length is enough
CallMenu == {MkCall(l, TRUE) : l \in PairLists}
            \cup {MkCall(l, FALSE) : l \in IF Menu = "small3" THEN {<<PA>>} ELSE {<<>>, <<PA>>, <<PD, PB>>}}

Ev(ps) == [op |-> "evict", pairs |-> ps]
Up(p) == [op |-> "update", pairs |-> <<p>>]
EnvMenu == IF Menu = "small" THEN {<<>>, <<Ev(<<PA, PB>>)>>, <<Up(PA)>>, <<Up(PC)>>}
           ELSE IF Menu = "small3" THEN {<<>>, <<Ev(<<PA, PB>>)>>, <<Up(PC)>>}
           ELSE {<<>>, <<Ev(<<PA, PB>>)>>, <<Ev(<<PC>>)>>, <<Ev(<<PD, PA>>)>>, <<Up(PA)>>, <<Up(PB)>>, <<Up(PC)>>}

hvars == <<sched, obs, prior0>>
View == <<vars, prior0>>

\* the menu in one fixed order; threads are interchangeable, so calls are assigned in
\* non-decreasing menu order
CallSeq == LET RECURSIVE G(_)
               G(S) == IF S = {} THEN <<>> ELSE LET x == CHOOSE x \in S : TRUE IN <<x>> \o G(S \ {x})
           IN G(CallMenu)
Assignments == {f \in [1..NT -> DOMAIN CallSeq] : \A t \in 1..(NT - 1) : f[t] <= f[t + 1]}

InitH == /\ \E n \in Caps : \E p \in Priors(n) : \E f \in Assignments : \E e \in EnvMenu :
              InitWith(n, p, [t \in 1..NT |-> CallSeq[f[t]]], e) /\ prior0 = p
         /\ sched = <<>>
         /\ obs = <<>>

Locked(id) == sched' = Append(sched, id) /\ obs' = Append(obs, cache') /\ UNCHANGED prior0
LookupH(t) == Lookup(t) /\ Locked(t)
PutH(t) == Put(t) /\ Locked(t)
ComputeH(t) == Compute(t) /\ UNCHANGED hvars
FinalH(t) == Final(t) /\ UNCHANGED hvars
UpdateH(j) == Update(j) /\ Locked(Len(call) + j)
EvictH(j) == Evict(j) /\ Locked(Len(call) + j)
\* Compute and Final read and write only the thread's own variables, so they commute with
\* every other action and no invariant can tell when they happen: with Reduce they run first
NoLocal == Reduce => \A t \in Threads : pc[t] \notin {"compute", "final"}
LookupAny == NoLocal /\ \E t \in Threads : LookupH(t)
PutAny == NoLocal /\ \E t \in Threads : PutH(t)
ComputeAny == \E t \in Threads : ComputeH(t)
FinalAny == \E t \in Threads : FinalH(t)
UpdateAny == NoLocal /\ \E j \in DOMAIN env : UpdateH(j)
EvictAny == NoLocal /\ \E j \in DOMAIN env : EvictH(j)
NextH == LookupAny \/ ComputeAny \/ PutAny \/ FinalAny \/ UpdateAny \/ EvictAny

\* liveness configuration: no history
NextL == Next /\ UNCHANGED hvars
SpecL == InitH /\ [][NextL]_<<vars, hvars>> /\ Fair

\* the history is consistent with the state (sanity of the generator itself)
HistOK == Len(sched) = Len(obs) /\ (obs # <<>> => obs[Len(obs)] = cache)

Case == [k |-> "conc", cap |-> cap, prior |-> prior0, calls |-> call, env |-> env,
         sched |-> sched, obs |-> obs, verdicts |-> verdict]
SchedSum == LET RECURSIVE G(_)
                G(i) == IF i = 0 THEN 0 ELSE i * sched[i] + G(i - 1)
            IN G(Len(sched)) + Len(prior0) + cap
Emit == (AllDone /\ SchedSum % EmitMod = 0) => PrintT(<<"CASE", ToJson(Case)>>)
=============================================================================
