--------------------------- MODULE MC_FastForward ---------------------------
(* C19 part B (M + G): the guard table of the fast-forward rule.             *)
(* A state is a WORLD: a well-formed singleton spend (inner puzzle and its   *)
(* conditions, amounts, lineage), a rebase target (new parent, new coin) and *)
(* up to MaxDev deviations. World-level deviations keep everything else      *)
(* consistent (e.g. a parent with another inner puzzle and the coin id that  *)
(* goes with it), field-level deviations overwrite one argument of the call. *)
(* Invariants: the rule refuses unless every guard holds, an accepted        *)
(* rewrite replaces exactly three fields and is a valid top-layer spend of   *)
(* the new coin; every single deviation is refused.                          *)
EXTENDS FastForward, TLC, Json

CONSTANT MaxDev,       \* deviations per world
         Bases         \* "quick" | "full"

CM == INSTANCE CondMenus
GenKey == CM!GenKey

H(n) == [i \in 1..32 |-> n]
L(s) == ListOf(s)
LauncherPH == H(33)
Lid == H(34)
H5 == H(5)  H6 == H(6)  Junk == H(99)
OtherProg == Cons(Atom(<<1>>), Nil)                   \* (q) - some program that is not the singleton
InnerId == Atom(<<1>>)                                \* inner puzzle "1": the inner solution is the condition list
IHId == TreeHash(InnerId)
IHOther == TreeHash(Cons(Atom(<<1>>), L(<<Atom(<<9>>)>>)))   \* hash of some other inner puzzle

MkCC(ph, amt) == L(<<Atom(<<51>>), Atom(ph), Atom(Enc(amt))>>)
MkCCH(ph, amt, h) == L(<<Atom(<<51>>), Atom(ph), Atom(Enc(amt)), L(<<Atom(h)>>)>>)
C1(op, b) == L(<<Atom(<<op>>), Atom(b)>>)

\* inner condition menus; a = coin amount, own = puzzle hash the singleton re-creates, par = coin parent (identity inner only)
InnerConds(ci, a, own, par) ==
  CASE ci = 1 -> <<MkCC(own, a)>>
    [] ci = 2 -> <<L(<<Atom(<<1>>)>>), MkCCH(own, a, H5), C1(83, <<5>>), C1(52, <<>>)>>
    [] ci = 3 -> <<MkCC(own, a), C1(73, Enc(a))>>
    [] ci = 4 -> <<MkCC(own, a), C1(60, <<7>>)>>
    [] ci = 5 -> <<MkCC(own, Add(a, <<2>>))>>
    [] ci = 6 -> <<MkCC(H5, <<2>>), MkCC(own, a), C1(62, <<7>>), L(<<Atom(<<44>>), Atom(GenKey), Atom(<<3>>)>>)>>
    [] ci = 7 -> <<MkCC(own, a), C1(82, <<3>>)>>
    [] ci = 8 -> <<MkCC(own, a), C1(71, par)>>
    [] ci = 9 -> <<L(<<Atom(<<51>>), Nil, Atom(<<143>>)>>)>>            \* melt: (CREATE_COIN () -113)
    [] ci = 10 -> <<MkCC(own, a), C1(85, <<1, 0, 0>>), L(<<Atom(<<1>>), Atom(<<1>>)>>)>>

\* (amount, parent amount, new parent amount, new coin amount): odd, around encoding boundaries
AmountSets == <<
  << <<1>>, <<1>>, <<1>>, <<1>> >>,
  << <<3>>, <<1>>, <<5>>, <<3>> >>,
  << <<255>>, <<1, 1>>, <<129>>, <<127>> >>,
  << <<1, 0, 0, 0, 1>>, <<255, 255>>, <<128, 0, 0, 0, 0, 0, 0, 1>>, <<255, 255, 255, 255, 255, 255, 255, 255>> >>,
  << <<127>>, <<127>>, <<127>>, <<127>> >> >>

WorldDevs == {"badmod", "otherprog", "pih_other", "eve", "even_all", "ph_otherinner"}
FieldDevs == {"coin_parent_junk", "coin_ph_junk", "coin_amt_plus2", "coin_amt_even", "sol_amount_plus2", "np_ph_junk", "nc_ph_junk",
              "np_amt_even", "nc_amt_even", "nc_parent_junk", "nc_parent_otheramt", "np_parent_other", "pp_other", "pamt_other",
              "pih_junk", "sol_extra", "sol_dotted", "sol_atom", "sol_short", "proof_short", "proof_dotted", "amount_neg", "amount_nc", "pamt_nc",
              "amount_pad", "amount_9", "shortlid", "struct_dotted", "shape_three", "shape_one", "shape_raw", "inner_sol_other"}
Devs == WorldDevs \cup FieldDevs
\* deviations that leave a genuine singleton spend with matching lineage (the rule must still accept)
Benign == {"amount_nc", "pamt_nc", "amount_pad", "inner_sol_other", "sol_extra", "sol_dotted", "proof_dotted"}

BaseSet ==
  IF Bases = "quick"
  THEN {[inner |-> "id", ci |-> ci, am |-> am, npp |-> 1] : ci \in {1, 2, 3, 6}, am \in {2, 3}}
       \cup {[inner |-> "quote", ci |-> 1, am |-> 3, npp |-> 2], [inner |-> "id", ci |-> 9, am |-> 2, npp |-> 2],
             [inner |-> "id", ci |-> 4, am |-> 4, npp |-> 3], [inner |-> "id", ci |-> 8, am |-> 5, npp |-> 1]}
  ELSE IF Bases = "mid"
  THEN {[inner |-> "id", ci |-> ci, am |-> 1 + (ci % 5), npp |-> 1 + (ci % 3)] : ci \in 1..10}
       \cup {[inner |-> "id", ci |-> ci, am |-> 1 + ((ci + 2) % 5), npp |-> 1] : ci \in {1, 2, 3, 6}}
       \cup {[inner |-> "quote", ci |-> ci, am |-> 1 + (ci % 5), npp |-> 2] : ci \in {1, 2, 4, 7, 10}}
  ELSE {[inner |-> "id", ci |-> ci, am |-> am, npp |-> npp] : ci \in 1..10, am \in 1..5, npp \in 1..3}
       \cup {[inner |-> "quote", ci |-> ci, am |-> am, npp |-> 1] : ci \in {1, 2, 4, 7, 10}, am \in 1..5}
DevSets == {{}} \cup (IF MaxDev >= 1 THEN {{d} : d \in Devs} ELSE {}) \cup (IF MaxDev >= 2 THEN {{d, e} : d, e \in Devs} ELSE {})

(* ---- from a world to the arguments of the call ---- *)
Derive(b, devs) ==
  LET has(d) == d \in devs
      am == AmountSets[b.am]
      amt0 == IF has("even_all") THEN Sub(am[1], <<1>>) ELSE am[1]
      pamt == am[2]
      structGood == Cons(Atom(IF has("badmod") THEN H(9) ELSE SingletonModHash), Cons(Atom(Lid), Atom(LauncherPH)))
      structsx == IF has("shortlid") THEN Cons(structGood.l, Cons(Atom(SubSeq(Lid, 1, 31)), Atom(LauncherPH)))
                  ELSE IF has("struct_dotted") THEN Cons(structGood.l, Cons(Atom(Lid), Cons(Atom(LauncherPH), Nil)))
                  ELSE structGood
      progHash == IF has("otherprog") THEN TreeHash(OtherProg) ELSE SingletonModHash
      \* the identity inner puzzle re-creates itself; a quoted inner puzzle cannot contain its own hash
      pp == H(40)
      \* parent of the coin for the identity inner (needed by menu 8 before the inner puzzle exists)
      parIdWith(ih) == CoinIdOf(pp, SingletonPH(structGood, ih), Enc(pamt))
      conds == InnerConds(b.ci, amt0, IF b.inner = "id" THEN IHId ELSE H6, IF b.inner = "id" THEN parIdWith(IF has("pih_other") THEN IHOther ELSE IHId) ELSE Junk)
      inner == IF b.inner = "id" THEN InnerId ELSE Cons(Atom(<<1>>), L(conds))
      innerSol == IF has("inner_sol_other") THEN L(<<L(<<Atom(<<1>>)>>)>>) ELSE IF b.inner = "id" THEN L(conds) ELSE Nil
      ih == TreeHash(inner)
      pih == IF has("pih_junk") THEN Junk ELSE IF has("pih_other") THEN IHOther ELSE ih
      ownPH == CurryH(progHash, <<TreeHash(structGood), IF has("ph_otherinner") THEN IHOther ELSE ih>>)
      parentPH == CurryH(progHash, <<TreeHash(structGood), IF has("pih_other") THEN IHOther ELSE ih>>)
      parentId == IF has("eve") THEN CoinIdOf(pp, LauncherPH, Enc(pamt)) ELSE CoinIdOf(pp, parentPH, Enc(pamt))
      coin == [parent |-> IF has("coin_parent_junk") THEN Junk ELSE parentId,
               ph |-> IF has("coin_ph_junk") THEN Junk ELSE ownPH,
               amt |-> IF has("coin_amt_plus2") THEN Add(amt0, <<2>>) ELSE IF has("coin_amt_even") THEN Add(amt0, <<1>>) ELSE amt0]
      npParent0 == IF b.npp = 1 THEN H(50) ELSE IF b.npp = 2 THEN [i \in 1..32 |-> 0] ELSE [i \in 1..32 |-> 255]
      npAmt == IF has("np_amt_even") THEN Sub(am[3], <<1>>) ELSE am[3]
      np0 == [parent |-> npParent0, ph |-> IF has("np_ph_junk") THEN Junk ELSE ownPH, amt |-> npAmt]
      ncParent == IF has("nc_parent_junk") THEN Junk
                  ELSE IF has("nc_parent_otheramt") THEN IdOf([np0 EXCEPT !.amt = Add(npAmt, <<2>>)])
                  ELSE IdOf(np0)
      np == IF has("np_parent_other") THEN [np0 EXCEPT !.parent = H(51)] ELSE np0
      nc == [parent |-> ncParent, ph |-> IF has("nc_ph_junk") THEN Junk ELSE ownPH,
             amt |-> IF has("nc_amt_even") THEN Sub(am[4], <<1>>) ELSE am[4]]
      solAmt == IF has("sol_amount_plus2") THEN Add(amt0, <<2>>) ELSE amt0
      amtAtom == IF has("amount_neg") THEN Atom(<<128>>)
                 ELSE IF has("amount_nc") THEN Atom(<<0>> \o Enc(solAmt))
                 ELSE IF has("amount_pad") THEN Atom([i \in 1..(9 - Len(solAmt)) |-> 0] \o solAmt)     \* 9 bytes, zero padded
                 ELSE IF has("amount_9") THEN Atom(<<1>> \o [i \in 1..8 |-> 0])                        \* 2^64
                 ELSE Atom(Enc(solAmt))
      ppAtom == Atom(IF has("proof_short") THEN SubSeq(pp, 1, 31) ELSE IF has("pp_other") THEN H(41) ELSE pp)
      pamtAtom == IF has("pamt_nc") THEN Atom(<<0>> \o Enc(pamt)) ELSE IF has("pamt_other") THEN Atom(Enc(Add(pamt, <<2>>))) ELSE Atom(Enc(pamt))
      proof == IF has("eve") THEN L(<<ppAtom, pamtAtom>>)
               ELSE IF has("proof_dotted") THEN ListWithTail(<<ppAtom, Atom(pih), pamtAtom>>, Atom(<<1>>))
               ELSE L(<<ppAtom, Atom(pih), pamtAtom>>)
      sol == IF has("sol_extra") THEN L(<<proof, amtAtom, innerSol, Nil>>)
             ELSE IF has("sol_dotted") THEN ListWithTail(<<proof, amtAtom, innerSol>>, Atom(<<1>>))
             ELSE IF has("sol_atom") THEN Atom(<<1, 2, 3>>)
             ELSE IF has("sol_short") THEN L(<<proof, amtAtom>>)
             ELSE L(<<proof, amtAtom, innerSol>>)
      shape == IF has("shape_three") THEN "three" ELSE IF has("shape_one") THEN "one" ELSE IF has("shape_raw") THEN "raw" ELSE "curried"
  IN [shape |-> shape, prog |-> IF has("otherprog") THEN "other" ELSE "singleton", progsx |-> OtherProg, prog_hash |-> progHash,
      structsx |-> structsx, inner |-> inner, inner_hash |-> ih, sol |-> sol, coin |-> coin, nc |-> nc, np |-> np]

VARIABLES base, devs, phase
vars == <<base, devs, phase>>
\* deviations that only add ignored list tails (known finding C19_TAIL of the implementation): kept to a few worlds
TailDevs == {"sol_extra", "sol_dotted", "proof_dotted"}
Init == /\ base \in BaseSet /\ devs \in DevSets /\ phase = 0
        /\ (devs \cap TailDevs # {}) => (base.ci = 1 /\ Cardinality(devs) = 1)
Next == phase = 0 /\ phase' = 1 /\ UNCHANGED <<base, devs>>

In == Derive(base, devs)

\* with "struct_dotted" the third element is a list, not an atom; with a quoted inner puzzle "pih_other" etc. still apply
RefusesInv == phase = 1 => Refuses(In)
ThreeFieldsInv == phase = 1 => OnlyThreeFields(In)
SoundInv == phase = 1 => Sound(In)
\* the guard table: the undisturbed world and the benign deviations are accepted, every other deviation is refused
GuardTable == (phase = 1 /\ Cardinality(devs) <= 1) => (FFGuard(In) <=> devs \subseteq Benign)

FirstFailing(in) ==
  IF ~GOdd(in) THEN "odd" ELSE IF ~GSamePh(in) THEN "sameph" ELSE IF ~Parses(in) THEN "parse" ELSE IF ~GLineage(in) THEN "lineage"
  ELSE IF ~GMod(in) THEN "mod" ELSE IF ~GAmount(in) THEN "amount" ELSE IF ~GParent(in) THEN "parent" ELSE IF ~GInner(in) THEN "inner"
  ELSE IF ~GPuzzle(in) THEN "puzzle" ELSE IF ~GNewParent(in) THEN "newparent" ELSE "none"
\* number of guards that fail on their own (the others hold or are not evaluable)
SetSeq(S) == LET RECURSIVE G(_)
                 G(T) == IF T = {} THEN <<>> ELSE LET x == CHOOSE x \in T : TRUE IN <<x>> \o G(T \ {x})
             IN G(S)

Emit == phase = 1 => LET in == In IN PrintT(<<"CASE", ToJson([
          k |-> "ff", label |-> SetSeq(devs), prog |-> in.prog, progsx |-> in.progsx, shape |-> in.shape, structsx |-> in.structsx,
          inner |-> in.inner, sol |-> in.sol, coin |-> in.coin, nc |-> in.nc, np |-> in.np,
          g |-> FFGuard(in), why |-> FirstFailing(in)])>>)
=============================================================================
