INIT Init
NEXT Next
CONSTANT MaxAtomLen = 7
INVARIANT CanonUnique
INVARIANT DecEnc
INVARIANT SanitizeClasses
INVARIANT SerLenLadder
INVARIANT Emit
CHECK_DEADLOCK FALSE
