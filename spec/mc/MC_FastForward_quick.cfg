INIT Init
NEXT Next
CONSTANT MaxDev = 1
CONSTANT Bases = "quick"
INVARIANT RefusesInv
INVARIANT ThreeFieldsInv
INVARIANT SoundInv
INVARIANT GuardTable
INVARIANT Emit
CHECK_DEADLOCK FALSE
