---------------------------- MODULE MC_PeerRpcGen ----------------------------
(* G: server schedules. The sequential machine (waves of requests, one server *)
(* message handled at a time, observation = CompleteAll) is explored          *)
(* exhaustively over a menu of targets (a pending request, an already         *)
(* answered one = duplicate, an unknown id, the id the NEXT request will get, *)
(* no id) x message types; every complete schedule is emitted as a replay     *)
(* case, and all properties are invariants of every prefix.                   *)
EXTENDS PeerRpc, Json
CONSTANTS N1, N2
VARIABLES s, script, stage, n
vars == <<s, script, stage, n>>
W1 == <<[r |-> 1, kind |-> "rem"], [r |-> 2, kind |-> "ses"]>>
W2 == <<[r |-> 3, kind |-> "rem"]>>
RECURSIVE Add(_, _)
Add(t, w) == IF w = <<>> THEN t ELSE Add(AddReq(t, Head(w).r, Head(w).kind, 100 + Head(w).r), Tail(w))
Rs(w) == [i \in DOMAIN w |-> w[i].r]
Bodies == {<<"respond_ses_info", TRUE>>, <<"respond_removals", TRUE>>, <<"respond_removals", FALSE>>,
           <<"reject_removals_request", TRUE>>, <<"new_peak_wallet", TRUE>>, <<"respond_children", TRUE>>}
Targets == IF stage = 1 THEN {[k |-> "r", r |-> 1], [k |-> "r", r |-> 2], [k |-> "none"], [k |-> "abs", id |-> 2]}
           ELSE {[k |-> "r", r |-> 1], [k |-> "r", r |-> 3], [k |-> "abs", id |-> 1]}
IdOf(t) == CASE t.k = "none" -> None [] t.k = "abs" -> Some(t.id) [] OTHER -> Some(s.reqs[t.r].id)
Init == s = S0 /\ script = <<>> /\ stage = 0 /\ n = 0
Wave(w, st) == /\ s' = WaveF(CompleteAllF(Add(s, w)), Rs(w))
               /\ script' = Append(script, [k |-> "wave", rs |-> w]) /\ stage' = st /\ n' = 0
Reply == /\ stage \in {1, 2} /\ n < (IF stage = 1 THEN N1 ELSE N2)
         /\ \E t \in Targets, b \in Bodies :
              /\ s' = ReplyF(s, [id |-> IdOf(t), ty |-> b[1], v |-> 10 * stage + n + 1, good |-> b[2], data |-> <<>>])
              /\ script' = Append(script, [k |-> "reply", to |-> t, ty |-> b[1], v |-> 10 * stage + n + 1, good |-> b[2]])
         /\ n' = n + 1 /\ UNCHANGED stage
Close == /\ stage \in {1, 2} /\ s' = ReplyF(s, CloseMsg) /\ script' = Append(script, [k |-> "close"]) /\ stage' = 9 /\ n' = 0
Finish == stage \in {1, 2} /\ stage' = 9 /\ UNCHANGED <<s, script, n>>
Next == \/ stage = 0 /\ Wave(W1, 1)
        \/ stage = 1 /\ n >= 1 /\ Wave(W2, 2)
        \/ Reply \/ Close \/ Finish
Inv == AllProps(CompleteAllF(s))
Emit == stage = 9 => PrintT(<<"CASE", ToJson([steps |-> script])>>)
=============================================================================
