INIT Init
NEXT Next
CONSTANT Mode = "dag"
CONSTANT NPairs = 5
CONSTANT MaxOps = 6
CONSTANT Full = TRUE
CONSTANT EmitOneIn = 1
CONSTANT Kinds = {"visit", "cached", "insert"}
INVARIANT TableOK
INVARIANT SlotsCorrect
INVARIANT CacheShape
INVARIANT RefAgreesOnAlloc
INVARIANT AtomFastPathSound
INVARIANT LastResultCorrect
INVARIANT Emit
PROPERTY ResultStep
PROPERTY EmitStep
PROPERTY MemoStable
CHECK_DEADLOCK FALSE
