CONSTANTS MaxLen = 130 NRand = 60 RandMaxLen = 200 NOps = 30
INIT Init
NEXT Next
INVARIANT PureEqualsOverride
INVARIANT NistVectors
INVARIANT WordOps
INVARIANT Stats
CHECK_DEADLOCK FALSE
