INIT InitH
NEXT NextH
VIEW View
CONSTANT NT = 2
CONSTANT MaxPairs = 2
CONSTANT Caps = {1, 2}
CONSTANT Menu = "small"
CONSTANT Reduce = TRUE
CONSTANT EmitMod = 1
INVARIANT Bounded
INVARIANT NoDup
INVARIANT CacheCoherent
INVARIANT Transparent
INVARIANT Progress
INVARIANT HistOK
INVARIANT Emit
CHECK_DEADLOCK FALSE
