------------------------------- MODULE MC_Lib -------------------------------
(* Self test of the shared library: SHA-256 override (NIST vectors), BigNat  *)
(* algebra on the boundary lattice, ClvmInt canonical-form lemmas.           *)
EXTENDS ClvmInt, ClvmSer, TLC

ShaAbc == <<186,120,22,191,143,1,207,234,65,65,64,222,93,174,34,35,176,3,97,163,150,23,122,156,180,16,255,97,242,0,21,173>>
ShaEmpty == <<227,176,196,66,152,252,28,20,154,251,244,200,153,111,185,36,39,174,65,228,100,155,147,76,164,149,153,27,120,82,184,85>>
ASSUME SHA256(<<97,98,99>>) = ShaAbc
ASSUME SHA256(<<>>) = ShaEmpty

Lattice == {<<>>, <<1>>, <<127>>, <<128>>, <<255>>, <<1,0>>, <<127,255>>, <<128,0>>, <<255,255>>,
            <<1,0,0>>, <<255,255,255,255>>, <<1,0,0,0,0>>, <<127,255,255,255,255,255,255,255>>,
            <<128,0,0,0,0,0,0,0>>, <<255,255,255,255,255,255,255,255>>, <<1,0,0,0,0,0,0,0,0>>}

ASSUME \A a \in Lattice : IsNat(a) /\ Add(a, Zero) = a /\ Sub(a, a) = Zero /\ Cmp(a, a) = 0
ASSUME \A a, b \in Lattice : Add(a, b) = Add(b, a) /\ Sub(Add(a, b), b) = a /\ Le(a, Add(a, b))
ASSUME \A a, b \in Lattice : (Lt(a, b) \/ Lt(b, a) \/ a = b) /\ ~(Lt(a, b) /\ Lt(b, a))
ASSUME \A a, b, c \in Lattice : Add(Add(a, b), c) = Add(a, Add(b, c))
ASSUME \A a \in Lattice : MulSmall(a, 2) = Add(a, a) /\ MulSmall(a, 0) = Zero /\ MulSmall(a, 1) = a
ASSUME \A a \in Lattice : MulSmall(a, 10000) = SumSeq([i \in 1..4 |-> MulSmall(a, 2500)])
ASSUME \A n \in {0, 1, 255, 256, 65535, 65536, 16777215, 16777216, 2147483647} : ToInt(Of(n)) = n
ASSUME Of(12000) = <<46, 224>>
ASSUME \A a \in Lattice : TwosValue(Enc(a)) = SNat(a) /\ IsCanonical(Enc(a))
ASSUME \A a \in Lattice \ {Zero} : TwosValue(EncNeg(a)) = SNeg(a) /\ IsCanonical(EncNeg(a))
ASSUME EncNeg(<<1>>) = <<255>> /\ EncNeg(<<128>>) = <<128>> /\ EncNeg(<<129>>) = <<255, 127>>
ASSUME EncNeg(<<1,0>>) = <<255, 0>> /\ EncNeg(<<128,0>>) = <<128, 0>>
ASSUME Sanitize(<<0>>, 8).k = "malformed" /\ Sanitize(<<0,127>>, 8).k = "malformed"
ASSUME Sanitize(<<0,128>>, 8) = [k |-> "ok", v |-> <<128>>]
ASSUME Sanitize(<<0,255,255,255,255>>, 4) = [k |-> "ok", v |-> U32MAX]
ASSUME Sanitize(<<1,0,0,0,0>>, 4).k = "pos" /\ Sanitize(<<128>>, 4).k = "neg"
ASSUME Ser(Cons(Atom(<<1>>), Atom(<<>>))) = <<255, 1, 128>>
ASSUME Ser(Atom([i \in 1..64 |-> 7])) = <<192, 64>> \o [i \in 1..64 |-> 7]
ASSUME InternedVBytes(Cons(Atom(<<42>>), Atom(<<42>>))) = 6
ASSUME InternedVBytes(Cons(Atom(<<1,2,3,4,5>>), Nil)) = 12
ASSUME TreeHash(Nil) = SHA256(<<1>>)
=============================================================================
