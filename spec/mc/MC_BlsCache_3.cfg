INIT InitH
NEXT NextH
VIEW View
CONSTANT NT = 3
CONSTANT MaxPairs = 2
CONSTANT Caps = {1, 2}
CONSTANT Menu = "small3"
CONSTANT Reduce = TRUE
CONSTANT EmitMod = 11
INVARIANT Bounded
INVARIANT NoDup
INVARIANT CacheCoherent
INVARIANT Transparent
INVARIANT Progress
INVARIANT HistOK
INVARIANT Emit
CHECK_DEADLOCK FALSE
