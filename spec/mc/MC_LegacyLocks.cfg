INIT Init
NEXT Next
CONSTANT MaxSlots = 2
CONSTANT MixedFull = FALSE
INVARIANT InvFirstFailure
INVARIANT InvDifferExactly
INVARIANT InvNoOverflowExact
INVARIANT InvNowrapIsCheckAgg
INVARIANT InvArith
INVARIANT Emit
CHECK_DEADLOCK FALSE
