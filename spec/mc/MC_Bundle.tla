------------------------------ MODULE MC_Bundle ------------------------------
(* C08 (M + G): over bundles of 1..2 spends with amounts from every          *)
(* encoding-length class and a small menu of reveals / solutions:            *)
(*  LenFormula : the predicted generator length equals the length of the     *)
(*               classic serialisation of the generator tree                 *)
(*  CostDelta  : block cost of the plain generator - mempool cost = the      *)
(*               fixed quote-wrapper overhead (2 bytes + 20; 20 when interned)*)
(* Each bundle is emitted as a replay case.                                  *)
EXTENDS Bundle, CondMenus, TLC, Json

AmountsAll == {<<>>, <<1>>, <<127>>, <<128>>, <<127, 255>>, <<128, 0>>, <<127, 255, 255>>, <<128, 0, 0>>, <<127, 255, 255, 255>>, <<128, 0, 0, 0>>,
               <<127, 255, 255, 255, 255>>, <<128, 0, 0, 0, 0>>, <<127, 255, 255, 255, 255, 255>>, <<128, 0, 0, 0, 0, 0>>,
               <<127, 255, 255, 255, 255, 255, 255>>, <<128, 0, 0, 0, 0, 0, 0>>, <<127, 255, 255, 255, 255, 255, 255, 255>>,
               <<128, 0, 0, 0, 0, 0, 0, 0>>, <<255, 255, 255, 255, 255, 255, 255, 255>>}
QuoteP(conds) == Cons(A1, conds)
Conds == {Nil, L(<<Cons(Op(51), L(<<Atom(Z2), Atom(<<>>)>>))>>), L(<<Cons(Op(51), L(<<Atom(Z2), Atom(<<>>), L(<<Atom(H5)>>)>>)), Cons(Op(60), L(<<Atom(<<3>>)>>))>>),
          L(<<Cons(Op(73), L(<<Atom(<<9>>)>>))>>), L(<<Cons(Atom(<<42>>), Nil)>>)}
PuzSol == {<<QuoteP(c), Nil>> : c \in Conds} \cup {<<QuoteP(Nil), Atom(Bytes(70, 5))>>, <<A1, L(<<Cons(Op(1), Nil)>>)>>, <<L(<<Atom(<<8>>)>>), Nil>>}
Flags == {{}, {"COST_CONDITIONS"}, {"INTERNED_GENERATOR"}, {"INTERNED_GENERATOR", "COST_CONDITIONS", "NO_UNKNOWN_CONDS", "STRICT_ARGS_COUNT", "LIMIT_SPENDS"}}

Picks == {<<"one", a, ps, f, w>> : a \in AmountsAll, ps \in PuzSol, f \in Flags, w \in BOOLEAN}
         \cup {<<"two", a, ps, f>> : a \in {<<>>, <<128>>, <<128, 0, 0, 0, 0, 0, 0, 0>>}, ps \in PuzSol, f \in Flags}

\* the identity puzzle 1 returns its solution (cost 44); (q . X) returns X (cost 20); (x) raises
OracleRun(p, sol) == IF p = A1 THEN [ok |-> TRUE, cost |-> <<44>>, res |-> sol]
                     ELSE IF IsPair(p) /\ p.l = A1 THEN [ok |-> TRUE, cost |-> <<20>>, res |-> p.r]
                     ELSE [ok |-> FALSE, cost |-> Zero, res |-> Nil]
MkSpend(parent, amt, ps, wrong) == [parent |-> parent, ph |-> IF wrong THEN Bytes(32, 7) ELSE TreeHash(ps[1]), amt |-> amt, puzzle |-> ps[1], solution |-> ps[2],
                                    plen |-> SerLen(ps[1]), slen |-> SerLen(ps[2])]
SpendsOf(p) == IF p[1] = "one" THEN <<MkSpend(P1, p[2], p[3], p[5])>>
               ELSE <<MkSpend(P1, p[2], p[3], FALSE), MkSpend(P2, <<0, 200>>, <<QuoteP(Nil), Nil>>, FALSE)>>
FlagSeq(f) == LET RECURSIVE G(_)
                  G(S) == IF S = {} THEN <<>> ELSE LET x == CHOOSE x \in S : TRUE IN <<x>> \o G(S \ {x})
              IN G(f)
BigMax == <<2, 143, 166, 174, 0>>
EventOf(p) == LET ss == SpendsOf(p) IN
  [spends |-> ss, flags |-> FlagSeq(p[4] \cup {"DONT_VALIDATE_SIGNATURE"}), max |-> BigMax, cpb |-> Of(12000), consts |-> Doms, vk |-> <<>>,
   runs |-> [i \in DOMAIN ss |-> OracleRun(ss[i].puzzle, ss[i].solution)]]

VARIABLES pick, phase
Init == pick \in Picks /\ phase = 0
Next == phase = 0 /\ phase' = 1 /\ UNCHANGED pick
E == EventOf(pick)

LenFormula == phase = 1 => Len(Ser(GeneratorTree(E))) = PredictedLen(E)
CostDelta == phase = 1 =>
  LET d == Direct(E) IN
  d.ok => BlockCost(E, PredictedLen(E), d, Interned(E)) = Add(d.cost, IF Interned(E) THEN <<20>> ELSE QuoteOverhead(E))
Emit == phase = 1 => PrintT(<<"CASE", ToJson([flags |-> E.flags,
          spends |-> [i \in DOMAIN E.spends |-> [parent |-> E.spends[i].parent, amt |-> E.spends[i].amt, puzzle |-> E.spends[i].puzzle,
                                                  solution |-> E.spends[i].solution, wrong_ph |-> (pick[1] = "one" /\ pick[5])]]])>>)
=============================================================================
