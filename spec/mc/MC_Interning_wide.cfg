INIT Init
NEXT Next
CHECK_DEADLOCK FALSE
CONSTANT Mode = "dag"
CONSTANT Alphabet = "wide"
CONSTANT NAtoms = 2
CONSTANT NPairs = 3
CONSTANT AtomsFirst = TRUE
CONSTANT MaxOps = 0
CONSTANT Cpbs = {1}
CONSTANT MaxCost = 100000000
CONSTANT Menu = {}
CONSTANT EmitOneIn = 1
CONSTANT Batches <- BatchesNone
INVARIANT TableOK
INVARIANT InternerOK
INVARIANT AgreesWithLib
INVARIANT ValueOnly
INVARIANT HashFormAgrees
INVARIANT ValueLawsAgree
INVARIANT UniqueAreSubTrees
INVARIANT SerRelation
INVARIANT TriangleInv
INVARIANT WrapperIs11
INVARIANT Emit
