INIT Init
NEXT Next
CONSTANT Mode = "gen"
CONSTANT MaxLen = 6
CONSTANT Alphabet = {0, 1, 2, 3, 255}
CONSTANT LenW = 4
CONSTANT HashW = 32
CONSTANT G1W = 48
CONSTANT G2W = 96
INVARIANT NoOracleGaps
INVARIANT Canon
INVARIANT PrefixFree
INVARIANT TrustedAgrees
INVARIANT HashIsShaOfEncoding
INVARIANT RoundTrip
INVARIANT Emit
CHECK_DEADLOCK FALSE
