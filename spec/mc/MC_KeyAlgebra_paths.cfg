INIT Init
NEXT Next
CONSTANT Mode = "paths"
CONSTANT MaxTerms = 0
CONSTANT EmitBelow = 0
CONSTANT ChainLen = 1
CONSTANT Seeds = {"s1", "s2"}
CONSTANT Idx <- IdxAll
CONSTANT Hid = {"D"}
CONSTANT Msg = {"m1"}
INVARIANT Closed
INVARIANT Typed
INVARIANT CommuteDerive
INVARIANT CommuteSynthetic
INVARIANT CommuteAdd
INVARIANT SerIdentity
INVARIANT SignDeterministic
INVARIANT SignSeparates
INVARIANT PubInjective
INVARIANT HardenedFresh
INVARIANT IndexSeparates
INVARIANT PathLaw
INVARIANT PoolAuthLaw
INVARIANT Emit
CHECK_DEADLOCK FALSE
