--------------------------- MODULE MC_Sha256Stream ---------------------------
(* X08 (M + G): every chunking of a patterned message with chunk lengths from *)
(* Lens (<= MaxUpd updates, <= MaxTot bytes per hasher), and in mode "clone"   *)
(* (<= CloneMaxUpd updates in total)                                           *)
(* every history with one Clone of hasher 1 at any point, the two hashers then *)
(* diverging (different data) in every interleaving, chunk lengths CloneLens.  *)
(* With BlkMax >= MaxTot the block-buffer machine runs in pure TLA+ and        *)
(* ChunkingIrrelevant says it equals the one-shot pure definition and the      *)
(* override; with BlkMax = 0 only  the override is used (cheap case            *)
(* generation over the full menu). Each finished history is emitted as a CASE. *)
EXTENDS Sha256Stream, TLC, Json
CONSTANTS Lens, CloneLens, MaxUpd, CloneMaxUpd, MaxTot, Modes
VARIABLES hist, mode
vars == <<hs, hist, mode>>

Pat(i, p) == (p * 31 + i * 101 + (p \div 64) * 7 + 5) % 256
Chunk(i, n) == [k \in 1..n |-> Pat(i, Len(hs[i].absorbed) + k)]
NUpd == Len(SelectSeq(hist, LAMBDA o : o[1] = "u"))
Cloned == Len(hs) > 1
Menu == IF mode = "clone" THEN CloneLens ELSE Lens

Init == hs = <<Fresh>> /\ hist = <<>> /\ mode \in Modes
Next ==
  \/ \E i \in DOMAIN hs, n \in Menu :
       /\ NUpd < (IF mode = "clone" THEN CloneMaxUpd ELSE MaxUpd) /\ Live(i) /\ Len(hs[i].absorbed) + n <= MaxTot
       /\ Update(i, Chunk(i, n)) /\ hist' = Append(hist, <<"u", i, n>>) /\ UNCHANGED mode
  \/ /\ mode = "clone" /\ ~Cloned /\ Clone(1) /\ hist' = Append(hist, <<"c", 1, 0>>) /\ UNCHANGED mode
  \/ \E i \in DOMAIN hs :
       /\ mode = "clone" => Cloned
       /\ Finalize(i) /\ hist' = Append(hist, <<"f", i, 0>>) /\ UNCHANGED mode

AllDone == \A i \in DOMAIN hs : hs[i].done
\* clone-and-continue: the two hashers share exactly the bytes absorbed before the fork,
\* both digests are right, and they differ iff the inputs differ
RECURSIVE SumU(_, _)
SumU(s, j) == IF j = 0 THEN 0 ELSE (IF s[j][1] = "u" THEN s[j][3] ELSE 0) + SumU(s, j - 1)
ForkInv == (AllDone /\ Cloned) =>
             LET at == CHOOSE j \in DOMAIN hist : hist[j][1] = "c"
                 p == SumU(hist, at) IN
             /\ SubSeq(hs[1].absorbed, 1, p) = SubSeq(hs[2].absorbed, 1, p)
             /\ DigestOk(hs[1]) /\ DigestOk(hs[2])
             /\ (hs[1].absorbed = hs[2].absorbed) <=> (hs[1].digest = hs[2].digest)
Emit == AllDone => PrintT(<<"CASE", ToJson([ops |-> hist])>>)
=============================================================================
