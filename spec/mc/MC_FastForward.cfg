INIT Init
NEXT Next
CONSTANT MaxDev = 2
CONSTANT Bases = "mid"
INVARIANT RefusesInv
INVARIANT ThreeFieldsInv
INVARIANT SoundInv
INVARIANT GuardTable
INVARIANT Emit
CHECK_DEADLOCK FALSE
