INIT Init
NEXT Next
CONSTANT MaxLen = 2
CONSTANT Menu = "quick"
CONSTANT Forks = {{}}
INVARIANT Injective
INVARIANT DedupRule
INVARIANT FpTotal
INVARIANT ForkIndependent
INVARIANT Emit
CHECK_DEADLOCK FALSE
