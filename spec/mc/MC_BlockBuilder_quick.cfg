SPECIFICATION Spec
VIEW View
CONSTANT Configs <- ConfigsBoth
CONSTANT ClassNames <- ClassesABC
CONSTANT Labels <- LabelsAll
CONSTANT MaxBatch = 2
CONSTANT MaxAdds = 4
CONSTANT TrackHist = FALSE
PROPERTY AllOrNothing
INVARIANT EstimateUpper
INVARIANT StaleGap
INVARIANT WithinLimit
INVARIANT FinalizeEnabled
INVARIANT OutputIsAccepted
INVARIANT SigIsAggregate
INVARIANT CostIsConsensus
INVARIANT LaterOutputUnaffected
INVARIANT CompressedSizeDetermined
INVARIANT ExactInEnvelope
INVARIANT AcceptWithinLimit
INVARIANT DoneMeansNoRoom
INVARIANT RejectDone
CHECK_DEADLOCK FALSE
