SPECIFICATION SpecL
CONSTANT NT = 2
CONSTANT MaxPairs = 1
CONSTANT Caps = {1}
CONSTANT Menu = "small"
CONSTANT Reduce = FALSE
CONSTANT EmitMod = 1
PROPERTY Termination
INVARIANT Transparent
CHECK_DEADLOCK FALSE
