INIT Init
NEXT Next
CONSTANT Depth = 1
INVARIANT AcceptedBlockOk
INVARIANT Emit
CHECK_DEADLOCK FALSE
