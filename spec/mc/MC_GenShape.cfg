INIT Init
NEXT Next
CONSTANT Depth = 1
INVARIANT AcceptedBlockOk
INVARIANT RefSelOk
INVARIANT Emit
CHECK_DEADLOCK FALSE
