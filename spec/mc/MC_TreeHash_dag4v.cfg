INIT Init
NEXT Next
CONSTANT Mode = "dag"
CONSTANT NPairs = 4
CONSTANT MaxOps = 4
CONSTANT Full = FALSE
INVARIANT TableOK
INVARIANT LastResultCorrect
INVARIANT SlotsCorrect
INVARIANT CacheShape
INVARIANT RefAgreesOnAlloc
INVARIANT Emit
PROPERTY MemoStable
CHECK_DEADLOCK FALSE
VIEW ViewNoHist
