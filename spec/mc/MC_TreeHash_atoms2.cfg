INIT Init
NEXT Next
CONSTANT Mode = "atoms"
CONSTANT NPairs = 1
CONSTANT MaxOps = 2
CONSTANT Full = TRUE
CONSTANT EmitOneIn = 1
CONSTANT Kinds = {"visit", "cached", "insert", "novisit", "plain", "bytes", "bytes_br", "enc"}
INVARIANT TableOK
INVARIANT SlotsCorrect
INVARIANT CacheShape
INVARIANT RefAgreesOnAlloc
INVARIANT AtomFastPathSound
INVARIANT LastResultCorrect
INVARIANT Emit
PROPERTY ResultStep
PROPERTY EmitStep
PROPERTY MemoStable
CHECK_DEADLOCK FALSE
