---------------------------- MODULE MC_Interning ----------------------------
(* X04 (M + G). Mode "dag": every node table with <= NAtoms atom nodes over  *)
(* Alphabet (duplicates allowed) and <= NPairs pair nodes with arbitrary     *)
(* children at smaller indices; the root is the last node (everything else   *)
(* may be shared, duplicated or unreachable garbage). AtomsFirst = TRUE      *)
(* restricts the tables to "all atoms before all pairs".                     *)
(* Mode "hist": every history of <= MaxOps add_spend_bundles calls on the    *)
(* interned block builder over a menu of spends with designed sharing; the   *)
(* declared cost of each call is chosen on / next to each of the three       *)
(* guards, so that accept, rejection before the build, rejection after the   *)
(* tentative build (rollback) and "block full" are all explored.             *)
(* Every table / complete history is emitted as a replay case (EmitOneIn > 1:*)
(* all histories are model checked, a random 1/EmitOneIn of them is emitted).*)
EXTENDS Interning, Json

CONSTANTS Mode, Alphabet, NAtoms, NPairs, AtomsFirst, MaxOps, Cpbs, MaxCost, Menu, Batches, EmitOneIn

VARIABLES tbl, bs, cfg, ops
vars == <<tbl, bs, cfg, ops>>

\* ------------------------------------------------------------ atoms / spends of the menus
A32a == [i \in 1..32 |-> 17]
A32b == [i \in 1..32 |-> (i * 7 + 3) % 256]
A70  == [i \in 1..70 |-> 200]
AlphabetOf(name) ==
  CASE name = "tiny"  -> {<<>>, <<1>>}
    [] name = "small" -> {<<>>, <<1>>, <<1, 2, 3>>}
    [] name = "mid"   -> {<<>>, <<1>>, <<128>>, <<1, 2, 3>>}
    [] name = "wide"  -> {<<>>, <<0>>, <<1>>, <<128>>, <<1, 2, 3>>, A32a, A70}
Atoms == AlphabetOf(Alphabet)

Q0 == Cons(Atom(<<1>>), Nil)                                  \* (q)      runnable: no conditions
Q1 == Cons(Atom(<<1>>), Cons(Q0, Nil))                        \* (q (q))  contains Q0
Q2 == Cons(Cons(Atom(<<2>>), Atom(<<2>>)), Cons(Atom(<<2>>), Atom(<<2>>)))   \* repeated subtree
SpendOf(name) ==
  CASE name = "s1" -> [parent |-> A32a, puzzle |-> Q0, amount |-> <<1>>, solution |-> Nil]
    [] name = "s2" -> [parent |-> A32b, puzzle |-> Q0, amount |-> <<1>>, solution |-> Nil]        \* s1 with another parent
    [] name = "s3" -> [parent |-> A32a, puzzle |-> Q1, amount |-> <<0, 200>>, solution |-> Q0]      \* solution = a puzzle of s1
    [] name = "s4" -> [parent |-> A32b, puzzle |-> Q1, amount |-> <<>>, solution |-> Cons(Atom(A32a), Atom(<<0, 200>>))]
    [] name = "s5" -> [parent |-> A32b, puzzle |-> Q2, amount |-> <<2>>, solution |-> Q2]
    [] name = "s6" -> [parent |-> A32a, puzzle |-> Atom(<<>>), amount |-> <<>>, solution |-> Nil]  \* three nils
\* a batch = sequence of bundles = sequence of sequences of spend names
BatchesNone == {}
BatchesQuick == {<<<<"s1", "s2">>>>, <<<<"s3">>, <<"s1">>>>}
BatchesFull == {<<<<"s1", "s2">>>>, <<<<"s3">>, <<"s1">>>>, <<<<"s1">>, <<"s1">>>>, <<<<"s5", "s4">>, <<"s6">>>>}
BatchSet == {<<<<n>>>> : n \in Menu} \cup Batches
Concrete(batch) == [i \in DOMAIN batch |-> [j \in DOMAIN batch[i] |-> SpendOf(batch[i][j])]]

\* ------------------------------------------------------------ dag mode
NAtomNodes == Cardinality({i \in DOMAIN tbl : IsANode(tbl[i])})
NPairNodes == Cardinality({i \in DOMAIN tbl : IsPNode(tbl[i])})
DagInit == tbl \in {<<ANode(b)>> : b \in Atoms}
DagNext == \/ /\ NAtomNodes < NAtoms /\ (AtomsFirst => NPairNodes = 0)
              /\ \E b \in Atoms : tbl' = Append(tbl, ANode(b))
           \/ /\ NPairNodes < NPairs
              /\ \E i, j \in DOMAIN tbl : tbl' = Append(tbl, PNode(i, j))

\* ------------------------------------------------------------ hist mode
\* the state holds spend NAMES (small states); the invariants look at the concrete spends
AllNames == {"s1", "s2", "s3", "s4", "s5", "s6"}
IsoOfName == [n \in AllNames |-> IsoVB(SpendOf(n))]              \* constant: evaluated once
NamesOf(batch) == Flatten(batch)
IsoOfNames(ns) == SeqX!FoldLeft(LAMBDA acc, n : acc + IsoOfName[n], 0, ns)
ConcreteSeq(ns) == [i \in DOMAIN ns |-> SpendOf(ns[i])]
CB == [bs EXCEPT !.acc = ConcreteSeq(bs.acc)]                       \* the builder state over concrete spends

\* declared costs on / next to every guard of add_spend_bundles, computed from the current state
DeclaredChoices(tent) ==
  LET room == cfg.max - CostOf(cfg, bs) IN
  {d \in {0, 4000, room - tent - MinCostThreshold, room - tent - MinCostThreshold + 1, room - tent, room - tent + 1, room, room + 1} : d >= 0}
IsFull == CostOf(cfg, bs) + MinCostThreshold > cfg.max
\* once the block is full every call takes the first exit: one representative call is enough
HistNext == /\ Len(ops) < MaxOps
            /\ \E batch \in (IF IsFull THEN {<<<<"s1">>>>} ELSE BatchSet) :
                 LET ns == NamesOf(batch)
                     new == IsoOfNames(ns) IN
                 \E d \in (IF IsFull THEN {0} ELSE DeclaredChoices(new * cfg.cpb)) :
                   LET r == AddResultN(cfg, bs, ns, new, d) IN
                   /\ bs' = r.b
                   /\ ops' = Append(ops, [batch |-> batch, declared |-> d, exit |-> r.exit, added |-> r.added, done |-> r.done, cost |-> CostOf(cfg, r.b)])

Init == /\ ops = <<>> /\ bs = B0
        /\ IF Mode = "dag" THEN DagInit /\ cfg = [cpb |-> 1, max |-> MaxCost]
           ELSE tbl = <<>> /\ cfg \in [cpb : Cpbs, max : {MaxCost}]
Next == IF Mode = "dag" THEN DagNext /\ UNCHANGED <<bs, cfg, ops>>
        ELSE HistNext /\ UNCHANGED <<tbl, cfg>>

\* ------------------------------------------------------------ invariants, dag mode
IsDag == Mode = "dag"
Root == Len(tbl)
X == Unfold(tbl, Root)
It == InternT(tbl, Root)

TableOK == IsDag => WellFormedT(tbl)
InternerOK == IsDag => InternedOK(It)
\* the explicit interner over the table = the library's value-level definition (shared by C07 / C08 / C10)
AgreesWithLib == IsDag => VBytesT(tbl, Root) = InternedVBytes(X)
HashFormAgrees == IsDag => VBytesH(tbl, Root) = VBytesT(tbl, Root)
ValueLawsAgree == IsDag => (ValueLaws(X, VB(X)) <=> (ClosedForm(X) /\ BelowTreeWeight(X) /\ SerBounds(X)))
\* (a) only the value counts: the unshared re-allocation of the same tree, in either order, and the
\*     table with the wrapper appended (as a table / as a value) give the same sizes
ValueOnly == IsDag => /\ \A rf \in BOOLEAN : LET u == AllocTree(<<>>, X, rf) IN VBytesT(u.t, u.n) = VBytesT(tbl, Root)
                      /\ LET w == WrapDeadT(tbl, Root) IN VBytesT(w.t, w.n) = VB(WrapDead(X))
\* the unique atoms / pairs are exactly the distinct subtrees
UniqueAreSubTrees == IsDag => LET st == SubTrees(X) IN
                      /\ {It.atoms[k] : k \in DOMAIN It.atoms} = {y.a : y \in {z \in st : IsAtom(z)}}
                      /\ Len(It.pairs) = Cardinality({z \in st : IsPair(z)})
\* (b)
SerRelation == IsDag => ClosedForm(X) /\ BelowTreeWeight(X) /\ SerBounds(X)
\* (c) for every pair root: the two children are two trees A, B of the same allocator
TriangleInv == (IsDag /\ IsPNode(tbl[Root])) =>
                 /\ Triangle(Unfold(tbl, tbl[Root].l), Unfold(tbl, tbl[Root].r))
                 /\ VBytesT(tbl, Root) <= VBytesT(tbl, tbl[Root].l) + VBytesT(tbl, tbl[Root].r) + PairVB

\* ------------------------------------------------------------ invariants, hist mode
IsHist == Mode = "hist"
\* (d) the accumulated estimate is the from-scratch sum over the accepted spends: nothing of a rejected batch stays
Accumulation == IsHist => EstIsSum(CB) /\ CostOf(cfg, CB) = EstVB(CB.acc) * cfg.cpb + CB.block
\* ... it is an upper bound of the exact size, never equal to it once a spend is in
UpperBound == IsHist => EstUpper(CB) /\ CostOf(cfg, CB) >= FinalCost(cfg, CB)
Monotone == IsHist => ExactMonotone(CB.acc)
\* finalize(): assert!(total_cost <= max_block_cost) cannot fire
WithinLimit == IsHist => FinalCost(cfg, CB) <= cfg.max /\ CostOf(cfg, CB) <= cfg.max
\* the allocator after the history interns to the exact size of the value: btR = with restore_checkpoint on
\* rejection (only accepted batches were ever allocated), btL = the same allocator WITHOUT the restore (the nodes
\* of batches rejected after the tentative build stay behind as garbage)
TableAfter(leaky) ==
  LET Step(bt, o) == IF o.added THEN AllocSpends(bt, ConcreteSeq(NamesOf(o.batch)))
                     ELSE IF leaky /\ o.exit = "rollback" THEN [t |-> AllocSpends(bt, ConcreteSeq(NamesOf(o.batch))).t, list |-> bt.list]
                     ELSE bt
  IN SeqX!FoldLeft(Step, BuilderTable0, ops)
TablesExact == IsHist => \A leaky \in BOOLEAN :
                 LET f == FinalTable(TableAfter(leaky)) IN Unfold(f.t, f.n) = GenTree(CB.acc) /\ VBytesT(f.t, f.n) = ExactVB(CB.acc)
\* rejected calls change nothing but the skipped counter
RejectStutters == [][IsHist => LET o == ops'[Len(ops')] IN
                       IF o.added THEN bs'.acc = bs.acc \o NamesOf(o.batch) /\ bs'.block = bs.block + o.declared
                       ELSE <<bs'.acc, bs'.est, bs'.block>> = <<bs.acc, bs.est, bs.block>> /\ o.cost = CostOf(cfg, bs)]_vars
WrapperIs11 == VB(GenTree(<<>>)) = WrapperVB

\* ------------------------------------------------------------ cases
DagCase == [k |-> "tree", tbl |-> tbl, root |-> Root]
HistCase == [k |-> "hist", cpb |-> cfg.cpb, max |-> cfg.max,
             ops |-> [i \in DOMAIN ops |-> [batch |-> Concrete(ops[i].batch), declared |-> ops[i].declared]],
             exits |-> [i \in DOMAIN ops |-> ops[i].exit]]
Emit == IF IsDag THEN PrintT(<<"CASE", ToJson(DagCase)>>)
        ELSE ((Len(ops) = MaxOps /\ (EmitOneIn = 1 \/ RandomElement(1..EmitOneIn) = 1)) => PrintT(<<"CASE", ToJson(HistCase)>>))
=============================================================================
