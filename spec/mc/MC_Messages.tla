----------------------------- MODULE MC_Messages -----------------------------
(* X09 (M + G): the standalone message machine explored by TLC over small    *)
(* bundles. A behaviour fixes the input (spends, flags) and a pair of modes, *)
(* then applies up to MaxConds SEND/RECEIVE conditions from a menu (any      *)
(* spend, any target incl. a coin that is not in the bundle, all argument    *)
(* shapes) and finishes. Invariants: acceptance = equal counts = perfect     *)
(* matching; confluence (every order of the conditions and of the spends     *)
(* gives the same verdict); a receive only balances sends of the same mode   *)
(* whose commitments are true of the actual sender and receiver; the byte    *)
(* key of the code is injective on the structured keys; messages to or from  *)
(* coins outside the bundle are rejected. Every finished behaviour is also   *)
(* emitted as a replay case.                                                 *)
EXTENDS Messages, Json

CONSTANTS NSpends,      \* 2 or 3
          MaxConds,
          Kind,         \* "same" | "cross" | "shapes"
          Stricts       \* set of BOOLEAN

H(i) == [j \in 1..32 |-> i]
\* spends 1,2 share the parent, 2,3 share the puzzle hash, 1,3 share the amount: partial commitments are ambiguous
AllSpends == << MkSpend(H(1), H(11), <<200>>), MkSpend(H(1), H(12), <<1, 0>>), MkSpend(H(3), H(12), <<200>>) >>
Ghost == MkSpend(H(9), H(19), <<7>>)          \* a coin that is NOT in the bundle
TheSpends == SubSeq(AllSpends, 1, NSpends)
Target(j) == IF j = 0 THEN Ghost ELSE TheSpends[j]

AllShapes == {"ok", "msg2", "mode_lz", "mode_hi", "mode_neg", "mode_pair", "mode_2b", "msg_pair", "msg_long",
              "h31first", "h33last", "hpair_last", "amt_lz", "amt_neg", "amt_big", "amt_pair", "amt_u64",
              "missing", "none", "extra", "extra_pair", "tail", "coinid3", "parts_for_id", "id_for_parts"}

NHash(m) == IF m = 7 THEN 1 ELSE (IF Bit(m, 4) THEN 1 ELSE 0) + (IF Bit(m, 2) THEN 1 ELSE 0)
HasAmt(m) == m # 7 /\ Bit(m, 1)
Parts(sp) == <<Atom(sp.parent), Atom(sp.ph), Atom(Enc(sp.amt))>>
IdItems(m, sp) ==
  IF m = 7 THEN <<Atom(sp.id)>>
  ELSE (IF Bit(m, 4) THEN <<Atom(sp.parent)>> ELSE <<>>) \o (IF Bit(m, 2) THEN <<Atom(sp.ph)>> ELSE <<>>)
       \o (IF Bit(m, 1) THEN <<Atom(Enc(sp.amt))>> ELSE <<>>)

Repl(s, i, x) == [s EXCEPT ![i] = x]
\* the id argument list (an S-expression) of mode m naming spend sp, deformed by shape sh
IdArgs(m, sp, sh) ==
  LET s == IdItems(m, sp) n == Len(s) k == NHash(m) IN
  CASE sh = "h31first" /\ k > 0 -> ListOf(Repl(s, 1, Atom(SubSeq(s[1].a, 1, 31))))
    [] sh = "h33last" /\ k > 0 -> ListOf(Repl(s, k, Atom(s[k].a \o <<0>>)))
    [] sh = "hpair_last" /\ k > 0 -> ListOf(Repl(s, k, Cons(s[k], Nil)))
    [] sh = "amt_lz" /\ HasAmt(m) -> ListOf(Repl(s, n, Atom(<<0>> \o s[n].a)))
    [] sh = "amt_neg" /\ HasAmt(m) -> ListOf(Repl(s, n, Atom(<<128, 0>>)))
    [] sh = "amt_big" /\ HasAmt(m) -> ListOf(Repl(s, n, Atom(<<1, 0, 0, 0, 0, 0, 0, 0, 0>>)))
    [] sh = "amt_u64" /\ HasAmt(m) -> ListOf(Repl(s, n, Atom(<<0, 255, 255, 255, 255, 255, 255, 255, 255>>)))
    [] sh = "amt_pair" /\ HasAmt(m) -> ListOf(Repl(s, n, Cons(s[n], Nil)))
    [] sh = "missing" /\ n > 0 -> ListOf(SubSeq(s, 1, n - 1))
    [] sh = "none" -> Nil
    [] sh = "extra" -> ListOf(s \o <<Atom(<<9>>)>>)
    [] sh = "extra_pair" -> ListOf(s \o <<Cons(Nil, Nil)>>)
    [] sh = "tail" -> ListWithTail(s, Atom(<<5>>))
    [] sh \in {"coinid3", "parts_for_id"} /\ m = 7 -> ListOf(Parts(sp))      \* the three attributes where ONE coin id is due
    [] sh = "id_for_parts" /\ m = 6 -> ListOf(<<Atom(sp.id)>>)               \* the coin id where parent, puzzle are due
    [] OTHER -> ListOf(s)

ModeAtom(m, sh) ==
  CASE sh = "mode_lz" -> Atom(<<0>> \o (IF m = 0 THEN <<>> ELSE <<m>>))
    [] sh = "mode_hi" -> Atom(<<64 + m>>)
    [] sh = "mode_neg" -> Atom(<<128 + m>>)
    [] sh = "mode_2b" -> Atom(<<1, m>>)
    [] sh = "mode_pair" -> Cons(Atom(IF m = 0 THEN <<>> ELSE <<m>>), Nil)
    [] OTHER -> Atom(IF m = 0 THEN <<>> ELSE <<m>>)
MsgAtom(sh) ==
  CASE sh = "msg2" -> Atom(<<2>>)
    [] sh = "msg_pair" -> Cons(Atom(<<1>>), Nil)
    [] sh = "msg_long" -> Atom([i \in 1..1025 |-> 1])
    [] OTHER -> Atom(<<1>>)

\* condition of spend i: op with mode m, the counterpart being spend/ghost j
MkCond(i, op, m, j, sh) ==
  [sp |-> i, op |-> op,
   args |-> Cons(ModeAtom(m, sh), Cons(MsgAtom(sh), IdArgs(IF op = SEND THEN DstMode(m) ELSE SrcMode(m), Target(j), sh)))]

ModePairs == IF Kind = "cross" THEN (0..63) \X (0..63) ELSE {<<m, m>> : m \in 0..63}
Idx == 1..NSpends

VARIABLES in, mm, st, log
vars == <<in, mm, st, log>>

Menu(n) ==
  CASE Kind = "cross" ->
         IF n = 1 THEN {MkCond(1, SEND, mm[1], 2, "ok")}
         ELSE {MkCond(2, RECEIVE, mm[2], 1, "ok")}
    [] Kind = "shapes" ->
         IF n = 1 THEN {MkCond(1, op, mm[1], 2, "ok") : op \in {SEND, RECEIVE}}
         ELSE {MkCond(2, op, mm[1], 1, sh) : op \in {SEND, RECEIVE}, sh \in AllShapes}
    [] OTHER ->
         IF n = 1 THEN {MkCond(1, op, mm[1], j, "ok") : op \in {SEND, RECEIVE}, j \in 0..NSpends}
         ELSE {MkCond(i, op, mm[1], j, sh) : i \in Idx, op \in {SEND, RECEIVE}, j \in 0..NSpends, sh \in {"ok"}}
           \cup {MkCond(i, op, mm[1], 1, "msg2") : i \in Idx, op \in {SEND, RECEIVE}}

Init == /\ mm \in ModePairs
        /\ in \in {[spends |-> TheSpends, strict |-> s, cc |-> TRUE] : s \in Stricts}
        /\ st = Start(in)
        /\ log = <<>>

Step == /\ ~st.done /\ st.err = "" /\ Len(log) < MaxConds
        /\ \E c \in Menu(Len(log) + 1) :
             /\ st' = ApplyCond(in, st, c.sp, c.op, c.args)
             /\ log' = Append(log, c)
        /\ UNCHANGED <<in, mm>>
Fin == /\ ~st.done
       /\ st' = FinishSt(st)
       /\ UNCHANGED <<in, mm, log>>
Next == Step \/ Fin

(* ------------------------------ invariants ------------------------------ *)
hh == st.hist
AllCounted == Len(hh) = Len(log)

\* the counters of the machine are the declarative counts
BalIsCount == /\ DOMAIN st.bal = Keys(hh)
              /\ \A k \in Keys(hh) : st.bal[k] = Count(hh, Sends(hh), k) - Count(hh, Recvs(hh), k)

\* accepted iff nothing was malformed and every key has as many sends as receives iff there is a perfect matching
AcceptIffMatched ==
  st.done => /\ Accepted(st) <=> (AllCounted /\ CountsEqual(hh))
             /\ AllCounted => (Accepted(st) <=> PerfectMatching(hh))

\* the verdict does not depend on the order of the conditions nor on the order of the spends
PermLog(p) == [n \in DOMAIN log |-> log[p[n]]]
RevIn == [in EXCEPT !.spends = [n \in DOMAIN in.spends |-> in.spends[NSpends + 1 - n]]]
RevLog(l) == [n \in DOMAIN l |-> [l[n] EXCEPT !.sp = NSpends + 1 - @]]
Confluent ==
  st.done => \A p \in Permutations(DOMAIN log) :
               /\ Accepted(Run(in, PermLog(p))) = Accepted(st)
               /\ Accepted(Run(RevIn, RevLog(PermLog(p)))) = Accepted(st)

\* a receive balances a send only if both carry the same mode, and then the commitments they state
\* are true: the receiving spend is what the sender addressed, the sending spend is what the receiver named
ModeIsolation ==
  \A a \in Sends(hh), b \in Recvs(hh) :
    hh[a].key = hh[b].key =>
      /\ hh[a].mode = hh[b].mode
      /\ Satisfies(in.spends[hh[b].sp], hh[a].key.dst)
      /\ Satisfies(in.spends[hh[a].sp], hh[b].key.src)
\* the two ways of naming one coin - mode 7 (coin id) and mode 6 (parent, puzzle) - never share a key
CoinIdFormDistinct ==
  \A a, b \in DOMAIN hh : (hh[a].key.dst.m # hh[b].key.dst.m \/ hh[a].key.src.m # hh[b].key.src.m) => hh[a].key # hh[b].key

\* the code's hash-map key (a plain concatenation) identifies the structured key
ByteKeyInjective ==
  \A a, b \in DOMAIN hh : (ByteKey(hh[a].key) = ByteKey(hh[b].key)) <=> (hh[a].key = hh[b].key)

\* every accepted message names, on both sides, a coin that is spent in the bundle
NoOutsiders ==
  Accepted(st) => \A a \in DOMAIN hh : /\ \E i \in Idx : Satisfies(in.spends[i], hh[a].key.dst)
                                      /\ \E i \in Idx : Satisfies(in.spends[i], hh[a].key.src)

\* number of id arguments consumed: popcount of the 3 bits, except 7 -> exactly one
NArgs(m) == IF m = 7 THEN 1 ELSE (IF Bit(m, 4) THEN 1 ELSE 0) + (IF Bit(m, 2) THEN 1 ELSE 0) + (IF Bit(m, 1) THEN 1 ELSE 0)
ArgCountRule ==
  \A m \in {mm[1], mm[2]}, op \in {SEND, RECEIVE} :
    LET om == IF op = SEND THEN DstMode(m) ELSE SrcMode(m)
        okc == MkCond(1, op, m, 2, "ok")
        mis == MkCond(1, op, m, 2, "missing")
        ext == MkCond(1, op, m, 2, "extra") IN
    /\ Len(Elems(okc.args.r.r)) = NArgs(om)
    /\ ParseCond(op, okc.args, TRUE).ok
    /\ NArgs(om) > 0 => ~ParseCond(op, mis.args, FALSE).ok
    /\ ~ParseCond(op, ext.args, TRUE).ok /\ ParseCond(op, ext.args, FALSE).ok

Emit == st.done => PrintT(<<"CASE", ToJson([spends |-> [n \in DOMAIN in.spends |->
                                 [parent |-> in.spends[n].parent, ph |-> in.spends[n].ph, amt |-> in.spends[n].amt]],
                               strict |-> in.strict, cc |-> in.cc, conds |-> log])>>)
=============================================================================
