---- MODULE MC_Streamable_TTrace_1790135023 ----
EXTENDS Sequences, TLCExt, MC_Streamable, Toolbox, Naturals, TLC

_expression ==
    LET MC_Streamable_TEExpression == INSTANCE MC_Streamable_TEExpression
    IN MC_Streamable_TEExpression!expression
----

_trace ==
    LET MC_Streamable_TETrace == INSTANCE MC_Streamable_TETrace
    IN MC_Streamable_TETrace!trace
----

_inv ==
    ~(
        TLCGet("level") = Len(_TETrace)
        /\
        phase = (1)
        /\
        x = ([b |-> <<1, 0, 0, 3, 9, 128, 1, 0, 1, 2, 3, 0>>, k |-> "bytes", t |-> [k |-> "vec", t |-> [k |-> "pos"]]])
    )
----

_init ==
    /\ phase = _TETrace[1].phase
    /\ x = _TETrace[1].x
----

_next ==
    /\ \E i,j \in DOMAIN _TETrace:
        /\ \/ /\ j = i + 1
              /\ i = TLCGet("level")
        /\ phase  = _TETrace[i].phase
        /\ phase' = _TETrace[j].phase
        /\ x  = _TETrace[i].x
        /\ x' = _TETrace[j].x

\* Uncomment the ASSUME below to write the states of the error trace
\* to the given file in Json format. Note that you can pass any tuple
\* to `JsonSerialize`. For example, a sub-sequence of _TETrace.
    \* ASSUME
    \*     LET J == INSTANCE Json
    \*         IN J!JsonSerialize("MC_Streamable_TTrace_1790135023.json", _TETrace)

=============================================================================

 Note that you can extract this module `MC_Streamable_TEExpression`
  to a dedicated file to reuse `expression` (the module in the 
  dedicated `MC_Streamable_TEExpression.tla` file takes precedence 
  over the module `MC_Streamable_TEExpression` below).

---- MODULE MC_Streamable_TEExpression ----
EXTENDS Sequences, TLCExt, MC_Streamable, Toolbox, Naturals, TLC

expression == 
    [
        \* To hide variables of the `MC_Streamable` spec from the error trace,
        \* remove the variables below.  The trace will be written in the order
        \* of the fields of this record.
        phase |-> phase
        ,x |-> x
        
        \* Put additional constant-, state-, and action-level expressions here:
        \* ,_stateNumber |-> _TEPosition
        \* ,_phaseUnchanged |-> phase = phase'
        
        \* Format the `phase` variable as Json value.
        \* ,_phaseJson |->
        \*     LET J == INSTANCE Json
        \*     IN J!ToJson(phase)
        
        \* Lastly, you may build expressions over arbitrary sets of states by
        \* leveraging the _TETrace operator.  For example, this is how to
        \* count the number of times a spec variable changed up to the current
        \* state in the trace.
        \* ,_phaseModCount |->
        \*     LET F[s \in DOMAIN _TETrace] ==
        \*         IF s = 1 THEN 0
        \*         ELSE IF _TETrace[s].phase # _TETrace[s-1].phase
        \*             THEN 1 + F[s-1] ELSE F[s-1]
        \*     IN F[_TEPosition - 1]
    ]

=============================================================================



Parsing and semantic processing can take forever if the trace below is long.
 In this case, it is advised to uncomment the module below to deserialize the
 trace from a generated binary file.

\*
\*---- MODULE MC_Streamable_TETrace ----
\*EXTENDS IOUtils, MC_Streamable, TLC
\*
\*trace == IODeserialize("MC_Streamable_TTrace_1790135023.bin", TRUE)
\*
\*=============================================================================
\*

---- MODULE MC_Streamable_TETrace ----
EXTENDS MC_Streamable, TLC

trace == 
    <<
    ([phase |-> 0,x |-> [b |-> <<1, 0, 0, 3, 9, 128, 1, 0, 1, 2, 3, 0>>, k |-> "bytes", t |-> [k |-> "vec", t |-> [k |-> "pos"]]]]),
    ([phase |-> 1,x |-> [b |-> <<1, 0, 0, 3, 9, 128, 1, 0, 1, 2, 3, 0>>, k |-> "bytes", t |-> [k |-> "vec", t |-> [k |-> "pos"]]]])
    >>
----


=============================================================================

---- CONFIG MC_Streamable_TTrace_1790135023 ----
CONSTANTS
    Mode = "scaled"
    MaxLen = 4
    Alphabet = { 0 , 1 , 2 , 128 , 192 , 255 }
    LenW = 1
    HashW = 1
    G1W = 2
    G2W = 2

INVARIANT
    _inv

CHECK_DEADLOCK
    \* CHECK_DEADLOCK off because of PROPERTY or INVARIANT above.
    FALSE

INIT
    _init

NEXT
    _next

CONSTANT
    _TETrace <- _trace

ALIAS
    _expression
=============================================================================
\* Generated on Wed Sep 23 03:45:15 UTC 2026