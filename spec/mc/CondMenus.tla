----------------------------- MODULE CondMenus -----------------------------
(* Systematic input menus for the condition machine (DESIGN C01): every     *)
(* opcode x argument-shape class, built inside the specification so that    *)
(* TLC enumerates the rule space instead of sampling it.                    *)
EXTENDS Conditions

H(n) == [i \in 1..32 |-> n]
P1 == H(1)  Z1 == H(2)  P2 == H(3)  Z2 == H(4)  H5 == H(5)  H6 == H(6)
GenKey == <<151, 241, 211, 167, 49, 151, 215, 148, 38, 149, 99, 140, 79, 169, 172, 15, 195, 104, 140, 79, 151, 116, 185, 5,
            161, 78, 58, 63, 23, 27, 172, 88, 108, 85, 232, 63, 249, 122, 26, 239, 251, 58, 240, 10, 219, 34, 198, 187>>
InfKey == <<192>> \o [i \in 1..47 |-> 0]
BadKey == [i \in 1..48 |-> 1]
Doms == [me |-> H(101), parent |-> H(102), puzzle |-> H(103), amount |-> H(104),
         puzzle_amount |-> H(105), parent_amount |-> H(106), parent_puzzle |-> H(107)]

Op(n) == Atom(<<n>>)
L(s) == ListOf(s)
A1 == Atom(<<1>>)
Extra == Atom(<<19, 55>>)
Bytes(n, v) == [i \in 1..n |-> v]

\* argument-list shapes around one argument x
Shapes1(x) == {L(<<x>>), L(<<x, Extra>>), Cons(x, A1), Nil, A1, L(<<Cons(x, Nil)>>)}
ShapesOk(x) == {L(<<x>>), L(<<x, Extra>>), Cons(x, A1)}

U32MAXA == <<0, 255, 255, 255, 255>>
U64MAXA == <<0, 255, 255, 255, 255, 255, 255, 255, 255>>
IntAtoms == {<<>>, <<1>>, <<5>>, <<127>>, <<0, 128>>, <<0>>, <<0, 5>>, <<128>>, <<255, 255>>, <<127, 255, 255, 255>>,
             U32MAXA, <<1, 0, 0, 0, 0>>, U64MAXA, <<1, 0, 0, 0, 0, 0, 0, 0, 0>>, <<0, 0, 128>>}
IntArgs == {Atom(b) : b \in IntAtoms} \cup {Cons(A1, Nil)}

Coin1Amt == <<123>>                      \* odd: fast-forward candidates
Coin1Id == CoinIdOf(P1, Z1, Coin1Amt)
Coin2Amt == <<0, 200>>                   \* even, needs a sign byte
Coin2Id == CoinIdOf(P2, Z2, Coin2Amt)

HashArgs(right) == {Atom(right), Atom(H6), Atom(Bytes(31, 9)), Atom(Bytes(33, 9)), Nil, Cons(Atom(right), Nil)}
MsgArgs == {Nil, Atom(<<3>>), Atom(Bytes(1024, 7)), Atom(Bytes(1025, 7)), Cons(A1, Nil)}

IntOps == {52, 73, 74, 75, 80, 81, 82, 83, 84, 85, 86, 87, 90}
HashOps == {61, 63, 64, 65, 70, 71, 72}
RightHash(op) == CASE op = 70 -> Coin1Id [] op = 71 -> P1 [] op = 72 -> Z1 [] op = 64 -> Coin1Id [] op = 65 -> Z1 [] OTHER -> H5

OneArgConds ==
  UNION {{Cons(Op(op), sh) : sh \in UNION {ShapesOk(x) : x \in IntArgs}} : op \in IntOps}
  \cup UNION {{Cons(Op(op), sh) : sh \in Shapes1(Atom(<<5>>))} : op \in IntOps}
  \cup UNION {{Cons(Op(op), L(<<x>>)) : x \in HashArgs(RightHash(op))} : op \in HashOps}
  \cup UNION {{Cons(Op(op), sh) : sh \in Shapes1(Atom(RightHash(op)))} : op \in HashOps}
  \cup UNION {{Cons(Op(op), L(<<x>>)) : x \in MsgArgs} : op \in {60, 62}}
  \cup UNION {{Cons(Op(op), sh) : sh \in Shapes1(Atom(<<3>>))} : op \in {60, 62}}
  \cup {Cons(Op(73), L(<<Atom(Coin1Amt)>>)), Cons(Op(73), L(<<Atom(<<0, 123>>)>>)), Cons(Op(73), L(<<Atom(<<124>>)>>))}

NoArgConds == {Cons(Op(op), a) : op \in {1, 76}, a \in {Nil, A1, L(<<A1>>), L(<<Cons(Nil, Nil)>>)}}

CcThird == {<<>>, <<L(<<Atom(H5)>>)>>, <<L(<<Atom(Bytes(33, 4))>>)>>, <<L(<<Nil>>)>>, <<L(<<Atom(<<1, 2, 3>>), Atom(H5)>>)>>,
            <<L(<<L(<<Atom(H5)>>)>>)>>, <<Atom(H5)>>, <<Nil>>, <<Cons(Atom(H5), A1)>>, <<L(<<Atom(H5)>>), A1>>,
            <<L(<<Atom(Bytes(32, 0))>>)>>, <<L(<<Atom(<<0>>)>>)>>}
CreateCoinConds ==
  {Cons(Op(51), L(<<ph, Atom(<<7>>)>>)) : ph \in HashArgs(Z2) \cup {Atom(Z1)}}
  \cup {Cons(Op(51), L(<<Atom(Z2), x>>)) : x \in IntArgs}
  \cup {Cons(Op(51), L(<<Atom(Z2), Atom(<<7>>)>> \o t)) : t \in CcThird}
  \cup {Cons(Op(51), ListWithTail(<<Atom(Z2), Atom(<<7>>)>> \o t, A1)) : t \in CcThird}
  \cup {Cons(Op(51), L(<<Atom(Z1), Atom(Coin1Amt)>>)), Cons(Op(51), L(<<Atom(Z1), Atom(<<122>>)>>)),
        Cons(Op(51), L(<<Atom(Z2), Atom(<<124>>)>>)), Cons(Op(51), Nil), Cons(Op(51), L(<<Atom(Z2)>>)), Cons(Op(51), A1),
        Cons(Op(51), Cons(Atom(Z2), A1))}

KeyArgs == {Atom(GenKey), Atom(InfKey), Atom(BadKey), Atom(Bytes(47, 1)), Cons(Atom(GenKey), Nil)}
SigMsgArgs == MsgArgs \cup {Atom(Doms.me), Atom(<<9>> \o Doms.amount), Atom(SubSeq(Doms.me, 1, 31)), Atom(Doms.parent_puzzle \o <<1>>)}
AggSigConds ==
  UNION {{Cons(Op(op), L(<<k, Atom(<<3>>)>>)) : k \in KeyArgs}
         \cup {Cons(Op(op), L(<<Atom(GenKey), m>>)) : m \in SigMsgArgs}
         \cup {Cons(Op(op), L(<<Atom(GenKey), Atom(<<3>>), Extra>>)), Cons(Op(op), ListWithTail(<<Atom(GenKey), Atom(<<3>>)>>, A1)),
               Cons(Op(op), L(<<Atom(GenKey)>>)), Cons(Op(op), Nil), Cons(Op(op), Cons(Atom(GenKey), A1))}
         : op \in 43..50}

\* the arguments that identify a coin under a 3-bit mode
IdArgs(mode, parent, ph, amtAtom, id) ==
  IF mode = 7 THEN <<Atom(id)>>
  ELSE (IF (mode \div 4) % 2 = 1 THEN <<Atom(parent)>> ELSE <<>>)
       \o (IF (mode \div 2) % 2 = 1 THEN <<Atom(ph)>> ELSE <<>>)
       \o (IF mode % 2 = 1 THEN <<Atom(amtAtom)>> ELSE <<>>)
ModeAtom(m) == IF m = 0 THEN Nil ELSE Atom(<<m>>)
\* message conditions emitted by coin 1 and referring to coin 2
MsgCond(op, mode, msg) ==
  Cons(Op(op), L(<<ModeAtom(mode), Atom(msg)>> \o IdArgs(IF op = 66 THEN mode % 8 ELSE (mode \div 8) % 8, P2, Z2, Coin2Amt, Coin2Id)))
MessageConds ==
  {MsgCond(op, mode, <<3>>) : op \in {66, 67}, mode \in 0..63}
  \cup UNION {{Cons(Op(op), L(<<m, Atom(<<3>>)>>)) : m \in {Atom(<<64>>), Atom(<<0>>), Atom(<<0, 9>>), Atom(<<128>>), Cons(A1, Nil), Atom(<<1, 0>>)}}
              \cup {Cons(Op(op), L(<<Atom(<<9>>), x, Atom(Z2)>>)) : x \in MsgArgs}
              \cup {Cons(Op(op), L(<<Atom(<<63>>), Atom(<<3>>), x>>)) : x \in HashArgs(Coin2Id)}
              \cup {Cons(Op(op), L(<<Atom(<<9>>), Atom(<<3>>), x>>)) : x \in IntArgs}
              \cup {Cons(Op(op), L(<<Atom(<<18>>), Atom(<<3>>), Atom(Z2), Extra>>)), Cons(Op(op), ListWithTail(<<Atom(<<18>>), Atom(<<3>>), Atom(Z2)>>, A1)),
                    Cons(Op(op), L(<<Atom(<<18>>), Atom(<<3>>)>>)), Cons(Op(op), L(<<Atom(<<18>>)>>)), Cons(Op(op), Nil),
                    Cons(Op(op), L(<<Nil, Atom(<<3>>)>>)), Cons(Op(op), L(<<Nil, Atom(<<3>>), Extra>>))}
              : op \in {66, 67}}

UnknownOps == {Nil, Atom(<<0>>), Atom(<<2>>), Atom(<<53>>), Atom(<<0, 51>>), Atom(<<51, 0>>), Atom(<<0, 0, 51>>), Cons(Op(51), Nil),
               Atom(<<255>>), Atom(<<42>>), Atom(<<91>>)}
UnknownConds == {Cons(o, a) : o \in UnknownOps, a \in {Nil, A1}}
TwoByteConds(S) == {Cons(Atom(<<hi, lo>>), a) : hi \in {1, 255}, lo \in S, a \in {Nil}} \cup {Cons(Atom(<<1, 0>>), A1), Cons(Atom(<<128, 7>>), L(<<A1>>))}
BadConds == {Nil, A1, Op(51)}

SingleMenu == OneArgConds \cup NoArgConds \cup CreateCoinConds \cup AggSigConds \cup MessageConds \cup UnknownConds
              \cup TwoByteConds({0, 1, 2, 100, 254, 255}) \cup BadConds

\* conditions that interact with each other inside one spend
LockVals == {<<>>, <<1>>, <<5>>, U32MAXA, <<128>>, <<1, 0, 0, 0, 0, 0, 0, 0, 0>>}
PairMenu ==
  {Cons(Op(op), L(<<Atom(v)>>)) : op \in {74, 75, 80, 81, 82, 83, 84, 85, 86, 87}, v \in LockVals}
  \cup {Cons(Op(51), L(<<Atom(Z2), Atom(<<7>>)>>)), Cons(Op(51), L(<<Atom(Z2), Atom(<<7>>), L(<<Atom(H5)>>)>>)),
        Cons(Op(51), L(<<Atom(Z2), Atom(<<8>>)>>)), Cons(Op(51), L(<<Atom(Z1), Atom(Coin1Amt)>>)), Cons(Op(51), L(<<Atom(Z1), Atom(<<100>>)>>)),
        Cons(Op(51), L(<<Atom(Z2), Atom(<<116>>)>>)),
        Cons(Op(52), L(<<Atom(<<5>>)>>)), Cons(Op(52), L(<<Atom(<<118>>)>>)), Cons(Op(52), L(<<Atom(U64MAXA)>>)), Cons(Op(52), L(<<Atom(<<1>>)>>)),
        Cons(Op(71), L(<<Atom(P1)>>)), Cons(Op(73), L(<<Atom(Coin1Amt)>>)), Cons(Op(70), L(<<Atom(Coin1Id)>>)), Cons(Op(1), Nil),
        Cons(Op(76), Nil), Cons(Op(60), L(<<Atom(<<3>>)>>)), Cons(Op(62), L(<<Atom(<<3>>)>>)),
        Cons(Op(61), L(<<Atom(SHA256(Coin1Id \o <<3>>))>>)), Cons(Op(63), L(<<Atom(SHA256(Z1 \o <<3>>))>>)), Cons(Op(61), L(<<Atom(SHA256(Z1 \o <<3>>))>>)),
        Cons(Op(64), L(<<Atom(Coin1Id)>>)), Cons(Op(65), L(<<Atom(Z1)>>)),
        Cons(Op(49), L(<<Atom(GenKey), Atom(<<3>>)>>)), Cons(Op(50), L(<<Atom(GenKey), Atom(<<3>>)>>)), Cons(Op(44), L(<<Atom(GenKey), Atom(<<3>>)>>)),
        Cons(Atom(<<42>>), Nil), Cons(Op(90), L(<<Atom(<<1>>)>>)), Cons(Atom(<<1, 5>>), Nil),
        MsgCond(66, 63, <<3>>), MsgCond(67, 63, <<3>>), MsgCond(66, 32 + 2, <<3>>), MsgCond(67, 16 + 4, <<3>>),
        \* self-addressed messages: coin 1 sends to / receives from itself
        Cons(Op(66), L(<<Atom(<<63>>), Atom(<<3>>), Atom(Coin1Id)>>)), Cons(Op(67), L(<<Atom(<<63>>), Atom(<<3>>), Atom(Coin1Id)>>)),
        Cons(Op(66), L(<<Atom(<<18>>), Atom(<<3>>), Atom(Z1)>>)), Cons(Op(67), L(<<Atom(<<18>>), Atom(<<3>>), Atom(Z1)>>)),
        Cons(Op(67), L(<<Atom(<<18>>), Atom(<<4>>), Atom(Z1)>>))}
\* lock families (after-lock, before-lock) over three adjacent values: every 3-subset holds the foldings and the
\* parse-time conflict detection in every order (e.g. after 5, before 6, before 5)
LockFamilies == {<<82, 86>>, <<80, 84>>, <<83, 87>>, <<81, 85>>}
LockV3 == {<<5>>, <<6>>, <<7>>}
LockConds(fam) == {Cons(Op(op), L(<<Atom(v)>>)) : op \in {fam[1], fam[2]}, v \in LockV3}
SeqOfSet(S) == LET RECURSIVE G(_)
                   G(T) == IF T = {} THEN <<>> ELSE LET x == CHOOSE x \in T : TRUE IN <<x>> \o G(T \ {x})
               IN G(S)
Idx3 == (1..6) \X (1..6) \X (1..6)
\* canonical (increasing) selections and all orders of three distinct conditions of one family
LockTriplesCanon == UNION {LET q == SeqOfSet(LockConds(fam)) IN {<<q[t[1]], q[t[2]], q[t[3]]>> : t \in {u \in Idx3 : u[1] < u[2] /\ u[2] < u[3]}} : fam \in LockFamilies}
LockTriplesAll == UNION {LET q == SeqOfSet(LockConds(fam)) IN {<<q[t[1]], q[t[2]], q[t[3]]>> : t \in {u \in Idx3 : u[1] # u[2] /\ u[2] # u[3] /\ u[1] # u[3]}} : fam \in LockFamilies}
=============================================================================
