INIT Init
NEXT Next
CONSTANT Mode = "perm"
CONSTANT MenuSize = 12
INVARIANT StrictOnlyRestricts
INVARIANT OrderIrrelevant
INVARIANT Emit
CHECK_DEADLOCK FALSE
