------------------------------- MODULE MC_Rel -------------------------------
(* C06 (M + G): relational driver specs over Run.                           *)
(*  Mode "strict": state = one input; the invariant quantifies over all     *)
(*    strictness subsets.                                                   *)
(*  Mode "perm":  Init picks a bundle; Next swaps two adjacent spends or    *)
(*    two adjacent conditions, so TLC visits every order; the invariant     *)
(*    compares the run of the current order with the run of the original.   *)
EXTENDS Relations, CondMenus, TLC, Json

CONSTANT Mode, MenuSize

BigMax == <<2, 143, 166, 174, 0>>
Spend(parent, ph, amtAtom, conds) == L(<<Atom(parent), Atom(ph), Atom(amtAtom), conds>>)
EphAmt == <<7>>
EphId == CoinIdOf(Coin1Id, Z2, EphAmt)

ForkFlags == {{"DONT_VALIDATE_SIGNATURE"}, {"DONT_VALIDATE_SIGNATURE", "COST_CONDITIONS"}}

\* interaction-heavy menu: conflicting locks, births, duplicate outputs, announcement and message pairs,
\* reserve fees, positional rules of the mempool visitor, unknown conditions
IMAll == {Cons(Op(80), L(<<Atom(<<5>>)>>)), Cons(Op(80), L(<<Atom(<<9>>)>>)), Cons(Op(84), L(<<Atom(<<9>>)>>)), Cons(Op(84), L(<<Atom(<<10>>)>>)),
       Cons(Op(82), L(<<Atom(<<5>>)>>)), Cons(Op(86), L(<<Atom(<<5>>)>>)), Cons(Op(86), L(<<Atom(<<6>>)>>)), Cons(Op(82), L(<<Atom(<<255>>)>>)),
       Cons(Op(83), L(<<Atom(<<5>>)>>)), Cons(Op(87), L(<<Atom(<<5>>)>>)), Cons(Op(87), L(<<Atom(<<6>>)>>)), Cons(Op(81), L(<<Atom(<<5>>)>>)),
       Cons(Op(85), L(<<Atom(<<6>>)>>)),
       Cons(Op(74), L(<<Atom(<<5>>)>>)), Cons(Op(74), L(<<Atom(<<6>>)>>)), Cons(Op(75), L(<<Atom(<<5>>)>>)),
       Cons(Op(51), L(<<Atom(Z2), Atom(<<7>>)>>)), Cons(Op(51), L(<<Atom(Z2), Atom(<<7>>), L(<<Atom(H5)>>)>>)), Cons(Op(51), L(<<Atom(Z1), Atom(Coin1Amt)>>)),
       Cons(Op(51), L(<<Atom(Z2), Atom(<<116>>)>>)),
       Cons(Op(52), L(<<Atom(<<116>>)>>)), Cons(Op(52), L(<<Atom(<<1>>)>>)), Cons(Op(52), L(<<Atom(U64MAXA)>>)),
       Cons(Op(60), L(<<Atom(<<3>>)>>)), Cons(Op(61), L(<<Atom(SHA256(Coin1Id \o <<3>>))>>)), Cons(Op(62), L(<<Atom(<<3>>)>>)),
       Cons(Op(63), L(<<Atom(SHA256(Z1 \o <<3>>))>>)),
       Cons(Op(66), L(<<Atom(<<18>>), Atom(<<3>>), Atom(Z1)>>)), Cons(Op(67), L(<<Atom(<<18>>), Atom(<<3>>), Atom(Z1)>>)),
       Cons(Op(71), L(<<Atom(P1)>>)), Cons(Op(73), L(<<Atom(Coin1Amt)>>)), Cons(Op(70), L(<<Atom(Coin1Id)>>)),
       Cons(Op(49), L(<<Atom(GenKey), Atom(<<3>>)>>)), Cons(Op(50), L(<<Atom(GenKey), Atom(<<4>>)>>)), Cons(Op(50), L(<<Atom(GenKey), Atom(<<3>>)>>)),
       Cons(Atom(<<42>>), Nil), Cons(Op(90), L(<<Atom(<<1>>)>>)), Cons(Op(1), Nil), Cons(Op(76), Nil),
       Cons(Op(73), L(<<Atom(<<124>>)>>)), Cons(Op(80), L(<<Atom(<<128>>)>>)), Cons(Op(84), L(<<Atom(<<128>>)>>))}

\* the menu in one fixed order; the quick tier uses a prefix-stride selection of MenuSize elements
IMSeq == LET RECURSIVE G(_)
             G(S) == IF S = {} THEN <<>> ELSE LET x == CHOOSE x \in S : TRUE IN <<x>> \o G(S \ {x})
         IN G(IMAll)
\* quick tier: a hand-picked interaction core (two values per foldable lock, before/after pairs, births, duplicate outputs, fees, positional rule)
IMQuick == {Cons(Op(80), L(<<Atom(<<5>>)>>)), Cons(Op(80), L(<<Atom(<<9>>)>>)), Cons(Op(84), L(<<Atom(<<10>>)>>)), Cons(Op(84), L(<<Atom(<<9>>)>>)),
            Cons(Op(82), L(<<Atom(<<5>>)>>)), Cons(Op(82), L(<<Atom(<<255>>)>>)), Cons(Op(86), L(<<Atom(<<6>>)>>)), Cons(Op(83), L(<<Atom(<<5>>)>>)),
            Cons(Op(87), L(<<Atom(<<6>>)>>)), Cons(Op(74), L(<<Atom(<<5>>)>>)), Cons(Op(74), L(<<Atom(<<6>>)>>)),
            Cons(Op(51), L(<<Atom(Z2), Atom(<<7>>)>>)), Cons(Op(51), L(<<Atom(Z2), Atom(<<7>>), L(<<Atom(H5)>>)>>)), Cons(Op(52), L(<<Atom(<<116>>)>>)),
            Cons(Op(52), L(<<Atom(<<1>>)>>)), Cons(Op(60), L(<<Atom(<<3>>)>>)), Cons(Op(61), L(<<Atom(SHA256(Coin1Id \o <<3>>))>>)),
            Cons(Op(71), L(<<Atom(P1)>>)), Cons(Op(73), L(<<Atom(Coin1Amt)>>)), Cons(Atom(<<42>>), Nil)}
IMIdx == IF MenuSize >= Len(IMSeq) THEN DOMAIN IMSeq ELSE {i \in DOMAIN IMSeq : IMSeq[i] \in IMQuick}
IM == {IMSeq[i] : i \in IMIdx}
\* unordered triples as sequences in canonical order (all other orders are reached by swapping)
Triples == {<<IMSeq[i], IMSeq[j], IMSeq[k]>> : i, j, k \in IMIdx} 
CanonTriples == {<<IMSeq[t[1]], IMSeq[t[2]], IMSeq[t[3]]>> : t \in {u \in IMIdx \X IMIdx \X IMIdx : u[1] < u[2] /\ u[2] < u[3]}}

\* cross-spend bundles: coin 1, its ephemeral child, an unrelated coin
SpA == Spend(P1, Z1, Coin1Amt, L(<<Cons(Op(51), L(<<Atom(Z2), Atom(EphAmt)>>)), Cons(Op(60), L(<<Atom(<<3>>)>>)), MsgCond(66, 63, <<3>>)>>))
SpB(c) == Spend(Coin1Id, Z2, EphAmt, L(<<c, Cons(Op(61), L(<<Atom(SHA256(Coin1Id \o <<3>>))>>))>>))
SpC(c) == Spend(P2, Z2, Coin2Amt, L(<<Cons(Op(67), L(<<Atom(<<63>>), Atom(<<3>>), Atom(Coin1Id)>>)), c>>))
XM == {Cons(Op(1), Nil), Cons(Op(76), Nil), Cons(Op(82), L(<<Nil>>)), Cons(Op(64), L(<<Atom(Coin1Id)>>)), Cons(Op(65), L(<<Atom(Z1)>>)),
       Cons(Op(83), L(<<Atom(<<5>>)>>)), Cons(Op(87), L(<<Atom(<<5>>)>>)), Cons(Op(52), L(<<Atom(<<100>>)>>))}

MkIn(spends, f, v) == [tree |-> L(<<L(spends)>>), flags |-> f, max |-> BigMax, clvm |-> Zero, vis |-> v, consts |-> Doms, validKeys |-> {GenKey}]

StrictInputs ==
  {MkIn(<<Spend(P1, Z1, Coin1Amt, L(<<c>>))>>, f, v) : c \in SingleMenu, f \in ForkFlags, v \in {"empty", "mempool"}}
  \cup {MkIn(<<Spend(P1, Z1, Coin1Amt, L(<<c1, c2>>))>>, f, "mempool") : c1 \in IM, c2 \in IM, f \in ForkFlags}

PermInputs ==
  {MkIn(<<Spend(P1, Z1, Coin1Amt, L(s))>>, f, "mempool") : s \in CanonTriples \cup LockTriplesCanon, f \in ForkFlags}
  \cup {MkIn(<<SpA, SpB(c1), SpC(c2)>>, f, "mempool") : c1 \in XM, c2 \in XM, f \in ForkFlags}

VARIABLES orig, cur, phase
vars == <<orig, cur, phase>>

Init == /\ phase = 0
        /\ IF Mode = "strict" THEN orig \in StrictInputs /\ cur = orig
           ELSE orig \in PermInputs /\ cur = orig

SpendsOf(in) == Elems(in.tree.l)
WithSpends(in, ss) == [in EXCEPT !.tree = L(<<L(ss)>>)]
CondsOf(sp) == Elems(sp.r.r.r.l)
WithConds(sp, cs) == Cons(sp.l, Cons(sp.r.l, Cons(sp.r.r.l, Cons(L(cs), sp.r.r.r.r))))

SwapSpends == \E i \in 1..(Len(SpendsOf(cur)) - 1) :
                 cur' = WithSpends(cur, SwapAt(SpendsOf(cur), i)) /\ UNCHANGED orig /\ phase' = 1
SwapConds == \E k \in DOMAIN SpendsOf(cur) : \E i \in 1..(Len(CondsOf(SpendsOf(cur)[k])) - 1) :
                 LET ss == SpendsOf(cur) IN
                 cur' = WithSpends(cur, [ss EXCEPT ![k] = WithConds(ss[k], SwapAt(CondsOf(ss[k]), i))]) /\ UNCHANGED orig /\ phase' = 1
\* (the evaluation of the relation happens in successor states so that TLC's workers share it)
Evaluate == Mode = "strict" /\ phase = 0 /\ phase' = 1 /\ UNCHANGED <<orig, cur>>
Next == (Mode = "perm" /\ (SwapSpends \/ SwapConds)) \/ Evaluate

StrictOnlyRestricts == (Mode = "strict" /\ phase = 1) => \A S \in SUBSET StrictnessFlags : StrictImplies(orig, S)
OrderIrrelevant == (Mode = "perm" /\ phase = 1) => PermEqRet(Run(orig), Run(cur))

FlagSeq(f) == LET RECURSIVE G(_)
                  G(S) == IF S = {} THEN <<>> ELSE LET x == CHOOSE x \in S : TRUE IN <<x>> \o G(S \ {x})
              IN G(f)
Emit == (phase = 1) => PrintT(<<"CASE", ToJson([mode |-> Mode, tree |-> orig.tree, tree2 |-> cur.tree, flags |-> FlagSeq(orig.flags), vis |-> orig.vis, consts |-> orig.consts])>>)
=============================================================================
