SPECIFICATION Spec
VIEW View
CONSTANT Configs <- ConfigsAll
CONSTANT ClassNames <- ClassesAll
CONSTANT Labels <- LabelsAll
CONSTANT MaxBatch = 2
CONSTANT MaxAdds = 6
CONSTANT TrackHist = FALSE
PROPERTY AllOrNothing
INVARIANT EstimateUpper
INVARIANT StaleGap
INVARIANT WithinLimit
INVARIANT FinalizeEnabled
INVARIANT OutputIsAccepted
INVARIANT SigIsAggregate
INVARIANT CostIsConsensus
INVARIANT LaterOutputUnaffected
INVARIANT CompressedSizeDetermined
INVARIANT ExactInEnvelope
INVARIANT AcceptWithinLimit
INVARIANT DoneMeansNoRoom
INVARIANT RejectDone
CHECK_DEADLOCK FALSE
