INIT Init
NEXT Next
CONSTANT IdMod = 65536
CONSTANT N1 = 1
CONSTANT N2 = 1
INVARIANT Inv
INVARIANT Emit
CHECK_DEADLOCK FALSE
