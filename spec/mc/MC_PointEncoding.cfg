INIT Init
NEXT Next
INVARIANT CheckedWithinCurve
INVARIANT Canonical
INVARIANT UniqueEncoding
INVARIANT OneInfinity
INVARIANT SubgroupOnly
INVARIANT FlagsStrict
INVARIANT SkRange
INVARIANT Emit
CHECK_DEADLOCK FALSE
