---------------------------- MODULE Trace_GetFlags ----------------------------
EXTENDS GetFlags, TraceUtil
RangeOf(s) == {s[i] : i \in DOMAIN s}
Match(e) == RangeOf(e.flags) = FlagsAt(e.h, [hf2 |-> e.hf2, sf8 |-> e.sf8, sf9 |-> e.sf9])
VARIABLE l
Init == l = 1 /\ MismatchInit
Next == l <= Len(Rec) /\ CheckC(Match(Rec[l]), l, "X01") /\ l' = l + 1
Accepted_ == Report(TLCGet("stats").diameter - 1)
=============================================================================
