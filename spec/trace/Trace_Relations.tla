-------------------------- MODULE Trace_Relations --------------------------
(* C06 (T): every event holds two results of the implementation on related *)
(* inputs; the relation is evaluated on those two results.                  *)
EXTENDS Relations, TraceUtil

\* a summary with everything that depends on resource accounting of the allocator removed is
\* compared as reported; strict and lax runs must report the identical summary
MatchStrict(e) == ObsStrictImplies(e.a, e.b)
MatchPerm(e) == ObsPermEq(e.a, e.b)
\* LIMIT_SPENDS: at most 6000 spends with the flag, no limit without
MatchLimit(e) == e.without /\ (e.with <=> e.count <= MAX_SPENDS_PER_BLOCK)

Match(e) == CASE e.k = "strict" -> MatchStrict(e) [] e.k = "perm" -> MatchPerm(e) [] e.k = "limit" -> MatchLimit(e)

VARIABLE l
Init == l = 1 /\ MismatchInit
Next == /\ l <= Len(Rec)
        /\ CheckC(Match(Rec[l]), l, "C06")
        /\ l' = l + 1
Accepted_ == Report(TLCGet("stats").diameter - 1)
=============================================================================
