---------------------------- MODULE Trace_AggSig ----------------------------
(* C05 (T): every event is one bundle, the list of (key, message) pairs the *)
(* harness actually signed, and the verdicts of parse_spends (no cache, cold *)
(* cache, same cache again, pre-warmed small cache), run_block_generator2    *)
(* (with a cache) and validate_clvm_and_signature. All verdicts must equal:  *)
(* bundle valid /\ signed bag = required bag.                                *)
EXTENDS AggSig, TraceUtil

MatchSig(e) ==
  LET expected == BundleValid(e) /\ Verifies(e.signed, e.wellformed, RequiredPairs(e))
  IN /\ e.res.ps = expected /\ e.res.ps_cold = expected /\ e.res.ps_again = expected /\ e.res.ps_warm = expected
     \* the bundle path additionally checks the declared puzzle hashes
     /\ e.res.vcs = (expected /\ HashesMatch(e)) /\ e.res.rbg2 = expected
     /\ FinalMessagesOk(e)

VARIABLE l
Init == l = 1 /\ MismatchInit
Next == /\ l <= Len(Rec)
        /\ CheckC(SbOpaque(NormSb(Rec[l])) \/ MatchSig(NormSb(Rec[l])), l, "C05")
        \* C02 on the fifth entry point: what validate_clvm_and_signature returns for an accepted bundle
        /\ CheckC(("vcs_r" \in DOMAIN Rec[l].res) => ObsAccepted(Rec[l].res.vcs_r), l, "C02")
        /\ l' = l + 1
Accepted_ == Report(TLCGet("stats").diameter - 1)
=============================================================================
