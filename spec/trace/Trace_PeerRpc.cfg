INIT Init
NEXT Next
CONSTANT IdMod = 65536
POSTCONDITION Accepted_
CHECK_DEADLOCK FALSE
