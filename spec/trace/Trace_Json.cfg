INIT Init
NEXT Next
CONSTANT LenW = 4
CONSTANT HashW = 32
CONSTANT G1W = 48
CONSTANT G2W = 96
POSTCONDITION Accepted
CHECK_DEADLOCK FALSE
