-------------------------- MODULE Trace_Generator --------------------------
(* T stage of the generator family. "gen" events: one generator through the *)
(* legacy and the native path (+ trusted helpers). Classes of mismatches:   *)
(*  C07 agreement of the two paths, C01 native verdict/summary vs the spec, *)
(*  C02 invariants of accepted results + puzzle hash definition, C04 cost   *)
(*  composition and the limit, C09 trusted helpers vs validated conditions. *)
EXTENDS Generator, TraceUtil

\* trees are logged in flat list form
NormRun(r) == IF "res" \in DOMAIN r THEN [r EXCEPT !.res = FromJ(@)] ELSE r
NormE(e) == LET e1 == IF "prog" \in DOMAIN e THEN [e EXCEPT !.prog = FromJ(@)] ELSE e
                e2 == IF "genrun" \in DOMAIN e1 THEN [e1 EXCEPT !.genrun = NormRun(@)] ELSE e1
            IN IF "runs" \in DOMAIN e2 THEN [e2 EXCEPT !.runs = [i \in DOMAIN @ |-> NormRun(@[i])]] ELSE e2

Judged(e) == ~e.opaque /\ "prog" \in DOMAIN e

\* the legacy path has no interned-size cost mode, so the two are compared under byte cost only
MatchC07(e) == /\ "INTERNED_GENERATOR" \in RangeOf(e.flags) \/ Agree(e.native, e.legacy)
               \* block references reach the generator in the order given (reference-selecting family)
               /\ ("refsel" \in DOMAIN e /\ "prog" \in DOMAIN e /\ ~e.opaque) => RefSelConsistent(e)

MatchNativeC01(e, n) ==
  /\ e.native.ok = n.ok
  /\ n.ok => /\ SummaryEq(n.st, e.native.r)
             /\ \A i \in DOMAIN e.native.r.spends : e.native.r.spends[i].ecost = e.runs[i].cost
             /\ \A i \in DOMAIN e.native.r.spends : e.native.r.spends[i].ph = n.phs[i]       \* puzzle hash = tree hash of the reveal
RunsFee(e) == SumSeq([i \in DOMAIN e.runs |-> IF "res" \in DOMAIN e.runs[i] THEN DeclaredFeeOfConds(e.runs[i].res) ELSE Zero])
MatchC02(e) == /\ e.native.ok => ObsAccepted(e.native.r)
               /\ e.legacy.ok => ObsAccepted(e.legacy.r)
               \* (only where every puzzle output is logged)
               /\ (Judged(e) /\ "runs" \in DOMAIN e /\ e.native.ok) => ObsDeclaredFee(e.native.r, RunsFee(e))
MatchC04(e, n) ==
  /\ (e.native.ok /\ n.ok) => /\ e.native.r.cost = n.cost
                              /\ e.native.r.ecost = n.ecost
                              /\ e.native.r.ccost = n.st.ret.ccost
                              /\ e.native.r.cost = Add(Add(BaseCost(e, RangeOf(e.flags)), e.native.r.ecost), e.native.r.ccost)
  /\ e.native.ok => Le(e.native.r.cost, e.max) /\ ObsCostConsistent(e.native.r)
  /\ e.legacy.ok => Le(e.legacy.r.cost, e.max) /\ ObsCostConsistent(e.legacy.r)
  /\ ~(e.native.ok # n.ok /\ ((~n.ok /\ n.why = "CostExceeded") \/ (~e.native.ok /\ e.native.err = 23)))
  /\ ("frontier" \in DOMAIN e /\ ~e.native.ok) => e.native.err = 23

(* trusted helpers: judged against what full validation derived (the spec's machine state) *)
MatchC09(e, n) ==
  ("trusted" \in DOMAIN e /\ n.ok /\ e.native.ok) =>
    LET t == e.trusted IN
    /\ t.aar.ok
    /\ [i \in DOMAIN t.aar.rems |-> t.aar.rems[i]] = ExpectedRemovals(n.st)
    /\ RangeOf(t.aar.adds) = ExpectedAdditions(n.st)
    /\ Len(t.aar.adds) = NumAdditions(n.st)
    /\ t.cs.ok /\ t.cs.n = Len(n.st.ret.spends)
    /\ t.cs.listed => \A i \in DOMAIN t.cs.list :
         /\ t.cs.list[i].coin = ExpectedRemovals(n.st)[i].coin
         /\ t.cs.list[i].puzzle = Ser(PuzzleOf(SpendItems(e.genrun.res)[i]))
         /\ t.cs.list[i].solution = Ser(SpendItems(e.genrun.res)[i].r.r.r.l)
    \* the recovered coin spends rebuild a generator with the same conditions
    /\ t.cs.rebuilt.ok /\ SameConditionsAnyOrder(t.cs.rebuilt.r, e.native.r)
    /\ t.csc.ok /\ t.csc.n = Len(n.st.ret.spends)
    /\ \A i \in DOMAIN t.csc.coins : t.csc.coins[i] = ExpectedRemovals(n.st)[i].coin

\* get_puzzle_and_solution_for_coin for removed coins and one non-member
MatchC09L(e, n) ==
  ("trusted" \in DOMAIN e /\ n.ok /\ e.native.ok) =>
    LET t == e.trusted IN
    /\ t.look.ok
    /\ \A i \in DOMAIN t.look.results :
         LET q == t.look.results[i]
             member == \E j \in DOMAIN n.st.ret.spends : ExpectedRemovals(n.st)[j].coin = q.coin
         IN /\ q.found = member
            /\ q.found => q.ph = q.coin.ph
            /\ (q.found /\ q.small) =>
                 \E j \in DOMAIN n.st.ret.spends :
                    /\ ExpectedRemovals(n.st)[j].coin = q.coin
                    /\ FromJ(q.puzzle) = PuzzleOf(SpendItems(e.genrun.res)[j])
                    /\ FromJ(q.solution) = SpendItems(e.genrun.res)[j].r.r.r.l

\* the raw condition listing of get_coinspends_with_conditions_for_trusted_block: what it shares with validation (C09W)
\* and its full definition (growth class X10, judged where every puzzle output is logged)
HasListing(e) == "trusted" \in DOMAIN e /\ e.trusted.csc.ok /\ "listing" \in DOMAIN e.trusted.csc /\ e.trusted.csc.listed
MatchC09W(e, n) ==
  (HasListing(e) /\ n.ok /\ e.native.ok) =>
    LET L == e.trusted.csc.listing IN
    /\ Len(L) = Len(n.st.ret.spends)
    /\ \A i \in DOMAIN L : ListingCoversValidated(L[i], n.st.ret.spends[i])
MatchX10(e, n) ==
  (HasListing(e) /\ n.ok /\ e.native.ok) =>
    LET L == e.trusted.csc.listing IN
    /\ Len(L) = Len(e.runs)
    /\ \A i \in DOMAIN L : L[i] = ListingOfConds(e.runs[i].res)

MatchGen(e, i) ==
  /\ CheckC(MatchC07(e), i, "C07")
  /\ CheckC(MatchC02(e), i, "C02")
  /\ IF Judged(e) THEN LET n == Native(e) IN
                       /\ CheckC(MatchNativeC01(e, n), i, "C01")
                       /\ CheckC(MatchC04(e, n), i, "C04")
                       /\ CheckC(MatchC09(e, n), i, "C09")
                       /\ CheckC(MatchC09L(e, n), i, "C09L")
                       /\ CheckC(MatchC09W(e, n), i, "C09W")
                       /\ CheckC(MatchX10(e, n), i, "X10")
     ELSE TRUE

VARIABLE l
Init == l = 1 /\ MismatchInit
Next == /\ l <= Len(Rec)
        /\ MatchGen(NormE(Rec[l]), l)
        /\ l' = l + 1
Accepted_ == Report(TLCGet("stats").diameter - 1)
=============================================================================
