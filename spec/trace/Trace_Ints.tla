----------------------------- MODULE Trace_Ints -----------------------------
(* C11 (T): every event is one value pushed through all encoders/decoders   *)
(* of the implementation; the spec recomputes the canonical form.           *)
EXTENDS ClvmInt, Sha, TraceUtil

Width(ty) == CASE ty \in {"u8", "i8"} -> 1 [] ty \in {"u16", "i16"} -> 2 [] ty \in {"u32", "i32"} -> 4
               [] ty \in {"u64", "i64"} -> 8 [] ty \in {"u128", "i128"} -> 16
IsSignedTy(ty) == ty \in {"i8", "i16", "i32", "i64", "i128"}
InRange(v, ty) == IF IsSignedTy(ty)
                  THEN (IF v.neg THEN Le(v.mag, HalfPow(Width(ty))) ELSE Lt(v.mag, HalfPow(Width(ty))))
                  ELSE ~v.neg /\ Len(v.mag) <= Width(ty)
Types == {"u8", "i8", "u16", "i16", "u32", "i32", "u64", "i64", "u128", "i128"}

MatchU64(e) == LET enc == Enc(e.v) IN
  /\ e.u64b = enc /\ e.traits = enc /\ e.clvmr = enc
  /\ e.coin_id = SHA256(e.parent \o e.ph \o enc)
  /\ e.genlen = 46 + SerLenOfAmount(e.v)
  /\ e.dec = [k |-> "some", v |-> e.v]
  /\ e.clvmr_dec = SNat(e.v)
  /\ e.san8 = [k |-> "ok", v |-> e.v]

MatchInt(e) == LET enc == EncSigned(e.val) IN
  /\ InRange(e.val, e.ty)
  /\ e.enc = enc /\ e.clvmr = enc /\ e.back_ok

MatchAtom(e) == LET v == TwosValue(e.b) canon == IsCanonical(e.b) IN
  /\ e.san8 = Sanitize(e.b, 8)
  /\ e.san4 = Sanitize(e.b, 4)
  /\ e.clvmr_dec = v
  /\ \A ty \in Types :
       LET d == e.dec[ty] IN
       /\ d.k = "some" => d.v = v                                \* never a wrong value
       /\ canon => (d.k = "some" <=> InRange(v, ty))             \* canonical: decodes iff in range

Match(e) == CASE e.k = "u64" -> MatchU64(e) [] e.k = "int" -> MatchInt(e) [] e.k = "atom" -> MatchAtom(e)

VARIABLE l
Init == l = 1 /\ MismatchInit
Next == /\ l <= Len(Rec)
        /\ Check(Match(Rec[l]), l)
        /\ l' = l + 1
Accepted == Report(TLCGet("stats").diameter - 1)
=============================================================================
