-------------------------- MODULE Trace_MerkleSet --------------------------
(* C12 (T). One event = one leaf list pushed through compute_merkle_set_root *)
(* and MerkleSet::from_leafs(..).get_root() in several orders, generate_proof *)
(* and validate_merkle_proof for several items, and validate_merkle_proof on  *)
(* adversarial proofs for each of those items. The specification recomputes   *)
(* RefRoot, GenProof and Classify from the logged inputs.                     *)
(*   class "C12"  (the property): every root equals RefRoot(set); every       *)
(*       generated proof carries the right inclusion flag and validates in    *)
(*       the implementation with that verdict; no proof at all is accepted    *)
(*       with the wrong verdict.                                              *)
(*   class "WIRE" (not stated by the property, reported as information only): *)
(*       the honest proof bytes equal Ser(GenProof) and are a valid proof by  *)
(*       the specification's wire format, and the verdict on every adversarial*)
(*       proof equals the specification's (rejections included).              *)
(* TLC register 2 counts how the specification classifies the adversarial     *)
(* proofs (vacuity guard of checks/c12.py).                                   *)
EXTENDS MerkleSet, TraceUtil

\* TLCEval: functions are lazy in TLC; evaluate once instead of on every application
ItemsOf(e) == TLCEval([i \in DOMAIN e.q |-> e.q[i].item])

MatchProp(e, S, root) ==
  /\ \A i \in DOMAIN e.roots_a : e.roots_a[i].k = "ok" /\ e.roots_a[i].v = root
  /\ \A i \in DOMAIN e.roots_b : e.roots_b[i].k = "ok" /\ e.roots_b[i].v = root
  /\ e.root = root
  /\ \A i \in DOMAIN e.q :
       LET q == e.q[i]
           in == q.item \in S
       IN /\ q.gen.k = "ok"
          /\ q.gen.incl = in
          /\ q.gen.val.k = YesNo(in)
  /\ \A j \in DOMAIN e.adv : \A i \in DOMAIN e.q :
       LET v == e.adv[j].v[i].k IN v \in {"yes", "no"} => v = YesNo(e.q[i].item \in S)

MatchWire(e, S, root, cls) ==
  /\ \A i \in DOMAIN e.q : e.q[i].gen.k = "ok" =>
       /\ e.q[i].gen.proof = Ser(GenProof(S, e.q[i].item))
       /\ Classify(e.q[i].gen.proof, e.q[i].item, root) = YesNo(e.q[i].item \in S)
  /\ \A j \in DOMAIN e.adv : \A i \in DOMAIN e.q : e.adv[j].v[i].k = VerdictOf(cls[j][i])

StructuralReasons == <<"parse", "depth", "trailing", "audit", "root">>
\* <<parse, depth, trailing, audit, root, structurally valid; (proof, item) pairs yes, no, err; honest proofs>>
StatsOf(e, cls) ==
  LET n == Len(e.q)
      perProof(w) == Cardinality({j \in DOMAIN cls : n > 0 /\ cls[j][1] = w})
      pass == Cardinality({j \in DOMAIN cls : n > 0 /\ \A k \in 1..5 : cls[j][1] # StructuralReasons[k]})
      pairs(w) == Cardinality({pr \in (DOMAIN cls) \X (1..n) : cls[pr[1]][pr[2]] = w})
  IN <<perProof("parse"), perProof("depth"), perProof("trailing"), perProof("audit"), perProof("root"), pass,
       pairs("yes"), pairs("no"), pairs("err"), n>>
AddStats(a, b) == [i \in 1..10 |-> a[i] + b[i]]

VARIABLE l
Init == l = 1 /\ MismatchInit /\ TLCSet(2, [i \in 1..10 |-> 0])
Next == /\ l <= Len(Rec)
        /\ LET e == Rec[l]
               S == Range(e.leafs)
               root == RefRoot(S)
               items == ItemsOf(e)
               cls == TLCEval([j \in DOMAIN e.adv |-> TLCEval(ClassifyMany(e.adv[j].p, items, root))])
           IN /\ CheckC(MatchProp(e, S, root), l, "C12")
              /\ CheckC(MatchWire(e, S, root, cls), l, "WIRE")
              /\ TLCSet(2, AddStats(TLCGet(2), StatsOf(e, cls)))
        /\ l' = l + 1
Accepted_ == Report(TLCGet("stats").diameter - 1) /\ PrintT(<<"STATS", ToJson(TLCGet(2))>>)
=============================================================================
