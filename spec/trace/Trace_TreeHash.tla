--------------------------- MODULE Trace_TreeHash ---------------------------
(* C17 (T): every hash returned by any routine of the implementation, in any *)
(* history through one shared TreeCache, equals the reference tree hash of   *)
(* its node. Events:                                                         *)
(*  hist  - node table + calls with returned hashes + memoised slots seen    *)
(*          through TreeCache::get; the reference is computed bottom-up over *)
(*          the table (one SHA-256 per node, no unfolding)                   *)
(*  pre   - the PRECOMPUTED_HASHES table the code ships                      *)
(*  curry - curry_tree_hash from hashes vs the tree CurriedProgram builds    *)
EXTENDS TreeHashCache, TraceUtil

Hashing == {"cached", "plain", "bytes", "bytes_br", "enc"}

SlotsOK(H, s) == \A i \in DOMAIN s : s[i][2] = H[s[i][1]]
OpOK(H, o) ==
  /\ "panic" \notin DOMAIN o
  /\ o.op \in Hashing => o.h = H[o.n]
  /\ "s" \in DOMAIN o => SlotsOK(H, o.s)
MatchHist(e) ==
  LET H == RefHashes(e.tbl) IN
  /\ \A i \in DOMAIN e.ops : OpOK(H, e.ops[i])
  /\ SlotsOK(H, e.slots)

MatchPre(e) == TableIsSmallAtomHashes(e.tab)

\* the property: the hash computed from hashes alone equals the tree hash of the actual curried program
MatchCurry(e) == LET ref == TreeHash(e.built) IN e.h = ref /\ e.built_h = ref /\ e.built_c = ref /\ e.enc_h = ref
\* (not part of C17: the built program has the shape this spec transcribed from curried_program.rs)
ShapeCurry(e) == e.built = CurriedTree(e.p, e.args)

Match(e) == CASE e.k = "hist" -> MatchHist(e) [] e.k = "pre" -> MatchPre(e) [] e.k = "curry" -> MatchCurry(e)
Shape(e) == e.k = "curry" => ShapeCurry(e)

VARIABLE l
Init == l = 1 /\ MismatchInit /\ tbl = <<>> /\ cache = EmptyCache /\ hist = <<>>
Next == /\ l <= Len(Rec)
        /\ CheckC(Match(Rec[l]), l, "C17")
        /\ CheckC(Shape(Rec[l]), l, "shape")
        /\ l' = l + 1
        /\ UNCHANGED vars
Accepted_ == Report(TLCGet("stats").diameter - 1)
=============================================================================
