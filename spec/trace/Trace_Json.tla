----------------------------- MODULE Trace_Json -----------------------------
(* C20 (T): one event = one value of one exported class pushed through      *)
(* to_json_dict / from_json_dict inside an embedded Python interpreter,     *)
(* plus single-position corruptions of its JSON form.                       *)
(* The schema and the JSON views come from IOEnv.JSCHEMA (extracted from    *)
(* the current sources). For a modelled type the spec parses e.bytes with   *)
(* the Streamable grammar, computes ToJ and requires the logged JSON to be  *)
(* that value (C20.json); for every type the way back must succeed with an  *)
(* equal value, identical encoding and hash (C20.back); for every logged    *)
(* corruption (path, class, new value) the spec recomputes the new value,   *)
(* checks applicability and requires the verdict of FromJ (C20.corrupt).    *)
(* TOOL = harness and spec disagree about the experiment itself, or an      *)
(* oracle fact is missing: never a verdict.                                 *)
EXTENDS JsonDict, TraceUtil

JS == JsonDeserialize(IOEnv.JSCHEMA)
Has(r, f) == f \in DOMAIN r

\* transport form: {"k":"hex","v":bytes} stands for the string "0x" + lowercase hex
RECURSIVE Expand(_)
Expand(j) ==
  CASE j.k = "hex" -> JStr(Hex0x(j.v))
    [] j.k = "list" -> JList([i \in 1..Len(j.v) |-> Expand(j.v[i])])
    [] j.k = "dict" -> JDict([i \in 1..Len(j.v) |-> [key |-> j.v[i].key, val |-> Expand(j.v[i].val)]])
    [] OTHER -> j

NoFacts == [jprog |-> <<>>, jg1 |-> <<>>, jg2 |-> <<>>]
Ctx(e, x) == [s |-> JS.types, j |-> JS.views,
              o |-> [g1 |-> e.orc.g1, g2 |-> e.orc.g2, prog |-> e.orc.prog, qs |-> e.orc.qs, jprog |-> x.jprog, jg1 |-> x.jg1, jg2 |-> x.jg2],
              tr |-> FALSE, b |-> e.bytes]

\* the way back: accepted, equal value, identical encoding and hash
Back(e) ==
  /\ e.to = "ok"
  /\ e.back.r = "ok"
  /\ e.back.eq
  /\ e.back.bytes = e.bytes
  /\ e.back.hash = e.hash
  /\ e.src # "raw" => e.back.has_bytes

\* verdict of one logged corruption: "ok" | "tool" | "violation"
CorrVerdict(e, T, j, c) ==
  LET C == Ctx(e, IF Has(c, "f") THEN c.f ELSE NoFacts) IN
  IF ~(c.c \in LeafClassNames \cup EntryClassNames) \/ ~Applicable(C, T, j, c.p, c.c) THEN "tool"
  ELSE LET nv == IF c.c = "key_removed" THEN [k |-> "none"]
                 ELSE IF c.c = "null_val" THEN JNull
                 ELSE LET tg == SubAt(C, T, j, c.p) IN Mut(tg.t, tg.j, c.c)
           nvok == IF c.c = "key_removed" THEN c.nv.k = "none" ELSE JEq(nv, Expand(c.nv))
           r == LocalFromJ(C, T, j, c.p, c.c)
           small == Len(e.bytes) <= 100
           g == IF small THEN FromJ(C, T, Corrupt(C, T, j, c.p, c.c)) ELSE r
       IN IF ~nvok \/ c.r = "tool" THEN "tool"
          ELSE IF ~r.ok /\ r.why # "syntax" THEN "tool"
          ELSE IF g.ok # r.ok THEN "tool"
          ELSE IF r.ok THEN (IF c.r = "ok" THEN "ok" ELSE "tool")      \* the model accepts it: not a corruption the property talks about
          ELSE IF c.r = "ok" THEN "violation" ELSE "ok"

\* The mismatch classes of one event, as a VALUE (TLC does not cache LET definitions that sit directly in an
\* action, it does inside an operator evaluated as an expression: the JSON form is computed once per event).
JudgeModelled(e) ==
  LET T == JS.top[e.type]
      C0 == Ctx(e, NoFacts)
      p == FromBytes(C0, T, e.bytes)
  IN IF ~p.ok THEN <<"TOOL">>
     ELSE LET j == ToJ(C0, T, p.v) IN
          IF ~JEq(j, Expand(e.json)) THEN <<"C20.json">>
          ELSE LET vs == [i \in 1..Len(e.cs) |-> CorrVerdict(e, T, j, e.cs[i])] \o <<>> IN
               (IF \A i \in 1..Len(vs) : vs[i] # "tool" THEN <<>> ELSE <<"TOOL">>)
               \o (IF \A i \in 1..Len(vs) : vs[i] # "violation" THEN <<>> ELSE <<"C20.corrupt">>)
Judge(e) ==
  (IF Back(e) THEN <<>> ELSE <<"C20.back">>)
  \o (IF e.rebuilt /\ e.walk THEN <<>> ELSE <<"TOOL">>)
  \o (IF e.m /\ e.to = "ok" THEN JudgeModelled(e) ELSE <<>>)
Tagged(i, cs) == [q \in 1..Len(cs) |-> <<i, cs[q]>>]

VARIABLE l
Init == l = 1 /\ MismatchInit
Next == /\ l <= Len(Rec)
        /\ TLCSet(1, TLCGet(1) \o Tagged(l, Judge(Rec[l])))
        /\ l' = l + 1
Accepted == Report(TLCGet("stats").diameter - 1) /\ PrintT(<<"MISMATCH", ToJson(TLCGet(1))>>)
=============================================================================
