INIT TInit
NEXT TNext
POSTCONDITION Accepted_
CHECK_DEADLOCK FALSE
