--------------------------- MODULE Trace_Totality ---------------------------
(* C14 (exploration): every event is one adversarial byte string decoded by *)
(* one concrete Rust type in a child process (trusted or untrusted), with   *)
(* the outcome, peak heap growth, CPU time and the outcomes of the          *)
(* receiver's follow-up operations. The grammar supplies the inputs and     *)
(* VecDepth; panics, aborts, time and memory are observed, not modelled.    *)
(* Mismatch classes: C14.outcome / C14.reject / C14.consumed / C14.post /   *)
(* C14.alloc / C14.cpu                                                      *)
EXTENDS Streamable, TraceUtil

Schema == JsonDeserialize(IOEnv.SCHEMA)

KiB == 1024
MiB == 1024 * 1024
\* pre-allocation is capped at 2 MiB per nesting level of vectors; everything else is
\* proportional to the input. AllocFactor bounds (in-memory size / wire size) x (growth doubling):
\* measured worst case on the unchanged tree 324 (4000 all-None SubSlotData, 13 wire bytes and
\* ~2.1 KB in memory each), deterministic; 64 as first planned is below what the code needs
AllocFactor == 2048
Depth(e) == IF e.m THEN VecDepth(Schema.types, Schema.top[e.type]) ELSE 0
\* peak_alloc <= AllocFactor * len + 2 MiB * VecDepth(T) + 8 MiB, written without a product
\* that could exceed TLC's 32-bit integers (peak_alloc is clamped to 2 * 10^9 by the harness)
AllocConst(e) == 2 * MiB * Depth(e) + 8 * MiB
AllocOk(e) == \/ e.peak_alloc <= AllocConst(e)
              \/ (e.peak_alloc - AllocConst(e) + AllocFactor - 1) \div AllocFactor <= e.len
CpuBoundMs == 2000

\* decoding returns a value or an error: no panic, abort (failed allocation, stack overflow), hang
Outcome(e) == e.outcome \in {"value", "error"}
\* truncated / extended valid encodings are rejected (PrefixFree and Canon of the model)
Reject(e) == (e.must_reject /\ Outcome(e)) => e.outcome = "error"
\* a value means that all bytes were consumed: its re-encoding is as long as the input
Consumed(e) == (e.outcome = "value" /\ e.post.reencode = "ok") => e.post.reenc_len = e.len
\* everything a receiver does with a decoded value completes
Post(e) == e.outcome = "value" => /\ e.post.reencode \in {"ok", "err"}
                                  /\ e.post.hash = "ok"
                                  /\ e.post.eq \in {"ok", "neq", "err", "na"}
Alloc(e) == Outcome(e) => AllocOk(e)
Cpu(e) == (Outcome(e) /\ e.len <= 64 * KiB) => e.cpu_ms <= CpuBoundMs

VARIABLE l
Init == l = 1 /\ MismatchInit
Next == /\ l <= Len(Rec)
        /\ LET e == Rec[l] IN
           /\ CheckC(Outcome(e), l, "C14.outcome")
           /\ CheckC(Reject(e), l, "C14.reject")
           /\ CheckC(Consumed(e), l, "C14.consumed")
           /\ CheckC(Post(e), l, "C14.post")
           /\ CheckC(Alloc(e), l, "C14.alloc")
           /\ CheckC(Cpu(e), l, "C14.cpu")
        /\ l' = l + 1
\* Report prints the first 50 mismatches; the full list follows (the driver reads the last line), so
\* that many instances of one known finding cannot hide a different violation
Accepted == Report(TLCGet("stats").diameter - 1) /\ PrintT(<<"MISMATCH", ToJson(TLCGet(1))>>)
=============================================================================
