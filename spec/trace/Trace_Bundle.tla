---------------------------- MODULE Trace_Bundle ----------------------------
(* T stage for C08 (+ C02 / C04 on run_spendbundle, C09 SpendBundle::additions). *)
EXTENDS Bundle, TraceUtil

\* run_spendbundle against the specification
MatchDirect(e, d) ==
  /\ e.direct.ok = d.ok
  /\ d.ok => /\ SummaryEq(d.st, e.direct.r)
             /\ \A i \in DOMAIN e.direct.r.spends : e.direct.r.spends[i].ecost = e.runs[i].cost

MatchLen(e) ==
  /\ e.calc_len = PredictedLen(e)
  /\ e.plain.ok /\ e.plain.len = PredictedLen(e)
  /\ "bytes" \in DOMAIN e.plain => e.plain.bytes = Ser(GeneratorTree(e))
  /\ e.backrefs.ok /\ e.backrefs.len <= e.plain.len

\* a generator built from the bundle gives the same decision and conditions; limit raised by the quote overhead
MatchBlock(e, d, g, interned, limit, exactLen) ==
  HashesMatch(e) =>
    /\ g.ok
    /\ d.condsOk =>
         LET c == BlockCost(e, g.len, d, interned) IN
         /\ g.native.ok = Le(c, limit)
         /\ g.native.ok => g.native.r.cost = c
    /\ (~d.condsOk /\ d.why # "shape") => ~g.native.ok
    /\ (g.native.ok /\ e.direct.ok) => SameConditionsAnyOrder(g.native.r, e.direct.r)

MatchC08(e, d) ==
  LET lim == Add(e.max, QuoteOverhead(e)) IN
  /\ MatchDirect(e, d)
  /\ MatchLen(e)
  /\ MatchBlock(e, d, e.plain, Interned(e), lim, TRUE)
  /\ MatchBlock(e, d, e.backrefs, Interned(e), lim, FALSE)
  \* the fixed quote-wrapper overhead between mempool cost and block cost
  /\ (e.direct.ok /\ e.plain.native.ok) =>
        e.plain.native.r.cost = Add(e.direct.r.cost, IF Interned(e) THEN <<20>> ELSE QuoteOverhead(e))
  \* both block builders, given the truthful declared cost, emit a generator with the same conditions and report the consensus cost
  /\ (HashesMatch(e) /\ e.direct.ok) =>
        /\ e.cb.ok /\ e.cb.added /\ e.cb.native.ok /\ SameConditionsAnyOrder(e.cb.native.r, e.direct.r) /\ e.cb.cost = e.cb.native.r.cost
        /\ e.ib.ok /\ e.ib.added /\ e.ib.native.ok /\ SameConditionsAnyOrder(e.ib.native.r, e.direct.r) /\ e.ib.cost = e.ib.native.r.cost

SbRunsFee(e) == SumSeq([i \in DOMAIN e.runs |-> IF "res" \in DOMAIN e.runs[i] THEN DeclaredFeeOfConds(e.runs[i].res) ELSE Zero])
MatchC02(e) == e.direct.ok => ObsAccepted(e.direct.r) /\ (SbOpaque(e) \/ ObsDeclaredFee(e.direct.r, SbRunsFee(e)))
MatchC04(e, d) ==
  /\ (e.direct.ok /\ d.ok) => /\ e.direct.r.cost = d.cost /\ e.direct.r.ecost = d.ecost /\ e.direct.r.ccost = d.st.ret.ccost
  /\ e.direct.ok => Le(e.direct.r.cost, e.max) /\ ObsCostConsistent(e.direct.r)
  /\ ("frontier" \in DOMAIN e /\ ~e.direct.ok) => e.direct.err = 23
\* SpendBundle::additions lists the created coins of a valid bundle
MatchC09(e, d) ==
  (d.ok /\ e.direct.ok) =>
     /\ e.additions.ok
     /\ RangeOf(e.additions.coins) = {a.coin : a \in ExpectedAdditions(d.st)}
     /\ Len(e.additions.coins) = NumAdditions(d.st)

\* recorded finding (known_findings.json, C09P): SpendBundle::additions refuses a bundle containing a condition whose
\* opcode position holds a pair ("invalid condition"), which consensus ignores as an unknown condition
HasPairOpcode(e) == \E i \in DOMAIN e.runs : e.runs[i].ok /\ \E c \in RangeOf(Elems(e.runs[i].res)) : IsPair(c) /\ IsPair(c.l)
PairOpcodeRefusal(e, d) == d.ok /\ e.direct.ok /\ ~e.additions.ok /\ HasPairOpcode(e)
                           /\ "errkind" \in DOMAIN e.additions /\ e.additions.errkind = "invalid-condition"

VARIABLE l
Init == l = 1 /\ MismatchInit
Next == /\ l <= Len(Rec)
        /\ LET e == NormSb(Rec[l]) IN
             IF SbOpaque(e) THEN CheckC(MatchC02(e) /\ MatchLen(e), l, "C02")
             ELSE LET d == Direct(e) IN
                  /\ CheckC(MatchC08(e, d), l, "C08")
                  /\ CheckC(MatchC02(e), l, "C02")
                  /\ CheckC(MatchC04(e, d), l, "C04")
                  /\ IF PairOpcodeRefusal(e, d) THEN NoteMismatch(l, "C09P") ELSE CheckC(MatchC09(e, d), l, "C09")
        /\ l' = l + 1
Accepted_ == Report(TLCGet("stats").diameter - 1)
=============================================================================
