----------------------------- MODULE Trace_Keys -----------------------------
(* C16 (R + T). One event = one independent observation of the code:        *)
(*  "script": an operation script executed on real keys with two seed sets; *)
(*            byte equality among the results must be exactly the equality  *)
(*            relation of KeyAlgebra, alternative implementations of one    *)
(*            operation must agree, and the secret-key side must follow the *)
(*            arithmetic modulo r computed here (SHA-256 inside TLC).       *)
(*  "enc":    one 48 / 96 byte string through all parsers, judged by the    *)
(*            PointEncoding table given the logged oracle facts.            *)
(*  "skr":    SecretKey range rule.  "gt" / "gt2": pairing element bytes.   *)
(* The result of matching is the name of the first violated rule ("ok" if   *)
(* none); it becomes the mismatch class.                                    *)
EXTENDS KeyAlgebra, PointEncoding, Sha, TraceUtil

\* tree hash of the default hidden puzzle (=) = (9 . nil):  sha256(2 || sha256(1 || 9) || sha256(1))
DefaultHidden == SHA256(<<2>> \o SHA256(<<1, 9>>) \o SHA256(<<1>>))
HiddenBytes(e, x) == IF x \in {"D", "DX"} THEN DefaultHidden ELSE e.hid[x]

KindLen(k) == CASE k = "sk" -> 32 [] k = "pk" -> 48 [] k = "sig" -> 96

ScriptVerdict(e) ==
  LET ops == e.ops
      n == Len(ops)
  IN
  IF ~ScriptWellFormed(ops) THEN "TOOL/ill-formed-script"
  ELSE
  LET vals == EvalScript(ops)
      cls == Classes(vals)
      runs == DOMAIN e.runs
      AllOk == \A r \in runs : Len(e.runs[r].ent) = n /\ \A i \in 1..n : e.runs[r].ent[i].ok
      \* extended store: position i = entry i, position n + i = public key of the secret key in entry i
      XDom == (1..n) \cup {n + i : i \in {j \in 1..n : vals[j].k = "sk"}}
      XVal(j) == IF j <= n THEN vals[j] ELSE Pub(vals[j - n])
      XBytes(r, j) == IF j <= n THEN e.runs[r].ent[j].v ELSE e.runs[r].ent[j - n].pub
      LenOk == \A r \in runs, j \in XDom : Len(XBytes(r, j)) = KindLen(XVal(j).k)
      \* equal where the algebra says equal (in every run) ...
      EqSide == \A r \in runs, i, j \in XDom : XVal(i) = XVal(j) => XBytes(r, i) = XBytes(r, j)
      \* ... different elsewhere: a collision counts only when it reproduces with the second seed set
      DiffSide == \A i, j \in XDom : XVal(i) # XVal(j) => \E r \in runs : XBytes(r, i) # XBytes(r, j)
      \* by-value / by-reference / assigning operators, repeated signing, the four parsers: one result
      AltOk == \A r \in runs, i \in 1..n : \A k \in DOMAIN e.runs[r].ent[i].alt : e.runs[r].ent[i].alt[k] = e.runs[r].ent[i].v
      \* secret-key side, concretely: child = parent + H(pk || idx) mod r, synthetic = key + signed H(pk || hidden) mod r
      ScalarOk == \A r \in runs, i \in 1..n :
        LET o == ops[i] en == e.runs[r].ent IN
        CASE o.op = "dsk"   -> en[i].v = Fixed32(AddModR(en[o.a].v, UnsignedModR(SHA256(en[o.a].pub \o FixedBE(o.n, 4)))))
          [] o.op = "synsk" -> en[i].v = Fixed32(AddModR(en[o.a].v, SignedModR(SHA256(en[o.a].pub \o HiddenBytes(e, o.x)))))
          [] o.op = "addsk" -> en[i].v = Fixed32(AddModR(en[o.a].v, en[o.b].v))
          [] OTHER -> TRUE
      \* the relation TLC printed with the case is the relation computed here
      McOk == e.mc = <<>> \/ (Len(e.mc) = n /\ \A i, j \in 1..n : (e.mc[i] = e.mc[j]) <=> (cls[i] = cls[j]))
  IN
  IF ~McOk THEN "TOOL/mc-relation"
  ELSE IF ~AllOk THEN "C16/total"
  ELSE IF ~LenOk THEN "C16/length"
  ELSE IF ~EqSide THEN "C16/equal-side"
  ELSE IF ~DiffSide THEN "C16/difference-side"
  ELSE IF ~AltOk THEN "C16/variants"
  ELSE IF ~ScalarOk THEN "C16/scalar"
  ELSE "ok"

EncVerdict(e) ==
  IF ~OracleCoherent(e.kind, e.b, e.oncurve, e.insub) THEN "TOOL/oracle"
  ELSE
  LET acc == Checked(e.kind, e.b, e.oncurve, e.insub)
      Canon(res) == res.ok => res.out = e.b
  IN
  IF e.chk.ok # acc THEN "C16/enc-checked"                      \* from_bytes: exactly the canonical subgroup encodings
  ELSE IF e.st.ok # acc THEN "C16/enc-streamable"               \* Streamable::parse::<false> is checked parsing
  ELSE IF (e.chk.ok /\ ~e.unc.ok) \/ (e.st.ok /\ ~e.stt.ok) THEN "C16/enc-superset"
  ELSE IF ~(Canon(e.chk) /\ Canon(e.unc) /\ Canon(e.st) /\ Canon(e.stt)) THEN "C16/enc-canonical"
  ELSE "ok"

SkrVerdict(e) ==
  LET acc == SkAccept(e.b) IN
  IF e.chk.ok # acc \/ e.st.ok # acc THEN "C16/sk-range"
  ELSE IF (e.chk.ok /\ e.chk.out # e.b) \/ (e.st.ok /\ e.st.out # e.b) THEN "C16/sk-canonical"
  ELSE "ok"

GtVerdict(e) == IF e.ok /\ e.out = e.b /\ e.eq /\ e.streamed = e.b /\ e.parsed = <<e.b>> THEN "ok" ELSE "C16/gt-roundtrip"
Gt2Verdict(e) == IF e.eq <=> (e.x = e.y) THEN "ok" ELSE "C16/gt-unique"

Verdict(e) == CASE e.k = "script" -> ScriptVerdict(e) [] e.k = "enc" -> EncVerdict(e) [] e.k = "skr" -> SkrVerdict(e)
                [] e.k = "gt" -> GtVerdict(e) [] e.k = "gt2" -> Gt2Verdict(e)

VARIABLE l
Init == l = 1 /\ MismatchInit
Next == /\ l <= Len(Rec)
        /\ LET v == Verdict(Rec[l]) IN CheckC(v = "ok", l, v)
        /\ l' = l + 1
Accepted_ == Report(TLCGet("stats").diameter - 1)
=============================================================================
