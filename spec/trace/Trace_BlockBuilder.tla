------------------------- MODULE Trace_BlockBuilder -------------------------
(* C10 (R + T): histories recorded from the real block builders             *)
(* (harness/vh/src/builder.rs). One event per public call:                   *)
(*   reset    a fresh builder of e.kind with the constants e.max / e.cpb     *)
(*   add      add_spend_bundles(batch, e.declared) -> (e.added, e.done),     *)
(*            cost() afterwards = e.cost_after; the batch is described by    *)
(*            independent measurements (n, plain, iso, spends, truthful)     *)
(*   finalize finalize() -> generator (decoded by clvmr: e.shape, e.spends,  *)
(*            e.exact = its length / its interned vbytes), e.cost, signature *)
(*            (e.sig_ids = the offered bundles whose signatures sum up to    *)
(*            it, e.sig_verify = aggregate_verify), the verdict of           *)
(*            run_block_generator2 on it (e.rbg2) and of a twin builder that *)
(*            was only given the accepted attempts (e.twin)                  *)
(* The tentative serializer size of an add is not logged: TLC infers it (the *)
(* size that explains (added, cost_after), inside TentativeSizes).           *)
(* Mismatch classes: C10 (a clause of the property), C10done (the Done flag  *)
(* / skip counter heuristics of the code's exits), C10E (EstimateUpper in    *)
(* the one state where the unchanged compressed builder is known to violate  *)
(* it: byte_cost still 0), C10L (LaterOutputUnaffected, cost only, compressed *)
(* builder after rejected attempts), tool (harness plumbing).                *)
(* Never blocks: after a mismatch that loses the state the rest of the       *)
(* history is not judged (void) until the next reset.                        *)
EXTENDS BlockBuilder, TraceUtil

MinCostThreshold == 6000000     \* MIN_COST_THRESHOLD of both builders

VARIABLES void, l
tvars == <<bvars, void, l>>

BatchOf(e) == [n |-> e.n, plain |-> e.plain, iso |-> e.iso, spends |-> e.spends, sigs |-> e.sigs, truthful |-> e.truthful]

\* candidate tentative sizes: the largest possible one (explains every rejection that any size explains, since
\* the guards are monotone in the size) and the one that an accepted add pins through cost_after
Cands(e, b) ==
  LET T == TentativeSizes(cfg, St, b)
      hi == IF IsCompressed(cfg) THEN size + b.plain ELSE size + b.iso
      bc == e.cost_after - blockCost - e.declared - WrapCost(cfg)
      pinned == IF IsCompressed(cfg) THEN (bc \div cfg.cpb) - ClosingBytes ELSE bc \div cfg.cpb
  IN {s \in {hi, pinned} : s \in T}

JudgeAdd(e) ==
  LET b == BatchOf(e)
      good == {s \in Cands(e, b) : LET r == AddStep(cfg, St, b, e.declared, s) IN
                                     r.added = e.added /\ Est(cfg, r.st) = e.cost_after}
  IN IF e.res # "ok" \/ good = {} THEN [ok |-> FALSE]
     ELSE LET r == AddStep(cfg, St, b, e.declared, CHOOSE s \in good : TRUE)
          IN [ok |-> TRUE, st |-> r.st, doneOk |-> r.done = e.done, exit |-> r.exit]

Coin(x) == [p |-> x.p, ph |-> x.ph, amt |-> x.amt]
CoinsOf(q) == [i \in DOMAIN q |-> Coin(q[i])]

\* the clauses of the property at finalize (everything except EstimateUpper)
FinalOk(e) ==
  /\ e.res = "ok"                                                          \* FinalizeEnabled: no panic, no error
  /\ e.exact \in FinalSizes(cfg, St)                                       \* 2 closing bytes / triangle inequality
  /\ e.cost = FinalCost(cfg, St, e.exact)
  /\ e.cost <= cfg.max                                                     \* WithinLimit
  /\ e.est = Est(cfg, St)                                                  \* cost() did not move since the last add
  /\ e.shape = "ok" /\ SameBag(e.spends, FlattenSpends(accepted))          \* OutputIsAccepted
  /\ SameBag(e.sig_ids, sigBag) /\ e.sig_verify \in {"ok", "na"}           \* SigIsAggregate
  /\ e.rbg2.ok /\ SameBag(e.rbg2.coins, CoinsOf(FlattenSpends(accepted)))  \* consensus sees the accepted spends
  /\ AllTruthful(accepted) => /\ e.rbg2.cost = e.cost                      \* CostIsConsensus
                              /\ e.cost = ConsensusCost(cfg, accepted, e.exact)
  /\ e.twin.ran => e.twin.spends_equal /\ e.twin.sig_equal                \* LaterOutputUnaffected (spends, signature)

\* LaterOutputUnaffected, cost: a twin builder that is offered only the accepted attempts accepts them and returns
\* the same cost. Known to fail for the unchanged compressed builder after rejected attempts (class C10L): the
\* serializer's back-reference cache keeps traces of an undone add, so later compression - and with it the
\* generator bytes and the cost - may differ although the spends and the signature are the same.
TwinCostOk(e) == e.twin.ran /\ e.twin.cost_equal
TwinClass(e) == IF IsCompressed(cfg) /\ e.rejected_attempts > 0 /\ (e.twin.ran => e.twin.spends_equal /\ e.twin.sig_equal)
                THEN "C10L" ELSE "C10"

Init == /\ cfg = [kind |-> "interned", max |-> 100000000, cpb |-> 12000, thr |-> MinCostThreshold, skip |-> MaxSkippedItems]
        /\ phase = "open" /\ last = [k |-> "new"]
        /\ accepted = <<>> /\ blockCost = QuoteCost /\ byteCost = 0 /\ size = 0 /\ skipped = 0 /\ sigBag = <<>>
        /\ void = TRUE /\ l = 1 /\ MismatchInit

Reset(e) ==
  LET c == [kind |-> e.kind, max |-> e.max, cpb |-> e.cpb, thr |-> MinCostThreshold, skip |-> MaxSkippedItems]
      \* the initial state that explains cost() of the fresh builder (stale or exact start of the compressed builder)
      fits == {s \in InitStates(c) : e.cost0 = Est(c, s)}
      ok == ConfigOk(c) /\ e.res = "ok" /\ fits # {}
      s == IF fits # {} THEN CHOOSE x \in fits : TRUE ELSE InitState(c) IN
  /\ cfg' = c /\ phase' = "open" /\ last' = [k |-> "new"]
  /\ SetSt(s)
  /\ CheckC(ConfigOk(c), l, "tool")
  /\ CheckC(e.res = "ok" /\ fits # {}, l, "C10")
  /\ void' = ~ok

Next ==
  /\ l <= Len(Rec)
  /\ l' = l + 1
  /\ LET e == Rec[l] IN
     CASE e.k = "reset" -> Reset(e)
       [] e.k = "add" ->
            (IF void \/ phase # "open" THEN CheckC(void, l, "tool") /\ UNCHANGED <<bvars, void>>
             ELSE LET j == JudgeAdd(e) IN
                  /\ CheckC(j.ok, l, "C10")
                  /\ IF j.ok THEN /\ CheckC(j.doneOk, l, "C10done")
                                  /\ SetSt(j.st)
                                  /\ last' = [k |-> "add", added |-> e.added, done |-> e.done, exit |-> j.exit]
                                  /\ UNCHANGED <<cfg, phase, void>>
                     ELSE void' = TRUE /\ UNCHANGED bvars)
       [] e.k = "finalize" ->
            (IF void \/ phase # "open" THEN CheckC(void, l, "tool") /\ UNCHANGED <<bvars, void>>
             ELSE /\ CheckC(FinalOk(e), l, "C10")
                  \* EstimateUpper: the estimate before finalize is at least the returned cost
                  /\ IF e.res # "ok" \/ e.est >= e.cost THEN TRUE
                     ELSE CheckC(FALSE, l, IF Stale(cfg, St) /\ e.cost - e.est = (InitSerSize + ClosingBytes) * cfg.cpb
                                           THEN "C10E" ELSE "C10")
                  /\ IF e.res # "ok" \/ TwinCostOk(e) THEN TRUE ELSE CheckC(FALSE, l, TwinClass(e))
                  /\ phase' = "finalized"
                  /\ last' = [k |-> "finalize"]
                  /\ UNCHANGED <<cfg, accepted, blockCost, byteCost, size, skipped, sigBag, void>>)
       [] OTHER -> CheckC(FALSE, l, "tool") /\ UNCHANGED <<bvars, void>>

\* as TraceUtil!Report, with every mismatch listed
Accepted_ ==
  LET m == TLCGet(1) IN
  /\ PrintT(<<"CONSUMED", ToJson(<<TLCGet("stats").diameter - 1, Len(Rec)>>)>>)
  /\ PrintT(<<"NMISMATCH", ToJson(<<Len(m)>>)>>)
  /\ PrintT(<<"MISMATCH", ToJson(SubSeq(m, 1, IF Len(m) < 400 THEN Len(m) ELSE 400))>>)
=============================================================================
