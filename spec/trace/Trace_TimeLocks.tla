-------------------------- MODULE Trace_TimeLocks --------------------------
(* C03 (T): the implementation's verdict (parse_spends, then                *)
(* check_time_locks in no-wrap mode) for a bundle in several chain states   *)
(* must equal the per-assertion oracle; the fold is NOT used on this path.  *)
EXTENDS TimeLocks, TraceUtil

BigMax == <<2, 143, 166, 174, 0>>
\* everything except the lock/birth assertions is judged by the condition machine
BaseOk(tree) == Accepted(Run([tree |-> StripLocks(tree), flags |-> {"DONT_VALIDATE_SIGNATURE"}, max |-> BigMax, clvm |-> Zero,
                                  vis |-> "empty", consts |-> [me |-> <<>>, parent |-> <<>>, puzzle |-> <<>>, amount |-> <<>>,
                                  puzzle_amount |-> <<>>, parent_amount |-> <<>>, parent_puzzle |-> <<>>], validKeys |-> {}]))
MatchTl(e) ==
  /\ ~e.panic
  /\ LET tree == FromJ(e.tree)
         base == BaseOk(tree) IN
     \A i \in DOMAIN e.chains :
       LET ch == e.chains[i] IN
       ConsistentChain(ch) => (ch.ok = (base /\ Oracle(tree, ch)))
  \* a bundle rejected at parse time has no satisfying chain state among those tried
  /\ ~e.parse_ok => \A i \in DOMAIN e.chains : ~e.chains[i].ok

VARIABLE l
Init == l = 1 /\ MismatchInit
Next == /\ l <= Len(Rec)
        /\ CheckC(MatchTl(Rec[l]), l, "C03")
        /\ l' = l + 1
Accepted_ == Report(TLCGet("stats").diameter - 1)
=============================================================================
