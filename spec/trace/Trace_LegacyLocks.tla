-------------------------- MODULE Trace_LegacyLocks --------------------------
(* X03 (T). Events (one independent call family per event, matched          *)
(* non-blockingly):                                                         *)
(*  lat   a TLC lattice case replayed: the harness compared the error code  *)
(*        of check_time_locks in both modes in EVERY chain state of the     *)
(*        case with the verdicts TLC predicted (nmis = number of            *)
(*        disagreements) and logs a sample of chain states, re-judged here  *)
(*  rnd   a seeded random summary in chain states next to the exact and     *)
(*        the wrapped thresholds; the lemmas are evaluated on every point   *)
(*  tree  a bundle through parse_spends -> owned summary -> both modes:     *)
(*        codes follow the program on the logged summary, and in            *)
(*        consistent chain states without overflow the legacy verdict is    *)
(*        the per-assertion meaning of the bundle's own conditions          *)
(*  own   the borrowed and the owned summary of one accepted bundle, its    *)
(*        Streamable bytes, hash and round trips                            *)
(*  probe the same condition VALUES in different allocator representations *)
(*        (an empty hint atom as the nil node, as new_atom(""), as a        *)
(*        zero-length substring of a heap atom, and as the result of the    *)
(*        CLVM program (substr BIG 7 7)): the owned form must depend on the *)
(*        values only                                                       *)
EXTENDS LegacyLocks, TraceUtil

PointOk(agg, c) ==
  /\ c.nowrap = Code(Verdict("nowrap", agg, c))
  /\ c.legacy = Code(Verdict("legacy", agg, c))
Lemmas(agg, c) == FirstFailureReported(agg, c) /\ DifferExactly(agg, c) /\ NoOverflowExact(agg, c) /\ NowrapIsCheckAgg(agg, c)

MatchLat(e) == e.nmis = 0 /\ e.npanic = 0 /\ \A i \in DOMAIN e.sample : PointOk(e.agg, e.sample[i])
MatchRnd(e) == \A i \in DOMAIN e.sample : PointOk(e.agg, e.sample[i]) /\ Lemmas(e.agg, e.sample[i])

AllHold(tree, c) == \A a \in AssertionsOf(tree) : Holds(a, c)
MatchTree(e) ==
  /\ ~e.panic
  /\ e.parse_ok =>
       LET tree == FromJ(e.tree)
           agg == LockSummary(e.r) IN
       \A i \in DOMAIN e.chains :
         LET c == e.chains[i] IN
         /\ PointOk(agg, c)
         /\ DifferExactly(agg, c)
         /\ (ConsistentChain(c) /\ NoOverflow(agg, c)) => ((c.legacy = 0) <=> AllHold(tree, c))
         \* outside the overflow region nothing distinguishes the modes
         /\ NoOverflow(agg, c) => c.legacy = c.nowrap

MatchOwn(e) ==
  /\ ~e.panic
  /\ e.ok =>
       /\ OwnedMatches(e.b, e.o)
       /\ e.o.enc_r = "ok" /\ e.o.enc = WireOf(e.o)
       /\ e.o.hash = SHA256(e.o.enc)
       /\ e.o.rt = "ok" /\ e.o.rtu = "ok"

\* node pointers are read through the allocator, never compared: equal values give equal owned forms
MatchProbe(e) == e.same_value => e.same_owned

Match(e) == CASE e.k = "lat" -> MatchLat(e)
              [] e.k = "rnd" -> MatchRnd(e)
              [] e.k = "tree" -> MatchTree(e)
              [] e.k = "own" -> MatchOwn(e)
              [] e.k = "probe" -> MatchProbe(e)
              [] OTHER -> FALSE

VARIABLE l
Init == l = 1 /\ MismatchInit
Next == /\ l <= Len(Rec)
        /\ CheckC(Match(Rec[l]), l, "X03")
        /\ l' = l + 1
Accepted_ == Report(TLCGet("stats").diameter - 1)
=============================================================================
