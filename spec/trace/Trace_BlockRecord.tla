-------------------------- MODULE Trace_BlockRecord --------------------------
(* X02 (T): every event is one input pushed through the real functions of    *)
(* pot_iterations.rs / block_record.rs (event kinds iters, chal, flags: the  *)
(* Rust API; pyiters, pychal, pyflags: the pymethods of the py-bindings      *)
(* build). The specification recomputes every result. A quantity the spec    *)
(* leaves undefined must be reported as an error (Result / Python exception) *)
(* and never as a value; a Result-returning function must not panic.         *)
EXTENDS BlockRecord, TraceUtil

\* observed result o against the specified result s
Same(o, s) == IF IsOk(s) THEN o.k = "ok" /\ o.v = s.v ELSE o.k = "err"

MatchIters(e) ==
  LET iv  == SpIntervalIters(e.n, e.ssi)
      sp  == SpIters(e.n, e.ssi, e.idx)
      ip  == IpIters(e.n, e.extra, e.ssi, e.idx, e.req)
  IN /\ Same(e.interval, iv)
     /\ Same(e.sp, sp) /\ Same(e.br_sp, sp)
     /\ Same(e.ip, ip) /\ Same(e.br_ip, ip)
     /\ Same(e.ovf, IsOverflowBlock(e.n, e.extra, e.idx))

MatchPyIters(e) ==
  LET sp    == SpIters(e.n, e.ssi, e.idx)
      ip    == IpIters(e.n, e.extra, e.ssi, e.idx, e.req)
      ipsub == IpSubOf(e.total, ip)
      spsub == SpSubOf(ipsub, e.overflow, e.ssi)
      sptot == SpTotOf(spsub, sp)
  IN /\ Same(e.py_sp, sp) /\ Same(e.py_ip, ip)
     /\ Same(e.ipsub, ipsub) /\ Same(e.spsub, spsub) /\ Same(e.sptot, sptot)
     \* the promised identities, directly on the observed values
     /\ e.ipsub.k = "ok" => e.py_ip.k = "ok" /\ Add(e.ipsub.v, e.py_ip.v) = e.total
     /\ e.spsub.k = "ok" => /\ e.ipsub.k = "ok"
                            /\ IF e.overflow THEN Add(e.spsub.v, e.ssi) = e.ipsub.v ELSE e.spsub.v = e.ipsub.v
     /\ e.sptot.k = "ok" => e.spsub.k = "ok" /\ e.py_sp.k = "ok" /\ e.sptot.v = Add(e.spsub.v, e.py_sp.v)

\* is_challenge_block returns a plain bool: the undefined case (min_blocks_per_challenge_block = 0,
\* u8 underflow) shows as a panic of the overflow-checked build (Rust) / an exception (Python)
MatchChal(e) == LET s == IsChallengeBlock(e.deficit, e.minb) IN
  IF IsOk(s) THEN e.r.k = "ok" /\ e.r.v = s.v ELSE e.r.k \in {"panic", "err"}

MatchFlags(e) == LET b == [has_ts |-> e.has_ts, has_fcs |-> e.has_fcs] IN
  e.is_tx = IsTransactionBlock(b) /\ e.first = FirstInSubSlot(b)

Match(e) == CASE e.k = "iters" -> MatchIters(e)
              [] e.k = "pyiters" -> MatchPyIters(e)
              [] e.k \in {"chal", "pychal"} -> MatchChal(e)
              [] e.k \in {"flags", "pyflags"} -> MatchFlags(e)
              [] OTHER -> FALSE

VARIABLE l
Init == l = 1 /\ MismatchInit
Next == l <= Len(Rec) /\ CheckC(Match(Rec[l]), l, "X02") /\ l' = l + 1
Accepted_ == Report(TLCGet("stats").diameter - 1)
=============================================================================
