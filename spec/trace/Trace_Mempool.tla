---------------------------- MODULE Trace_Mempool ----------------------------
(* T stage for C19. Events (harness/vh/src/mempool.rs):                      *)
(*  "sb"   one run_spendbundle(MEMPOOL_MODE | COMPUTE_FINGERPRINT | ..) call; *)
(*         every spend's puzzle returns its solution, so e.spends[i].conds   *)
(*         IS the condition list; e.obs[i] = reported amount, flags,         *)
(*         fingerprint.                                                      *)
(*  "pair" two accepted bundles over the same coins whose first spends are   *)
(*         both flagged dedup-eligible and report the same fingerprint.      *)
(*  "ff"   one fast_forward_singleton call in abstract form, its result, the *)
(*         clvmr runs of the puzzle with the old and the new solution and    *)
(*         parse_spends of both outputs.                                     *)
EXTENDS Fingerprint, FastForward, TraceUtil

(* ------------------------------- part A ---------------------------------- *)
MatchSb(e) == /\ e.ok => /\ Len(e.obs) = Len(e.spends)
                         /\ \A i \in DOMAIN e.spends : ObsSpendOk(e.spends[i].conds, e.obs[i])
              \* the fingerprint function itself, on any list it can fingerprint (validated or not)
              /\ \A i \in DOMAIN e.spends : (e.cpf[i].ok /\ Preimage(e.spends[i].conds).ok) => e.cpf[i].fp = FP(e.spends[i].conds)
MatchPair(e) ==
  /\ Len(e.a.spends) = Len(e.b.spends)
  /\ \A i \in DOMAIN e.a.spends : ObsParsed(e.a.spends[i]) = ObsParsed(e.b.spends[i])
  /\ ObsBundleParsed(e.a) = ObsBundleParsed(e.b)

(* ------------------------------- part B ---------------------------------- *)
FfIn(e) == [shape |-> e.shape, prog_hash |-> e.prog_hash, structsx |-> e.structsx, inner_hash |-> e.inner_hash, sol |-> e.sol,
            coin |-> e.coin, nc |-> e.nc, np |-> e.np]
Usable(o) == o.ok /\ ~o.big
\* accept / refuse is the guard
MatchGuard(e) == e.ff.ok = FFGuard(FfIn(e))
\* the returned solution is the old one with three fields replaced
MatchResult(e) == e.ff.ok => e.ff.newsol \in {FFResultSx(FfIn(e)), FFResultNoTailsSx(FfIn(e))}
\* ... and nothing else is touched: ignored trailing elements must survive the rewrite
MatchTails(e) == e.ff.ok => ~(e.ff.newsol # FFResultSx(FfIn(e)) /\ e.ff.newsol = FFResultNoTailsSx(FfIn(e)))
\* the abstract form describes the reveal that was passed in (consistency of the harness)
MatchHarness(e) == e.shape = "curried" => e.ph_full = PuzzleHashOf(FfIn(e))

\* the rewritten spend runs, and its output is the old output re-targeted to the new coin
MatchRuns(e) == (e.ff.ok /\ e.out1.ok) => e.out2.ok
\* (outputs of the clvmr oracle arrive in the flat list form)
Out1(e) == FromJ(e.out1.res)
Out2(e) == FromJ(e.out2.res)
MatchRetarget(e) == (e.ff.ok /\ Usable(e.out1) /\ Usable(e.out2)) => Retargeted(Out1(e), Out2(e), e.nc)

Funders(e) == <<e.funder, [e.funder EXCEPT !.parent = e.funder.ph]>>
StOf(e, coin, out) == Run(MachineIn(coin, out, Funders(e), e.consts, RangeOf(e.vk)))
CcObs(ps) == RangeOf(ps.r.spends[1].cc)
\* a valid spend that the mempool would fast-forward stays valid on the new coin and creates the same coins
\* (an inner ASSERT_MY_AMOUNT ties the spend to the amount: then only same-amount targets are judged)
MatchSemantic(e) ==
  (e.ff.ok /\ Usable(e.out1)) =>
    LET st1 == StOf(e, e.coin, Out1(e))
        judged == /\ Accepted(st1) /\ FF \in st1.ret.spends[1].flags
                  /\ (e.nc.amt = e.coin.amt \/ CountOp(Out1(e), ASSERT_MY_AMOUNT) = 1)
    IN judged => /\ Usable(e.out2)
                 /\ LET st2 == StOf(e, e.nc, Out2(e)) IN
                      /\ Accepted(st2)
                      /\ st2.ret.spends[1].cc = st1.ret.spends[1].cc
                 \* the implementation's own parse of the two outputs agrees
                 /\ e.ps1.ok => (e.ps2.ok /\ CcObs(e.ps2) = CcObs(e.ps1))

VARIABLE l
Init == l = 1 /\ MismatchInit
Next == /\ l <= Len(Rec)
        /\ LET e == Rec[l] IN
           IF e.k = "sb" THEN CheckC(MatchSb(e), l, "C19")
           ELSE IF e.k = "pair" THEN CheckC(MatchPair(e), l, "C19")
           ELSE /\ CheckC(MatchGuard(e), l, "C19")
                /\ CheckC(MatchResult(e), l, "C19")
                /\ CheckC(MatchTails(e), l, "C19_TAIL")
                /\ CheckC(MatchHarness(e), l, "HARNESS")
                /\ CheckC(MatchRuns(e), l, "C19")
                /\ CheckC(MatchRetarget(e), l, "C19")
                /\ CheckC(MatchSemantic(e), l, "C19")
        /\ l' = l + 1
Accepted_ == Report(TLCGet("stats").diameter - 1)
=============================================================================
