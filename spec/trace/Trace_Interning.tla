--------------------------- MODULE Trace_Interning ---------------------------
(* X04 (T): events recorded from the real code (harness/vh/src/interning.rs) *)
(* against spec/Interning.tla.                                               *)
(*  tree  : a node table and what interned_vbytes returned for it (shared /  *)
(*          unshared / after a serialisation round trip), the base cost that *)
(*          run_block_generator2 charged for (q . (() . TREE)) under         *)
(*          INTERNED_GENERATOR; for real bundles also run_spendbundle, the   *)
(*          back-reference generator and one InternedBlockBuilder.           *)
(*  reset / add / fin : one history of one InternedBlockBuilder. The         *)
(*          specification recomputes every size from the logged spends and   *)
(*          decides accept / reject, cost() and finalize() itself.           *)
(* A mismatch is recorded (class X04) and voids the rest of its history.     *)
EXTENDS Interning, TraceUtil

VARIABLES l, cfg, bs, live

JSpend(s) == [parent |-> s.parent, puzzle |-> FromJ(s.puzzle), amount |-> s.amount, solution |-> FromJ(s.solution)]
JBatch(b) == [i \in DOMAIN b |-> [j \in DOMAIN b[i] |-> JSpend(b[i][j])]]

Has(e, f) == f \in DOMAIN e
Rbg2Ok(r, byte, nspends) == r.k = "ok" /\ r.byte = byte /\ r.nspends = nspends

\* big tables: the linear form of the interner (unique pairs by tree hash), small ones: the explicit interner
Big(t) == Len(t) > 48
SizeOf(t, h, n) == IF Big(t) THEN VBytesHW(t, h, n) ELSE VBytesT(t, n)
HashesOf(t) == IF Big(t) THEN NodeHashes(t) ELSE <<>>

\* the builder fed with ONE real bundle and declared cost 0 (max = 2^31 - 11, never reached)
MatchBundle(e, h, v) ==
  LET t == e.tbl
      est == WrapperVB + SeqX!FoldLeft(LAMBDA acc, i : acc + SizeOf(t, h, i) + ConsVB, 0, e.items) IN
  /\ (e.sb.k = "ok" => e.sb.byte = v * e.cpb)
  /\ (e.rbg2sb.k = "ok" => e.rbg2sb.byte = v * e.cpb /\ e.rbg2sb.nspends = Len(e.items))
  /\ e.bld.k = "ok" /\ e.bld.added
  /\ e.bld.cost = est * e.cpb + QuoteCost
  /\ e.bld.fin = v * e.cpb + QuoteCost
  /\ est >= v + 2 * Len(e.items)

MatchTree(e) ==
  LET t == e.tbl
      n == e.root
      h == HashesOf(t)
      v == SizeOf(t, h, n)
      w == WrapDeadT(t, n) IN
  /\ WellFormedT(t) /\ n \in DOMAIN t
  /\ e.vb = v /\ e.vbb = v
  /\ (e.vbu # <<>> => LET x == Unfold(t, n) IN
                      /\ e.vbu[1] = v /\ v = InternedVBytes(x)
                      /\ e.serlen[1] = SerLen(x)
                      /\ ValueLaws(x, v))
  /\ Rbg2Ok(e.rbg2, SizeOf(w.t, HashesOf(w.t), w.n) * e.cpb, 0) /\ e.rbg2.cost = e.rbg2.byte + QuoteCost
  /\ (Has(e, "items") => MatchBundle(e, h, v))

JudgeAdd(e) ==
  LET r == AddResult(cfg, bs, JBatch(e.batch), e.declared) IN
  [ok |-> e.res = "ok" /\ e.added = r.added /\ e.done = r.done /\ e.cost = CostOf(cfg, r.b), b |-> r.b]

MatchFin(e) ==
  LET exact == ExactVB(bs.acc)
      iso == SumIso(bs.acc)
      est == WrapperVB + iso IN
  /\ e.res = "ok"
  /\ e.cost = exact * cfg.cpb + bs.block               \* = FinalCost(cfg, bs): finalize() interns the final tree from scratch
  /\ e.gen_vb = exact
  /\ (e.gen # <<>> => FromJ(e.gen[1]) = GenTree(bs.acc))
  /\ (e.rbg2.k = "ok" => e.rbg2.byte = exact * cfg.cpb /\ e.rbg2.nspends = Len(bs.acc))
  /\ bs.est = iso /\ est >= exact + 2 * Len(bs.acc) /\ (est = exact <=> bs.acc = <<>>)     \* EstIsSum, EstUpper
  /\ e.cost <= CostOf(cfg, bs) /\ e.cost <= cfg.max

Init == l = 1 /\ cfg = [cpb |-> 1, max |-> 0] /\ bs = B0 /\ live = FALSE /\ MismatchInit

Next ==
  /\ l <= Len(Rec)
  /\ l' = l + 1
  /\ LET e == Rec[l] IN
     CASE e.k = "tree" -> CheckC(MatchTree(e), l, "X04") /\ UNCHANGED <<cfg, bs, live>>
       [] e.k = "reset" -> cfg' = [cpb |-> e.cpb, max |-> e.max] /\ bs' = B0 /\ live' = TRUE
       [] e.k = "add" ->
            (IF ~live THEN UNCHANGED <<cfg, bs, live>>
             ELSE LET j == JudgeAdd(e) IN
                  /\ CheckC(j.ok, l, "X04")
                  /\ bs' = j.b /\ live' = j.ok /\ UNCHANGED cfg)
       [] e.k = "fin" ->
            (IF ~live THEN UNCHANGED <<cfg, bs, live>>
             ELSE CheckC(MatchFin(e), l, "X04") /\ live' = FALSE /\ UNCHANGED <<cfg, bs>>)
       [] OTHER -> CheckC(FALSE, l, "tool") /\ UNCHANGED <<cfg, bs, live>>

Accepted_ == Report(TLCGet("stats").diameter - 1)
=============================================================================
