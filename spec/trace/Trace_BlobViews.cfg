INIT Init
NEXT Next
CONSTANT IH <- ShaIH
POSTCONDITION Accepted_
CHECK_DEADLOCK FALSE
