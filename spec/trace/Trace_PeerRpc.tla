--------------------------- MODULE Trace_PeerRpc ---------------------------
(* X06 (R + T): histories recorded from the real chia_client::Peer talking  *)
(* to an in-process websocket server. Events: reset | wave (requests issued *)
(* concurrently + what arrived on the wire) | reply (one server message,    *)
(* handled by Inbound before the next observation) | close | obs (requests  *)
(* that returned since the last observation with their results, requests    *)
(* still waiting, events broadcast since the last observation).             *)
(* The state is advanced ONLY with the actions of PeerRpc; the logged       *)
(* observations are compared with it. Never blocks; after a mismatch the    *)
(* rest of the history is not judged.                                       *)
EXTENDS PeerRpc, TraceUtil

VARIABLES s, evseen, void, l

Range(q) == {q[i] : i \in DOMAIN q}
RECURSIVE AddAll(_, _)
AddAll(t, qs) == IF qs = <<>> THEN t ELSE AddAll(AddReq(t, Head(qs).r, Head(qs).kind, Head(qs).h), Tail(qs))
\* requests of a wave ordered by the id seen on the wire (= order of the fetch_add)
RECURSIVE ById(_)
ById(arr) == IF arr = {} THEN <<>>
             ELSE LET a == CHOOSE x \in arr : \A y \in arr : x.id[1] <= y.id[1] IN <<a.r>> \o ById(arr \ {a})

OutOf(res) == CASE res.k = "invalid" -> [k |-> "invalid", ty |-> res.m.ty, id |-> res.m.id, data |-> res.m.data]
                [] res.k \in {"ok", "rejection"} -> [k |-> res.k, v |-> res.v]
                [] OTHER -> [k |-> res.k]

Wave(e) ==
  LET t0 == AddAll(s, e.reqs)
      ok0 == /\ \A i \in DOMAIN e.arr : e.arr[i].id # <<>>
             /\ Cardinality({e.arr[i].r : i \in DOMAIN e.arr}) = Len(e.arr)
             /\ {e.arr[i].r : i \in DOMAIN e.arr} = {e.reqs[i].r : i \in DOMAIN e.reqs} IN
  IF ~ok0 THEN [ok |-> FALSE, s |-> s]
  ELSE LET t1 == WaveF(t0, ById(Range(e.arr)))
           sent == {t1.wire[i] : i \in (Len(s.wire) + 1)..Len(t1.wire)} IN
       \* every request went out once with the id the model allocates, its own type and payload
       [ok |-> sent = {[r |-> a.r, id |-> a.id[1], ty |-> a.ty, h |-> a.h] : a \in Range(e.arr)} /\ DistinctIds(t1), s |-> t1]

Obs(e) ==
  LET t1 == CompleteAllF(s)
      newdone == {r \in DOMAIN t1.reqs : t1.reqs[r].st = "done" /\ s.reqs[r].st # "done"} IN
  [ok |-> /\ {e.done[i].r : i \in DOMAIN e.done} = newdone
          /\ Len(e.done) = Cardinality(newdone)
          /\ \A i \in DOMAIN e.done : e.done[i].r \in newdone => e.done[i].out = OutOf(t1.reqs[e.done[i].r].res)
          /\ Range(e.pend) = InFlight(t1)
          /\ e.ev = SubSeq(t1.events, evseen + 1, Len(t1.events))
          /\ AllProps(t1),
   s |-> t1]

Init == s = S0 /\ evseen = 0 /\ void = FALSE /\ l = 1 /\ MismatchInit

Step(e) ==
  CASE e.k = "wave" -> Wave(e)
    [] e.k = "reply" -> [ok |-> TRUE, s |-> ReplyF(s, e.m)]
    [] e.k = "close" -> [ok |-> TRUE, s |-> ReplyF(s, CloseMsg)]
    [] e.k = "obs" -> Obs(e)

Next ==
  /\ l <= Len(Rec)
  /\ l' = l + 1
  /\ LET e == Rec[l] IN
     IF e.k = "reset" THEN s' = S0 /\ evseen' = 0 /\ void' = FALSE
     ELSE IF e.k = "toolerr" THEN CheckC(FALSE, l, "tool") /\ void' = TRUE /\ UNCHANGED <<s, evseen>>
     ELSE IF void THEN UNCHANGED <<s, evseen, void>>
     ELSE LET j == Step(e) IN
          /\ CheckC(j.ok, l, IF e.k = "obs" /\ s.closed THEN "X06.close" ELSE "X06")
          /\ s' = j.s /\ void' = ~j.ok
          /\ evseen' = IF e.k = "obs" THEN Len(j.s.events) ELSE evseen
Accepted_ == Report(TLCGet("stats").diameter - 1)
=============================================================================
