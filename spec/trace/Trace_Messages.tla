--------------------------- MODULE Trace_Messages ---------------------------
(* X09 (R + T): one event per call of the real parse_spends on a bundle that *)
(* contains only SEND_MESSAGE / RECEIVE_MESSAGE conditions. The event logs    *)
(* the spends (parent, puzzle hash, amount), the conditions in parse order,   *)
(* the flags and what the parser returned. The verdict and the error are      *)
(* recomputed with the standalone machine of Messages.tla (ApplyCond for each *)
(* condition, then FinishSt); coin ids are recomputed with real SHA-256.      *)
EXTENDS Messages, TraceUtil

InOf(e) == [spends |-> [n \in DOMAIN e.spends |-> MkSpend(e.spends[n].parent, e.spends[n].ph, e.spends[n].amt)],
            strict |-> e.strict, cc |-> e.cc]
CondsOf(e) == [n \in DOMAIN e.conds |-> [sp |-> e.conds[n].sp, op |-> e.conds[n].op, args |-> FromJ(e.conds[n].args)]]

Match(e) ==
  LET r == Run(InOf(e), CondsOf(e)) IN
  /\ e.ok = Accepted(r)
  /\ e.err = r.err

VARIABLE l
Init == l = 1 /\ MismatchInit
Next == l <= Len(Rec) /\ CheckC(Match(Rec[l]), l, "X09") /\ l' = l + 1
Accepted_ == Report(TLCGet("stats").diameter - 1)
=============================================================================
