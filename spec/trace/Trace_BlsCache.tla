--------------------------- MODULE Trace_BlsCache ---------------------------
(* C15 (T): validates what the harness recorded from the real code.          *)
(*                                                                           *)
(* Concurrent histories: `init` (capacity, byte tables of keys and messages, *)
(* prior contents, calls, environment operations, state after every thread's *)
(* lock-free prefix), then one `step` / `env` event per critical section in  *)
(* the order the baton scheduler forced, each with len() and the cache keys  *)
(* oldest first, then `end` with one probe verification per cached entry.    *)
(* The scheduled thread takes the action of BlsCache its pc enables (hit or  *)
(* miss is decided by the specification's own cache); lock-free actions run  *)
(* eagerly in steps of their own. The logged keys are real SHA-256 values:   *)
(* the specification recomputes sha256(pk bytes || msg) for every pair.      *)
(* Mismatch classes: "C15" = a clause of the property (more entries than the *)
(* capacity, a verdict that differs from RefVerdict, a probe that fails);    *)
(* "C15M" = the cache does not evolve as the FIFO model of bls_cache.rs:27   *)
(* says (contents, order, control flow); "ORACLE" = raw blst disagrees with  *)
(* RefVerdict (the symbolic model itself would be wrong); "HARNESS" = an     *)
(* unexpected harness-side error. Validation never blocks: after a mismatch  *)
(* the state is resynchronised from the logged keys and control point.       *)
(*                                                                           *)
(* Sequential events `seq`: the verdicts of verify, aggregate_verify, the    *)
(* cold and warm cache path, aggregate_verify_gt and                         *)
(* validate_clvm_and_signature must equal Expected (BlsVerify).              *)
EXTENDS BlsCache, Sha, TraceUtil

VARIABLES l,     \* index of the next event
          hk,    \* [pair -> sha256(pk || msg)] for the pairs of the current history
          ret,   \* per thread: <<logged verdict, index of the event that carried it>>
          bad    \* the previous event did not match: resynchronise before going on

tvars == <<l, hk, ret, bad>>

Ev == Rec[l]
Prev == Rec[l - 1]

\* ---- decoding of logged keys --------------------------------------------------------
PairsOfHistory(e) ==
  Range(e.prior)
  \cup UNION {Range(e.calls[t].pairs) \cup Range(e.calls[t].sig.bag) : t \in DOMAIN e.calls}
  \cup UNION {Range(e.env[j].pairs) : j \in DOMAIN e.env}
KeyHash(e, p) == SHA256(e.pk[p[1] + 1] \o e.msg[p[2] + 1])
Decode1(h, i) == IF \E p \in DOMAIN hk : hk[p] = h THEN CHOOSE p \in DOMAIN hk : hk[p] = h ELSE <<999, i>>
Decode(keys) == [i \in DOMAIN keys |-> Decode1(keys[i], i)]

\* ---- checks shared by all events that carry an observation of the cache ---------------
ObsBounded(e) == e.len <= cap /\ Len(e.keys) <= cap
ObsModel(e, c) == e.len = Len(e.keys) /\ Decode(e.keys) = c

PcOfNext(n) == CASE n = 1 -> "lookup" [] n = 2 -> "put" [] OTHER -> "final"
\* the control point the code reports after the step, against the specification's
\* (a thread at "compute" is on its way to site 2, a thread at "final" has returned)
NextMatches(t, n) == CASE pc'[t] = "lookup" -> n = 1
                       [] pc'[t] = "compute" -> n = 2
                       [] pc'[t] = "final" -> n = 0
                       [] OTHER -> FALSE

Load(s) ==
  /\ cap' = s.cap /\ cache' = s.cache /\ val' = s.val /\ call' = s.call /\ idx' = s.idx /\ pc' = s.pc
  /\ tmp' = s.tmp /\ acc' = s.acc /\ verdict' = s.verdict /\ env' = s.env /\ envdone' = s.envdone

\* ---- init ---------------------------------------------------------------------------
InitStep ==
  LET e == Ev
      calls == [t \in DOMAIN e.calls |-> [pairs |-> e.calls[t].pairs, wf |-> e.calls[t].sig.wf, sigs |-> <<e.calls[t].sig>>]]
      s == St0(e.cap, e.prior, calls, e.env)
      table == [p \in PairsOfHistory(e) |-> KeyHash(e, p)]
      dec == [i \in DOMAIN e.keys |->
                IF \E p \in DOMAIN table : table[p] = e.keys[i] THEN CHOOSE p \in DOMAIN table : table[p] = e.keys[i] ELSE <<999, i>>]
      startOk == \A t \in DOMAIN calls : (s.pc[t] = "lookup" /\ e.start[t].next = 1) \/ (s.pc[t] = "final" /\ e.start[t].next = 0)
      modelOk == e.len = Len(e.keys) /\ dec = e.prior /\ startOk
  IN
  /\ Load(s)
  /\ hk' = table
  /\ ret' = [t \in DOMAIN calls |-> <<e.start[t].verdict, l>>]
  /\ CheckC(e.len <= e.cap /\ Len(e.keys) <= e.cap, l, "C15")
  /\ CheckC(modelOk, l, "C15M")
  /\ bad' = ~modelOk

\* ---- a thread's critical section ------------------------------------------------------
ThreadEvent ==
  LET e == Ev
      t == e.t
      pre == t \in Threads /\ ((e.site = 1 /\ pc[t] = "lookup") \/ (e.site = 2 /\ pc[t] = "put"))
  IN
  IF pre
  THEN /\ IF e.site = 1 THEN Lookup(t) ELSE Put(t)
       /\ LET modelOk == ObsModel(e, cache') /\ NextMatches(t, e.next) /\ (e.next # 0 => idx'[t] = e.i) IN
          /\ CheckC(ObsBounded(e), l, "C15")
          /\ CheckC(modelOk, l, "C15M")
          /\ bad' = ~modelOk
       /\ ret' = IF e.next = 0 THEN [ret EXCEPT ![t] = <<e.verdict, l>>] ELSE ret
       /\ UNCHANGED hk
  ELSE /\ CheckC(FALSE, l, "C15M")
       /\ CheckC(ObsBounded(e), l, "C15")
       /\ bad' = TRUE
       /\ UNCHANGED <<vars, hk, ret>>

EnvEvent ==
  LET e == Ev
      j == e.j
      pre == j \in DOMAIN env /\ j \notin envdone /\ ~e.panic
  IN
  IF pre
  THEN /\ IF env[j].op = "update" THEN Update(j) ELSE Evict(j)
       /\ LET modelOk == ObsModel(e, cache') IN
          /\ CheckC(ObsBounded(e), l, "C15")
          /\ CheckC(modelOk, l, "C15M")
          /\ bad' = ~modelOk
       /\ UNCHANGED <<hk, ret>>
  ELSE /\ CheckC(FALSE, l, "C15M")
       /\ CheckC(ObsBounded(e), l, "C15")
       /\ bad' = TRUE
       /\ UNCHANGED <<vars, hk, ret>>

\* ---- end of a history: every cached value verifies its own preimage ----------------------
EndEvent ==
  LET e == Ev IN
  /\ CheckC(ObsBounded(e) /\ \A i \in DOMAIN e.probes : e.probes[i] \in {"T", "skip", "unknown"}, l, "C15")
  /\ CheckC(ObsModel(e, cache) /\ AllDone /\ \A i \in DOMAIN e.probes : e.probes[i] # "unknown", l, "C15M")
  /\ bad' = FALSE
  /\ UNCHANGED <<vars, hk, ret>>

\* ---- sequential agreement ---------------------------------------------------------------
SeqOk(e) == \A v \in Verifiers : LET x == Expected(v, e.pairs, e.sig) IN x # "na" => e.v[v] = x
\* the cache never exceeds its capacity on the sequential path either
SeqBounded(e) == e.len1 >= 0 /\ e.len1 <= e.cap /\ e.len2 >= 0 /\ e.len2 <= e.cap
SeqEvent ==
  LET e == Ev IN
  /\ CheckC(SeqOk(e) /\ SeqBounded(e), l, "C15")
  /\ CheckC(e.v.blst \in {"na", VStr(RefVerdict(e.pairs, e.sig))}, l, "ORACLE")
  /\ CheckC(Expected("clvm", e.pairs, e.sig) = "na" \/ e.v.clvm \in {"T", "F"}, l, "HARNESS")
  /\ bad' = FALSE
  /\ UNCHANGED <<vars, hk, ret>>

\* ---- lock-free actions, taken eagerly -----------------------------------------------------
Pending == {t \in Threads : pc[t] \in {"compute", "final"}}
LocalStep ==
  LET t == CHOOSE t \in Pending : TRUE IN
  /\ IF pc[t] = "compute" THEN Compute(t)
     ELSE /\ Final(t)
          \* Transparent, observed: the code's verdict is the specification's, which MC_BlsCache
          \* proves equal to RefVerdict in every reachable state
          /\ CheckC(ret[t][1] = VStr(verdict'[t][1]), ret[t][2], "C15")
  /\ UNCHANGED tvars

\* ---- resynchronisation from the event that did not match ------------------------------------
Resync ==
  LET e == Prev
      c == IF e.k \in {"init", "step", "env"} THEN Decode(e.keys) ELSE cache
      isStep == e.k = "step" /\ e.t \in Threads
      t == e.t
      inRange == isStep /\ e.next # 0 /\ e.i >= 1 /\ e.i <= Len(call[t].pairs)
      npc == IF ~isStep THEN pc
             ELSE [pc EXCEPT ![t] = IF inRange THEN PcOfNext(e.next) ELSE "done"]
  IN
  /\ cache' = c
  /\ val' = [q \in Range(c) |-> GT(q)]
  /\ pc' = npc
  /\ idx' = IF inRange THEN [idx EXCEPT ![t] = e.i] ELSE idx
  /\ acc' = IF inRange THEN [acc EXCEPT ![t] = GTs(SubSeq(call[t].pairs, 1, e.i - 1))] ELSE acc
  /\ tmp' = IF inRange THEN [tmp EXCEPT ![t] = GT(call[t].pairs[e.i])] ELSE tmp
  /\ envdone' = IF e.k = "env" /\ e.j \in DOMAIN env THEN envdone \cup {e.j} ELSE envdone
  /\ bad' = FALSE
  /\ UNCHANGED <<cap, call, verdict, env, l, hk, ret>>

Consume ==
  /\ CASE Ev.k = "init" -> InitStep
       [] Ev.k = "step" -> ThreadEvent
       [] Ev.k = "env" -> EnvEvent
       [] Ev.k = "end" -> EndEvent
       [] Ev.k = "seq" -> SeqEvent
       [] OTHER -> \* "diverge" (the prescribed schedule could not be followed), "hang"
            (CheckC(FALSE, l, "C15M") /\ bad' = FALSE /\ UNCHANGED <<vars, hk, ret>>)
  /\ l' = l + 1
  /\ TLCSet(2, l)

TInit == /\ l = 1 /\ hk = <<>> /\ ret = <<>> /\ bad = FALSE
         /\ InitWith(1, <<>>, <<>>, <<>>)
         /\ MismatchInit
         /\ TLCSet(2, 0)

TNext == IF bad THEN Resync
         ELSE IF Pending # {} THEN LocalStep
         ELSE l <= Len(Rec) /\ Consume

\* the full list of mismatches (TraceUtil!Report keeps only the first 50, which the known
\* infinity-key finding alone can fill)
Accepted_ ==
  LET m == TLCGet(1) IN
  /\ PrintT(<<"CONSUMED", ToJson(<<TLCGet(2), Len(Rec)>>)>>)
  /\ PrintT(<<"NMISMATCH", ToJson(<<Len(m)>>)>>)
  /\ PrintT(<<"MISMATCH", ToJson(m)>>)
=============================================================================
