-------------------------- MODULE Trace_Sha256Stream --------------------------
(* X08 (R + T): one event per public call on real chia_sha2::Sha256 hashers.   *)
(* `reset` starts a history, `new` / `update` / `clone` / `finalize` are the     *)
(* actions of Sha256Stream.tla; at `finalize` the logged digest must be the      *)
(* spec's digest, and ChunkingIrrelevant is evaluated on the new state: the      *)
(* digest equals Sha!SHA256(absorbed) (Java override) and, while the hasher has  *)
(* absorbed <= BlkMax bytes, both the block-buffer machine and the one-shot      *)
(* definition in pure TLA+ (which therefore must agree with the override).       *)
(* BlkMax comes from the first event {"k":"cfg","blkmax":n} of the file (0: the  *)
(* pure definition is not used), so that pure hashing stays affordable.          *)
(* Users of the hasher: `atom` / `pair` (clvm_utils::tree_hash_atom / _pair) =   *)
(* the digest of the chunks the code feeds (<<1>>, bytes / <<2>>, first, rest)   *)
(* = ClvmSer!TreeHash; `tree` (tree_hash) = TreeHash; `coinid` (Coin::coin_id)   *)
(* = CoinId!CoinId = the digest of the chunks parent, puzzle hash, Enc(amount).  *)
(* Never blocks: a mismatch is recorded; after a panic or an impossible call the *)
(* rest of that history is not judged.                                           *)
EXTENDS Sha256Stream, ClvmSer, CoinId, TraceUtil

TraceBlkMax == IF Len(Rec) > 0 /\ Rec[1].k = "cfg" THEN Rec[1].blkmax ELSE 0

VARIABLES void, l

MatchFn(e) ==
  CASE e.k = "atom" -> /\ e.hash = DigestOfChunks(<<<<1>>, e.bytes>>)
                       /\ e.hash = TreeHash([a |-> e.bytes])
    [] e.k = "pair" -> /\ e.hash = DigestOfChunks(<<<<2>>, e.first, e.rest>>)
                       /\ e.hash = SHA256(<<2>> \o e.first \o e.rest)
    [] e.k = "tree" -> e.hash = TreeHash(FromJ(e.x))
    [] e.k = "coinid" -> /\ e.id = CoinId(e.parent, e.ph, e.amount)
                         /\ e.id = DigestOfChunks(<<e.parent, e.ph, Enc(e.amount)>>)
    [] OTHER -> FALSE

Init == SInit /\ void = FALSE /\ l = 1 /\ MismatchInit

Next ==
  /\ l <= Len(Rec)
  /\ l' = l + 1
  /\ LET e == Rec[l] IN
     CASE e.k = "cfg" -> UNCHANGED <<hs, void>>
       [] e.k = "reset" -> hs' = <<>> /\ void' = FALSE
       [] e.k \in {"new", "update", "clone", "finalize"} ->
            (IF void THEN UNCHANGED <<hs, void>>
             ELSE IF e.k = "new" THEN New /\ UNCHANGED void
             ELSE IF e.panic \/ ~Live(e.h) THEN CheckC(FALSE, l, "X08") /\ void' = TRUE /\ UNCHANGED hs
             ELSE IF e.k = "update" THEN Update(e.h, e.data) /\ UNCHANGED void
             ELSE IF e.k = "clone" THEN Clone(e.h) /\ UNCHANGED void
             ELSE /\ Finalize(e.h) /\ UNCHANGED void
                  /\ CheckC(hs'[e.h].digest = e.digest /\ DigestOk(hs'[e.h]), l, "X08"))
       [] OTHER -> CheckC(MatchFn(e), l, "X08") /\ UNCHANGED <<hs, void>>
Accepted_ == Report(TLCGet("stats").diameter - 1)
=============================================================================
