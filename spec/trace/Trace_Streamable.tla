-------------------------- MODULE Trace_Streamable --------------------------
(* C13 (T): every event is one byte string pushed through from_bytes,       *)
(* from_bytes_unchecked, to_bytes, hash and == of one concrete Rust type.   *)
(* The schema (type terms extracted from the current sources) is read from  *)
(* IOEnv.SCHEMA; oracle facts (point validity, program lengths, quality     *)
(* strings) are logged per event.                                           *)
(* Mismatch classes: C13.verdict / C13.canon / C13.roundtrip / C13.trusted /*)
(* C13.hash / C13.value ; TOOL = an oracle fact is missing (never a verdict)*)
EXTENDS Streamable, TraceUtil

Schema == JsonDeserialize(IOEnv.SCHEMA)

Ctx(e, tr) == [s |-> Schema.types, o |-> e.orc, tr |-> tr]
TermOf(e) == Schema.top[e.type]

Has(r, f) == f \in DOMAIN r

\* ---- clauses that need no model of the type (every Streamable type) ----
\* re-encoding of a decoded value reproduces the input bytes (compared through SHA-256 of the
\* re-encoding, computed by the harness with the independent sha2 crate) and never fails
CanonSide(e, s) ==
  (s.r = "ok" /\ s.reenc_r # "panic") =>
     /\ s.reenc_r = "ok"
     /\ s.reenc_len = Len(e.bytes)
     /\ s.reenc_sha = SHA256(e.bytes)
Canon(e) == CanonSide(e, e.u) /\ CanonSide(e, e.t)
\* value -> encode -> decode gives an equal value
RoundTripSide(s) == (s.r = "ok" /\ s.reenc_r = "ok" /\ s.rt # "panic") => s.rt = "ok"
RoundTrip(e) == RoundTripSide(e.u) /\ RoundTripSide(e.t)
\* an arbitrary well-formed value survives encode + decode
ValueDir(e) == e.vrt \in {"ok", "na", "panic"}
\* the trusted decoder accepts what the untrusted one accepts, with an equal value and encoding
Trusted(e) ==
  (e.u.r = "ok" /\ e.t.r # "panic") =>
     /\ e.t.r = "ok"
     /\ (Has(e.t, "eq") /\ e.t.eq # "panic") => e.t.eq = "ok"
     /\ (e.u.reenc_r = "ok" /\ e.t.reenc_r = "ok") => e.t.reenc_sha = e.u.reenc_sha
\* leaf codecs outside the schema: the streaming hash is SHA-256 of the encoding
LeafHash(e) == (e.leaf /\ e.u.r = "ok" /\ e.u.hash_r = "ok") => e.u.hash = SHA256(e.bytes)

\* ---- clauses against the grammar (modelled types); ru / rt = FromBytes of the spec for the
\* untrusted / trusted decoder ----
Verdict(e, ru, rt) ==
  /\ e.u.r # "panic" => (ru.ok <=> e.u.r = "ok")
  /\ e.t.r # "panic" => (rt.ok <=> e.t.r = "ok")
\* the streaming hash equals SHA-256 of the digest form (hash() panics are C14's business)
HashSide(e, T, s, r, tr) ==
  (r.ok /\ s.r = "ok" /\ s.hash_r = "ok") =>
     LET d == Digest(Ctx(e, tr), T, r.v) IN HashDefined(d) => s.hash = SHA256(d)
Hash(e, T, ru, rt) == HashSide(e, T, e.u, ru, FALSE) /\ HashSide(e, T, e.t, rt, TRUE)
OracleComplete(ru, rt) == (ru.ok \/ ru.why # "oracle") /\ (rt.ok \/ rt.why # "oracle")

VARIABLE l
Init == l = 1 /\ MismatchInit
Next == /\ l <= Len(Rec)
        /\ LET e == Rec[l] IN
           /\ CheckC(Canon(e), l, "C13.canon")
           /\ CheckC(RoundTrip(e), l, "C13.roundtrip")
           /\ CheckC(ValueDir(e), l, "C13.value")
           /\ CheckC(Trusted(e), l, "C13.trusted")
           /\ CheckC(LeafHash(e), l, "C13.hash")
           /\ IF e.m
              THEN LET T == TermOf(e)
                       ru == FromBytes(Ctx(e, FALSE), T, e.bytes)
                       rt == FromBytes(Ctx(e, TRUE), T, e.bytes)
                   IN IF OracleComplete(ru, rt)
                      THEN /\ CheckC(Verdict(e, ru, rt), l, "C13.verdict")
                           /\ CheckC(Hash(e, T, ru, rt), l, "C13.hash")
                      ELSE NoteMismatch(l, "TOOL")
              ELSE TRUE
        /\ l' = l + 1
\* Report prints the first 50 mismatches; the full list follows (the driver reads the last line), so
\* that many instances of one known finding cannot hide a different violation
Accepted == Report(TLCGet("stats").diameter - 1) /\ PrintT(<<"MISMATCH", ToJson(TLCGet(1))>>)
=============================================================================
