INIT Init
NEXT Next
POSTCONDITION Accepted_
CHECK_DEADLOCK FALSE
