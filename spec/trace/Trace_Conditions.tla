-------------------------- MODULE Trace_Conditions --------------------------
(* T stage for C01/C02/C04: each "ps" event is one call of parse_spends     *)
(* (input tree, flags, cost limit, visitor, constants, key-validity oracle) *)
(* with the returned summary or error. The machine of Conditions.tla is run *)
(* on the same input and must agree on acceptance and on the whole summary. *)
EXTENDS ConditionsObs, TraceUtil

InOf(e) == [tree |-> FromJ(e.tree), flags |-> RangeOf(e.flags), max |-> e.max, clvm |-> e.clvm, vis |-> e.vis,
            consts |-> e.consts, validKeys |-> RangeOf(e.vk)]

\* the harness passes the identity signature: it verifies iff nothing has to be signed
SigOk(in, st) == NoSig(in) \/ st.ps.pkm = <<>>

\* verdict + summary (C01), invariants of accepted results (C02), cost (C04)
Ps(e) == LET in == InOf(e) st == Run(in) IN [in |-> in, st |-> st, acc |-> Accepted(st) /\ SigOk(in, st)]
MatchC01(e, p) ==
  /\ e.ok = p.acc
  /\ e.ok => /\ SummaryEq(p.st, e.r)
             /\ \A i \in DOMAIN e.r.spends : e.r.spends[i].ecost = e.clvm
             /\ e.r.vsig = ~NoSig(p.in)
MatchC02(e, p) == e.ok => ObsAccepted(e.r) /\ ObsDeclaredFee(e.r, DeclaredFeeOfTree(p.in.tree))
MatchC04(e, p) ==
  /\ e.ok => /\ p.acc => e.r.cost = CostOf(p.in, p.st)
             /\ Le(e.r.cost, e.max)
             /\ ObsCostConsistent(e.r)
  \* a verdict that differs because of the cost limit is a cost defect
  /\ ~(e.ok # p.acc /\ (p.st.err = "CostExceeded" \/ (~e.ok /\ e.err = 23)))
  \* at the frontier the error must be cost-exceeded, not something else
  /\ (~e.ok /\ p.st.err = "CostExceeded" /\ "frontier" \in DOMAIN e) => e.err = 23

VARIABLE l
Init == l = 1 /\ MismatchInit
Next == /\ l <= Len(Rec)
        /\ LET e == Rec[l] p == Ps(e) IN
             /\ CheckC(MatchC01(e, p), l, "C01")
             /\ CheckC(MatchC02(e, p), l, "C02")
             /\ CheckC(MatchC04(e, p), l, "C04")
        /\ l' = l + 1
Accepted_ == Report(TLCGet("stats").diameter - 1)
=============================================================================
