--------------------------- MODULE Trace_BlobViews ---------------------------
(* X07 (R + T): one `view` event per state of a history driven on a real     *)
(* MerkleBlob. The event carries the tree as get_node shows it (block index  *)
(* `i`, key, value, hash, dirty bit: `tree`), the same after                 *)
(* calculate_lazy_hashes on a clone (`ctree`), the previous state (`ptree`)  *)
(* and everything the read side returned. Every result is recomputed here    *)
(* from the logged tree with the definitions of BlobViews (paths renamed to  *)
(* block indexes through the logged tree) and the real SHA-256.              *)
EXTENDS BlobViews, Sha, TraceUtil

ShaIH(l, r) == SHA256(<<2>> \o l \o r)

RECURSIVE WF(_)
WF(t) == t.t \in {"L", "N"} /\ (t.t = "N" => WF(t.l) /\ WF(t.r))
WellFormed(t) == t.t = "E" \/ (WF(t) /\ \A p, q \in Paths(t) : At(t, p).i = At(t, q).i => p = q)
\* every hash recomputed, block indexes kept
RECURSIVE FullCalcI(_)
FullCalcI(t) == IF t.t # "N" THEN t
                ELSE LET l == FullCalcI(t.l) r == FullCalcI(t.r) IN [t |-> "N", i |-> t.i, l |-> l, r |-> r, h |-> IH(l.h, r.h), d |-> FALSE]
\* the abstract tree of a logged one
RECURSIVE Abs(_)
Abs(t) == CASE t.t = "E" -> Empty
            [] t.t = "L" -> Leaf(t.k, t.v, t.h)
            [] t.t = "N" -> Node(Abs(t.l), Abs(t.r), t.h, t.d)
\* build_blob_from_node_list numbers the blocks parent first, then the left subtree, then the right one
RECURSIVE Num(_, _)
Num(t, n) == IF t.t = "L" THEN [t |-> [t |-> "L", i |-> n, k |-> t.k, v |-> t.v, h |-> t.h], n |-> n + 1]
             ELSE LET a == Num(t.l, n + 1)
                      b == Num(t.r, a.n) IN
                  [t |-> [t |-> "N", i |-> n, l |-> a.t, r |-> b.t, h |-> t.h, d |-> t.d], n |-> b.n]

HasIdx(t, i) == \E p \in Paths(t) : At(t, p).i = i
PathOfIdx(t, i) == CHOOSE p \in Paths(t) : At(t, p).i = i
Items(t, s) == [j \in DOMAIN s |-> [i |-> At(t, s[j]).i, h |-> At(t, s[j]).h]]
IterIs(r, t, s) == r.k = "ok" /\ r.items = Items(t, s)

IterOk(e, t) ==
  /\ Len(e.its) >= 1 /\ e.its[1].from = <<>>
  /\ \A n \in DOMAIN e.its :
       LET it == e.its[n] IN
       /\ (it.from # <<>> => HasIdx(t, it.from[1]))
       /\ LET from == IF it.from = <<>> THEN <<>> ELSE PathOfIdx(t, it.from[1]) IN
          /\ IterIs(it.lcf, t, LeftChildFirst(t, from))
          /\ IterIs(it.pf, t, ParentFirst(t, from))
          /\ IterIs(it.bf, t, BreadthFirst(t, from))
  /\ IterIs(e.dirty_lcf, t, DirtyLeftChildFirst(t))

QueryOk(e, t, c) ==
  /\ e.kv.k = "ok" /\ Len(e.kv.kv) = NLeaves(t) /\ Range(e.kv.kv) = KV(t)
  /\ \A n \in DOMAIN e.kidx :
       LET x == e.kidx[n] IN
       IF Has(t, x.key) THEN x.k = "ok" /\ x.i = At(t, KeyPath(t, x.key)).i ELSE x.k = "err"
  /\ \A n \in DOMAIN e.lineage :
       LET x == e.lineage[n] IN
       /\ HasIdx(t, x.from) /\ x.res.k = "ok"
       /\ LET s == Lineage(PathOfIdx(t, x.from)) IN
          /\ x.idx = [j \in DOMAIN s |-> At(t, s[j]).i]
          /\ x.nodes = Items(t, s)
  /\ LET all == {[h |-> At(c, p).h, i |-> At(c, p).i] : p \in Paths(c)}
         lf == {[h |-> At(c, p).h, i |-> At(c, p).i] : p \in LeafPaths(c)}
         agrees(r, S) == /\ r.k = "ok" /\ r.n = Len(r.pairs) /\ Range(r.pairs) \subseteq S
                         /\ {x.h : x \in Range(r.pairs)} = {x.h : x \in S}
                         /\ Len(r.pairs) = Cardinality({x.h : x \in S}) IN
     /\ agrees(e.hi_all, all) /\ agrees(e.hi_leaf, lf)
     /\ e.hashes.k = "ok" /\ Range(e.hashes.set) = {x.h : x \in all} /\ Len(e.hashes.set) = Cardinality({x.h : x \in all})
  /\ \A n \in DOMAIN e.nbh :
       LET x == e.nbh[n] IN
       IF x.h \in HashesOf(c) THEN x.k = "ok" /\ <<x.key, x.val>> \in KV(c) /\ \E lf \in Range(LeafSeq(c)) : lf.h = x.h /\ lf.k = x.key
       ELSE x.k = "err"

ProofOk(e, c) ==
  /\ e.noproof.k = "err"
  /\ \A n \in DOMAIN e.proofs :
       LET pr == e.proofs[n] IN
       /\ pr.k = "ok" /\ Has(c, pr.key)
       /\ LET q == [node |-> pr.node, layers |-> pr.layers] IN
          /\ q = ProofOf(c, pr.key)
          /\ pr.valid = "true" /\ pr.root = c.h
          /\ Accepts(q, LeafOf(c, pr.key).h, c.h)
          /\ \A m \in DOMAIN pr.tampered :
               LET tq == pr.tampered[m]
                   q2 == [node |-> tq.node, layers |-> tq.layers] IN
               /\ tq.kind \in TamperKinds /\ Applicable(q, tq.kind, tq.pos)
               /\ q2 = Tamper(q, tq.kind, tq.pos, tq.x)
               /\ tq.valid = (IF ProofValid(q2) THEN "true" ELSE "false")
               /\ tq.root = ProofRoot(q2)
               /\ (q2 # q => ~(tq.valid = "true" /\ tq.root = c.h))

Strip(x) == [h |-> x.h, t |-> x.t, a |-> x.a, b |-> x.b]
EntsI(t) == {[h |-> NodeEnt(At(t, p)).h, t |-> NodeEnt(At(t, p)).t, a |-> NodeEnt(At(t, p)).a, b |-> NodeEnt(At(t, p)).b, i |-> <<At(t, p).i>>] : p \in Paths(t)}
StripSet(s) == {Strip(s[j]) : j \in DOMAIN s}
BuildIs(r, S, root) ==
  IF CanBuild(S, root)
  THEN r.k = "ok" /\ r.tree = Num(Rebuild(S, root), 0).t /\ r.integrity.k = "ok" /\ r.reload.k = "ok"
  ELSE r.k = "err"
MissingIs(r, S, root) == r.k = "ok" /\ r.root = root /\ Range(r.set) = Missing(S, root) /\ Len(r.set) = Cardinality(Missing(S, root))

DeltaTraceOk(e, c, p) ==
  IF c.t = "E" THEN e.delta.k = "none"
  ELSE LET d == e.delta
           root == c.h
           all == NodeEnts(c)
           phashes == IF p.t = "E" THEN {} ELSE {At(p, x).h : x \in Paths(p)} IN
    /\ d.k = "some" /\ d.root = root
    \* get_internal_terminal: the whole generation, and the subtrees below chosen sub-roots
    /\ d.full.k = "ok" /\ Range(d.full.ents) = EntsI(c) /\ Len(d.full.ents) = Cardinality(Paths(c))
    /\ d.part.k = "ok" /\ \A j \in DOMAIN d.part.from : HasIdx(c, d.part.from[j])
    /\ Range(d.part.ents) = UNION {EntsI(At(c, PathOfIdx(c, d.part.from[j]))) : j \in DOMAIN d.part.from}
    \* the delta: the generation without the hashes of the previous one
    /\ LET S == StripSet(d.given) IN
       /\ S = {x \in all : x.h \notin phashes}
       /\ MissingIs(d.missing, S, root)
       /\ Missing(S, root) \subseteq phashes
       /\ BuildIs(d.early, S, root)
       \* the missing subtrees are fetched from the previous generation
       /\ \A j \in DOMAIN d.fetch : HasIdx(p, d.fetch[j])
       /\ Range(d.fetch) = {At(p, x).i : x \in (IF p.t = "E" THEN {} ELSE SubtreesWithHash(p, Missing(S, root)))}
       /\ d.collect.k = "ok"
       /\ LET S2 == S \cup Collected(p, {PathOfIdx(p, d.fetch[j]) : j \in DOMAIN d.fetch}) IN
          /\ MissingIs(d.missing2, S2, root) /\ Missing(S2, root) = {}
          /\ BuildIs(d.rebuilt, S2, root)
          /\ d.rebuilt.k = "ok" /\ Abs(d.rebuilt.tree) = Abs(c)
    \* a seeded subset of the generation withheld
    /\ LET S3 == StripSet(d.given2) IN
       /\ S3 \subseteq all /\ S3 # all
       /\ MissingIs(d.missing_d, S3, root) /\ Missing(S3, root) # {}
       /\ BuildIs(d.build_d, S3, root)
    \* both generations offered: the build keeps the used nodes only
    /\ BuildIs(d.build_b, all, root)
    /\ Len(d.after_filter) = Cardinality(phashes)
    /\ \A j \in DOMAIN d.after_filter : d.after_filter[j].root \in phashes /\ MissingIs(d.after_filter[j], all, d.after_filter[j].root)

Match(e) ==
  /\ WellFormed(e.tree) /\ WellFormed(e.ctree) /\ WellFormed(e.ptree)
  /\ e.calc.k = "ok"
  /\ e.ctree = FullCalcI(e.tree)
  /\ Integrity(e.tree)
  /\ IterOk(e, e.tree)
  /\ IterOk([its |-> <<e.cits>>, dirty_lcf |-> e.cdirty_lcf], e.ctree)
  /\ QueryOk(e, e.tree, e.ctree)
  /\ ProofOk(e, e.ctree)
  /\ DeltaTraceOk(e, e.ctree, e.ptree)

VARIABLE l
Init == MInit /\ l = 1 /\ MismatchInit
Next == l <= Len(Rec) /\ CheckC(Match(Rec[l]), l, "X07") /\ l' = l + 1 /\ UNCHANGED vars
Accepted_ == Report(TLCGet("stats").diameter - 1)
=============================================================================
