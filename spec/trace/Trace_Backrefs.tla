--------------------------- MODULE Trace_Backrefs ---------------------------
(* X05 (T): every event is one byte string pushed through every decoder chia_rs uses, or  *)
(* one tree pushed through every encoder; the specification (Backrefs.tla) recomputes the  *)
(* decoded value / verdict / consumed length / tree hash and decodes every encoder output. *)
EXTENDS Backrefs, ClvmInt, TraceUtil

\* a logged decoder result {ok, p (panicked), v (flat tree), n} against a specification result
SameTree(o, d) == /\ ~o.p /\ o.ok = d.ok
                  /\ d.ok => FromJ(o.v) = d.v
SameTreeN(o, d) == SameTree(o, d) /\ (d.ok => o.n = d.n)

MatchDec(e) ==
  LET d  == DeserBr(e.b)
      pl == DeserPlain(e.b)
      tl == TokLen(e.b)
  IN
  \* node_from_bytes_backrefs (run_block_generator*, get_puzzle_and_solution, Program::run ...) and the
  \* list-based reference decoder of clvmr
  /\ SameTree(e.br, d)
  /\ SameTree(e.old, d)
  \* the plain decoder: same machine without the 0xfe rule (so 0xfe in token position is rejected)
  /\ SameTreeN(e.plain, pl)
  /\ (d.ok /\ ~pl.ok) => \E i \in DOMAIN e.b : e.b[i] = 254
  \* clvm-utils tree_hash_from_bytes = TreeHash of the decoded value
  /\ ~e.th.p /\ e.th.ok = d.ok
  /\ d.ok => e.th.h = TreeHash(d.v)
  \* chia-protocol Program: parse consumes exactly the encoding, from_bytes wants nothing after it,
  \* the trusted parse skips paths without resolving them
  /\ ~e.parse.p /\ e.parse.ok = d.ok
  /\ d.ok => e.parse.n = d.n /\ e.parse.len = d.n
  /\ ~e.parse_t.p /\ e.parse_t.ok = tl.ok
  /\ tl.ok => e.parse_t.n = tl.n /\ e.parse_t.len = tl.n
  /\ ~e.from_bytes.p /\ e.from_bytes.ok = (d.ok /\ d.n = Len(e.b))
  \* Program::to_clvm never yields a wrong value (it uses the plain decoder: see the final report)
  /\ ~e.to_clvm.p
  /\ e.to_clvm.ok => d.ok /\ FromJ(e.to_clvm.v) = d.v
  /\ pl.ok => e.to_clvm.ok

RECURSIVE Depth(_)
Depth(x) == IF IsAtom(x) THEN 0 ELSE 1 + (LET a == Depth(x.l) b == Depth(x.r) IN IF a > b THEN a ELSE b)

\* redundancy witness: two different positions holding equal subtrees of at least 17 plain bytes in a tree
\* of depth <= 50. Every path into the parse stack then has at most 100 bits (15 bytes as a
\* back-reference), so a compressor that replaces repeated subtrees must save at least 2 bytes.
WitnessOk(t, w) ==
  /\ Len(w) = 2 /\ w[1] # w[2] /\ Depth(t) <= 50
  /\ LET x == WalkTree(t, w[1], 1) y == WalkTree(t, w[2], 1) IN
     x.ok /\ y.ok /\ x.v = y.v /\ SerLen(x.v) >= 17

\* an encoder output {ok, p, b} for tree t: decodes (by this specification) to t, is consumed entirely,
\* is not longer than the plain form and strictly shorter when a witness of redundancy is given
Encodes(o, t, w) ==
  /\ ~o.p /\ o.ok
  /\ DeserBr(o.b) = [ok |-> TRUE, v |-> t, n |-> Len(o.b), err |-> "none"]
  /\ Len(o.b) <= SerLen(t)
  /\ w # <<>> => WitnessOk(t, w) /\ Len(o.b) < SerLen(t)

MatchSer(e) ==
  LET t == FromJ(e.t) IN
  /\ Encodes(e.c, t, e.wit)
  /\ Encodes(e.inc, t, e.wit)
  \* the plain serializer: decodes to t with both decoders and has the length of Ser(t)
  /\ ~e.p.p /\ e.p.ok
  /\ DeserPlain(e.p.b) = [ok |-> TRUE, v |-> t, n |-> Len(e.p.b), err |-> "none"]
  /\ DeserBr(e.p.b) = DeserPlain(e.p.b)
  /\ Len(e.p.b) = SerLen(t)

\* Program::run on the compressed form of (q . t) yields t
MatchRun(e) ==
  LET t == FromJ(e.t) IN
  /\ DeserBr(e.prog) = [ok |-> TRUE, v |-> Cons(Atom(<<1>>), t), n |-> Len(e.prog), err |-> "none"]
  /\ ~e.res.p /\ e.res.ok /\ FromJ(e.res.v) = t

\* solution_generator_backrefs / solution_generator / the compressed BlockBuilder:
\* (q . ((parent puzzle amount solution) ...)) with the spends in reverse order, puzzle and solution
\* decoded with back-references; an undecodable reveal or solution is an error
RECURSIVE Reverse(_)
Reverse(s) == IF s = <<>> THEN <<>> ELSE Append(Reverse(Tail(s)), s[1])
MatchGen(e) ==
  LET n == Len(e.spends)
      pz == [i \in 1..n |-> DeserBr(e.spends[i].puz)]
      sl == [i \in 1..n |-> DeserBr(e.spends[i].sol)]
      allok == \A i \in 1..n : pz[i].ok /\ sl[i].ok
      item(i) == ListOf(<<Atom(e.spends[i].parent), pz[i].v, Atom(Enc(e.spends[i].amount)), sl[i].v>>)
      g == Cons(Atom(<<1>>), Cons(ListOf(Reverse([i \in 1..n |-> item(i)])), Nil))
  IN IF allok
     THEN /\ Encodes(e.out, g, e.wit)
          /\ Encodes(e.bb, g, e.wit)
          /\ ~e.plain.p /\ e.plain.ok
          /\ DeserPlain(e.plain.b) = [ok |-> TRUE, v |-> g, n |-> Len(e.plain.b), err |-> "none"]
          /\ Len(e.plain.b) = SerLen(g)
     ELSE /\ ~e.out.p /\ ~e.out.ok
          /\ ~e.plain.p /\ ~e.plain.ok
          /\ ~e.bb.p /\ ~e.bb.ok

Match(e) == CASE e.k = "dec" -> MatchDec(e)
              [] e.k = "ser" -> MatchSer(e)
              [] e.k = "run" -> MatchRun(e)
              [] e.k = "gen" -> MatchGen(e)

VARIABLE l
Init == l = 1 /\ MismatchInit
Next == /\ l <= Len(Rec)
        /\ CheckC(Match(Rec[l]), l, "X05")
        /\ l' = l + 1
Accepted == Report(TLCGet("stats").diameter - 1)
=============================================================================
