-------------------------- MODULE Trace_MerkleBlob --------------------------
(* C18 (R + T): one event per public call on a real MerkleBlob, with the     *)
(* abstract state projected through the public API after the call. Every     *)
(* `op` event is matched against the call (Guard holds: result Ok and the    *)
(* logged tree is one of Succ) or its failing twin (Guard fails: an error is *)
(* returned and the projection is unchanged); afterwards, in both cases:     *)
(* get_keys_values = plain map, check_integrity passes, the reloaded bytes   *)
(* give an equivalent blob, and - hashes recomputed on a clone - the root is *)
(* the independent SHA-256 recomputation and the logged inclusion proofs are *)
(* exactly the spec's proofs, valid and ending in that root.                 *)
(* The Auto insert location is pinned by the logged shape (sibling of the    *)
(* new key). Compared with the spec tree: shape, keys, values, leaf hashes   *)
(* (internal hashes and dirty bits only after calculate_lazy_hashes).        *)
(* Histories: `reset` starts from the empty blob; an `op` with push = TRUE   *)
(* saves the state before the call and `pop` restores it (trie replay of     *)
(* TLC histories). Never blocks: a mismatch is recorded and the rest of that *)
(* history (until the matching pop / the next reset) is not judged.          *)
EXTENDS MerkleBlob, Sha, TraceUtil

ShaIH(l, r) == SHA256(<<2>> \o l \o r)

RECURSIVE Skel(_)
Skel(t) == IF t.t = "N" THEN [t |-> "N", l |-> Skel(t.l), r |-> Skel(t.r)] ELSE t

\* sibling of the leaf with key k in the logged tree and the side the leaf is on
RECURSIVE SibOf(_, _)
SibOf(t, k) == IF t.t # "N" THEN <<>>
               ELSE IF t.l.t = "L" /\ t.l.k = k THEN <<t.r, 0>>
               ELSE IF t.r.t = "L" /\ t.r.k = k THEN <<t.l, 1>>
               ELSE LET a == SibOf(t.l, k) IN IF a # <<>> THEN a ELSE SibOf(t.r, k)
PinnedAuto(t, new, logged) ==
  IF t.t = "E" THEN {new}
  ELSE LET s == SibOf(logged, new.k) IN
       IF s = <<>> THEN {}
       ELSE IF s[1].t # "L" THEN {}
       ELSE IF ~Has(t, s[1].k) THEN {}
       ELSE {InsertAt(t, s[1].k, s[2], new)}
Cand(t, op, logged) ==
  CASE op.k = "insert" /\ op.loc.k = "auto" -> PinnedAuto(t, Leaf(op.key, op.val, op.h), logged)
    [] op.k = "upsert" /\ ~Has(t, op.key) -> PinnedAuto(t, Leaf(op.key, op.val, op.h), logged)
    [] OTHER -> Succ(t, op)

\* what must hold after every call, successful or not, for the abstract state (t, m)
PostOk(e, t, m) ==
  /\ e.parents_ok
  /\ e.kv.k = "ok" /\ Len(e.kv.kv) = Cardinality(DOMAIN m)
  /\ Range(e.kv.kv) = PmKV(m) /\ KV(t) = PmKV(m)
  /\ e.integrity.k = "ok"
  /\ e.reload.k = "ok" /\ e.reload.same /\ e.reload.integrity.k = "ok"
  /\ e.lazy.k = "ok" /\ e.lazy.all_valid /\ e.lazy.all_end_in_root /\ e.lazy.nproved = NLeaves(t)
  /\ LET fc == FullCalc(t)
         rh == IF t.t = "E" THEN <<>> ELSE Recompute(t) IN
     /\ e.lazy.root = (IF t.t = "E" THEN <<>> ELSE <<rh>>)
     /\ \A i \in DOMAIN e.lazy.proofs :
          LET p == e.lazy.proofs[i]
              q == [node |-> p.node, layers |-> p.layers] IN
          /\ Has(t, p.key)
          /\ q = ProofOf(fc, p.key)
          /\ ProofValid(q) /\ ProofRoot(q) = rh
     /\ e.op.k = "calc" => e.tree = fc

VARIABLES obs, stack, void, l
tvars == <<tree, pm, last, obs, stack, void, l>>

Judge(e) ==
  IF ~Guard(tree, e.op)
  THEN [ok |-> e.res.k = "err" /\ e.tree = obs /\ PostOk(e, tree, pm), t |-> tree, m |-> pm]
  ELSE LET c == {t2 \in Cand(tree, e.op, e.tree) : Skel(t2) = Skel(e.tree)}
           m2 == PmNext(pm, e.op) IN
       IF e.res.k # "ok" \/ c = {} THEN [ok |-> FALSE, t |-> tree, m |-> pm]
       ELSE LET t2 == CHOOSE x \in c : TRUE IN
            [ok |-> PostOk(e, t2, m2) /\ (e.op.k = "reload" => e.tree = obs), t |-> t2, m |-> m2]

Init == MInit /\ obs = Empty /\ stack = <<>> /\ void = FALSE /\ l = 1 /\ MismatchInit

Saved == [tree |-> tree, pm |-> pm, obs |-> obs, void |-> void]
Next ==
  /\ l <= Len(Rec)
  /\ l' = l + 1
  /\ UNCHANGED last
  /\ LET e == Rec[l] IN
     CASE e.k = "reset" -> tree' = Empty /\ pm' = <<>> /\ obs' = Empty /\ stack' = <<>> /\ void' = FALSE
       [] e.k = "pop" -> (IF Len(stack) = 0 THEN CheckC(FALSE, l, "tool") /\ UNCHANGED <<tree, pm, obs, stack, void>>
                          ELSE LET s == stack[Len(stack)] IN
                               /\ tree' = s.tree /\ pm' = s.pm /\ obs' = s.obs /\ void' = s.void
                               /\ stack' = SubSeq(stack, 1, Len(stack) - 1))
       [] e.k = "op" ->
            (/\ stack' = IF e.push THEN Append(stack, Saved) ELSE stack
             /\ IF void THEN UNCHANGED <<tree, pm, obs, void>>
                ELSE LET j == Judge(e) IN
                     /\ CheckC(j.ok, l, "C18")
                     /\ tree' = j.t /\ pm' = j.m /\ obs' = e.tree /\ void' = ~j.ok)
\* as TraceUtil!Report, but with every mismatch listed (a known defect can reject many events of one file)
Accepted_ ==
  LET m == TLCGet(1) IN
  /\ PrintT(<<"CONSUMED", ToJson(<<TLCGet("stats").diameter - 1, Len(Rec)>>)>>)
  /\ PrintT(<<"NMISMATCH", ToJson(<<Len(m)>>)>>)
  /\ PrintT(<<"MISMATCH", ToJson(m)>>)
=============================================================================
