INIT Init
NEXT Next
POSTCONDITION Accepted
CHECK_DEADLOCK FALSE
