------------------------------ MODULE BlobViews ------------------------------
(* X07 (growth): the READ side of the DataLayer Merkle blob, over the same   *)
(* abstract tree as MerkleBlob.tla (C18, the write side).                    *)
(*   iterators.rs  LeftChildFirstIterator / ParentFirstIterator /            *)
(*                 BreadthFirstIterator (explicit stack / deque machines)    *)
(*   blob.rs       get_keys_values, get_key_index, get_lineage_*,            *)
(*                 get_hashes, get_hashes_indexes, get_node_by_hash,         *)
(*                 get_internal_terminal, build_blob_from_node_list          *)
(*   proof_of_inclusion.rs  ProofOfInclusion::valid / root_hash              *)
(*   deltas.rs     DeltaReader: new, get_missing_hashes,                     *)
(*                 collect_from_merkle_blob,                                 *)
(*                 create_merkle_blob_and_filter_unused_nodes                *)
(* A node is identified by its PATH from the root (0 = left, 1 = right);     *)
(* block indexes are a renaming of paths (the trace specification reads the  *)
(* renaming from the logged tree). Every view is a function of the tree.     *)
(* Each iterator is written twice: as the machine the code runs (Run...) and *)
(* as the traversal it is meant to be; the invariants say they coincide,     *)
(* visit every node (leaf) exactly once, and order children / parents as     *)
(* calculate_lazy_hashes / get_hashes_indexes rely on.                       *)
EXTENDS MerkleBlob

\* ------------------------------------------------------------------ paths
RECURSIVE At(_, _)
At(t, p) == IF p = <<>> THEN t ELSE At(IF Head(p) = 0 THEN t.l ELSE t.r, Tail(p))
RECURSIVE PathsFrom(_, _)
PathsFrom(t, p) == CASE t.t = "E" -> {}
                     [] t.t = "L" -> {p}
                     [] t.t = "N" -> {p} \cup PathsFrom(t.l, Append(p, 0)) \cup PathsFrom(t.r, Append(p, 1))
Paths(t) == PathsFrom(t, <<>>)
LeafPaths(t) == {p \in Paths(t) : At(t, p).t = "L"}
Under(t, from) == PathsFrom(At(t, from), from)
IsPrefix(a, b) == Len(a) <= Len(b) /\ SubSeq(b, 1, Len(a)) = a
IsProperPrefix(a, b) == Len(a) < Len(b) /\ IsPrefix(a, b)
\* lexicographic order on paths of equal length
LexLess(a, b) == \E k \in DOMAIN a : a[k] < b[k] /\ \A j \in 1..(k - 1) : a[j] = b[j]
IsDirty(n) == n.t = "N" /\ n.d

\* -------------------------------------------------- iterators: the machines
\* LeftChildFirstIterator (iterators.rs:47): a stack of (index, visited); the top is the last element.
\* A block rejected by the predicate is dropped together with everything below it.
RECURSIVE LcfRun(_, _, _)
LcfRun(t, st, dirtyOnly) ==
  IF st = <<>> THEN <<>>
  ELSE LET it == st[Len(st)]
           rest == SubSeq(st, 1, Len(st) - 1)
           n == At(t, it.p) IN
       IF dirtyOnly /\ ~IsDirty(n) THEN LcfRun(t, rest, dirtyOnly)
       ELSE IF n.t = "L" \/ it.v THEN <<it.p>> \o LcfRun(t, rest, dirtyOnly)
       ELSE LcfRun(t, rest \o <<[p |-> it.p, v |-> TRUE], [p |-> Append(it.p, 1), v |-> FALSE], [p |-> Append(it.p, 0), v |-> FALSE]>>, dirtyOnly)
LeftChildFirst(t, from) == IF t.t = "E" THEN <<>> ELSE LcfRun(t, <<[p |-> from, v |-> FALSE]>>, FALSE)
\* what calculate_lazy_hashes iterates over (blob.rs:1134)
DirtyLeftChildFirst(t) == IF t.t = "E" THEN <<>> ELSE LcfRun(t, <<[p |-> <<>>, v |-> FALSE]>>, TRUE)
\* ParentFirstIterator (iterators.rs:174) and BreadthFirstIterator (iterators.rs:225): one deque, pop_front /
\* push_back(left), push_back(right); the second one yields leaves only
RECURSIVE DequeRun(_, _, _)
DequeRun(t, q, leavesOnly) ==
  IF q = <<>> THEN <<>>
  ELSE LET p == Head(q)
           n == At(t, p) IN
       IF n.t = "N" THEN (IF leavesOnly THEN <<>> ELSE <<p>>) \o DequeRun(t, Tail(q) \o <<Append(p, 0), Append(p, 1)>>, leavesOnly)
       ELSE <<p>> \o DequeRun(t, Tail(q), leavesOnly)
ParentFirst(t, from) == IF t.t = "E" THEN <<>> ELSE DequeRun(t, <<from>>, FALSE)
BreadthFirst(t, from) == IF t.t = "E" THEN <<>> ELSE DequeRun(t, <<from>>, TRUE)

\* ------------------------------------------------ iterators: the traversals
RECURSIVE PostOrder(_, _)
PostOrder(t, p) == CASE t.t = "E" -> <<>>
                     [] t.t = "L" -> <<p>>
                     [] t.t = "N" -> PostOrder(t.l, Append(p, 0)) \o PostOrder(t.r, Append(p, 1)) \o <<p>>
\* post-order over the dirty nodes that are reachable through dirty nodes only
RECURSIVE DirtyPostOrder(_, _)
DirtyPostOrder(t, p) == IF ~IsDirty(t) THEN <<>>
                        ELSE DirtyPostOrder(t.l, Append(p, 0)) \o DirtyPostOrder(t.r, Append(p, 1)) \o <<p>>
ExactlyOnce(s, S) == Len(s) = Cardinality(S) /\ Range(s) = S
ChildrenBeforeParents(s) == \A i, j \in DOMAIN s : IsProperPrefix(s[j], s[i]) => i < j
ParentsBeforeChildren(s) == \A i, j \in DOMAIN s : IsProperPrefix(s[i], s[j]) => i < j
\* left subtree of every node entirely before its right subtree
LeftBeforeRight(s) == \A i, j \in DOMAIN s :
  (\E k \in 1..Len(s[i]) : k <= Len(s[j]) /\ SubSeq(s[i], 1, k - 1) = SubSeq(s[j], 1, k - 1) /\ s[i][k] = 0 /\ s[j][k] = 1) => i < j
\* level by level, each level left to right
LevelOrdered(s) == \A i \in 1..(Len(s) - 1) :
  Len(s[i]) < Len(s[i + 1]) \/ (Len(s[i]) = Len(s[i + 1]) /\ LexLess(s[i], s[i + 1]))

IteratorsOk(t) == \A from \in Paths(t) :
  LET lcf == LeftChildFirst(t, from)
      pf == ParentFirst(t, from)
      bf == BreadthFirst(t, from)
      U == Under(t, from) IN
  /\ lcf = PostOrder(At(t, from), from)
  /\ ExactlyOnce(lcf, U) /\ ChildrenBeforeParents(lcf) /\ LeftBeforeRight(lcf)
  /\ ExactlyOnce(pf, U) /\ ParentsBeforeChildren(pf) /\ LevelOrdered(pf)
  /\ ExactlyOnce(bf, U \cap LeafPaths(t)) /\ LevelOrdered(bf)
  /\ bf = SelectSeq(pf, LAMBDA p : At(t, p).t = "L")
\* calculate_lazy_hashes: every dirty node, each after both of its children (so that the two child hashes
\* it reads are final), nothing else
LazyOrderOk(t) ==
  LET s == DirtyLeftChildFirst(t) IN
  /\ s = DirtyPostOrder(t, <<>>)
  /\ ChildrenBeforeParents(s)
  /\ (DirtyUpClosed(t) => ExactlyOnce(s, {p \in Paths(t) : IsDirty(At(t, p))}))

\* ------------------------------------------------------------- map queries
KeyPath(t, k) == CHOOSE p \in LeafPaths(t) : At(t, p).k = k
\* get_lineage_*: the node, its parent, ..., the root
Lineage(p) == [i \in 1..(Len(p) + 1) |-> SubSeq(p, 1, Len(p) + 1 - i)]
LineageOk(t) == \A p \in Paths(t) :
  LET s == Lineage(p) IN
  /\ s[1] = p /\ s[Len(s)] = <<>> /\ Range(s) \subseteq Paths(t)
  /\ \A i \in 1..(Len(s) - 1) : s[i] \in {Append(s[i + 1], 0), Append(s[i + 1], 1)}
\* get_hashes_indexes(leafs_only)
HashPaths(t, leafsOnly) == {<<At(t, p).h, p>> : p \in (IF leafsOnly THEN LeafPaths(t) ELSE Paths(t))}
Functional(S) == \A a, b \in S : a[1] = b[1] => a = b
QueriesOk(t, m) ==
  /\ KeysOf(t) = DOMAIN m
  /\ \A k \in DOMAIN m : At(t, KeyPath(t, k)).v = m[k] /\ LeafOf(t, k) = At(t, KeyPath(t, k))
  /\ LineageOk(t)
  /\ LET fc == FullCalc(t) IN Functional(HashPaths(fc, FALSE)) /\ HashPaths(fc, TRUE) \subseteq HashPaths(fc, FALSE)

\* ---------------------------------------------------------- inclusion proofs
\* ProofOf / ProofValid / ProofRoot are MerkleBlob's. Single-point tamperings of a proof:
TamperKinds == {"node", "flip", "swap", "drop", "other", "comb"}
Applicable(p, kind, i) == CASE kind = "node" -> i = 1
                            [] kind = "swap" -> i \in 1..(Len(p.layers) - 1)
                            [] OTHER -> i \in 1..Len(p.layers)
Tamper(p, kind, i, x) ==
  LET ls == p.layers IN
  CASE kind = "node" -> [p EXCEPT !.node = x]
    [] kind = "flip" -> [p EXCEPT !.layers[i].s = 1 - ls[i].s]
    [] kind = "swap" -> [p EXCEPT !.layers[i] = ls[i + 1], !.layers[i + 1] = ls[i]]
    [] kind = "drop" -> [p EXCEPT !.layers = SubSeq(ls, 1, i - 1) \o SubSeq(ls, i + 1, Len(ls))]
    [] kind = "other" -> [p EXCEPT !.layers[i].o = x]
    [] kind = "comb" -> [p EXCEPT !.layers[i].c = x]
Tampers(p, X) == {Tamper(p, c[1], c[2], c[3]) : c \in {c \in TamperKinds \X (1..(Len(p.layers) + 1)) \X X : Applicable(p, c[1], c[2])}}
\* a proof is accepted for (leaf hash, root) iff it is valid, starts at the leaf hash and ends in the root
Accepts(q, leafHash, root) == ProofValid(q) /\ q.node = leafHash /\ ProofRoot(q) = root
\* completeness: every key has an accepted proof; soundness: no single-point tampering of it is accepted
ProofsOk(t, X) ==
  t.t # "E" =>
    LET fc == FullCalc(t) IN
    \A k \in KeysOf(fc) :
      LET p == ProofOf(fc, k) IN
      /\ Accepts(p, LeafOf(fc, k).h, fc.h)
      /\ Len(p.layers) = Len(KeyPath(fc, k))
      /\ \A q \in Tampers(p, X) : q # p => ~(ProofValid(q) /\ ProofRoot(q) = fc.h)

\* ------------------------------------------------------------------ deltas
\* a delta reader holds a set of node entries keyed by hash: [h, t |-> "N", a |-> left hash, b |-> right hash]
\* or [h, t |-> "L", a |-> key, b |-> value]
NodeEnt(n) == IF n.t = "L" THEN [h |-> n.h, t |-> "L", a |-> n.k, b |-> n.v] ELSE [h |-> n.h, t |-> "N", a |-> n.l.h, b |-> n.r.h]
NodeEnts(t) == {NodeEnt(At(t, p)) : p \in Paths(t)}
HashesIn(S) == {e.h : e \in S}
EntOf(S, h) == CHOOSE e \in S : e.h = h
\* DeltaReader::get_missing_hashes (deltas.rs:88)
Missing(S, root) == {x \in UNION {{e.a, e.b} : e \in {e \in S : e.t = "N"}} : x \notin HashesIn(S)}
                    \cup (IF root \in HashesIn(S) THEN {} ELSE {root})
\* build_blob_from_node_list succeeds iff everything reachable from the root is there (S acyclic)
RECURSIVE CanBuild(_, _)
CanBuild(S, h) == h \in HashesIn(S) /\ LET e == EntOf(S, h) IN e.t = "N" => CanBuild(S, e.a) /\ CanBuild(S, e.b)
RECURSIVE Rebuild(_, _)
Rebuild(S, h) == LET e == EntOf(S, h) IN
  IF e.t = "L" THEN Leaf(e.a, e.b, h) ELSE Node(Rebuild(S, e.a), Rebuild(S, e.b), h, FALSE)
RECURSIVE UsedBy(_, _)
UsedBy(S, h) == LET e == EntOf(S, h) IN IF e.t = "L" THEN {h} ELSE {h} \cup UsedBy(S, e.a) \cup UsedBy(S, e.b)
\* collect_from_merkle_blob(file of t, sub-roots): every node of the named subtrees
Collected(t, froms) == UNION {NodeEnts(At(t, p)) : p \in froms}
SubtreesWithHash(t, H) == {p \in Paths(t) : At(t, p).h \in H}
\* For a generation fc with every hash recomputed and a withheld set D of its node hashes:
\*  - the missing hashes are exactly the frontier of D (withheld, but asked for by a present parent or as root);
\*  - the build succeeds iff nothing is withheld;
\*  - fetching the subtrees of the missing hashes closes the set, and the rebuilt tree is the generation itself.
DeltaOk(t) ==
  t.t # "E" =>
    LET fc == FullCalc(t)
        all == NodeEnts(fc) IN
    /\ Missing(all, fc.h) = {} /\ CanBuild(all, fc.h) /\ Rebuild(all, fc.h) = fc /\ UsedBy(all, fc.h) = HashesIn(all)
    /\ \A D \in SUBSET HashesIn(all) :
         LET S == {e \in all : e.h \notin D}
             m == Missing(S, fc.h)
             frontier == {p \in Paths(fc) : At(fc, p).h \in D /\ (p = <<>> \/ At(fc, SubSeq(p, 1, Len(p) - 1)).h \notin D)}
             S2 == S \cup Collected(fc, SubtreesWithHash(fc, m)) IN
         /\ m = {At(fc, p).h : p \in frontier}
         /\ CanBuild(S, fc.h) <=> D = {}
         /\ Missing(S2, fc.h) = {} /\ CanBuild(S2, fc.h) /\ Rebuild(S2, fc.h) = fc
=============================================================================
