---------------------------- MODULE Sha256Stream ----------------------------
(* X08 - the streaming hasher chia_sha2::Sha256 (crates/chia-sha2/src/lib.rs: *)
(* new / update / finalize, #[derive(Clone)]; back ends sha2 and, with the     *)
(* cargo feature `openssl`, openssl::sha) as a state machine.                  *)
(*   hs : the sequence of hashers created so far (ids 1, 2, ..), each with     *)
(*        absorbed (all bytes passed to update, in order), done, digest and    *)
(*        blk, the block-buffer refinement that a real implementation keeps    *)
(*        (chaining value cv, pending bytes buf < 64, number of compressed     *)
(*        blocks nblk), tracked in pure TLA+ (Sha256Def!Compress) while the    *)
(*        hasher has absorbed <= BlkMax bytes (BlkMax = 0: never).            *)
(* One action per public call: New, Update(i, chunk) for ANY chunk (empty,     *)
(* straddling a 64-byte boundary, many blocks), Clone(i), Finalize(i).         *)
(* finalize(self) consumes the hasher: nothing is enabled on a done hasher.    *)
(* ChunkingIrrelevant: the digest of a finalized hasher is SHA-256 of the      *)
(* concatenation of its chunks, whatever the chunking and whatever happened to *)
(* hashers cloned from it - by the pure definition (<= BlkMax bytes) and by    *)
(* the Java override, which must agree.                                        *)
EXTENDS Sha256Def, Sha, Integers
CONSTANT BlkMax
VARIABLE hs

\* ---- block-buffer machine (what the code under test keeps instead of `absorbed`) ----
Off == [k |-> "off"]
BFresh == [k |-> "on", cv |-> H0, buf |-> <<>>, nblk |-> 0]
RECURSIVE BAbsorb(_)
BAbsorb(b) == IF Len(b.buf) < 64 THEN b
              ELSE BAbsorb([k |-> "on", cv |-> Compress(b.cv, SubSeq(b.buf, 1, 64)),
                            buf |-> SubSeq(b.buf, 65, Len(b.buf)), nblk |-> b.nblk + 1])
BUpdate(b, chunk) == BAbsorb([b EXCEPT !.buf = @ \o chunk])
BFinalize(b) == WordsToBytes(FoldBlocks(b.cv, b.buf \o PadTail(64 * b.nblk + Len(b.buf)), 0))

\* ---- one hasher ----
Fresh == [absorbed |-> <<>>, done |-> FALSE, digest |-> <<>>, blk |-> IF BlkMax > 0 THEN BFresh ELSE Off]
Upd(h, chunk) == LET a == h.absorbed \o chunk IN
                 [h EXCEPT !.absorbed = a, !.blk = IF @.k = "on" /\ Len(a) <= BlkMax THEN BUpdate(@, chunk) ELSE Off]
Fin(h) == IF h.blk.k = "on" THEN BFinalize(h.blk) ELSE SHA256(h.absorbed)
\* the digest of a sequence of chunks fed to a fresh hasher
RECURSIVE Feed(_, _, _)
Feed(h, chunks, i) == IF i > Len(chunks) THEN h ELSE Feed(Upd(h, chunks[i]), chunks, i + 1)
DigestOfChunks(chunks) == Fin(Feed(Fresh, chunks, 1))

\* ---- actions ----
SInit == hs = <<>>
New == hs' = Append(hs, Fresh)
Live(i) == i \in DOMAIN hs /\ ~hs[i].done
Update(i, chunk) == Live(i) /\ hs' = [hs EXCEPT ![i] = Upd(@, chunk)]
Clone(i) == Live(i) /\ hs' = Append(hs, hs[i])
Finalize(i) == Live(i) /\ hs' = [hs EXCEPT ![i] = [hs[i] EXCEPT !.done = TRUE, !.digest = Fin(hs[i])]]

\* ---- properties ----
DigestOk(h) == /\ h.digest = SHA256(h.absorbed)
               /\ (BlkMax > 0 /\ Len(h.absorbed) <= BlkMax) => h.digest = SHA256Def(h.absorbed)
ChunkingIrrelevant == \A i \in DOMAIN hs : hs[i].done => DigestOk(hs[i])
BlockInv == \A i \in DOMAIN hs : hs[i].blk.k = "on" =>
              LET b == hs[i].blk
                  a == hs[i].absorbed IN
              /\ Len(b.buf) < 64 /\ 64 * b.nblk + Len(b.buf) = Len(a)
              /\ b.buf = SubSeq(a, 64 * b.nblk + 1, Len(a))
\* the chaining value is the fold of the compression function over the full blocks (costly)
CvInv == \A i \in DOMAIN hs : hs[i].blk.k = "on" =>
           hs[i].blk.cv = FoldBlocks(H0, SubSeq(hs[i].absorbed, 1, 64 * hs[i].blk.nblk), 0)
=============================================================================
