----------------------------- MODULE TimeLocks -----------------------------
(* C03: time-lock and birth assertions.                                     *)
(*  Holds(a, ch)   - the arithmetic meaning of ONE assertion in a chain     *)
(*                   state (exact integer arithmetic on signed arguments).  *)
(*  Oracle(tree,ch)- a bundle passes iff every assertion holds and no       *)
(*                   relative/birth assertion sits on an ephemeral coin.    *)
(*  CheckAgg       - the implementation's route: the most-restrictive-lock  *)
(*                   fold done while parsing (Conditions.tla) followed by   *)
(*                   the comparisons of check_time_locks in no-wrap mode.   *)
(* Chain states are consistent: a spent coin was confirmed no later than    *)
(* the previous transaction block (birth <= prev), and prev height /        *)
(* timestamp are below the type maximum, where saturating and exact sums    *)
(* give the same comparisons.                                               *)
EXTENDS Conditions

AfterAbs == {81, 83}  BeforeAbs == {85, 87}  AfterRel == {80, 82}  BeforeRel == {84, 86}  Birth == {74, 75}
LockOps == AfterAbs \cup BeforeAbs \cup AfterRel \cup BeforeRel \cup Birth
HeightOps == {82, 83, 86, 87, 75}
IsRelOrBirth(op) == op \in AfterRel \cup BeforeRel \cup Birth

\* compare base + v (v signed) with x: -1, 0, 1 as (base + v) <, =, > x
CmpSum(base, v, x) ==
  IF ~v.neg THEN Cmp(Add(base, v.mag), x)
  ELSE IF Lt(base, v.mag) THEN -1            \* the sum is negative, below every chain value
  ELSE Cmp(Sub(base, v.mag), x)

\* one assertion: [op, spend, v]; chain: [prevH, ts, births: seq of [h, s]]
Holds(a, ch) ==
  LET isH == a.op \in HeightOps
      now == IF isH THEN ch.prevH ELSE ch.ts
      born == IF isH THEN ch.births[a.spend].h ELSE ch.births[a.spend].s
  IN CASE a.op \in AfterAbs  -> CmpSum(Zero, a.v, now) # 1        \* now >= v
       [] a.op \in BeforeAbs -> CmpSum(Zero, a.v, now) = 1        \* now <  v
       [] a.op \in AfterRel  -> CmpSum(born, a.v, now) # 1        \* now >= born + v
       [] a.op \in BeforeRel -> CmpSum(born, a.v, now) = 1        \* now <  born + v
       [] a.op \in Birth     -> ~a.v.neg /\ a.v.mag = born

(* ---- assertions and ephemerality read off the bundle ---- *)
SpendsOfTree(tree) == Elems(tree.l)
CondsOfSpend(sp) == Elems(sp.r.r.r.l)
AssertionsOfSpend(sp, i) ==
  LET cs == CondsOfSpend(sp)
      idx == {j \in DOMAIN cs : IsPair(cs[j]) /\ IsAtom(cs[j].l) /\ Len(cs[j].l.a) = 1 /\ cs[j].l.a[1] \in LockOps}
  IN {[op |-> cs[j].l.a[1], spend |-> i, v |-> TwosValue(cs[j].r.l.a)] : j \in idx}
AssertionsOf(tree) == LET ss == SpendsOfTree(tree) IN UNION {AssertionsOfSpend(ss[i], i) : i \in DOMAIN ss}

CoinIdOfSpend(sp) == CoinIdOf(sp.l.a, sp.r.l.a, sp.r.r.l.a)
Creates(sp, ph, amtAtom) ==
  \E c \in RangeOf(CondsOfSpend(sp)) : IsPair(c) /\ c.l = Atom(<<51>>) /\ c.r.l.a = ph /\ c.r.r.l.a = amtAtom
IsEphemeralSpend(tree, i) ==
  LET ss == SpendsOfTree(tree) IN
  \E j \in DOMAIN ss : CoinIdOfSpend(ss[j]) = ss[i].l.a /\ Creates(ss[j], ss[i].r.l.a, ss[i].r.r.l.a)

Oracle(tree, ch) ==
  LET A == AssertionsOf(tree) IN
  /\ \A a \in A : IsRelOrBirth(a.op) => ~IsEphemeralSpend(tree, a.spend)
  /\ \A a \in A : Holds(a, ch)

\* the bundle with every lock / birth condition removed: what the other rules say about it
IsLockCond(c) == IsPair(c) /\ IsAtom(c.l) /\ Len(c.l.a) = 1 /\ c.l.a[1] \in LockOps
RECURSIVE StripConds(_)
StripConds(x) == IF IsAtom(x) THEN x
                 ELSE IF IsLockCond(x.l) THEN StripConds(x.r) ELSE Cons(x.l, StripConds(x.r))
StripSpend(sp) == Cons(sp.l, Cons(sp.r.l, Cons(sp.r.r.l, Cons(StripConds(sp.r.r.r.l), sp.r.r.r.r))))
RECURSIVE StripSpends(_)
StripSpends(x) == IF IsAtom(x) THEN x ELSE Cons(StripSpend(x.l), StripSpends(x.r))
StripLocks(tree) == Cons(StripSpends(tree.l), tree.r)

(* ---- the implementation's route ---- *)
SatAdd32(a, b) == SatAdd(a, b, U32MAX)
SatAdd64(a, b) == SatAdd(a, b, U64MAX)
\* check_time_locks(..., nowrap = true) on the summary of an accepted bundle
CheckAgg(ret, ch) ==
  /\ ~Lt(ch.prevH, ret.ha)
  /\ ~Lt(ch.ts, ret.sa)
  /\ IsSome(ret.bha) => Lt(ch.prevH, Val(ret.bha))
  /\ IsSome(ret.bsa) => Lt(ch.ts, Val(ret.bsa))
  /\ \A i \in DOMAIN ret.spends :
       LET s == ret.spends[i] b == ch.births[i] IN
       /\ IsSome(s.bh) => Val(s.bh) = b.h
       /\ IsSome(s.bs) => Val(s.bs) = b.s
       /\ IsSome(s.hr) => ~Lt(ch.prevH, SatAdd32(b.h, Val(s.hr)))
       /\ IsSome(s.sr) => ~Lt(ch.ts, SatAdd64(b.s, Val(s.sr)))
       /\ IsSome(s.bhr) => Lt(ch.prevH, SatAdd32(b.h, Val(s.bhr)))
       /\ IsSome(s.bsr) => Lt(ch.ts, SatAdd64(b.s, Val(s.bsr)))
\* legacy mode (named deviation, modelled only for conformance): sums wrap
WrapAdd(a, b, w) == LET s == Add(a, b) IN IF Len(s) > w THEN Norm(SubSeq(s, Len(s) - w + 1, Len(s))) ELSE s

ImplRoute(in, ch) == LET st == Run(in) IN Accepted(st) /\ CheckAgg(st.ret, ch)
ConsistentChain(ch) == /\ Lt(ch.prevH, U32MAX) /\ Lt(ch.ts, U64MAX)
                       /\ \A i \in DOMAIN ch.births : Le(ch.births[i].h, ch.prevH) /\ Le(ch.births[i].s, ch.ts)
=============================================================================
