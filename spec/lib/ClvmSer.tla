------------------------------ MODULE ClvmSer ------------------------------
(* Classic CLVM serialisation, tree hash and interned size of S-expressions *)
EXTENDS SExp, Sha, FiniteSets

AtomPrefix(n) ==
  IF n < 64 THEN <<128 + n>>
  ELSE IF n < 8192 THEN <<192 + (n \div 256), n % 256>>
  ELSE IF n < 1048576 THEN <<224 + (n \div 65536), (n \div 256) % 256, n % 256>>
  ELSE IF n < 134217728 THEN <<240 + (n \div 16777216), (n \div 65536) % 256, (n \div 256) % 256, n % 256>>
  ELSE <<248 + (n \div 16777216) \div 256, (n \div 16777216) % 256, (n \div 65536) % 256, (n \div 256) % 256, n % 256>>

SerAtom(b) == IF b = <<>> THEN <<128>>
              ELSE IF Len(b) = 1 /\ b[1] < 128 THEN b
              ELSE AtomPrefix(Len(b)) \o b

RECURSIVE Ser(_)
Ser(x) == IF IsAtom(x) THEN SerAtom(x.a) ELSE <<255>> \o Ser(x.l) \o Ser(x.r)

RECURSIVE SerLen(_)
SerLen(x) == IF IsAtom(x) THEN Len(SerAtom(x.a)) ELSE 1 + SerLen(x.l) + SerLen(x.r)

RECURSIVE TreeHash(_)
TreeHash(x) == IF IsAtom(x) THEN SHA256(<<1>> \o x.a)
               ELSE SHA256(<<2>> \o TreeHash(x.l) \o TreeHash(x.r))

RECURSIVE SubTrees(_)
SubTrees(x) == IF IsAtom(x) THEN {x} ELSE {x} \cup SubTrees(x.l) \cup SubTrees(x.r)

RECURSIVE SumLens(_)
SumLens(S) == IF S = {} THEN 0 ELSE LET x == CHOOSE y \in S : TRUE IN Len(x.a) + SumLens(S \ {x})

\* generator_cost.rs: atom bytes + 2 per distinct atom + 3 per distinct pair
InternedVBytes(x) ==
  LET st == SubTrees(x)
      atoms == {y \in st : IsAtom(y)}
      pairs == st \ atoms
  IN SumLens(atoms) + 2 * Cardinality(atoms) + 3 * Cardinality(pairs)
=============================================================================
