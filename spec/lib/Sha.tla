-------------------------------- MODULE Sha --------------------------------
(* SHA-256 over byte sequences. The definition below is a placeholder that  *)
(* TLC replaces with the Java operator override VerifSha.sha256 (the FIPS   *)
(* 180-4 function computed by the JDK); bin/setup self-tests the override   *)
(* against the NIST vectors before anything else runs.                      *)
EXTENDS Naturals, Sequences
SHA256(b) == <<"sha256-not-overridden", b>>
=============================================================================
