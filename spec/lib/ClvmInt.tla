------------------------------ MODULE ClvmInt ------------------------------
(* CLVM integers: atoms are big-endian two's-complement byte strings. The    *)
(* canonical form of an integer is the SHORTEST atom denoting it.            *)
(* A signed value is a record [neg |-> BOOLEAN, mag |-> BigNat] (mag # 0 when *)
(* neg).                                                                     *)
EXTENDS BigNat

SNat(m)  == [neg |-> FALSE, mag |-> m]
SNeg(m)  == [neg |-> TRUE,  mag |-> m]

\* the integer denoted by an atom (any length, any padding)
TwosValue(b) ==
  IF b = <<>> THEN SNat(Zero)
  ELSE IF b[1] >= 128 THEN SNeg(Sub(Pow256(Len(b)), Norm(b)))
  ELSE SNat(Norm(b))

\* canonical encoding of a non-negative integer
Enc(n) == IF n = <<>> THEN <<>> ELSE IF n[1] >= 128 THEN <<0>> \o n ELSE n

\* canonical encoding of a negative integer -m (m > 0): the shortest k with
\* m <= 2^(8k-1), rendered as 256^k - m
HalfPow(k) == <<128>> \o [i \in 1..(k - 1) |-> 0]      \* 2^(8k-1)
NegWidth(m) == IF Le(m, HalfPow(Len(m))) THEN Len(m) ELSE Len(m) + 1
EncNeg(m) == LET k == NegWidth(m) IN PadTo(Sub(Pow256(k), m), k)

EncSigned(v) == IF v.neg THEN EncNeg(v.mag) ELSE Enc(v.mag)

EncLen(n) == Len(Enc(n))

\* an atom is canonical iff it is the encoding of its own value
IsCanonical(b) == EncSigned(TwosValue(b)) = b

(* ---- the condition-integer rule (README "Interpreting integers")  ----   *)
(* negative (top bit set)            -> NegOverflow                          *)
(* a redundant leading zero byte      -> Malformed                            *)
(* more than maxBytes magnitude bytes -> PosOverflow                          *)
(* otherwise                          -> Ok(value)                            *)
Sanitize(b, maxBytes) ==
  IF b = <<>> THEN [k |-> "ok", v |-> Zero]
  ELSE IF b[1] >= 128 THEN [k |-> "neg"]
  ELSE IF b # Enc(Norm(b)) THEN [k |-> "malformed"]
  ELSE IF Len(Norm(b)) > maxBytes THEN [k |-> "pos"]
  ELSE [k |-> "ok", v |-> Norm(b)]

\* CLVM serialised length of an atom of n bytes with first byte f (f only matters for n = 1)
AtomSerLen(n, f) ==
  IF n = 0 THEN 1
  ELSE IF n = 1 /\ f < 128 THEN 1
  ELSE IF n < 64 THEN 1 + n
  ELSE IF n < 8192 THEN 2 + n
  ELSE IF n < 1048576 THEN 3 + n
  ELSE IF n < 134217728 THEN 4 + n
  ELSE 5 + n

SerLenOfAmount(n) == LET e == Enc(n) IN AtomSerLen(Len(e), IF e = <<>> THEN 0 ELSE e[1])
=============================================================================
