-------------------------------- MODULE SExp --------------------------------
(* CLVM S-expressions: [a |-> bytes] is an atom, [l |-> X, r |-> Y] a pair. *)
EXTENDS Naturals, Sequences

Atom(b)    == [a |-> b]
Cons(x, y) == [l |-> x, r |-> y]
Nil        == Atom(<<>>)
IsAtom(x)  == "a" \in DOMAIN x
IsPair(x)  == "l" \in DOMAIN x
IsNil(x)   == IsAtom(x) /\ x.a = <<>>

RECURSIVE ListOf(_)
ListOf(s) == IF s = <<>> THEN Nil ELSE Cons(s[1], ListOf(Tail(s)))

RECURSIVE ListWithTail(_, _)
ListWithTail(s, t) == IF s = <<>> THEN t ELSE Cons(s[1], ListWithTail(Tail(s), t))

\* elements of a list, ignoring the terminator (any atom ends the list)
RECURSIVE Elems(_)
Elems(x) == IF IsAtom(x) THEN <<>> ELSE <<x.l>> \o Elems(x.r)

\* the terminator atom of a list
RECURSIVE Terminator(_)
Terminator(x) == IF IsAtom(x) THEN x ELSE Terminator(x.r)

NilTerminated(x) == IsNil(Terminator(x))

\* traces carry lists flat: [a |-> bytes] | [s |-> <<items>>, t |-> terminator]; FromJ rebuilds the pairs
\* (a tree that is already in pair form is returned unchanged)
RECURSIVE FromJ(_)
FromJ(x) == IF "a" \in DOMAIN x THEN [a |-> x.a]
            ELSE IF "s" \in DOMAIN x THEN ListWithTail([i \in DOMAIN x.s |-> FromJ(x.s[i])], FromJ(x.t))
            ELSE [l |-> FromJ(x.l), r |-> FromJ(x.r)]
=============================================================================
