------------------------------- MODULE CoinId -------------------------------
EXTENDS ClvmInt, Sha
\* coin id = SHA-256(parent || puzzle hash || canonical amount)
CoinId(parent, ph, amount) == SHA256(parent \o ph \o Enc(amount))
\* the code hashes the raw (already validated-canonical) amount atom
CoinIdRaw(parent, ph, amountAtom) == SHA256(parent \o ph \o amountAtom)
AnnouncementId(origin, msg) == SHA256(origin \o msg)
=============================================================================
