------------------------------ MODULE BigNat ------------------------------
(* Natural numbers of arbitrary size as canonical big-endian base-256 digit  *)
(* sequences (no leading zero digit; <<>> is 0). TLC integers are 32-bit, so *)
(* every amount, cost, timestamp and height of the consensus specs is a      *)
(* BigNat. All operators are total on canonical inputs unless noted.         *)
EXTENDS Integers, Sequences

Byte == 0..255

RECURSIVE Norm(_)
Norm(b) == IF b = <<>> THEN <<>> ELSE IF b[1] = 0 THEN Norm(Tail(b)) ELSE b

IsNat(b) == b = <<>> \/ b[1] # 0

Front(s) == SubSeq(s, 1, Len(s) - 1)
Last(s)  == s[Len(s)]

Zero == <<>>

\* small TLC integer (0 <= n < 2^31) -> BigNat
RECURSIVE Of(_)
Of(n) == IF n = 0 THEN <<>> ELSE Of(n \div 256) \o <<n % 256>>

\* BigNat -> TLC integer; only for values known to be < 2^31
RECURSIVE ToInt(_)
ToInt(b) == IF b = <<>> THEN 0 ELSE ToInt(Front(b)) * 256 + Last(b)

RECURSIVE LexCmp(_, _)
LexCmp(a, b) == \* equal lengths
  IF a = <<>> THEN 0
  ELSE IF a[1] < b[1] THEN -1
  ELSE IF a[1] > b[1] THEN 1
  ELSE LexCmp(Tail(a), Tail(b))

Cmp(a, b) == IF Len(a) < Len(b) THEN -1
             ELSE IF Len(a) > Len(b) THEN 1
             ELSE LexCmp(a, b)

Lt(a, b) == Cmp(a, b) = -1
Le(a, b) == Cmp(a, b) # 1
Gt(a, b) == Cmp(a, b) = 1
Ge(a, b) == Cmp(a, b) # -1
Max(a, b) == IF Lt(a, b) THEN b ELSE a
Min(a, b) == IF Lt(b, a) THEN b ELSE a

PadTo(b, n) == [i \in 1..(n - Len(b)) |-> 0] \o b

RECURSIVE AddRec(_, _, _, _)
AddRec(a, b, c, acc) == \* a, b of equal length, consumed from the least significant end
  IF a = <<>> THEN (IF c = 0 THEN acc ELSE <<c>> \o acc)
  ELSE LET s == Last(a) + Last(b) + c
       IN AddRec(Front(a), Front(b), s \div 256, <<s % 256>> \o acc)

Add(a, b) == LET n == IF Len(a) > Len(b) THEN Len(a) ELSE Len(b)
             IN Norm(AddRec(PadTo(a, n), PadTo(b, n), 0, <<>>))

RECURSIVE SubRec(_, _, _, _)
SubRec(a, b, br, acc) ==
  IF a = <<>> THEN acc
  ELSE LET d == Last(a) - Last(b) - br
       IN IF d < 0 THEN SubRec(Front(a), Front(b), 1, <<d + 256>> \o acc)
          ELSE SubRec(Front(a), Front(b), 0, <<d>> \o acc)

\* a - b, defined for a >= b
Sub(a, b) == Norm(SubRec(a, PadTo(b, Len(a)), 0, <<>>))

RECURSIVE MulRec(_, _, _, _)
MulRec(a, k, c, acc) ==
  IF a = <<>> THEN (IF c = 0 THEN acc ELSE MulRec(<<>>, k, c \div 256, <<c % 256>> \o acc))
  ELSE LET s == Last(a) * k + c
       IN MulRec(Front(a), k, s \div 256, <<s % 256>> \o acc)

\* a * k for a small TLC integer 0 <= k < 2^22
MulSmall(a, k) == Norm(MulRec(a, k, 0, <<>>))

RECURSIVE SumSeq(_)
SumSeq(s) == IF s = <<>> THEN Zero ELSE Add(s[1], SumSeq(Tail(s)))

\* 256^n
Pow256(n) == <<1>> \o [i \in 1..n |-> 0]
\* 256^n - 1
AllOnes(n) == [i \in 1..n |-> 255]

U32MAX  == AllOnes(4)
U64MAX  == AllOnes(8)
U128MAX == AllOnes(16)

FitsBytes(a, w) == Len(a) <= w

\* saturating addition at a maximum
SatAdd(a, b, max) == LET s == Add(a, b) IN IF Lt(max, s) THEN max ELSE s

IsOdd(a) == a # <<>> /\ Last(a) % 2 = 1

\* big-endian fixed-width rendering (value must fit)
FixedBE(a, w) == PadTo(a, w)
=============================================================================
