----------------------------- MODULE TraceUtil -----------------------------
(* Shared plumbing of the trace specifications: the recorded trace, the     *)
(* mismatch register (TLC register 1; needs -workers 1) and the acceptance  *)
(* report printed from the POSTCONDITION and parsed by bin/check.           *)
EXTENDS Naturals, Sequences, TLC, TLCExt, Json, IOUtils

Rec == ndJsonDeserialize(IOEnv.TRACE)

MismatchInit == TLCSet(1, <<>>)
\* a mismatch is <<event index, class>>; the class attributes it to a property
NoteMismatch(i, cls) == TLCSet(1, Append(TLCGet(1), <<i, cls>>))
\* non-blocking match: the event is always consumed; a failed match is recorded
CheckC(ok, i, cls) == IF ok THEN TRUE ELSE NoteMismatch(i, cls)
Check(ok, i) == CheckC(ok, i, "X")

Report(consumed) ==
  LET m == TLCGet(1) IN
  /\ PrintT(<<"CONSUMED", ToJson(<<consumed, Len(Rec)>>)>>)
  /\ PrintT(<<"NMISMATCH", ToJson(<<Len(m)>>)>>)
  /\ PrintT(<<"MISMATCH", ToJson(SubSeq(m, 1, IF Len(m) < 50 THEN Len(m) ELSE 50))>>)
=============================================================================
