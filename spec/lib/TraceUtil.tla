----------------------------- MODULE TraceUtil -----------------------------
(* Shared plumbing of the trace specifications: the recorded trace, the     *)
(* mismatch register (TLC register 1; needs -workers 1) and the acceptance  *)
(* report printed from the POSTCONDITION and parsed by bin/check.           *)
EXTENDS Naturals, Sequences, TLC, TLCExt, Json, IOUtils

Rec == ndJsonDeserialize(IOEnv.TRACE)

MismatchInit == TLCSet(1, <<>>)
NoteMismatch(i) == TLCSet(1, Append(TLCGet(1), i))
\* non-blocking match: the event is always consumed; a failed match is recorded
Check(ok, i) == IF ok THEN TRUE ELSE NoteMismatch(i)

Report(consumed) ==
  LET m == TLCGet(1) IN
  /\ PrintT(<<"CONSUMED", ToJson(<<consumed, Len(Rec)>>)>>)
  /\ PrintT(<<"NMISMATCH", ToJson(<<Len(m)>>)>>)
  /\ PrintT(<<"MISMATCH", ToJson(SubSeq(m, 1, IF Len(m) < 50 THEN Len(m) ELSE 50))>>)
=============================================================================
