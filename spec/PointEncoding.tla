---------------------------- MODULE PointEncoding ----------------------------
(* C16, part B: the compressed (ZCash) encoding of BLS12-381 points as used  *)
(* by PublicKey (G1, 48 bytes) and Signature (G2, 96 bytes), the range rule  *)
(* of SecretKey and the scalar arithmetic modulo the group order.            *)
(*                                                                          *)
(* Byte 1 carries three flags: bit 7 compression, bit 6 infinity, bit 5 the  *)
(* sign of y. The remaining 381 bits are the x coordinate (G2: x.c1 then     *)
(* x.c0, 48 bytes each, flags on c1). Whether a coordinate below p is on the *)
(* curve and in the prime-order subgroup is NOT decided here: these two      *)
(* facts (about x mod p) are inputs, an oracle table produced with raw blst  *)
(* calls; canonicity of the coordinate (x < p) and the flags are decided     *)
(* here.                                                                     *)
EXTENDS BigNat, FiniteSets

\* field modulus p and group order r, big-endian
PMod == <<26, 1, 17, 234, 57, 127, 230, 154, 75, 27, 167, 182, 67, 75, 172, 215, 100, 119, 75, 132, 243, 133, 18, 191,
          103, 48, 210, 160, 246, 176, 246, 36, 30, 171, 255, 254, 177, 83, 255, 255, 185, 254, 255, 255, 255, 255, 170, 171>>
ROrd == <<115, 237, 167, 83, 41, 157, 125, 72, 51, 57, 216, 8, 9, 161, 216, 5, 83, 189, 164, 2, 255, 254, 91, 254,
          255, 255, 255, 255, 0, 0, 0, 1>>

Kinds == {"g1", "g2"}
EncLen(kind) == IF kind = "g1" THEN 48 ELSE 96

\* ------------------------------------------------ the abstract case table --
\* class of the coordinate part of a string (flags masked out)
XClasses == {"zero", "insub", "offsub", "offcurve", "gep"}
\*   zero      all coordinate bits are 0
\*   insub     0 < x < p, x is the abscissa of a point of the prime-order subgroup
\*   offsub    0 < x < p, on the curve, outside the subgroup (cofactor torsion component)
\*   offcurve  0 < x < p, x^3 + b is not a square
\*   gep       some coordinate component is >= p (non-canonical field element)
Bits == {0, 1}

\* checked parsing accepts exactly the canonical encodings of subgroup points and of infinity
CheckedT(c, i, s, xc) == c = 1 /\ ((i = 1 /\ s = 0 /\ xc = "zero") \/ (i = 0 /\ xc = "insub"))
\* the largest set unchecked parsing may accept: canonical encodings of points of the curve
CurvePointT(c, i, s, xc) == c = 1 /\ ((i = 1 /\ s = 0 /\ xc = "zero") \/ (i = 0 /\ xc \in {"insub", "offsub"}))
\* abstract decoding of an accepted row and re-encoding of the decoded point
PointOf(c, i, s, xc) == IF i = 1 THEN [inf |-> TRUE, xc |-> "zero", s |-> 0] ELSE [inf |-> FALSE, xc |-> xc, s |-> s]
FlagsOf(pt) == IF pt.inf THEN <<1, 1, 0>> ELSE <<1, 0, pt.s>>
\* a lenient decoder (what the flags denote if non-canonical combinations were tolerated)
LenientPoint(c, i, s, xc) == IF i = 1 \/ xc = "zero" THEN [inf |-> TRUE, xc |-> "zero", s |-> 0] ELSE [inf |-> FALSE, xc |-> xc, s |-> s]

\* ------------------------------------------------------ concrete strings --
CBit(b) == b[1] \div 128
IBit(b) == (b[1] \div 64) % 2
SBit(b) == (b[1] \div 32) % 2
Masked(b) == <<b[1] % 32>> \o Tail(b)
Comp(kind, b, k) == SubSeq(Masked(b), 48 * (k - 1) + 1, 48 * k)      \* k-th 48-byte field element
NComp(kind) == IF kind = "g1" THEN 1 ELSE 2
XIsZero(kind, b) == \A j \in 1..Len(b) : Masked(b)[j] = 0
XBelowP(kind, b) == \A k \in 1..NComp(kind) : Lt(Norm(Comp(kind, b, k)), PMod)
\* all bytes after the first are zero (PublicKey rejects these before looking at the curve)
TailZero(b) == \A j \in 2..Len(b) : b[j] = 0

XClass(kind, b, oncurve, insub) ==
  IF XIsZero(kind, b) THEN "zero"
  ELSE IF ~XBelowP(kind, b) THEN "gep"
  ELSE IF ~oncurve THEN "offcurve"
  ELSE IF insub THEN "insub" ELSE "offsub"
\* the oracle facts are about the coordinate reduced modulo p (is x mod p the abscissa of a curve point, of a
\* subgroup point); whether the coordinate is written canonically (x < p) is decided here, by XBelowP
OracleCoherent(kind, b, oncurve, insub) ==
  /\ Len(b) = EncLen(kind) /\ \A j \in 1..Len(b) : b[j] \in 0..255
  /\ (insub => oncurve)

Checked(kind, b, oncurve, insub) == CheckedT(CBit(b), IBit(b), SBit(b), XClass(kind, b, oncurve, insub))
CurvePoint(kind, b, oncurve, insub) == CurvePointT(CBit(b), IBit(b), SBit(b), XClass(kind, b, oncurve, insub))
InfinityEnc(kind) == <<192>> \o [j \in 1..(EncLen(kind) - 1) |-> 0]

\* ------------------------------------------------- scalars modulo r --
Fixed32(v) == PadTo(v, 32)
SkAccept(b) == Len(b) = 32 /\ Lt(Norm(b), ROrd)                       \* SecretKey::from_bytes: 0 <= value < r
\* v mod r for v < 2^256 < 3r
RECURSIVE ModR(_)
ModR(v) == IF Lt(v, ROrd) THEN v ELSE ModR(Sub(v, ROrd))
AddModR(a, b) == ModR(Add(Norm(a), Norm(b)))                          \* a, b < r
\* 32 bytes read as an unsigned big-endian integer, reduced
UnsignedModR(d) == ModR(Norm(d))
\* 32 bytes read as a two's-complement big-endian integer, reduced to 0..r-1
TwoTo256 == Pow256(32)
RECURSIVE LiftNeg(_)
LiftNeg(m) == \* r - m reduced, for 0 < m <= 2^255: the residue of -m
  IF Le(m, ROrd) THEN ModR(Sub(ROrd, m)) ELSE LiftNeg(Sub(m, ROrd))
SignedModR(d) == IF d[1] < 128 THEN ModR(Norm(d)) ELSE LiftNeg(Sub(TwoTo256, Norm(d)))
=============================================================================
