----------------------------- MODULE Relations -----------------------------
(* C06: relations between runs of the condition machine.                    *)
(*  StrictImplies: a bundle accepted with mempool strictness flags is       *)
(*    accepted without them (same fork flags) with an identical summary.    *)
(*  PermEq: reordering spends, or conditions within a spend, changes        *)
(*    neither acceptance nor cost nor any aggregate of the summary - only   *)
(*    listing order and the positional ELIGIBLE_FOR_FF bit.                 *)
EXTENDS ConditionsObs

StrictnessFlags == {"NO_UNKNOWN_CONDS", "STRICT_ARGS_COUNT", "LIMIT_SPENDS"}

(* ---- on machine results ---- *)
SameRet(a, b) == a.ret = b.ret /\ a.costLeft = b.costLeft

StrictImplies(in, S) ==
  LET strict == Run([in EXCEPT !.flags = @ \cup S])
      lax == Run([in EXCEPT !.flags = @ \ StrictnessFlags])
  IN Accepted(strict) => Accepted(lax) /\ SameRet(strict, lax)

NoFF(sp) == [sp EXCEPT !.flags = @ \ {FF}, !.counter = 0,
                       !.agg = [k \in DOMAIN @ |-> {<<x, Cardinality({i \in DOMAIN @[k] : @[k][i] = x})>> : x \in RangeOf(@[k])}]]
BagOfSeq(s) == {<<x, Cardinality({i \in DOMAIN s : s[i] = x})>> : x \in RangeOf(s)}
PermEqRet(a, b) ==
  /\ Accepted(a) = Accepted(b)
  /\ Accepted(a) =>
       /\ a.costLeft = b.costLeft
       /\ {NoFF(s) : s \in RangeOf(a.ret.spends)} = {NoFF(s) : s \in RangeOf(b.ret.spends)}
       /\ Len(a.ret.spends) = Len(b.ret.spends)
       /\ a.ret.fee = b.ret.fee /\ a.ret.ha = b.ret.ha /\ a.ret.sa = b.ret.sa /\ a.ret.bha = b.ret.bha /\ a.ret.bsa = b.ret.bsa
       /\ BagOfSeq(a.ret.unsafe) = BagOfSeq(b.ret.unsafe)
       /\ a.ret.ccost = b.ret.ccost /\ a.ret.rem = b.ret.rem /\ a.ret.add = b.ret.add

(* ---- on observed summaries (both members produced by the implementation) ---- *)
ObsSpendKey(o) == [id |-> o.id, parent |-> o.parent, ph |-> o.ph, amt |-> o.amt, hr |-> o.hr, sr |-> o.sr, bhr |-> o.bhr, bsr |-> o.bsr,
                   bh |-> o.bh, bs |-> o.bs, cc |-> RangeOf(o.cc), ncc |-> Len(o.cc),
                   me |-> BagOfSeq(o.me), parent_sigs |-> BagOfSeq(o.parent_sigs), puzzle |-> BagOfSeq(o.puzzle), amount |-> BagOfSeq(o.amount),
                   puzzle_amount |-> BagOfSeq(o.puzzle_amount), parent_amount |-> BagOfSeq(o.parent_amount),
                   parent_puzzle |-> BagOfSeq(o.parent_puzzle),
                   flags |-> o.flags % 4,      \* without the positional FF bit (4)
                   ccost |-> o.ccost, ecost |-> o.ecost]
ObsPermEq(a, b) ==
  /\ a.ok = b.ok
  /\ a.ok => /\ a.r.cost = b.r.cost /\ a.r.ccost = b.r.ccost /\ a.r.ecost = b.r.ecost
             /\ Len(a.r.spends) = Len(b.r.spends)
             /\ {ObsSpendKey(s) : s \in RangeOf(a.r.spends)} = {ObsSpendKey(s) : s \in RangeOf(b.r.spends)}
             /\ a.r.fee = b.r.fee /\ a.r.ha = b.r.ha /\ a.r.sa = b.r.sa /\ a.r.bha = b.r.bha /\ a.r.bsa = b.r.bsa
             /\ BagOfSeq(a.r.unsafe) = BagOfSeq(b.r.unsafe)
             /\ a.r.rem = b.r.rem /\ a.r.add = b.r.add
\* identical summaries: same spends in the same order (outputs as sets, signature lists as bags), same bundle fields
ObsSpendFull(o) == [ObsSpendKey(o) EXCEPT !.flags = o.flags]
ObsSameSummary(a, b) ==
  /\ Len(a.spends) = Len(b.spends)
  /\ \A i \in DOMAIN a.spends : ObsSpendFull(a.spends[i]) = ObsSpendFull(b.spends[i])
  /\ a.fee = b.fee /\ a.ha = b.ha /\ a.sa = b.sa /\ a.bha = b.bha /\ a.bsa = b.bsa
  /\ BagOfSeq(a.unsafe) = BagOfSeq(b.unsafe)
  /\ a.cost = b.cost /\ a.ccost = b.ccost /\ a.ecost = b.ecost /\ a.rem = b.rem /\ a.add = b.add /\ a.vsig = b.vsig
ObsStrictImplies(strict, lax) == strict.ok => lax.ok /\ ObsSameSummary(strict.r, lax.r)

(* ---- permutations of list elements, keeping the terminator ---- *)
SwapAt(s, i) == [j \in DOMAIN s |-> IF j = i THEN s[i + 1] ELSE IF j = i + 1 THEN s[i] ELSE s[j]]
=============================================================================
