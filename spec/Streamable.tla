----------------------------- MODULE Streamable -----------------------------
(* C13 / C14: the Streamable wire grammar.                                  *)
(*                                                                          *)
(* Type terms (records, discriminated by field k; JSON of tools/schema.py): *)
(*   [k |-> "u"|"i", n]      n-byte big-endian integer                      *)
(*   [k |-> "bool"]          one byte, 0 or 1 only                          *)
(*   [k |-> "opt", t]        prefix byte 0 (absent) or 1 (present) only     *)
(*   [k |-> "opt2", a, b]    two optionals sharing one prefix byte 0..3     *)
(*                           (bit 0 = first present, bit 1 = second)        *)
(*   [k |-> "vec", t]        LenW-byte big-endian count, then the elements  *)
(*   [k |-> "tup", ts]  [k |-> "struct", fs]  [k |-> "arr", t, n]           *)
(*   [k |-> "bytesn", n]     raw bytes    [k |-> "bytes"] count + bytes     *)
(*   [k |-> "str"]           count + well-formed UTF-8                      *)
(*   [k |-> "enum", vals]    one byte out of vals                           *)
(*   [k |-> "g1"] [k |-> "g2"]  compressed BLS points (validity: ORACLE)    *)
(*   [k |-> "prog"]          self-delimiting CLVM program (length: ORACLE)  *)
(*   [k |-> "ref", name]     named type of the schema                       *)
(*   [k |-> "block", fs]     FullBlock / UnfinishedBlock: leading fields,   *)
(*                           then prefix byte = 2*version + has_generator   *)
(*   [k |-> "pos"]           ProofOfSpace (version in the contract prefix)  *)
(*                                                                          *)
(* A context C = [s |-> schema (name -> term), o |-> oracle tables of the   *)
(* byte string being parsed, tr |-> trusted?].  Oracle tables are data      *)
(* logged by the harness from raw blst / clvmr (never spec logic):          *)
(*   o.g1, o.g2 : sequences <<pos, decodes (0/1), in-subgroup (0/1)>>       *)
(*   o.prog     : sequences <<pos, untrusted length, trusted length>> (0 =  *)
(*                not a program)                                            *)
(*   o.qs       : sequences <<pos of a ProofOfSpace, quality string>>       *)
(*                (<<>> = the v2 proof has no quality string)               *)
(* Values: integers / raw bytes / points / programs are byte sequences,     *)
(* bool is BOOLEAN, opt is <<>> or <<v>>, containers are sequences.         *)
EXTENDS Naturals, Sequences, FiniteSets, Sha

CONSTANTS LenW,   \* width of a length prefix (4)
          HashW,  \* width of the hashes inside ProofOfSpace (32)
          G1W,    \* 48
          G2W     \* 96

Ok(v, p) == [ok |-> TRUE, v |-> v, pos |-> p]
Bad == [ok |-> FALSE, why |-> "syntax"]
NoOrc == [ok |-> FALSE, why |-> "oracle"]   \* a fact the harness did not log: tool problem, never a verdict

Avail(b, pos, n) == pos + n - 1 <= Len(b)
Take(b, pos, n) == SubSeq(b, pos, pos + n - 1)

RECURSIVE BEVal(_)
BEVal(s) == IF s = <<>> THEN 0 ELSE BEVal(SubSeq(s, 1, Len(s) - 1)) * 256 + s[Len(s)]
\* a count is compared with at most Len(b) < 2^31 remaining bytes, so it may saturate (TLC ints are 32 bit)
Count(s) == IF Len(s) >= 4 /\ s[Len(s) - 3] >= 128 THEN 2147483647
            ELSE IF Len(s) > 4 /\ \E i \in 1..(Len(s) - 4) : s[i] # 0 THEN 2147483647
            ELSE BEVal(s)
RECURSIVE ToBE(_, _)
ToBE(n, w) == IF w = 0 THEN <<>> ELSE ToBE(n \div 256, w - 1) \o <<n % 256>>

Find(tab, p) == LET I == {i \in 1..Len(tab) : tab[i][1] = p}
                IN IF I = {} THEN <<>> ELSE tab[CHOOSE i \in I : TRUE]

\* ---- well-formed UTF-8 (Unicode 15, table 3-7) ----
RECURSIVE Utf8Ok(_, _)
Utf8Ok(s, i) ==
  IF i > Len(s) THEN TRUE ELSE
  LET c == s[i]
      In(k, lo, hi) == i + k <= Len(s) /\ s[i + k] >= lo /\ s[i + k] <= hi
  IN IF c <= 127 THEN Utf8Ok(s, i + 1)
     ELSE IF c >= 194 /\ c <= 223 THEN In(1, 128, 191) /\ Utf8Ok(s, i + 2)
     ELSE IF c = 224 THEN In(1, 160, 191) /\ In(2, 128, 191) /\ Utf8Ok(s, i + 3)
     ELSE IF (c >= 225 /\ c <= 236) \/ c = 238 \/ c = 239 THEN In(1, 128, 191) /\ In(2, 128, 191) /\ Utf8Ok(s, i + 3)
     ELSE IF c = 237 THEN In(1, 128, 159) /\ In(2, 128, 191) /\ Utf8Ok(s, i + 3)
     ELSE IF c = 240 THEN In(1, 144, 191) /\ In(2, 128, 191) /\ In(3, 128, 191) /\ Utf8Ok(s, i + 4)
     ELSE IF c >= 241 /\ c <= 243 THEN In(1, 128, 191) /\ In(2, 128, 191) /\ In(3, 128, 191) /\ Utf8Ok(s, i + 4)
     ELSE IF c = 244 THEN In(1, 128, 143) /\ In(2, 128, 191) /\ In(3, 128, 191) /\ Utf8Ok(s, i + 4)
     ELSE FALSE

\* ---- BLS points: flag bits are grammar, curve / subgroup membership is the oracle ----
\* top two bits of the first byte: 11 = infinity (exactly one encoding), 10 = compressed point.
\* public_key.rs additionally refuses a compressed G1 point whose other 47 bytes are all zero.
AllZeroFrom(s, i) == \A j \in i..Len(s) : s[j] = 0
G1Ok(s, fact, tr) ==
  LET top == s[1] \div 64 IN
  IF top = 3 THEN s[1] = 192 /\ AllZeroFrom(s, 2)
  ELSE top = 2 /\ ~AllZeroFrom(s, 2) /\ fact[2] = 1 /\ (tr \/ fact[3] = 1)
G2Ok(s, fact, tr) == fact[2] = 1 /\ (tr \/ fact[3] = 1)

U(n) == [k |-> "u", n |-> n]
BoolT == [k |-> "bool"]
OptT(t) == [k |-> "opt", t |-> t]
Opt2T(a, b) == [k |-> "opt2", a |-> a, b |-> b]
VecT(t) == [k |-> "vec", t |-> t]
TupT(ts) == [k |-> "tup", ts |-> ts]
ArrT(t, n) == [k |-> "arr", t |-> t, n |-> n]
BytesNT(n) == [k |-> "bytesn", n |-> n]
BytesT == [k |-> "bytes"]
StrT == [k |-> "str"]
EnumT(vals) == [k |-> "enum", vals |-> vals]
G1T == [k |-> "g1"]
G2T == [k |-> "g2"]
ProgT == [k |-> "prog"]
RefT(name) == [k |-> "ref", name |-> name]
BlockT(fs) == [k |-> "block", fs |-> fs]
PosT == [k |-> "pos"]

FieldTypes(T) == IF T.k = "tup" THEN T.ts ELSE [i \in 1..Len(T.fs) |-> T.fs[i].t]
SeqToSet(s) == {s[i] : i \in 1..Len(s)}
Wrap(r) == IF r.ok THEN Ok(<<r.v>>, r.pos) ELSE r

\* ------------------------------- Parse --------------------------------------
RECURSIVE Parse(_, _, _, _), ParseFields(_, _, _, _, _, _), ParseRep(_, _, _, _, _, _)

ParseFields(C, ts, i, b, pos, acc) ==
  IF i > Len(ts) THEN Ok(acc, pos)
  ELSE LET r == Parse(C, ts[i], b, pos)
       IN IF r.ok THEN ParseFields(C, ts, i + 1, b, r.pos, Append(acc, r.v)) ELSE r

\* n elements; an element type of zero width with a huge count is outside the model
ParseRep(C, T, n, b, pos, acc) ==
  IF n = 0 THEN Ok(acc, pos)
  ELSE LET r == Parse(C, T, b, pos)
       IN IF ~r.ok THEN r
          ELSE IF r.pos = pos /\ n > 4096 THEN NoOrc
          ELSE ParseRep(C, T, n - 1, b, r.pos, Append(acc, r.v))

ParsePoint(C, b, pos, w, tab, IsOk(_, _, _)) ==
  IF ~Avail(b, pos, w) THEN Bad
  ELSE LET s == Take(b, pos, w)
           f == Find(tab, pos)
       IN IF f = <<>> THEN NoOrc
          ELSE IF IsOk(s, f, C.tr) THEN Ok(s, pos + w) ELSE Bad

ParseProg(C, b, pos) ==
  LET f == Find(C.o.prog, pos)
  IN IF f = <<>> THEN NoOrc
     ELSE LET n == IF C.tr THEN f[3] ELSE f[2]
          IN IF n = 0 \/ ~Avail(b, pos, n) THEN Bad ELSE Ok(Take(b, pos, n), pos + n)

ParseCounted(b, pos) ==   \* count + that many raw bytes
  IF ~Avail(b, pos, LenW) THEN Bad
  ELSE LET n == Count(Take(b, pos, LenW))
       IN IF n > Len(b) \/ ~Avail(b, pos + LenW, n) THEN Bad ELSE Ok(Take(b, pos + LenW, n), pos + LenW + n)

\* generator tail shared by FullBlock and UnfinishedBlock
ParseBlockTail(C, pre, b, pos) ==
  IF ~Avail(b, pos, 1) THEN Bad
  ELSE LET ver == b[pos] \div 2
           has == b[pos] % 2 = 1
       IN IF ver = 0 THEN
            LET g == IF has THEN Wrap(ParseProg(C, b, pos + 1)) ELSE Ok(<<>>, pos + 1)
            IN IF ~g.ok THEN g
               ELSE LET rl == Parse(C, VecT(U(4)), b, g.pos)
                    IN IF ~rl.ok THEN rl
                       ELSE Ok([pre |-> pre, ver |-> 0, gen |-> g.v, refs |-> rl.v], rl.pos)
          ELSE IF ver = 1 THEN
            LET g == IF has THEN Wrap(ParseCounted(b, pos + 1)) ELSE Ok(<<>>, pos + 1)
            IN IF ~g.ok THEN g ELSE Ok([pre |-> pre, ver |-> 1, gen |-> g.v, refs |-> <<>>], g.pos)
          ELSE Bad

ParsePos(C, b, pos) ==
  LET ch == Parse(C, BytesNT(HashW), b, pos) IN
  IF ~ch.ok THEN ch ELSE
  LET pk == Parse(C, OptT(G1T), b, ch.pos) IN
  IF ~pk.ok THEN pk ELSE
  IF ~Avail(b, pk.pos, 1) THEN Bad ELSE
  LET ver == b[pk.pos] \div 2
      has == b[pk.pos] % 2 = 1
      cph == IF has THEN Wrap(Parse(C, BytesNT(HashW), b, pk.pos + 1)) ELSE Ok(<<>>, pk.pos + 1)
  IN
  IF ~cph.ok THEN cph ELSE
  LET ppk == Parse(C, G1T, b, cph.pos) IN
  IF ~ppk.ok THEN ppk ELSE
  IF ver = 0 THEN    \* v1 proof: size, proof; both / neither pool field tolerated (legacy)
    LET r == ParseFields(C, <<U(1), BytesT>>, 1, b, ppk.pos, <<>>) IN
    IF ~r.ok THEN r
    ELSE Ok([ch |-> ch.v, pk |-> pk.v, ver |-> 0, cph |-> cph.v, ppk |-> ppk.v, par |-> r.v[1], proof |-> r.v[2], at |-> pos], r.pos)
  ELSE IF ver = 1 THEN   \* v2 proof: plot_index, meta_group, strength, proof; exactly one pool field
    LET r == ParseFields(C, <<U(2), U(1), U(1), BytesT>>, 1, b, ppk.pos, <<>>) IN
    IF ~r.ok THEN r
    ELSE IF (pk.v = <<>>) = (cph.v = <<>>) THEN Bad
    ELSE Ok([ch |-> ch.v, pk |-> pk.v, ver |-> 1, cph |-> cph.v, ppk |-> ppk.v, par |-> r.v[1] \o r.v[2] \o r.v[3], proof |-> r.v[4], at |-> pos], r.pos)
  ELSE Bad

Parse(C, T, b, pos) ==
  CASE T.k \in {"u", "i", "bytesn"} -> (IF Avail(b, pos, T.n) THEN Ok(Take(b, pos, T.n), pos + T.n) ELSE Bad)
    [] T.k = "bool" -> (IF Avail(b, pos, 1) /\ b[pos] \in {0, 1} THEN Ok(b[pos] = 1, pos + 1) ELSE Bad)
    [] T.k = "opt" -> (IF ~Avail(b, pos, 1) THEN Bad
                       ELSE IF b[pos] = 0 THEN Ok(<<>>, pos + 1)
                       ELSE IF b[pos] = 1 THEN Wrap(Parse(C, T.t, b, pos + 1))
                       ELSE Bad)
    [] T.k = "opt2" -> (IF ~Avail(b, pos, 1) \/ b[pos] > 3 THEN Bad
                        ELSE LET ra == IF b[pos] % 2 = 1 THEN Wrap(Parse(C, T.a, b, pos + 1)) ELSE Ok(<<>>, pos + 1)
                             IN IF ~ra.ok THEN ra
                                ELSE LET rb == IF b[pos] >= 2 THEN Wrap(Parse(C, T.b, b, ra.pos)) ELSE Ok(<<>>, ra.pos)
                                     IN IF ~rb.ok THEN rb ELSE Ok(<<ra.v, rb.v>>, rb.pos))
    [] T.k = "vec" -> (IF ~Avail(b, pos, LenW) THEN Bad
                       ELSE ParseRep(C, T.t, Count(Take(b, pos, LenW)), b, pos + LenW, <<>>))
    [] T.k = "arr" -> ParseRep(C, T.t, T.n, b, pos, <<>>)
    [] T.k \in {"tup", "struct"} -> ParseFields(C, FieldTypes(T), 1, b, pos, <<>>)
    [] T.k = "bytes" -> ParseCounted(b, pos)
    [] T.k = "str" -> (LET r == ParseCounted(b, pos) IN IF r.ok /\ ~Utf8Ok(r.v, 1) THEN Bad ELSE r)
    [] T.k = "enum" -> (IF Avail(b, pos, 1) /\ b[pos] \in SeqToSet(T.vals) THEN Ok(b[pos], pos + 1) ELSE Bad)
    [] T.k = "g1" -> ParsePoint(C, b, pos, G1W, C.o.g1, G1Ok)
    [] T.k = "g2" -> ParsePoint(C, b, pos, G2W, C.o.g2, G2Ok)
    [] T.k = "prog" -> ParseProg(C, b, pos)
    [] T.k = "ref" -> Parse(C, C.s[T.name], b, pos)
    [] T.k = "block" -> (LET r == ParseFields(C, FieldTypes(T), 1, b, pos, <<>>)
                         IN IF ~r.ok THEN r ELSE ParseBlockTail(C, r.v, b, r.pos))
    [] T.k = "pos" -> ParsePos(C, b, pos)

\* from_bytes / from_bytes_unchecked: parse and require that everything was consumed
FromBytes(C, T, b) == LET r == Parse(C, T, b, 1)
                      IN IF r.ok /\ r.pos # Len(b) + 1 THEN Bad ELSE r

\* ------------------------------- Encode -------------------------------------
\* dg = FALSE: the wire encoding; dg = TRUE: the byte string fed to SHA-256 by hash(), which
\* differs only inside a v2 ProofOfSpace (proof replaced by its quality-string commitment).
\* A v2 proof without a quality string has no digest form: marked by the non-byte 256.
Poison == <<256>>
RECURSIVE Enc(_, _, _, _), EncFields(_, _, _, _, _), EncRep(_, _, _, _, _)
EncFields(C, ts, v, i, dg) == IF i > Len(ts) THEN <<>> ELSE Enc(C, ts[i], v[i], dg) \o EncFields(C, ts, v, i + 1, dg)
EncRep(C, T, v, i, dg) == IF i > Len(v) THEN <<>> ELSE Enc(C, T, v[i], dg) \o EncRep(C, T, v, i + 1, dg)
EncOpt(C, T, v, dg) == IF v = <<>> THEN <<>> ELSE Enc(C, T, v[1], dg)
Flag(v) == IF v = <<>> THEN 0 ELSE 1

EncPos(C, v, dg) ==
  v.ch \o <<Flag(v.pk)>> \o EncOpt(C, G1T, v.pk, dg) \o <<2 * v.ver + Flag(v.cph)>> \o EncOpt(C, BytesNT(HashW), v.cph, dg)
  \o v.ppk \o v.par
  \o (IF dg /\ v.ver = 1
      THEN LET q == Find(C.o.qs, v.at) IN IF q = <<>> \/ q[2] = <<>> THEN Poison ELSE q[2]
      ELSE ToBE(Len(v.proof), LenW) \o v.proof)

Enc(C, T, v, dg) ==
  CASE T.k \in {"u", "i", "bytesn", "g1", "g2", "prog"} -> v
    [] T.k = "bool" -> (IF v THEN <<1>> ELSE <<0>>)
    [] T.k = "opt" -> <<Flag(v)>> \o EncOpt(C, T.t, v, dg)
    [] T.k = "opt2" -> <<Flag(v[1]) + 2 * Flag(v[2])>> \o EncOpt(C, T.a, v[1], dg) \o EncOpt(C, T.b, v[2], dg)
    [] T.k = "vec" -> ToBE(Len(v), LenW) \o EncRep(C, T.t, v, 1, dg)
    [] T.k = "arr" -> EncRep(C, T.t, v, 1, dg)
    [] T.k \in {"tup", "struct"} -> EncFields(C, FieldTypes(T), v, 1, dg)
    [] T.k \in {"bytes", "str"} -> ToBE(Len(v), LenW) \o v
    [] T.k = "enum" -> <<v>>
    [] T.k = "ref" -> Enc(C, C.s[T.name], v, dg)
    [] T.k = "block" -> EncFields(C, FieldTypes(T), v.pre, 1, dg)
                        \o (IF v.ver = 0
                            THEN <<Flag(v.gen)>> \o EncOpt(C, ProgT, v.gen, dg) \o Enc(C, VecT(U(4)), v.refs, dg)
                            ELSE <<2 + Flag(v.gen)>> \o EncOpt(C, BytesT, v.gen, dg))
    [] T.k = "pos" -> EncPos(C, v, dg)

Encode(C, T, v) == Enc(C, T, v, FALSE)
Digest(C, T, v) == Enc(C, T, v, TRUE)
HashDefined(d) == \A i \in 1..Len(d) : d[i] < 256
\* the streaming hash: SHA-256 of the digest form (= of the encoding unless a v2 proof is inside)
HashOf(C, T, v) == SHA256(Digest(C, T, v))

\* nesting depth of length-prefixed element vectors (pre-allocation happens once per level)
Max2(a, b) == IF a > b THEN a ELSE b
RECURSIVE VecDepth(_, _), VecDepthSeq(_, _, _)
VecDepthSeq(S, ts, i) == IF i > Len(ts) THEN 0 ELSE Max2(VecDepth(S, ts[i]), VecDepthSeq(S, ts, i + 1))
VecDepth(S, T) ==
  CASE T.k = "vec" -> 1 + VecDepth(S, T.t)
    [] T.k \in {"opt", "arr"} -> VecDepth(S, T.t)
    [] T.k = "opt2" -> Max2(VecDepth(S, T.a), VecDepth(S, T.b))
    [] T.k \in {"tup", "struct"} -> VecDepthSeq(S, FieldTypes(T), 1)
    [] T.k = "block" -> Max2(1, VecDepthSeq(S, FieldTypes(T), 1))
    [] T.k = "ref" -> VecDepth(S, S[T.name])
    [] OTHER -> 0
=============================================================================
