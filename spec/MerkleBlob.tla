----------------------------- MODULE MerkleBlob -----------------------------
(* C18: the DataLayer Merkle blob (chia-datalayer/src/merkle/blob.rs) as an  *)
(* abstract authenticated map.                                               *)
(*                                                                           *)
(* Abstract state: a binary tree                                             *)
(*   Empty | Leaf(key, value, hash) | Node(left, right, hash, dirty)         *)
(* (block indexes, the free list and the three lookup caches are below the   *)
(* abstraction; they are judged through check_integrity / reload), and the   *)
(* history variable `pm`: the plain map under the same successful calls.     *)
(* Leaf hashes are supplied by the caller; an internal hash is               *)
(* IH(left hash, right hash) = SHA256(2 || l || r) (blob.rs:48). IH is a     *)
(* constant operator: the real SHA-256 in trace validation, a free           *)
(* (collision-free) constructor in model checking.                           *)
(*                                                                           *)
(* Every call is `Guard(t, op)` (does it succeed) and `Succ(t, op)` (the set *)
(* of possible resulting trees; a singleton except for the Auto insert       *)
(* location, which the code derives from sha256(key): any leaf, any side).   *)
(* A call whose guard is false is a stutter on the abstract state.           *)
EXTENDS Naturals, Sequences, FiniteSets, TLC

CONSTANT IH(_, _)

Empty == [t |-> "E"]
Leaf(k, v, h) == [t |-> "L", k |-> k, v |-> v, h |-> h]
Node(l, r, h, d) == [t |-> "N", l |-> l, r |-> r, h |-> h, d |-> d]
\* a new internal node always carries its hash and is clean (blob.rs:452,532,630,690)
Fresh(l, r) == Node(l, r, IH(l.h, r.h), FALSE)

Range(s) == {s[i] : i \in DOMAIN s}

RECURSIVE LeafSeq(_)
LeafSeq(t) == CASE t.t = "E" -> <<>>
                [] t.t = "L" -> <<t>>
                [] t.t = "N" -> LeafSeq(t.l) \o LeafSeq(t.r)
NLeaves(t) == Len(LeafSeq(t))
KeysOf(t) == {x.k : x \in Range(LeafSeq(t))}
HashesOf(t) == {x.h : x \in Range(LeafSeq(t))}
KV(t) == {<<x.k, x.v>> : x \in Range(LeafSeq(t))}
RECURSIVE Has(_, _)
Has(t, k) == CASE t.t = "E" -> FALSE
               [] t.t = "L" -> t.k = k
               [] t.t = "N" -> Has(t.l, k) \/ Has(t.r, k)
LeafOf(t, k) == CHOOSE x \in Range(LeafSeq(t)) : x.k = k
RECURSIVE AnyDirty(_)
AnyDirty(t) == t.t = "N" /\ (t.d \/ AnyDirty(t.l) \/ AnyDirty(t.r))

\* ---------------------------------------------------------------- integrity
\* every key once, every leaf hash once (BlockStatusCache::new, blob.rs:109-114);
\* parent/child consistency is structural in an algebraic tree
Integrity(t) == LET ls == LeafSeq(t) IN
  \A i, j \in DOMAIN ls : i # j => ls[i].k # ls[j].k /\ ls[i].h # ls[j].h

\* ------------------------------------------------------------------- hashes
\* independent recomputation of a subtree's hash from the leaves only
RECURSIVE Recompute(_)
Recompute(t) == IF t.t = "L" THEN t.h ELSE IH(Recompute(t.l), Recompute(t.r))
\* the tree with every internal hash recomputed and no dirty bit
RECURSIVE FullCalc(_)
FullCalc(t) == IF t.t # "N" THEN t
               ELSE LET l == FullCalc(t.l) r == FullCalc(t.r) IN Node(l, r, IH(l.h, r.h), FALSE)
\* calculate_lazy_hashes (blob.rs:1109): children first, dirty nodes only, and the walk
\* does not descend below a clean node
RECURSIVE Calc(_)
Calc(t) == IF t.t # "N" THEN t
           ELSE IF ~t.d THEN t
           ELSE LET l == Calc(t.l) r == Calc(t.r) IN Node(l, r, IH(l.h, r.h), FALSE)
\* what makes the lazy scheme right: a clean node's stored hash is the true hash of its subtree
RECURSIVE CleanCorrect(_)
CleanCorrect(t) == t.t = "N" => /\ (~t.d => t.h = Recompute(t))
                                /\ CleanCorrect(t.l) /\ CleanCorrect(t.r)

\* ... and dirt is closed upwards (which is why mark_lineage_as_dirty may stop at the first dirty node and
\* calculate_lazy_hashes need not look below a clean one)
RECURSIVE DirtyUpClosed(_)
DirtyUpClosed(t) == t.t = "N" => /\ (~t.d => ~AnyDirty(t.l) /\ ~AnyDirty(t.r))
                                 /\ DirtyUpClosed(t.l) /\ DirtyUpClosed(t.r)

\* inclusion proof of key k, leaf to root (blob.rs:1155): per layer the side and hash of the
\* sibling and the combined (parent) hash. Side 0 = Left, 1 = Right (blob.rs:67)
RECURSIVE Layers(_, _)
Layers(t, k) == IF t.t = "L" THEN <<>>
                ELSE IF Has(t.l, k) THEN Append(Layers(t.l, k), [s |-> 1, o |-> t.r.h, c |-> t.h])
                ELSE Append(Layers(t.r, k), [s |-> 0, o |-> t.l.h, c |-> t.h])
ProofOf(t, k) == [node |-> LeafOf(t, k).h, layers |-> Layers(t, k)]
ProofRoot(p) == IF Len(p.layers) = 0 THEN p.node ELSE p.layers[Len(p.layers)].c
\* ProofOfInclusion::valid (proof_of_inclusion.rs:40)
RECURSIVE ValidFrom(_, _, _)
ValidFrom(cur, ls, i) == IF i > Len(ls) THEN TRUE
                         ELSE LET calc == IF ls[i].s = 0 THEN IH(ls[i].o, cur) ELSE IH(cur, ls[i].o) IN
                              calc = ls[i].c /\ ValidFrom(calc, ls, i + 1)
ProofValid(p) == ValidFrom(p.node, p.layers, 1)

\* -------------------------------------------------- tree surgery with dirt
\* mark_lineage_as_dirty (blob.rs:901) walks up from a node and STOPS at the first node that is
\* already dirty. Rewrites below return [t |-> new subtree, s |-> the upward walk has stopped].
Mark(n, stopped) == IF stopped \/ n.d THEN [t |-> n, s |-> TRUE]
                    ELSE [t |-> [n EXCEPT !.d = TRUE], s |-> FALSE]
\* replace the leaf with key lk by repl; the walk starts at the leaf's old parent
RECURSIVE Sub(_, _, _)
Sub(t, lk, repl) ==
  IF t.t = "L" THEN [t |-> repl, s |-> FALSE]
  ELSE LET inL == Has(t.l, lk)
           sub == Sub(IF inL THEN t.l ELSE t.r, lk, repl)
           base == IF inL THEN [t EXCEPT !.l = sub.t] ELSE [t EXCEPT !.r = sub.t]
       IN Mark(base, sub.s)
\* side 0: the new subtree becomes the left child, the old leaf the right one (blob.rs:394,528)
InsertAt(t, lk, side, new) ==
  LET old == LeafOf(t, lk) IN Sub(t, lk, IF side = 0 THEN Fresh(new, old) ELSE Fresh(old, new)).t
\* delete (blob.rs:736): the sibling takes the parent's place as it is (hash, dirty bit, children);
\* the walk starts at the grandparent
RECURSIVE Del(_, _)
Del(t, k) ==
  IF t.l.t = "L" /\ t.l.k = k THEN [t |-> t.r, s |-> FALSE]
  ELSE IF t.r.t = "L" /\ t.r.k = k THEN [t |-> t.l, s |-> FALSE]
  ELSE LET inL == Has(t.l, k)
           sub == Del(IF inL THEN t.l ELSE t.r, k)
           base == IF inL THEN [t EXCEPT !.l = sub.t] ELSE [t EXCEPT !.r = sub.t]
       IN Mark(base, sub.s)

\* batch_insert (blob.rs:570): leaves paired level by level, an odd one carried up
PairUp(s) == [i \in 1..((Len(s) + 1) \div 2) |->
               IF 2 * i <= Len(s) THEN Fresh(s[2 * i - 1], s[2 * i]) ELSE s[2 * i - 1]]
RECURSIVE Build(_)
Build(s) == IF Len(s) = 1 THEN s[1] ELSE Build(PairUp(s))
\* get_min_height_leaf (blob.rs:726): first leaf in breadth-first, left-to-right order
RECURSIVE FirstLeafBFS(_)
FirstLeafBFS(q) == IF Head(q).t = "L" THEN Head(q)
                   ELSE FirstLeafBFS(Tail(q) \o <<Head(q).l, Head(q).r>>)
\* insert_subtree_at_key(min height leaf, subtree, Side::Left) (blob.rs:653)
Attach(t, st) == LET m == FirstLeafBFS(<<t>>) IN Sub(t, m.k, Fresh(st, m)).t

Places(t) == {<<x.k, s>> : x \in Range(LeafSeq(t)), s \in {0, 1}}
AutoSucc(t, new) == IF t.t = "E" THEN {new} ELSE {InsertAt(t, p[1], p[2], new) : p \in Places(t)}

\* ------------------------------------------------------------ the six calls
\* op: [k |-> "insert", key, val, h, loc] | [k |-> "upsert", key, val, h] | [k |-> "delete", key]
\*   | [k |-> "batch", items |-> <<[key, val, h], ...>>] | [k |-> "calc"] | [k |-> "reload"]
\* loc: [k |-> "auto"] | [k |-> "root"] | [k |-> "leaf", key, side] (the leaf holding `key`)
\*   | [k |-> "index0", side] (InsertLocation::Leaf{index: 0}: a leaf only in a one-leaf tree)
\*   | [k |-> "freed", side] (InsertLocation::Leaf{index: i}, i a block that is not part of the tree: a freed
\*     block, or the first index beyond the blob): not a leaf, the insert must fail
LocOk(t, loc) == CASE loc.k = "auto" -> TRUE
                   [] loc.k = "root" -> t.t = "E"          \* UnableToInsertAsRootOfNonEmptyTree
                   [] loc.k = "index0" -> t.t = "L"        \* NodeNotALeaf / BlockIndexOutOfBounds
                   [] loc.k = "leaf" -> Has(t, loc.key)
                   [] loc.k = "freed" -> FALSE
DistinctSeq(s) == \A i, j \in DOMAIN s : i # j => s[i] # s[j]

Guard(t, op) ==
  CASE op.k = "insert" -> /\ op.key \notin KeysOf(t)         \* KeyAlreadyPresent
                          /\ op.h \notin HashesOf(t)         \* HashAlreadyPresent
                          /\ LocOk(t, op.loc)
    [] op.k = "upsert" -> IF Has(t, op.key) THEN op.h = LeafOf(t, op.key).h \/ op.h \notin HashesOf(t)
                          ELSE op.h \notin HashesOf(t)
    [] op.k = "delete" -> Has(t, op.key)                     \* UnknownKey
    [] op.k = "batch" -> /\ DistinctSeq([i \in DOMAIN op.items |-> op.items[i].key])
                         /\ DistinctSeq([i \in DOMAIN op.items |-> op.items[i].h])
                         /\ \A i \in DOMAIN op.items : op.items[i].key \notin KeysOf(t) /\ op.items[i].h \notin HashesOf(t)
    [] op.k \in {"calc", "reload"} -> TRUE

BatchSucc(t, b) ==
  LET n == Len(b)
      lf(i) == Leaf(b[i].key, b[i].val, b[i].h)
  IN IF n = 0 THEN {t}
     ELSE IF NLeaves(t) >= 2 THEN {Attach(t, Build([i \in 1..n |-> lf(i)]))}
     ELSE \* blob.rs:578: with at most one leaf the LAST two items are inserted one by one (Auto)
       LET S1 == AutoSucc(t, lf(n)) IN
       IF n = 1 THEN S1
       ELSE LET S2 == UNION {AutoSucc(t1, lf(n - 1)) : t1 \in S1} IN
            IF n = 2 THEN S2 ELSE {Attach(t2, Build([i \in 1..(n - 2) |-> lf(i)])) : t2 \in S2}

\* possible resulting trees of a call whose guard holds
Succ(t, op) ==
  CASE op.k = "insert" ->
         (LET new == Leaf(op.key, op.val, op.h) IN
          CASE t.t = "E" -> {new}
            [] op.loc.k = "auto" -> AutoSucc(t, new)
            [] op.loc.k = "index0" -> {InsertAt(t, t.k, op.loc.side, new)}
            [] op.loc.k = "leaf" -> {InsertAt(t, op.loc.key, op.loc.side, new)})
    [] op.k = "upsert" -> (IF Has(t, op.key) THEN {Sub(t, op.key, Leaf(op.key, op.val, op.h)).t}
                           ELSE AutoSucc(t, Leaf(op.key, op.val, op.h)))
    [] op.k = "delete" -> (IF t.t = "L" THEN {Empty} ELSE {Del(t, op.key).t})
    [] op.k = "batch" -> BatchSucc(t, op.items)
    [] op.k = "calc" -> {Calc(t)}
    [] op.k = "reload" -> {t}

\* the plain map under the same (successful) call
RECURSIVE PutAll(_, _, _)
PutAll(m, b, i) == IF i > Len(b) THEN m ELSE PutAll((b[i].key :> b[i].val) @@ m, b, i + 1)
PmNext(m, op) ==
  CASE op.k \in {"insert", "upsert"} -> (op.key :> op.val) @@ m
    [] op.k = "delete" -> [x \in (DOMAIN m) \ {op.key} |-> m[x]]
    [] op.k = "batch" -> PutAll(m, op.items, 1)
    [] op.k \in {"calc", "reload"} -> m
PmKV(m) == {<<x, m[x]>> : x \in DOMAIN m}

\* ---------------------------------------------------------- state machine
VARIABLES tree, pm, last
vars == <<tree, pm, last>>

MInit == tree = Empty /\ pm = <<>> /\ last = [op |-> [k |-> "init"], ok |-> TRUE]
\* the call succeeds ...
Do(op) == /\ Guard(tree, op)
          /\ tree' \in Succ(tree, op)
          /\ pm' = PmNext(pm, op)
          /\ last' = [op |-> op, ok |-> TRUE]
\* ... or is its failing twin: an error is returned and nothing changes
Fail(op) == /\ ~Guard(tree, op)
            /\ UNCHANGED <<tree, pm>>
            /\ last' = [op |-> op, ok |-> FALSE]

\* ------------------------------------------------------------- properties
RefinesMap == KV(tree) = PmKV(pm)
IntegrityInv == Integrity(tree)
CleanHashesInv == CleanCorrect(tree) /\ DirtyUpClosed(tree)
FailedIsStutter == [][~last'.ok => tree' = tree /\ pm' = pm]_vars
ReloadEquivalent == [][last'.op.k = "reload" => last'.ok /\ tree' = tree /\ pm' = pm]_vars
AfterCalc == last.op.k = "calc" /\ tree.t # "E"
RootHashDef == AfterCalc => last.ok /\ ~AnyDirty(tree) /\ tree.h = Recompute(tree)
ProofsValid == AfterCalc => \A k \in KeysOf(tree) :
                 LET p == ProofOf(tree, k) IN ProofValid(p) /\ ProofRoot(p) = tree.h /\ p.node = LeafOf(tree, k).h
=============================================================================
