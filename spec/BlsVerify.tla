------------------------------ MODULE BlsVerify ------------------------------
(* C15: the reference verdict of signature verification and symbolic models   *)
(* of the stand-alone verifiers of crates/chia-bls/src/signature.rs.          *)
(*                                                                            *)
(* Symbolic cryptography. A key is a natural number, Inf (= 0) is the point   *)
(* at infinity; a message is a natural number; a pair is <<key, msg>>.        *)
(* GT(p) is the opaque pairing value e(pk, H(pk || msg)); e(Inf, _) = 1.      *)
(* A signature is [wf, bag]: wf = "the G2 point is the identity or lies in    *)
(* the subgroup" (Signature::is_valid), bag = the pairs (real keys only)      *)
(* whose individual signatures were added up; the identity is the empty bag.  *)
(* A product of pairings is the bag of its real-key factors; distinct bags    *)
(* are distinct group elements (no algebraic relations between real keys).    *)
EXTENDS Naturals, Sequences, FiniteSets

Inf == 0

GT(p) == [gt |-> p]
Range(s) == {s[i] : i \in DOMAIN s}
BagOf(s) == [x \in Range(s) |-> Cardinality({i \in DOMAIN s : s[i] = x})]
GTs(s) == [i \in DOMAIN s |-> GT(s[i])]
NoInf(pairs) == \A i \in DOMAIN pairs : pairs[i][1] # Inf
Real(pairs) == SelectSeq(pairs, LAMBDA p : p[1] # Inf)

\* the verdict every verifier must return (properties.jsonl C15): never valid if any key is
\* the point at infinity, otherwise valid exactly when the signature is the aggregate of
\* signatures by those keys over those messages (the empty aggregate is the identity)
RefVerdict(pairs, s) == NoInf(pairs) /\ s.wf /\ BagOf(pairs) = BagOf(s.bag)

------------------------------------------------------------------------------
(* symbolic models of the stand-alone verifiers *)
Prod(pairs) == BagOf(Real(pairs))          \* product of e(pk_i, H_i); infinity keys contribute 1
SigGT(s) == BagOf(s.bag)                   \* e(g1, signature)
IsIdentity(s) == s.wf /\ s.bag = <<>>

\* signature.rs:348 verify: blst_core_verify_pk_in_g1 rejects an infinite key and an
\* off-subgroup signature, then compares two pairings
AlgVerify(p, s) == p[1] # Inf /\ s.wf /\ Prod(<<p>>) = SigGT(s)
\* signature.rs:378 aggregate_verify: is_valid, empty list <=> identity, every key checked
AlgAggregate(pairs, s) ==
  s.wf /\ (IF pairs = <<>> THEN IsIdentity(s) ELSE NoInf(pairs) /\ Prod(pairs) = SigGT(s))
\* signature.rs:457 aggregate_verify_gt: sees pairings only, so an infinity key is invisible:
\* the property exempts it when a key is infinity
AlgGt(pairs, s) ==
  s.wf /\ (IF pairs = <<>> THEN IsIdentity(s) ELSE Prod(pairs) = SigGT(s))

\* what the implementation's verifiers must return; "na" = not applicable / exempt
VStr(x) == IF x THEN "T" ELSE "F"
Expected(verifier, pairs, s) ==
  CASE verifier = "verify" -> IF Len(pairs) = 1 THEN VStr(RefVerdict(pairs, s)) ELSE "na"
    [] verifier \in {"gt", "clvm"} -> IF NoInf(pairs) THEN VStr(RefVerdict(pairs, s)) ELSE "na"
    [] OTHER -> VStr(RefVerdict(pairs, s))     \* "agg", "cache" (cold), "cache2" (warm)
Verifiers == {"verify", "agg", "cache", "cache2", "gt", "clvm"}

\* agreement lemmas (checked on every input by MC_BlsVerify)
AggAgrees(pairs, s) == AlgAggregate(pairs, s) = RefVerdict(pairs, s)
VerifyAgrees(pairs, s) == Len(pairs) = 1 => AlgVerify(pairs[1], s) = RefVerdict(pairs, s)
GtAgrees(pairs, s) == NoInf(pairs) => AlgGt(pairs, s) = RefVerdict(pairs, s)
\* the exemption is needed exactly where the precomputed-pairing path accepts
GtExemptNeeded(pairs, s) == AlgGt(pairs, s) # RefVerdict(pairs, s)
=============================================================================
