--------------------------- MODULE ConditionsObs ---------------------------
(* Comparison of the machine's result with an observed summary (the JSON    *)
(* projection of OwnedSpendBundleConditions written by the harness), plus   *)
(* the C02 / C04 invariants evaluated on the implementation's own numbers.  *)
EXTENDS Conditions

BagEq(s, t) == /\ Len(s) = Len(t)
               /\ \A x \in RangeOf(s) : Cardinality({i \in DOMAIN s : s[i] = x}) = Cardinality({i \in DOMAIN t : t[i] = x})

HintObs(h) == IF h = <<>> THEN [k |-> "none"] ELSE [k |-> "some", v |-> h]

SpendEq(s, o) ==
  /\ s.id = o.id /\ s.parent = o.parent /\ s.ph = o.ph /\ s.amt = o.amt
  /\ s.hr = o.hr /\ s.sr = o.sr /\ s.bhr = o.bhr /\ s.bsr = o.bsr /\ s.bh = o.bh /\ s.bs = o.bs
  /\ Len(o.cc) = Cardinality(s.cc)
  /\ {[ph |-> c.ph, amt |-> c.amt, hint |-> HintObs(c.hint)] : c \in s.cc} = RangeOf(o.cc)
  /\ BagEq(s.agg.me, o.me) /\ BagEq(s.agg.parent, o.parent_sigs) /\ BagEq(s.agg.puzzle, o.puzzle)
  /\ BagEq(s.agg.amount, o.amount) /\ BagEq(s.agg.puzzle_amount, o.puzzle_amount)
  /\ BagEq(s.agg.parent_amount, o.parent_amount) /\ BagEq(s.agg.parent_puzzle, o.parent_puzzle)
  /\ FlagBits(s.flags) = o.flags
  /\ s.ccost = o.ccost

\* conditions part of a summary (everything parse_spends derives; cost checked by the caller)
SummaryEq(st, o) ==
  /\ Len(st.ret.spends) = Len(o.spends)
  /\ \A i \in DOMAIN o.spends : SpendEq(st.ret.spends[i], o.spends[i])
  /\ st.ret.fee = o.fee /\ st.ret.ha = o.ha /\ st.ret.sa = o.sa /\ st.ret.bha = o.bha /\ st.ret.bsa = o.bsa
  /\ BagEq(st.ret.unsafe, o.unsafe)
  /\ st.ret.ccost = o.ccost /\ st.ret.rem = o.rem /\ st.ret.add = o.add

(* ---- C02: invariants of every accepted result, on the reported numbers ---- *)
SumSeqBy(s, f(_)) == LET RECURSIVE Go(_)
                         Go(i) == IF i > Len(s) THEN Zero ELSE Add(f(s[i]), Go(i + 1))
                     IN Go(1)
SpendAmt(sp) == sp.amt
CcSum(sp) == SumSeqBy(sp.cc, LAMBDA c : c.amt)
SpendCcost(sp) == sp.ccost
SpendEcost(sp) == sp.ecost

ObsConservation(o) == Le(Add(o.add, o.fee), o.rem)
ObsNoDoubleSpend(o) == \A i, j \in DOMAIN o.spends : i # j => o.spends[i].id # o.spends[j].id
ObsNoDupOutput(o) == \A i \in DOMAIN o.spends : \A a, b \in DOMAIN o.spends[i].cc :
                        a # b => <<o.spends[i].cc[a].ph, o.spends[i].cc[a].amt>> # <<o.spends[i].cc[b].ph, o.spends[i].cc[b].amt>>
ObsTotals(o) == /\ o.rem = SumSeqBy(o.spends, SpendAmt)
                /\ o.add = SumSeqBy(o.spends, CcSum)
ObsCoinIds(o) == \A i \in DOMAIN o.spends :
                   LET s == o.spends[i] IN
                   /\ s.id = SHA256(s.parent \o s.ph \o Enc(s.amt)) /\ Len(s.parent) = 32 /\ Len(s.ph) = 32
                   \* the public Coin type reports the same id for the spent coin and the defined id for every created coin
                   /\ "id_api" \in DOMAIN s => /\ s.id_api = s.id
                                               /\ Len(s.cc_ids) = Len(s.cc)
                                               /\ \A k \in DOMAIN s.cc : s.cc_ids[k] = SHA256(s.id \o s.cc[k].ph \o Enc(s.cc[k].amt))
ObsAccepted(o) == ObsConservation(o) /\ ObsNoDoubleSpend(o) /\ ObsNoDupOutput(o) /\ ObsTotals(o) /\ ObsCoinIds(o)

(* ---- C02: the fee the conditions themselves reserve (independent of what the result reports) ---- *)
\* every RESERVE_FEE condition whose argument is a non-negative integer atom counts, whatever its width
FeeArg(c) == IF IsPair(c) /\ IsAtom(c.l) /\ c.l.a = <<RESERVE_FEE>> /\ IsPair(c.r) /\ IsAtom(c.r.l) /\ (c.r.l.a = <<>> \/ c.r.l.a[1] < 128)
             THEN Norm(c.r.l.a) ELSE Zero
DeclaredFeeOfConds(conds) == LET cs == Elems(conds) IN SumSeq([i \in DOMAIN cs |-> FeeArg(cs[i])])
\* conditions of a spend given as (parent puzzle-hash amount conditions ...); a malformed spend reserves nothing
SpendCondsOf(sp) == IF IsPair(sp) /\ IsPair(sp.r) /\ IsPair(sp.r.r) /\ IsPair(sp.r.r.r) THEN sp.r.r.r.l ELSE Nil
DeclaredFeeOfTree(tree) == IF IsPair(tree) THEN LET ss == Elems(tree.l) IN SumSeq([i \in DOMAIN ss |-> DeclaredFeeOfConds(SpendCondsOf(ss[i]))]) ELSE Zero
\* an accepted result conserves value also with the fee its conditions declare, and reports exactly that fee
ObsDeclaredFee(o, declared) == Le(Add(o.add, declared), o.rem) /\ o.fee = declared

(* ---- C04: accumulator consistency on the reported numbers ---- *)
ObsCostConsistent(o) == o.ccost = SumSeqBy(o.spends, SpendCcost)
=============================================================================
