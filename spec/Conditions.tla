----------------------------- MODULE Conditions -----------------------------
(***************************************************************************)
(* The spend / condition validation machine of chia_rs (parse_spends,      *)
(* process_single_spend, parse_conditions, validate_conditions and the two *)
(* SpendVisitors), written from the consensus rules: README of             *)
(* chia-consensus, the opcode and cost tables, and the code where those    *)
(* leave a choice open. One step function per critical section:            *)
(*   BeginSpend  - coin fields, coin id, double spend, per-spend cost      *)
(*   Cond        - one condition: opcode whitelist, pre-charge, argument   *)
(*                 decoding, visitor effect, accumulator effect            *)
(*   EndSpend    - visitor post_spend, spend appended to the summary       *)
(*   Finish      - visitor post_process, deferred cross-spend validation   *)
(* The machine is deterministic; Run(in) iterates it to completion and is  *)
(* used by the relational specs and by the trace specifications.           *)
(*                                                                         *)
(* Numbers are BigNat (byte sequences); options are <<>> / <<v>>.          *)
(***************************************************************************)
EXTENDS ClvmInt, SExp, Sha, FiniteSets

None == <<>>
Some(v) == <<v>>
IsSome(o) == o # <<>>
Val(o) == o[1]

RangeOf(s) == {s[i] : i \in DOMAIN s}

(* ---------------------------- consensus tables -------------------------- *)
REMARK == 1
AGG_SIG_PARENT == 43  AGG_SIG_PUZZLE == 44  AGG_SIG_AMOUNT == 45  AGG_SIG_PUZZLE_AMOUNT == 46
AGG_SIG_PARENT_AMOUNT == 47  AGG_SIG_PARENT_PUZZLE == 48  AGG_SIG_UNSAFE == 49  AGG_SIG_ME == 50
CREATE_COIN == 51  RESERVE_FEE == 52
CREATE_COIN_ANNOUNCEMENT == 60  ASSERT_COIN_ANNOUNCEMENT == 61
CREATE_PUZZLE_ANNOUNCEMENT == 62  ASSERT_PUZZLE_ANNOUNCEMENT == 63
ASSERT_CONCURRENT_SPEND == 64  ASSERT_CONCURRENT_PUZZLE == 65
SEND_MESSAGE == 66  RECEIVE_MESSAGE == 67
ASSERT_MY_COIN_ID == 70  ASSERT_MY_PARENT_ID == 71  ASSERT_MY_PUZZLEHASH == 72  ASSERT_MY_AMOUNT == 73
ASSERT_MY_BIRTH_SECONDS == 74  ASSERT_MY_BIRTH_HEIGHT == 75  ASSERT_EPHEMERAL == 76
ASSERT_SECONDS_RELATIVE == 80  ASSERT_SECONDS_ABSOLUTE == 81
ASSERT_HEIGHT_RELATIVE == 82  ASSERT_HEIGHT_ABSOLUTE == 83
ASSERT_BEFORE_SECONDS_RELATIVE == 84  ASSERT_BEFORE_SECONDS_ABSOLUTE == 85
ASSERT_BEFORE_HEIGHT_RELATIVE == 86  ASSERT_BEFORE_HEIGHT_ABSOLUTE == 87
SOFTFORK == 90

AggSigOps == 43..50
AnnounceOps == 60..67            \* the "message class": announcements, concurrent, messages
KnownOps == {1} \cup (43..52) \cup (60..67) \cup (70..76) \cup (80..87) \cup {90}

CREATE_COIN_COST     == Of(1800000)
AGG_SIG_COST         == Of(1200000)
SPEND_COST           == Of(450000)      \* CREATE_COIN_COST / 4
NEW_CREATE_COIN_COST == Of(1350000)     \* CREATE_COIN_COST - SPEND_COST
MESSAGE_COND_COST    == Of(700)
GENERIC_COND_COST    == Of(200)
MAX_SPENDS_PER_BLOCK == 6000
ANNOUNCE_LIMIT       == 1024

\* cost of the two-byte opcode 0xXXYY (XX # 0) is TwoByteCosts[YY + 1]:
\* 100 * (17/16)^YY rounded down to three significant figures (frozen consensus table)
TwoByteCosts == <<
  100, 106, 112, 119, 127, 135, 143, 152,
  162, 172, 183, 194, 206, 219, 233, 248,
  263, 280, 297, 316, 336, 357, 379, 403,
  428, 455, 483, 513, 546, 580, 616, 654,
  695, 739, 785, 834, 886, 942, 1000, 1060,
  1130, 1200, 1270, 1350, 1440, 1530, 1620, 1720,
  1830, 1950, 2070, 2200, 2330, 2480, 2640, 2800,
  2980, 3160, 3360, 3570, 3790, 4030, 4280, 4550,
  4840, 5140, 5460, 5800, 6170, 6550, 6960, 7400,
  7860, 8350, 8870, 9430, 10000, 10600, 11300, 12000,
  12700, 13500, 14400, 15300, 16200, 17200, 18300, 19500,
  20700, 22000, 23400, 24800, 26400, 28000, 29800, 31700,
  33600, 35800, 38000, 40400, 42900, 45600, 48400, 51500,
  54700, 58100, 61700, 65600, 69700, 74100, 78700, 83600,
  88800, 94400, 100000, 106000, 113000, 120000, 127000, 135000,
  144000, 153000, 162000, 173000, 183000, 195000, 207000, 220000,
  234000, 249000, 264000, 281000, 298000, 317000, 337000, 358000,
  380000, 404000, 429000, 456000, 485000, 515000, 547000, 582000,
  618000, 657000, 698000, 741000, 788000, 837000, 889000, 945000,
  1000000, 1060000, 1130000, 1200000, 1280000, 1360000, 1440000, 1530000,
  1630000, 1730000, 1840000, 1950000, 2070000, 2200000, 2340000, 2490000,
  2650000, 2810000, 2990000, 3170000, 3370000, 3580000, 3810000, 4050000,
  4300000, 4570000, 4850000, 5160000, 5480000, 5820000, 6190000, 6570000,
  6990000, 7420000, 7890000, 8380000, 8900000, 9460000, 10000000, 10600000,
  11300000, 12000000, 12800000, 13600000, 14400000, 15300000, 16300000, 17300000,
  18400000, 19500000, 20800000, 22100000, 23500000, 24900000, 26500000, 28100000,
  29900000, 31800000, 33800000, 35900000, 38100000, 40500000, 43000000, 45700000,
  48600000, 51600000, 54900000, 58300000, 61900000, 65800000, 69900000, 74300000,
  79000000, 83900000, 89100000, 94700000, 100000000, 106000000, 113000000, 120000000,
  128000000, 136000000, 144000000, 153000000, 163000000, 173000000, 184000000, 196000000,
  208000000, 221000000, 235000000, 249000000, 265000000, 282000000, 299000000, 318000000,
  338000000, 359000000, 382000000, 406000000, 431000000, 458000000, 487000000, 517000000
>>

(* ------------------------------- flags ---------------------------------- *)
NoUnknown(in) == "NO_UNKNOWN_CONDS" \in in.flags
Strict(in)    == "STRICT_ARGS_COUNT" \in in.flags
CC(in)        == "COST_CONDITIONS" \in in.flags
LimitSp(in)   == "LIMIT_SPENDS" \in in.flags
NoSig(in)     == "DONT_VALIDATE_SIGNATURE" \in in.flags
Mempool(in)   == in.vis = "mempool"

(* ------------------------------ state ----------------------------------- *)
EmptyRet == [spends |-> <<>>, fee |-> Zero, ha |-> Zero, sa |-> Zero, bha |-> None, bsa |-> None,
             unsafe |-> <<>>, ccost |-> Zero, rem |-> Zero, add |-> Zero]

EmptyPs == [annCoin |-> {}, annPuzzle |-> {}, assertCoin |-> {}, assertPuzzle |-> {},
            msgs |-> <<>>, concSpend |-> {}, concPuzzle |-> {}, spentIds |-> <<>>, spentPuzzles |-> {},
            assertEph |-> {}, assertNotEph |-> {}, pkm |-> <<>>]

NoCur == [none |-> TRUE]

Start(in) == [pc |-> "begin", spendsLeft |-> Nil, condsLeft |-> Nil, cur |-> NoCur, ret |-> EmptyRet, ps |-> EmptyPs,
              costLeft |-> in.max, ann |-> ANNOUNCE_LIMIT, nspends |-> 0, err |-> ""]

Fail(st, e) == [st EXCEPT !.pc = "done", !.err = e]
Failed(st) == st.err # ""

\* charge a cost against the remaining budget (fail early) and all three accumulators
Charge(st, c) ==
  IF Lt(st.costLeft, c) THEN Fail(st, "CostExceeded")
  ELSE [st EXCEPT !.costLeft = Sub(@, c), !.ret.ccost = Add(@, c), !.cur.ccost = Add(@, c)]

(* --------------------------- argument shapes ---------------------------- *)
IsHash(x, n) == IsAtom(x) /\ Len(x.a) = n
IsMsg(x) == IsAtom(x) /\ Len(x.a) <= 1024
\* one-argument conditions: (arg . rest); STRICT_ARGS_COUNT demands rest = nil
OneArgOk(in, args) == IsPair(args) /\ (Strict(in) => IsNil(args.r))

ParseOpcode(x) ==
  IF IsPair(x) THEN -1
  ELSE IF Len(x.a) = 2 THEN (IF x.a[1] = 0 THEN -1 ELSE x.a[1] * 256 + x.a[2])
  ELSE IF Len(x.a) = 1 THEN (IF x.a[1] \in KnownOps THEN x.a[1] ELSE -1)
  ELSE -1

PreCost(in, op) ==
  IF op = CREATE_COIN THEN (IF CC(in) THEN NEW_CREATE_COIN_COST ELSE CREATE_COIN_COST)
  ELSE IF op \in AggSigOps THEN AGG_SIG_COST
  ELSE IF op \in AnnounceOps THEN (IF CC(in) THEN MESSAGE_COND_COST ELSE Zero)
  ELSE (IF CC(in) THEN GENERIC_COND_COST ELSE Zero)

(* --------------------------- spend flags -------------------------------- *)
DEDUP == "DEDUP"  REL == "REL"  FF == "FF"
ClearFlags(st, fs) == [st EXCEPT !.cur.flags = @ \ fs]

\* relative / birth conditions are not allowed on ephemeral coins; remember the spend once
NotEph(st) == IF REL \in st.cur.flags THEN st
              ELSE [st EXCEPT !.cur.flags = @ \cup {REL}, !.ps.assertNotEph = @ \cup {st.nspends + 1}]

\* pre-hard-fork limit of 1024 announcement-class conditions per spend
Announce(in, st) == IF CC(in) THEN st
                    ELSE IF st.ann = 0 THEN Fail(st, "TooManyAnnouncements")
                    ELSE [st EXCEPT !.ann = @ - 1]

(* MempoolVisitor.condition: bookkeeping of ELIGIBLE_FOR_DEDUP / ELIGIBLE_FOR_FF; *)
(* kind is the parsed condition class; the counter counts parsed known conditions *)
Visit(in, st, kind, mode) ==
  IF ~Mempool(in) THEN st
  ELSE LET clear ==
         CASE kind \in {"MyCoinId", "HeightRel", "SecondsRel", "BeforeHeightRel", "BeforeSecondsRel",
                        "BirthHeight", "BirthSeconds", "Ephemeral", "CoinAnnounce"} -> {FF}
           [] kind = "MyParentId" -> (IF st.cur.counter # 1 THEN {FF} ELSE {})
           [] kind \in {"AggSig50", "AggSig43", "AggSig47", "AggSig48"} -> {DEDUP, FF}
           [] kind \in {"AggSig44", "AggSig45", "AggSig46", "AggSig49"} -> {DEDUP}
           [] kind \in {"Send", "Receive"} -> (IF (mode \div 4) % 2 = 1 THEN {DEDUP, FF} ELSE {DEDUP})
           [] OTHER -> {}
       IN [st EXCEPT !.cur.flags = @ \ clear, !.cur.counter = @ + 1]

(* ------------------------------ messages -------------------------------- *)
\* identity a spend commits to under a 3-bit mode (parent=4, puzzle=2, amount=1; 7 = coin id)
SelfId(mode, cur) ==
  IF mode = 7 THEN <<7, cur.id>>
  ELSE <<mode, IF (mode \div 4) % 2 = 1 THEN cur.parent ELSE <<>>,
               IF (mode \div 2) % 2 = 1 THEN cur.ph ELSE <<>>,
               IF mode % 2 = 1 THEN cur.amt ELSE <<>> >>

\* parse the counterpart identity from the argument list; returns [ok, id, rest]
ParseSpendId(args, mode) ==
  IF mode = 7 THEN
    IF IsPair(args) /\ IsHash(args.l, 32) THEN [ok |-> TRUE, id |-> <<7, args.l.a>>, rest |-> args.r]
    ELSE [ok |-> FALSE]
  ELSE
    LET wantP == (mode \div 4) % 2 = 1
        wantZ == (mode \div 2) % 2 = 1
        wantA == mode % 2 = 1
        okP == ~wantP \/ (IsPair(args) /\ IsHash(args.l, 32))
        a1 == IF wantP /\ okP THEN args.r ELSE args
        okZ == okP /\ (~wantZ \/ (IsPair(a1) /\ IsHash(a1.l, 32)))
        a2 == IF wantZ /\ okZ THEN a1.r ELSE a1
        sa == IF okZ /\ wantA /\ IsPair(a2) /\ IsAtom(a2.l) THEN Sanitize(a2.l.a, 8) ELSE [k |-> "bad"]
        okA == okZ /\ (~wantA \/ sa.k = "ok")
        a3 == IF wantA /\ okA THEN a2.r ELSE a2
    IN IF okA THEN [ok |-> TRUE, rest |-> a3,
                    id |-> <<mode, IF wantP THEN args.l.a ELSE <<>>, IF wantZ THEN a1.l.a ELSE <<>>,
                             IF wantA THEN sa.v ELSE <<>> >>]
       ELSE [ok |-> FALSE]

\* message mode: a canonical integer 0..63
ModeOf(x) == IF IsPair(x) THEN -1
             ELSE IF x.a = <<>> THEN 0
             ELSE IF Len(x.a) = 1 /\ x.a[1] >= 1 /\ x.a[1] <= 63 THEN x.a[1]
             ELSE -1

(* --------------------------- AGG_SIG messages --------------------------- *)
EndsWith(b, s) == Len(b) >= Len(s) /\ SubSeq(b, Len(b) - Len(s) + 1, Len(b)) = s
DomainStrings(in) == {in.consts.me, in.consts.parent, in.consts.puzzle, in.consts.amount,
                      in.consts.puzzle_amount, in.consts.parent_amount, in.consts.parent_puzzle}
UnsafeMsgBanned(in, m) == Len(m) >= 32 /\ \E d \in DomainStrings(in) : EndsWith(m, d)

\* the text the aggregate signature must cover for one AGG_SIG condition
SignedText(in, op, cur, m) ==
  CASE op = AGG_SIG_ME            -> m \o cur.id \o in.consts.me
    [] op = AGG_SIG_PARENT        -> m \o cur.parent \o in.consts.parent
    [] op = AGG_SIG_PUZZLE        -> m \o cur.ph \o in.consts.puzzle
    [] op = AGG_SIG_AMOUNT        -> m \o Enc(cur.amt) \o in.consts.amount
    [] op = AGG_SIG_PUZZLE_AMOUNT -> m \o cur.ph \o Enc(cur.amt) \o in.consts.puzzle_amount
    [] op = AGG_SIG_PARENT_AMOUNT -> m \o cur.parent \o Enc(cur.amt) \o in.consts.parent_amount
    [] op = AGG_SIG_PARENT_PUZZLE -> m \o cur.parent \o cur.ph \o in.consts.parent_puzzle
    [] op = AGG_SIG_UNSAFE        -> m

AggField(op) == CASE op = 50 -> "me" [] op = 43 -> "parent" [] op = 44 -> "puzzle" [] op = 45 -> "amount"
                  [] op = 46 -> "puzzle_amount" [] op = 47 -> "parent_amount" [] op = 48 -> "parent_puzzle"

(* ------------------------- time-lock arguments -------------------------- *)
\* after-kinds: negative = tautology, oversized = failure; before-kinds: the reverse
LockArg(args, w, before) ==
  IF ~IsAtom(args.l) THEN [k |-> "fail"]
  ELSE LET s == Sanitize(args.l.a, w) IN
       CASE s.k = "ok" -> [k |-> "val", v |-> s.v]
         [] s.k = "malformed" -> [k |-> "fail"]
         [] s.k = "pos" -> (IF before THEN [k |-> "skip"] ELSE [k |-> "fail"])
         [] s.k = "neg" -> (IF before THEN [k |-> "fail"] ELSE [k |-> "skip"])

OptMax(o, v) == IF IsSome(o) THEN Some(Max(Val(o), v)) ELSE Some(v)
OptMin(o, v) == IF IsSome(o) THEN Some(Min(Val(o), v)) ELSE Some(v)

(* ----------------------- one condition (after pre-charge) --------------- *)
ApplyAggSig(in, st, op, args) ==
  IF ~(IsPair(args) /\ IsHash(args.l, 48) /\ IsPair(args.r) /\ IsMsg(args.r.l) /\ (Strict(in) => IsNil(args.r.r)))
  THEN Fail(st, "InvalidCondition")
  ELSE LET pk == args.l.a
           m == args.r.l.a
           st1 == Visit(in, st, IF op = 50 THEN "AggSig50" ELSE IF op = 43 THEN "AggSig43" ELSE IF op = 44 THEN "AggSig44"
                                ELSE IF op = 45 THEN "AggSig45" ELSE IF op = 46 THEN "AggSig46" ELSE IF op = 47 THEN "AggSig47"
                                ELSE IF op = 48 THEN "AggSig48" ELSE "AggSig49", 0)
           pair == [pk |-> pk, msg |-> m]
       IN IF op = AGG_SIG_UNSAFE /\ UnsafeMsgBanned(in, m) THEN Fail(st, "InvalidMessage")
          ELSE IF pk \notin in.validKeys THEN Fail(st, "InvalidPublicKey")
          ELSE LET st2 == IF op = AGG_SIG_UNSAFE THEN [st1 EXCEPT !.ret.unsafe = Append(@, pair)]
                          ELSE [st1 EXCEPT !.cur.agg[AggField(op)] = Append(@, pair)]
               IN IF NoSig(in) THEN st2
                  ELSE [st2 EXCEPT !.ps.pkm = Append(@, [pk |-> pk, msg |-> SignedText(in, op, st.cur, m)])]

ApplyCreateCoin(in, st, args) ==
  IF ~(IsPair(args) /\ IsHash(args.l, 32) /\ IsPair(args.r) /\ IsAtom(args.r.l)) THEN Fail(st, "InvalidCondition")
  ELSE LET s == Sanitize(args.r.l.a, 8)
           tail == args.r.r
           \* hint: first element of the optional third argument when it is an atom of at most 32 bytes
           hint == IF IsPair(tail) /\ IsPair(tail.l) /\ IsAtom(tail.l.l) /\ Len(tail.l.l.a) <= 32 THEN tail.l.l.a ELSE <<>>
           termOk == ~Strict(in) \/ (IF IsPair(tail) THEN IsNil(tail.r) ELSE IsNil(tail))
       IN IF s.k # "ok" THEN Fail(st, "InvalidCoinAmount")
          ELSE IF ~termOk THEN Fail(st, "InvalidCondition")
          ELSE LET st1 == Visit(in, st, "CreateCoin", 0)
                   key == <<args.l.a, s.v>>
               IN IF key \in {<<c.ph, c.amt>> : c \in st1.cur.cc} THEN Fail(st, "DuplicateOutput")
                  ELSE [st1 EXCEPT !.cur.cc = @ \cup {[ph |-> args.l.a, amt |-> s.v, hint |-> hint]},
                                   !.ret.add = Add(@, s.v)]

ApplyMessage(in, st, op, args) ==
  IF ~(IsPair(args) /\ IsPair(args.r) /\ IsMsg(args.r.l)) THEN Fail(st, "InvalidCondition")
  ELSE LET mode == ModeOf(args.l) IN
    IF mode = -1 THEN Fail(st, "InvalidMessageMode")
    ELSE LET srcMode == (mode \div 8) % 8
             dstMode == mode % 8
             other == ParseSpendId(args.r.r, IF op = SEND_MESSAGE THEN dstMode ELSE srcMode)
         IN IF ~other.ok THEN Fail(st, "InvalidCondition")
            ELSE IF Strict(in) /\ ~IsNil(other.rest) THEN Fail(st, "InvalidCondition")
            ELSE LET st1 == Visit(in, st, IF op = SEND_MESSAGE THEN "Send" ELSE "Receive",
                                  IF op = SEND_MESSAGE THEN srcMode ELSE dstMode)
                     st2 == Announce(in, st1)
                     m == IF op = SEND_MESSAGE
                          THEN [src |-> SelfId(srcMode, st.cur), dst |-> other.id, msg |-> args.r.l.a, n |-> 1]
                          ELSE [src |-> other.id, dst |-> SelfId(dstMode, st.cur), msg |-> args.r.l.a, n |-> -1]
                 IN IF Failed(st2) THEN st2 ELSE [st2 EXCEPT !.ps.msgs = Append(@, m)]

ApplyOneArg(in, st, op, args) ==
  IF ~OneArgOk(in, args) THEN Fail(st, "InvalidCondition")
  ELSE LET x == args.l IN
  CASE op = RESERVE_FEE -> (
         IF ~IsAtom(x) \/ Sanitize(x.a, 8).k # "ok" THEN Fail(st, "ReserveFeeConditionFailed")
         ELSE LET st1 == Visit(in, st, "ReserveFee", 0)
                  f == Add(st1.ret.fee, Sanitize(x.a, 8).v)
              IN IF Lt(U64MAX, f) THEN Fail(st, "ReserveFeeConditionFailed") ELSE [st1 EXCEPT !.ret.fee = f]
         )
    [] op = CREATE_COIN_ANNOUNCEMENT -> (
         IF ~IsMsg(x) THEN Fail(st, "InvalidCoinAnnouncement")
         ELSE LET st1 == Announce(in, Visit(in, st, "CoinAnnounce", 0))
              IN IF Failed(st1) THEN st1 ELSE [st1 EXCEPT !.ps.annCoin = @ \cup {<<st.cur.id, x.a>>}]
         )
    [] op = CREATE_PUZZLE_ANNOUNCEMENT -> (
         IF ~IsMsg(x) THEN Fail(st, "InvalidPuzzleAnnouncement")
         ELSE LET st1 == Announce(in, Visit(in, st, "PuzzleAnnounce", 0))
              IN IF Failed(st1) THEN st1 ELSE [st1 EXCEPT !.ps.annPuzzle = @ \cup {<<st.cur.ph, x.a>>}]
         )
    [] op \in {ASSERT_COIN_ANNOUNCEMENT, ASSERT_PUZZLE_ANNOUNCEMENT, ASSERT_CONCURRENT_SPEND, ASSERT_CONCURRENT_PUZZLE} -> (
         IF ~IsHash(x, 32) THEN Fail(st, "AssertFailed")
         ELSE LET st1 == Announce(in, Visit(in, st, "Assert", 0))
              IN IF Failed(st1) THEN st1
                 ELSE CASE op = ASSERT_COIN_ANNOUNCEMENT -> [st1 EXCEPT !.ps.assertCoin = @ \cup {x.a}]
                        [] op = ASSERT_PUZZLE_ANNOUNCEMENT -> [st1 EXCEPT !.ps.assertPuzzle = @ \cup {x.a}]
                        [] op = ASSERT_CONCURRENT_SPEND -> [st1 EXCEPT !.ps.concSpend = @ \cup {x.a}]
                        [] op = ASSERT_CONCURRENT_PUZZLE -> [st1 EXCEPT !.ps.concPuzzle = @ \cup {x.a}]
         )
    [] op = ASSERT_MY_COIN_ID -> (
         IF ~IsHash(x, 32) \/ x.a # st.cur.id THEN Fail(st, "AssertMyCoinIdFailed") ELSE Visit(in, st, "MyCoinId", 0)
         )
    [] op = ASSERT_MY_PARENT_ID -> (
         IF ~IsHash(x, 32) \/ x.a # st.cur.parent THEN Fail(st, "AssertMyParentIdFailed") ELSE Visit(in, st, "MyParentId", 0)
         )
    [] op = ASSERT_MY_PUZZLEHASH -> (
         IF ~IsHash(x, 32) \/ x.a # st.cur.ph THEN Fail(st, "AssertMyPuzzleHashFailed") ELSE Visit(in, st, "MyPuzzleHash", 0)
         )
    [] op = ASSERT_MY_AMOUNT -> (
         IF ~IsAtom(x) \/ Sanitize(x.a, 8).k # "ok" \/ Sanitize(x.a, 8).v # st.cur.amt THEN Fail(st, "AssertMyAmountFailed")
         ELSE Visit(in, st, "MyAmount", 0)
         )
    [] op = ASSERT_MY_BIRTH_SECONDS -> (
         IF ~IsAtom(x) \/ Sanitize(x.a, 8).k # "ok" THEN Fail(st, "AssertMyBirthSecondsFailed")
         ELSE LET v == Sanitize(x.a, 8).v
                  st1 == Visit(in, st, "BirthSeconds", 0)
              IN IF IsSome(st1.cur.bs) /\ Val(st1.cur.bs) # v THEN Fail(st, "AssertMyBirthSecondsFailed")
                 ELSE NotEph([st1 EXCEPT !.cur.bs = Some(v)])
         )
    [] op = ASSERT_MY_BIRTH_HEIGHT -> (
         IF ~IsAtom(x) \/ Sanitize(x.a, 4).k # "ok" THEN Fail(st, "AssertMyBirthHeightFailed")
         ELSE LET v == Sanitize(x.a, 4).v
                  st1 == Visit(in, st, "BirthHeight", 0)
              IN IF IsSome(st1.cur.bh) /\ Val(st1.cur.bh) # v THEN Fail(st, "AssertMyBirthHeightFailed")
                 ELSE NotEph([st1 EXCEPT !.cur.bh = Some(v)])
         )
    [] op = ASSERT_SECONDS_RELATIVE -> (
         LET r == LockArg(args, 8, FALSE) IN
         IF r.k = "fail" THEN Fail(st, "AssertSecondsRelativeFailed")
         ELSE IF r.k = "skip" THEN NotEph(Visit(in, st, "SkipRelative", 0))
         ELSE LET st1 == Visit(in, st, "SecondsRel", 0) IN
              IF IsSome(st1.cur.bsr) /\ Le(Val(st1.cur.bsr), r.v) THEN Fail(st, "ImpossibleSecondsRelativeConstraints")
              ELSE NotEph([st1 EXCEPT !.cur.sr = OptMax(@, r.v)])
         )
    [] op = ASSERT_HEIGHT_RELATIVE -> (
         LET r == LockArg(args, 4, FALSE) IN
         IF r.k = "fail" THEN Fail(st, "AssertHeightRelativeFailed")
         ELSE IF r.k = "skip" THEN NotEph(Visit(in, st, "SkipRelative", 0))
         ELSE LET st1 == Visit(in, st, "HeightRel", 0) IN
              IF IsSome(st1.cur.bhr) /\ Le(Val(st1.cur.bhr), r.v) THEN Fail(st, "ImpossibleHeightRelativeConstraints")
              ELSE NotEph([st1 EXCEPT !.cur.hr = OptMax(@, r.v)])
         )
    [] op = ASSERT_BEFORE_SECONDS_RELATIVE -> (
         LET r == LockArg(args, 8, TRUE) IN
         IF r.k = "fail" THEN Fail(st, "AssertBeforeSecondsRelativeFailed")
         ELSE IF r.k = "skip" THEN NotEph(Visit(in, st, "SkipRelative", 0))
         ELSE LET st1 == Visit(in, st, "BeforeSecondsRel", 0) IN
              IF IsSome(st1.cur.sr) /\ Le(r.v, Val(st1.cur.sr)) THEN Fail(st, "ImpossibleSecondsRelativeConstraints")
              ELSE NotEph([st1 EXCEPT !.cur.bsr = OptMin(@, r.v)])
         )
    [] op = ASSERT_BEFORE_HEIGHT_RELATIVE -> (
         LET r == LockArg(args, 4, TRUE) IN
         IF r.k = "fail" THEN Fail(st, "AssertBeforeHeightRelativeFailed")
         ELSE IF r.k = "skip" THEN NotEph(Visit(in, st, "SkipRelative", 0))
         ELSE LET st1 == Visit(in, st, "BeforeHeightRel", 0) IN
              IF IsSome(st1.cur.hr) /\ Le(r.v, Val(st1.cur.hr)) THEN Fail(st, "ImpossibleHeightRelativeConstraints")
              ELSE NotEph([st1 EXCEPT !.cur.bhr = OptMin(@, r.v)])
         )
    [] op = ASSERT_SECONDS_ABSOLUTE -> (
         LET r == LockArg(args, 8, FALSE) IN
         IF r.k = "fail" THEN Fail(st, "AssertSecondsAbsoluteFailed")
         ELSE IF r.k = "skip" THEN Visit(in, st, "Skip", 0)
         ELSE [Visit(in, st, "SecondsAbs", 0) EXCEPT !.ret.sa = Max(@, r.v)]
         )
    [] op = ASSERT_HEIGHT_ABSOLUTE -> (
         LET r == LockArg(args, 4, FALSE) IN
         IF r.k = "fail" THEN Fail(st, "AssertHeightAbsoluteFailed")
         ELSE IF r.k = "skip" THEN Visit(in, st, "Skip", 0)
         ELSE [Visit(in, st, "HeightAbs", 0) EXCEPT !.ret.ha = Max(@, r.v)]
         )
    [] op = ASSERT_BEFORE_SECONDS_ABSOLUTE -> (
         LET r == LockArg(args, 8, TRUE) IN
         IF r.k = "fail" THEN Fail(st, "AssertBeforeSecondsAbsoluteFailed")
         ELSE IF r.k = "skip" THEN Visit(in, st, "Skip", 0)
         ELSE [Visit(in, st, "BeforeSecondsAbs", 0) EXCEPT !.ret.bsa = OptMin(@, r.v)]
         )
    [] op = ASSERT_BEFORE_HEIGHT_ABSOLUTE -> (
         LET r == LockArg(args, 4, TRUE) IN
         IF r.k = "fail" THEN Fail(st, "AssertBeforeHeightAbsoluteFailed")
         ELSE IF r.k = "skip" THEN Visit(in, st, "Skip", 0)
         ELSE [Visit(in, st, "BeforeHeightAbs", 0) EXCEPT !.ret.bha = OptMin(@, r.v)]
         )

Apply(in, st, op, args) ==
  CASE op \in AggSigOps -> ApplyAggSig(in, st, op, args)
    [] op = CREATE_COIN -> ApplyCreateCoin(in, st, args)
    [] op \in {SEND_MESSAGE, RECEIVE_MESSAGE} -> ApplyMessage(in, st, op, args)
    [] op = REMARK -> Visit(in, st, "Skip", 0)
    [] op = ASSERT_EPHEMERAL ->
         IF Strict(in) /\ ~IsNil(args) THEN Fail(st, "InvalidCondition")
         ELSE [Visit(in, st, "Ephemeral", 0) EXCEPT !.ps.assertEph = @ \cup {st.nspends + 1}]
    [] op = SOFTFORK ->
         IF NoUnknown(in) THEN Fail(st, "InvalidConditionOpcode")
         ELSE IF ~(IsPair(args) /\ IsAtom(args.l) /\ Sanitize(args.l.a, 4).k = "ok") THEN Fail(st, "InvalidSoftforkCost")
         ELSE Charge(Visit(in, st, "Softfork", 0), MulSmall(Sanitize(args.l.a, 4).v, 10000))
    [] op >= 256 ->
         IF NoUnknown(in) THEN Fail(st, "InvalidConditionOpcode")
         ELSE Charge(Visit(in, st, "Softfork", 0), Of(TwoByteCosts[(op % 256) + 1]))
    [] OTHER -> ApplyOneArg(in, st, op, args)

\* one element of the condition list
CondStep(in, st, c) ==
  IF IsAtom(c) THEN Fail(st, "InvalidCondition")
  ELSE LET op == ParseOpcode(c.l) IN
       IF op = -1 THEN
         IF NoUnknown(in) THEN Fail(st, "InvalidConditionOpcode")
         ELSE IF CC(in) THEN Charge(st, GENERIC_COND_COST) ELSE st
       ELSE LET st1 == Charge(st, PreCost(in, op)) IN
            IF Failed(st1) THEN st1 ELSE Apply(in, st1, op, c.r)

(* ------------------------------ spends ---------------------------------- *)
CoinIdOf(parent, ph, amountAtom) == SHA256(parent \o ph \o amountAtom)

NewCur(in, parent, ph, amt, id, ecost) ==
  [parent |-> parent, ph |-> ph, amt |-> amt, id |-> id,
   hr |-> None, sr |-> None, bhr |-> None, bsr |-> None, bh |-> None, bs |-> None, cc |-> {},
   agg |-> [me |-> <<>>, parent |-> <<>>, puzzle |-> <<>>, amount |-> <<>>, puzzle_amount |-> <<>>,
            parent_amount |-> <<>>, parent_puzzle |-> <<>>],
   flags |-> IF Mempool(in) THEN ({DEDUP} \cup (IF IsOdd(amt) THEN {FF} ELSE {})) ELSE {},
   ccost |-> Zero, ecost |-> ecost, counter |-> 0]

\* a spend is (parent puzzle-hash amount conditions . extra)
BeginSpendStep(in, st, s) ==
  IF ~(IsPair(s) /\ IsPair(s.r) /\ IsPair(s.r.r) /\ IsPair(s.r.r.r)) THEN Fail(st, "InvalidCondition")
  ELSE IF LimitSp(in) /\ st.nspends >= MAX_SPENDS_PER_BLOCK THEN Fail(st, "TooManySpends")
  ELSE LET p == s.l  z == s.r.l  a == s.r.r.l  conds == s.r.r.r.l IN
       IF ~IsHash(p, 32) THEN Fail(st, "InvalidParentId")
       ELSE IF ~IsHash(z, 32) THEN Fail(st, "InvalidPuzzleHash")
       ELSE IF ~IsAtom(a) \/ Sanitize(a.a, 8).k # "ok" THEN Fail(st, "InvalidCoinAmount")
       ELSE LET amt == Sanitize(a.a, 8).v
                id == CoinIdOf(p.a, z.a, a.a)
            IN IF id \in RangeOf(st.ps.spentIds) THEN Fail(st, "DoubleSpend")
               ELSE LET \* per-spend CLVM cost: one value for all spends (parse_spends) or one per spend (native generator path)
                        ecost == IF "clvms" \in DOMAIN in THEN in.clvms[st.nspends + 1] ELSE in.clvm
                        st1 == [st EXCEPT !.cur = NewCur(in, p.a, z.a, amt, id, ecost),
                                          !.ps.spentIds = Append(@, id),
                                          !.ps.spentPuzzles = @ \cup {z.a},
                                          !.ret.rem = Add(@, amt),
                                          !.condsLeft = conds, !.ann = ANNOUNCE_LIMIT, !.pc = "cond"]
                    IN IF CC(in) THEN Charge(st1, SPEND_COST) ELSE st1

SumAmounts(S) == LET RECURSIVE Go(_)
                     Go(T) == IF T = {} THEN Zero ELSE LET c == CHOOSE c \in T : TRUE IN Add(c.amt, Go(T \ {c}))
                 IN Go(S)

\* MempoolVisitor.post_spend and appending the finished spend
EndSpendStep(in, st) ==
  LET cur == st.cur
      ff == IF FF \in cur.flags /\ ~\E c \in cur.cc : c.ph = cur.ph /\ c.amt = cur.amt THEN {FF} ELSE {}
      dd == IF DEDUP \in cur.flags /\ Lt(SumAmounts(cur.cc), cur.amt) THEN {DEDUP} ELSE {}
      fin == IF Mempool(in) THEN [cur EXCEPT !.flags = @ \ (ff \cup dd)] ELSE cur
  IN [st EXCEPT !.ret.spends = Append(@, fin), !.nspends = @ + 1, !.cur = NoCur, !.pc = "spend"]

(* --------------------------- deferred checks ---------------------------- *)
IndexOfId(st, id) == CHOOSE i \in DOMAIN st.ps.spentIds : st.ps.spentIds[i] = id

IsEphemeral(st, i) ==
  LET s == st.ret.spends[i] IN
  /\ s.parent \in RangeOf(st.ps.spentIds)
  /\ \E c \in st.ret.spends[IndexOfId(st, s.parent)].cc : c.ph = s.ph /\ c.amt = s.amt

MsgKeys(st) == {<<m.src, m.dst, m.msg>> : m \in RangeOf(st.ps.msgs)}
MsgBalance(st, k) ==
  LET idx == {i \in DOMAIN st.ps.msgs : <<st.ps.msgs[i].src, st.ps.msgs[i].dst, st.ps.msgs[i].msg>> = k}
  IN Cardinality({i \in idx : st.ps.msgs[i].n = 1}) - Cardinality({i \in idx : st.ps.msgs[i].n = -1})

\* MempoolVisitor.post_process: spends referenced by ASSERT_CONCURRENT_SPEND or whose outputs
\* are spent in the same bundle are committed to a specific coin and lose ELIGIBLE_FOR_FF
PostProcess(in, st) ==
  IF ~Mempool(in) THEN st
  ELSE LET ids == RangeOf(st.ps.spentIds)
           clr(i) == LET s == st.ret.spends[i] IN
                     \/ s.id \in st.ps.concSpend
                     \/ \E c \in s.cc : CoinIdOf(s.id, c.ph, Enc(c.amt)) \in ids
       IN [st EXCEPT !.ret.spends = [i \in DOMAIN @ |-> IF clr(i) THEN [@[i] EXCEPT !.flags = @ \ {FF}] ELSE @[i]]]

Validate(st) ==
  LET ret == st.ret  ps == st.ps  ids == RangeOf(ps.spentIds) IN
  IF Lt(ret.rem, ret.add) THEN "MintingCoin"
  ELSE IF Lt(Sub(ret.rem, ret.add), ret.fee) THEN "ReserveFeeConditionFailed"
  ELSE IF IsSome(ret.bha) /\ Le(Val(ret.bha), ret.ha) THEN "ImpossibleHeightAbsoluteConstraints"
  ELSE IF IsSome(ret.bsa) /\ Le(Val(ret.bsa), ret.sa) THEN "ImpossibleSecondsAbsoluteConstraints"
  ELSE IF ~(ps.concSpend \subseteq ids) THEN "AssertConcurrentSpendFailed"
  ELSE IF ~(ps.concPuzzle \subseteq ps.spentPuzzles) THEN "AssertConcurrentPuzzleFailed"
  ELSE IF ~(ps.assertCoin \subseteq {SHA256(a[1] \o a[2]) : a \in ps.annCoin}) THEN "AssertCoinAnnouncementFailed"
  ELSE IF \E i \in ps.assertEph : ~IsEphemeral(st, i) THEN "AssertEphemeralFailed"
  ELSE IF \E i \in ps.assertNotEph : IsEphemeral(st, i) THEN "EphemeralRelativeCondition"
  ELSE IF ~(ps.assertPuzzle \subseteq {SHA256(a[1] \o a[2]) : a \in ps.annPuzzle}) THEN "AssertPuzzleAnnouncementFailed"
  ELSE IF \E k \in MsgKeys(st) : MsgBalance(st, k) # 0 THEN "MessageNotSentOrReceived"
  ELSE ""

FinishStep(in, st) ==
  LET st1 == PostProcess(in, st)
      e == Validate(st1)
  IN IF e # "" THEN Fail(st1, e) ELSE [st1 EXCEPT !.pc = "done"]

(* ------------------------------ the machine ----------------------------- *)
Step(in, st) ==
  CASE st.pc = "begin" ->
         \* the output is (spend-list . future-extensions)
         IF IsAtom(in.tree) THEN Fail(st, "InvalidCondition")
         ELSE [st EXCEPT !.spendsLeft = in.tree.l, !.pc = "spend"]
    [] st.pc = "spend" ->
         IF IsPair(st.spendsLeft) THEN [BeginSpendStep(in, st, st.spendsLeft.l) EXCEPT !.spendsLeft = st.spendsLeft.r]
         ELSE IF IsNil(st.spendsLeft) THEN [st EXCEPT !.pc = "finish"]
         ELSE Fail(st, "InvalidCondition")
    [] st.pc = "cond" ->
         IF IsPair(st.condsLeft) THEN [CondStep(in, st, st.condsLeft.l) EXCEPT !.condsLeft = st.condsLeft.r]
         ELSE IF IsNil(st.condsLeft) THEN EndSpendStep(in, st)
         ELSE Fail(st, "InvalidCondition")
    [] st.pc = "finish" -> FinishStep(in, st)

RECURSIVE RunFrom(_, _)
RunFrom(in, st) == IF st.pc = "done" THEN st ELSE RunFrom(in, Step(in, st))
Run(in) == RunFrom(in, Start(in))

Accepted(st) == st.pc = "done" /\ st.err = ""
CostOf(in, st) == Sub(in.max, st.costLeft)

(* ---------------------- summary in comparable form ---------------------- *)
FlagBits(fs) == (IF DEDUP \in fs THEN 1 ELSE 0) + (IF REL \in fs THEN 2 ELSE 0) + (IF FF \in fs THEN 4 ELSE 0)
=============================================================================
