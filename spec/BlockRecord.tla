---------------------------- MODULE BlockRecord ----------------------------
(* Growth item X02 (DESIGN section 4 item 7): the proof-of-time iteration   *)
(* arithmetic of chia-protocol (pot_iterations.rs) and the helpers of       *)
(* BlockRecord built on it (block_record.rs), as arithmetic definitions     *)
(* over BigNat with explicit "undefined" classes.                            *)
(*                                                                          *)
(* A sub-slot of sub_slot_iters (ssi) VDF iterations is cut into            *)
(* num_sps_sub_slot (n) equal signage-point intervals. A block whose proof  *)
(* was made for signage point idx is infused required_iters (req) after the *)
(* point that lies num_sp_intervals_extra (extra) intervals later; if that  *)
(* point lies beyond the end of the sub-slot the block is an overflow block *)
(* and its infusion point is counted in the next sub-slot (mod ssi).        *)
(*                                                                          *)
(* u8 quantities (n, extra, idx, deficit, min_blocks) are TLC integers in   *)
(* 0..255; u64 / u128 quantities are BigNat. A result is Ok(v) or Undef:    *)
(* division by zero, sub_slot_iters not divisible by n, signage point index *)
(* out of range, required_iters outside 1..interval-1, or a value that      *)
(* leaves its machine type (u8 / u64 / u128, intermediate values included). *)
EXTENDS BigNat

Ok(v)   == [k |-> "ok", v |-> v]
Undef   == [k |-> "err"]
IsOk(r) == r.k = "ok"

FitsU64(a)  == Len(a) <= 8
FitsU128(a) == Len(a) <= 16

\* ------------------------------------------------------------------------
\* BigNat helpers of this module: general product, division with remainder
\* ------------------------------------------------------------------------
\* a * b, both BigNat (schoolbook over the digits of b)
RECURSIVE Mul(_, _)
Mul(a, b) == IF b = <<>> \/ a = <<>> THEN <<>>
             ELSE LET hi == Mul(a, Front(b)) IN
                  Add(IF hi = <<>> THEN <<>> ELSE hi \o <<0>>, MulSmall(a, Last(b)))

\* a divided by a small TLC integer d in 1..2^22: [q |-> BigNat, r |-> integer]
RECURSIVE DivSmallRec(_, _, _, _)
DivSmallRec(a, d, rem, acc) ==
  IF a = <<>> THEN [q |-> Norm(acc), r |-> rem]
  ELSE LET cur == rem * 256 + a[1] IN DivSmallRec(Tail(a), d, cur % d, Append(acc, cur \div d))
DivModSmall(a, d) == DivSmallRec(a, d, 0, <<>>)

\* one quotient digit of the long division: floor(cur / d) for d # 0 and cur < 256 * d.
\* The leading two digits of d and the matching prefix of cur give an upper estimate that is at
\* most 2 too large (Knuth, TAOCP 4.3.1 D); it is corrected downwards by trial multiplication.
RECURSIVE QFix(_, _, _)
QFix(cur, d, k) == IF Le(MulSmall(d, k), cur) THEN k ELSE QFix(cur, d, k - 1)
QDigit(cur, d) ==
  IF Lt(cur, d) THEN 0
  ELSE IF Len(d) <= 2 THEN ToInt(cur) \div ToInt(d)
  ELSE LET s  == Len(d) - 2
           dH == ToInt(SubSeq(d, 1, 2))
           cH == ToInt(SubSeq(cur, 1, Len(cur) - s))
           e  == cH \div dH
       IN QFix(cur, d, IF e > 255 THEN 255 ELSE e)

\* long division in base 256 by a BigNat d # 0: [q |-> BigNat, r |-> BigNat]
RECURSIVE DivRec(_, _, _, _)
DivRec(a, d, rem, acc) ==
  IF a = <<>> THEN [q |-> Norm(acc), r |-> rem]
  ELSE LET cur == Norm(rem \o <<a[1]>>)
           k   == QDigit(cur, d)
       IN DivRec(Tail(a), d, IF k = 0 THEN cur ELSE Sub(cur, MulSmall(d, k)), Append(acc, k))
DivMod(a, d) == DivRec(a, d, <<>>, <<>>)

\* ------------------------------------------------------------------------
\* pot_iterations.rs
\* ------------------------------------------------------------------------
\* length of one signage-point interval: ssi / n, defined only for an exact division
SpIntervalIters(n, ssi) ==
  IF n = 0 THEN Undef
  ELSE LET dm == DivModSmall(ssi, n) IN IF dm.r # 0 THEN Undef ELSE Ok(dm.q)

\* iterations from the start of the sub-slot to signage point idx
SpIters(n, ssi, idx) ==
  IF idx >= n THEN Undef
  ELSE LET iv == SpIntervalIters(n, ssi) IN
       IF ~IsOk(iv) THEN Undef
       ELSE LET p == MulSmall(iv.v, idx) IN IF FitsU64(p) THEN Ok(p) ELSE Undef

\* the infusion point of the block lies in the next sub-slot
IsOverflowBlock(n, extra, idx) ==
  IF idx >= n \/ extra > n THEN Undef ELSE Ok(idx >= n - extra)

\* the un-reduced distance of the infusion point from the start of the sub-slot of the signage point
IpRaw(iv, sp, extra, req) == Add(Add(sp, MulSmall(iv, extra)), req)

\* iterations from the start of ITS sub-slot to the infusion point
IpIters(n, extra, ssi, idx, req) ==
  LET iv == SpIntervalIters(n, ssi)
      sp == SpIters(n, ssi, idx)
  IN IF ~IsOk(iv) \/ ~IsOk(sp) THEN Undef
     ELSE IF iv.v = Zero THEN Undef                       \* sub_slot_iters = 0: remainder by zero
     ELSE IF req = Zero \/ Ge(req, iv.v) THEN Undef       \* required_iters must lie inside one interval
     ELSE LET raw == IpRaw(iv.v, sp.v, extra, req) IN
          IF ~FitsU64(raw) THEN Undef                     \* u64 overflow of an intermediate sum
          ELSE Ok(DivMod(raw, ssi).r)

\* ------------------------------------------------------------------------
\* block_record.rs. A block record b has the fields
\*   total_iters (u128), ssi, req (u64), idx, deficit (u8), overflow, has_ts, has_fcs (BOOLEAN)
\* and the constants record c has n, extra, minb (u8).
\* ------------------------------------------------------------------------
IsTransactionBlock(b) == b.has_ts
FirstInSubSlot(b)     == b.has_fcs
IsChallengeBlock(deficit, minb) == IF minb = 0 THEN Undef ELSE Ok(deficit = minb - 1)

BrSpIters(b, c) == SpIters(c.n, b.ssi, b.idx)
BrIpIters(b, c) == IpIters(c.n, c.extra, b.ssi, b.idx, b.req)

\* total iterations at the start of the sub-slot that contains the infusion point (ip = result of ip_iters)
IpSubOf(total, ip) ==
  IF ~IsOk(ip) THEN Undef
  ELSE IF Lt(total, ip.v) THEN Undef ELSE Ok(Sub(total, ip.v))
IpSubSlotTotalIters(b, c) == IpSubOf(b.total_iters, BrIpIters(b, c))

\* total iterations at the start of the sub-slot that contains the signage point
SpSubOf(ipsub, overflow, ssi) ==
  IF ~IsOk(ipsub) \/ ~overflow THEN ipsub
  ELSE IF Lt(ipsub.v, ssi) THEN Undef ELSE Ok(Sub(ipsub.v, ssi))
SpSubSlotTotalIters(b, c) == SpSubOf(IpSubSlotTotalIters(b, c), b.overflow, b.ssi)

\* total iterations at the signage point
SpTotOf(spsub, sp) ==
  IF ~IsOk(spsub) \/ ~IsOk(sp) THEN Undef
  ELSE LET t == Add(spsub.v, sp.v) IN IF FitsU128(t) THEN Ok(t) ELSE Undef
SpTotalIters(b, c) == SpTotOf(SpSubSlotTotalIters(b, c), BrSpIters(b, c))
=============================================================================
