----------------------------- MODULE MerkleSet -----------------------------
(* C12: the Merkle set of chia_rs (crates/chia-consensus/src/merkle_set.rs,  *)
(* merkle_tree.rs). Keys are 32-byte sequences read as 256 bits, most        *)
(* significant bit of byte 1 first. Everything here is evaluated at the      *)
(* real depth 256 so that hashes and proof bytes are comparable with the     *)
(* implementation; small models embed short keys into 32-byte leaves (see    *)
(* MC_MerkleSet).                                                            *)
(*                                                                           *)
(*   RefRoot(S)        reference root, recursive on the SET of keys          *)
(*   SeqRoot(s)        the partition algorithm on a SEQUENCE (duplicates)    *)
(*   proof terms       E | T(leaf) | R(hash) | M(p, q)   ("R" = truncated)   *)
(*   Ser / Deser       wire format: 0 | 1 leaf32 | 3 hash32 | 2 left right   *)
(*   GenProof(S, x)    the honest prover                                     *)
(*   AuditOk, DepthOk  leaf-position audit, depth limit                      *)
(*   ProofRoot, Lookup                                                       *)
(*   Classify / Validate on bytes, ClassifyTree on terms                     *)
EXTENDS Naturals, Sequences, FiniteSets, Sha

Pow2(n) == CASE n = 0 -> 1 [] n = 1 -> 2 [] n = 2 -> 4 [] n = 3 -> 8
             [] n = 4 -> 16 [] n = 5 -> 32 [] n = 6 -> 64 [] n = 7 -> 128
\* bit i (0..255) of a 32-byte key, MSB of the first byte is bit 0
Bit(k, i) == (k[(i \div 8) + 1] \div Pow2(7 - (i % 8))) % 2

Zero30 == [i \in 1..30 |-> 0]
Blank == [i \in 1..32 |-> 0]
\* node types: "E" empty, "T" terminal, "M" middle, "D" middle whose hash
\* stands for a (collapsed chain ending in a) pair of terminals
TypeCode(t) == CASE t = "E" -> 0 [] t = "T" -> 1 [] OTHER -> 2
H(lt, rt, l, r) == SHA256(Zero30 \o <<TypeCode(lt), TypeCode(rt)>> \o l \o r)
LeafHash(k) == SHA256(<<1>> \o k)

(* ------------------------------------------------------------------------ *)
(* Reference root: collapsed binary trie over a set of keys.                 *)
(* Node(S, d) = <<hash, type>> of the non-empty set S of keys that agree on  *)
(* bits 0..d-1. A one-sided level forwards its child unless the child is a   *)
(* plain middle node, in which case an empty sibling is hashed in.           *)
(* ------------------------------------------------------------------------ *)
RECURSIVE Node(_, _)
Node(S, d) ==
  IF Cardinality(S) = 1 THEN <<CHOOSE k \in S : TRUE, "T">>
  ELSE LET L == {k \in S : Bit(k, d) = 0}
           R == S \ L
       IN IF L = {} \/ R = {} THEN
            LET c == Node(S, d + 1) IN
            IF c[2] = "M"
            THEN (IF L = {} THEN <<H("E", "M", Blank, c[1]), "M">> ELSE <<H("M", "E", c[1], Blank), "M">>)
            ELSE c
          ELSE LET a == Node(L, d + 1)
                   b == Node(R, d + 1)
               IN <<H(a[2], b[2], a[1], b[1]), IF a[2] = "T" /\ b[2] = "T" THEN "D" ELSE "M">>

RootOfNode(n) == IF n[2] = "T" THEN LeafHash(n[1]) ELSE n[1]
RefRoot(S) == IF S = {} THEN Blank ELSE RootOfNode(Node(S, 0))

(* The same computation the way the code does it: on a sequence that may     *)
(* contain duplicates, partitioning by the bit at depth d; keys equal in all *)
(* 256 bits are one key. Canonical == SeqRoot(s) = RefRoot(Range(s)).        *)
RECURSIVE SeqNode(_, _)
SeqNode(s, d) ==
  IF Len(s) = 1 THEN <<s[1], "T">>
  ELSE LET l == SelectSeq(s, LAMBDA k : Bit(k, d) = 0)
           r == SelectSeq(s, LAMBDA k : Bit(k, d) = 1)
       IN IF l = <<>> \/ r = <<>> THEN
            IF d = 255 THEN <<s[1], "T">>
            ELSE LET c == SeqNode(s, d + 1) IN
                 IF c[2] = "M"
                 THEN (IF l = <<>> THEN <<H("E", "M", Blank, c[1]), "M">> ELSE <<H("M", "E", c[1], Blank), "M">>)
                 ELSE c
          ELSE IF d = 255 THEN <<H("T", "T", l[1], r[1]), "D">>
          ELSE LET a == SeqNode(l, d + 1)
                   b == SeqNode(r, d + 1)
               IN <<H(a[2], b[2], a[1], b[1]), IF a[2] = "T" /\ b[2] = "T" THEN "D" ELSE "M">>
SeqRoot(s) == IF s = <<>> THEN Blank ELSE RootOfNode(SeqNode(s, 0))

(* ------------------------------------------------------------------------ *)
(* Proof terms and wire format                                               *)
(* ------------------------------------------------------------------------ *)
PE == [t |-> "E"]
PT(k) == [t |-> "T", v |-> k]
PR(h) == [t |-> "R", v |-> h]
PM(p, q) == [t |-> "M", l |-> p, r |-> q]

RECURSIVE Ser(_)
Ser(p) == CASE p.t = "E" -> <<0>>
            [] p.t = "T" -> <<1>> \o p.v
            [] p.t = "R" -> <<3>> \o p.v
            [] p.t = "M" -> <<2>> \o Ser(p.l) \o Ser(p.r)

\* parse one node starting at byte i (1-based) with `depth` enclosing middle
\* nodes; why = "" on success, else "parse" (bad tag / short input) or "depth"
PFail(w) == [why |-> w, p |-> PE, i |-> 0]
RECURSIVE ParseNode(_, _, _)
ParseNode(b, i, depth) ==
  IF i > Len(b) THEN PFail("parse")
  ELSE LET tag == b[i] IN
    CASE tag = 0 -> [why |-> "", p |-> PE, i |-> i + 1]
      [] tag = 1 -> (IF i + 32 > Len(b) THEN PFail("parse")
                     ELSE [why |-> "", p |-> PT(SubSeq(b, i + 1, i + 32)), i |-> i + 33])
      [] tag = 3 -> (IF i + 32 > Len(b) THEN PFail("parse")
                     ELSE [why |-> "", p |-> PR(SubSeq(b, i + 1, i + 32)), i |-> i + 33])
      [] tag = 2 -> (IF depth > 256 THEN PFail("depth")
                     ELSE LET l == ParseNode(b, i + 1, depth + 1) IN
                          IF l.why # "" THEN l
                          ELSE LET r == ParseNode(b, l.i, depth + 1) IN
                               IF r.why # "" THEN r
                               ELSE [why |-> "", p |-> PM(l.p, r.p), i |-> r.i])
      [] OTHER -> PFail("parse")

\* the whole byte string must be exactly one node
Deser(b) == LET r == ParseNode(b, 1, 0) IN
            IF r.why # "" THEN [why |-> r.why, p |-> PE]
            ELSE IF r.i # Len(b) + 1 THEN [why |-> "trailing", p |-> PE]
            ELSE [why |-> "", p |-> r.p]

\* depth limit on terms (a middle node may have at most 256 enclosing middles)
RECURSIVE DepthOk(_, _)
DepthOk(p, depth) == IF p.t = "M" THEN depth <= 256 /\ DepthOk(p.l, depth + 1) /\ DepthOk(p.r, depth + 1) ELSE TRUE

\* leaf-position audit: a terminal reached by the route `path` (sequence of
\* 0/1, left = 0) must carry a key whose leading bits spell that route
RECURSIVE AuditOk(_, _)
AuditOk(p, path) ==
  CASE p.t = "T" -> \A j \in 1..Len(path) : Bit(p.v, (j - 1) % 256) = path[j]
    [] p.t = "M" -> AuditOk(p.l, Append(path, 0)) /\ AuditOk(p.r, Append(path, 1))
    [] OTHER -> TRUE

\* <<hash, type>> of a proof term. Proofs spell out every trie level, hashes
\* are those of the collapsed trie: (E, D) and (D, E) forward the D child.
\* the node above two nodes a, b (each <<hash, type>>)
Join(a, b) == IF a[2] = "E" /\ b[2] = "D" THEN b
              ELSE IF a[2] = "D" /\ b[2] = "E" THEN a
              ELSE <<H(a[2], b[2], a[1], b[1]), IF a[2] = "T" /\ b[2] = "T" THEN "D" ELSE "M">>
RECURSIVE PNode(_)
PNode(p) ==
  CASE p.t = "E" -> <<Blank, "E">>
    [] p.t = "T" -> <<p.v, "T">>
    [] p.t = "R" -> <<p.v, "M">>
    [] p.t = "M" -> Join(PNode(p.l), PNode(p.r))
ProofRoot(p) == RootOfNode(PNode(p))

\* follow the bits of x down the term: "yes" / "no" / "err" (route ends in a
\* truncated subtree, or leaves the 256-bit key space)
RECURSIVE Lookup(_, _, _)
Lookup(p, x, d) ==
  IF p.t = "M" THEN (IF d > 255 THEN "err"
                     ELSE IF Bit(x, d) = 0 THEN Lookup(p.l, x, d + 1) ELSE Lookup(p.r, x, d + 1))
  ELSE IF p.t = "E" THEN "no"
  ELSE IF p.t = "T" THEN (IF p.v = x THEN "yes" ELSE "no")
  ELSE "err"

\* verdict of a proof term for item x against root: one of
\* "depth" "audit" "root" "err" (all rejections) or "yes" / "no" (accepted)
\* the part of the verdict that does not depend on the item: "" = passes
AuditAndRoot(p, root) ==
  IF ~AuditOk(p, <<>>) THEN "audit"
  ELSE IF ProofRoot(p) # root THEN "root"
  ELSE ""
Structural(p, root) == IF ~DepthOk(p, 0) THEN "depth" ELSE AuditAndRoot(p, root)
ClassifyTree(p, x, root) == LET s == Structural(p, root) IN IF s # "" THEN s ELSE Lookup(p, x, 0)
\* ... and of a byte string: additionally "parse" and "trailing" (Deser has
\* already enforced the depth limit on the term it returns)
Classify(b, x, root) ==
  LET d == Deser(b)
      s == IF d.why # "" THEN d.why ELSE AuditAndRoot(d.p, root)
  IN IF s # "" THEN s ELSE Lookup(d.p, x, 0)
\* the same for a sequence of items (the structural part is evaluated once)
ClassifyMany(b, xs, root) ==
  LET d == Deser(b)
      s == IF d.why # "" THEN d.why ELSE AuditAndRoot(d.p, root)
  IN [i \in DOMAIN xs |-> IF s # "" THEN s ELSE Lookup(d.p, xs[i], 0)]
Accepting(c) == c \in {"yes", "no"}
\* the verdict of validate_merkle_proof: "yes" = Ok(true), "no" = Ok(false), "err"
VerdictOf(c) == IF Accepting(c) THEN c ELSE "err"
Validate(b, x, root) == VerdictOf(Classify(b, x, root))
YesNo(bool) == IF bool THEN "yes" ELSE "no"

(* ------------------------------------------------------------------------ *)
(* Honest prover. The route of x is spelled out level by level; subtrees off *)
(* the route are cut: empty -> E, single key -> T, otherwise R(hash). A      *)
(* subtree of exactly two keys is never cut on the route: its collapsed      *)
(* chain is padded with E siblings down to the level where the keys part.    *)
(* ------------------------------------------------------------------------ *)
RECURSIVE Pad(_, _, _)
Pad(a, b, d) ==
  IF Bit(a, d) # Bit(b, d) THEN (IF Bit(a, d) = 0 THEN PM(PT(a), PT(b)) ELSE PM(PT(b), PT(a)))
  ELSE IF Bit(a, d) = 1 THEN PM(PE, Pad(a, b, d + 1))
  ELSE PM(Pad(a, b, d + 1), PE)

Off(X, d) == IF Cardinality(X) = 1 THEN PT(CHOOSE k \in X : TRUE) ELSE PR(Node(X, d)[1])

RECURSIVE Gen(_, _, _)
Gen(S, x, d) ==
  IF Cardinality(S) = 1 THEN PT(CHOOSE k \in S : TRUE)
  ELSE IF Cardinality(S) = 2 THEN (LET a == CHOOSE k \in S : TRUE IN Pad(a, CHOOSE k \in S : k # a, d))
  ELSE LET L == {k \in S : Bit(k, d) = 0}
           R == S \ L
       IN IF L = {} THEN (IF Bit(x, d) = 0 THEN PM(PE, PR(Node(S, d + 1)[1])) ELSE PM(PE, Gen(S, x, d + 1)))
          ELSE IF R = {} THEN (IF Bit(x, d) = 0 THEN PM(Gen(S, x, d + 1), PE) ELSE PM(PR(Node(S, d + 1)[1]), PE))
          ELSE IF Bit(x, d) = 0 THEN PM(Gen(L, x, d + 1), Off(R, d + 1))
          ELSE PM(Off(L, d + 1), Gen(R, x, d + 1))
GenProof(S, x) == IF S = {} THEN PE ELSE Gen(S, x, 0)

Range(s) == {s[i] : i \in DOMAIN s}
=============================================================================
