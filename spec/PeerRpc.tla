------------------------------ MODULE PeerRpc ------------------------------
(* X06 (growth): request / response routing of chia-client's Peer           *)
(* (crates/chia-client/src/peer.rs).  One record `s` is the whole state;    *)
(* every critical section / public step of the code is one function         *)
(* s -> s' (so that the model-checking spec can interleave them and the     *)
(* generator / trace specs can compose them):                               *)
(*   AllocId   nonce.fetch_add(1)                    (request_raw)          *)
(*   Register  requests.lock().insert(id, sender)    (request_raw)          *)
(*   Send      sink.lock().send(bytes)               (request_raw)          *)
(*   ServerReply  the server puts ANY message on the socket                 *)
(*   Inbound   handle_inbound: route by id / broadcast event / drop         *)
(*   Complete  receiver.await returned; requests.remove(id); typed wrapper  *)
(*   Close     the server closes the socket; the inbound loop ends          *)
(* State: nonce, reqs (request -> control state, id, mailbox `box` = the    *)
(* oneshot channel, result), pending (id -> request whose sender is stored),*)
(* wire (client -> server), inbox (server -> client, in order), events      *)
(* (broadcast), closed, and the ghost `log` of handled inbound messages.    *)
EXTENDS Naturals, Sequences, FiniteSets, TLC
CONSTANT IdMod   \* 65536 in the code (AtomicU16)

EventTypes == {"coin_state_update", "new_peak_wallet", "mempool_items_added", "mempool_items_removed"}
\* request kinds: "ses" = request_ses_info (wrapper request()), "rem" = request_removals (wrapper request_or_reject())
Kinds == {"ses", "rem"}
ReqTy(kind) == IF kind = "ses" THEN "request_ses_info" ELSE "request_removals"
Expect(kind) == IF kind = "ses" THEN "respond_ses_info" ELSE "respond_removals"
HasReject(kind) == kind = "rem"
RejectTy(kind) == "reject_removals_request"

None == <<>>
Some(x) == <<x>>
Dropped == [k |-> "dropped"]
Empty == [k |-> "none"]
Full(m) == [k |-> "msg", m |-> m]

\* a message is [id : None or Some(0..65535), ty, v, good, data]; good = "data is the encoding of a ty body carrying v"
Classify(kind, m) ==
  IF m.ty = Expect(kind) THEN (IF m.good THEN [k |-> "ok", v |-> m.v] ELSE [k |-> "invalid", m |-> m])
  ELSE IF HasReject(kind) /\ m.ty = RejectTy(kind) THEN (IF m.good THEN [k |-> "rejection", v |-> m.v] ELSE [k |-> "invalid", m |-> m])
  ELSE [k |-> "invalid", m |-> m]

S0 == [nonce |-> 0, allocs |-> 0, reqs |-> <<>>, pending |-> <<>>, wire |-> <<>>, inbox |-> <<>>,
       events |-> <<>>, closed |-> FALSE, log |-> <<>>]

NewReq(kind, h) == [st |-> "new", kind |-> kind, h |-> h, id |-> 0, seq |-> 0, regAt |-> 0, box |-> Empty, res |-> Empty]
AddReq(s, r, kind, h) == [s EXCEPT !.reqs = (r :> NewReq(kind, h)) @@ s.reqs]

Without(f, x) == [y \in DOMAIN f \ {x} |-> f[y]]
DropBox(reqs, r) == IF reqs[r].box.k = "none" THEN [reqs EXCEPT ![r].box = Dropped] ELSE reqs

CanAlloc(s, r) == r \in DOMAIN s.reqs /\ s.reqs[r].st = "new"
AllocIdF(s, r) == [s EXCEPT !.reqs[r].st = "alloc", !.reqs[r].id = s.nonce, !.reqs[r].seq = s.allocs,
                            !.nonce = (s.nonce + 1) % IdMod, !.allocs = s.allocs + 1]

CanRegister(s, r) == r \in DOMAIN s.reqs /\ s.reqs[r].st = "alloc"
\* HashMap::insert replaces (and so drops) a sender already stored under the same id
RegisterF(s, r) ==
  LET id == s.reqs[r].id
      rq == IF id \in DOMAIN s.pending THEN DropBox(s.reqs, s.pending[id]) ELSE s.reqs IN
  [s EXCEPT !.reqs = [rq EXCEPT ![r].st = "reg", ![r].regAt = Len(s.log)],
            !.pending = (id :> r) @@ s.pending]

CanSend(s, r) == r \in DOMAIN s.reqs /\ s.reqs[r].st = "reg"
SendF(s, r) ==
  LET q == s.reqs[r] IN
  IF s.closed
  THEN [s EXCEPT !.reqs[r].st = "done", !.reqs[r].res = [k |-> "ws"], !.pending = Without(s.pending, q.id)]
  ELSE [s EXCEPT !.reqs[r].st = "sent", !.wire = Append(s.wire, [r |-> r, id |-> q.id, ty |-> ReqTy(q.kind), h |-> q.h])]

ServerReplyF(s, m) == [s EXCEPT !.inbox = Append(s.inbox, m)]

CanInbound(s) == Len(s.inbox) > 0 /\ ~s.closed
InboundF(s) ==
  LET m == Head(s.inbox)
      rest == [s EXCEPT !.inbox = Tail(s.inbox)] IN
  IF m.ty = "close"
  THEN \* the connection is gone: every waiting request is released (MissingResponse)
       LET RECURSIVE DropAll(_, _)
           DropAll(rq, ids) == IF ids = {} THEN rq ELSE LET i == CHOOSE i \in ids : TRUE IN DropAll(DropBox(rq, s.pending[i]), ids \ {i}) IN
       [rest EXCEPT !.closed = TRUE, !.inbox = <<>>, !.reqs = DropAll(s.reqs, DOMAIN s.pending), !.pending = <<>>]
  ELSE IF m.id # None
  THEN IF m.id[1] \in DOMAIN s.pending
       THEN LET r == s.pending[m.id[1]] IN
            [rest EXCEPT !.pending = Without(s.pending, m.id[1]),
                         !.reqs[r].box = IF s.reqs[r].box.k = "none" THEN Full(m) ELSE s.reqs[r].box,
                         !.log = Append(s.log, [m |-> m, to |-> r])]
       ELSE [rest EXCEPT !.log = Append(s.log, [m |-> m, to |-> 0])]
  ELSE [rest EXCEPT !.events = IF m.ty \in EventTypes /\ m.good THEN Append(s.events, [ty |-> m.ty, v |-> m.v]) ELSE s.events,
                    !.log = Append(s.log, [m |-> m, to |-> 0])]

CanComplete(s, r) == r \in DOMAIN s.reqs /\ s.reqs[r].st = "sent" /\ s.reqs[r].box.k # "none"
CompleteF(s, r) ==
  LET q == s.reqs[r] IN
  [s EXCEPT !.reqs[r].st = "done",
            !.reqs[r].res = (IF q.box.k = "dropped" THEN [k |-> "missing"] ELSE Classify(q.kind, q.box.m)),
            !.pending = Without(s.pending, q.id)]

CloseMsg == [id |-> None, ty |-> "close", v |-> 0, good |-> TRUE, data |-> <<>>]

-----------------------------------------------------------------------------
(* sequential compositions used by the generator and the trace specification *)
RECURSIVE WaveF(_, _)
WaveF(s, rs) == IF rs = <<>> THEN s ELSE WaveF(SendF(RegisterF(AllocIdF(s, Head(rs)), Head(rs)), Head(rs)), Tail(rs))
ReplyF(s, m) == LET t == ServerReplyF(s, m) IN IF CanInbound(t) THEN InboundF(t) ELSE t
RECURSIVE CompleteAllF(_)
CompleteAllF(s) == LET c == {r \in DOMAIN s.reqs : CanComplete(s, r)} IN
                   IF c = {} THEN s ELSE CompleteAllF(CompleteF(s, CHOOSE r \in c : TRUE))

-----------------------------------------------------------------------------
(* properties (state predicates over s) *)
InFlight(s) == {r \in DOMAIN s.reqs : s.reqs[r].st \in {"alloc", "reg", "sent"}}
Diff(a, b) == IF a < b THEN b - a ELSE a - b
\* ids of concurrently pending requests are distinct unless the counter wrapped in between
DistinctIds(s) == \A a, b \in InFlight(s) : (a # b /\ Diff(s.reqs[a].seq, s.reqs[b].seq) < IdMod) => s.reqs[a].id # s.reqs[b].id
NoWrap(s) == s.allocs <= IdMod
\* index of the first handled message carrying r's id after r registered (0 = none)
FirstReply(s, r) ==
  LET c == {i \in DOMAIN s.log : i > s.reqs[r].regAt /\ s.log[i].m.id = Some(s.reqs[r].id)} IN
  IF c = {} THEN 0 ELSE CHOOSE i \in c : \A j \in c : i <= j
Registered(s) == {r \in DOMAIN s.reqs : s.reqs[r].st \in {"reg", "sent", "done"} /\ (s.reqs[r].st = "done" => s.reqs[r].res.k # "ws")}
\* a reply goes to exactly the request pending under its id, which keeps the FIRST one; nobody else gets it
FirstReplyWins(s) ==
  NoWrap(s) => \A r \in Registered(s) :
    LET i == FirstReply(s, r) IN
    IF i = 0 THEN s.reqs[r].box.k \in {"none", "dropped"}
    ELSE s.reqs[r].box.k = "msg" /\ s.reqs[r].box.m = s.log[i].m /\ s.log[i].to = r /\ \A j \in DOMAIN s.log : (j # i) => s.log[j].to # r
Routed(s) == \A i \in DOMAIN s.log :
  LET e == s.log[i] IN
  /\ (e.m.id = None => e.to = 0)                                     \* id-less messages never complete a request
  /\ (e.to # 0 => e.m.id = Some(s.reqs[e.to].id))
  /\ (NoWrap(s) /\ e.to = 0 /\ e.m.id # None) =>                     \* unknown id / duplicate: nothing was waiting
       \A r \in Registered(s) : (s.reqs[r].id = e.m.id[1] /\ s.reqs[r].regAt < i) => FirstReply(s, r) \in 1..(i - 1)
\* typed wrappers
Typed(s) == \A r \in DOMAIN s.reqs : s.reqs[r].st = "done" =>
  LET q == s.reqs[r] IN
  \/ q.res.k = "ws"
  \/ q.box.k = "dropped" /\ q.res.k = "missing"
  \/ /\ q.box.k = "msg" /\ q.res.k \in {"ok", "rejection", "invalid"}
     /\ (q.res.k = "ok" <=> (q.box.m.ty = Expect(q.kind) /\ q.box.m.good))
     /\ (q.res.k = "rejection" <=> (q.kind = "rem" /\ q.box.m.ty = "reject_removals_request" /\ q.box.m.good))
     /\ (q.res.k = "invalid" => q.res.m = q.box.m)
     /\ (q.res.k # "invalid" => q.res.v = q.box.m.v)
RECURSIVE EvOf(_)
EvOf(lg) == IF lg = <<>> THEN <<>>
            ELSE LET m == Head(lg).m IN
                 (IF m.id = None /\ m.ty \in EventTypes /\ m.good THEN <<[ty |-> m.ty, v |-> m.v]>> ELSE <<>>) \o EvOf(Tail(lg))
\* events are broadcast in arrival order, and only id-less well-formed messages of the four event types
EventsInOrder(s) == s.events = EvOf(s.log)
PendingSound(s) == \A id \in DOMAIN s.pending : s.pending[id] \in DOMAIN s.reqs /\ s.reqs[s.pending[id]].id = id
AllProps(s) == DistinctIds(s) /\ FirstReplyWins(s) /\ Routed(s) /\ Typed(s) /\ EventsInOrder(s) /\ PendingSound(s)
=============================================================================
