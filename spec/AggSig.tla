------------------------------- MODULE AggSig -------------------------------
(* C05: symbolic (Dolev-Yao style) model of aggregate signatures.            *)
(* An aggregate signature is the BAG of (public key, message) pairs that     *)
(* were signed (plus a well-formedness tag); it verifies against a list of   *)
(* required pairs iff it is well formed, no required key is infinity /       *)
(* invalid and the two bags are equal (the empty bag is the identity         *)
(* signature). What must be signed is decided by the condition machine:      *)
(* RequiredPairs = the pkm list of Conditions.tla, i.e. per AGG_SIG          *)
(* condition the message followed by the coin attributes selected by the     *)
(* opcode and the network's domain-separation constant for that opcode.      *)
EXTENDS Bundle

BagOf(q) == {<<x, Cardinality({i \in DOMAIN q : q[i] = x})>> : x \in RangeOf(q)}
Verifies(signed, wellformed, required) == wellformed /\ BagOf(signed) = BagOf(required)

\* the bundle as seen by signature-validating entry points (flags without DONT_VALIDATE_SIGNATURE)
SigMachine(e) == Run([SbMachineIn(e) EXCEPT !.flags = @ \ {"DONT_VALIDATE_SIGNATURE"}, !.vis = "empty"])
RequiredPairs(e) == SigMachine(e).ps.pkm
BundleValid(e) == (\A i \in DOMAIN e.runs : e.runs[i].ok) /\ Accepted(SigMachine(e))

\* the contract of make_aggsig_final_message: the messages it yields for the AGG_SIG conditions of the
\* summary are exactly the required messages
\* (the harness obtains the summary through run_spendbundle, which also requires the declared puzzle hashes to match)
FinalMessagesOk(e) == (BundleValid(e) /\ HashesMatch(e)) => BagOf(e.final) = BagOf(RequiredPairs(e))

(* ---- single-point tamperings of a required list (used by MC_AggSig) ---- *)
DropAt(q, i) == [j \in 1..(Len(q) - 1) |-> IF j < i THEN q[j] ELSE q[j + 1]]
DupAt(q, i) == Append(q, q[i])
FlipAt(q, i) == [q EXCEPT ![i].msg = IF @ = <<>> THEN <<1>> ELSE [@ EXCEPT ![Len(@)] = (@ + 1) % 256]]
TruncAt(q, i) == [q EXCEPT ![i].msg = IF @ = <<>> THEN <<0>> ELSE SubSeq(@, 1, Len(@) - 1)]
KeyAt(q, i, k) == [q EXCEPT ![i].pk = k]
=============================================================================
