---------------------------- MODULE Fingerprint ----------------------------
(***************************************************************************)
(* C19, part A: the dedup fingerprint of a spend and the dedup-eligibility *)
(* rule of the mempool visitor.                                            *)
(*                                                                         *)
(* The fingerprint of a condition list is SHA-256 of a PREIMAGE: for every *)
(* condition with a known opcode, in list order, the opcode atom and a     *)
(* fixed number of argument atoms, each FRAMED as a 4-byte big-endian      *)
(* length followed by the bytes. CREATE_COIN contributes four atoms: the   *)
(* opcode, puzzle hash, amount and the hint (the empty atom when there is  *)
(* no hint). Conditions with an unknown opcode are skipped; signature,     *)
(* message and soft-fork conditions cannot be fingerprinted.               *)
(*                                                                         *)
(* The meaning of a condition list is what the condition machine of        *)
(* Conditions.tla derives from it in mempool mode.                         *)
(***************************************************************************)
EXTENDS ConditionsObs

Len4(n) == <<(n \div 16777216) % 256, (n \div 65536) % 256, (n \div 256) % 256, n % 256>>
\* fr = TRUE is the rule; fr = FALSE (no length prefix) exists only to show, in the model
\* checker, that the input menus contain lists that an unframed concatenation would confuse
Chunk(b, fr) == IF fr THEN Len4(Len(b)) \o b ELSE b
NoHint == Len4(0)

FpOneArg == {52} \cup (60..65) \cup (70..75) \cup (80..87)     \* 21 one-argument opcodes
FpNoArg  == {1, 76}                                              \* REMARK, ASSERT_EPHEMERAL

\* the first n elements of list x, which must be atoms: [ok, b (their chunks), rest]
RECURSIVE TakeAtoms(_, _, _)
TakeAtoms(x, n, fr) ==
  IF n = 0 THEN [ok |-> TRUE, b |-> <<>>, rest |-> x]
  ELSE IF ~IsPair(x) THEN [ok |-> FALSE]
  ELSE IF ~IsAtom(x.l) THEN [ok |-> FALSE]
  ELSE LET t == TakeAtoms(x.r, n - 1, fr) IN
       IF ~t.ok THEN t ELSE [ok |-> TRUE, b |-> Chunk(x.l.a, fr) \o t.b, rest |-> t.rest]

\* the hint of a CREATE_COIN: first element of the list that follows the amount, when that
\* element is an atom of at most 32 bytes; otherwise the empty atom
HintChunk(rest, fr) ==
  IF IsPair(rest) /\ IsPair(rest.l) /\ IsAtom(rest.l.l) /\ Len(rest.l.l.a) <= 32
  THEN Chunk(rest.l.l.a, fr) ELSE NoHint

CondChunk(c, fr) ==
  IF IsAtom(c) THEN [k |-> "err", e |-> "InvalidCondition"]
  ELSE LET op == ParseOpcode(c.l)
           n == IF op = CREATE_COIN THEN 3 ELSE IF op \in FpOneArg THEN 2 ELSE 1
           t == TakeAtoms(c, n, fr)
       IN IF op = -1 THEN [k |-> "skip"]
          ELSE IF op \notin ({CREATE_COIN} \cup FpOneArg \cup FpNoArg) THEN [k |-> "err", e |-> "InvalidConditionOpcode"]
          ELSE IF ~t.ok THEN [k |-> "err", e |-> "InvalidCondition"]
          ELSE [k |-> "ok", b |-> IF op = CREATE_COIN THEN t.b \o HintChunk(t.rest, fr) ELSE t.b]

\* [ok |-> TRUE, b |-> bytes] or [ok |-> FALSE, err |-> first error]; any atom ends the list
RECURSIVE PreimageF(_, _)
PreimageF(conds, fr) ==
  IF IsAtom(conds) THEN [ok |-> TRUE, b |-> <<>>]
  ELSE LET h == CondChunk(conds.l, fr) IN
       IF h.k = "err" THEN [ok |-> FALSE, err |-> h.e]
       ELSE LET t == PreimageF(conds.r, fr) IN
            IF ~t.ok THEN t ELSE [ok |-> TRUE, b |-> (IF h.k = "ok" THEN h.b ELSE <<>>) \o t.b]

Preimage(conds) == PreimageF(conds, TRUE)
FP(conds) == SHA256(Preimage(conds).b)

(* --------------------------- dedup eligibility --------------------------- *)
\* stated on the raw condition list; total (a malformed element counts as nothing)
OpOf(c) == IF IsPair(c) THEN ParseOpcode(c.l) ELSE -1
CondSeq(conds) == Elems(conds)
NoSigNoMsg(conds) == \A i \in DOMAIN CondSeq(conds) : OpOf(CondSeq(conds)[i]) \notin (AggSigOps \cup {SEND_MESSAGE, RECEIVE_MESSAGE})
CreatedAmount(c) ==
  IF OpOf(c) = CREATE_COIN /\ IsPair(c.r) /\ IsPair(c.r.r) /\ IsAtom(c.r.r.l) /\ Sanitize(c.r.r.l.a, 8).k = "ok"
  THEN Sanitize(c.r.r.l.a, 8).v ELSE Zero
SumCreated(conds) == SumSeq([i \in DOMAIN CondSeq(conds) |-> CreatedAmount(CondSeq(conds)[i])])
\* a spend may be flagged dedup-eligible exactly when it emits no signature and no message
\* condition and creates at least as much value as it consumes
DedupEligible(conds, amt) == NoSigNoMsg(conds) /\ Le(amt, SumCreated(conds))

(* ------------------------------ mempool mode ----------------------------- *)
MempoolFlags == {"NO_UNKNOWN_CONDS", "STRICT_ARGS_COUNT", "LIMIT_SPENDS", "DONT_VALIDATE_SIGNATURE"}
SpendSx(s) == ListOf(<<Atom(s.parent), Atom(s.ph), Atom(Enc(s.amt)), s.conds>>)
\* spends: sequence of [parent, ph, amt (BigNat), conds]; fork: subset of {"COST_CONDITIONS"}
MempoolIn(spends, fork, consts, vk) ==
  [tree |-> ListOf(<<ListOf([i \in DOMAIN spends |-> SpendSx(spends[i])])>>), flags |-> MempoolFlags \cup fork,
   max |-> <<127, 255, 255, 255, 255, 255, 255, 255>>, clvm |-> Zero, vis |-> "mempool", consts |-> consts, validKeys |-> vk]
\* what the machine derives for the whole bundle (the "parsed conditions")
Parsed(st) == st.ret

(* -------------------- on observed results (trace side) ------------------- *)
ObsDedup(o) == o.flags % 2 = 1
\* one observed spend against the rule: flag, and fingerprint when flagged
ObsSpendOk(conds, o) ==
  /\ ObsDedup(o) = DedupEligible(conds, o.amt)
  /\ ObsDedup(o) => Preimage(conds).ok /\ o.fp = FP(conds)
\* the parsed conditions of one observed spend (costs are not conditions)
ObsParsed(o) == [id |-> o.id, parent |-> o.parent, ph |-> o.ph, amt |-> o.amt, hr |-> o.hr, sr |-> o.sr, bhr |-> o.bhr, bsr |-> o.bsr,
                 bh |-> o.bh, bs |-> o.bs, cc |-> RangeOf(o.cc), ncc |-> Len(o.cc), flags |-> o.flags,
                 me |-> o.me, parent_sigs |-> o.parent_sigs, puzzle |-> o.puzzle, amount |-> o.amount,
                 puzzle_amount |-> o.puzzle_amount, parent_amount |-> o.parent_amount, parent_puzzle |-> o.parent_puzzle]
ObsBundleParsed(r) == [fee |-> r.fee, ha |-> r.ha, sa |-> r.sa, bha |-> r.bha, bsa |-> r.bsa, unsafe |-> r.unsafe]
=============================================================================
