------------------------------ MODULE BlsCache ------------------------------
(* C15: the BLS pairing cache (crates/chia-bls/src/bls_cache.rs) shared by   *)
(* concurrent verifications, at lock granularity.                            *)
(*                                                                           *)
(* Symbolic cryptography. A key is a natural number, Inf (= 0) is the point  *)
(* at infinity; a message is a natural number; a pair is <<key, msg>>.       *)
(* The cache key sha256(pk bytes || msg) is injective, so the abstract cache *)
(* key IS the pair. GT(p) is the opaque pairing value e(pk, H(pk || msg)).   *)
(* A signature is [wf, bag]: wf = "the G2 point is the identity or lies in   *)
(* the subgroup" (Signature::is_valid), bag = the pairs (real keys only)     *)
(* whose individual signatures were added up; the identity is the empty bag. *)
(* Distinct bags of real-key pairs give distinct pairing products.           *)
(*                                                                           *)
(* One action per critical section of BlsCache::aggregate_verify             *)
(* (bls_cache.rs:87-116): Lookup (under the lock), Compute (lock free),      *)
(* Put (under the lock), Final (lock free, aggregate_verify_gt's comparison) *)
(* and the environment's Update / Evict (one lock acquisition each).         *)
(* A thread's result is recorded for every signature of its call's menu      *)
(* `sigs` at once: the signature is read only by the well-formedness test    *)
(* before the first pair (the `wf` field of the call, shared by the menu)    *)
(* and by the final comparison, so the cache behaviour cannot depend on it.  *)
EXTENDS BlsVerify

VARIABLES
  cap,      \* capacity (NonZeroUsize), constant along a behaviour
  cache,    \* sequence of cache keys (= pairs), oldest first
  val,      \* [key in cache -> pairing token]
  call,     \* per thread: [pairs, wf, sigs]
  idx,      \* per thread: index of the pair being processed
  pc,       \* per thread: "lookup" | "compute" | "put" | "final" | "done"
  tmp,      \* per thread: the pairing computed on a miss, not yet stored
  acc,      \* per thread: the pairing tokens collected so far
  verdict,  \* per thread: sequence of booleans aligned with call[t].sigs (<<>> until done)
  env,      \* sequence of environment operations [op, pairs]
  envdone   \* set of indices of env already executed

vars == <<cap, cache, val, call, idx, pc, tmp, acc, verdict, env, envdone>>
Threads == DOMAIN call

------------------------------------------------------------------------------
(* symbolic cryptography: see BlsVerify (Inf, GT, BagOf, NoInf, Real, RefVerdict) *)
\* the comparison made at the end of the cache-assisted path from the collected pairings
FinalVerdict(pairs, a, s) == NoInf(pairs) /\ s.wf /\ BagOf(a) = BagOf(GTs(s.bag))

------------------------------------------------------------------------------
(* the FIFO-bounded map, bls_cache.rs:27 (BlsCacheData::put) *)
Hit(c, p) == \E i \in DOMAIN c : c[i] = p
Remove(c, S) == SelectSeq(c, LAMBDA x : x \notin S)
\* at capacity the oldest entry goes first (even when p is already cached); inserting an
\* existing key replaces its value and moves it to the back (linked_hash_map::insert)
PutSeq(c, n, p) == LET c1 == IF Len(c) = n /\ c # <<>> THEN Tail(c) ELSE c
                   IN Append(Remove(c1, {p}), p)
ValAfter(c2, v, p, g) == [q \in Range(c2) |-> IF q = p THEN g ELSE v[q]]

CurPair(t) == call[t].pairs[idx[t]]
Advance(t) ==
  /\ idx' = [idx EXCEPT ![t] = @ + 1]
  /\ pc' = [pc EXCEPT ![t] = IF idx[t] = Len(call[t].pairs) THEN "final" ELSE "lookup"]

StartPc(c) == IF c.wf /\ c.pairs # <<>> THEN "lookup" ELSE "final"

\* prior: contents left by earlier operations (truthful values); calls; environment operations
St0(n, prior, calls, envops) ==
  [cap |-> n, cache |-> prior, val |-> [q \in Range(prior) |-> GT(q)], call |-> calls,
   idx |-> [t \in DOMAIN calls |-> 1],
   pc |-> [t \in DOMAIN calls |-> StartPc(calls[t])],
   tmp |-> [t \in DOMAIN calls |-> GT(<<Inf, 0>>)],
   acc |-> [t \in DOMAIN calls |-> <<>>],
   verdict |-> [t \in DOMAIN calls |-> <<>>],
   env |-> envops, envdone |-> {}]
InitWith(n, prior, calls, envops) ==
  LET s == St0(n, prior, calls, envops) IN
  /\ cap = s.cap /\ cache = s.cache /\ val = s.val /\ call = s.call /\ idx = s.idx /\ pc = s.pc
  /\ tmp = s.tmp /\ acc = s.acc /\ verdict = s.verdict /\ env = s.env /\ envdone = s.envdone

\* critical section 1 (site 1): a hit takes the cached value and moves on, a miss goes to compute
Lookup(t) ==
  /\ pc[t] = "lookup"
  /\ IF Hit(cache, CurPair(t))
     THEN /\ acc' = [acc EXCEPT ![t] = Append(@, val[CurPair(t)])]
          /\ Advance(t)
     ELSE /\ pc' = [pc EXCEPT ![t] = "compute"]
          /\ UNCHANGED <<acc, idx>>
  /\ UNCHANGED <<cap, cache, val, call, tmp, verdict, env, envdone>>

\* lock free: hash to G2 and pair
Compute(t) ==
  /\ pc[t] = "compute"
  /\ tmp' = [tmp EXCEPT ![t] = GT(CurPair(t))]
  /\ pc' = [pc EXCEPT ![t] = "put"]
  /\ UNCHANGED <<cap, cache, val, call, idx, acc, verdict, env, envdone>>

\* critical section 2 (site 2): store the pairing under the key of the same pair
Put(t) ==
  /\ pc[t] = "put"
  /\ cache' = PutSeq(cache, cap, CurPair(t))
  /\ val' = ValAfter(cache', val, CurPair(t), tmp[t])
  /\ acc' = [acc EXCEPT ![t] = Append(@, tmp[t])]
  /\ Advance(t)
  /\ UNCHANGED <<cap, call, tmp, verdict, env, envdone>>

\* lock free: aggregate_verify_gt's final comparison (and its two early exits)
Final(t) ==
  /\ pc[t] = "final"
  /\ verdict' = [verdict EXCEPT ![t] =
                   [i \in DOMAIN call[t].sigs |-> FinalVerdict(call[t].pairs, acc[t], call[t].sigs[i])]]
  /\ pc' = [pc EXCEPT ![t] = "done"]
  /\ UNCHANGED <<cap, cache, val, call, idx, tmp, acc, env, envdone>>

\* environment (site 3): BlsCache::update with a truthful pairing (stated assumption)
Update(j) ==
  /\ j \in DOMAIN env /\ j \notin envdone /\ env[j].op = "update"
  /\ cache' = PutSeq(cache, cap, env[j].pairs[1])
  /\ val' = ValAfter(cache', val, env[j].pairs[1], GT(env[j].pairs[1]))
  /\ envdone' = envdone \cup {j}
  /\ UNCHANGED <<cap, call, idx, pc, tmp, acc, verdict, env>>

\* environment (site 4): BlsCache::evict removes all named pairs under one lock acquisition
Evict(j) ==
  /\ j \in DOMAIN env /\ j \notin envdone /\ env[j].op = "evict"
  /\ cache' = Remove(cache, Range(env[j].pairs))
  /\ val' = [q \in Range(cache') |-> val[q]]
  /\ envdone' = envdone \cup {j}
  /\ UNCHANGED <<cap, call, idx, pc, tmp, acc, verdict, env>>

ThreadStep(t) == Lookup(t) \/ Compute(t) \/ Put(t) \/ Final(t)
EnvStep(j) == Update(j) \/ Evict(j)
Next == (\E t \in Threads : ThreadStep(t)) \/ (\E j \in DOMAIN env : EnvStep(j))

AllDone == (\A t \in Threads : pc[t] = "done") /\ envdone = DOMAIN env

------------------------------------------------------------------------------
(* properties *)
Bounded == Len(cache) <= cap
NoDup == \A i, j \in DOMAIN cache : cache[i] = cache[j] => i = j
\* every cached value is the pairing of its own preimage: nothing stale or foreign can be read
CacheCoherent == DOMAIN val = Range(cache) /\ \A q \in Range(cache) : val[q] = GT(q)
\* the verdict of every terminated verification is the reference verdict, whatever the
\* capacity, the prior contents, the evictions / updates and the interleaving were
Transparent == \A t \in Threads : pc[t] = "done" =>
                 /\ DOMAIN verdict[t] = DOMAIN call[t].sigs
                 /\ \A i \in DOMAIN call[t].sigs : verdict[t][i] = RefVerdict(call[t].pairs, call[t].sigs[i])
\* every thread always has exactly one enabled action until it is done (no waiting): with
\* weak fairness every verification terminates
Progress == \A t \in Threads : pc[t] # "done" => ENABLED ThreadStep(t)
Termination == <>(\A t \in Threads : pc[t] = "done")
Fair == \A t \in 1..4 : WF_vars(t \in Threads /\ ThreadStep(t))
=============================================================================
