----------------------------- MODULE Generator -----------------------------
(***************************************************************************)
(* Block generators and spend bundles around the CLVM interpreter (C07,    *)
(* C08, C09 and the generator-level parts of C02 / C04).                   *)
(* CLVM execution is an INPUT: the generator run and every (puzzle,        *)
(* solution) run are logged by the harness from clvmr directly (result,    *)
(* cost). The specification covers everything chia_rs does around the      *)
(* interpreter: quote / reference guards, byte or interned base cost,      *)
(* extraction of spends from the output, puzzle hashing, the condition     *)
(* machine per spend, list termination, cost composition and the limit.    *)
(***************************************************************************)
EXTENDS ConditionsObs, ClvmSer

Unbounded == <<127, 255, 255, 255, 255, 255, 255, 255>>     \* a limit that never binds (2^63 - 1)

\* k list items followed by anything (lax list walking: any atom ends a list)
RECURSIVE HasItems(_, _)
HasItems(x, k) == k = 0 \/ (IsPair(x) /\ HasItems(x.r, k - 1))

CondFlagNames == {"NO_UNKNOWN_CONDS", "STRICT_ARGS_COUNT", "COST_CONDITIONS", "LIMIT_SPENDS", "DONT_VALIDATE_SIGNATURE"}

(* The native path (run_block_generator2) as a function of the logged inputs:
   e.prog / e.prog_len / e.prefix / e.nrefs / e.flags / e.max / e.cpb, the oracle e.genrun and e.runs.
   Result: [ok, st (condition machine state), cost, ecost, phs] *)
SpendItems(out) == Elems(out.l)
GenOutOk(e) == e.genrun.ok /\ IsPair(e.genrun.res)
Extractable(e) == \A i \in DOMAIN SpendItems(e.genrun.res) : HasItems(SpendItems(e.genrun.res)[i], 4)
RunsOk(e) == \A i \in DOMAIN e.runs : e.runs[i].ok
PuzzleOf(sp) == sp.r.l
PuzzleHashes(e) == [i \in DOMAIN SpendItems(e.genrun.res) |-> TreeHash(PuzzleOf(SpendItems(e.genrun.res)[i]))]

\* the spends as the condition machine sees them: (parent puzzle-hash amount conditions)
MachineTree(e, phs) ==
  LET items == SpendItems(e.genrun.res)
  IN ListOf(<<ListOf([i \in DOMAIN items |-> ListOf(<<items[i].l, Atom(phs[i]), items[i].r.r.l, e.runs[i].res>>)])>>)

BaseCost(e, F) == IF "INTERNED_GENERATOR" \in F THEN MulSmall(Of(InternedVBytes(e.prog)), ToInt(e.cpb))
                  ELSE MulSmall(Of(e.prog_len), ToInt(e.cpb))

Native(e) ==
  LET F == RangeOf(e.flags)
      simple == "SIMPLE_GENERATOR" \in F
      guardsOk == /\ simple => (e.prefix = <<255, 1>> /\ IsPair(e.prog) /\ e.prog.l = Atom(<<1>>) /\ e.nrefs = 0)
      shapeOk == guardsOk /\ GenOutOk(e) /\ Extractable(e) /\ RunsOk(e) /\ NilTerminated(e.genrun.res.l)
  IN IF ~shapeOk THEN [ok |-> FALSE, why |-> "shape"]
     ELSE LET phs == PuzzleHashes(e)
              in == [tree |-> MachineTree(e, phs), flags |-> F \cap CondFlagNames, max |-> Unbounded, clvm |-> Zero,
                     clvms |-> [i \in DOMAIN e.runs |-> e.runs[i].cost], vis |-> "empty", consts |-> e.consts, validKeys |-> RangeOf(e.vk)]
              st == Run(in)
              exec == Add(e.genrun.cost, SumSeq([i \in DOMAIN e.runs |-> e.runs[i].cost]))
              total == Add(Add(BaseCost(e, F), exec), st.ret.ccost)
              sigOk == NoSig(in) \/ st.ps.pkm = <<>>
          IN IF ~Accepted(st) THEN [ok |-> FALSE, why |-> st.err]
             ELSE IF ~sigOk THEN [ok |-> FALSE, why |-> "sig"]
             ELSE IF Lt(e.max, total) THEN [ok |-> FALSE, why |-> "CostExceeded"]
             ELSE [ok |-> TRUE, st |-> st, cost |-> total, ecost |-> exec, phs |-> phs, in |-> in]

(* ---- C07: agreement of the two execution paths (on the two observed results) ---- *)
SameConditions(a, b) ==   \* a, b: observed summaries; everything except cost / execution-cost attribution
  /\ Len(a.spends) = Len(b.spends)
  /\ \A i \in DOMAIN a.spends :
       LET x == a.spends[i] y == b.spends[i] IN
       /\ x.id = y.id /\ x.parent = y.parent /\ x.ph = y.ph /\ x.amt = y.amt
       /\ x.hr = y.hr /\ x.sr = y.sr /\ x.bhr = y.bhr /\ x.bsr = y.bsr /\ x.bh = y.bh /\ x.bs = y.bs
       /\ RangeOf(x.cc) = RangeOf(y.cc) /\ Len(x.cc) = Len(y.cc)
       /\ BagEq(x.me, y.me) /\ BagEq(x.parent_sigs, y.parent_sigs) /\ BagEq(x.puzzle, y.puzzle) /\ BagEq(x.amount, y.amount)
       /\ BagEq(x.puzzle_amount, y.puzzle_amount) /\ BagEq(x.parent_amount, y.parent_amount) /\ BagEq(x.parent_puzzle, y.parent_puzzle)
       /\ x.ccost = y.ccost
  /\ a.fee = b.fee /\ a.ha = b.ha /\ a.sa = b.sa /\ a.bha = b.bha /\ a.bsa = b.bsa /\ BagEq(a.unsafe, b.unsafe)
  /\ a.ccost = b.ccost /\ a.rem = b.rem /\ a.add = b.add

\* the same, irrespective of the order in which the spends are listed (a generator rebuilt from a list of
\* coin spends lists them in reverse order)
BagSet(q) == {<<x, Cardinality({i \in DOMAIN q : q[i] = x})>> : x \in RangeOf(q)}
SpendNorm(x) == [id |-> x.id, parent |-> x.parent, ph |-> x.ph, amt |-> x.amt, hr |-> x.hr, sr |-> x.sr, bhr |-> x.bhr, bsr |-> x.bsr,
                 bh |-> x.bh, bs |-> x.bs, cc |-> RangeOf(x.cc), ncc |-> Len(x.cc), me |-> BagSet(x.me), parent_sigs |-> BagSet(x.parent_sigs),
                 puzzle |-> BagSet(x.puzzle), amount |-> BagSet(x.amount), puzzle_amount |-> BagSet(x.puzzle_amount),
                 parent_amount |-> BagSet(x.parent_amount), parent_puzzle |-> BagSet(x.parent_puzzle), ccost |-> x.ccost, rel |-> (x.flags \div 2) % 2]
SameConditionsAnyOrder(a, b) ==
  /\ Len(a.spends) = Len(b.spends)
  /\ {SpendNorm(x) : x \in RangeOf(a.spends)} = {SpendNorm(x) : x \in RangeOf(b.spends)}
  /\ a.fee = b.fee /\ a.ha = b.ha /\ a.sa = b.sa /\ a.bha = b.bha /\ a.bsa = b.bsa /\ BagEq(a.unsafe, b.unsafe)
  /\ a.ccost = b.ccost /\ a.rem = b.rem /\ a.add = b.add

\* the legacy path may run out of cost or interpreter resources where the cheaper native path completes
PermittedLegacyFailure(leg) == leg.err = 23 \/ leg.err = 0
Agree(nat, leg) ==
  \/ nat.ok /\ leg.ok /\ SameConditions(nat.r, leg.r) /\ Le(nat.r.cost, leg.r.cost)
  \/ ~nat.ok /\ ~leg.ok
  \/ nat.ok /\ ~leg.ok /\ PermittedLegacyFailure(leg)

(* ---- C09: the trusted view of an accepted block ---- *)
HintOf(c) == HintObs(c.hint)
\* additions: every CREATE_COIN of every spend, as (coin, hint), with the hint rule of validation
ExpectedAdditions(st) ==
  LET sp == st.ret.spends IN
  UNION {{[coin |-> [parent |-> sp[i].id, ph |-> c.ph, amt |-> c.amt], hint |-> HintOf(c)] : c \in sp[i].cc} : i \in DOMAIN sp}
ExpectedRemovals(st) ==
  [i \in DOMAIN st.ret.spends |-> [id |-> st.ret.spends[i].id,
                                   coin |-> [parent |-> st.ret.spends[i].parent, ph |-> st.ret.spends[i].ph, amt |-> st.ret.spends[i].amt]]]
NumAdditions(st) == LET sp == st.ret.spends IN
  LET RECURSIVE G(_)
      G(i) == IF i > Len(sp) THEN 0 ELSE Cardinality(sp[i].cc) + G(i + 1)
  IN G(1)
=============================================================================
