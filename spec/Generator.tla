----------------------------- MODULE Generator -----------------------------
(***************************************************************************)
(* Block generators and spend bundles around the CLVM interpreter (C07,    *)
(* C08, C09 and the generator-level parts of C02 / C04).                   *)
(* CLVM execution is an INPUT: the generator run and every (puzzle,        *)
(* solution) run are logged by the harness from clvmr directly (result,    *)
(* cost). The specification covers everything chia_rs does around the      *)
(* interpreter: quote / reference guards, byte or interned base cost,      *)
(* extraction of spends from the output, puzzle hashing, the condition     *)
(* machine per spend, list termination, cost composition and the limit.    *)
(***************************************************************************)
EXTENDS ConditionsObs, ClvmSer

Unbounded == <<127, 255, 255, 255, 255, 255, 255, 255>>     \* a limit that never binds (2^63 - 1)

\* k list items followed by anything (lax list walking: any atom ends a list)
RECURSIVE HasItems(_, _)
HasItems(x, k) == k = 0 \/ (IsPair(x) /\ HasItems(x.r, k - 1))

CondFlagNames == {"NO_UNKNOWN_CONDS", "STRICT_ARGS_COUNT", "COST_CONDITIONS", "LIMIT_SPENDS", "DONT_VALIDATE_SIGNATURE"}

(* The native path (run_block_generator2) as a function of the logged inputs:
   e.prog / e.prog_len / e.prefix / e.nrefs / e.flags / e.max / e.cpb, the oracle e.genrun and e.runs.
   Result: [ok, st (condition machine state), cost, ecost, phs] *)
SpendItems(out) == Elems(out.l)
GenOutOk(e) == e.genrun.ok /\ IsPair(e.genrun.res)
Extractable(e) == \A i \in DOMAIN SpendItems(e.genrun.res) : HasItems(SpendItems(e.genrun.res)[i], 4)
RunsOk(e) == \A i \in DOMAIN e.runs : e.runs[i].ok
PuzzleOf(sp) == sp.r.l
PuzzleHashes(e) == [i \in DOMAIN SpendItems(e.genrun.res) |-> TreeHash(PuzzleOf(SpendItems(e.genrun.res)[i]))]

\* the spends as the condition machine sees them: (parent puzzle-hash amount conditions)
MachineTree(e, phs) ==
  LET items == SpendItems(e.genrun.res)
  IN ListOf(<<ListOf([i \in DOMAIN items |-> ListOf(<<items[i].l, Atom(phs[i]), items[i].r.r.l, e.runs[i].res>>)])>>)

BaseCost(e, F) == IF "INTERNED_GENERATOR" \in F THEN MulSmall(Of(InternedVBytes(e.prog)), ToInt(e.cpb))
                  ELSE MulSmall(Of(e.prog_len), ToInt(e.cpb))

Native(e) ==
  LET F == RangeOf(e.flags)
      simple == "SIMPLE_GENERATOR" \in F
      guardsOk == /\ simple => (e.prefix = <<255, 1>> /\ IsPair(e.prog) /\ e.prog.l = Atom(<<1>>) /\ e.nrefs = 0)
      shapeOk == guardsOk /\ GenOutOk(e) /\ Extractable(e) /\ RunsOk(e) /\ NilTerminated(e.genrun.res.l)
  IN IF ~shapeOk THEN [ok |-> FALSE, why |-> "shape"]
     ELSE LET phs == PuzzleHashes(e)
              in == [tree |-> MachineTree(e, phs), flags |-> F \cap CondFlagNames, max |-> Unbounded, clvm |-> Zero,
                     clvms |-> [i \in DOMAIN e.runs |-> e.runs[i].cost], vis |-> "empty", consts |-> e.consts, validKeys |-> RangeOf(e.vk)]
              st == Run(in)
              exec == Add(e.genrun.cost, SumSeq([i \in DOMAIN e.runs |-> e.runs[i].cost]))
              total == Add(Add(BaseCost(e, F), exec), st.ret.ccost)
              sigOk == NoSig(in) \/ st.ps.pkm = <<>>
          IN IF ~Accepted(st) THEN [ok |-> FALSE, why |-> st.err]
             ELSE IF ~sigOk THEN [ok |-> FALSE, why |-> "sig"]
             ELSE IF Lt(e.max, total) THEN [ok |-> FALSE, why |-> "CostExceeded"]
             ELSE [ok |-> TRUE, st |-> st, cost |-> total, ecost |-> exec, phs |-> phs, in |-> in]

(* ---- generator arguments and block references ---------------------------------------------- *)
(* A generator is run with the arguments (DESERIALIZER (ref_1 ref_2 ... ref_n)): the referenced  *)
(* block generators as atoms IN THE ORDER GIVEN; a simple generator gets nil. The deserializer   *)
(* program is opaque here (no path of the families below enters it).                             *)
GenArgs(refs, simple) == IF simple THEN Nil ELSE ListOf(<<Nil, ListOf([i \in DOMAIN refs |-> Atom(refs[i])])>>)

\* CLVM environment paths as step sequences (0 = first, 1 = rest); a step into an atom raises
RECURSIVE Walk(_, _)
Walk(t, steps) == IF steps = <<>> THEN [ok |-> TRUE, v |-> t]
                  ELSE IF IsAtom(t) THEN [ok |-> FALSE, v |-> Nil]
                  ELSE Walk(IF Head(steps) = 0 THEN t.l ELSE t.r, Tail(steps))
\* the integer form of a path: steps are the bits from the least significant one, below a leading 1
RECURSIVE PathInt(_, _)
PathInt(steps, w) == IF steps = <<>> THEN w ELSE Head(steps) * w + PathInt(Tail(steps), 2 * w)
\* the k-th (0-based) block reference: second argument, k rests, first
RefSteps(k) == <<1, 0>> \o [i \in 1..k |-> 1] \o <<0>>
RefPath(k) == Atom(<<PathInt(RefSteps(k), 1)>>)          \* k <= 3 keeps the path below 128 (one byte)

(* The reference-selecting generator family: (c (c (c PATH (q . rest)) (q . others)) (q . outrest)).  *)
(* Its value is fixed by the definition of c / q / environment lookup, no interpreter needed: the     *)
(* first spend's parent is the selected block reference.                                              *)
OpC == Atom(<<4>>)
OpQ == Atom(<<1>>)
RefSelProg(k, rest, others, outrest) ==
  ListOf(<<OpC, ListOf(<<OpC, ListOf(<<OpC, RefPath(k), Cons(OpQ, rest)>>), Cons(OpQ, others)>>), Cons(OpQ, outrest)>>)
IsRefSelProg(p) ==
  /\ IsPair(p) /\ p.l = OpC /\ IsPair(p.r) /\ IsPair(p.r.r) /\ IsNil(p.r.r.r)
  /\ LET i1 == p.r.l q3 == p.r.r.l IN
     /\ IsPair(q3) /\ q3.l = OpQ
     /\ IsPair(i1) /\ i1.l = OpC /\ IsPair(i1.r) /\ IsPair(i1.r.r) /\ IsNil(i1.r.r.r)
     /\ LET i2 == i1.r.l q2 == i1.r.r.l IN
        /\ IsPair(q2) /\ q2.l = OpQ
        /\ IsPair(i2) /\ i2.l = OpC /\ IsPair(i2.r) /\ IsPair(i2.r.r) /\ IsNil(i2.r.r.r)
        /\ IsAtom(i2.r.l) /\ IsPair(i2.r.r.l) /\ i2.r.r.l.l = OpQ
RefSelParts(p) == [path |-> p.r.l.r.l.r.l, rest |-> p.r.l.r.l.r.r.l.r, others |-> p.r.l.r.r.l.r, outrest |-> p.r.r.l.r]
\* what running such a generator yields, given the references (in order) and the mode
RefSelRun(p, k, refs, simple) ==
  LET parts == RefSelParts(p)
      w == Walk(GenArgs(refs, simple), RefSteps(k))
  IN [ok |-> w.ok, res |-> Cons(Cons(Cons(w.v, parts.rest), parts.others), parts.outrest)]
\* an event of that family is consistent with the definition: right path, and the logged interpreter run of
\* the generator is the defined value (binds the order in which references reach the generator)
RefSelConsistent(e) ==
  LET simple == "SIMPLE_GENERATOR" \in RangeOf(e.flags)
      run == RefSelRun(e.prog, e.refsel, e.refs, simple)
  IN /\ IsRefSelProg(e.prog)
     /\ RefSelParts(e.prog).path = RefPath(e.refsel)
     /\ e.genrun.ok = run.ok
     /\ e.genrun.ok => e.genrun.res = run.res

(* ---- C07: agreement of the two execution paths (on the two observed results) ---- *)
SameConditions(a, b) ==   \* a, b: observed summaries; everything except cost / execution-cost attribution
  /\ Len(a.spends) = Len(b.spends)
  /\ \A i \in DOMAIN a.spends :
       LET x == a.spends[i] y == b.spends[i] IN
       /\ x.id = y.id /\ x.parent = y.parent /\ x.ph = y.ph /\ x.amt = y.amt
       /\ x.hr = y.hr /\ x.sr = y.sr /\ x.bhr = y.bhr /\ x.bsr = y.bsr /\ x.bh = y.bh /\ x.bs = y.bs
       /\ RangeOf(x.cc) = RangeOf(y.cc) /\ Len(x.cc) = Len(y.cc)
       /\ BagEq(x.me, y.me) /\ BagEq(x.parent_sigs, y.parent_sigs) /\ BagEq(x.puzzle, y.puzzle) /\ BagEq(x.amount, y.amount)
       /\ BagEq(x.puzzle_amount, y.puzzle_amount) /\ BagEq(x.parent_amount, y.parent_amount) /\ BagEq(x.parent_puzzle, y.parent_puzzle)
       /\ x.ccost = y.ccost
  /\ a.fee = b.fee /\ a.ha = b.ha /\ a.sa = b.sa /\ a.bha = b.bha /\ a.bsa = b.bsa /\ BagEq(a.unsafe, b.unsafe)
  /\ a.ccost = b.ccost /\ a.rem = b.rem /\ a.add = b.add

\* the same, irrespective of the order in which the spends are listed (a generator rebuilt from a list of
\* coin spends lists them in reverse order)
BagSet(q) == {<<x, Cardinality({i \in DOMAIN q : q[i] = x})>> : x \in RangeOf(q)}
SpendNorm(x) == [id |-> x.id, parent |-> x.parent, ph |-> x.ph, amt |-> x.amt, hr |-> x.hr, sr |-> x.sr, bhr |-> x.bhr, bsr |-> x.bsr,
                 bh |-> x.bh, bs |-> x.bs, cc |-> RangeOf(x.cc), ncc |-> Len(x.cc), me |-> BagSet(x.me), parent_sigs |-> BagSet(x.parent_sigs),
                 puzzle |-> BagSet(x.puzzle), amount |-> BagSet(x.amount), puzzle_amount |-> BagSet(x.puzzle_amount),
                 parent_amount |-> BagSet(x.parent_amount), parent_puzzle |-> BagSet(x.parent_puzzle), ccost |-> x.ccost, rel |-> (x.flags \div 2) % 2]
SameConditionsAnyOrder(a, b) ==
  /\ Len(a.spends) = Len(b.spends)
  /\ {SpendNorm(x) : x \in RangeOf(a.spends)} = {SpendNorm(x) : x \in RangeOf(b.spends)}
  /\ a.fee = b.fee /\ a.ha = b.ha /\ a.sa = b.sa /\ a.bha = b.bha /\ a.bsa = b.bsa /\ BagEq(a.unsafe, b.unsafe)
  /\ a.ccost = b.ccost /\ a.rem = b.rem /\ a.add = b.add

\* the legacy path may run out of cost or interpreter resources where the cheaper native path completes
\* ("resource": the harness's classification of the error: cost exceeded, out of memory, too many atoms / pairs, stack limits)
PermittedLegacyFailure(leg) == leg.err = 23 \/ ("resource" \in DOMAIN leg /\ leg.resource)
Agree(nat, leg) ==
  \/ nat.ok /\ leg.ok /\ SameConditions(nat.r, leg.r) /\ Le(nat.r.cost, leg.r.cost)
  \/ ~nat.ok /\ ~leg.ok
  \/ nat.ok /\ ~leg.ok /\ PermittedLegacyFailure(leg)

(* ---- the raw condition listing of get_coinspends_with_conditions_for_trusted_block (run_block_generator.rs:432) ---- *)
(* Per spend, the puzzle output is walked with lax list termination. A condition is listed when it is a pair whose     *)
(* first element is a "small number" (clvmr small_number: canonical, non-negative, below 2^26); its arguments are the  *)
(* first six ATOMS among its remaining elements (pairs are passed over and do not count); a condition with an          *)
(* argument atom of 1024 bytes or more among those examined is dropped as a whole; once 1024 conditions of a spend     *)
(* are listed only AGG_SIG_* and CREATE_COIN are still added.                                                          *)
SmallNumber(x) ==
  IF ~IsAtom(x) THEN [ok |-> FALSE, v |-> 0]
  ELSE LET b == x.a  n == Len(x.a) IN
       IF n = 0 THEN [ok |-> TRUE, v |-> 0]
       ELSE IF n > 4 \/ (n = 1 /\ b[1] = 0) \/ b[1] >= 128 \/ (n >= 2 /\ b[1] = 0 /\ b[2] < 128) \/ (n = 4 /\ b[1] > 3)
            THEN [ok |-> FALSE, v |-> 0]
            ELSE [ok |-> TRUE, v |-> ToInt(b)]
ListingMaxArgs == 6
ListingMaxAtom == 1024
ListingSoftCap == 1024
ListingHighPriority(op) == op \in 43..51
RECURSIVE ListingArgs(_, _)
ListingArgs(items, acc) ==
  IF items = <<>> \/ Len(acc) = ListingMaxArgs THEN [ok |-> TRUE, args |-> acc]
  ELSE IF IsAtom(Head(items))
       THEN (IF Len(Head(items).a) >= ListingMaxAtom THEN [ok |-> FALSE, args |-> <<>>]
             ELSE ListingArgs(Tail(items), Append(acc, Head(items).a)))
       ELSE ListingArgs(Tail(items), acc)
ListingEntry(c) ==
  IF IsAtom(c) THEN [keep |-> FALSE, op |-> 0, args |-> <<>>]
  ELSE LET o == SmallNumber(c.l)
           a == ListingArgs(Elems(c.r), <<>>)
       IN [keep |-> o.ok /\ a.ok, op |-> o.v, args |-> a.args]
RECURSIVE ListingFold(_, _)
ListingFold(items, acc) ==
  IF items = <<>> THEN acc
  ELSE LET e == ListingEntry(Head(items))
       IN ListingFold(Tail(items),
            IF e.keep /\ (Len(acc) < ListingSoftCap \/ ListingHighPriority(e.op)) THEN Append(acc, [op |-> e.op, args |-> e.args]) ELSE acc)
ListingOfConds(res) == ListingFold(Elems(res), <<>>)

\* what the listing must have in common with full validation on an accepted block: every created coin of a spend is
\* listed, and nothing else is listed under CREATE_COIN. (No such clause holds for AGG_SIG_*: validation admits signature
\* messages of up to 1024 bytes INCLUSIVE while the listing drops a condition with an argument of 1024 bytes or more, so
\* an accepted AGG_SIG_ME with a 1024-byte message is absent from the listing - recorded as an observation, DESIGN 9.7 X10.)
ListingCoins(L) == {<<L[j].args[1], Norm(L[j].args[2])>> : j \in {k \in DOMAIN L : L[k].op = 51 /\ Len(L[k].args) >= 2}}
ListingCount(L, op) == Cardinality({k \in DOMAIN L : L[k].op = op})
ListingCoversValidated(L, sp) ==
  /\ ListingCoins(L) = {<<c.ph, c.amt>> : c \in sp.cc}
  /\ ListingCount(L, 51) = Cardinality(sp.cc)

(* ---- C09: the trusted view of an accepted block ---- *)
HintOf(c) == HintObs(c.hint)
\* additions: every CREATE_COIN of every spend, as (coin, hint), with the hint rule of validation
ExpectedAdditions(st) ==
  LET sp == st.ret.spends IN
  UNION {{[coin |-> [parent |-> sp[i].id, ph |-> c.ph, amt |-> c.amt], hint |-> HintOf(c)] : c \in sp[i].cc} : i \in DOMAIN sp}
ExpectedRemovals(st) ==
  [i \in DOMAIN st.ret.spends |-> [id |-> st.ret.spends[i].id,
                                   coin |-> [parent |-> st.ret.spends[i].parent, ph |-> st.ret.spends[i].ph, amt |-> st.ret.spends[i].amt]]]
NumAdditions(st) == LET sp == st.ret.spends IN
  LET RECURSIVE G(_)
      G(i) == IF i > Len(sp) THEN 0 ELSE Cardinality(sp[i].cc) + G(i + 1)
  IN G(1)
=============================================================================
