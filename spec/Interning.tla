----------------------------- MODULE Interning -----------------------------
(* Growth item X04 (DESIGN section 4 item 3): the interned-generator cost    *)
(* model.                                                                    *)
(*   crates/chia-consensus/src/generator_cost.rs     interned_vbytes         *)
(*   clvmr serde/intern.rs                           intern_tree(_limited)   *)
(*   crates/chia-consensus/src/build_interned_block.rs InternedBlockBuilder  *)
(*   run_block_generator.rs:230 / spendbundle_conditions.rs:55  base cost    *)
(*                       under ConsensusFlags::INTERNED_GENERATOR            *)
(*                                                                           *)
(* Allocator model: a NODE TABLE. t[i] is an atom [a |-> bytes] or a pair    *)
(* [l |-> j, r |-> k] with j, k < i (append-only allocator: children precede *)
(* parents, any amount of sharing, duplicates and unreachable garbage).      *)
(*                                                                           *)
(* InternT(t, root) is the hash-consing pass of intern_tree: every node      *)
(* reachable from root gets an interned id; an atom is new iff no earlier    *)
(* atom has the same BYTES, a pair is new iff no earlier pair has the same   *)
(* pair of INTERNED children. Result: the sequence of unique atoms and the   *)
(* sequence of unique pairs.  VBytesOf = generator_cost.rs:                  *)
(*      atom_bytes + 2 * atom_count + 3 * pair_count                         *)
(* (atom_bytes = sum of the byte lengths of the unique atoms; the empty atom *)
(* weighs 2, a one-byte atom 3, a pair 3).                                   *)
(*                                                                           *)
(* Value level: ClvmSer!InternedVBytes(x) (distinct subtrees of the unfolded *)
(* tree). The model checker shows that the two coincide on every table, so   *)
(* the size is a function of the VALUE Unfold(t, root): sharing, duplicates, *)
(* allocation order and garbage in the table are irrelevant.                 *)
(*                                                                           *)
(* Builder: the interned block builder does NOT maintain the exact size      *)
(* incrementally. It accumulates, per accepted spend, the size of the spend  *)
(* item interned IN ISOLATION plus 3 (the cons that links it), and adds the  *)
(* constant 11 of the wrapper (q . (LIST)). By the triangle inequality this  *)
(* is an upper bound of the exact size that finalize() computes from         *)
(* scratch; the two are equal only for the empty block (every spend item and *)
(* the wrapper contain the nil atom, so the estimate exceeds the exact size  *)
(* by at least 2 per spend).                                                 *)
EXTENDS ClvmSer, Integers, TLC
SeqX == INSTANCE SequencesExt   \* (named: its Cons clashes with SExp!Cons)
FSX == INSTANCE FiniteSetsExt

\* ------------------------------------------------------------ node tables
IsANode(nd) == "a" \in DOMAIN nd
IsPNode(nd) == "l" \in DOMAIN nd
ANode(b)    == [a |-> b]
PNode(j, k) == [l |-> j, r |-> k]

WellFormedT(t) == \A i \in DOMAIN t : IsPNode(t[i]) => (t[i].l \in 1..(i - 1) /\ t[i].r \in 1..(i - 1))

RECURSIVE Unfold(_, _)
Unfold(t, n) == IF IsANode(t[n]) THEN Atom(t[n].a) ELSE Cons(Unfold(t, t[n].l), Unfold(t, t[n].r))

\* marks of the nodes reachable from root: one downward sweep (children have smaller indices)
RECURSIVE ReachDown(_, _, _)
ReachDown(t, i, m) ==
  IF i = 0 THEN m
  ELSE IF m[i] /\ IsPNode(t[i]) THEN ReachDown(t, i - 1, [m EXCEPT ![t[i].l] = TRUE, ![t[i].r] = TRUE])
  ELSE ReachDown(t, i - 1, m)
Reach(t, root) == ReachDown(t, root, [i \in 1..root |-> i = root])

\* ------------------------------------------------------------ intern_tree
IndexOf(s, x) == IF \E k \in DOMAIN s : s[k] = x THEN CHOOSE k \in DOMAIN s : s[k] = x ELSE 0

\* interned ids: k > 0 = k-th unique atom, k < 0 = (-k)-th unique pair, 0 = not reachable
InternEmpty == [atoms |-> <<>>, pairs |-> <<>>, id |-> <<>>]
InternT(t, root) ==
  LET mark == Reach(t, root)
      Step(st, i) ==
        IF ~mark[i] THEN [st EXCEPT !.id = Append(@, 0)]
        ELSE IF IsANode(t[i]) THEN
          (LET k == IndexOf(st.atoms, t[i].a) IN
           IF k # 0 THEN [st EXCEPT !.id = Append(@, k)]
           ELSE [atoms |-> Append(st.atoms, t[i].a), pairs |-> st.pairs, id |-> Append(st.id, Len(st.atoms) + 1)])
        ELSE
          (LET key == <<st.id[t[i].l], st.id[t[i].r]>>
               k == IndexOf(st.pairs, key) IN
           IF k # 0 THEN [st EXCEPT !.id = Append(@, 0 - k)]
           ELSE [atoms |-> st.atoms, pairs |-> Append(st.pairs, key), id |-> Append(st.id, 0 - (Len(st.pairs) + 1))])
  IN SeqX!FoldLeft(Step, InternEmpty, [i \in 1..root |-> i])

\* ------------------------------------------------------------ generator_cost.rs
AtomVB == 2      \* per unique atom, plus its bytes
PairVB == 3      \* per unique pair
SumLenSeq(s) == SeqX!FoldLeft(LAMBDA acc, b : acc + Len(b), 0, s)
VBytesOf(it) == SumLenSeq(it.atoms) + AtomVB * Len(it.atoms) + PairVB * Len(it.pairs)
VBytesT(t, root) == VBytesOf(InternT(t, root))

\* The same size in linear time, for the big tables of recorded traces: a unique pair is identified by its
\* tree hash (SHA-256 is assumed collision free), a unique atom by its bytes. MC_Interning checks
\* VBytesH = VBytesT on every small table.
NodeHashes(t) == SeqX!FoldLeft(LAMBDA acc, nd : Append(acc, IF IsANode(nd) THEN SHA256(<<1>> \o nd.a)
                                                             ELSE SHA256(<<2>> \o acc[nd.l] \o acc[nd.r])), <<>>, t)
VBytesHW(t, h, root) ==
  LET m == Reach(t, root)
      atoms == {t[i].a : i \in {j \in 1..root : m[j] /\ IsANode(t[j])}}
      pairs == {h[i] : i \in {j \in 1..root : m[j] /\ IsPNode(t[j])}} IN
  FSX!FoldSet(LAMBDA b, acc : acc + Len(b), 0, atoms) + AtomVB * Cardinality(atoms) + PairVB * Cardinality(pairs)
VBytesH(t, root) == VBytesHW(t, NodeHashes(t), root)

\* the interned result is itself a well-formed table without duplicates
NoDupSeq(s) == \A i, j \in DOMAIN s : s[i] = s[j] => i = j
InternedOK(it) == /\ NoDupSeq(it.atoms) /\ NoDupSeq(it.pairs)
                  /\ \A k \in DOMAIN it.pairs : \A c \in {it.pairs[k][1], it.pairs[k][2]} :
                       c # 0 /\ (c > 0 => c <= Len(it.atoms)) /\ (c < 0 => 0 - c < k)

\* ------------------------------------------------------------ value level
VB(x) == InternedVBytes(x)                \* spec/lib/ClvmSer.tla
WeightOf(y) == IF IsAtom(y) THEN Len(y.a) + AtomVB ELSE PairVB
RECURSIVE WeightSet(_)
WeightSet(S) == IF S = {} THEN 0 ELSE LET y == CHOOSE z \in S : TRUE IN WeightOf(y) + WeightSet(S \ {y})
\* closed form without interning: every OCCURRENCE of a node counts
RECURSIVE TreeWeight(_)
TreeWeight(x) == IF IsAtom(x) THEN Len(x.a) + AtomVB ELSE PairVB + TreeWeight(x.l) + TreeWeight(x.r)
RECURSIVE Occurrences(_)
Occurrences(x) == IF IsAtom(x) THEN 1 ELSE 1 + Occurrences(x.l) + Occurrences(x.r)
RECURSIVE PairCount(_)
PairCount(x) == IF IsAtom(x) THEN 0 ELSE 1 + PairCount(x.l) + PairCount(x.r)
NoRepeat(x) == Occurrences(x) = Cardinality(SubTrees(x))
\* how much heavier an atom is than its classic serialisation (negative from 8192 bytes on)
AtomSlack(b) == Len(b) + AtomVB - Len(SerAtom(b))
RECURSIVE SlackSum(_)
SlackSum(x) == IF IsAtom(x) THEN AtomSlack(x.a) ELSE SlackSum(x.l) + SlackSum(x.r)
RECURSIVE MaxAtomLen(_)
MaxAtomLen(x) == IF IsAtom(x) THEN Len(x.a) ELSE LET a == MaxAtomLen(x.l) b == MaxAtomLen(x.r) IN IF a > b THEN a ELSE b

\* (b) relation to the classic serialised length
ClosedForm(x)    == TreeWeight(x) = SerLen(x) + 2 * PairCount(x) + SlackSum(x)
BelowTreeWeight(x) == VB(x) <= TreeWeight(x) /\ (VB(x) = TreeWeight(x) <=> NoRepeat(x))
SerBounds(x)     == /\ VB(x) <= 3 * SerLen(x)
                    /\ (NoRepeat(x) /\ MaxAtomLen(x) < 8192) => VB(x) >= SerLen(x)
\* the three laws of (b) with the size and the number of distinct subtrees evaluated once (big recorded trees)
ValueLaws(x, vb) ==
  LET tw == TreeWeight(x)
      norep == Occurrences(x) = Cardinality(SubTrees(x))
      sl == SerLen(x) IN
  /\ tw = sl + 2 * PairCount(x) + SlackSum(x)
  /\ vb <= tw /\ (vb = tw <=> norep)
  /\ vb <= 3 * sl
  /\ (norep /\ MaxAtomLen(x) < 8192) => vb >= sl
\* (c) the triangle inequality, with the exact defect, and monotonicity
Triangle(A, B)   == LET c == VB(Cons(A, B)) IN
                    /\ c <= VB(A) + VB(B) + PairVB
                    /\ c = VB(A) + VB(B) + PairVB - WeightSet(SubTrees(A) \cap SubTrees(B))
                    /\ c >= VB(A) + PairVB /\ c >= VB(B) + PairVB

\* unshared allocation of a tree (every occurrence gets its own node), left or right child first
RECURSIVE AllocTree(_, _, _)
AllocTree(t, x, rightFirst) ==
  IF IsAtom(x) THEN [t |-> Append(t, ANode(x.a)), n |-> Len(t) + 1]
  ELSE IF rightFirst THEN
    (LET r == AllocTree(t, x.r, rightFirst) l == AllocTree(r.t, x.l, rightFirst) IN
     [t |-> Append(l.t, PNode(l.n, r.n)), n |-> Len(l.t) + 1])
  ELSE
    (LET l == AllocTree(t, x.l, rightFirst) r == AllocTree(l.t, x.r, rightFirst) IN
     [t |-> Append(r.t, PNode(l.n, r.n)), n |-> Len(r.t) + 1])

\* (q . (() . T)): a generator that yields no spends and carries T as dead weight; run_block_generator2
\* charges the interned size of the WHOLE program
WrapDead(x) == Cons(Atom(<<1>>), Cons(Nil, x))
WrapDeadT(t, root) == LET n == Len(t) IN [t |-> t \o <<ANode(<<1>>), ANode(<<>>), PNode(n + 2, root), PNode(n + 1, n + 3)>>, n |-> n + 4]
QuoteCost == 20     \* CLVM cost of running (q . X)

\* ------------------------------------------------------------ build_interned_block.rs
WrapperVB        == 11          \* WRAPPER_VBYTES: (q . (LIST)) = atoms 1 and nil (3 + 2) and two pairs
ConsVB           == 3           \* COST_CONS
MinCostThreshold == 6000000
MaxSkippedItems  == 6

\* a spend = [parent, puzzle, amount, solution]: parent / amount atoms (bytes), puzzle / solution trees
ItemTree(s) == ListOf(<<Atom(s.parent), s.puzzle, Atom(s.amount), s.solution>>)
\* spends are PREPENDED: the spend added last is the first list element
RECURSIVE SpendList(_)
SpendList(sp) == IF sp = <<>> THEN Nil ELSE Cons(ItemTree(sp[Len(sp)]), SpendList(SubSeq(sp, 1, Len(sp) - 1)))
GenTree(sp) == Cons(Atom(<<1>>), Cons(SpendList(sp), Nil))

IsoVB(s) == VB(ItemTree(s)) + ConsVB                   \* spend_vbytes()
SumIso(sp) == SeqX!FoldLeft(LAMBDA acc, s : acc + IsoVB(s), 0, sp)
EstVB(sp) == WrapperVB + SumIso(sp)                    \* what cost() charges, in vbytes
ExactVB(sp) == VB(GenTree(sp))                         \* what finalize() charges, in vbytes
Flatten(batch) == SeqX!FoldLeft(LAMBDA acc, b : acc \o b, <<>>, batch)

\* builder state: accepted spends, accumulated isolated vbytes, non-byte cost, skipped counter
B0 == [acc |-> <<>>, est |-> 0, block |-> QuoteCost, skipped |-> 0]
CostOf(cfg, b) == b.est * cfg.cpb + WrapperVB * cfg.cpb + b.block           \* cost()
\* sp = the spends of the batch (all bundles concatenated), new = their accumulated isolated vbytes
AddResultN(cfg, b, sp, new, declared) ==
  LET cur == CostOf(cfg, b)
      rej == [b EXCEPT !.skipped = @ + 1] IN
  IF cur + MinCostThreshold > cfg.max THEN [b |-> b, added |-> FALSE, done |-> TRUE, exit |-> "full"]
  ELSE IF cur + declared > cfg.max THEN [b |-> rej, added |-> FALSE, done |-> rej.skipped > MaxSkippedItems, exit |-> "pre"]
  ELSE IF cur + new * cfg.cpb + declared > cfg.max THEN [b |-> rej, added |-> FALSE, done |-> rej.skipped > MaxSkippedItems, exit |-> "rollback"]
  ELSE LET b2 == [acc |-> b.acc \o sp, est |-> b.est + new, block |-> b.block + declared, skipped |-> b.skipped] IN
       [b |-> b2, added |-> TRUE, done |-> CostOf(cfg, b2) + MinCostThreshold > cfg.max, exit |-> "accept"]
AddResult(cfg, b, batch, declared) == AddResultN(cfg, b, Flatten(batch), SumIso(Flatten(batch)), declared)
FinalCost(cfg, b) == ExactVB(b.acc) * cfg.cpb + b.block                      \* finalize()

\* (d) what the accumulation is, and how it relates to interning the final tree from scratch
EstIsSum(b)     == b.est = SumIso(b.acc)
EstUpper(b)     == /\ EstVB(b.acc) >= ExactVB(b.acc) + 2 * Len(b.acc)
                   /\ (EstVB(b.acc) = ExactVB(b.acc) <=> b.acc = <<>>)
\* every accepted spend raises the exact size by at least one cons and at most by its isolated size
ExactMonotone(sp) == \A k \in 1..Len(sp) :
                       LET before == ExactVB(SubSeq(sp, 1, k - 1)) after == ExactVB(SubSeq(sp, 1, k)) IN
                       after >= before + ConsVB /\ after <= before + IsoVB(sp[k])

\* the allocator of the builder: NIL and ONE are nodes 1 and 2; every spend item is allocated unshared,
\* then consed onto the list. Garbage left behind by a rejected batch is never reachable.
BuilderTable0 == [t |-> <<ANode(<<>>), ANode(<<1>>)>>, list |-> 1]
RECURSIVE AllocSpends(_, _)
AllocSpends(bt, sp) ==
  IF sp = <<>> THEN bt
  ELSE LET it == AllocTree(bt.t, ItemTree(sp[1]), FALSE) IN
       AllocSpends([t |-> Append(it.t, PNode(it.n, bt.list)), list |-> Len(it.t) + 1], Tail(sp))
FinalTable(bt) == LET n == Len(bt.t) IN [t |-> bt.t \o <<PNode(bt.list, 1), PNode(2, n + 1)>>, n |-> n + 2]
=============================================================================
