----------------------------- MODULE Sha256Def -----------------------------
(* X08 - a PURE TLA+ definition of SHA-256 (FIPS 180-4): padding (5.1.1),    *)
(* parsing (5.2.1), message schedule and compression (6.2.2). No Java        *)
(* override, no Bitwise module: only Naturals and Sequences. TLC integers    *)
(* are 32-bit signed, so a 32-bit word is a pair <<hi, lo>> of 16-bit limbs. *)
(* Bitwise XOR / AND on a limb go through 16 x 16 nibble tables that are     *)
(* themselves defined bit by bit (XorN, AndN). The constants K and H0 are    *)
(* the FIPS 180-4 4.2.2 / 5.3.3 values (first 32 bits of the fractional      *)
(* parts of the cube / square roots of the first 64 / 8 primes).             *)
(* MC_Sha256Def checks SHA256Def = Sha!SHA256 (the Java override used by     *)
(* every other specification) on the NIST vectors, every length 0..130 and   *)
(* seeded pseudo-random messages: the override leaves the trusted base.      *)
EXTENDS Naturals, Sequences

Pow2 == <<1, 2, 4, 8, 16, 32, 64, 128, 256, 512, 1024, 2048, 4096, 8192, 16384, 32768, 65536>>
P2(n) == Pow2[n + 1]

\* ---- bitwise operations on n-bit naturals, bit by bit (the definition) ----
RECURSIVE XorN(_, _, _)
XorN(a, b, n) == IF n = 0 THEN 0 ELSE ((a + b) % 2) + 2 * XorN(a \div 2, b \div 2, n - 1)
RECURSIVE AndN(_, _, _)
AndN(a, b, n) == IF n = 0 THEN 0 ELSE ((a % 2) * (b % 2)) + 2 * AndN(a \div 2, b \div 2, n - 1)

\* ---- the same on 16-bit limbs through 16 x 16 nibble tables (evaluated once) ----
XT == [i \in 1..16 |-> [j \in 1..16 |-> XorN(i - 1, j - 1, 4)]]
AT == [i \in 1..16 |-> [j \in 1..16 |-> AndN(i - 1, j - 1, 4)]]
N3(a) == a \div 4096 + 1
N2(a) == ((a \div 256) % 16) + 1
N1(a) == ((a \div 16) % 16) + 1
N0(a) == (a % 16) + 1
Xor16(a, b) == XT[N3(a)][N3(b)] * 4096 + XT[N2(a)][N2(b)] * 256 + XT[N1(a)][N1(b)] * 16 + XT[N0(a)][N0(b)]
And16(a, b) == AT[N3(a)][N3(b)] * 4096 + AT[N2(a)][N2(b)] * 256 + AT[N1(a)][N1(b)] * 16 + AT[N0(a)][N0(b)]

\* ---- 32-bit words as <<hi, lo>> ----
WXor(x, y) == <<Xor16(x[1], y[1]), Xor16(x[2], y[2])>>
WAnd(x, y) == <<And16(x[1], y[1]), And16(x[2], y[2])>>
WNot(x) == <<65535 - x[1], 65535 - x[2]>>
WAdd(x, y) == LET lo == x[2] + y[2] IN <<(x[1] + y[1] + lo \div 65536) % 65536, lo % 65536>>
\* rotate right by 0 < n < 16 of the 32-bit word hi:lo
RotrS(hi, lo, n) == <<hi \div P2(n) + (lo % P2(n)) * P2(16 - n), lo \div P2(n) + (hi % P2(n)) * P2(16 - n)>>
Rotr(x, n) == IF n < 16 THEN RotrS(x[1], x[2], n) ELSE IF n = 16 THEN <<x[2], x[1]>> ELSE RotrS(x[2], x[1], n - 16)
Shr(x, n) == IF n < 16 THEN <<x[1] \div P2(n), x[2] \div P2(n) + (x[1] % P2(n)) * P2(16 - n)>> ELSE <<0, x[1] \div P2(n - 16)>>

\* ---- FIPS 180-4 4.1.2 ----
Ch(x, y, z) == WXor(WAnd(x, y), WAnd(WNot(x), z))
Maj(x, y, z) == WXor(WXor(WAnd(x, y), WAnd(x, z)), WAnd(y, z))
BSig0(x) == WXor(WXor(Rotr(x, 2), Rotr(x, 13)), Rotr(x, 22))
BSig1(x) == WXor(WXor(Rotr(x, 6), Rotr(x, 11)), Rotr(x, 25))
SSig0(x) == WXor(WXor(Rotr(x, 7), Rotr(x, 18)), Shr(x, 3))
SSig1(x) == WXor(WXor(Rotr(x, 17), Rotr(x, 19)), Shr(x, 10))

\* ---- 4.2.2 constants and 5.3.3 initial hash value ----
K ==
  <<
    <<17034, 12184>>, <<28983, 17553>>, <<46528, 64463>>, <<59829, 56229>>,
    <<14678, 49755>>, <<23025, 4593>>, <<37439, 33444>>, <<43804, 24277>>,
    <<55303, 43672>>, <<4739, 23297>>, <<9265, 34238>>, <<21772, 32195>>,
    <<29374, 23924>>, <<32990, 45566>>, <<39900, 1703>>, <<49563, 61812>>,
    <<58523, 27073>>, <<61374, 18310>>, <<4033, 40390>>, <<9228, 41420>>,
    <<11753, 11375>>, <<19060, 33962>>, <<23728, 43484>>, <<30457, 35034>>,
    <<38974, 20818>>, <<43057, 50797>>, <<45059, 10184>>, <<48985, 32711>>,
    <<50912, 3059>>, <<54695, 37191>>, <<1738, 25425>>, <<5161, 10599>>,
    <<10167, 2693>>, <<11803, 8504>>, <<19756, 28156>>, <<21304, 3347>>,
    <<25866, 29524>>, <<30314, 2747>>, <<33218, 51502>>, <<37490, 11397>>,
    <<41663, 59553>>, <<43034, 26187>>, <<49739, 35696>>, <<51052, 20899>>,
    <<53650, 59417>>, <<54937, 1572>>, <<62478, 13701>>, <<4202, 41072>>,
    <<6564, 49430>>, <<7735, 27656>>, <<10056, 30540>>, <<13488, 48309>>,
    <<14620, 3251>>, <<20184, 43594>>, <<23452, 51791>>, <<26670, 28659>>,
    <<29839, 33518>>, <<30885, 25455>>, <<33992, 30740>>, <<36039, 520>>,
    <<37054, 65530>>, <<42064, 27883>>, <<48889, 41975>>, <<50801, 30962>>
  >>
H0 ==
  <<
    <<27145, 58983>>, <<47975, 44677>>, <<15470, 62322>>, <<42319, 62778>>,
    <<20750, 21119>>, <<39685, 26764>>, <<8067, 55723>>, <<23520, 52505>>
  >>

\* ---- 5.1.1 padding: 0x80, k zero bytes, the bit length as 64-bit big-endian ----
Len64(n) == <<0, 0, 0, (n \div 536870912) % 256, (n \div 2097152) % 256, (n \div 8192) % 256, (n \div 32) % 256, (n % 32) * 8>>
PadTail(n) == <<128>> \o [i \in 1..((119 - (n % 64)) % 64) |-> 0] \o Len64(n)
Pad(m) == m \o PadTail(Len(m))

\* ---- 5.2.1 / 6.2.2 ----
BlockWords(b) == [i \in 1..16 |-> <<b[4 * i - 3] * 256 + b[4 * i - 2], b[4 * i - 1] * 256 + b[4 * i]>>]
RECURSIVE Sched(_, _)
Sched(w, t) == IF t > 64 THEN w
               ELSE Sched(Append(w, WAdd(WAdd(SSig1(w[t - 2]), w[t - 7]), WAdd(SSig0(w[t - 15]), w[t - 16]))), t + 1)
Round(st, k, w) ==
  LET a == st[1]  b == st[2]  c == st[3]  d == st[4]
      e == st[5]  f == st[6]  g == st[7]  h == st[8]
      t1 == WAdd(WAdd(WAdd(WAdd(h, BSig1(e)), Ch(e, f, g)), k), w)
      t2 == WAdd(BSig0(a), Maj(a, b, c))
  IN <<WAdd(t1, t2), a, b, c, WAdd(d, t1), e, f, g>>
RECURSIVE Rounds(_, _, _)
Rounds(st, w, t) == IF t > 64 THEN st ELSE Rounds(Round(st, K[t], w[t]), w, t + 1)
\* one application of the compression function to a 64-byte block
Compress(cv, block) ==
  LET w == Sched(BlockWords(block), 17)
      r == Rounds(cv, w, 1)
  IN [i \in 1..8 |-> WAdd(cv[i], r[i])]
\* fold Compress over the 64-byte blocks k, k+1, .. of p (Len(p) a multiple of 64)
RECURSIVE FoldBlocks(_, _, _)
FoldBlocks(cv, p, k) == IF 64 * k >= Len(p) THEN cv
                        ELSE FoldBlocks(Compress(cv, SubSeq(p, 64 * k + 1, 64 * k + 64)), p, k + 1)
WordsToBytes(ws) ==
  [i \in 1..32 |-> LET w == ws[(i - 1) \div 4 + 1]
                       j == (i - 1) % 4
                   IN IF j = 0 THEN w[1] \div 256 ELSE IF j = 1 THEN w[1] % 256
                      ELSE IF j = 2 THEN w[2] \div 256 ELSE w[2] % 256]

SHA256Def(m) == WordsToBytes(FoldBlocks(H0, Pad(m), 0))
=============================================================================
