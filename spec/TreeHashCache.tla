--------------------------- MODULE TreeHashCache ---------------------------
(* C17: every tree-hash routine computes the same hash.                     *)
(*                                                                          *)
(* Allocator model: a node table. tbl[i] is an atom                         *)
(*   [a |-> bytes, rep |-> "small" | "buf"]   (rep = how clvmr stores it:   *)
(*   a 26-bit SmallAtom or a heap Buffer; only canonical small ints can be  *)
(*   "small", but new_substr / new_concat put canonical bytes in a Buffer)  *)
(* or a pair [l |-> j, r |-> k] with j, k < i (append-only allocator =>     *)
(* DAG sharing). The cache is keyed by the PAIR index (clvmr keeps atoms    *)
(* and pairs in separate vectors): PIdx(t, n) = number of pairs before n.   *)
(*                                                                          *)
(* Reference: ClvmSer!TreeHash on the unfolded tree; RefHashes is the same  *)
(* function computed bottom-up over the table (linear, used by the trace    *)
(* spec for 10^4-node DAGs); MC checks that the two agree.                  *)
(*                                                                          *)
(* Machine: transcription of crates/clvm-utils/src/tree_hash.rs             *)
(*  TreeCache {hashes, pairs} with get / insert / visit / should_memoize /  *)
(*  visit_tree, the op-stack loops of tree_hash and tree_hash_cached,       *)
(*  tree_hash_from_bytes (fresh allocator + fresh cache), the PRECOMPUTED   *)
(*  table, and curry_tree_hash.rs / curried_program.rs.                     *)
EXTENDS ClvmSer, TLC
LOCAL SeqX == INSTANCE SequencesExt   \* (its Cons clashes with SExp!Cons)

\* ------------------------------------------------------------ allocator
IsAtomNode(nd) == "a" \in DOMAIN nd
IsPairNode(nd) == "l" \in DOMAIN nd
AtomNode(b, rep) == [a |-> b, rep |-> rep]
PairNode(j, k) == [l |-> j, r |-> k]

\* allocator.rs fits_in_small_atom: canonical non-negative integers below 2^26
FitsSmall(b) ==
  \/ b = <<>>
  \/ ~(\/ Len(b) > 4
       \/ (Len(b) = 1 /\ b[1] = 0)
       \/ b[1] >= 128
       \/ (b[1] = 0 /\ b[2] < 128)
       \/ (Len(b) = 4 /\ b[1] > 3))
RECURSIVE BEVal(_)
BEVal(b) == IF b = <<>> THEN 0 ELSE BEVal(SubSeq(b, 1, Len(b) - 1)) * 256 + b[Len(b)]

WellFormed(t) == \A i \in DOMAIN t :
  IF IsAtomNode(t[i]) THEN t[i].rep \in {"small", "buf"} /\ (t[i].rep = "small" => FitsSmall(t[i].a))
  ELSE t[i].l \in 1..(i - 1) /\ t[i].r \in 1..(i - 1)

RECURSIVE Unfold(_, _)
Unfold(t, n) == IF IsAtomNode(t[n]) THEN Atom(t[n].a) ELSE Cons(Unfold(t, t[n].l), Unfold(t, t[n].r))

\* ------------------------------------------------------------ reference
TH(t, n) == TreeHash(Unfold(t, n))
AtomHash(b) == SHA256(<<1>> \o b)
PairHash(first, rest) == SHA256(<<2>> \o first \o rest)
\* bottom-up over the table, one SHA-256 per node (children precede parents)
RefStep(acc, nd) == Append(acc, IF IsAtomNode(nd) THEN AtomHash(nd.a) ELSE PairHash(acc[nd.l], acc[nd.r]))
RefHashes(t) == SeqX!FoldLeft(RefStep, <<>>, t)

\* 0-based index of node n in the allocator's pair vector
PIdx(t, n) == Cardinality({k \in 1..(n - 1) : IsPairNode(t[k])})

\* ------------------------------------------------------------ PRECOMPUTED_HASHES (tree_hash.rs:179)
Precomputed == <<
  <<75, 245, 18, 47, 52, 69, 84, 197, 59, 222, 46, 187, 140, 210, 183, 227, 209, 96, 10, 214, 49, 195, 133, 165, 215, 204, 226, 60, 119, 133, 69, 154>>,
  <<157, 207, 151, 161, 132, 243, 38, 35, 209, 26, 115, 18, 76, 235, 153, 165, 112, 155, 8, 55, 33, 232, 120, 161, 109, 120, 245, 150, 113, 139, 167, 178>>,
  <<161, 40, 113, 254, 226, 16, 251, 134, 25, 41, 30, 174, 161, 148, 88, 28, 189, 37, 49, 228, 178, 55, 89, 210, 37, 246, 128, 105, 35, 246, 50, 34>>,
  <<199, 155, 147, 46, 30, 29, 163, 192, 224, 152, 229, 173, 44, 66, 41, 55, 235, 144, 74, 118, 207, 97, 216, 57, 117, 167, 74, 104, 251, 176, 75, 153>>,
  <<168, 213, 221, 99, 251, 164, 113, 235, 203, 31, 62, 143, 124, 30, 24, 121, 183, 21, 42, 110, 114, 152, 169, 28, 225, 25, 166, 52, 0, 173, 231, 197>>,
  <<188, 89, 89, 244, 59, 198, 228, 113, 117, 55, 75, 103, 22, 229, 60, 154, 125, 114, 197, 148, 36, 200, 33, 51, 105, 149, 186, 215, 96, 217, 174, 179>>,
  <<68, 96, 42, 153, 154, 187, 235, 237, 247, 222, 10, 225, 49, 142, 79, 87, 227, 203, 29, 103, 228, 130, 166, 95, 150, 87, 247, 84, 31, 63, 228, 187>>,
  <<202, 108, 101, 136, 250, 1, 23, 27, 32, 7, 64, 52, 77, 53, 78, 133, 72, 183, 71, 0, 97, 251, 50, 163, 79, 79, 238, 228, 112, 236, 40, 31>>,
  <<158, 98, 130, 228, 242, 94, 55, 12, 230, 23, 226, 29, 111, 226, 101, 232, 139, 158, 123, 134, 130, 207, 0, 5, 155, 157, 18, 141, 147, 129, 240, 157>>,
  <<172, 158, 97, 213, 78, 182, 150, 126, 33, 44, 6, 170, 177, 84, 8, 41, 47, 133, 88, 196, 143, 6, 249, 215, 5, 21, 0, 99, 198, 135, 83, 176>>,
  <<192, 75, 91, 177, 165, 178, 235, 62, 156, 212, 128, 84, 32, 219, 165, 169, 209, 51, 218, 91, 122, 222, 234, 251, 84, 116, 196, 173, 174, 159, 170, 128>>,
  <<87, 191, 209, 203, 10, 221, 163, 217, 67, 21, 5, 63, 218, 114, 63, 32, 40, 50, 15, 170, 131, 56, 34, 93, 153, 246, 41, 227, 212, 109, 67, 169>>,
  <<107, 109, 170, 131, 52, 187, 204, 143, 107, 89, 6, 182, 192, 75, 224, 65, 217, 39, 0, 183, 64, 36, 247, 63, 80, 224, 169, 240, 218, 229, 240, 111>>,
  <<199, 184, 156, 251, 154, 191, 44, 76, 178, 18, 164, 132, 11, 55, 215, 98, 244, 200, 128, 184, 81, 123, 13, 173, 176, 195, 16, 222, 210, 77, 216, 109>>,
  <<101, 59, 59, 179, 225, 142, 248, 77, 91, 30, 143, 249, 136, 74, 236, 241, 149, 12, 122, 28, 152, 113, 84, 17, 194, 43, 152, 118, 99, 184, 109, 218>>,
  <<36, 37, 94, 245, 217, 65, 73, 59, 153, 120, 243, 170, 187, 14, 208, 125, 8, 74, 222, 25, 109, 35, 244, 99, 255, 5, 137, 84, 203, 246, 233, 182>>,
  <<175, 52, 10, 165, 142, 167, 215, 44, 47, 154, 116, 5, 243, 115, 65, 103, 187, 39, 221, 42, 82, 13, 33, 106, 221, 239, 101, 248, 54, 33, 2, 182>>,
  <<38, 231, 249, 140, 250, 254, 229, 178, 19, 114, 110, 34, 99, 41, 35, 191, 49, 191, 62, 152, 130, 51, 35, 95, 143, 92, 165, 70, 107, 58, 192, 237>>,
  <<17, 91, 73, 140, 233, 67, 53, 130, 107, 170, 22, 56, 108, 209, 226, 253, 232, 202, 64, 143, 111, 80, 243, 120, 89, 100, 242, 99, 205, 243, 126, 190>>,
  <<216, 197, 13, 98, 130, 161, 186, 71, 240, 162, 52, 48, 209, 119, 187, 251, 183, 46, 43, 132, 113, 55, 69, 232, 148, 245, 117, 87, 15, 31, 61, 110>>,
  <<219, 231, 38, 232, 26, 114, 33, 163, 133, 224, 7, 239, 158, 131, 74, 151, 90, 75, 82, 140, 111, 85, 165, 210, 236, 226, 136, 190, 232, 49, 163, 209>>,
  <<118, 76, 138, 53, 97, 199, 207, 38, 23, 113, 180, 225, 150, 155, 132, 194, 16, 131, 111, 60, 3, 75, 174, 186, 197, 228, 154, 57, 74, 110, 224, 169>>,
  <<220, 227, 127, 53, 18, 182, 51, 125, 39, 41, 4, 54, 186, 146, 137, 226, 253, 108, 119, 84, 148, 195, 54, 104, 221, 23, 124, 248, 17, 251, 212, 122>>,
  <<88, 9, 173, 220, 159, 105, 38, 252, 92, 78, 32, 207, 135, 149, 136, 88, 196, 69, 76, 33, 205, 252, 107, 2, 243, 119, 241, 44, 6, 179, 92, 202>> >>

\* canonical CLVM encoding of v in 0..127
SmallEnc(v) == IF v = 0 THEN <<>> ELSE <<v>>
\* the table is what its comment says: entry v is SHA256(1 || canonical encoding of v)
TableIsSmallAtomHashes(tab) == Len(tab) = 24 /\ \A v \in 0..23 : tab[v + 1] = AtomHash(SmallEnc(v))
SmallAtoms == TableIsSmallAtomHashes(Precomputed)

\* NodeVisitor::Buffer / NodeVisitor::U32 arms of both loops
AtomHashFast(nd) ==
  IF nd.rep = "small" /\ BEVal(nd.a) < Len(Precomputed) THEN Precomputed[BEVal(nd.a) + 1]
  ELSE AtomHash(nd.a)

\* ------------------------------------------------------------ TreeCache (tree_hash.rs:62-175)
\* TLC integers are 32-bit signed: U32MAX stands for u32::MAX; only the order of the three
\* sentinels relative to each other and to slot numbers matters
U32MAX == 2147483647
NOT_VISITED == U32MAX
SEEN_ONCE == U32MAX - 1
SEEN_MULTIPLE == U32MAX - 2
None == <<>>
EmptyCache == [hashes |-> <<>>, pairs |-> <<>>]

Resize(ps, n) == IF n <= Len(ps) THEN ps ELSE ps \o [i \in 1..(n - Len(ps)) |-> NOT_VISITED]

Get(t, c, n) ==
  IF ~IsPairNode(t[n]) THEN None
  ELSE LET idx == PIdx(t, n) IN
       IF idx >= Len(c.pairs) THEN None
       ELSE LET slot == c.pairs[idx + 1] IN
            IF slot >= SEEN_MULTIPLE THEN None ELSE c.hashes[slot + 1]

Insert(t, c, n, h) ==
  IF Len(c.hashes) = SEEN_MULTIPLE THEN c
  ELSE IF ~IsPairNode(t[n]) THEN c
  ELSE LET idx == PIdx(t, n)
           ps == Resize(c.pairs, idx + 1)
           slot == Len(c.hashes)
       IN [hashes |-> Append(c.hashes, h), pairs |-> [ps EXCEPT ![idx + 1] = slot]]

\* returns the new cache and whether the caller must descend
Visit(t, c, n) ==
  IF ~IsPairNode(t[n]) THEN [c |-> c, ret |-> FALSE]
  ELSE LET idx == PIdx(t, n)
           ps == Resize(c.pairs, idx + 1)
           v == IF ps[idx + 1] > SEEN_MULTIPLE THEN ps[idx + 1] - 1 ELSE ps[idx + 1]
       IN [c |-> [c EXCEPT !.pairs = [ps EXCEPT ![idx + 1] = v]], ret |-> v = SEEN_ONCE]

ShouldMemoize(t, c, n) ==
  IF ~IsPairNode(t[n]) THEN FALSE
  ELSE LET idx == PIdx(t, n) IN
       IF idx >= Len(c.pairs) THEN FALSE ELSE c.pairs[idx + 1] <= SEEN_MULTIPLE

Pop(s) == SubSeq(s, 1, Len(s) - 1)
Top(s) == s[Len(s)]

RECURSIVE VisitLoop(_, _, _)
VisitLoop(t, c, stack) ==
  IF stack = <<>> THEN c
  ELSE LET n == Top(stack) IN
       IF ~IsPairNode(t[n]) THEN VisitLoop(t, c, Pop(stack))
       ELSE LET v1 == Visit(t, c, t[n].l)
                s1 == IF v1.ret THEN Append(Pop(stack), t[n].l) ELSE Pop(stack)
                v2 == Visit(t, v1.c, t[n].r)
                s2 == IF v2.ret THEN Append(s1, t[n].r) ELSE s1
            IN VisitLoop(t, v2.c, s2)

VisitTree(t, c, n) ==
  LET v == Visit(t, c, n) IN IF ~v.ret THEN v.c ELSE VisitLoop(t, v.c, <<n>>)

\* ------------------------------------------------------------ the hashing loops
OpSExp(n) == [k |-> "sexp", n |-> n]
OpCons == [k |-> "cons", n |-> 0]
OpConsAddCache(n) == [k |-> "consadd", n |-> n]

\* tree_hash (tree_hash.rs:221): never looks at a cache
RECURSIVE PlainLoop(_, _, _)
PlainLoop(t, ops, hs) ==
  IF ops = <<>> THEN hs
  ELSE LET op == Top(ops) rest == Pop(ops) IN
       IF op.k = "sexp"
       THEN (LET nd == t[op.n] IN
             IF IsAtomNode(nd) THEN PlainLoop(t, rest, Append(hs, AtomHashFast(nd)))
             ELSE PlainLoop(t, rest \o <<OpCons, OpSExp(nd.l), OpSExp(nd.r)>>, hs))
       ELSE (LET first == hs[Len(hs)] rst == hs[Len(hs) - 1] IN
             PlainLoop(t, rest, Append(SubSeq(hs, 1, Len(hs) - 2), PairHash(first, rst))))
HashPlain(t, n) == LET hs == PlainLoop(t, <<OpSExp(n)>>, <<>>) IN IF Len(hs) = 1 THEN hs[1] ELSE <<"assert", hs>>

\* the loop of tree_hash_cached (tree_hash.rs:263-303)
RECURSIVE CachedLoop(_, _, _, _)
CachedLoop(t, ops, hs, c) ==
  IF ops = <<>> THEN [hs |-> hs, c |-> c]
  ELSE LET op == Top(ops) rest == Pop(ops) IN
       CASE op.k = "sexp" ->
              (LET nd == t[op.n] IN
               IF IsAtomNode(nd) THEN CachedLoop(t, rest, Append(hs, AtomHashFast(nd)), c)
               ELSE LET g == Get(t, c, op.n) IN
                    IF g # None THEN CachedLoop(t, rest, Append(hs, g), c)
                    ELSE CachedLoop(t, rest \o <<IF ShouldMemoize(t, c, op.n) THEN OpConsAddCache(op.n) ELSE OpCons,
                                                 OpSExp(nd.l), OpSExp(nd.r)>>, hs, c))
         [] op.k = "cons" ->
              (LET first == hs[Len(hs)] rst == hs[Len(hs) - 1] IN
               CachedLoop(t, rest, Append(SubSeq(hs, 1, Len(hs) - 2), PairHash(first, rst)), c))
         [] op.k = "consadd" ->
              (LET first == hs[Len(hs)] rst == hs[Len(hs) - 1] h == PairHash(first, rst) IN
               CachedLoop(t, rest, Append(SubSeq(hs, 1, Len(hs) - 2), h), Insert(t, c, op.n, h)))

HashNoVisit(t, c, n) ==
  LET r == CachedLoop(t, <<OpSExp(n)>>, <<>>, c) IN
  [h |-> IF Len(r.hs) = 1 THEN r.hs[1] ELSE <<"assert", r.hs>>, c |-> r.c]
\* tree_hash_cached = visit_tree, then the loop
HashCached(t, c, n) == HashNoVisit(t, VisitTree(t, c, n), n)

\* ------------------------------------------------------------ tree_hash_from_bytes
\* deserialisation allocates the tree again in a fresh allocator. Without back-references no node
\* is shared; with back-references clvmr shares repeated subtrees. The two extremes are modelled:
\* share = FALSE (pure tree) and share = TRUE (maximal sharing, hash-consing); atoms made by the
\* deserialiser go through new_atom, so canonical small integers are SmallAtoms.
Find(t, nd) == IF \E i \in DOMAIN t : t[i] = nd THEN CHOOSE i \in DOMAIN t : t[i] = nd ELSE 0
RECURSIVE Realloc(_, _, _)
Realloc(x, t, share) ==
  LET nd == IF IsAtom(x) THEN AtomNode(x.a, IF FitsSmall(x.a) THEN "small" ELSE "buf") ELSE <<>>
  IN IF IsAtom(x)
     THEN (IF share /\ Find(t, nd) # 0 THEN [t |-> t, n |-> Find(t, nd)] ELSE [t |-> Append(t, nd), n |-> Len(t) + 1])
     ELSE (LET L == Realloc(x.l, t, share)
               R == Realloc(x.r, L.t, share)
               p == PairNode(L.n, R.n)
           IN IF share /\ Find(R.t, p) # 0 THEN [t |-> R.t, n |-> Find(R.t, p)] ELSE [t |-> Append(R.t, p), n |-> Len(R.t) + 1])
HashFromBytes(t, n, share) ==
  LET ra == Realloc(Unfold(t, n), <<>>, share) IN HashCached(ra.t, EmptyCache, ra.n).h

\* hash_encoder.rs: TreeHasher (encode_atom / encode_pair, no fast path)
RECURSIVE HashEncoder(_)
HashEncoder(x) == IF IsAtom(x) THEN AtomHash(x.a) ELSE PairHash(HashEncoder(x.l), HashEncoder(x.r))

\* ------------------------------------------------------------ currying
\* curried_program.rs + clvm_curried_args!: (a (q . program) args), args = (c (q . a1) (c (q . a2) ... 1))
RECURSIVE CurriedArgs(_)
CurriedArgs(args) ==
  IF args = <<>> THEN Atom(<<1>>)
  ELSE ListOf(<<Atom(<<4>>), Cons(Atom(<<1>>), args[1]), CurriedArgs(Tail(args))>>)
CurriedTree(p, args) == ListOf(<<Atom(<<2>>), Cons(Atom(<<1>>), p), CurriedArgs(args)>>)

\* curry_tree_hash.rs:3, from hashes alone
RECURSIVE QuotedArgs(_, _)
QuotedArgs(argHashes, k) ==     \* value of quoted_args after processing arguments k..Len (iterating in reverse)
  IF k > Len(argHashes) THEN AtomHash(<<1>>)
  ELSE LET nil == AtomHash(<<>>) op_q == AtomHash(<<1>>) op_c == AtomHash(<<4>>)
           quoted_arg == PairHash(op_q, argHashes[k])
           terminated_args == PairHash(QuotedArgs(argHashes, k + 1), nil)
           terminated_args2 == PairHash(quoted_arg, terminated_args)
       IN PairHash(op_c, terminated_args2)
CurryTreeHash(programHash, argHashes) ==
  LET nil == AtomHash(<<>>) op_q == AtomHash(<<1>>) op_a == AtomHash(<<2>>)
      quoted_program == PairHash(op_q, programHash)
      terminated_args == PairHash(QuotedArgs(argHashes, 1), nil)
      program_and_args == PairHash(quoted_program, terminated_args)
  IN PairHash(op_a, program_and_args)
CurryCorrect(p, args) ==
  CurryTreeHash(TreeHash(p), [i \in DOMAIN args |-> TreeHash(args[i])]) = TreeHash(CurriedTree(p, args))

\* ------------------------------------------------------------ state machine
\* tbl: allocator contents; cache: the one shared TreeCache; hist: everything that happened
\* (allocations and calls with their results), which is also the replay case
VARIABLES tbl, cache, hist
vars == <<tbl, cache, hist>>

Call(op, n, h) == [k |-> op, n |-> n, h |-> h]
IsCall(e) == e.k # "alloc"

AllocMore(nd) == /\ tbl' = Append(tbl, nd)
                 /\ hist' = Append(hist, [k |-> "alloc", nd |-> nd])
                 /\ UNCHANGED cache
VisitTreeA(n) == /\ cache' = VisitTree(tbl, cache, n)
                 /\ hist' = Append(hist, Call("visit", n, <<>>))
                 /\ UNCHANGED tbl
HashCachedA(n) == LET r == HashCached(tbl, cache, n) IN
                  /\ cache' = r.c
                  /\ hist' = Append(hist, Call("cached", n, r.h))
                  /\ UNCHANGED tbl
\* not an entry point of the crate: the loop without the leading visit_tree (get / should_memoize /
\* insert are public, so a caller can be in this position); histories containing it are not replayed
HashNoVisitA(n) == LET r == HashNoVisit(tbl, cache, n) IN
                   /\ cache' = r.c
                   /\ hist' = Append(hist, Call("novisit", n, r.h))
                   /\ UNCHANGED tbl
\* a caller pre-seeding the shared cache through the public TreeCache::insert with the node's true hash
\* (only for nodes without a memoised hash, which also keeps the hash store bounded)
InsertA(n) == /\ Get(tbl, cache, n) = None
              /\ cache' = Insert(tbl, cache, n, TH(tbl, n))
              /\ hist' = Append(hist, Call("insert", n, <<>>))
              /\ UNCHANGED tbl
HashPlainA(n) == /\ hist' = Append(hist, Call("plain", n, HashPlain(tbl, n)))
                 /\ UNCHANGED <<tbl, cache>>
HashFromBytesA(n, share) == /\ hist' = Append(hist, Call(IF share THEN "bytes_br" ELSE "bytes", n, HashFromBytes(tbl, n, share)))
                            /\ UNCHANGED <<tbl, cache>>
HashEncoderA(n) == /\ hist' = Append(hist, Call("enc", n, HashEncoder(Unfold(tbl, n))))
                   /\ UNCHANGED <<tbl, cache>>

\* ------------------------------------------------------------ properties
\* every hash ever returned is the reference hash of its node
NoResult == {"visit", "insert"}
ResultsCorrect == \A i \in DOMAIN hist : (IsCall(hist[i]) /\ hist[i].k \notin NoResult) => hist[i].h = TH(tbl, hist[i].n)
LastResultCorrect == (hist # <<>> /\ IsCall(Top(hist)) /\ Top(hist).k \notin NoResult) => Top(hist).h = TH(tbl, Top(hist).n)
\* memoised slots hold the hash of their node
SlotsCorrect == \A n \in DOMAIN tbl : Get(tbl, cache, n) # None => Get(tbl, cache, n) = TH(tbl, n)
\* shape of the cache: sentinels or valid, pairwise distinct slot numbers; every slot is owned
CacheShape ==
  /\ \A i \in DOMAIN cache.pairs : cache.pairs[i] \in {NOT_VISITED, SEEN_ONCE, SEEN_MULTIPLE} \cup (0..(Len(cache.hashes) - 1))
  /\ \A i, j \in DOMAIN cache.pairs : (i # j /\ cache.pairs[i] < SEEN_MULTIPLE) => cache.pairs[i] # cache.pairs[j]
  /\ Len(cache.pairs) <= Cardinality({k \in DOMAIN tbl : IsPairNode(tbl[k])})
\* the linear reference equals the recursive one
RefAgrees == LET H == RefHashes(tbl) IN \A n \in DOMAIN tbl : H[n] = TH(tbl, n)
\* a memoised node stays memoised with the same hash (action property)
MemoStable == [][\A n \in DOMAIN tbl : Get(tbl, cache, n) # None => Get(tbl', cache', n) = Get(tbl, cache, n)]_vars
=============================================================================
