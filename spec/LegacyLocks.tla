----------------------------- MODULE LegacyLocks -----------------------------
(* X03 (growth): the two checking modes of check_time_locks and the owned   *)
(* form of the condition summary.                                           *)
(*                                                                          *)
(* Part 1. check_time_locks(records, summary, prev height, timestamp,       *)
(* nowrap) is transcribed as the sequential program it is (Verdict): four   *)
(* absolute comparisons, then for every spend in order: coin record lookup, *)
(* two birth equalities and four relative comparisons whose sum             *)
(* birth + delta is SATURATING (nowrap = true) or WRAPPING (nowrap = false, *)
(* the legacy mode) at the width of the type (u32 heights, u64 seconds).    *)
(* TLC integers are 32 bit, so the sums are BigNat sums reduced modulo      *)
(* 2^32 / 2^64 (WrapAddW) or clamped (SatAddW).                             *)
(* Independently, a summary is read as the ordered list of assertions it    *)
(* stands for (Entries); HoldsExact gives each its arithmetic meaning       *)
(* (TimeLocks!Holds, unbounded integers), HoldsMode its meaning under a     *)
(* mode, and FirstFailing the error of the first entry that does not hold.  *)
(* MC_LegacyLocks establishes over the boundary lattice:                    *)
(*   FirstFailureReported  Verdict = FirstFailing in both modes             *)
(*   DifferExactly         where the two modes disagree (DifferRegion)      *)
(*   NoOverflowExact       without overflow both modes = exact semantics    *)
(*   NowrapIsCheckAgg      the no-wrap program is TimeLocks!CheckAgg        *)
(*                                                                          *)
(* Part 2. OwnedSpendBundleConditions::from(allocator, borrowed) is a       *)
(* projection (OwnedMatches): every field is copied, node pointers are      *)
(* replaced by the bytes they denote, the created coins keep their content  *)
(* but lose their (hash set) order, the hint is absent iff it is the nil    *)
(* node, the fingerprint is kept iff the spend is eligible for dedup, and   *)
(* the three allocator counters are appended. Its Streamable encoding is    *)
(* the grammar of Streamable.tla applied to the type term written here.     *)
EXTENDS TimeLocks

(* ------------------- fixed-width arithmetic on BigNat ------------------- *)
\* n mod 256^w: the w least significant digits
ModPow256(n, w) == IF Len(n) > w THEN Norm(SubSeq(n, Len(n) - w + 1, Len(n))) ELSE n
Overflows(a, b, w) == Len(Add(a, b)) > w                  \* a + b > 2^(8w) - 1
WrapAddW(a, b, w) == ModPow256(Add(a, b), w)              \* uN::wrapping_add
SatAddW(a, b, w) == IF Overflows(a, b, w) THEN AllOnes(w) ELSE Add(a, b)   \* uN::saturating_add
Modes == {"nowrap", "legacy"}
RelSum(mode, b, v, w) == IF mode = "nowrap" THEN SatAddW(b, v, w) ELSE WrapAddW(b, v, w)

(* --------------------------- error vocabulary --------------------------- *)
ErrCode == [ok |-> 0, AssertHeightRelativeFailed |-> 13, AssertHeightAbsoluteFailed |-> 14, AssertSecondsAbsoluteFailed |-> 15,
            AssertSecondsRelativeFailed |-> 105, AssertBeforeSecondsAbsoluteFailed |-> 128, AssertBeforeSecondsRelativeFailed |-> 129,
            AssertBeforeHeightAbsoluteFailed |-> 130, AssertBeforeHeightRelativeFailed |-> 131, AssertMyBirthSecondsFailed |-> 138,
            AssertMyBirthHeightFailed |-> 139, InvalidCoinId |-> 146]
Code(v) == ErrCode[v]

(* ---------------- the program (check_time_locks.rs:12-116) -------------- *)
\* summary: [ha, sa, bha, bsa, spends: seq of [bh, bs, hr, sr, bhr, bsr]] (options are <<>> / <<v>>)
\* chain:   [prevH, ts, births: seq of [known, h, s]]  (births[i] = coin record of spend i, if any)
SpendVerdict(mode, s, b, ch) ==
  IF ~b.known THEN "InvalidCoinId"
  ELSE IF IsSome(s.bh) /\ Val(s.bh) # b.h THEN "AssertMyBirthHeightFailed"
  ELSE IF IsSome(s.bs) /\ Val(s.bs) # b.s THEN "AssertMyBirthSecondsFailed"
  ELSE IF IsSome(s.hr) /\ Lt(ch.prevH, RelSum(mode, b.h, Val(s.hr), 4)) THEN "AssertHeightRelativeFailed"
  ELSE IF IsSome(s.sr) /\ Lt(ch.ts, RelSum(mode, b.s, Val(s.sr), 8)) THEN "AssertSecondsRelativeFailed"
  ELSE IF IsSome(s.bhr) /\ Ge(ch.prevH, RelSum(mode, b.h, Val(s.bhr), 4)) THEN "AssertBeforeHeightRelativeFailed"
  ELSE IF IsSome(s.bsr) /\ Ge(ch.ts, RelSum(mode, b.s, Val(s.bsr), 8)) THEN "AssertBeforeSecondsRelativeFailed"
  ELSE "ok"
RECURSIVE SpendsVerdict(_, _, _, _)
SpendsVerdict(mode, agg, ch, i) ==
  IF i > Len(agg.spends) THEN "ok"
  ELSE LET v == SpendVerdict(mode, agg.spends[i], ch.births[i], ch)
       IN IF v # "ok" THEN v ELSE SpendsVerdict(mode, agg, ch, i + 1)
Verdict(mode, agg, ch) ==
  IF Lt(ch.prevH, agg.ha) THEN "AssertHeightAbsoluteFailed"
  ELSE IF Lt(ch.ts, agg.sa) THEN "AssertSecondsAbsoluteFailed"
  ELSE IF IsSome(agg.bha) /\ Ge(ch.prevH, Val(agg.bha)) THEN "AssertBeforeHeightAbsoluteFailed"
  ELSE IF IsSome(agg.bsa) /\ Ge(ch.ts, Val(agg.bsa)) THEN "AssertBeforeSecondsAbsoluteFailed"
  ELSE SpendsVerdict(mode, agg, ch, 1)

(* --------- the summary as an ordered list of assertions (entries) ------- *)
Entry(op, i, v, err) == [op |-> op, spend |-> i, v |-> v, err |-> err]
OptEntry(o, op, i, err) == IF IsSome(o) THEN <<Entry(op, i, Val(o), err)>> ELSE <<>>
AbsEntries(agg) ==
  <<Entry(83, 0, agg.ha, "AssertHeightAbsoluteFailed"), Entry(81, 0, agg.sa, "AssertSecondsAbsoluteFailed")>>
  \o OptEntry(agg.bha, 87, 0, "AssertBeforeHeightAbsoluteFailed") \o OptEntry(agg.bsa, 85, 0, "AssertBeforeSecondsAbsoluteFailed")
SpendEntries(s, i) ==
  <<Entry(0, i, Zero, "InvalidCoinId")>>      \* op 0: the coin record of the spend exists
  \o OptEntry(s.bh, 75, i, "AssertMyBirthHeightFailed") \o OptEntry(s.bs, 74, i, "AssertMyBirthSecondsFailed")
  \o OptEntry(s.hr, 82, i, "AssertHeightRelativeFailed") \o OptEntry(s.sr, 80, i, "AssertSecondsRelativeFailed")
  \o OptEntry(s.bhr, 86, i, "AssertBeforeHeightRelativeFailed") \o OptEntry(s.bsr, 84, i, "AssertBeforeSecondsRelativeFailed")
RECURSIVE AllSpendEntries(_, _)
AllSpendEntries(agg, i) == IF i > Len(agg.spends) THEN <<>> ELSE SpendEntries(agg.spends[i], i) \o AllSpendEntries(agg, i + 1)
Entries(agg) == AbsEntries(agg) \o AllSpendEntries(agg, 1)

IsRelOp(op) == op \in AfterRel \cup BeforeRel
WidthOf(op) == IF op \in HeightOps THEN 4 ELSE 8
NowOf(e, ch) == IF e.op \in HeightOps THEN ch.prevH ELSE ch.ts
BornOf(e, ch) == IF e.op \in HeightOps THEN ch.births[e.spend].h ELSE ch.births[e.spend].s
AsAssertion(e) == [op |-> e.op, spend |-> e.spend, v |-> [neg |-> FALSE, mag |-> e.v]]
\* exact integer meaning (TimeLocks.tla); entry 0 = the record exists
HoldsExact(e, ch) == IF e.op = 0 THEN ch.births[e.spend].known ELSE Holds(AsAssertion(e), ch)
\* meaning under a mode: only the sum of a relative assertion is affected
HoldsMode(mode, e, ch) ==
  IF ~IsRelOp(e.op) THEN HoldsExact(e, ch)
  ELSE LET sum == RelSum(mode, BornOf(e, ch), e.v, WidthOf(e.op)) IN
       IF e.op \in AfterRel THEN Ge(NowOf(e, ch), sum) ELSE Lt(NowOf(e, ch), sum)
EntryOverflows(e, ch) == IsRelOp(e.op) /\ Overflows(BornOf(e, ch), e.v, WidthOf(e.op))
FailingSet(mode, L, ch) == {i \in DOMAIN L : ~HoldsMode(mode, L[i], ch)}
MinOf(S) == CHOOSE x \in S : \A y \in S : x <= y
FirstFailing(mode, agg, ch) ==
  LET L == Entries(agg) F == FailingSet(mode, L, ch)
  IN IF F = {} THEN "ok" ELSE L[MinOf(F)].err

(* ------------------------------ the lemmas ------------------------------ *)
FirstFailureReported(agg, ch) == \A m \in Modes : Verdict(m, agg, ch) = FirstFailing(m, agg, ch)
\* the exact region in which the modes give a relative assertion a different truth value:
\* the sum overflows and the wrapped sum <= now < type maximum
DifferRegion(e, ch) ==
  LET w == WidthOf(e.op) IN
  /\ EntryOverflows(e, ch)
  /\ Le(WrapAddW(BornOf(e, ch), e.v, w), NowOf(e, ch))
  /\ Lt(NowOf(e, ch), AllOnes(w))
EntryDiffers(e, ch) == HoldsMode("nowrap", e, ch) # HoldsMode("legacy", e, ch)
DifferExactly(agg, ch) ==
  LET L == Entries(agg) IN
  /\ \A i \in DOMAIN L : EntryDiffers(L[i], ch) <=> (IsRelOp(L[i].op) /\ DifferRegion(L[i], ch))
  /\ Verdict("nowrap", agg, ch) # Verdict("legacy", agg, ch) => \E i \in DOMAIN L : EntryOverflows(L[i], ch)
  \* wrapping only ever lowers the threshold: legacy accepts more "after" and fewer "before" assertions
  /\ \A i \in DOMAIN L : EntryDiffers(L[i], ch) => (HoldsMode("legacy", L[i], ch) <=> L[i].op \in AfterRel)
NoOverflow(agg, ch) == LET L == Entries(agg) IN \A i \in DOMAIN L : ~EntryOverflows(L[i], ch)
NoOverflowExact(agg, ch) ==
  LET L == Entries(agg) IN
  /\ \A i \in DOMAIN L : ~EntryOverflows(L[i], ch) => \A m \in Modes : HoldsMode(m, L[i], ch) = HoldsExact(L[i], ch)
  /\ NoOverflow(agg, ch) => \A m \in Modes : (Verdict(m, agg, ch) = "ok" <=> \A i \in DOMAIN L : HoldsExact(L[i], ch))
  \* saturation is exact except in the single chain state now = type maximum
  /\ \A i \in DOMAIN L : (IsRelOp(L[i].op) /\ Lt(NowOf(L[i], ch), AllOnes(WidthOf(L[i].op))))
                          => HoldsMode("nowrap", L[i], ch) = HoldsExact(L[i], ch)
AllKnown(ch) == \A i \in DOMAIN ch.births : ch.births[i].known
NowrapIsCheckAgg(agg, ch) == AllKnown(ch) => (Verdict("nowrap", agg, ch) = "ok" <=> CheckAgg(agg, ch))
ArithLemmas(a, b, w) ==
  /\ Overflows(a, b, w) => Add(WrapAddW(a, b, w), Pow256(w)) = Add(a, b)
  /\ ~Overflows(a, b, w) => WrapAddW(a, b, w) = Add(a, b) /\ SatAddW(a, b, w) = Add(a, b)
  /\ SatAddW(a, b, w) = SatAdd(a, b, AllOnes(w))
  /\ Len(WrapAddW(a, b, w)) <= w /\ IsNat(WrapAddW(a, b, w))

(* ============ Part 2: the owned form is a projection =================== *)
CountIn(x, S) == Cardinality({i \in DOMAIN S : S[i] = x})
SameBag(S, T) == Len(S) = Len(T) /\ \A i \in DOMAIN S : CountIn(S[i], S) = CountIn(S[i], T)
ProjHint(c) == IF c.hint_nil THEN [k |-> "none"] ELSE [k |-> "some", v |-> c.hint]
ProjCoin(c) == [ph |-> c.ph, amt |-> c.amt, hint |-> ProjHint(c)]
ProjFp(s) == IF IsOdd(s.flags) THEN s.fp ELSE <<>>      \* flags & ELIGIBLE_FOR_DEDUP (bit 0)
CopiedSpendFields == {"id", "parent", "ph", "amt", "hr", "sr", "bhr", "bsr", "bh", "bs", "me", "parent_sigs", "puzzle", "amount",
                      "puzzle_amount", "parent_amount", "parent_puzzle", "flags", "ccost", "ecost"}
CopiedBundleFields == {"fee", "ha", "sa", "bha", "bsa", "unsafe", "cost", "ccost", "ecost", "rem", "add", "vsig"}
SpendMatches(bs, os) ==
  /\ \A f \in CopiedSpendFields : os[f] = bs[f]
  /\ SameBag(os.cc, [i \in DOMAIN bs.cc |-> ProjCoin(bs.cc[i])])
  /\ os.fp = ProjFp(bs)
OwnedMatches(b, o) ==
  /\ Len(o.spends) = Len(b.spends)
  /\ \A i \in DOMAIN b.spends : i \in DOMAIN o.spends => SpendMatches(b.spends[i], o.spends[i])
  /\ \A f \in CopiedBundleFields : o[f] = b[f]
  /\ o.natoms = ModPow256(b.natoms, 4) /\ o.npairs = ModPow256(b.npairs, 4) /\ o.heap = ModPow256(b.heap, 4)

\* ---- Streamable form of the owned summary (owned_conditions.rs:25-84, field order = wire order) ----
St == INSTANCE Streamable WITH LenW <- 4, HashW <- 32, G1W <- 48, G2W <- 96
PkMsgT == St!VecT(St!TupT(<<St!G1T, St!BytesT>>))
NewCoinT == St!TupT(<<St!BytesNT(32), St!U(8), St!OptT(St!BytesT)>>)
OwnedSpendT ==
  St!TupT(<<St!BytesNT(32), St!BytesNT(32), St!BytesNT(32), St!U(8),
            St!OptT(St!U(4)), St!OptT(St!U(8)), St!OptT(St!U(4)), St!OptT(St!U(8)), St!OptT(St!U(4)), St!OptT(St!U(8)),
            St!VecT(NewCoinT), PkMsgT, PkMsgT, PkMsgT, PkMsgT, PkMsgT, PkMsgT, PkMsgT, St!U(4), St!U(8), St!U(8), St!BytesT>>)
OwnedBundleT ==
  St!TupT(<<St!VecT(OwnedSpendT), St!U(8), St!U(4), St!U(8), St!OptT(St!U(4)), St!OptT(St!U(8)), PkMsgT, St!U(8), St!U(16), St!U(16),
            St!BoolT, St!U(8), St!U(8), St!U(4), St!U(4), St!U(4)>>)
WOpt(o, w) == IF o = <<>> THEN <<>> ELSE <<FixedBE(o[1], w)>>
WPkMsg(s) == [i \in DOMAIN s |-> <<s[i].pk, s[i].msg>>]
WCoin(c) == <<c.ph, FixedBE(c.amt, 8), IF c.hint.k = "none" THEN <<>> ELSE <<c.hint.v>>>>
WSpend(s) ==
  <<s.id, s.parent, s.ph, FixedBE(s.amt, 8), WOpt(s.hr, 4), WOpt(s.sr, 8), WOpt(s.bhr, 4), WOpt(s.bsr, 8), WOpt(s.bh, 4), WOpt(s.bs, 8),
    [i \in DOMAIN s.cc |-> WCoin(s.cc[i])], WPkMsg(s.me), WPkMsg(s.parent_sigs), WPkMsg(s.puzzle), WPkMsg(s.amount),
    WPkMsg(s.puzzle_amount), WPkMsg(s.parent_amount), WPkMsg(s.parent_puzzle), FixedBE(s.flags, 4), FixedBE(s.ecost, 8),
    FixedBE(s.ccost, 8), s.fp>>
WBundle(o) ==
  <<[i \in DOMAIN o.spends |-> WSpend(o.spends[i])], FixedBE(o.fee, 8), FixedBE(o.ha, 4), FixedBE(o.sa, 8), WOpt(o.bha, 4), WOpt(o.bsa, 8),
    WPkMsg(o.unsafe), FixedBE(o.cost, 8), FixedBE(o.rem, 16), FixedBE(o.add, 16), o.vsig, FixedBE(o.ecost, 8), FixedBE(o.ccost, 8),
    FixedBE(o.natoms, 4), FixedBE(o.npairs, 4), FixedBE(o.heap, 4)>>
NoCtx == [s |-> <<>>, o |-> <<>>, tr |-> FALSE]
WireOf(o) == St!Encode(NoCtx, OwnedBundleT, WBundle(o))
\* the time-lock summary read off an observed record (what check_time_locks looks at)
LockSummary(r) == [ha |-> r.ha, sa |-> r.sa, bha |-> r.bha, bsa |-> r.bsa,
                   spends |-> [i \in DOMAIN r.spends |-> [bh |-> r.spends[i].bh, bs |-> r.spends[i].bs, hr |-> r.spends[i].hr,
                                                           sr |-> r.spends[i].sr, bhr |-> r.spends[i].bhr, bsr |-> r.spends[i].bsr]]]
=============================================================================
