------------------------------ MODULE GetFlags ------------------------------
(* Growth item (beyond the listed properties): fork activation by height.   *)
(* get_flags_for_height_and_constants is a monotone function of the height: *)
(* a flag, once active, stays active for every later height, and each flag  *)
(* group activates exactly at its own threshold, independently of the order *)
(* of the thresholds. Heights are BigNat (u32 range).                       *)
EXTENDS BigNat

HF2 == {"ENABLE_KECCAK_OPS_OUTSIDE_GUARD", "COST_CONDITIONS", "ENABLE_SECP_OPS", "RELAXED_BLS"}
SF8 == {"DISABLE_OP"}
SF9 == {"SIMPLE_GENERATOR", "CANONICAL_INTS", "LIMITS", "LIMIT_SPENDS"}

FlagsAt(h, c) == (IF Le(c.hf2, h) THEN HF2 ELSE {}) \cup (IF Le(c.sf8, h) THEN SF8 ELSE {}) \cup (IF Le(c.sf9, h) THEN SF9 ELSE {})

Monotone(c, H) == \A h1, h2 \in H : Le(h1, h2) => FlagsAt(h1, c) \subseteq FlagsAt(h2, c)
=============================================================================
