------------------------------ MODULE JsonDict ------------------------------
(* C20: the Python JSON-dict representation of the Streamable types.        *)
(*                                                                          *)
(* JSON values are tagged records:                                          *)
(*   [k |-> "int", neg |-> BOOLEAN, v |-> BigNat]  (neg => v # 0)           *)
(*   [k |-> "str", v |-> UTF-8 bytes of the string]                         *)
(*   [k |-> "bool", v |-> BOOLEAN]   [k |-> "null"]                         *)
(*   [k |-> "list", v |-> sequence of JSON values]                          *)
(*   [k |-> "dict", v |-> sequence of [key |-> UTF-8 bytes, val |-> JSON]]  *)
(* Type terms and values are those of Streamable.tla. A named struct has a  *)
(* JSON VIEW C.j[name] = [up, nt, jfs]: up = keys are upper-cased           *)
(* (#[py_uppercase]); nt = single-field tuple struct, rendered as its only  *)
(* field; jfs = the fields of the Rust struct in declaration order, each    *)
(* [c |-> key (UTF-8), t |-> term, w, s] where (w, s) says where the field  *)
(* lives in the WIRE value (the hand-written codecs FullBlock,              *)
(* UnfinishedBlock, ProofOfSpace, SubEpochSummary, SubEpochData do not keep *)
(* the struct layout on the wire):                                          *)
(*   struct: s = 0: wire field w; s = 1 / 2: first / second half of the     *)
(*           opt2 wire field w                                              *)
(*   block : w > 0: leading field w; w = 0: s = 1 transactions_generator,   *)
(*           2 transactions_generator_ref_list, 3 .._buffer, 4 version      *)
(*   pos   : w = 0, s = 1 challenge, 2 pool_public_key,                     *)
(*           3 pool_contract_puzzle_hash, 4 plot_public_key, 5 version,     *)
(*           6 plot_index, 7 meta_group, 8 strength, 9 size, 10 proof       *)
(* Context C = [s, j, o, tr, b]: schema, views, oracle tables, FALSE, the   *)
(* byte string the value was parsed from (its oracle facts answer for the   *)
(* same byte strings met in JSON); extra JSON-side facts: o.jprog =         *)
(* <<bytes, length (0 = not a program)>>, o.jg1 / o.jg2 = <<bytes, decodes, *)
(* in subgroup>>.                                                           *)
EXTENDS Streamable, BigNat

JInt(neg, mag) == [k |-> "int", neg |-> neg, v |-> mag]
JStr(s) == [k |-> "str", v |-> s]
JBool(b) == [k |-> "bool", v |-> b]
JNull == [k |-> "null"]
\* (s \o <<>> makes TLC evaluate a lazily defined sequence once instead of at every access)
JList(s) == [k |-> "list", v |-> s \o <<>>]
JDict(s) == [k |-> "dict", v |-> s \o <<>>]

\* structural equality that never compares values of different kinds
RECURSIVE JEq(_, _)
JEq(a, b) ==
  /\ a.k = b.k
  /\ CASE a.k = "int" -> a.neg = b.neg /\ a.v = b.v
       [] a.k \in {"str", "bool"} -> a.v = b.v
       [] a.k = "null" -> TRUE
       [] a.k = "list" -> Len(a.v) = Len(b.v) /\ \A i \in 1..Len(a.v) : JEq(a.v[i], b.v[i])
       [] a.k = "dict" -> Len(a.v) = Len(b.v) /\ \A i \in 1..Len(a.v) : a.v[i].key = b.v[i].key /\ JEq(a.v[i].val, b.v[i].val)
       [] OTHER -> FALSE

JOk(v) == [ok |-> TRUE, v |-> v]
Unmod == [ok |-> FALSE, why |-> "unmodelled"]   \* an input whose treatment by the code is not modelled: never a verdict
JWrap(r) == IF r.ok THEN JOk(<<r.v>>) ELSE r

\* 2^(8n-1)
HalfPow(n) == <<128>> \o [i \in 1..(n - 1) |-> 0]

\* ---- hexadecimal ----
HexDigit(d) == IF d < 10 THEN 48 + d ELSE 87 + d
HexOf(b) == [i \in 1..(2 * Len(b)) |-> HexDigit(IF i % 2 = 1 THEN b[(i + 1) \div 2] \div 16 ELSE b[i \div 2] % 16)]
HexVal(c) == IF c >= 48 /\ c <= 57 THEN c - 48
             ELSE IF c >= 97 /\ c <= 102 THEN c - 87
             ELSE IF c >= 65 /\ c <= 70 THEN c - 55
             ELSE 0 - 1
IsHex(s) == Len(s) % 2 = 0 /\ \A i \in 1..Len(s) : HexVal(s[i]) >= 0
UnHex(s) == [i \in 1..(Len(s) \div 2) |-> HexVal(s[2 * i - 1]) * 16 + HexVal(s[2 * i])] \o <<>>
Has0x(s) == Len(s) >= 2 /\ s[1] = 48 /\ s[2] = 120
Hex0x(b) == <<48, 120>> \o HexOf(b)

\* ---- keys ----
UpperC(c) == IF c >= 97 /\ c <= 122 THEN c - 32 ELSE c
KeyOf(view, f) == IF view.up THEN [i \in 1..Len(f.c) |-> UpperC(f.c[i])] ELSE f.c
KeyIndex(d, key) == LET I == {i \in 1..Len(d) : d[i].key = key} IN IF I = {} THEN 0 ELSE CHOOSE i \in I : TRUE

\* ---- where a struct field lives in the wire value ----
ByteList(b) == [i \in 1..Len(b) |-> <<b[i]>>]      \* bytes -> value of Vec<u8>
ListBytes(l) == [i \in 1..Len(l) |-> l[i][1]]
FieldVal(T, v, f) ==
  CASE T.k = "struct" -> (IF f.s = 0 THEN v[f.w] ELSE v[f.w][f.s])
    [] T.k = "block" ->
         (IF f.w > 0 THEN v.pre[f.w]
          ELSE CASE f.s = 1 -> (IF v.ver = 0 THEN v.gen ELSE <<>>)
                 [] f.s = 2 -> v.refs
                 [] f.s = 3 -> (IF v.ver # 0 /\ v.gen # <<>> THEN <<ByteList(v.gen[1])>> ELSE <<>>)
                 [] f.s = 4 -> <<v.ver>>)
    [] T.k = "pos" ->
         (CASE f.s = 1 -> v.ch
            [] f.s = 2 -> v.pk
            [] f.s = 3 -> v.cph
            [] f.s = 4 -> v.ppk
            [] f.s = 5 -> <<v.ver>>
            [] f.s = 6 -> (IF v.ver = 1 THEN SubSeq(v.par, 1, 2) ELSE <<0, 0>>)
            [] f.s = 7 -> (IF v.ver = 1 THEN <<v.par[3]>> ELSE <<0>>)
            [] f.s = 8 -> (IF v.ver = 1 THEN <<v.par[4]>> ELSE <<0>>)
            [] f.s = 9 -> (IF v.ver = 0 THEN v.par ELSE <<0>>)
            [] f.s = 10 -> v.proof)

\* ------------------------------- ToJ ---------------------------------------
RECURSIVE ToJ(_, _, _)
ToJ(C, T, v) ==
  CASE T.k = "u" -> JInt(FALSE, Norm(v))
    [] T.k = "i" -> (IF v[1] >= 128 THEN JInt(TRUE, Sub(Pow256(T.n), v)) ELSE JInt(FALSE, Norm(v)))
    [] T.k = "bool" -> JBool(v)
    [] T.k = "opt" -> (IF v = <<>> THEN JNull ELSE ToJ(C, T.t, v[1]))
    [] T.k \in {"vec", "arr"} -> JList([i \in 1..Len(v) |-> ToJ(C, T.t, v[i])])
    [] T.k = "tup" -> JList([i \in 1..Len(T.ts) |-> ToJ(C, T.ts[i], v[i])])
    [] T.k \in {"bytesn", "g1", "g2", "prog"} -> JStr(Hex0x(v))
    [] T.k = "bytes" -> (IF v = <<>> THEN JStr(<<>>) ELSE JStr(Hex0x(v)))
    [] T.k = "str" -> JStr(v)
    [] T.k = "enum" -> JInt(FALSE, Of(v))
    [] T.k = "ref" ->
         (LET Df == C.s[T.name] IN
          IF Df.k = "enum" THEN ToJ(C, Df, v)
          ELSE LET view == C.j[T.name] IN
               IF view.nt THEN ToJ(C, view.jfs[1].t, FieldVal(Df, v, view.jfs[1]))
               ELSE JDict([i \in 1..Len(view.jfs) |->
                             [key |-> KeyOf(view, view.jfs[i]), val |-> ToJ(C, view.jfs[i].t, FieldVal(Df, v, view.jfs[i]))]]))

\* ---- JSON-side oracle facts: first the facts of the byte string the value came from ----
JProgLen(C, pb) ==
  LET W == {i \in 1..Len(C.o.prog) : C.o.prog[i][2] > 0 /\ C.o.prog[i][2] = Len(pb) /\ Avail(C.b, C.o.prog[i][1], Len(pb))
                                     /\ Take(C.b, C.o.prog[i][1], Len(pb)) = pb}
      X == {i \in 1..Len(C.o.jprog) : C.o.jprog[i][1] = pb}
  IN IF W # {} THEN Len(pb) ELSE IF X # {} THEN C.o.jprog[CHOOSE i \in X : TRUE][2] ELSE 0 - 1
JPointFact(C, pb, w, wire, extra) ==
  LET W == {i \in 1..Len(wire) : Avail(C.b, wire[i][1], w) /\ Take(C.b, wire[i][1], w) = pb}
      X == {i \in 1..Len(extra) : extra[i][1] = pb}
  IN IF W # {} THEN wire[CHOOSE i \in W : TRUE]
     ELSE IF X # {} THEN LET f == extra[CHOOSE i \in X : TRUE] IN <<0, f[2], f[3]>>
     ELSE <<>>

\* ------------------------------- FromJ -------------------------------------
\* mirrors what from_json_dict accepts for the JSON kinds the property talks about; other Python
\* objects that the code happens to iterate / index (a str or dict where a list is expected, a bool
\* where an int is expected, a list of ints for a BLS element) are "unmodelled", never judged
FromHexStr(j, need0x) ==
  IF j.k # "str" THEN Bad
  ELSE LET s == j.v
           rest == IF Has0x(s) THEN SubSeq(s, 3, Len(s)) ELSE s
       IN IF need0x /\ ~Has0x(s) THEN Bad
          ELSE IF IsHex(rest) THEN JOk(UnHex(rest)) ELSE Bad

RECURSIVE FromJ(_, _, _), FromJList(_, _, _, _, _), FromJFields(_, _, _, _, _)

\* elements js[i..] against the types ts[i]; the first failing element decides
FromJList(C, ts, js, i, acc) ==
  IF i > Len(js) THEN JOk(acc)
  ELSE LET r == FromJ(C, ts[i], js[i]) IN IF r.ok THEN FromJList(C, ts, js, i + 1, Append(acc, r.v)) ELSE r

\* the fields of a view looked up by key in dict entries d; result: values in jfs order
FromJFields(C, view, d, i, acc) ==
  IF i > Len(view.jfs) THEN JOk(acc)
  ELSE LET idx == KeyIndex(d, KeyOf(view, view.jfs[i])) IN
       IF idx = 0 THEN Bad
       ELSE LET r == FromJ(C, view.jfs[i].t, d[idx].val) IN
            IF r.ok THEN FromJFields(C, view, d, i + 1, Append(acc, r.v)) ELSE r

\* wire value of a named type from its field values (jfs order)
Assemble(Df, view, fv) ==
  LET At(w, s) == fv[CHOOSE q \in 1..Len(view.jfs) : view.jfs[q].w = w /\ view.jfs[q].s = s] IN
  CASE Df.k = "struct" -> [i \in 1..Len(Df.fs) |-> IF Df.fs[i].t.k = "opt2" THEN <<At(i, 1), At(i, 2)>> ELSE At(i, 0)]
    [] Df.k = "block" ->
         (LET ver == At(0, 4)[1] IN
          [pre |-> [i \in 1..Len(Df.fs) |-> At(i, 0)], ver |-> ver,
           gen |-> IF ver = 0 THEN At(0, 1) ELSE (IF At(0, 3) = <<>> THEN <<>> ELSE <<ListBytes(At(0, 3)[1])>>),
           refs |-> IF ver = 0 THEN At(0, 2) ELSE <<>>])
    [] Df.k = "pos" ->
         (LET ver == At(0, 5)[1] IN
          [ch |-> At(0, 1), pk |-> At(0, 2), ver |-> ver, cph |-> At(0, 3), ppk |-> At(0, 4),
           par |-> IF ver = 0 THEN At(0, 9) ELSE At(0, 6) \o At(0, 7) \o At(0, 8), proof |-> At(0, 10), at |-> 0])

FromJ(C, T, j) ==
  CASE T.k = "u" ->
         (IF j.k = "int" THEN (IF ~j.neg /\ Len(j.v) <= T.n THEN JOk(PadTo(j.v, T.n)) ELSE Bad)
          ELSE IF j.k = "bool" THEN Unmod ELSE Bad)
    [] T.k = "i" ->
         (IF j.k = "int"
          THEN (IF j.neg THEN (IF Le(j.v, HalfPow(T.n)) THEN JOk(PadTo(Sub(Pow256(T.n), j.v), T.n)) ELSE Bad)
                ELSE (IF Lt(j.v, HalfPow(T.n)) THEN JOk(PadTo(j.v, T.n)) ELSE Bad))
          ELSE IF j.k = "bool" THEN Unmod ELSE Bad)
    [] T.k = "enum" ->
         (IF j.k = "int" THEN (IF ~j.neg /\ Len(j.v) <= 1 /\ ToInt(j.v) \in SeqToSet(T.vals) THEN JOk(ToInt(j.v)) ELSE Bad)
          ELSE IF j.k = "bool" THEN Unmod ELSE Bad)
    [] T.k = "bool" -> (IF j.k = "bool" THEN JOk(j.v) ELSE Bad)
    [] T.k = "str" -> (IF j.k = "str" THEN JOk(j.v) ELSE Bad)
    [] T.k = "opt" -> (IF j.k = "null" THEN JOk(<<>>) ELSE JWrap(FromJ(C, T.t, j)))
    [] T.k = "vec" ->
         (IF j.k = "list" THEN FromJList(C, [i \in 1..Len(j.v) |-> T.t], j.v, 1, <<>>)
          ELSE IF j.k \in {"str", "dict"} THEN Unmod ELSE Bad)
    [] T.k = "arr" ->
         (IF j.k = "list" THEN (IF Len(j.v) # T.n THEN Bad ELSE FromJList(C, [i \in 1..Len(j.v) |-> T.t], j.v, 1, <<>>))
          ELSE IF j.k \in {"str", "dict"} THEN Unmod ELSE Bad)
    [] T.k = "tup" ->
         (IF j.k = "list" THEN (IF Len(j.v) # Len(T.ts) THEN Bad ELSE FromJList(C, T.ts, j.v, 1, <<>>))
          ELSE IF j.k \in {"str", "dict"} THEN Unmod ELSE Bad)
    [] T.k = "bytesn" -> (LET r == FromHexStr(j, TRUE) IN IF r.ok /\ Len(r.v) # T.n THEN Bad ELSE r)
    [] T.k = "bytes" -> (IF j.k = "str" /\ j.v = <<>> THEN JOk(<<>>) ELSE FromHexStr(j, TRUE))
    [] T.k = "prog" ->
         (LET r == IF j.k = "str" /\ j.v = <<>> THEN JOk(<<>>) ELSE FromHexStr(j, TRUE) IN
          IF ~r.ok THEN r
          ELSE LET n == JProgLen(C, r.v) IN
               IF n < 0 THEN NoOrc ELSE IF n > 0 /\ n = Len(r.v) THEN r ELSE Bad)
    [] T.k = "g1" ->
         (IF j.k = "list" THEN Unmod
          ELSE LET r == FromHexStr(j, FALSE) IN
               IF ~r.ok THEN r
               ELSE IF Len(r.v) # G1W THEN Bad
               ELSE LET f == JPointFact(C, r.v, G1W, C.o.g1, C.o.jg1) IN
                    IF f = <<>> THEN NoOrc ELSE IF G1Ok(r.v, f, FALSE) THEN r ELSE Bad)
    [] T.k = "g2" ->
         (IF j.k = "list" THEN Unmod
          ELSE LET r == FromHexStr(j, FALSE) IN
               IF ~r.ok THEN r
               ELSE IF Len(r.v) # G2W THEN Bad
               ELSE LET f == JPointFact(C, r.v, G2W, C.o.g2, C.o.jg2) IN
                    IF f = <<>> THEN NoOrc ELSE IF G2Ok(r.v, f, FALSE) THEN r ELSE Bad)
    [] T.k = "ref" ->
         (LET Df == C.s[T.name] IN
          IF Df.k = "enum" THEN FromJ(C, Df, j)
          ELSE LET view == C.j[T.name] IN
               IF view.nt THEN (LET r == FromJ(C, view.jfs[1].t, j) IN IF r.ok THEN JOk(Assemble(Df, view, <<r.v>>)) ELSE r)
               ELSE IF Len(view.jfs) = 0 THEN JOk(Assemble(Df, view, <<>>))   \* a field-less struct is built from anything
               ELSE IF j.k # "dict" THEN Bad
               ELSE LET r == FromJFields(C, view, j.v, 1, <<>>) IN
                    IF r.ok THEN JOk(Assemble(Df, view, r.v)) ELSE r)

\* ------------------------------- corruption --------------------------------
\* single-position corruptions of a well-formed JSON value, named by class. A path is a sequence of
\* 1-based indices into list elements / dict entries; it ends at a value (leaf classes) or at a dict
\* entry (key_removed, null_val).
LeafClassNames == {"hex_short", "hex_long", "hex_odd", "hex_bad_first", "hex_bad_last", "no0x",
                   "int_2w", "int_m1", "int_minm1", "enum_oob", "len_short", "len_long"}
EntryClassNames == {"key_removed", "null_val"}

\* the type that renders j: options with a value, enums and single-field tuple structs are transparent
RECURSIVE Eff(_, _, _)
Eff(C, T, j) ==
  IF T.k = "opt" THEN (IF j.k = "null" THEN T ELSE Eff(C, T.t, j))
  ELSE IF T.k = "ref" THEN (LET Df == C.s[T.name] IN
                            IF Df.k = "enum" THEN Df
                            ELSE IF C.j[T.name].nt THEN Eff(C, C.j[T.name].jfs[1].t, j)
                            ELSE T)
  ELSE T
\* static variant (no value at hand): is the field optional?
RECURSIVE IsOptional(_, _)
IsOptional(C, T) ==
  IF T.k = "opt" THEN TRUE
  ELSE IF T.k = "ref" /\ C.s[T.name].k # "enum" /\ C.j[T.name].nt THEN IsOptional(C, C.j[T.name].jfs[1].t)
  ELSE FALSE

EnumGaps(T) == {x \in 0..255 : x \notin SeqToSet(T.vals)}
MinOf(S) == CHOOSE x \in S : \A y \in S : x <= y

LeafClasses(E, j) ==
  CASE E.k = "bytesn" -> (IF E.n >= 1 THEN {"hex_short", "hex_long", "hex_odd", "hex_bad_first", "hex_bad_last", "no0x"}
                          ELSE {"hex_long", "no0x"})
    [] E.k \in {"g1", "g2"} -> {"hex_short", "hex_long", "hex_odd", "hex_bad_first", "hex_bad_last"}
    [] E.k = "prog" -> {"hex_short", "hex_long", "hex_odd", "hex_bad_first", "hex_bad_last", "no0x"}
    [] E.k = "bytes" -> (IF j.v = <<>> THEN {} ELSE {"hex_odd", "hex_bad_first", "hex_bad_last", "no0x"})
    [] E.k = "u" -> {"int_2w", "int_m1"}
    [] E.k = "i" -> {"int_2w", "int_minm1"}
    [] E.k = "enum" -> {"int_2w", "int_m1"} \cup (IF EnumGaps(E) # {} THEN {"enum_oob"} ELSE {})
    [] E.k = "tup" -> (IF Len(E.ts) >= 1 THEN {"len_short", "len_long"} ELSE {})
    [] E.k = "arr" -> (IF E.n >= 1 THEN {"len_short", "len_long"} ELSE {})
    [] OTHER -> {}

\* the corrupted value at the target
Mut(E, j, cls) ==
  CASE cls = "hex_short" -> JStr(SubSeq(j.v, 1, Len(j.v) - 2))
    [] cls = "hex_long" -> JStr(j.v \o <<48, 48>>)
    [] cls = "hex_odd" -> JStr(SubSeq(j.v, 1, Len(j.v) - 1))
    [] cls = "hex_bad_first" -> JStr([j.v EXCEPT ![3] = 103])
    [] cls = "hex_bad_last" -> JStr([j.v EXCEPT ![Len(j.v)] = 103])
    [] cls = "no0x" -> JStr(SubSeq(j.v, 3, Len(j.v)))
    [] cls = "int_2w" -> (IF E.k = "i" THEN JInt(FALSE, HalfPow(E.n)) ELSE JInt(FALSE, Pow256(IF E.k = "enum" THEN 1 ELSE E.n)))
    [] cls = "int_m1" -> JInt(TRUE, <<1>>)
    [] cls = "int_minm1" -> JInt(TRUE, Add(HalfPow(E.n), <<1>>))
    [] cls = "enum_oob" -> JInt(FALSE, Of(MinOf(EnumGaps(E))))
    [] cls = "len_short" -> JList(SubSeq(j.v, 1, Len(j.v) - 1))
    [] cls = "len_long" -> JList(Append(j.v, j.v[Len(j.v)]))

\* a missing key is judged only for non-optional fields; null only where the field type has no null form
EntryClasses(C, f) ==
  (IF IsOptional(C, f.t) THEN {} ELSE {"key_removed"})
  \cup (IF FromJ(C, f.t, JNull).ok THEN {} ELSE {"null_val"})

RemoveAt(s, i) == SubSeq(s, 1, i - 1) \o SubSeq(s, i + 1, Len(s))

RECURSIVE Applicable(_, _, _, _, _)
Applicable(C, T, j, path, cls) ==
  LET E == Eff(C, T, j) IN
  IF path = <<>> THEN cls \in LeafClasses(E, j)
  ELSE LET i == path[1] IN
       CASE E.k \in {"vec", "arr"} -> j.k = "list" /\ i \in 1..Len(j.v) /\ Applicable(C, E.t, j.v[i], Tail(path), cls)
         [] E.k = "tup" -> j.k = "list" /\ i \in 1..Len(j.v) /\ Applicable(C, E.ts[i], j.v[i], Tail(path), cls)
         [] E.k = "ref" -> (LET view == C.j[E.name] IN
                            /\ j.k = "dict" /\ i \in 1..Len(j.v) /\ i <= Len(view.jfs)
                            /\ IF Len(path) = 1 /\ cls \in EntryClassNames THEN cls \in EntryClasses(C, view.jfs[i])
                               ELSE Applicable(C, view.jfs[i].t, j.v[i].val, Tail(path), cls))
         [] OTHER -> FALSE

RECURSIVE Corrupt(_, _, _, _, _)
Corrupt(C, T, j, path, cls) ==
  LET E == Eff(C, T, j) IN
  IF path = <<>> THEN Mut(E, j, cls)
  ELSE LET i == path[1] IN
       CASE E.k \in {"vec", "arr"} -> JList([j.v EXCEPT ![i] = Corrupt(C, E.t, j.v[i], Tail(path), cls)])
         [] E.k = "tup" -> JList([j.v EXCEPT ![i] = Corrupt(C, E.ts[i], j.v[i], Tail(path), cls)])
         [] E.k = "ref" -> (LET view == C.j[E.name] IN
                            IF Len(path) = 1 /\ cls = "key_removed" THEN JDict(RemoveAt(j.v, i))
                            ELSE IF Len(path) = 1 /\ cls = "null_val" THEN JDict([j.v EXCEPT ![i] = [key |-> j.v[i].key, val |-> JNull]])
                            ELSE JDict([j.v EXCEPT ![i] = [key |-> j.v[i].key, val |-> Corrupt(C, view.jfs[i].t, j.v[i].val, Tail(path), cls)]]))

\* the corrupted value / the new entry list at the end of the path (what the harness logs as "nv")
RECURSIVE SubAt(_, _, _, _)
SubAt(C, T, j, path) ==
  LET E == Eff(C, T, j) IN
  IF path = <<>> THEN [t |-> E, j |-> j]
  ELSE LET i == path[1] IN
       CASE E.k \in {"vec", "arr"} -> SubAt(C, E.t, j.v[i], Tail(path))
         [] E.k = "tup" -> SubAt(C, E.ts[i], j.v[i], Tail(path))
         [] E.k = "ref" -> SubAt(C, C.j[E.name].jfs[i].t, j.v[i].val, Tail(path))
\* keys met along a path (<<>> for a list step)
RECURSIVE KeysAt(_, _, _, _)
KeysAt(C, T, j, path) ==
  LET E == Eff(C, T, j) IN
  IF path = <<>> THEN <<>>
  ELSE LET i == path[1] IN
       CASE E.k \in {"vec", "arr"} -> <<<<>>>> \o KeysAt(C, E.t, j.v[i], Tail(path))
         [] E.k = "tup" -> <<<<>>>> \o KeysAt(C, E.ts[i], j.v[i], Tail(path))
         [] E.k = "ref" -> <<j.v[i].key>> \o KeysAt(C, C.j[E.name].jfs[i].t, j.v[i].val, Tail(path))

\* The verdict on a corrupted value, computed at the smallest enclosing sub-value. FromJ of a list / dict
\* fails as soon as one element / field fails and the untouched siblings of a well-formed value are
\* accepted (RoundTrip), so this is the verdict of FromJ on the whole corrupted value
\* (MC_JsonDict!LocalIsGlobal checks the equivalence on the model terms).
LocalFromJ(C, T, j, path, cls) ==
  IF cls \in EntryClassNames
  THEN LET par == SubAt(C, T, j, Front(path))
           i == Last(path)
           view == C.j[par.t.name]
           f == view.jfs[i]
       IN IF cls = "null_val" THEN FromJ(C, f.t, JNull)
          ELSE IF KeyIndex(RemoveAt(par.j.v, i), KeyOf(view, f)) = 0 THEN Bad
          ELSE FromJ(C, par.t, JDict(RemoveAt(par.j.v, i)))
  ELSE LET tg == SubAt(C, T, j, path) IN FromJ(C, tg.t, Mut(tg.t, tg.j, cls))

\* every applicable (path, class) of a well-formed JSON value
RECURSIVE AllCorr(_, _, _)
Prefixed(i, S) == {<<<<i>> \o pc[1], pc[2]>> : pc \in S}
AllCorr(C, T, j) ==
  LET E == Eff(C, T, j) IN
  {<<<<>>, c>> : c \in LeafClasses(E, j)}
  \cup (CASE E.k \in {"vec", "arr"} -> UNION {Prefixed(i, AllCorr(C, E.t, j.v[i])) : i \in 1..Len(j.v)}
          [] E.k = "tup" -> UNION {Prefixed(i, AllCorr(C, E.ts[i], j.v[i])) : i \in 1..Len(j.v)}
          [] E.k = "ref" -> (LET view == C.j[E.name] IN
                             UNION {{<<<<i>>, c>> : c \in EntryClasses(C, view.jfs[i])}
                                    \cup Prefixed(i, AllCorr(C, view.jfs[i].t, j.v[i].val)) : i \in 1..Len(view.jfs)})
          [] OTHER -> {})
=============================================================================
