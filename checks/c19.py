"""C19 - mempool rewrites (fast-forward, dedup) preserve spend validity and meaning."""
import json
import os
from checks.common import *


def sig(e):
    return {"event": e.get("k")}


def mc_stats(path):
    """non-vacuity of the model-checked pair menus (from the cases TLC printed)"""
    st = {"pairs": 0, "both_accepted": 0, "equal_preimage_both_accepted_lists_differ": 0, "unframed_would_confuse": 0,
          "unframed_would_confuse_both_dedup": 0, "dedup_flagged_lists": 0}
    for c in vlib.read_ndjson(path):
        st["pairs"] += 1
        acc = c["acc"][0] and c["acc"][1]
        st["both_accepted"] += 1 if acc else 0
        if c["pe"] and acc and c["c1"] != c["c2"]:
            st["equal_preimage_both_accepted_lists_differ"] += 1
        if c["ue"] and not c["pe"] and acc and not c["same"]:
            st["unframed_would_confuse"] += 1
            if c["d"][0] and c["d"][1]:
                st["unframed_would_confuse_both_dedup"] += 1
        st["dedup_flagged_lists"] += (1 if c["d"][0] else 0) + (1 if c["d"][1] else 0)
    return st


def run(tier):
    chk = vlib.Check("C19", tier)
    wd = vlib.workdir("C19")
    quick = tier == "quick"
    # ---- M + G -------------------------------------------------------------------------------
    fp_cfg = "MC_Fingerprint_quick.cfg" if quick else "MC_Fingerprint.cfg"
    ff_cfg = "MC_FastForward_quick.cfg" if quick else "MC_FastForward.cfg"
    fp_cases, fp_meta = gen_cases("MC_Fingerprint.tla", fp_cfg, workers=6, timeout=7200)
    ff_cases, ff_meta = gen_cases("MC_FastForward.tla", ff_cfg, workers=6, timeout=7200)
    for m in (fp_meta, ff_meta):
        chk.states += m["distinct"]
        chk.transitions += m["generated"]
    chk.extra["model_runs"] = {"fingerprint": dict(fp_meta, cfg=fp_cfg), "fast_forward": dict(ff_meta, cfg=ff_cfg)}
    ms = mc_stats(fp_cases)
    chk.extra["fingerprint_pair_menu"] = ms
    if ms["equal_preimage_both_accepted_lists_differ"] < 50 or ms["unframed_would_confuse"] < 10 or ms["dedup_flagged_lists"] < 100:
        raise ToolError("C19 vacuity guard (model): %r" % ms)
    ff_table = {}
    for c in vlib.read_ndjson(ff_cases):
        ff_table[c["why"]] = ff_table.get(c["why"], 0) + 1
    chk.extra["guard_table_first_failing_guard"] = ff_table
    if len(ff_table) < 11:
        raise ToolError("C19 vacuity guard (model): guard table misses a guard: %r" % ff_table)
    # ---- R: replay + seeded random -----------------------------------------------------------
    t_fp = os.path.join(wd, "fp.ndjson")
    p = vlib.harness(["mempool", "--part", "fp", "--cases", fp_cases, "--seed", chk.seed, "--out", t_fp, "--n", 250 if quick else 6000,
                      "--both-forks", 0])
    t_ff = os.path.join(wd, "ff.ndjson")
    vlib.harness(["mempool", "--part", "ff", "--cases", ff_cases, "--seed", chk.seed, "--out", t_ff, "--n", 40 if quick else 1500, "--variants", 8,
                  "--ff-tests", os.path.join(vlib.REPO, "ff-tests"), "--file-factor", 4 if quick else 40])
    nfp = sum(1 for _ in open(t_fp))
    nff = sum(1 for _ in open(t_ff))
    paths = shard_file(t_fp, max(3, min(24, nfp // 6000)), wd, "fp") + shard_file(t_ff, max(3, min(24, nff // 250)), wd, "ff")
    # ---- T: TLC judges every event -----------------------------------------------------------
    validate_parallel("Trace_Mempool.tla", paths, chk, "mempool", sig_fn=sig, jobs=6, classes=["C19", "C19_TAIL"])
    harness_bad = [m for m in getattr(chk, "raw_mismatches", []) if m[1] == "HARNESS"]
    if harness_bad:
        raise ToolError("C19: the harness' abstract description of a puzzle reveal is inconsistent (event %d)" % harness_bad[0][0])
    # ---- statistics, vacuity guard -----------------------------------------------------------
    st = {"sb": 0, "sb_accepted": 0, "spends_flagged_dedup": 0, "spends_not_flagged": 0, "pairs_equal_fingerprint": 0,
          "ff": 0, "ff_accepted": 0, "ff_refused": 0, "ff_semantic_judged": 0, "ff_from_files": 0, "ff_tail_inputs": 0}
    refusals = {}
    seen = set()
    for pth in paths:
        for e in vlib.read_ndjson(pth):
            k = e["k"]
            if k == "sb":
                st["sb"] += 1
                if e["ok"]:
                    st["sb_accepted"] += 1
                    for s, o in zip(e["spends"], e["obs"]):
                        if o["flags"] & 1:
                            st["spends_flagged_dedup"] += 1
                            chk.nontrivial_add(("fp", json.dumps(s["conds"]), json.dumps(s["amt"])))
                        else:
                            st["spends_not_flagged"] += 1
            elif k == "pair":
                st["pairs_equal_fingerprint"] += 1
                chk.nontrivial_add(("pair", json.dumps(e["ca"]), json.dumps(e["cb"])))
            elif k == "ff":
                st["ff"] += 1
                if e["src"].endswith(".spend"):
                    st["ff_from_files"] += 1
                key = ("ff", json.dumps([e["sol"], e["coin"], e["nc"], e["np"], e["structsx"], e["prog_hash"], e["inner_hash"], e["shape"]]))
                chk.nontrivial_add(key)
                if e["ff"]["ok"]:
                    st["ff_accepted"] += 1
                    ps1 = e.get("ps1")
                    if ps1 and ps1["ok"] and ps1["r"]["spends"][0]["flags"] & 4:
                        st["ff_semantic_judged"] += 1
                else:
                    st["ff_refused"] += 1
                    err = e["ff"]["err"].split("(")[0]
                    refusals[err] = refusals.get(err, 0) + 1
            if k not in seen:
                seen.add(k)
                chk.sample({x: e[x] for x in e if x not in ("a", "b", "out1", "out2", "ps1", "ps2", "consts")})
    st["ff_tail_inputs"] = len([m for m in getattr(chk, "raw_mismatches", []) if m[1] == "C19_TAIL"])
    chk.extra["events"] = st
    chk.extra["ff_refusals_by_error"] = refusals
    if (st["spends_flagged_dedup"] < 100 or st["spends_not_flagged"] < 100 or st["pairs_equal_fingerprint"] < 20 or st["ff_accepted"] < 50
            or st["ff_refused"] < 50 or st["ff_semantic_judged"] < 20 or st["ff_from_files"] < 8 or len(refusals) < 8):
        raise ToolError("C19 vacuity guard (binding): %r %r" % (st, refusals))
    chk.rule = ("M: MC_Fingerprint - pairs (base list of <= 2 conditions x one perturbation: atom replaced, byte moved between adjacent atoms, condition split, "
                "hint shape, insert, delete): equal framed preimages of two lists accepted in mempool mode => identical result of the condition machine; "
                "ELIGIBLE_FOR_DEDUP <=> no AGG_SIG / message /\\ created >= amount. MC_FastForward - guard table over worlds x deviations; Refuses, OnlyThreeFields, "
                "Sound (rewritten solution satisfies the top layer's assertions for the new coin). R/T: every pair through run_spendbundle(MEMPOOL_MODE|COMPUTE_FINGERPRINT) "
                "and every world through fast_forward_singleton on the real singleton top layer, plus seeded random bundles / spends and ff-tests/*.spend; "
                "Trace_Mempool recomputes flag, SHA256(preimage), guard, rewritten solution and runs the condition machine on the clvmr outputs of old and new solution. "
                "non-trivial = distinct dedup-flagged spends (fingerprint compared) + equal-fingerprint pairs + distinct fast_forward_singleton calls")
    chk.assumptions = ["SHA-256 via JDK override; clvmr is the oracle for running the singleton puzzle; singleton top layer and its hash from the chia-puzzles crate",
                       "clvm-traits list parsing is lenient by documentation (ignored tails); that the rewrite drops them is classified separately (C19_TAIL)",
                       "semantic clause judged for spends the condition machine flags ELIGIBLE_FOR_FF (an inner ASSERT_MY_AMOUNT restricts it to same-amount targets)"]
    chk.extra["exhaustive"] = False
    return chk.finish()
