"""C11 - all integer encoders agree on the canonical CLVM integer form."""
import json
import os
from checks.common import *


def sig(e):
    return {"event": e.get("k"), "ty": e.get("ty")}


def run(tier):
    chk = vlib.Check("C11", tier)
    wd = vlib.workdir("C11")
    cfg = "MC_Ints_quick.cfg" if tier == "quick" else "MC_Ints.cfg"
    # M + G: lemmas of ClvmInt on the boundary lattice; each state is a replay case
    cases, meta = gen_cases("MC_Ints.tla", cfg)
    chk.states += meta["distinct"]
    chk.transitions += meta["generated"]
    # R: TLC-generated cases through the real encoders, T: dense sweeps
    t1 = os.path.join(wd, "lattice.ndjson")
    vlib.harness(["ints", "--cases", cases, "--seed", chk.seed, "--out", t1])
    t2 = os.path.join(wd, "sweep.ndjson")
    if tier == "quick":
        vlib.harness(["ints", "--seed", chk.seed, "--out", t2, "--window", 300, "--random", 3000, "--random-atoms", 3000, "--random-ints", 600, "--below", 4096])
        paths = [t1] + shard_file(t2, 4, wd, "sweep")
    else:
        vlib.harness(["ints", "--seed", chk.seed, "--out", t2, "--window", 4096, "--random", 100000, "--random-atoms", 50000, "--random-ints", 10000,
                      "--below", 1 << 24, "--stride", 61])
        t3 = os.path.join(wd, "sweep2.ndjson")
        vlib.harness(["ints", "--seed", chk.seed + 1, "--out", t3, "--from", 1 << 24, "--below", 1 << 32, "--stride", 104729])
        paths = shard_file(t1, 2, wd, "lat") + shard_file(t2, 12, wd, "sweep") + [t3]
    validate_parallel("Trace_Ints.tla", paths, chk, "ints", sig_fn=sig, jobs=8)
    seen = set()
    for p in paths:
        for e in vlib.read_ndjson(p):
            key = json.dumps(e.get("v") or e.get("b") or e.get("val"))
            k = (e["k"], e.get("ty"), key)
            # non-trivial: the canonical form needs a sign byte or the atom is non-canonical / out of range
            if e["k"] == "u64" and len(e["u64b"]) != len(e["v"]):
                chk.nontrivial_add(k)
            elif e["k"] == "atom" and e["san8"]["k"] != "ok":
                chk.nontrivial_add(k)
            elif e["k"] == "int" and len(e["enc"]) != len(e["val"]["mag"]):
                chk.nontrivial_add(k)
            if len(chk.samples) < 4 and e["k"] not in seen:
                seen.add(e["k"])
                chk.sample(e)
    chk.rule = ("cases = boundary lattice and short adversarial atoms enumerated by TLC (MC_Ints) + dense value sweeps; each is pushed through "
                "Coin::coin_id, u64_to_bytes, calculate_generator_length, clvm-traits ToClvm/FromClvm, clvmr new_number/number, sanitize_uint and "
                "validated by Trace_Ints; non-trivial = canonical form needs a sign byte, or the atom is non-canonical/negative/oversized")
    chk.extra["exhaustive"] = False
    chk.extra["model_constants"] = cfg
    chk.assumptions = ["SHA-256 via JDK override", "clvmr is the interpreter's reference encoder"]
    return chk.finish()
