"""X09 (growth, not a listed property) - SEND_MESSAGE / RECEIVE_MESSAGE: a bundle is valid iff every
(mode, sender commitment, receiver commitment, message) key has as many sends as receives."""
import concurrent.futures as cf
import hashlib
import json
import os
from checks.common import *

QUICK = [("MC_Messages_cross.cfg", 8), ("MC_Messages_shapes.cfg", 4), ("MC_Messages_same_quick.cfg", 4)]
THOROUGH = [("MC_Messages_cross.cfg", 1), ("MC_Messages_shapes.cfg", 1), ("MC_Messages_same_quick.cfg", 1), ("MC_Messages_same.cfg", 1)]


def sig(e):
    return {"event": e.get("k"), "src": e.get("src"), "ok": e.get("ok"), "err": e.get("err")}


def run(tier):
    chk = vlib.Check("X09", tier)
    wd = vlib.workdir("X09")
    plan = QUICK if tier == "quick" else THOROUGH
    # M + G: the standalone machine, its invariants, and every finished behaviour as a replay case (cached by spec hash)
    with cf.ThreadPoolExecutor(max_workers=3 if tier == "quick" else 2) as ex:
        gens = list(ex.map(lambda p: gen_cases("MC_Messages.tla", p[0], workers=2 if tier == "quick" else 3, timeout=3000), plan))
    sel = os.path.join(wd, "cases.ndjson")
    nsel = 0
    with open(sel, "w") as out:
        for (cfg, stride), (path, meta) in zip(plan, gens):
            chk.states += meta["distinct"]
            chk.transitions += meta["generated"]
            with open(path) as f:
                for i, line in enumerate(f):
                    # quick tier: a seed-dependent 1/stride sample of the enumerated behaviours
                    if (i + chk.seed) % stride == 0:
                        out.write(line)
                        nsel += 1
    chk.extra["tlc_cases_replayed"] = nsel
    # R: the cases and seeded random / heavy bundles through the real parse_spends
    t = os.path.join(wd, "bundles.ndjson")
    if tier == "quick":
        vlib.harness(["messages", "--cases", sel, "--seed", chk.seed, "--out", t, "--n", 150, "--heavy", 10, "--limit", 1, "--perm-every", 5])
        paths = shard_file(t, 4, wd, "bundles")
        jobs = 4
    else:
        vlib.harness(["messages", "--cases", sel, "--seed", chk.seed, "--out", t, "--n", 6000, "--heavy", 300, "--limit", 1, "--perm-every", 3])
        paths = shard_file(t, 24, wd, "bundles")
        jobs = 6
    # T: verdict and error recomputed by the standalone machine
    validate_parallel("Trace_Messages.tla", paths, chk, "msg", sig_fn=sig, jobs=jobs, classes=["X09"])
    acc = rej = big = 0
    srcs = set()
    for e in vlib.read_ndjson(t):
        srcs.add(e["src"])
        if len(e["conds"]) >= 256:
            big += 1
        if e["ok"]:
            acc += 1
        elif e["err"] == "MessageNotSentOrReceived":
            rej += 1
        else:
            continue
        if len(e["conds"]) >= 2:
            chk.nontrivial_add(hashlib.sha256(json.dumps([e["spends"], e["conds"], e["strict"], e["cc"]]).encode()).hexdigest()[:20])
            if e["src"] in ("rand", "case") and e["ok"]:
                chk.sample({k: e[k] for k in ("src", "strict", "cc", "ok", "err")} | {"nconds": len(e["conds"])}, limit=3)
    if acc == 0 or rej == 0 or big == 0 or not {"case", "perm", "rand", "heavy", "limit"} <= srcs:
        raise ToolError("vacuous run: accepted=%d unmatched=%d big=%d sources=%s" % (acc, rej, big, sorted(srcs)))
    chk.extra["accepted"] = acc
    chk.extra["rejected_unmatched"] = rej
    chk.extra["bundles_ge_256_conditions"] = big
    chk.extra["model_constants"] = [p[0] for p in plan]
    chk.rule = ("bundles of SEND/RECEIVE_MESSAGE conditions: behaviours enumerated by TLC (MC_Messages: all 64x64 mode pairs, all 64 modes x 25 argument "
                "shapes, 3 spends x targets incl. a coin outside the bundle), their spend-reversed / condition-shuffled twins, seeded random bundles and "
                "heavy bundles (127..556 copies of one key), all run through parse_spends and judged by Trace_Messages; non-trivial = distinct bundle with "
                ">= 2 conditions whose verdict is decided by the matching rule (accepted or MessageNotSentOrReceived)")
    chk.assumptions = ["SHA-256 via JDK override", "spends of the bundle are well-formed and distinct (the harness builds them)",
                       "cost limit not reached (max_cost = 11e9)"]
    return chk.finish()
