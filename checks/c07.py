"""C07 - both block-generator execution paths agree."""
from checks.common import *
from checks import gen_pipeline


def run(tier):
    chk = vlib.Check("C07", tier)
    res = gen_pipeline.run(tier, chk.seed)
    gen_pipeline.apply(chk, res, ["C07", "C01"])   # C01 here = the native result against Generator.tla
    st = res["stats"]
    if st["both_ok"] < 100 or st["both_rejected"] < 100 or st.get("refsel_accepted_multi_ref", 0) < 20:
        raise ToolError("C07 vacuity guard: %r" % st)
    chk.rule = ("generators = every output shape of MC_GenShape (outer list / terminator / arity / field shapes / puzzles / flags / refs), wrapped as (q . out) in plain "
                "and back-reference serialisation + seeded random generators built from the condition generator (salted identity puzzles) + the repository's "
                "generator-tests corpus + reference-selecting generators (RefSelProg of Generator.tla: the first parent is block reference k of 1..3 distinct references, k in and beyond range) (programs whose output is large are judged by the pair of verdicts only); both run_block_generator and run_block_generator2 "
                "run on the same arguments and TLC evaluates Agree on the two results (and the native result against Generator.tla); non-trivial = accepted with "
                "spends, or the two paths differ, or rejected for a reason other than a malformed list; distinct by (program, flags, limit, refs, serialisation)")
    chk.assumptions = ["CLVM execution results are oracle inputs from clvmr run by the harness itself",
                       "cost comparison is made under byte cost only: the legacy path has no INTERNED_GENERATOR mode"]
    chk.extra["exhaustive"] = False
    return chk.finish()
