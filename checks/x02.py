"""X02 (growth, not a listed property) - BlockRecordMath: the proof-of-time iteration arithmetic
(chia-protocol/src/pot_iterations.rs) and the BlockRecord helpers built on it (block_record.rs).

M   MC_BlockRecord: the identities the function names promise (ip_sub_slot_total_iters + ip_iters =
    total_iters, sp_total_iters = sp_sub_slot_total_iters + sp_iters, overflow blocks shifted by exactly one
    sub-slot, sp_iters / ip_iters < sub_slot_iters, exact tiling by signage-point intervals, the domain of
    definition) hold for the TLA+ definitions of spec/BlockRecord.tla on a boundary lattice of inputs.
G   every lattice point is a replay case.
R+T the cases plus seeded random inputs run through the real functions: the Rust API in harness/vh
    (vh_blockrecord) and the pymethods, which exist only in the py-bindings build, in an embedded interpreter
    (harness/vhpy/src/bin/vhpy_blockrecord.rs); both traces are validated by Trace_BlockRecord.tla, which
    recomputes every result: a value where the spec defines one, an error exactly where it does not.
"""
import json
import os
import subprocess
from checks.common import *

U64 = (1 << 64) - 1
U128 = (1 << 128) - 1


def nat(b):
    v = 0
    for x in b:
        v = v * 256 + x
    return v


def classify(e):
    """branch class of an input, for coverage statistics, the vacuity guard and violation signatures only
    (the verdict is TLC's)"""
    n, ex, idx, ssi, req, tot, ov = e["n"], e["extra"], e["idx"], nat(e["ssi"]), nat(e["req"]), nat(e["total"]), e["overflow"]
    if n == 0:
        return "n_zero"
    if ssi % n:
        return "not_divisible"
    if idx >= n:
        return "index_out_of_range"
    if ssi == 0:
        return "ssi_zero"
    iv = ssi // n
    if req == 0:
        return "req_zero"
    if req >= iv:
        return "req_ge_interval"
    raw = (idx + ex) * iv + req
    if raw > U64:
        return "u64_overflow"
    ip = raw % ssi
    wraps = raw // ssi
    if tot < ip:
        return "total_lt_ip"
    if ov and tot - ip < ssi:
        return "overflow_flag_underflow"
    sptot = tot - ip - (ssi if ov else 0) + idx * iv
    if sptot > U128:
        return "u128_overflow"
    if ex > n:
        return "ok_extra_gt_n"
    if ov != (idx >= n - ex):
        return "ok_flag_inconsistent"
    return "ok_overflow_block" if wraps else "ok_normal_block"


REQUIRED = ["n_zero", "not_divisible", "index_out_of_range", "ssi_zero", "req_zero", "req_ge_interval", "u64_overflow", "total_lt_ip",
            "overflow_flag_underflow", "u128_overflow", "ok_flag_inconsistent", "ok_overflow_block", "ok_normal_block"]


def sig(e):
    k = e.get("k")
    if k in ("iters", "pyiters"):
        return {"event": k, "input_class": classify(e)}
    if k in ("chal", "pychal"):
        return {"event": k, "minb_zero": e.get("minb") == 0}
    return {"event": k}


def py_harness(inputs, out):
    exe = vlib.build_harness("vhpy", "vhpy_blockrecord")
    p = subprocess.run([exe, "blockrecord", "--cases", inputs, "--out", out], stdout=subprocess.PIPE, stderr=subprocess.PIPE, text=True, timeout=3000)
    if p.returncode != 0:
        raise ToolError("vhpy_blockrecord failed rc=%d:\n%s\n%s" % (p.returncode, p.stdout[-1000:], p.stderr[-3000:]))
    return p


def pipeline(chk, wd, cases, nrand, shards):
    t1 = os.path.join(wd, "rust.ndjson")
    inputs = os.path.join(wd, "inputs.ndjson")
    args = ["blockrecord", "--seed", chk.seed, "--n", nrand, "--out", t1, "--inputs-out", inputs]
    if cases:
        args += ["--cases", cases]
    vlib.harness(args)
    t2 = os.path.join(wd, "py.ndjson")
    py_harness(inputs, t2)
    paths = shard_file(t1, shards, wd, "rust") + shard_file(t2, shards, wd, "py")
    validate_parallel("Trace_BlockRecord.tla", paths, chk, "br", sig_fn=sig, jobs=4, classes=["X02"])
    return t1, t2


def run(tier):
    chk = vlib.Check("X02", tier)
    wd = vlib.workdir("X02")
    cfg = "MC_BlockRecord_quick.cfg" if tier == "quick" else "MC_BlockRecord.cfg"
    cases, meta = gen_cases("MC_BlockRecord.tla", cfg, workers=4, timeout=1500)
    chk.states += meta["distinct"]
    chk.transitions += meta["generated"]
    t1, t2 = pipeline(chk, wd, cases, 4000 if tier == "quick" else 60000, 2 if tier == "quick" else 12)
    classes = {}
    n_rust = n_py = 0
    panics = 0
    for e in vlib.read_ndjson(t1):
        n_rust += 1
        if e["k"] == "iters":
            c = classify(e)
            classes[c] = classes.get(c, 0) + 1
            if c.startswith("ok_") or c in ("u64_overflow", "total_lt_ip", "overflow_flag_underflow", "u128_overflow"):
                chk.nontrivial_add((e["n"], e["extra"], e["idx"], tuple(e["ssi"]), tuple(e["req"]), tuple(e["total"]), e["overflow"]))
        elif e["k"] == "chal" and e["r"]["k"] == "panic":
            panics += 1
    seen = set()
    for e in vlib.read_ndjson(t2):
        n_py += 1
        if e["k"] == "pyiters":
            c = classify(e)
            if c not in seen and c in ("ok_overflow_block", "ok_normal_block", "u64_overflow", "u128_overflow"):
                seen.add(c)
                chk.sample(e)
    if n_rust != n_py:
        raise ToolError("the two harnesses produced different numbers of events: %d / %d" % (n_rust, n_py))
    missing = [c for c in REQUIRED if not classes.get(c)]
    if missing:
        raise ToolError("vacuous run: input classes never exercised: %s" % missing)
    chk.rule = ("inputs = boundary lattice enumerated by TLC (MC_BlockRecord: num_sps in the cfg's Ns, extra/index at 0, n-extra-1, n-extra, n-1, n, "
                "255, interval lengths at 0..3, 2^k, real-network values and the u64 boundaries of n*iv and (idx+extra+1)*iv, required_iters at "
                "0, 1, iv-1, iv and the u64 overflow boundary, total_iters at ip-1, ip, ip+ssi-1, ip+ssi and the u128 boundary, both overflow flags) "
                "+ seeded random inputs; each goes through calculate_sp_interval_iters / calculate_sp_iters / calculate_ip_iters / is_overflow_block / "
                "BlockRecord::{sp,ip}_iters_impl (Rust) and BlockRecord.{sp_iters, ip_iters, ip_sub_slot_total_iters, sp_sub_slot_total_iters, "
                "sp_total_iters} (pymethods), judged by Trace_BlockRecord; non-trivial = distinct input whose ip_iters reaches the arithmetic "
                "(all range checks passed: a value, or a u64/u128 overflow/underflow class)")
    chk.extra["input_classes"] = classes
    chk.extra["model_constants"] = cfg
    chk.extra["lattice_cases"] = meta["cases"]
    chk.extra["is_challenge_block_panics_at_minb_0"] = panics
    chk.extra["exhaustive"] = False
    chk.assumptions = ["harness built with overflow checks (dev profile): u8 underflow in is_challenge_block(0) shows as a panic",
                       "pymethods are called through an embedded CPython with a SimpleNamespace constants object"]
    return chk.finish()


def replay(path):
    """re-run the inputs of a replay file (list of {case: event}) or of an ndjson file of events / inputs"""
    chk = vlib.Check("X02", "quick")
    wd = vlib.workdir("X02-replay")
    try:
        doc = json.load(open(path))
        evs = [d["case"] for d in doc] if isinstance(doc, list) else [doc]
    except ValueError:
        evs = list(vlib.read_ndjson(path))
    cases = os.path.join(wd, "cases.ndjson")
    keep = {"iters": ["k", "n", "extra", "idx", "ssi", "req", "total", "overflow"], "chal": ["k", "deficit", "minb"], "flags": ["k", "has_ts", "has_fcs"]}
    with open(cases, "w") as f:
        for e in evs:
            k = e["k"][2:] if e["k"].startswith("py") else e["k"]
            c = {a: e[a] for a in keep[k]}
            c["k"] = k
            f.write(json.dumps(c) + "\n")
    pipeline(chk, wd, cases, 0, 1)
    chk.rule = "replay of %s" % path
    return chk.finish()
