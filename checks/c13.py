"""C13 - wire encoding is a canonical bijection consistent with hashing.

M  MC_Streamable (scaled widths): Canon, PrefixFree, TrustedAgrees, HashIsShaOfEncoding, RoundTrip over all
   combinator terms of depth <= 2 + the block / proof-of-space grammars and all short byte strings.
G  MC_Streamable (real widths): every short byte string for the combinator instances that exist as concrete
   Rust types + abstract shapes of the three hand-written codecs (every prefix byte).
R+T the harness pushes those cases, `arbitrary` values, schema-generated boundary values and every
   single-position perturbation of the grammar-marked prefixes through from_bytes / from_bytes_unchecked /
   to_bytes / hash / == of ~190 concrete types; Trace_Streamable recomputes verdict, digest and hash from the
   schema extracted from the current sources and the logged blst / clvmr oracle facts.
"""
import hashlib
import json
import os
import sys
from checks.common import *

CLASSES = ["C13.verdict", "C13.canon", "C13.roundtrip", "C13.trusted", "C13.hash", "C13.value"]


def prepare_schema(wd):
    """registry names from the harness, type terms from the current sources"""
    p = vlib.harness(["streamable", "--mode", "list"])
    names = [l.strip() for l in p.stdout.splitlines() if l.strip()]
    if len(names) < 100:
        raise ToolError("type registry too small: %d" % len(names))
    sys.path.insert(0, os.path.join(vlib.V, "tools"))
    import schema
    res = schema.extract(vlib.REPO, names)
    path = os.path.join(wd, "schema.json")
    with open(path, "w") as f:
        json.dump(res, f)
    os.environ["SCHEMA"] = path  # read by the trace specs (IOEnv.SCHEMA)
    return path, res, names


def sig(e):
    return {"type": e.get("type"), "src": e.get("src"), "untrusted": e.get("u", {}).get("r"), "trusted": e.get("t", {}).get("r")}


def model_check(chk, tier):
    cfg = "MC_Streamable_quick.cfg" if tier == "quick" else "MC_Streamable.cfg"
    _, meta = gen_cases("MC_Streamable.tla", cfg, workers=6, timeout=3000)
    chk.states += meta["distinct"]
    chk.transitions += meta["generated"]
    chk.extra.setdefault("model_runs", {})[cfg] = meta
    return meta


def validate_traces(chk, paths, jobs=6):
    validate_parallel("Trace_Streamable.tla", paths, chk, "streamable", sig_fn=sig, jobs=jobs, classes=CLASSES, xmx="3g")
    tool = [m for m in getattr(chk, "raw_mismatches", []) if m[1] == "TOOL"]
    if tool:
        i, cls, e = tool[0]
        raise ToolError("oracle facts missing for %d events (harness walker and spec disagree), e.g. type %s bytes %s" % (len(tool), e.get("type"), json.dumps(e.get("bytes"))[:300]))


def run(tier):
    chk = vlib.Check("C13", tier)
    wd = vlib.workdir("C13")
    model_check(chk, tier)
    gcfg = "MC_Streamable_gen_quick.cfg" if tier == "quick" else "MC_Streamable_gen.cfg"
    cases, gmeta = gen_cases("MC_Streamable.tla", gcfg, workers=6, timeout=3000)
    chk.states += gmeta["distinct"]
    chk.transitions += gmeta["generated"]
    chk.extra["model_runs"][gcfg] = gmeta
    schema_path, schema, names = prepare_schema(wd)
    t = os.path.join(wd, "trace.ndjson")
    args = ["streamable", "--mode", "c13", "--schema", schema_path, "--repo", vlib.REPO, "--seed", chk.seed, "--out", t, "--cases", cases]
    if tier == "quick":
        args += ["--case-sample", 8, "--arb", 1, "--pert", 14, "--flips", 2, "--type-bytes", 40000, "--gen-bytes", 1200, "--arb-bytes", 1000]
        nshards = 6
    else:
        args += ["--case-sample", 2, "--arb", 6, "--gen", 8, "--pert", 64, "--flips", 8, "--type-bytes", 1500000, "--gen-bytes", 3000, "--arb-bytes", 4000]
        nshards = 36
    p = vlib.harness(args, timeout=3000)
    hstats = json.loads(p.stdout.strip().splitlines()[-1])
    paths = shard_file(t, nshards, wd, "trace")
    validate_traces(chk, paths)
    # statistics, vacuity guards
    by_src = hstats["by_source"]
    acc = rej = hashed = v2hash = arb_ok = trusted_only = 0
    kinds_rejected = {}
    types_seen = set()
    sampled = set()
    for pth in paths:
        for e in vlib.read_ndjson(pth):
            types_seen.add(e["type"])
            ok = e["u"]["r"] == "ok"
            acc += ok
            rej += e["u"]["r"] == "err"
            hashed += ok and e["u"].get("hash_r") == "ok"
            v2hash += ok and e["u"].get("hash_r") == "ok" and any(q[1] for q in e["orc"]["qs"])
            arb_ok += e["vrt"] == "ok"
            trusted_only += (not ok) and e["t"]["r"] == "ok"
            if e["u"]["r"] == "err":
                kinds_rejected[e["src"]] = kinds_rejected.get(e["src"], 0) + 1
            # non-trivial: the grammar rejects the input, or a perturbed / TLC-generated input is still
            # accepted (canonicity is at stake), or an oracle fact decided the parse
            if (not ok) or e["src"] not in ("arb", "gen0", "gen1", "gen2", "gen3", "hand") or any(e["orc"][k] for k in ("g1", "g2", "prog", "qs")):
                chk.nontrivial_add((e["type"], hashlib.sha256(bytes(e["bytes"])).hexdigest()[:24]))
            if e["src"] not in sampled and len(e["bytes"]) < 120:
                sampled.add(e["src"])
                chk.sample({k: e[k] for k in ("type", "src", "bytes", "u", "t", "vrt")}, limit=8)
    need = ["bool", "opt", "len", "ext", "trunc", "enum", "ver", "opt2", "point", "prog", "arb", "tlc", "tlc-tail", "tlc-segs"]
    missing = [k for k in need if by_src.get(k, 0) == 0]
    if missing or acc < 500 or rej < 500 or hashed < 500 or arb_ok < 100 or len(types_seen) < 100:
        raise ToolError("C13 vacuity guard: missing=%r accepted=%d rejected=%d hashed=%d arbitrary=%d types=%d" % (missing, acc, rej, hashed, arb_ok, len(types_seen)))
    for k in ("bool", "opt", "ext", "trunc", "enum", "ver"):
        if kinds_rejected.get(k, 0) == 0:
            raise ToolError("C13 vacuity guard: no rejected input of perturbation kind " + k)
    if hstats.get("qs_vectors", 0) > 0 and v2hash == 0:
        raise ToolError("C13 vacuity guard: the version-2 proof-of-space hash rule was never exercised")
    chk.extra["events_by_source"] = by_src
    chk.extra["accepted"] = acc
    chk.extra["rejected"] = rej
    chk.extra["hash_compared"] = hashed
    chk.extra["v2_proof_hash_compared"] = v2hash
    chk.extra["accepted_by_trusted_only"] = trusted_only
    chk.extra["arbitrary_values_roundtripped"] = arb_ok
    chk.extra["types_probed"] = len(types_seen)
    chk.extra["types_modelled"] = len(schema["top"])
    chk.extra["unmodelled"] = schema["unmodelled"]
    chk.extra["exhaustive"] = False
    chk.extra["model_constants"] = {"scaled": "LenW=1 HashW=1 G1W=G2W=2, strings <= %d over {0,1,2,128,192,255}" % (4 if tier == "quick" else 5),
                                    "gen": "real widths, strings <= %d over {0,1,2,3,255}" % (5 if tier == "quick" else 6)}
    chk.rule = ("one case = (concrete Rust type, byte string): arbitrary / schema-generated values, TLC-enumerated short strings and codec shapes, and "
                "single-position perturbations of every grammar-marked prefix, truncation, extension, bit flips; each is decoded by from_bytes and "
                "from_bytes_unchecked, re-encoded, hashed, compared, and judged by Trace_Streamable against the grammar of the extracted schema; "
                "non-trivial = the grammar rejects the input, or a perturbed / generated input is still accepted, or an oracle fact (point validity, "
                "program length, quality string) decides the parse; distinct by (type, bytes)")
    chk.assumptions = ["SHA-256 via JDK override (TLC) and the sha2 crate (harness)",
                       "point validity and program length are oracle facts from raw blst / clvmr at the positions the grammar asks for",
                       "quality-string commitments of v2 proofs: repository test vectors, else ProofOfSpace::quality_string() (wrapper of the external chia-pos2 crate)",
                       "equality of decoded values is observed through re-encoding and PartialEq, not reconstructed in TLA+",
                       "hash() panics are classified under C14 only"]
    return chk.finish()


def replay(path):
    """re-run the failing byte strings of a replay file"""
    wd = vlib.workdir("C13")
    vlib.EVID = os.path.join(wd, "replay-evidence")
    vlib.REPLAYS = os.path.join(wd, "replay-out")  # a replay must not overwrite the evidence of the last run
    chk = vlib.Check("C13", "quick")
    schema_path, schema, names = prepare_schema(wd)
    cases = os.path.join(wd, "replay-cases.ndjson")
    with open(cases, "w") as f:
        for v in json.load(open(path)):
            e = v["case"]
            f.write(json.dumps({"k": "bytes", "type": e["type"], "bytes": e["bytes"]}) + "\n")
    t = os.path.join(wd, "replay.ndjson")
    vlib.harness(["streamable", "--mode", "c13", "--schema", schema_path, "--repo", vlib.REPO, "--seed", chk.seed, "--out", t, "--cases", cases, "--types", "-"])
    validate_traces(chk, [t], jobs=1)
    return chk.finish()
