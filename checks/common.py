"""Helpers shared by the per-property check modules."""
import json
import os
import sys
import concurrent.futures as cf

sys.path.insert(0, "/verif/lib")
import vlib
from vlib import ToolError, log


def gen_cases(spec, cfg, workers=8, timeout=1800, key_extra="", env=None, simulate=None, depth=None, seed=None):
    """Run an MC spec whose invariant prints CASE lines; cache the cases by spec hash.
    returns (path, meta) where meta has generated/distinct."""
    def gen(out):
        n = [0]
        def sink(o):
            out.write(json.dumps(o) + "\n")
            n[0] += 1
        r = vlib.tlc(spec, cfg=cfg, workers=workers, timeout=timeout, tag="gen", case_sink=sink, env=env, simulate=simulate, depth=depth, seed=seed)
        if not r.ok:
            raise ToolError("model checking failed for %s/%s:\n%s" % (spec, cfg, r.error or r.out[-3000:]))
        return {"generated": r.generated, "distinct": r.distinct, "cases": n[0], "wall": r.wall}
    return vlib.cached_cases([spec, cfg], gen, extra=key_extra + str(simulate) + str(depth) + str(seed))


def validate(spec, trace_path, chk, tag, timeout=3600, sig_fn=None, xmx="4g", classes=None):
    """Validate one ndjson trace with a trace spec. Mismatching events (index, class) become
    violations when their class is in `classes` (None = all). Returns the raw mismatch list."""
    r = vlib.validate_trace(spec, trace_path, tag, timeout=timeout, xmx=xmx)
    if not r.ok:
        raise ToolError("trace validation crashed (%s on %s):\n%s" % (spec, trace_path, r.error or r.out[-3000:]))
    if "CONSUMED" not in r.tags or "MISMATCH" not in r.tags or "NMISMATCH" not in r.tags:
        raise ToolError("trace validation produced no acceptance report (%s on %s):\n%s" % (spec, trace_path, r.out[-2000:]))
    consumed = r.tags["CONSUMED"][-1]
    mism = r.tags["MISMATCH"][-1]
    nmism = r.tags["NMISMATCH"][-1][0]
    if not isinstance(mism, list) or (nmism > 0) != (len(mism) > 0):
        raise ToolError("inconsistent acceptance report: %r %r" % (nmism, mism))
    chk.add_tlc(r)
    if consumed[0] != consumed[1]:
        raise ToolError("trace not fully consumed: %s (%s)" % (consumed, trace_path))
    chk.traces += 1
    chk.evaluations += consumed[1]
    out = []
    if mism:
        evs = list(vlib.read_ndjson(trace_path))
        for i, cls in mism:
            e = evs[i - 1]
            out.append((i, cls, e))
            if classes is None or cls in classes:
                sig = sig_fn(e) if sig_fn else {"event": e.get("k")}
                sig["class"] = cls
                chk.violation(sig, "%s: event %d of %s rejected by the specification (%s)" % (spec, i, os.path.basename(trace_path), cls), e)
    chk.raw_mismatches = getattr(chk, "raw_mismatches", []) + out
    return r


def shard_file(path, n, outdir, prefix):
    """split an ndjson file into n shards (round-robin by blocks)"""
    outs = [open(os.path.join(outdir, "%s-%d.ndjson" % (prefix, i)), "w") for i in range(n)]
    with open(path) as f:
        for i, line in enumerate(f):
            outs[i % n].write(line)
    for o in outs:
        o.close()
    return [o.name for o in outs]


def validate_parallel(spec, paths, chk, tag, sig_fn=None, jobs=6, timeout=3600, xmx="3g", classes=None):
    """validate several trace files with parallel TLC processes; merge results in order"""
    import copy
    results = []
    def one(p):
        sub = vlib.Check(chk.pid, chk.tier)
        sub.known = chk.known
        validate(spec, p, sub, tag, sig_fn=sig_fn, timeout=timeout, xmx=xmx, classes=classes)
        return sub
    with cf.ThreadPoolExecutor(max_workers=jobs) as ex:
        for sub in ex.map(one, paths):
            chk.states += sub.states
            chk.transitions += sub.transitions
            chk.traces += sub.traces
            chk.evaluations += sub.evaluations
            chk.violations += sub.violations
            chk.raw_mismatches = getattr(chk, 'raw_mismatches', []) + getattr(sub, 'raw_mismatches', [])
            for k in sub.known_hit:
                if k not in chk.known_hit:
                    chk.known_hit.append(k)
