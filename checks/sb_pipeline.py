"""Shared pipeline of the spend-bundle path (C08, and C02 / C04 / C09 on run_spendbundle):
MC_Bundle cases, seeded random bundles from the condition generator, recorded test-bundles;
each bundle runs through run_spendbundle, solution_generator(_backrefs) + run_block_generator2,
both block builders, calculate_generator_length and SpendBundle::additions; TLC (Trace_Bundle)
validates every event. Cached per harness binary + spec + tier + seed."""
import hashlib
import json
import os
import time
from checks.common import *
from checks.cond_pipeline import file_hash


def sig(e):
    return {"event": "sb", "src": e.get("src") if e.get("src") in ("mc", "random", "frontier") else "corpus", "flags": sorted(e.get("flags", []))}


def run(tier, seed):
    exe = vlib.build_harness("vh", "vh_bundle")
    key = "%s-%s-%s-%s-%d" % (file_hash(__file__)[:8], file_hash(exe), vlib.spec_hash("Conditions.tla", "ConditionsObs.tla", "Generator.tla", "Bundle.tla", "Trace_Bundle.tla", "MC_Bundle.tla", "CondMenus.tla"), tier, seed)
    wd = vlib.workdir("sb")
    cache = os.path.join(wd, "result-%s.json" % key)
    if os.path.exists(cache):
        log("bundle pipeline: reusing result of the same harness binary/spec/tier/seed")
        return json.load(open(cache))
    t0 = time.time()
    chk = vlib.Check("sb", tier)
    res = {"mc": {}}
    cases, meta = gen_cases("MC_Bundle.tla", "MC_Bundle.cfg", workers=8, timeout=3600)
    res["mc"]["bundle"] = meta
    sel = os.path.join(wd, "cases-sel.ndjson")
    with open(sel, "w") as f:
        for i, line in enumerate(open(cases)):
            if tier != "quick" or (i + seed) % 5 == 0:
                f.write(line)
    paths = []
    t = os.path.join(wd, "replay.ndjson")
    vlib.harness(["bundle", "--cases", sel, "--seed", seed, "--out", t])
    paths += shard_file(t, 5 if tier == "quick" else 12, wd, "replay")
    t = os.path.join(wd, "random.ndjson")
    vlib.harness(["bundle", "--seed", seed, "--out", t, "--n", 90 if tier == "quick" else 2500, "--corpus", "/repo/test-bundles", "--corpus-limit", 6 if tier == "quick" else 200], timeout=7200)
    paths += shard_file(t, 3 if tier == "quick" else 16, wd, "random")
    validate_parallel("Trace_Bundle.tla", paths, chk, "sb", sig_fn=sig, jobs=8, classes=[], timeout=7200)
    res["states"] = meta["distinct"] + chk.states
    res["transitions"] = meta["generated"] + chk.transitions
    res["traces"] = chk.traces
    res["events"] = chk.evaluations
    res["mismatch"] = [{"cls": c, "index": i, "sig": sig(e), "event": e if len(json.dumps(e)) < 150000 else {"src": e.get("src"), "flags": e.get("flags")}}
                       for (i, c, e) in getattr(chk, "raw_mismatches", [])][:300]
    stats = {"direct_ok": 0, "plain_ok": 0, "builders_ok": 0, "wrong_puzzle_hash": 0, "corpus": set()}
    nontrivial = set()
    samples = []
    for p in paths:
        for e in vlib.read_ndjson(p):
            d = e["direct"]["ok"]
            stats["direct_ok"] += d
            stats["plain_ok"] += bool(e["plain"].get("native", {}).get("ok"))
            stats["builders_ok"] += bool(e["cb"].get("native", {}).get("ok")) and bool(e["ib"].get("native", {}).get("ok"))
            stats["wrong_puzzle_hash"] += e["direct"].get("errname") == "Err(WrongPuzzleHash)"
            if e["src"] not in ("mc", "random", "frontier"):
                stats["corpus"].add(e["src"])
            if d and e["direct"]["r"]["spends"]:
                nontrivial.add(hashlib.sha256(json.dumps([e["spends"], e["flags"], e["max"]]).encode()).hexdigest()[:20])
                if len(samples) < 2 and len(json.dumps(e["spends"])) < 1500:
                    samples.append({"spends": e["spends"], "flags": e["flags"], "direct_cost": e["direct"]["r"]["cost"], "plain_len": e["plain"]["len"], "plain_cost": e["plain"]["native"]["r"]["cost"] if e["plain"]["native"]["ok"] else None})
    stats["corpus"] = sorted(stats["corpus"])
    res["stats"] = stats
    res["nontrivial"] = len(nontrivial)
    res["samples"] = samples
    res["wall"] = time.time() - t0
    json.dump(res, open(cache, "w"))
    return res


def apply(chk, res, classes):
    chk.states += res["states"]
    chk.transitions += res["transitions"]
    chk.traces += res["traces"]
    chk.evaluations += res["events"]
    for i in range(res["nontrivial"]):
        chk.nontrivial_add(("sb", i))
    for s in res["samples"]:
        chk.sample(s)
    chk.extra.setdefault("model_runs", {}).update(res["mc"])
    chk.extra["bundle_stats"] = res["stats"]
    chk.extra.setdefault("entry_points", [])
    if "run_spendbundle" not in chk.extra["entry_points"]:
        chk.extra["entry_points"].append("run_spendbundle")
    for m in res["mismatch"]:
        if m["cls"] in classes:
            s = dict(m["sig"])
            s["class"] = m["cls"]
            chk.violation(s, "bundle event %d disagrees with Bundle.tla (%s)" % (m["index"], m["cls"]), m["event"])
