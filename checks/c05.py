"""C05 - signature acceptance binds each AGG_SIG condition to its domain-separated text."""
from checks.common import *
from checks import sig_pipeline


def run(tier):
    chk = vlib.Check("C05", tier)
    res = sig_pipeline.run(tier, chk.seed)
    sig_pipeline.apply(chk, res, ["C05"])
    if res["accepted"] < 30 or res["rejected"] < 100:
        raise ToolError("C05 vacuity guard: accepted=%d rejected=%d" % (res["accepted"], res["rejected"]))
    chk.extra["exhaustive"] = False
    chk.rule = ("M: MC_AggSig - all pairs of the 8 AGG_SIG opcodes x amounts of every encoding-length class x messages: required text per opcode (DomainSeparated), every "
                "single-point tampering changes the bag, banned UNSAFE suffixes / invalid keys invalidate the bundle; every case is replayed: the harness signs the spec's "
                "required list and each tampered list with real secret keys; random bundles are signed with the pairs the code itself reports and tampered; TLC "
                "(Trace_AggSig) requires each verdict of parse_spends {no cache, cold, same cache again, pre-warmed cache}, run_block_generator2 and "
                "validate_clvm_and_signature to equal (bundle valid and signed bag = required bag) and make_aggsig_final_message to yield the required messages; "
                "non-trivial = events with a non-empty signed bag, distinct by (bundle, signed list)")
    chk.assumptions = ["symbolic signature model: an aggregate verifies iff the bag of signed (key, message) pairs equals the required bag (BLS security, augmented scheme)",
                       "chia_bls::sign/aggregate and blst are trusted here (bound by C15/C16)"]
    return chk.finish()
