"""C05 - signature acceptance binds each AGG_SIG condition to its domain-separated text."""
import json
import os
from checks.common import *


def sig(e):
    return {"event": "sig", "kind": e.get("kind")}


def run(tier):
    chk = vlib.Check("C05", tier)
    wd = vlib.workdir("C05")
    cases, meta = gen_cases("MC_AggSig.tla", "MC_AggSig.cfg", workers=8, timeout=3600)
    chk.states += meta["distinct"]
    chk.transitions += meta["generated"]
    chk.extra["model"] = meta
    sel = os.path.join(wd, "cases-sel.ndjson")
    step = 14 if tier == "quick" else 2
    with open(sel, "w") as f:
        for i, line in enumerate(open(cases)):
            if (i + chk.seed) % step == 0:
                f.write(line)
    t1 = os.path.join(wd, "replay.ndjson")
    vlib.harness(["aggsig", "--cases", sel, "--seed", chk.seed, "--out", t1], timeout=7200)
    t2 = os.path.join(wd, "random.ndjson")
    vlib.harness(["aggsig", "--seed", chk.seed, "--out", t2, "--n", 40 if tier == "quick" else 1500], timeout=7200)
    paths = shard_file(t1, 6 if tier == "quick" else 16, wd, "replay") + shard_file(t2, 2 if tier == "quick" else 8, wd, "random")
    validate_parallel("Trace_AggSig.tla", paths, chk, "sig", sig_fn=sig, jobs=8, classes=["C05"], timeout=7200)
    acc = rej = 0
    kinds = {}
    for p in paths:
        for e in vlib.read_ndjson(p):
            ok = e["res"]["ps"] is True
            acc += ok
            rej += not ok
            kinds[e["kind"]] = kinds.get(e["kind"], 0) + 1
            if e["signed"]:
                chk.nontrivial_add(json.dumps([e["spends"], e["signed"]])[:6000])
            if ok and e["signed"]:
                chk.sample({"kind": e["kind"], "signed": e["signed"][:2], "res": e["res"]}, limit=2)
            elif not ok and e["kind"] == "flip":
                chk.sample({"kind": e["kind"], "res": e["res"]}, limit=4)
    if acc < 30 or rej < 100:
        raise ToolError("C05 vacuity guard: accepted=%d rejected=%d" % (acc, rej))
    chk.extra.update({"accepted_signatures": acc, "rejected_signatures": rej, "kinds": kinds, "exhaustive": False})
    chk.rule = ("M: MC_AggSig - all pairs of the 8 AGG_SIG opcodes x amounts of every encoding-length class x messages: required text per opcode (DomainSeparated), every "
                "single-point tampering changes the bag, banned UNSAFE suffixes / invalid keys invalidate the bundle; every case is replayed: the harness signs the spec's "
                "required list and each tampered list with real secret keys; random bundles are signed with the pairs the code itself reports and tampered; TLC "
                "(Trace_AggSig) requires each verdict of parse_spends {no cache, cold, same cache again, pre-warmed cache}, run_block_generator2 and "
                "validate_clvm_and_signature to equal (bundle valid and signed bag = required bag) and make_aggsig_final_message to yield the required messages; "
                "non-trivial = events with a non-empty signed bag, distinct by (bundle, signed list)")
    chk.assumptions = ["symbolic signature model: an aggregate verifies iff the bag of signed (key, message) pairs equals the required bag (BLS security, augmented scheme)",
                       "chia_bls::sign/aggregate and blst are trusted here (bound by C15/C16)"]
    return chk.finish()
