"""C01 - spend conditions are accepted, rejected and summarised exactly per the rules."""
from checks.common import *
from checks import cond_pipeline


def run(tier):
    chk = vlib.Check("C01", tier)
    res = cond_pipeline.run(tier, chk.seed)
    cond_pipeline.apply(chk, res, ["C01"],
        "inputs = every terminal state of MC_Cond (opcode x argument-shape x flag x visitor menus: single, struct, twobyte, cross[, pair]) "
        "+ seeded random near-valid and mutated bundles; each runs through parse_spends<EmptyVisitor|MempoolVisitor> and TLC (Trace_Conditions) "
        "re-runs the Conditions machine on the logged input and compares verdict and the whole summary; non-trivial = rejected, or accepted with "
        "at least one effectful condition; distinct by (tree, flags, limit, visitor)")
    chk.assumptions = ["SHA-256 via JDK override", "public-key validity decided by raw blst (oracle table in each event)",
                       "signature checking covered by C05 (here: identity signature, verified iff nothing to sign)"]
    chk.extra["exhaustive"] = False
    return chk.finish()
