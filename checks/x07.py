"""X07 (growth, not a listed property) - the read side of the DataLayer Merkle blob: iterators, lineage / key / hash
queries, inclusion-proof validity (completeness and single-point tamper soundness) and the delta reader."""
import hashlib
import json
import os
from checks.common import *


def nnodes(t):
    return 0 if t["t"] == "E" else 1 if t["t"] == "L" else 1 + nnodes(t["l"]) + nnodes(t["r"])


def ndirty(t):
    return 0 if t["t"] != "N" else (1 if t["d"] else 0) + ndirty(t["l"]) + ndirty(t["r"])


def sig(e):
    """stable signature of a rejected view: which family of results is affected is not known to the driver (the
    specification judges the whole event), so the signature is the shape class of the state"""
    t = e.get("tree", {})
    n = nnodes(t) if t.get("t") in ("E", "L", "N") else -1
    return {"event": "view", "nodes": "0" if n == 0 else "1" if n == 1 else "3" if n == 3 else "more", "dirty": ndirty(t) > 0 if n > 0 else False}


def run(tier):
    chk = vlib.Check("X07", tier)
    wd = vlib.workdir("X07")
    for f in os.listdir(wd):
        if f.endswith(".ndjson"):
            os.unlink(os.path.join(wd, f))
    quick = tier == "quick"
    cfgs = ["MC_BlobViews_quick.cfg"] if quick else ["MC_BlobViews_quick.cfg", "MC_BlobViews.cfg"]
    paths = []
    chk.extra["model_runs"] = {}
    for ci, cfg in enumerate(cfgs):
        # M + G: read-side invariants on every reachable tree; one history per (state, last call)
        cases, meta = gen_cases("MC_BlobViews.tla", cfg, workers=4, timeout=2400)
        chk.states += meta["distinct"]
        chk.transitions += meta["generated"]
        t1 = os.path.join(wd, "replay%d.ndjson" % ci)
        p = vlib.harness(["blobviews", "--cases", cases, "--seed", chk.seed, "--out", t1])
        chk.extra["model_runs"][cfg] = dict(meta, replay=p.stderr.strip().splitlines()[-1:])
        paths += shard_file(t1, 2 if quick else 6, wd, "replay%d" % ci)
    # T: seeded random histories (bigger trees, deep lineages, many dirty nodes)
    t2 = os.path.join(wd, "random.ndjson")
    vlib.harness(["blobviews", "--seed", chk.seed, "--out", t2, "--hist", 2 if quick else 40, "--len", 22 if quick else 40, "--keys", 14 if quick else 30])
    paths += shard_file(t2, 2 if quick else 6, wd, "random")
    validate_parallel("Trace_BlobViews.tla", paths, chk, "bviews", sig_fn=sig, jobs=4, classes=["X07"], timeout=3000)
    for i, cls, e in getattr(chk, "raw_mismatches", []):
        if cls != "X07":
            raise ToolError("trace plumbing mismatch (%s) at event %d" % (cls, i))
    st = {"views": 0, "dirty_views": 0, "max_nodes": 0, "sub_iterations": 0, "lineages": 0, "max_lineage": 0, "proofs": 0, "tampered": 0, "tampered_still_valid": 0,
          "delta_generations": 0, "delta_shared": 0, "delta_fetch": 0, "delta_early_err": 0, "delta_early_ok": 0, "withheld_builds_err": 0, "filtered_probes": 0, "kidx_err": 0, "kidx_ok": 0}
    kinds = {}
    for p in paths:
        for e in vlib.read_ndjson(p):
            st["views"] += 1
            n = nnodes(e["tree"])
            st["max_nodes"] = max(st["max_nodes"], n)
            d = ndirty(e["tree"])
            st["dirty_views"] += 1 if d else 0
            st["sub_iterations"] += len(e["its"]) - 1
            st["lineages"] += len(e["lineage"])
            st["max_lineage"] = max([st["max_lineage"]] + [len(x["idx"]) for x in e["lineage"]])
            for x in e["kidx"]:
                st["kidx_" + ("ok" if x["k"] == "ok" else "err")] += 1
            for pr in e["proofs"]:
                st["proofs"] += 1
                for tq in pr.get("tampered", []):
                    st["tampered"] += 1
                    kinds[tq["kind"]] = kinds.get(tq["kind"], 0) + 1
                    if tq["valid"] == "true":
                        st["tampered_still_valid"] += 1
            dl = e["delta"]
            if dl["k"] == "some":
                st["delta_generations"] += 1
                st["delta_shared"] += 1 if dl["missing"]["set"] and dl["given"] else 0
                st["delta_fetch"] += len(dl["fetch"])
                st["delta_early_" + ("ok" if dl["early"]["k"] == "ok" else "err")] += 1
                st["withheld_builds_err"] += 1 if dl["build_d"]["k"] == "err" else 0
                st["filtered_probes"] += len(dl["after_filter"])
            if n >= 3:
                chk.nontrivial_add(hashlib.sha256(json.dumps([e["tree"], e["ptree"]], sort_keys=True).encode()).hexdigest()[:20])
            if n in (3, 5) and len(json.dumps(e)) < 40000:
                chk.sample({k: e[k] for k in ("tree", "its", "dirty_lcf", "kidx", "lineage")}, limit=2)
    st["tamper_kinds"] = kinds
    chk.extra["view_stats"] = st
    vac = []
    need = {"views": 100, "dirty_views": 20, "sub_iterations": 100, "lineages": 200, "proofs": 100, "tampered": 1000, "tampered_still_valid": 5, "delta_generations": 80,
            "delta_shared": 20, "delta_fetch": 20, "delta_early_err": 20, "delta_early_ok": 5, "withheld_builds_err": 50, "filtered_probes": 50, "kidx_err": 50, "kidx_ok": 100}
    for k, v in need.items():
        if st[k] < v:
            vac.append("%s = %d < %d" % (k, st[k], v))
    for k in ("node", "flip", "swap", "drop", "other", "comb"):
        if kinds.get(k, 0) < 20:
            vac.append("tamper kind %s tried %d times" % (k, kinds.get(k, 0)))
    if st["max_nodes"] < 9 or st["max_lineage"] < 4:
        vac.append("largest tree has %d nodes, longest lineage %d" % (st["max_nodes"], st["max_lineage"]))
    chk.extra["vacuity_guard"] = vac or "passed"
    if vac and not chk.violations:
        raise ToolError("X07 vacuity guard: " + "; ".join(vac))
    chk.rule = ("M: MC_BlobViews (%s) = the state space of MC_MerkleBlob with the BlobViews invariants on every reachable tree: each iterator machine equals its traversal "
                "(post-order left first / level order / level order leaves only), visits every node (leaf) under every sub-root exactly once, children before parents (lazy hashing order "
                "over the dirty nodes), lineage = path to the root, key/hash queries agree with the map, every key has an accepted proof and no single-point tampering "
                "(node hash, side flip, layer swap, layer drop, other hash, combined hash; x over all hashes of the tree and a foreign one) is accepted for the same root, "
                "delta reader: missing hashes = frontier of any withheld subset, build succeeds iff nothing withheld, fetching the missing subtrees closes the set and rebuilds the same tree; "
                "R: TLC histories replayed on a real MerkleBlob, T: seeded random histories; after every successful call one view event (iterators from the root and sub-roots, dirty-only iterator, "
                "get_keys_values/get_key_index/get_lineage_*/get_hashes*/get_node_by_hash, get_proof_of_inclusion + valid()/root_hash() on all single-point tamperings, get_internal_terminal, "
                "DeltaReader new/get_missing_hashes/collect_from_merkle_blob/create_merkle_blob_and_filter_unused_nodes against the previous generation) is recomputed by Trace_BlobViews "
                "from the logged tree with the real SHA-256; non-trivial = a view of a tree with >= 3 nodes, distinct by (tree, previous tree)") % "+".join(cfgs)
    chk.assumptions = ["the tree as walked through get_node from block 0 is the reference shape (its conformance to the write-side specification is C18's subject)",
                       "SHA-256 via JDK override (collision resistance); internal hashes are a free constructor in the model-checking run",
                       "collect_and_return_from_merkle_blobs, DeltaFileCache and dot.rs are not covered; a batch with a repeated key/hash (C18's known finding) is not driven",
                       "tamper positions / sub-roots / lineages are sampled (seeded) on trees with more than 4 keys"]
    chk.extra["model_constants"] = cfgs
    return chk.finish()
