"""X03 (growth, not a listed property) - the legacy (wrapping) mode of check_time_locks next to the
saturating one, and OwnedSpendBundleConditions::from as a projection of the borrowed summary."""
import hashlib
import json
import os
from checks.common import *

CODES = [13, 14, 15, 105, 128, 129, 130, 131, 138, 139, 146]


def sig(e):
    s = {"event": e.get("k")}
    if e.get("k") == "lat":
        s["prediction_mismatches"] = e.get("nmis", 0) > 0
    if e.get("k") == "own":
        s["src"] = e.get("src")
        s["perturbed"] = e.get("perturbed")
    if e.get("k") == "tree":
        s["parse_ok"] = e.get("parse_ok")
    if e.get("k") == "probe":
        s["name"] = e.get("name")
    return s


def h(obj):
    return hashlib.sha256(json.dumps(obj, sort_keys=True).encode()).hexdigest()[:20]


def run(tier):
    chk = vlib.Check("X03", tier)
    wd = vlib.workdir("X03")
    quick = tier == "quick"
    # M + G: the four lemmas over the boundary lattice; every summary is a replay case with both verdict tables
    cfg = "MC_LegacyLocks.cfg" if quick else "MC_LegacyLocks_3.cfg"
    cases, meta = gen_cases("MC_LegacyLocks.tla", cfg, workers=4, timeout=3000)
    chk.states += meta["distinct"]
    chk.transitions += meta["generated"]
    chk.extra["model"] = {"cfg": cfg, **meta}
    points = differ_points = 0
    diffset = None
    for c in vlib.read_ndjson(cases):
        if c["k"] == "diffset":
            diffset = {"height": {k: v for k, v in c["h"].items() if k != "pts"}, "seconds": {k: v for k, v in c["s"].items() if k != "pts"},
                       "sample_points_birth_delta_now": c["h"]["pts"][:3]}
        else:
            points += len(c["nowrap"])
            differ_points += sum(1 for a, b in zip(c["nowrap"], c["legacy"]) if a != b)
    if diffset is None:
        raise ToolError("X03: the model run printed no difference set")
    # menu bundles of the condition machine (TLC-enumerated) for the owned projection
    menus = [gen_cases("MC_Cond.tla", "MC_Cond_single.cfg", workers=4, timeout=3000)[0]]
    if not quick:
        menus.append(gen_cases("MC_Cond.tla", "MC_Cond_pairq.cfg", workers=4, timeout=3000)[0])
    t_lat = os.path.join(wd, "lat.ndjson")
    vlib.harness(["legacylocks", "--cases", cases, "--seed", chk.seed, "--out", t_lat, "--sample", 6])
    t_rnd = os.path.join(wd, "rnd.ndjson")
    vlib.harness(["legacylocks", "--seed", chk.seed, "--out", t_rnd, "--n", 1000 if quick else 12000, "--trees", 1000 if quick else 12000, "--chains", 8])
    paths = shard_file(t_lat, 2 if quick else 8, wd, "lat") + shard_file(t_rnd, 2 if quick else 12, wd, "rnd")
    own_paths = []
    for i, m in enumerate(menus):
        t_own = os.path.join(wd, "own-%d.ndjson" % i)
        vlib.harness(["legacylocks", "--seed", chk.seed + i, "--out", t_own, "--own-cases", m, "--own", (400 if quick else 4000) if i == 0 else 0, "--probe", 1 if i == 0 else 0,
                      "--own-every", 3 if quick else 1])
        own_paths += shard_file(t_own, 2 if quick else 4, wd, "own-%d" % i)
    paths += own_paths
    validate_parallel("Trace_LegacyLocks.tla", paths, chk, "x03", sig_fn=sig, jobs=4, classes=["X03"])

    st = {"lat_cases": 0, "lat_points_replayed": 0, "lat_points_modes_differ": 0, "lat_cases_modes_differ": 0, "rnd_points": 0, "rnd_points_modes_differ": 0,
          "tree_bundles_accepted": 0, "tree_points": 0, "tree_points_modes_differ": 0, "tree_points_pass_legacy": 0,
          "own_accepted": 0, "own_rejected_at_parse": 0, "own_with_created_coins": 0, "own_with_hints": 0, "own_with_agg_sigs": 0,
          "own_fingerprint_kept": 0, "own_fingerprint_dropped": 0, "own_encoded_bytes": 0}
    codes = {"nowrap": set(), "legacy": set()}
    probes = []

    def point(p):
        codes["nowrap"].add(p["nowrap"])
        codes["legacy"].add(p["legacy"])

    for p in paths:
        for e in vlib.read_ndjson(p):
            k = e["k"]
            if k == "lat":
                st["lat_cases"] += 1
                st["lat_points_replayed"] += e["n"]
                st["lat_points_modes_differ"] += e["ndiffer"]
                if e["ndiffer"]:
                    st["lat_cases_modes_differ"] += 1
                    chk.nontrivial_add(("lat", h(e["agg"])))
                    chk.sample({"k": "lat", "agg": e["agg"], "chain_states": e["n"], "modes_differ_in": e["ndiffer"], "sample": e["sample"][:2]}, limit=2)
                for s in e["sample"]:
                    point(s)
            elif k == "rnd":
                for s in e["sample"]:
                    st["rnd_points"] += 1
                    point(s)
                    if s["nowrap"] != s["legacy"]:
                        st["rnd_points_modes_differ"] += 1
                        chk.nontrivial_add(("rnd", h([e["agg"], s])))
                        chk.sample({"k": "rnd", "agg": e["agg"], "chain": s}, limit=3)
            elif k == "tree":
                if e["parse_ok"]:
                    st["tree_bundles_accepted"] += 1
                for s in e["chains"]:
                    st["tree_points"] += 1
                    point(s)
                    if s["legacy"] == 0:
                        st["tree_points_pass_legacy"] += 1
                    if s["nowrap"] != s["legacy"]:
                        st["tree_points_modes_differ"] += 1
                        chk.nontrivial_add(("tree", h([e["tree"], s])))
                        chk.sample({"k": "tree", "tree": e["tree"], "chain": s}, limit=4)
            elif k == "own":
                if not e["ok"]:
                    st["own_rejected_at_parse"] += 1
                    continue
                st["own_accepted"] += 1
                o, b = e["o"], e["b"]
                cc = any(s["cc"] for s in o["spends"])
                hint = any(x["hint"]["k"] == "some" for s in o["spends"] for x in s["cc"])
                ag = bool(o["unsafe"]) or any(s[f] for s in o["spends"] for f in ("me", "parent_sigs", "puzzle", "amount", "puzzle_amount", "parent_amount", "parent_puzzle"))
                kept = any(s["fp"] and any(s["fp"]) for s in o["spends"])
                dropped = any((not so["fp"]) and any(sb["fp"]) for so, sb in zip(o["spends"], b["spends"]))
                st["own_with_created_coins"] += cc
                st["own_with_hints"] += hint
                st["own_with_agg_sigs"] += ag
                st["own_fingerprint_kept"] += kept
                st["own_fingerprint_dropped"] += dropped
                st["own_encoded_bytes"] += len(o.get("enc", []))
                if cc or ag or kept or dropped:
                    chk.nontrivial_add(("own", h(b)))
                    if hint and ag:
                        chk.sample({"k": "own", "flags": e["flags"], "vis": e["vis"], "borrowed_spend": b["spends"][0], "owned_spend": {f: v for f, v in o["spends"][0].items() if f not in ("id_api", "cc_ids")},
                                    "encoded_len": len(o["enc"]), "hash": o["hash"]}, limit=5)
            elif k == "probe":
                probes.append({"name": e["name"], "same_value": e["same_value"], "same_owned": e["same_owned"],
                               "variants": [{"how": v.get("how"), "hint": v.get("hint")} for v in e["variants"]]})
    missing = [c for c in CODES + [0] if c not in codes["nowrap"] or c not in codes["legacy"]]
    guards = [(st["lat_points_replayed"] == points, "replayed %d of %d lattice points" % (st["lat_points_replayed"], points)),
              (st["lat_points_modes_differ"] == differ_points, "observed %d differing lattice points, model has %d" % (st["lat_points_modes_differ"], differ_points)),
              (differ_points >= 1000 and st["lat_cases_modes_differ"] >= 100, "too few lattice points on which the modes differ"),
              (st["rnd_points_modes_differ"] >= 50 and st["tree_points_modes_differ"] >= 50, "too few random points on which the modes differ"),
              (st["tree_points_pass_legacy"] >= 200, "too few passing chain states on the parse_spends path"),
              (not missing, "error codes never observed: %r" % missing),
              (st["own_accepted"] >= 500 and st["own_with_created_coins"] >= 100 and st["own_with_hints"] >= 20 and st["own_with_agg_sigs"] >= 50, "owned projection stream too thin"),
              (st["own_fingerprint_kept"] >= 30 and st["own_fingerprint_dropped"] >= 30, "fingerprint rule not exercised in both directions")]
    # a violation explains itself; the guards protect a run that found nothing (the representation probe is a
    # fixed input and says nothing about the streams)
    if not [v for v in chk.violations if v[0].get("event") != "probe"]:
        for ok, msg in guards:
            if not ok:
                raise ToolError("X03 vacuity guard: %s (%r)" % (msg, st))
    chk.extra.update({"mode_difference_single_assertion": diffset, "lattice_points": points, "lattice_points_modes_differ": differ_points,
                      "stream": st, "error_codes_seen": {m: sorted(v) for m, v in codes.items()}, "observations": probes, "exhaustive": False})
    chk.rule = ("M: MC_LegacyLocks checks on every summary with <= %s of 16 lock fields (or a missing coin record) set to a boundary value x every chain state of the same lattice: "
                "reported error = first failing assertion in code order (both modes); the modes differ exactly where a sum birth+delta overflows and wrapped sum <= now < MAX; "
                "without overflow both modes = TimeLocks!Holds; no-wrap program = TimeLocks!CheckAgg. G/R: every summary replayed through check_time_locks(nowrap=true/false) in every chain state "
                "against TLC's verdict tables; T: sampled lattice points, seeded random summaries and parse_spends bundles next to exact/wrapped thresholds re-judged by TLC; "
                "borrowed vs owned summaries of menu + random bundles (perturbed fingerprints/flags/costs) with Streamable bytes/hash/round trip. "
                "non-trivial = summaries / points on which the two modes differ, plus owned summaries with created coins, agg sigs or a fingerprint decision"
                % ("2" if quick else "3"))
    chk.assumptions = ["the per-assertion reading on the parse_spends path is compared in consistent chain states only (birth <= now < MAX), as in C03",
                       "created coins of the borrowed form are observed in the hash set's iteration order; the relation only requires equality as bags",
                       "G1 keys and SHA-256 are opaque byte strings / the TLC override"]
    return chk.finish()


def replay(path):
    """re-run the recorded events of a replay file on the current tree (same summaries / chain states / bundles /
    perturbation seeds) and let TLC judge the new observations"""
    wd = vlib.workdir("X03")
    vlib.EVID = os.path.join(wd, "replay-evidence")  # a replay must not overwrite the evidence of the last run
    vlib.REPLAYS = os.path.join(wd, "replay-out")
    chk = vlib.Check("X03", "quick")
    ev = os.path.join(wd, "replay-events.ndjson")
    n = 0
    with open(ev, "w") as f:
        for it in json.load(open(path)):
            f.write(json.dumps(it["case"]) + "\n")
            n += 1
    if not n:
        raise ToolError("no replayable event in %s" % path)
    t = os.path.join(wd, "replayed.ndjson")
    vlib.harness(["legacylocks", "--replay", ev, "--seed", chk.seed, "--out", t])
    validate_parallel("Trace_LegacyLocks.tla", [t], chk, "x03-replay", sig_fn=sig, jobs=1, classes=["X03"])
    for e in vlib.read_ndjson(t):
        chk.sample({k: v for k, v in e.items() if k in ("k", "agg", "sample", "name", "same_value", "same_owned")}, limit=3)
        chk.nontrivial_add(h(e))
    chk.rule = "replay of %d recorded events" % n
    return chk.finish()
