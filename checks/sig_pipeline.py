"""Shared pipeline of the signature domain (C05; C02 on validate_clvm_and_signature)."""
import json
import os
import time
from checks.common import *
from checks.cond_pipeline import file_hash


def sig(e):
    return {"event": "sig", "kind": e.get("kind")}


def run(tier, seed):
    exe = vlib.build_harness("vh", "vh_aggsig")
    key = "%s-%s-%s-%s-%d" % (file_hash(__file__)[:8], file_hash(exe), vlib.spec_hash("Conditions.tla", "ConditionsObs.tla", "Generator.tla", "Bundle.tla", "AggSig.tla", "Trace_AggSig.tla", "MC_AggSig.tla", "CondMenus.tla"), tier, seed)
    wd = vlib.workdir("C05")
    cache = os.path.join(wd, "result-%s.json" % key)
    if os.path.exists(cache):
        log("signature pipeline: reusing result of the same harness binary/spec/tier/seed")
        return json.load(open(cache))
    chk = vlib.Check("sig", tier)
    cases, meta = gen_cases("MC_AggSig.tla", "MC_AggSig.cfg", workers=8, timeout=3600)
    sel = os.path.join(wd, "cases-sel.ndjson")
    step = 14 if tier == "quick" else 2
    with open(sel, "w") as f:
        for i, line in enumerate(open(cases)):
            if (i + seed) % step == 0:
                f.write(line)
    t1 = os.path.join(wd, "replay.ndjson")
    vlib.harness(["aggsig", "--cases", sel, "--seed", seed, "--out", t1], timeout=7200)
    t2 = os.path.join(wd, "random.ndjson")
    vlib.harness(["aggsig", "--seed", seed, "--out", t2, "--n", 40 if tier == "quick" else 1500], timeout=7200)
    paths = shard_file(t1, 6 if tier == "quick" else 16, wd, "replay") + shard_file(t2, 2 if tier == "quick" else 8, wd, "random")
    validate_parallel("Trace_AggSig.tla", paths, chk, "sig", sig_fn=sig, jobs=8, classes=[], timeout=7200)
    res = {"model": meta, "states": meta["distinct"] + chk.states, "transitions": meta["generated"] + chk.transitions, "traces": chk.traces, "events": chk.evaluations}
    res["mismatch"] = [{"cls": c, "index": i, "sig": sig(e), "event": e} for (i, c, e) in getattr(chk, "raw_mismatches", [])][:200]
    acc = rej = vcs_ok = 0
    kinds = {}
    nontrivial = set()
    samples = []
    for p in paths:
        for e in vlib.read_ndjson(p):
            ok = e["res"]["ps"] is True
            acc += ok
            rej += not ok
            vcs_ok += e["res"]["vcs"] is True
            kinds[e["kind"]] = kinds.get(e["kind"], 0) + 1
            if e["signed"]:
                nontrivial.add(json.dumps([e["spends"], e["signed"]])[:6000])
            if ok and e["signed"] and len(samples) < 2:
                samples.append({"kind": e["kind"], "signed": e["signed"][:2], "res": {k: v for k, v in e["res"].items() if k != "vcs_r"}})
            elif not ok and e["kind"] == "flip" and len(samples) < 4:
                samples.append({"kind": e["kind"], "res": e["res"]})
    res.update({"accepted": acc, "rejected": rej, "vcs_accepted": vcs_ok, "kinds": kinds, "nontrivial": len(nontrivial), "samples": samples})
    json.dump(res, open(cache, "w"))
    return res


def apply(chk, res, classes):
    chk.states += res["states"]
    chk.transitions += res["transitions"]
    chk.traces += res["traces"]
    chk.evaluations += res["events"]
    for i in range(res["nontrivial"]):
        chk.nontrivial_add(("sig", i))
    for s in res["samples"]:
        chk.sample(s)
    chk.extra.setdefault("model_runs", {})["aggsig"] = res["model"]
    chk.extra["signature_stats"] = {"accepted": res["accepted"], "rejected": res["rejected"], "validate_clvm_and_signature_accepted": res["vcs_accepted"], "kinds": res["kinds"]}
    chk.extra.setdefault("entry_points", [])
    for ep in ("parse_spends", "run_block_generator2", "validate_clvm_and_signature"):
        if ep not in chk.extra["entry_points"]:
            chk.extra["entry_points"].append(ep)
    for m in res["mismatch"]:
        if m["cls"] in classes:
            s = dict(m["sig"])
            s["class"] = m["cls"]
            chk.violation(s, "signature event %d rejected by AggSig.tla (%s)" % (m["index"], m["cls"]), m["event"])
