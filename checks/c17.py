"""C17 - every tree-hash routine computes the same hash."""
import hashlib
import json
import os
import random
from checks.common import *


def _ref_hashes(tbl):
    """independent bottom-up reference (hashlib), only used to describe a failing event"""
    H = []
    for nd in tbl:
        if "a" in nd:
            H.append(hashlib.sha256(bytes([1]) + bytes(nd["a"])).digest())
        else:
            H.append(hashlib.sha256(bytes([2]) + H[nd["l"] - 1] + H[nd["r"] - 1]).digest())
    return H


def _sx_hash(x):
    if "a" in x:
        return hashlib.sha256(bytes([1]) + bytes(x["a"])).digest()
    return hashlib.sha256(bytes([2]) + _sx_hash(x["l"]) + _sx_hash(x["r"])).digest()


def sig(e):
    s = {"event": e.get("k")}
    try:
        if e.get("k") == "hist":
            s["gen"] = e.get("gen")
            H = _ref_hashes(e["tbl"])
            for o in e["ops"]:
                bad = "panic" in o or (o["op"] in ("cached", "plain", "bytes", "bytes_br", "enc") and bytes(o["h"]) != H[o["n"] - 1])
                bad_slot = any(bytes(x[1]) != H[x[0] - 1] for x in o.get("s", []))
                if bad or bad_slot:
                    s["op"] = o["op"]
                    s["what"] = "panic" if "panic" in o else ("slot" if bad_slot and not bad else "hash")
                    break
            else:
                if any(bytes(x[1]) != H[x[0] - 1] for x in e.get("slots", [])):
                    s["what"] = "slot"
        elif e.get("k") == "curry":
            s["nargs"] = len(e["args"])
            ref = _sx_hash(e["built"])
            s["wrong"] = ",".join(f for f in ("h", "built_h", "built_c", "enc_h") if bytes(e[f]) != ref)
    except Exception:
        pass
    return s


def _sample(path, out, prob, rnd):
    n = 0
    with open(path) as f, open(out, "w") as o:
        for line in f:
            if prob >= 1.0 or rnd.random() < prob:
                o.write(line)
                n += 1
    return n


def run(tier):
    chk = vlib.Check("C17", tier)
    wd = vlib.workdir("C17")
    quick = tier == "quick"
    rnd = random.Random(chk.seed)
    # M + G. (spec, cfg, fraction of the emitted histories that is replayed)
    runs = [("MC_TreeHashCurry.tla", "MC_TreeHashCurry_quick.cfg" if quick else "MC_TreeHashCurry.cfg", 1.0),
            ("MC_TreeHash.tla", "MC_TreeHash_atoms1.cfg" if quick else "MC_TreeHash_atoms2.cfg", 0.4 if quick else 0.5),
            ("MC_TreeHash.tla", "MC_TreeHash_dag3v.cfg", 0.06 if quick else 1.0)]
    if not quick:
        runs += [("MC_TreeHash.tla", "MC_TreeHash_dag2full.cfg", 1.0),
                 ("MC_TreeHash.tla", "MC_TreeHash_dag3full.cfg", 0.3),
                 ("MC_TreeHash.tla", "MC_TreeHash_dag4one.cfg", 0.3)]
    sims = [] if quick else [("MC_TreeHash.tla", "MC_TreeHash_dag5sim.cfg", 500, 16)]
    paths = []
    replayed = 0
    # the case cache is keyed by the MC module + cfg (+ spec/lib); the machine itself lives in TreeHashCache.tla
    machine = hashlib.sha256(open(vlib.find_spec("TreeHashCache.tla"), "rb").read()).hexdigest()[:16]
    for spec, cfg, frac, *sim in runs + [(a, b, 1.0, c, d) for a, b, c, d in sims]:
        if sim:
            # random walks through the 5-pair DAGs: TLC checks the same invariants on every visited state
            cases, meta = gen_cases(spec, cfg, workers=6, timeout=2400, simulate=sim[0], depth=sim[1], seed=17, key_extra=machine)
        else:
            cases, meta = gen_cases(spec, cfg, workers=6, timeout=2400, key_extra=machine)
        chk.states += meta["distinct"]
        chk.transitions += meta["generated"]
        chk.extra.setdefault("model_runs", {})[cfg] = meta
        if meta["cases"] == 0:
            raise ToolError("C17: %s emitted no replay case" % cfg)
        tag = cfg[:-4]
        sel = os.path.join(wd, "cases-%s.ndjson" % tag)
        n = _sample(cases, sel, frac, rnd)
        replayed += n
        t = os.path.join(wd, "replay-%s.ndjson" % tag)
        vlib.harness(["treehash", "--cases", sel, "--seed", chk.seed, "--out", t])
        k = 1 + n // 9000
        paths += shard_file(t, k, wd, "replay-%s" % tag) if k > 1 else [t]
    chk.extra["histories_replayed"] = replayed
    # T: seeded random DAGs (deep / wide / heavy sharing / mixed), atom encodings, curry, corpus puzzles
    t = os.path.join(wd, "random.ndjson")
    if quick:
        vlib.harness(["treehash", "--seed", chk.seed, "--out", t, "--atoms", 1, "--small", 400, "--medium", 60, "--big", 6, "--curry", 150, "--corpus", 12])
        paths += shard_file(t, 3, wd, "random")
    else:
        vlib.harness(["treehash", "--seed", chk.seed, "--out", t, "--atoms", 1, "--small", 30000, "--medium", 4000, "--big", 300, "--curry", 5000, "--corpus", 200])
        paths += shard_file(t, 18, wd, "random")
    validate_parallel("Trace_TreeHash.tla", paths, chk, "treehash", sig_fn=sig, jobs=6, classes=["C17"])
    # statistics + vacuity guards
    st = {"hash_results": 0, "memo_hits_observed": 0, "slots_checked": 0, "pre": 0, "curry": 0, "max_nodes": 0, "fast_path_atoms": 0,
          "buffer_small_atoms": 0, "noncanonical_atoms": 0, "corpus": 0, "skipped_shape": 0}
    ops_seen = set()
    gens = set()
    for p in paths:
        for e in vlib.read_ndjson(p):
            k = e["k"]
            if k == "pre":
                st["pre"] += 1
            elif k == "curry":
                st["curry"] += 1
                if len(e["args"]) >= 2:
                    chk.nontrivial_add(("curry", json.dumps(e["p"]), json.dumps(e["args"])))
            elif k == "hist":
                gens.add(e["gen"])
                if e["gen"] == "corpus":
                    st["corpus"] += 1
                st["max_nodes"] = max(st["max_nodes"], len(e["tbl"]))
                nslots = len(e["slots"]) + sum(len(o.get("s", [])) for o in e["ops"])
                st["slots_checked"] += nslots
                for o in e["ops"]:
                    ops_seen.add(o["op"])
                    if o["h"]:
                        st["hash_results"] += 1
                for nd in e["tbl"]:
                    if "a" in nd:
                        b = nd["a"]
                        canon_small = len(b) == 0 or (len(b) == 1 and 0 < b[0] < 24)
                        if canon_small and nd.get("rep") == "small":
                            st["fast_path_atoms"] += 1
                        elif canon_small:
                            st["buffer_small_atoms"] += 1
                        elif len(b) >= 2 and b[0] == 0 and b[1] < 128:
                            st["noncanonical_atoms"] += 1
                # non-trivial: the shared cache memoised something in this history (a slot was observed)
                if nslots > 0:
                    st["memo_hits_observed"] += 1
                    chk.nontrivial_add(("hist", hashlib.sha256(json.dumps([e["tbl"], [(o["op"], o["n"]) for o in e["ops"]]]).encode()).hexdigest()))
            if len(chk.samples) < 5 and (k, e.get("gen")) not in [(s.get("k"), s.get("gen")) for s in chk.samples if isinstance(s, dict)]:
                if len(json.dumps(e)) < 1500:
                    chk.sample(e)
    shape = [m for m in getattr(chk, "raw_mismatches", []) if m[1] == "shape"]
    st["skipped_shape"] = len(shape)
    chk.extra["stats"] = st
    chk.extra["ops_seen"] = sorted(ops_seen)
    chk.extra["generators"] = sorted(gens)
    need_ops = {"visit", "cached", "plain", "bytes", "bytes_br", "enc", "alloc"}
    if not need_ops <= ops_seen:
        raise ToolError("C17 vacuity guard: operations never exercised: %s" % sorted(need_ops - ops_seen))
    if st["pre"] == 0 or st["curry"] < 50 or st["memo_hits_observed"] < 100 or st["fast_path_atoms"] < 50 or st["buffer_small_atoms"] < 20 \
            or st["noncanonical_atoms"] < 20 or st["max_nodes"] < 6000 or st["corpus"] == 0:
        raise ToolError("C17 vacuity guard: %r" % st)
    chk.rule = ("M: MC_TreeHash explores every DAG with <= N pair nodes grown by AllocMore and every reachable state of one shared TreeCache "
                "(VIEW = table + cache, histories of any length; and all complete histories of <= MaxOps calls in the *full configs) checking "
                "results = reference, slots = reference, cache shape, memo stability; MC_TreeHashCurry checks curry_tree_hash vs the curried tree and the "
                "24 precomputed constants. R: each emitted history is replayed on a real Allocator + one TreeCache (visit_tree, tree_hash_cached, tree_hash, "
                "tree_hash_from_bytes plain/backrefs, TreeHasher), T: seeded random DAGs up to 10^4 nodes, atoms 0..40 in every encoding, curry, corpus puzzles; "
                "Trace_TreeHash recomputes every logged hash and every memoised slot. non-trivial = histories in which the shared cache memoised at least one "
                "node (observed through TreeCache::get) + curry cases with >= 2 arguments, distinct by table+calls")
    chk.assumptions = ["SHA-256 via JDK override", "clvmr Allocator / serialisers are trusted (node tables are logged through Allocator::atom / sexp)",
                       "restore_checkpoint is never applied to an allocator whose nodes are in a live TreeCache (append-only allocator model)"]
    chk.extra["exhaustive"] = False
    return chk.finish()


def replay(path):
    """re-run the events of a replay file (node table + calls, or curry inputs) on the current tree and validate them again"""
    wd = vlib.workdir("C17")
    vlib.EVID = os.path.join(wd, "replay-evidence")  # a replay must not overwrite the evidence of the last run
    chk = vlib.Check("C17", "quick")
    cases = os.path.join(wd, "replay-cases.ndjson")
    n = 0
    with open(cases, "w") as f:
        for it in json.load(open(path)):
            e = it.get("case", {})
            if e.get("k") == "hist":
                f.write(json.dumps({"k": "table", "tbl": e["tbl"], "ops": [{"op": o["op"], "n": o["n"]} for o in e["ops"]]}) + "\n")
                n += 1
            elif e.get("k") == "curry":
                f.write(json.dumps({"k": "curry", "p": e["p"], "args": e["args"]}) + "\n")
                n += 1
            elif e.get("k") == "pre":
                n += 1  # the table is logged by every harness run
    if not n:
        raise ToolError("no replayable event in %s" % path)
    t = os.path.join(wd, "replayed.ndjson")
    vlib.harness(["treehash", "--cases", cases, "--seed", chk.seed, "--out", t])
    validate_parallel("Trace_TreeHash.tla", [t], chk, "treehash-replay", sig_fn=sig, jobs=1, classes=["C17"])
    chk.rule = "replay of %d recorded events" % n
    return chk.finish()
