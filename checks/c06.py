"""C06 - strict modes only restrict, and ordering never changes the verdict."""
import json
import os
from checks.common import *


def sig(e):
    return {"event": e.get("k"), "strict": e.get("strict"), "a_ok": e["a"].get("ok") if "a" in e else None}


def run(tier):
    chk = vlib.Check("C06", tier)
    wd = vlib.workdir("C06")
    paths = []
    for mode in ("strict", "perm"):
        cfg = "MC_Rel_%s.cfg" % mode if tier == "quick" else "MC_Rel_%s_all.cfg" % mode
        cases, meta = gen_cases("MC_Rel.tla", cfg, workers=12, timeout=7200)
        chk.states += meta["distinct"]
        chk.transitions += meta["generated"]
        chk.extra.setdefault("model_runs", {})[mode] = meta
        t = os.path.join(wd, "replay-%s.ndjson" % mode)
        vlib.harness(["relations", "--cases", cases, "--seed", chk.seed, "--out", t])
        n = 1 + meta["cases"] // (3000 if mode == "strict" else 12000)
        paths += shard_file(t, n, wd, "replay-%s" % mode) if n > 1 else [t]
    t = os.path.join(wd, "random.ndjson")
    vlib.harness(["relations", "--seed", chk.seed, "--out", t, "--n", 600 if tier == "quick" else 12000, "--limit-spends", 1, "--flood", 1])
    paths += shard_file(t, 3 if tier == "quick" else 16, wd, "random")
    validate_parallel("Trace_Relations.tla", paths, chk, "rel", sig_fn=sig, jobs=8, classes=["C06"])
    # vacuity guard + evidence statistics
    both_ok = {"strict": 0, "perm": 0}
    strict_rejected_lax_ok = 0
    seen = set()
    for p in paths:
        for e in vlib.read_ndjson(p):
            if e["k"] in both_ok and e["a"]["ok"] and e["b"]["ok"]:
                both_ok[e["k"]] += 1
                chk.nontrivial_add((e["k"], json.dumps(e.get("tree", ""))[:4000], json.dumps(e.get("tree2", e.get("strict")))[:4000]))
            if e["k"] == "strict" and not e["a"]["ok"] and e["b"]["ok"]:
                strict_rejected_lax_ok += 1
            if e["k"] not in seen and "tree" in e:
                seen.add(e["k"])
                chk.sample({k: e[k] for k in ("k", "tree", "tree2", "flags", "strict", "vis") if k in e})
    if both_ok["strict"] < 50 or both_ok["perm"] < 50 or strict_rejected_lax_ok < 10:
        raise ToolError("C06 vacuity guard: too few accepted pairs %r %d" % (both_ok, strict_rejected_lax_ok))
    chk.extra["pairs_both_accepted"] = both_ok
    chk.extra["strict_rejected_but_lax_accepted"] = strict_rejected_lax_ok
    chk.rule = ("M: MC_Rel checks StrictImplies over all strictness subsets and PermEq over every order reachable by adjacent swaps of spends / conditions; "
                "each visited (input, permutation | strict subset) is replayed: both members run through parse_spends and TLC (Trace_Relations) evaluates the "
                "relation on the two implementation results; + seeded random bundles with random permutations, all 7 strict subsets and limits at the cost frontier; "
                "non-trivial = pairs where both members are accepted (the relation constrains the summaries), distinct by input pair")
    chk.assumptions = ["compared: everything except listing order and the positional ELIGIBLE_FOR_FF bit (and the dedup fingerprint, not computed here)"]
    chk.extra["exhaustive"] = False
    return chk.finish()
