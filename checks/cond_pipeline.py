"""Shared pipeline of the condition machine (C01, C02, C04): MC of Conditions.tla over the
menus, replay of every TLC case through parse_spends, random bundles, TLC trace validation.
Mismatches are attributed to properties by class. The result is cached per harness binary +
spec + tier + seed so that the three checks can share one run."""
import hashlib
import json
import os
import time
from checks.common import *

QUICK_MODES = [("single", "MC_Cond_single.cfg"), ("struct", "MC_Cond_struct.cfg"), ("twobyte", "MC_Cond_twobyte.cfg"), ("cross", "MC_Cond_cross.cfg"),
               ("pairq", "MC_Cond_pairq.cfg"), ("big", "MC_Cond_big.cfg"), ("locks3", "MC_Cond_locks3.cfg")]
THOROUGH_MODES = [("single", "MC_Cond_single_all.cfg"), ("struct", "MC_Cond_struct_all.cfg"), ("twobyte", "MC_Cond_twobyte.cfg"),
                  ("cross", "MC_Cond_cross_all.cfg"), ("pair", "MC_Cond_pair.cfg"), ("pairq", "MC_Cond_pairq.cfg"), ("big", "MC_Cond_big.cfg"), ("locks3", "MC_Cond_locks3.cfg")]


PSLOG = "/verif/corpus/parse_spends_inputs.log.gz"


def file_hash(p):
    h = hashlib.sha256()
    with open(p, "rb") as f:
        for b in iter(lambda: f.read(1 << 20), b""):
            h.update(b)
    return h.hexdigest()[:16]


def sig(e):
    return {"event": e.get("k"), "ok": e.get("ok"), "err": e.get("errname")}


def run(tier, seed):
    exe = vlib.build_harness()
    key = "%s-%s-%s-%s-%d" % (file_hash(__file__)[:8], file_hash(exe), vlib.spec_hash("Conditions.tla", "ConditionsObs.tla", "Trace_Conditions.tla", "MC_Cond.tla", "CondMenus.tla"), tier, seed) + ("-" + file_hash(PSLOG)[:8] if os.path.exists(PSLOG) else "")
    wd = vlib.workdir("cond")
    cache = os.path.join(wd, "result-%s.json" % key)
    if os.path.exists(cache):
        log("conditions pipeline: reusing result of the same harness binary/spec/tier/seed")
        return json.load(open(cache))
    t0 = time.time()
    chk = vlib.Check("cond", tier)
    modes = QUICK_MODES if tier == "quick" else THOROUGH_MODES
    res = {"mc": {}, "states": 0, "transitions": 0}
    paths = []
    for name, cfg in modes:
        cases, meta = gen_cases("MC_Cond.tla", cfg, workers=12, timeout=3000)
        res["mc"][name] = meta
        res["states"] += meta["distinct"]
        res["transitions"] += meta["generated"]
        t = os.path.join(wd, "replay-%s.ndjson" % name)
        vlib.harness(["conditions", "--cases", cases, "--seed", seed, "--out", t, "--frontier-every", {"single": 1, "twobyte": 1, "struct": 1, "pair": 0, "pairq": 9, "big": 9}.get(name, 5)])
        n = 1 + meta["cases"] // 6000
        paths += shard_file(t, n, wd, "replay-%s" % name) if n > 1 else [t]
    t = os.path.join(wd, "random.ndjson")
    nrand = 3000 if tier == "quick" else 60000
    vlib.harness(["conditions", "--seed", seed, "--out", t, "--n", nrand])
    paths += shard_file(t, 2 if tier == "quick" else 16, wd, "random")
    t = os.path.join(wd, "random-big.ndjson")
    vlib.harness(["conditions", "--seed", seed + 1000, "--out", t, "--n", 150 if tier == "quick" else 2000, "--max-spends", 10, "--max-conds", 14, "--announce-limit", 1, "--flood", 1])
    paths += [t] if tier == "quick" else shard_file(t, 4, wd, "random-big")
    # the inputs of every parse_spends call made by the repository's own test-suite (recorded once through the
    # chia-consensus feature verif-hooks by tools/record_pslog.sh; inputs only, so the file does not depend on the
    # implementation under test): run again on the current tree and judged by the specification
    res["repo_test_inputs"] = 0
    if os.path.exists(PSLOG):
        import gzip
        raw = os.path.join(wd, "pslog.txt")
        with gzip.open(PSLOG, "rb") as f, open(raw, "wb") as g:
            g.write(f.read())
        t = os.path.join(wd, "repo-tests.ndjson")
        vlib.harness(["conditions", "--seed", seed, "--out", t, "--pslog", raw, "--pslog-one-in", 5 if tier == "quick" else 1,
                      "--pslog-max-nodes", 1500 if tier == "quick" else 6000])
        res["repo_test_inputs"] = sum(1 for _ in open(t))
        paths += shard_file(t, 2 if tier == "quick" else 8, wd, "repo-tests")
    validate_parallel("Trace_Conditions.tla", paths, chk, "cond", sig_fn=sig, jobs=8, classes=[])
    res["states"] += chk.states
    res["transitions"] += chk.transitions
    res["traces"] = chk.traces
    res["events"] = chk.evaluations
    res["mismatch"] = [{"cls": c, "index": i, "event": e} for (i, c, e) in getattr(chk, "raw_mismatches", [])][:300]
    # statistics for the evidence: distinct accepted / rejected-by-class inputs
    acc = set()
    errs = {}
    samples = []
    nontrivial = set()
    for p in paths:
        for e in vlib.read_ndjson(p):
            h = hashlib.sha256(json.dumps([e["tree"], e["flags"], e["max"], e["vis"]]).encode()).hexdigest()[:20]
            if e["ok"]:
                acc.add(h)
                if e["r"]["spends"] and any(s["cc"] or s["flags"] or s["hr"] or s["me"] for s in e["r"]["spends"]):
                    nontrivial.add(h)
                if len(samples) < 2:
                    samples.append({"tree": e["tree"], "flags": e["flags"], "vis": e["vis"], "ok": True, "cost": e["r"]["cost"]})
            else:
                errs[e["errname"]] = errs.get(e["errname"], 0) + 1
                nontrivial.add(h)
                if len(samples) < 4 and errs[e["errname"]] == 1:
                    samples.append({"tree": e["tree"], "flags": e["flags"], "vis": e["vis"], "ok": False, "err": e["errname"]})
    # vacuity guard: the streams must reach (almost) every rejection rule of the machine and many accepting runs
    must = ["Err(TooManyAnnouncements)", "Err(EphemeralRelativeCondition)", "Err(AssertEphemeralFailed)", "Err(MessageNotSentOrReceived)",
            "Err(ImpossibleHeightRelativeConstraints)", "Err(ImpossibleSecondsAbsoluteConstraints)", "Err(DuplicateOutput)", "Err(DoubleSpend)",
            "Err(MintingCoin)", "Err(ReserveFeeConditionFailed)", "Err(InvalidPublicKey)", "Err(InvalidMessageMode)", "Err(CostExceeded)",
            "Err(AssertConcurrentSpendFailed)", "Err(AssertPuzzleAnnouncementFailed)", "Err(InvalidSoftforkCost)", "Err(CoinAmountNegative)"]
    missing = [m for m in must if m not in errs]
    if missing or len(errs) < 40 or len(acc) < 2000:
        raise ToolError("conditions pipeline vacuity guard: missing reject classes %r, %d classes, %d accepted" % (missing, len(errs), len(acc)))
    res["accepted_distinct"] = len(acc)
    res["reject_classes"] = errs
    res["nontrivial"] = len(nontrivial)
    res["samples"] = samples
    res["wall"] = time.time() - t0
    json.dump(res, open(cache, "w"))
    return res


def apply(chk, res, classes, rule):
    chk.states += res["states"]
    chk.transitions += res["transitions"]
    chk.traces += res["traces"]
    chk.evaluations += res["events"]
    for i in range(res["nontrivial"]):
        chk.nontrivial_add(("cond", i))
    for s in res["samples"]:
        chk.sample(s)
    chk.extra.setdefault("model_runs", {}).update(res["mc"])
    chk.extra["accepted_distinct_inputs"] = res["accepted_distinct"]
    chk.extra["reject_classes_seen"] = res["reject_classes"]
    chk.extra["repo_test_suite_inputs_replayed"] = res.get("repo_test_inputs", 0)
    for m in res["mismatch"]:
        if m["cls"] in classes:
            s = sig(m["event"])
            s["class"] = m["cls"]
            chk.violation(s, "parse_spends disagrees with Conditions.tla (%s) on event %d" % (m["cls"], m["index"]), m["event"])
    chk.rule = rule
