"""X05 (growth, not a listed property) - CLVM serialisation with back-references (DESIGN section 4 item 4).

M  MC_Backrefs: the decoder as an explicit stack machine (one action per token kind), explored over all
   byte strings over a small alphabet up to a small length, over Ser(t) and a greedy compressor's output
   for all small trees; invariants: totality/determinism, stack discipline, action run = functional form,
   trailing input ignored, plain forms decode to themselves, back-reference = macro for the plain form,
   vector lookup = list lookup and never outside the stack, length scan agreement.
G  every terminal state is a replay case (bytes + predicted value).
R/T the harness pushes the bytes through node_from_bytes_backrefs, the list-based reference decoder,
   node_from_bytes, tree_hash_from_bytes, Program parse / from_bytes / to_clvm, and trees through
   node_to_bytes_backrefs, Serializer, node_to_bytes, Program::run, solution_generator(_backrefs) and the
   compressed BlockBuilder; TLC (Trace_Backrefs) recomputes every value with the specification."""
import json
import os
from checks.common import *


def sig(e):
    return {"event": e.get("k"), "src": str(e.get("src", "")).split(":")[0]}


def run(tier):
    chk = vlib.Check("X05", tier)
    wd = vlib.workdir("X05")
    quick = tier == "quick"
    cfgs = ["MC_Backrefs_quick.cfg"] if quick else ["MC_Backrefs.cfg", "MC_Backrefs_wide.cfg"]
    traces = []
    enc_by_tree = {}
    ncases = 0
    for ci, cfg in enumerate(cfgs):
        # M + G (4 workers: the machine is shared)
        cases, meta = gen_cases("MC_Backrefs.tla", cfg, workers=4, timeout=1500)
        chk.states += meta["distinct"]
        chk.transitions += meta["generated"]
        ncases += meta["cases"]
        # exhaustive search for encodings (c): group the complete encodings by decoded tree
        for c in vlib.read_ndjson(cases):
            if c["ok"] and c["n"] == len(c["b"]):
                k = json.dumps(c["v"], sort_keys=True)
                s = enc_by_tree.setdefault(k, [0, 10**9, False])
                s[0] += 1
                s[1] = min(s[1], len(c["b"]))
                s[2] = s[2] or c["k"] == "plain" or c["nbr"] == 0
        # R: cases through the real decoders / encoders (thorough: all short cases, a seed-chosen quarter of the long tail)
        t = os.path.join(wd, "tlc%d.ndjson" % ci)
        vlib.harness(["backrefs", "--cases", cases, "--seed", chk.seed, "--out", t, "--stride", 1 if quick else 4,
                      "--tlc-gen", 150 if quick else 1500])
        traces += shard_file(t, 2 if quick else 4, wd, "tlc%d" % ci)
    # T: ladder of prefix widths, seeded random trees with heavy repetition + adversarial edits, repository corpora
    t2 = os.path.join(wd, "rand.ndjson")
    vlib.harness(["backrefs", "--seed", chk.seed, "--out", t2, "--ladder", 1, "--ladder-full", 0 if quick else 1, "--ladder-big", 0 if quick else 1, "--random", 120 if quick else 3000,
                  "--max-bytes", 5000 if quick else 40000])
    t3 = os.path.join(wd, "corpus.ndjson")
    vlib.harness(["backrefs", "--seed", chk.seed + 7, "--out", t3, "--corpus", 1, "--max-bytes", 5000 if quick else 300000,
                  "--bundle-files", 6 if quick else 1000], env={"VERIF_REPO": vlib.REPO})
    t4 = os.path.join(wd, "other.ndjson")
    with open(t4, "w") as f:
        for p in (t2, t3):
            f.write(open(p).read())
    # few files: every TLC process pays a fixed start-up cost
    traces += shard_file(t4, 2 if quick else 8, wd, "other")
    validate_parallel("Trace_Backrefs.tla", traces, chk, "br", sig_fn=sig, jobs=4, classes=["X05"], timeout=2400, xmx="4g")

    # evidence: what the run exercised (measured from the traces)
    st = {"dec": 0, "dec_ok": 0, "dec_backref_ok": 0, "dec_err": 0, "trailing": 0, "len_scan_only": 0,
          "ser": 0, "ser_shorter": 0, "ser_witness": 0, "run": 0, "gen": 0, "gen_ok": 0, "gen_err": 0, "gen_witness": 0,
          "multibyte_path": 0, "to_clvm_rejects_compressed": 0, "corpus_compressed": 0}
    seen = set()
    for p in traces:
        for e in vlib.read_ndjson(p):
            k = e["k"]
            st[k] += 1
            if k == "dec":
                b = e["b"]
                if e["br"]["ok"]:
                    st["dec_ok"] += 1
                    if e["parse"]["n"] < len(b):
                        st["trailing"] += 1
                    if not e["plain"]["ok"]:
                        # accepted only because of back-references
                        st["dec_backref_ok"] += 1
                        chk.nontrivial_add(("dec", bytes(b[:4000])))
                        if str(e["src"]).startswith("file:"):
                            st["corpus_compressed"] += 1
                        if not e["to_clvm"]["ok"]:
                            st["to_clvm_rejects_compressed"] += 1
                        if any(b[i] == 254 and 0x81 <= b[i + 1] < 0xc0 for i in range(len(b) - 1)):
                            st["multibyte_path"] += 1
                        if "dec_br" not in seen and len(b) < 40:
                            seen.add("dec_br")
                            chk.sample({"bytes": b, "decoded": e["br"]["v"], "src": e["src"]})
                else:
                    st["dec_err"] += 1
                    if e["parse_t"]["ok"]:
                        # token structure fine, a path is illegal
                        st["len_scan_only"] += 1
                        chk.nontrivial_add(("path", bytes(b[:4000])))
                        if "dec_path" not in seen and len(b) < 40:
                            seen.add("dec_path")
                            chk.sample({"bytes": b, "rejected": "illegal path", "src": e["src"]})
            elif k == "ser":
                if e["c"]["ok"] and e["p"]["ok"] and len(e["c"]["b"]) < len(e["p"]["b"]):
                    st["ser_shorter"] += 1
                    chk.nontrivial_add(("ser", bytes(e["c"]["b"][:4000])))
                    if "ser" not in seen and len(e["p"]["b"]) < 60:
                        seen.add("ser")
                        chk.sample({"tree": e["t"], "compressed": e["c"]["b"], "plain": e["p"]["b"]})
                if e["wit"]:
                    st["ser_witness"] += 1
            elif k == "gen":
                if e["out"]["ok"]:
                    st["gen_ok"] += 1
                    if e["plain"]["ok"] and len(e["out"]["b"]) < len(e["plain"]["b"]):
                        chk.nontrivial_add(("gen", bytes(e["out"]["b"][:4000])))
                else:
                    st["gen_err"] += 1
                if e["wit"]:
                    st["gen_witness"] += 1
    # vacuity guards: the interesting branches must have been exercised
    need = ["dec_backref_ok", "len_scan_only", "trailing", "ser_shorter", "ser_witness", "run", "gen_ok", "gen_err", "gen_witness",
            "multibyte_path", "corpus_compressed"]
    missing = [k for k in need if st[k] == 0]
    if missing and not chk.violations:   # a vacuity guard must never mask a recorded violation
        raise ToolError("X05 run is vacuous for: %s (%s)" % (missing, st))
    multi = [v for v in enc_by_tree.values() if v[0] > 1]
    chk.extra["observed"] = st
    chk.extra["tlc_cases"] = ncases
    chk.extra["encodings_search"] = {
        "trees_with_a_complete_encoding": len(enc_by_tree),
        "trees_with_several_encodings": len(multi),
        "max_encodings_of_one_tree": max([v[0] for v in enc_by_tree.values()] or [0]),
    }
    chk.extra["model_constants"] = cfgs
    chk.extra["exhaustive"] = False
    chk.rule = ("cases = terminal states of the decoder machine over all byte strings over a 10-14 symbol alphabet up to length 6 (quick) / 8 (10 symbols) and 6 (14 symbols) "
                "(thorough), plain and greedily compressed forms of all trees of depth <= 2 over 3 atoms, a ladder of length-prefix widths, seeded random "
                "trees with heavy repetition and adversarial edits of their compressed forms, the repository's generators and spend bundles; "
                "non-trivial = distinct byte strings accepted only because of a back-reference, distinct byte strings whose token structure is fine "
                "but whose path is illegal, distinct compressor outputs strictly shorter than the plain form")
    chk.assumptions = ["SHA-256 via JDK override", "inputs stay below the clvmr allocator limits (atoms/pairs/heap) and below 2^31 bytes",
                       "the redundancy rule (witness => strictly shorter output) is argued for trees of depth <= 50 from clvmr's shortest-path search"]
    return chk.finish()
