"""Shared pipeline of the generator family (C07, C09, and the block-level parts of C02 / C04):
MC_GenShape cases, seeded random generators built from the condition generator, the repository's
generator corpus; each generator runs through run_block_generator, run_block_generator2 and the
trusted helpers; TLC (Trace_Generator) validates every event. Cached per harness binary + spec +
tier + seed so that the checks can share one run."""
import hashlib
import json
import os
import time
from checks.common import *
from checks.cond_pipeline import file_hash


def sig(e):
    return {"event": "gen", "src": e.get("src") if e.get("src") in ("mc", "random", "frontier") else "corpus:" + str(e.get("src")),
            "flags": sorted(e.get("flags", []))}


def has_spend_extra(e):
    """does any spend of the generator output carry extension data after its four fields?"""
    g = e.get("genrun", {})
    if not g.get("ok") or g.get("big") or "res" not in g:
        return False
    out = g["res"]
    if "l" not in out:
        return False
    cur = out["l"]
    while "l" in cur:
        sp = cur["l"]
        k = 0
        while "l" in sp and k < 4:
            sp = sp["r"]
            k += 1
        if k == 4 and not ("a" in sp and sp["a"] == []):
            return True
        cur = cur["r"]
    return False


def run(tier, seed):
    exe = vlib.build_harness("vh", "vh_generator")
    key = "%s-%s-%s-%s-%d" % (file_hash(__file__)[:8], file_hash(exe), vlib.spec_hash("Conditions.tla", "ConditionsObs.tla", "Generator.tla", "Trace_Generator.tla", "MC_GenShape.tla", "CondMenus.tla"), tier, seed)
    wd = vlib.workdir("gen")
    cache = os.path.join(wd, "result-%s.json" % key)
    if os.path.exists(cache):
        log("generator pipeline: reusing result of the same harness binary/spec/tier/seed")
        return json.load(open(cache))
    t0 = time.time()
    chk = vlib.Check("gen", tier)
    res = {"mc": {}}
    cfg = "MC_GenShape.cfg" if tier == "quick" else "MC_GenShape_2.cfg"
    cases, meta = gen_cases("MC_GenShape.tla", cfg, workers=10, timeout=3600)
    res["mc"]["genshape"] = meta
    paths = []
    t = os.path.join(wd, "replay.ndjson")
    vlib.harness(["generator", "--cases", cases, "--seed", seed, "--out", t])
    paths += shard_file(t, 6 if tier == "quick" else 16, wd, "replay")
    t = os.path.join(wd, "random.ndjson")
    vlib.harness(["generator", "--seed", seed, "--out", t, "--n", 250 if tier == "quick" else 6000])
    paths += shard_file(t, 2 if tier == "quick" else 16, wd, "random")
    t = os.path.join(wd, "corpus.ndjson")
    vlib.harness(["generator", "--seed", seed, "--out", t, "--n", 0, "--corpus", "/repo/generator-tests",
                  "--file-budget-ms", 1500 if tier == "quick" else 60000, "--heavy", 0 if tier == "quick" else 1,
                  "--max-gen-cost", 400000000 if tier == "quick" else 0], timeout=7200)
    paths += shard_file(t, 2 if tier == "quick" else 8, wd, "corpus")
    validate_parallel("Trace_Generator.tla", paths, chk, "gen", sig_fn=sig, jobs=8, classes=[], timeout=7200)
    res["states"] = meta["distinct"] + chk.states
    res["transitions"] = meta["generated"] + chk.transitions
    res["traces"] = chk.traces
    res["events"] = chk.evaluations
    mism = []
    for (i, c, e) in getattr(chk, "raw_mismatches", []):
        small = {k: e[k] for k in e if k not in ("trusted",)}
        if c in ("C09", "C09L", "C09W", "X10"):
            small["trusted"] = e.get("trusted")
        mism.append({"cls": c, "index": i, "sig": dict(sig(e), spend_extra=has_spend_extra(e)), "event": small if len(json.dumps(small)) < 200000 else {"src": e.get("src"), "flags": e.get("flags")}})
    res["mismatch"] = mism[:400]
    stats = {"native_ok": 0, "legacy_ok": 0, "both_ok": 0, "both_rejected": 0, "legacy_only_failed": 0, "opaque": 0, "with_trusted": 0, "with_listing": 0, "listing_conditions": 0, "listing_over_cap": 0, "refsel_accepted_multi_ref": 0, "refsel_rejected": 0, "corpus_files": set()}
    nontrivial = set()
    samples = []
    for p in paths:
        for e in vlib.read_ndjson(p):
            a, b = e["native"]["ok"], e["legacy"]["ok"]
            stats["native_ok"] += a
            stats["legacy_ok"] += b
            stats["both_ok"] += a and b
            stats["both_rejected"] += (not a) and (not b)
            stats["legacy_only_failed"] += a and not b
            stats["opaque"] += bool(e.get("opaque"))
            stats["with_trusted"] += "trusted" in e
            csc = e.get("trusted", {}).get("csc", {})
            if csc.get("ok") and csc.get("listed"):
                stats["with_listing"] += 1
                stats["listing_conditions"] += sum(len(x) for x in csc["listing"])
                stats["listing_over_cap"] += any(len(x) > 1024 for x in csc["listing"])
            if "refsel" in e:
                stats["refsel_accepted_multi_ref" if (a and e["nrefs"] >= 2) else "refsel_rejected" if not a else "opaque"] += 1 if (not a or e["nrefs"] >= 2) else 0
            if e.get("src") not in ("mc", "random", "frontier"):
                stats["corpus_files"].add(e.get("src"))
            h = hashlib.sha256(json.dumps([e.get("prog", e.get("src")), e["flags"], e["max"], e["nrefs"], e["ser"]]).encode()).hexdigest()[:20]
            if (a and e["native"]["r"]["spends"]) or (a != b) or (not a and e["native"].get("errname") != "Err(InvalidCondition)"):
                nontrivial.add(h)
            if len(samples) < 3 and a and e["native"]["r"]["spends"] and "prog" in e and len(json.dumps(e["prog"])) < 1200:
                samples.append({"prog": e["prog"], "flags": e["flags"], "nrefs": e["nrefs"], "ser": e["ser"], "native_cost": e["native"]["r"]["cost"], "legacy_ok": b})
    stats["corpus_files"] = sorted(stats["corpus_files"])
    res["stats"] = stats
    res["nontrivial"] = len(nontrivial)
    res["samples"] = samples
    res["wall"] = time.time() - t0
    json.dump(res, open(cache, "w"))
    return res


def apply(chk, res, classes, what=None):
    chk.states += res["states"]
    chk.transitions += res["transitions"]
    chk.traces += res["traces"]
    chk.evaluations += res["events"]
    for i in range(res["nontrivial"]):
        chk.nontrivial_add(("gen", i))
    for s in res["samples"]:
        chk.sample(s)
    chk.extra.setdefault("model_runs", {}).update(res["mc"])
    chk.extra["generator_stats"] = res["stats"]
    chk.extra.setdefault("entry_points", [])
    for ep in ("run_block_generator", "run_block_generator2"):
        if ep not in chk.extra["entry_points"]:
            chk.extra["entry_points"].append(ep)
    for m in res["mismatch"]:
        if m["cls"] in classes:
            s = dict(m["sig"])
            s["class"] = m["cls"]
            chk.violation(s, "generator event %d disagrees with Generator.tla (%s)" % (m["index"], m["cls"]), m["event"])
