"""C15 - all signature verification paths agree, with or without the pairing cache.

M  MC_BlsCache: every interleaving (lock granularity) of concurrent cache-assisted verifications and one
   environment operation, for all capacities / prior contents / calls of the menu: Bounded, CacheCoherent,
   Transparent; MC_BlsVerify: symbolic models of the stand-alone verifiers agree with RefVerdict.
G  every terminal state of MC_BlsCache is a replay case (schedule + predicted cache contents per step +
   predicted verdicts), every input of MC_BlsVerify is a sequential case.
R  the harness forces each schedule on real OS threads through the verif-hooks yield points and logs
   len()/keys after every critical section and the verdicts; compared with the predictions here.
T  seeded random histories (larger calls, more threads, several environment operations) and random
   sequential inputs; all logs are validated by TLC against Trace_BlsCache.
"""
import hashlib
import json
import os
import random
import concurrent.futures as cf
from collections import Counter
from checks.common import *

VNAME = {"verify": "verify", "agg": "aggregate_verify", "cache": "BlsCache::aggregate_verify", "cache2": "BlsCache::aggregate_verify",
         "gt": "aggregate_verify_gt", "clvm": "validate_clvm_and_signature"}


def bag(ps):
    return Counter(tuple(p) for p in ps)


def has_inf(pairs):
    return any(p[0] == 0 for p in pairs)


def ref(pairs, sig):
    """RefVerdict of BlsVerify.tla, used here only to LABEL what TLC rejected"""
    return "T" if (not has_inf(pairs) and sig["wf"] and bag(pairs) == bag(sig["bag"])) else "F"


def expected(v, pairs, sig):
    if v == "verify" and len(pairs) != 1:
        return "na"
    if v in ("gt", "clvm") and has_inf(pairs):
        return "na"
    return ref(pairs, sig)


def verdict_sig(v, pairs, sig, got):
    """signature (stable fields) of a verdict that differs from RefVerdict"""
    real = [p for p in pairs if p[0] != 0]
    if VNAME[v] == "BlsCache::aggregate_verify" and got == "T" and has_inf(pairs) and sig["wf"] and bag(real) == bag(sig["bag"]):
        # the cache path does not reject the point at infinity: every infinity-key pair contributes the
        # identity pairing, so the aggregate over the remaining pairs (the identity if none remain) is accepted
        return {"verifier": VNAME[v], "case": "infinity_pk_identity_sig", "all_infinity": len(real) == 0}
    return {"verifier": VNAME[v], "case": "verdict", "got": got[:5], "expected": ref(pairs, sig), "infinity_key": has_inf(pairs), "sig_wf": sig["wf"]}


def event_sig(e, cls):
    """signature of an event rejected by Trace_BlsCache with mismatch class cls"""
    k = e.get("k")
    if cls == "C15M":
        return {"verifier": "BlsCache", "case": "cache_model_divergence", "event": k, "site": e.get("site", 0)}
    if k == "seq":
        if not (0 <= e["len1"] <= e["cap"] and 0 <= e["len2"] <= e["cap"]):
            return {"verifier": "BlsCache", "case": "capacity_exceeded"}
        for v in ("cache", "cache2", "agg", "verify", "gt", "clvm"):
            x = expected(v, e["pairs"], e["sig"])
            if x != "na" and e["v"][v] != x:
                return verdict_sig(v, e["pairs"], e["sig"], e["v"][v])
        return {"verifier": "?", "case": "seq"}
    if k in ("init", "step", "env", "end") and (e["len"] > e["cap"] or len(e["keys"]) > e["cap"]):
        return {"verifier": "BlsCache", "case": "capacity_exceeded"}
    if k == "step" and e.get("next") == 0 and "call" in e:
        return verdict_sig("cache", e["call"]["pairs"], e["call"]["sig"], e["verdict"])
    if k == "init":
        for c, s in zip(e["calls"], e["start"]):
            if s["next"] == 0 and s["verdict"] != ref(c["pairs"], c["sig"]):
                return verdict_sig("cache", c["pairs"], c["sig"], s["verdict"])
    if k == "end":
        return {"verifier": "BlsCache::aggregate_verify", "case": "cached_value_not_own_pairing"}
    return {"verifier": "BlsCache", "case": "event", "event": k}


# ---------------------------------------------------------------------------------------------------
# model checking + case generation (cached by spec hash; per-action coverage kept in the meta file)

def model(spec, cfg, chk, tag, workers=6, timeout=3000, need_actions=()):
    def gen(out):
        n = [0]
        def sink(o):
            out.write(json.dumps(o) + "\n")
            n[0] += 1
        r = vlib.tlc(spec, cfg=cfg, workers=workers, timeout=timeout, tag="gen", case_sink=sink, coverage=True)
        if not r.ok:
            raise ToolError("model checking failed for %s/%s:\n%s" % (spec, cfg, r.error or r.out[-3000:]))
        return {"generated": r.generated, "distinct": r.distinct, "depth": r.depth, "cases": n[0], "wall": round(r.wall, 1),
                "actions": {a: list(c) for a, c in r.coverage.items()}}
    path, meta = vlib.cached_cases([spec, cfg, "BlsCache.tla", "BlsVerify.tla"], gen, extra="cov")
    chk.states += meta["distinct"]
    chk.transitions += meta["generated"]
    for a in need_actions:
        if meta["actions"].get(a, [0, 0])[0] == 0:
            raise ToolError("%s/%s: action %s never fired (coverage %r)" % (spec, cfg, a, meta["actions"]))
    chk.extra.setdefault("model_runs", {})[tag] = {"cfg": cfg, "distinct": meta["distinct"], "generated": meta["generated"], "depth": meta["depth"],
                                                   "cases": meta["cases"], "wall_s": meta["wall"],
                                                   "actions_distinct_states": {a: c[0] for a, c in meta["actions"].items() if a.endswith("Any")}}
    return path, meta


ACTIONS = ("LookupAny", "ComputeAny", "PutAny", "FinalAny", "UpdateAny", "EvictAny")


def pick_cases(sources, seed, wd, shards):
    """sources: [(case file, how many, prefix)]: a seeded subsample of each file is dealt over `shards` case files;
    every case gets an id (unique within the run) so that the log can be matched with its prediction"""
    parts = [[] for _ in range(shards)]
    k = 0
    for path, n, prefix in sources:
        with open(path) as f:
            lines = f.readlines()
        idx = list(range(len(lines)))
        if n < len(lines):
            idx = sorted(random.Random(seed).sample(idx, n))
        for i in idx:
            c = json.loads(lines[i])
            c["id"] = k
            c["src"] = "%s:%d" % (prefix, i)
            parts[k % shards].append(c)
            k += 1
    outs = []
    for s_, part in enumerate(parts):
        p = os.path.join(wd, "cases-%d.ndjson" % s_)
        with open(p, "w") as f:
            for c in part:
                f.write(json.dumps(c) + "\n")
        outs.append(p)
    return outs


def run_harness(jobs, par=6):
    """jobs: list of argument lists; runs them in parallel (the binary is built once, first)"""
    vlib.build_harness("vh", vlib.bin_for("blscache"))
    with cf.ThreadPoolExecutor(max_workers=par) as ex:
        list(ex.map(lambda a: vlib.harness(["blscache"] + a), jobs))


# ---------------------------------------------------------------------------------------------------
# R: direct comparison of a replay log with the predictions TLC attached to the cases

def histories(path):
    cur = None
    for e in vlib.read_ndjson(path):
        if e["k"] == "init":
            if cur:
                yield cur
            cur = [e]
        elif e["k"] == "seq":
            if cur:
                yield cur
                cur = None
            yield [e]
        elif e["k"] == "hang":
            if cur:
                yield cur
                cur = None
            yield [e]
        elif cur is not None:
            cur.append(e)
    if cur:
        yield cur


def key_table(init):
    t = {}
    for k, pk in enumerate(init["pk"]):
        for m, msg in enumerate(init["msg"]):
            t[hashlib.sha256(bytes(pk) + bytes(msg)).digest()] = [k, m]
    return t


def decode(tab, keys):
    return [tab.get(bytes(k), [999, i]) for i, k in enumerate(keys)]


def replay_compare(casefile, logfile, chk, stats):
    """returns the number of divergences between the log and the predictions of the cases"""
    cases = {c["id"]: c for c in vlib.read_ndjson(casefile)}
    def violation(sig_, desc, obj):
        # same mismatch classes as Trace_BlsCache: C15 = a clause of the property, C15M = the FIFO model
        sig_["class"] = "C15M" if sig_["case"] in ("cache_model_divergence", "hang") else "C15"
        chk.violation(sig_, desc, obj)
    bad = 0
    seen = 0
    for h in histories(logfile):
        e0 = h[0]
        if e0["k"] == "hang":
            violation({"verifier": "BlsCache", "case": "hang"}, "a scheduled thread neither yielded nor finished: a lock is held across a yield point", e0)
            bad += 1
            continue
        if e0["case"] < 0:
            continue  # seeded random history: judged by Trace_BlsCache alone
        c = cases[e0["case"]]
        seen += 1
        if e0["k"] == "seq":
            for v, x in c["exp"].items():
                if x != "na" and e0["v"][v] != x:
                    bad += 1
                    violation(verdict_sig(v, e0["pairs"], e0["sig"], e0["v"][v]),
                                  "%s returned %s, RefVerdict is %s, for pairs %s signature %s" % (VNAME[v], e0["v"][v], x, e0["pairs"], e0["sig"]), e0)
            if not (0 <= e0["len1"] <= e0["cap"] and 0 <= e0["len2"] <= e0["cap"]):
                bad += 1
                violation({"verifier": "BlsCache", "case": "capacity_exceeded"}, "cache holds %d/%d entries, capacity %d" % (e0["len1"], e0["len2"], e0["cap"]), e0)
            if e0["v"]["blst"] not in ("na", ref(e0["pairs"], e0["sig"])):
                raise ToolError("raw blst disagrees with RefVerdict (the symbolic model is wrong?): %r" % e0)
            continue
        tab = key_table(e0)
        nt = len(c["calls"])
        steps = [e for e in h[1:] if e["k"] in ("step", "env")]
        div = [e for e in h[1:] if e["k"] == "diverge"]
        exp_verdict = [c["verdicts"][t][e0["choice"][t] - 1] for t in range(nt)]
        def verdict_check(t, got, ev):
            nonlocal bad
            x = "T" if exp_verdict[t] else "F"
            if got != x:
                bad += 1
                call = e0["calls"][t]
                violation(verdict_sig("cache", call["pairs"], call["sig"], got),
                              "BlsCache::aggregate_verify returned %s, the specification %s (pairs %s, signature %s, capacity %d, prior %s, schedule %s)"
                              % (got, x, call["pairs"], call["sig"], c["cap"], c["prior"], c["sched"]), {"case": dict(c, choice=e0["choice"]), "event": ev})
        model_bad = None
        if e0["len"] > c["cap"]:
            bad += 1
            violation({"verifier": "BlsCache", "case": "capacity_exceeded"}, "cache holds %d entries, capacity %d" % (e0["len"], c["cap"]), e0)
        if decode(tab, e0["keys"]) != c["prior"]:
            model_bad = ("prior contents", e0)
        for t, s in enumerate(e0["start"]):
            if s["next"] == 0:
                verdict_check(t, s["verdict"], e0)
        if div or len(steps) != len(c["sched"]):
            model_bad = model_bad or ("schedule cannot be followed", (div or steps[-1:] or [e0])[0])
        for i, e in enumerate(steps[:len(c["sched"])]):
            ident = e["t"] if e["k"] == "step" else nt + e["j"]
            if e["len"] > c["cap"] or len(e["keys"]) > c["cap"]:
                bad += 1
                violation({"verifier": "BlsCache", "case": "capacity_exceeded"}, "cache holds %d entries, capacity %d (case %d step %d)" % (e["len"], c["cap"], c["id"], i + 1),
                              {"case": c, "event": e})
            if model_bad is None and (ident != c["sched"][i] or e["len"] != len(e["keys"]) or decode(tab, e["keys"]) != c["obs"][i]):
                model_bad = ("cache contents after step %d: %s, specification %s" % (i + 1, decode(tab, e["keys"]), c["obs"][i]), e)
            if e["k"] == "step" and e["next"] == 0:
                verdict_check(e["t"] - 1, e["verdict"], e)
        end = [e for e in h[1:] if e["k"] == "end"]
        if not end:
            model_bad = model_bad or ("history has no end", e0)
        else:
            pr = end[0]["probes"]
            if any(p not in ("T", "skip", "unknown") for p in pr):
                bad += 1
                violation({"verifier": "BlsCache::aggregate_verify", "case": "cached_value_not_own_pairing"},
                              "a cached value does not verify the signature of its own key: probes %s of final keys %s" % (pr, decode(tab, end[0]["keys"])),
                              {"case": c, "event": end[0]})
            if "unknown" in pr:
                model_bad = model_bad or ("foreign key in the cache", end[0])
        if model_bad:
            bad += 1
            violation({"verifier": "BlsCache", "case": "cache_model_divergence", "event": model_bad[1].get("k"), "site": model_bad[1].get("site", 0)},
                          "case %d (capacity %d, prior %s, schedule %s): %s" % (c["id"], c["cap"], c["prior"], c["sched"], model_bad[0]), {"case": c, "event": model_bad[1]})
    if seen != len(cases):
        raise ToolError("replay log %s covers %d of %d cases" % (logfile, seen, len(cases)))
    stats["replayed"] += seen
    return bad


# ---------------------------------------------------------------------------------------------------
# T: TLC validation of logs

def tlc_validate(paths, chk, jobs=6):
    """validate logs with Trace_BlsCache. A log is a replay part (cases of TLC, already judged by replay_compare)
    followed by a random part; C15 / C15M mismatches of the random part become violations.
    returns {path: number of mismatches in the replay part}"""
    def one(p):
        r = vlib.validate_trace("Trace_BlsCache.tla", p, "blscache", timeout=3000, xmx="3g",
                                extra_env={"JAVA_TOOL_OPTIONS": "-XX:ParallelGCThreads=2 -XX:CICompilerCount=2"})
        if not r.ok:
            raise ToolError("trace validation crashed on %s:\n%s" % (p, r.error or r.out[-3000:]))
        if "CONSUMED" not in r.tags or "MISMATCH" not in r.tags or "NMISMATCH" not in r.tags:
            raise ToolError("trace validation produced no acceptance report on %s:\n%s" % (p, r.out[-2000:]))
        return p, r
    res = {}
    with cf.ThreadPoolExecutor(max_workers=jobs) as ex:
        for p, r in ex.map(one, paths):
            consumed, mism, nm = r.tags["CONSUMED"][-1], r.tags["MISMATCH"][-1], r.tags["NMISMATCH"][-1][0]
            if consumed[0] != consumed[1]:
                raise ToolError("trace not fully consumed: %s (%s)" % (consumed, p))
            if nm != len(mism):
                raise ToolError("inconsistent acceptance report %r %r" % (nm, mism[:10]))
            chk.add_tlc(r)
            chk.traces += 1
            chk.evaluations += consumed[1]
            res[p] = 0
            if not mism:
                continue
            evs = list(vlib.read_ndjson(p))
            first_random = next((i for i, e in enumerate(evs) if e.get("case", 0) < 0), len(evs)) + 1
            for i, cls in mism:
                e = evs[i - 1]
                if cls in ("ORACLE", "HARNESS"):
                    raise ToolError("%s mismatch at event %d of %s: %s" % (cls, i, p, json.dumps(e)[:1500]))
                if i < first_random:
                    res[p] += 1
                    continue
                s = event_sig(e, cls)
                s["class"] = cls
                chk.violation(s, "Trace_BlsCache rejects event %d of %s (%s): %s" % (i, os.path.basename(p), cls, json.dumps(s)), e)
    return res


def log_stats(paths, chk, st):
    """what the recorded histories exercised (vacuity guard, non-trivial cases, samples)"""
    for p in paths:
        for h in histories(p):
            e0 = h[0]
            if e0["k"] == "hang":
                continue
            if e0["k"] == "seq":
                st["seq"] += 1
                st["seq_" + ref(e0["pairs"], e0["sig"])] += 1
                ps = e0["pairs"]
                special = has_inf(ps) or any(q[1] == 0 for q in ps) or len(set(q[0] for q in ps)) < len(ps) or len(set(q[1] for q in ps)) < len(ps)
                if special or not e0["sig"]["wf"] or bag(e0["sig"]["bag"]) != bag(ps):
                    chk.nontrivial_add(("seq", json.dumps(ps), json.dumps(e0["sig"])))
                if not e0["sig"]["wf"]:
                    st["seq_offsubgroup"] += 1
                if has_inf(ps):
                    st["seq_infinity_key"] += 1
                continue
            st["histories"] += 1
            prev_keys, prev_id, cap = e0["keys"], None, e0["cap"]
            hits = Counter()
            inter = False
            sched = []
            for e in h[1:]:
                if e["k"] not in ("step", "env"):
                    continue
                ident = e["t"] if e["k"] == "step" else 100 + e["j"]
                sched.append(ident)
                if e["k"] == "env":
                    st["env_ops"] += 1
                    if len(e["keys"]) < len(prev_keys):
                        st["evict_removed"] += 1
                elif e["site"] == 1:
                    if e["next"] == 2:
                        st["lookup_miss"] += 1
                    else:
                        st["lookup_hit"] += 1
                        hits[e["t"]] += 1
                else:
                    st["put"] += 1
                    if prev_id != ident:
                        st["put_after_foreign_step"] += 1
                        inter = True
                    if len(prev_keys) == cap:
                        st["put_at_capacity"] += 1
                    if len(e["keys"]) < len(prev_keys) + 1 and len(prev_keys) < cap:
                        st["put_refresh"] += 1
                    if len(e["keys"]) < len(prev_keys):
                        st["put_shrinks"] += 1
                if e["k"] == "step" and e["next"] == 0:
                    st["verdict_" + e["verdict"][:1]] += 1
                    if e["verdict"] == "T" and hits[e["t"]]:
                        st["accepted_with_cached_pairing"] += 1
                prev_keys, prev_id = e["keys"], ident
            if inter or sum(hits.values()):
                chk.nontrivial_add(("conc", cap, json.dumps(e0["prior"]), json.dumps(e0["calls"]), json.dumps(e0["env"]), json.dumps(sched)))


def run(tier):
    chk = vlib.Check("C15", tier)
    wd = vlib.workdir("C15")
    quick = tier == "quick"
    st = Counter()
    # ---- M + G
    conc, m1 = model("MC_BlsCache.tla", "MC_BlsCache_quick.cfg", chk, "conc2", need_actions=ACTIONS)
    seq, m2 = model("MC_BlsVerify.tla", "MC_BlsVerify.cfg", chk, "seq")
    model("MC_BlsCache.tla", "MC_BlsCache_live.cfg", chk, "termination", workers=4)  # PROPERTY Termination under weak fairness
    sources = [(conc, 4800 if quick else m1["cases"], "conc2"), (seq, m2["cases"], "seq")]
    if not quick:
        full, m3 = model("MC_BlsCache.tla", "MC_BlsCache_full.cfg", chk, "conc2_full", timeout=7200)
        three, m4 = model("MC_BlsCache.tla", "MC_BlsCache_3.cfg", chk, "conc3", need_actions=ACTIONS, timeout=7200)
        sources += [(full, 50000, "conc2_full"), (three, 50000, "conc3")]
    nsh = 6 if quick else 36
    casefiles = pick_cases(sources, chk.seed, wd, nsh)
    jobs, logs = [], []
    for i, cf_ in enumerate(casefiles):
        log = os.path.join(wd, "log-%d.ndjson" % i)
        # R: the cases of TLC; T: seeded random histories and sequential inputs, appended to the same log
        jobs.append(["--cases", cf_, "--seed", chk.seed * 1000 + i, "--out", log, "--keys", 4, "--msgs", 4,
                     "--random-conc", 200 if quick else 1200, "--random-seq", 200 if quick else 1200])
        logs.append(log)
    run_harness(jobs)
    rbad = {log: replay_compare(cf_, log, chk, st) for cf_, log in zip(casefiles, logs)}
    tr = tlc_validate(logs, chk)
    for log in logs:
        if (tr[log] > 0) != (rbad[log] > 0):
            raise ToolError("replay comparison (%d) and trace validation (%d) disagree on %s" % (rbad[log], tr[log], log))
    rnd = logs
    log_stats(logs, chk, st)
    # ---- vacuity guard: the logs must have exercised every branch of the cache and both verdicts
    need = {"histories": 500, "seq": 500, "lookup_hit": 200, "lookup_miss": 200, "put": 200, "put_at_capacity": 100, "put_refresh": 20,
            "put_after_foreign_step": 100, "evict_removed": 30, "env_ops": 100, "accepted_with_cached_pairing": 100, "verdict_T": 200, "verdict_F": 200,
            "seq_T": 50, "seq_F": 200, "seq_offsubgroup": 50, "seq_infinity_key": 50}
    low = {k: st[k] for k, n in need.items() if st[k] < n}
    if low and not chk.violations:  # a run that found violations has its verdict; a mutant may also starve a branch
        raise ToolError("C15 vacuity guard: too few of %r (all: %r)" % (low, dict(st)))
    chk.extra["exercised"] = dict(st)
    chk.extra["exhaustive"] = True
    chk.extra["model_constants"] = ("MC_BlsCache_quick.cfg: 2 threads x <= 2 pairs over {(k1,m1),(k2,m1),(inf,m1)}, capacity 1..2, prior contents over 3 keys, <= 1 evict/update; "
                                    "MC_BlsVerify.cfg: lists of <= 3 pairs over keys {inf,1,2} x messages {empty,1}, 6-11 signatures each"
                                    + ("" if quick else "; MC_BlsCache_full.cfg: 2 threads, 4 pairs universe, capacity 1..3, 7 environment menus, no reduction; MC_BlsCache_3.cfg: 3 threads"))
    for want in (True, False):
        for h in histories(logs[0]):
            if h[0]["k"] == "init" and len(h) > 5 and (h[0]["case"] >= 0) == want:
                e0 = h[0]
                chk.sample({"capacity": e0["cap"], "prior": e0["prior"], "calls": e0["calls"], "env": e0["env"],
                            "steps": [[e.get("t", e.get("j")), e.get("site", e["k"]), e["len"], e.get("verdict", "")] for e in h[1:] if e["k"] in ("step", "env")]})
                break
    for h in histories(logs[0]):
        if h[0]["k"] == "seq" and len(h[0]["pairs"]) > 1 and h[0]["case"] < 0:
            chk.sample({k: h[0][k] for k in ("pairs", "sig", "v")})
            break
    chk.rule = ("cases = (a) terminal states of MC_BlsCache (capacity, prior contents, calls, environment operation, lock-granularity schedule) forced on real threads, "
                "(b) seeded random histories of 2-4 threads x <= 5 pairs, capacity 1..4, <= 3 evict/update, validated by Trace_BlsCache, (c) pair list x signature inputs of MC_BlsVerify "
                "and random ones through the five verifiers; non-trivial = concurrent history in which a put follows another thread's or the environment's critical section or a lookup hits "
                "(distinct by capacity, prior, calls, environment, schedule), sequential input with an infinity key, an empty message, a repeated key or message, or a signature other than the plain aggregate "
                "(distinct by pairs and signature)")
    chk.assumptions = ["symbolic cryptography: distinct bags of real-key (key, message) pairs give distinct pairing products; SHA-256 injective (cache key = pair)",
                       "BlsCache::update is called with the true pairing of its augmented message",
                       "schedules are forced at lock granularity through the verif-hooks yield points; races inside a critical section are outside the model",
                       "the FIFO policy of bls_cache.rs:27 (evict the oldest at capacity, re-insertion moves to the back) is part of the specification: a change of the "
                       "eviction policy is reported as cache_model_divergence (class C15M), separately from the clauses of the property (class C15)",
                       "aggregate_verify_gt and validate_clvm_and_signature are compared only when no key is the point at infinity (exempt by the property)"]
    return chk.finish()


def replay(path):
    """re-run the recorded failing cases"""
    items = json.load(open(path))
    chk = vlib.Check("C15", "quick")
    wd = vlib.workdir("C15")
    cases = []
    for it in items:
        c = it["case"].get("case") if isinstance(it["case"], dict) and "case" in it["case"] and isinstance(it["case"]["case"], dict) else None
        if c is None and isinstance(it["case"], dict) and it["case"].get("k") == "seq":
            e = it["case"]
            c = {"k": "seq", "pairs": e["pairs"], "sig": e["sig"], "exp": {v: expected(v, e["pairs"], e["sig"]) for v in VNAME}}
        if c is not None:
            c = dict(c)
            c["id"] = len(cases)
            cases.append(c)
    if not cases:
        raise ToolError("no replayable case in %s (random histories are reproduced by re-running the check with the same VERIF_SEED)" % path)
    cf_ = os.path.join(wd, "replay-cases.ndjson")
    with open(cf_, "w") as f:
        for c in cases:
            f.write(json.dumps(c) + "\n")
    lg = os.path.join(wd, "replay-log.ndjson")
    # a recorded concurrent case names the signature each thread used (field "choice")
    vlib.harness(["blscache", "--cases", cf_, "--seed", chk.seed, "--out", lg])
    replay_compare(cf_, lg, chk, Counter())
    # no evidence file is written by a replay
    for k in chk.known_hit:
        print("KNOWN-FINDING: property=C15 %s" % k["what"])
    for sig_, d, _ in chk.violations[:10]:
        log("violation:", d)
    if chk.violations:
        print("VIOLATION property=C15 replay=%s" % path)
        return 1
    log("C15 replay: the recorded cases no longer fail (%d cases)" % len(cases))
    return 0
