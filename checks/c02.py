"""C02 - accepted bundles conserve value and never duplicate coins."""
from checks.common import *
from checks import cond_pipeline


def run(tier):
    chk = vlib.Check("C02", tier)
    res = cond_pipeline.run(tier, chk.seed)
    cond_pipeline.apply(chk, res, ["C02"],
        "M: Conservation/NoDoubleSpend/NoDupOutput/TotalsAreSums/CoinIdDef are invariants of every state of MC_Cond; "
        "T: the same invariants (ObsAccepted in ConditionsObs.tla) are re-evaluated by TLC on the implementation's own reported numbers for every "
        "accepted result in every trace (amount menu includes 2^63, 2^64-1 so sums exceed 64 bits); non-trivial = accepted with effects or rejected")
    try:
        from checks import gen_pipeline
        g = gen_pipeline.run(tier, chk.seed)
        gen_pipeline.apply(chk, g, ["C02"])
    except ImportError:
        pass
    try:
        from checks import sb_pipeline
        b = sb_pipeline.run(tier, chk.seed)
        sb_pipeline.apply(chk, b, ["C02"])
    except ImportError:
        pass
    try:
        from checks import sig_pipeline
        g = sig_pipeline.run(tier, chk.seed)
        sig_pipeline.apply(chk, g, ["C02"])
    except ImportError:
        pass
    chk.assumptions = ["SHA-256 via JDK override"]
    chk.extra["exhaustive"] = False
    return chk.finish()
