"""C14 - decoding arbitrary bytes is total and bounded (exploration level).

The grammar (schema extracted from the current sources + Streamable.tla) is the adversarial input
generator: every length prefix set to {0, 1, n+-1, 2^16, 2^21, 2^24, 2^31, 2^32-1}, all / the outermost /
every nested vector claiming the maximum, option / bool / enum / version bytes over 0..255, CLVM nesting
depth 10..10^5 spliced into Program fields, many minimal elements, random bytes, bit flips, truncation and
extension of valid encodings. Every case runs in a child process (an abort or hang is attributed to the
case by a progress marker) with a counting allocator and a CPU clock; Trace_Totality states the bounds.
"""
import json
import os
from checks.common import *
from checks.c13 import prepare_schema, model_check

CLASSES = ["C14.outcome", "C14.reject", "C14.consumed", "C14.post", "C14.alloc", "C14.cpu"]


def signatures(cls, e):
    """one precise signature per violated clause (stable fields: type, op, outcome)"""
    ty = e.get("type")
    if cls == "C14.outcome":
        return [{"type": ty, "op": "decode", "outcome": e.get("outcome"), "trusted": e.get("trusted")}]
    if cls == "C14.reject":
        return [{"type": ty, "op": "decode", "outcome": "accepted-" + str(e.get("gen")), "trusted": e.get("trusted")}]
    if cls == "C14.consumed":
        return [{"type": ty, "op": "decode", "outcome": "unconsumed", "trusted": e.get("trusted")}]
    if cls == "C14.alloc":
        return [{"type": ty, "op": "decode", "outcome": "alloc", "trusted": e.get("trusted")}]
    if cls == "C14.cpu":
        return [{"type": ty, "op": "decode", "outcome": "cpu", "trusted": e.get("trusted")}]
    out = []
    post = e.get("post", {})
    for op in ("reencode", "hash", "eq"):
        if post.get(op) == "panic":
            # a container whose hash panics because an embedded ProofOfSpace panics on its own is
            # attributed to ProofOfSpace (decided by re-running the embedded encoding alone)
            t = e.get("culprit") or ty if op == "hash" else ty
            out.append({"type": t, "op": op, "outcome": "panic"})
    return out or [{"type": ty, "op": "post", "outcome": json.dumps(post, sort_keys=True)}]


def case_bytes(e, hexmap, args):
    h = hexmap.get(e["i"])
    if h is None:
        p = vlib.harness(args + ["--dump-case", e["i"]])
        h = json.loads(p.stdout.strip().splitlines()[-1])["hex"]
    return h


def run(tier):
    chk = vlib.Check("C14", tier, level="exploration")
    wd = vlib.workdir("C14")
    model_check(chk, tier)  # PrefixFree / Canon of the grammar justify must_reject for truncations and extensions
    schema_path, schema, names = prepare_schema(wd)
    t = os.path.join(wd, "trace.ndjson")
    args = ["streamable", "--mode", "c14", "--schema", schema_path, "--repo", vlib.REPO, "--seed", chk.seed, "--tier", tier]
    p = vlib.harness(args + ["--out", t, "--workdir", os.path.join(wd, "children"), "--jobs", 6], timeout=7200)
    hstats = json.loads(p.stdout.strip().splitlines()[-1])
    paths = shard_file(t, 6 if tier == "quick" else 24, wd, "trace")
    validate_parallel("Trace_Totality.tla", paths, chk, "totality", jobs=6, classes=[], xmx="3g")
    hexmap = {}
    with open(t + ".hex") as f:
        for line in f:
            i, _, h = line.partition(" ")
            hexmap[int(i)] = h.strip()
    # violations, one per distinct signature (with a count)
    seen = {}
    # the smallest input of each signature becomes its replay case
    for i, cls, e in sorted(getattr(chk, "raw_mismatches", []), key=lambda m: (m[2]["len"], m[2]["i"])):
        if cls not in CLASSES:
            raise ToolError("unexpected mismatch class " + cls)
        for s in signatures(cls, e):
            key = json.dumps(s, sort_keys=True)
            if key in seen:
                seen[key][1] += 1
                continue
            case = dict(e)
            case["hex"] = case_bytes(e, hexmap, args)
            seen[key] = [s, 1, case, cls]
    for key, (s, n, case, cls) in sorted(seen.items()):
        case["occurrences"] = n
        chk.violation(s, "Trace_Totality %s: %s %s (%d events), first: type %s, %d bytes, class %s" % (cls, s["op"], s["outcome"], n, case["type"], case["len"], case.get("gen")), case)
    # statistics, vacuity guards
    values = rejects = must = 0
    max_alloc = max_cpu_small = 0
    worst_ratio = (0, None)
    types_seen = set()
    sampled = set()
    for pth in paths:
        for e in vlib.read_ndjson(pth):
            types_seen.add(e["type"])
            values += e["outcome"] == "value"
            rejects += e["outcome"] == "error"
            must += bool(e["must_reject"])
            max_alloc = max(max_alloc, e["peak_alloc"])
            if e["len"] <= 65536:
                max_cpu_small = max(max_cpu_small, e["cpu_ms"])
            if e["len"] >= 10000 and e["peak_alloc"] / e["len"] > worst_ratio[0]:
                worst_ratio = (round(e["peak_alloc"] / e["len"], 1), e["type"])
            # non-trivial: the input is not a plain valid encoding and gets past the first field, i.e. it was
            # built from a valid encoding by the grammar (not random bytes) or it decodes
            if e["gen"] not in ("valid", "random") or e["outcome"] == "value":
                chk.nontrivial_add((e["type"], e["trusted"], e["i"]))
            if e["gen"] not in sampled and e["len"] < 200 and e["i"] in hexmap:
                sampled.add(e["gen"])
                s = {k: e[k] for k in ("type", "gen", "len", "trusted", "outcome", "peak_alloc", "cpu_ms", "post")}
                s["hex"] = hexmap[e["i"]]
                chk.sample(s, limit=10)
    by_gen = hstats["by_class"]
    need = ["len", "len-all-max", "len-outer-max", "len-nested-max", "prefix", "clvm-depth", "trunc", "ext", "valid", "valid-many", "random", "flip", "point"]
    missing = [k for k in need if by_gen.get(k, 0) == 0]
    if missing or values < 500 or rejects < 500 or must < 200 or max_alloc < 2 * 1024 * 1024 or len(types_seen) < 100:
        raise ToolError("C14 vacuity guard: missing=%r values=%d rejects=%d must_reject=%d max_alloc=%d types=%d" % (missing, values, rejects, must, max_alloc, len(types_seen)))
    chk.extra["cases_by_generator"] = by_gen
    chk.extra["outcomes"] = hstats["by_outcome"]
    chk.extra["max_peak_alloc"] = max_alloc
    chk.extra["max_cpu_ms_len_le_64KiB"] = max_cpu_small
    chk.extra["worst_alloc_ratio_len_ge_10000"] = list(worst_ratio)
    chk.extra["bounds"] = "peak_alloc <= 2048*len + 2 MiB*VecDepth(T) + 8 MiB; cpu_ms <= 2000 for len <= 64 KiB"
    chk.extra["types_probed"] = len(types_seen)
    chk.extra["unmodelled"] = schema["unmodelled"]
    chk.extra["exhaustive"] = False
    chk.rule = ("one case = (concrete Rust type, byte string, trusted?) run in a child process; inputs are derived from valid schema-generated "
                "encodings by the grammar's prefix marks (length fields, option / bool / enum / version bytes, points, programs), plus random bytes; "
                "non-trivial = derived from a valid encoding by a grammar-directed change, or decoding returned a value (post operations run); "
                "distinct by (type, trusted, case index)")
    chk.assumptions = ["panics, aborts, CPU time and heap growth are observed in a child process, not modelled; memory safety proper is out of reach",
                       "heap growth is counted by the harness's global allocator (logical bytes), CPU time by CLOCK_THREAD_CPUTIME_ID; a reading above 300 ms is re-measured (minimum of up to 4 runs)",
                       "must_reject (truncation / extension of a valid encoding) rests on PrefixFree and Canon model-checked in MC_Streamable"]
    return chk.finish()


def replay(path):
    """re-run the failing inputs of a replay file in child processes"""
    wd = vlib.workdir("C14")
    vlib.EVID = os.path.join(wd, "replay-evidence")
    vlib.REPLAYS = os.path.join(wd, "replay-out")
    chk = vlib.Check("C14", "quick", level="exploration")
    schema_path, schema, names = prepare_schema(wd)
    cases = os.path.join(wd, "replay-cases.txt")
    with open(cases, "w") as f:
        for v in json.load(open(path)):
            e = v["case"]
            f.write("%s %d %s\n" % (e["type"], 1 if e["trusted"] else 0, e["hex"]))
    t = os.path.join(wd, "replay.ndjson")
    vlib.harness(["streamable", "--mode", "c14", "--schema", schema_path, "--repo", vlib.REPO, "--seed", chk.seed, "--replay-cases", cases, "--out", t,
                  "--workdir", os.path.join(wd, "children"), "--jobs", 1])
    validate_parallel("Trace_Totality.tla", [t], chk, "totality", jobs=1, classes=[])
    seen = set()
    for i, cls, e in getattr(chk, "raw_mismatches", []):
        for s in signatures(cls, e):
            key = json.dumps(s, sort_keys=True)
            if key not in seen:
                seen.add(key)
                chk.violation(s, "Trace_Totality %s: %s %s" % (cls, s["op"], s["outcome"]), e)
    return chk.finish()
