"""X06 (growth, not a listed property) - chia-client Peer: request / response routing.

M   MC_PeerRpc: the concurrent machine of spec/PeerRpc.tla (AllocId / Register / Send / ServerReply / Inbound /
    Complete / Close interleaved; server menu: ids of requests, unknown ids, duplicates, id-less events and
    non-events, wrong types, rejections, malformed bodies): distinct ids, first reply wins and goes to nobody
    else, unknown / duplicate / id-less messages complete nothing, typed wrappers, events in order, at most once.
    MC_PeerRpcWrap (thorough): the same with a wrapping id counter (IdMod = 2 < K = 3).
G   MC_PeerRpcGen: every server schedule over the target x type menu (two waves of requests) as replay case.
R+T harness/vhnet: the real chia_client::Peer against an in-process websocket server, TLC schedules + seeded
    random ones; Trace_PeerRpc replays the history with the spec actions and compares results / pending sets /
    event sequences.
"""
import json
import os
from checks.common import *


def shard_histories(path, n, wd, prefix):
    outs = [open(os.path.join(wd, "%s-%d.ndjson" % (prefix, i)), "w") for i in range(n)]
    h = -1
    with open(path) as f:
        for line in f:
            if line.startswith('{"k":"reset"') or '"k":"reset"' in line[:40]:
                h += 1
            outs[h % n].write(line)
    for o in outs:
        o.close()
    return [o.name for o in outs]


def sig(e):
    if e.get("k") == "obs":
        return {"event": "obs", "hang": bool(e.get("pend")), "ndone": len(e.get("done", []))}
    return {"event": e.get("k")}


def run(tier):
    chk = vlib.Check("X06", tier)
    wd = vlib.workdir("X06")
    quick = tier == "quick"
    for cfg in (["MC_PeerRpc.cfg"] if quick else ["MC_PeerRpcT.cfg", "MC_PeerRpcWrap.cfg"]):
        r = vlib.tlc("MC_PeerRpc.tla", cfg=cfg, workers=4, timeout=2400, tag="prpc")
        if not r.ok:
            raise ToolError("%s failed:\n%s" % (cfg, r.error or r.out[-3000:]))
        chk.add_tlc(r)
    cases, meta = gen_cases("MC_PeerRpcGen.tla", "MC_PeerRpcGen.cfg" if quick else "MC_PeerRpcGenT.cfg", workers=2)
    chk.states += meta["distinct"]
    chk.transitions += meta["generated"]
    if quick:
        # quick: a seeded sample of the TLC schedules (thorough replays all of them)
        import random
        lines = open(cases).read().splitlines()
        random.Random(chk.seed).shuffle(lines)
        cases = os.path.join(wd, "cases-sample.ndjson")
        open(cases, "w").write("\n".join(lines[:250]) + "\n")
    t = os.path.join(wd, "hist.ndjson")
    vlib.harness(["--cases", cases, "--seed", chk.seed, "--n", 150 if quick else 6000, "--out", t], pkg="vhnet", timeout=1500)
    evs = list(vlib.read_ndjson(t))
    terr = [e for e in evs if e["k"] == "toolerr"]
    if terr:
        raise ToolError("harness timing / IO problem (not a verdict): %s" % terr[:3])
    validate_parallel("Trace_PeerRpc.tla", shard_histories(t, 4 if quick else 12, wd, "hist"), chk, "prpc", sig_fn=sig, jobs=4,
                      classes=["X06", "X06.close"])
    # coverage, measured from the log
    seen = {"ok": 0, "rejection": 0, "invalid": 0, "missing": 0, "dup": 0, "unknown": 0, "idless_event": 0, "idless_other": 0, "close": 0}
    cur = None
    def flush(c):
        if c and c["done"] and (c["dropped"] or c["idless"]):
            chk.nontrivial_add(json.dumps(c["script"], sort_keys=True))
    for e in evs:
        if e["k"] == "reset":
            flush(cur)
            cur = {"script": e["script"], "done": 0, "dropped": 0, "idless": 0, "live": set(), "answered": set()}
        elif e["k"] == "wave":
            for a in e["arr"]:
                cur["live"].add(a["id"][0])
        elif e["k"] == "reply":
            m = e["m"]
            if not m["id"]:
                if m["v"] < 1000000:
                    cur["idless"] += 1
                    seen["idless_event" if m["ty"] in ("new_peak_wallet", "coin_state_update", "mempool_items_added", "mempool_items_removed") else "idless_other"] += 1
            elif m["id"][0] in cur["answered"]:
                seen["dup"] += 1
                cur["dropped"] += 1
            elif m["id"][0] in cur["live"]:
                cur["answered"].add(m["id"][0])
            else:
                seen["unknown"] += 1
                cur["dropped"] += 1
        elif e["k"] == "close":
            seen["close"] += 1
        elif e["k"] == "obs":
            for d in e["done"]:
                cur["done"] += 1
                k = d["out"]["k"]
                if k in seen:
                    seen[k] += 1
                chk.sample({"script": cur["script"], "obs": e}, limit=2)
    flush(cur)
    chk.extra["observed"] = seen
    for k in ("ok", "rejection", "invalid", "dup", "unknown", "idless_event", "idless_other"):
        if seen[k] == 0:
            raise ToolError("vacuous run: no '%s' case was exercised" % k)
    chk.rule = ("histories (TLC schedules + seeded random) on the real Peer; non-trivial = distinct script in which at least one request "
                "completed and at least one server message was a duplicate / unknown-id / id-less one")
    chk.assumptions = ["single-threaded tokio runtime (interleavings of AllocId/Register between tasks are covered by the model only)",
                       "id counter wrap (65536 requests) is model-checked with IdMod = 2, not replayed"]
    return chk.finish()
