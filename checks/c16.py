"""C16 - key and signature encodings round-trip and derivations commute."""
import collections
import hashlib
import json
import os
import concurrent.futures as cf
from checks.common import *

MC_A = "MC_KeyAlgebra.tla"
MC_B = "MC_PointEncoding.tla"
TRACE = "Trace_Keys.tla"


def _dep_hash():
    # cases also depend on the modules the MC specs extend (not covered by the cache key of gen_cases)
    h = hashlib.sha256()
    for n in ("KeyAlgebra.tla", "PointEncoding.tla"):
        h.update(open(vlib.find_spec(n), "rb").read())
    return h.hexdigest()[:12]


P_MOD = 0x1a0111ea397fe69a4b1ba7b6434bacd764774b84f38512bf6730d2a0f6b0f6241eabfffeb153ffffb9feffffffffaaab
R_ORD = 0x73eda753299d7d483339d80809a1d80553bda402fffe5bfeffffffff00000001


def below_p(kind, b):
    m = [b[0] & 0x1f] + b[1:]
    return all(int.from_bytes(bytes(m[i:i + 48]), "big") < P_MOD for i in range(0, len(m), 48))


def sig(e):
    s = {"event": e.get("k"), "src": e.get("src")}
    if e.get("k") == "script":
        s["ops"] = sorted({o["op"] for o in e["ops"]})
    elif e.get("k") == "enc":
        b = e["b"]
        s.update({"kind": e["kind"], "flags": b[0] >> 5, "oncurve": e["oncurve"], "insub": e["insub"],
                  "checked_ok": e["chk"]["ok"], "unchecked_ok": e["unc"]["ok"]})
    elif e.get("k") == "skr":
        s["accepted"] = e["chk"]["ok"]
    return s


def run(tier):
    chk = vlib.Check("C16", tier)
    wd = vlib.workdir("C16")
    quick = tier == "quick"
    dep = _dep_hash()
    runs = {}

    def mc(name, spec, cfg, workers=6, timeout=3000):
        cases, meta = gen_cases(spec, cfg, workers=workers, timeout=timeout, key_extra=dep)
        runs[name] = dict(meta, cfg=cfg)
        return cases

    # M + G: the algebra (laws as invariants over all reachable stores) and the encoding table; the model runs are
    # independent of each other and share the 6 TLC workers
    a_cfgs = ([("explore", "MC_KeyAlgebra_quick.cfg", 3), ("compose", "MC_KeyAlgebra_compose_quick.cfg", 1), ("paths", "MC_KeyAlgebra_paths.cfg", 1)]
              if quick else
              [("explore4", "MC_KeyAlgebra_explore4.cfg", 3), ("explore3", "MC_KeyAlgebra_explore3_all.cfg", 2),
               ("compose", "MC_KeyAlgebra_compose_all.cfg", 1), ("paths", "MC_KeyAlgebra_paths.cfg", 1)])
    jobs = [(n, MC_A, c, w) for n, c, w in a_cfgs] + [("encoding", MC_B, "MC_PointEncoding.cfg", 1)]
    case_files = {}
    # at most 6 TLC workers at any time: the big runs first, then the small ones
    waves = [jobs] if quick else [jobs[:3], jobs[3:]]
    for wave in waves:
        with cf.ThreadPoolExecutor(max_workers=len(wave)) as ex:
            case_files.update(zip([j[0] for j in wave], ex.map(lambda j: mc(j[0], j[1], j[2], workers=j[3]), wave)))
    # R: every emitted store / table row is executed on real keys and strings (scripts: two seed sets)
    traces = []
    for name, _, _ in a_cfgs:
        t = os.path.join(wd, "replay-%s.ndjson" % name)
        vlib.harness(["keys", "--cases", case_files[name], "--seed", chk.seed, "--out", t])
        traces.append(t)
    t = os.path.join(wd, "replay-enc.ndjson")
    vlib.harness(["keys", "--cases", case_files["encoding"], "--seed", chk.seed, "--out", t, "--per-class", 3 if quick else 12])
    traces.append(t)
    # T: seeded random scripts (mirrored routes + free operations), perturbed / random strings, pairing elements
    t = os.path.join(wd, "random.ndjson")
    if quick:
        vlib.harness(["keys", "--seed", chk.seed, "--out", t, "--scripts", 400, "--enc", 300, "--gt", 8])
    else:
        vlib.harness(["keys", "--seed", chk.seed, "--out", t, "--scripts", 8000, "--enc", 6000, "--gt", 100])
    traces.append(t)
    allt = os.path.join(wd, "all.ndjson")
    with open(allt, "w") as out:
        for t in traces:
            with open(t) as f:
                for line in f:
                    out.write(line)
    nev = sum(1 for _ in open(allt))
    paths = shard_file(allt, 4 if quick else max(6, nev // 1500), wd, "shard")
    for m in runs.values():
        chk.states += m["distinct"]
        chk.transitions += m["generated"]
    validate_parallel(TRACE, paths, chk, "keys", sig_fn=sig, jobs=6, classes=None)
    tool = [(i, cls, e) for i, cls, e in getattr(chk, "raw_mismatches", []) if cls.startswith("TOOL")]
    if tool:
        raise ToolError("C16: tool-level inconsistency %s in event %d: %s" % (tool[0][1], tool[0][0], json.dumps(tool[0][2])[:600]))

    # evidence statistics and vacuity guards
    stat = collections.Counter()
    enc_rows = collections.Counter()
    seen = set()
    for p in paths:
        for e in vlib.read_ndjson(p):
            k = e["k"]
            stat[k] += 1
            if k == "script":
                ops = e["ops"]
                key = json.dumps(ops)
                ent = e["runs"][0]["ent"]
                # non-trivial: the same bytes are produced by two different kinds of operation (e.g. pub and dpk, wu_sk and dsk)
                byv = collections.defaultdict(set)
                for o, en in zip(ops, ent):
                    if en["ok"] and o["op"] != "ser":
                        byv[json.dumps(en["v"])].add(o["op"])
                    if en["ok"] and en["pub"]:
                        byv[json.dumps(en["pub"])].add("pub")
                if any(len(v) > 1 for v in byv.values()):
                    chk.nontrivial_add(("script", key))
                    stat["script_with_commuting_routes"] += 1
                for o in ops:
                    stat["op_" + o["op"]] += 1
            elif k == "enc":
                # classes by the INPUT facts (flags, oracle), never by what the implementation answered
                b = e["b"]
                flags = b[0] >> 5
                row = (e["kind"], flags, "oncurve" if e["oncurve"] else "off", "insub" if e["insub"] else "out")
                enc_rows[row] += 1
                canonical_inf = b == [0xc0] + [0] * (len(b) - 1)
                valid = canonical_inf or (flags in (4, 5) and e["insub"] and below_p(e["kind"], b))
                if not valid:
                    chk.nontrivial_add(("enc", json.dumps(b)))
                if e["oncurve"] and not e["insub"] and flags in (4, 5) and below_p(e["kind"], b):
                    stat["offsubgroup_%s" % e["kind"]] += 1
                if (b[0] & 0xc0) == 0xc0 and not canonical_inf:
                    stat["noncanonical_infinity_%s" % e["kind"]] += 1
                if e["insub"] and not below_p(e["kind"], b):
                    stat["alias_x_plus_p_%s" % e["kind"]] += 1
                if valid:
                    stat["valid_%s" % e["kind"]] += 1
            elif k == "skr":
                inrange = int.from_bytes(bytes(e["b"]), "big") < R_ORD
                stat["skr_in_range" if inrange else "skr_out_of_range"] += 1
                if not inrange:
                    chk.nontrivial_add(("skr", json.dumps(e["b"])))
            elif k == "gt2" and e["x"] == e["y"]:
                stat["gt_equal_pairs"] += 1
            if k not in seen:
                seen.add(k)
                chk.sample(e)
    need = {"script_with_commuting_routes": 100, "op_dsk": 50, "op_dpk": 50, "op_synsk": 50, "op_synpk": 50, "op_addsk": 50, "op_addpk": 50,
            "op_sign": 20, "op_ser": 20, "op_hard": 20, "op_wu_sk": 5, "op_wu_pk": 5, "op_wh": 5, "op_ps": 5, "op_pa": 5,
            "offsubgroup_g1": 5, "offsubgroup_g2": 5, "alias_x_plus_p_g1": 2, "alias_x_plus_p_g2": 2,
            "noncanonical_infinity_g1": 5, "noncanonical_infinity_g2": 5, "valid_g1": 5, "valid_g2": 5,
            "skr_in_range": 5, "skr_out_of_range": 5, "gt": 4, "gt_equal_pairs": 1}
    low = {k: stat[k] for k, v in need.items() if stat[k] < v}
    if low and not chk.violations:
        raise ToolError("C16 vacuity guard: too few observations %r" % low)
    chk.extra["model_runs"] = runs
    chk.extra["events"] = {k: v for k, v in sorted(stat.items())}
    chk.extra["encoding_classes_observed"] = len(enc_rows)
    chk.extra["exhaustive"] = False
    chk.rule = ("M: KeyAlgebra laws (Pub o DeriveSk = DerivePk o Pub, Pub o Synthetic = Synthetic o Pub, Pub(a+b) = Pub a + Pub b, path helpers = iterated "
                "derivation, Sign a function of (key, message), SerParse identity) are invariants over all stores reachable with the configured menus; "
                "PointEncoding laws over the whole flag x coordinate-class table and the scalar lattice. R: every emitted store / table row is executed on real "
                "keys and strings and validated by Trace_Keys (byte-equality relation = relation of the algebra with two independent seed sets, operator variants "
                "agree, secret-key side = arithmetic mod r with SHA-256 in TLC, parsers = table given blst oracle facts, accepted strings re-serialise to themselves). "
                "T: seeded random scripts and perturbed strings. non-trivial = scripts in which two different kinds of operation produce the same bytes, e.g. pub(dsk(..)) and dpk(pub(..)) (distinct by "
                "script), strings / scalars rejected by checked parsing (distinct by bytes)")
    chk.assumptions = ["curve arithmetic, subgroup test and hash-to-curve are trusted to blst (oracle facts on-curve / in-subgroup come from raw blst calls; "
                       "on-curve is cross-checked with num-bigint)",
                       "hash atoms are independent generators: a predicted difference is accepted as real when the bytes differ for at least one of two seed sets",
                       "the synthetic offset is defined as the two's-complement value of SHA256(pk || hidden) reduced to 0..r-1 (chia reference wallet); "
                       "the unhardened tweak as the unsigned value of SHA256(pk || idx_be32) mod r",
                       "SHA-256 via JDK override"]
    return chk.finish()


def replay(path):
    """re-execute the recorded failing events with exactly their logged inputs (scripts: same operations, seeds, hidden
    puzzle hashes and messages; strings and scalars: same bytes) and validate them again"""
    wd = vlib.workdir("C16")
    vlib.EVID = os.path.join(wd, "replay-evidence")  # a replay must not overwrite the evidence of the last run
    chk = vlib.Check("C16", "quick")
    ev = os.path.join(wd, "replay-events.ndjson")
    n = 0
    with open(ev, "w") as f:
        for v in json.load(open(path)):
            e = v.get("case", {})
            if e.get("k") in ("script", "enc", "skr", "gt"):
                f.write(json.dumps(e) + "\n")
                n += 1
    if not n:
        raise ToolError("no replayable event in %s" % path)
    t = os.path.join(wd, "replayed.ndjson")
    vlib.harness(["keys", "--replay", ev, "--seed", chk.seed, "--out", t])
    validate_parallel(TRACE, [t], chk, "keys-replay", sig_fn=sig, jobs=1, classes=None)
    chk.rule = "replay of %d recorded events" % n
    return chk.finish()
