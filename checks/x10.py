"""X10 (growth, not a listed property) - the raw condition listing of get_coinspends_with_conditions_for_trusted_block
equals its definition in Generator.tla (ListingOfConds: small-number opcodes, first six atom arguments, 1024-byte atom
rule, soft cap of 1024 conditions per spend with AGG_SIG_* / CREATE_COIN exempt)."""
from checks.common import *
from checks import gen_pipeline


def run(tier):
    chk = vlib.Check("X10", tier)
    r = vlib.tlc("MC_Listing.tla", cfg="MC_Listing_quick.cfg" if tier == "quick" else "MC_Listing.cfg", workers=4, timeout=3000, tag="listing")
    if not r.ok:
        raise ToolError("MC_Listing failed:\n" + (r.error or r.out[-2000:]))
    chk.add_tlc(r)
    res = gen_pipeline.run(tier, chk.seed)
    gen_pipeline.apply(chk, res, ["X10", "C09W"])
    st = res["stats"]
    if st.get("with_listing", 0) < 50 or st.get("listing_over_cap", 0) < 1:
        raise ToolError("X10 vacuity guard: %d listings, %d of them beyond the 1024 cap" % (st.get("with_listing", 0), st.get("listing_over_cap", 0)))
    chk.rule = ("every accepted generator of the C07 / C09 streams whose puzzle outputs are logged: the listing returned by the helper is compared "
                "by TLC with ListingOfConds of the logged puzzle output; the listing-cap family crosses the 1024-condition cap at 1020..1025")
    chk.assumptions = ["CLVM execution results are oracle inputs"]
    chk.extra["exhaustive"] = False
    return chk.finish()
