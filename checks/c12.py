"""C12 - Merkle set roots are canonical and proofs are complete and sound."""
import concurrent.futures as cf
import hashlib
import json
import os
from checks.common import *

STAT_NAMES = ["spec_parse", "spec_depth", "spec_trailing", "spec_audit", "spec_root", "spec_structurally_valid",
              "pairs_yes", "pairs_no", "pairs_lookup_err", "honest_queries"]


def _key(b):
    return bytes(b)


def clause(e):
    """which clause of the property an event contradicts (labels the signature; TLC is the judge)"""
    s = {_key(k) for k in e["leafs"]}
    rs = [r for r in e["roots_a"] + e["roots_b"]]
    if any(r["k"] != "ok" for r in rs):
        return "root-panic"
    if len({json.dumps(r["v"]) for r in rs}) > 1:
        return "roots-differ"
    for q in e["q"]:
        g = q["gen"]
        inc = _key(q["item"]) in s
        if g["k"] != "ok":
            return "generate-proof-" + g["k"]
        if g["incl"] != inc:
            return "inclusion-flag"
        if g["val"]["k"] != ("yes" if inc else "no"):
            return "honest-proof-" + g["val"]["k"]
    for a in e["adv"]:
        for q, v in zip(e["q"], a["v"]):
            if v["k"] in ("yes", "no") and (v["k"] == "yes") != (_key(q["item"]) in s):
                return "unsound-accept"
    return "root-or-proof-vs-reference"


def sig(e):
    c = clause(e)
    out = {"event": "set", "clause": c}
    if c == "unsound-accept":
        s = {_key(k) for k in e["leafs"]}
        for a in e["adv"]:
            if any(v["k"] in ("yes", "no") and (v["k"] == "yes") != (_key(q["item"]) in s) for q, v in zip(e["q"], a["v"])):
                out["kind"] = a["kind"].split("@")[0]
                break
    return out


def validate_all(paths, chk, jobs=6, timeout=3600):
    """like common.validate_parallel, but also sums the STATS register of Trace_MerkleSet"""
    stats = [0] * len(STAT_NAMES)

    def one(p):
        sub = vlib.Check(chk.pid, chk.tier)
        sub.known = chk.known
        r = validate("Trace_MerkleSet.tla", p, sub, "merkle", sig_fn=sig, timeout=timeout, xmx="3g", classes=["C12"])
        st = r.tags.get("STATS", [None])[-1]
        if not isinstance(st, list) or len(st) != len(STAT_NAMES):
            raise ToolError("no STATS report from Trace_MerkleSet on %s" % p)
        return sub, st

    # deep recursion (256 levels) is GC-bound with TLC's default young generation: keep it small
    old = os.environ.get("JAVA_TOOL_OPTIONS")
    os.environ["JAVA_TOOL_OPTIONS"] = ((old + " ") if old else "") + "-Xmn64m -XX:ParallelGCThreads=2"
    try:
        with cf.ThreadPoolExecutor(max_workers=jobs) as ex:
            res = list(ex.map(one, paths))
    finally:
        if old is None:
            del os.environ["JAVA_TOOL_OPTIONS"]
        else:
            os.environ["JAVA_TOOL_OPTIONS"] = old
    if True:
        for sub, st in res:
            chk.states += sub.states
            chk.transitions += sub.transitions
            chk.traces += sub.traces
            chk.evaluations += sub.evaluations
            chk.violations += sub.violations
            chk.raw_mismatches = getattr(chk, "raw_mismatches", []) + getattr(sub, "raw_mismatches", [])
            for k in sub.known_hit:
                if k not in chk.known_hit:
                    chk.known_hit.append(k)
            stats = [a + b for a, b in zip(stats, st)]
    return dict(zip(STAT_NAMES, stats))


def nested_middles(proof):
    """length of the leading run of MIDDLE tags = depth of the left spine (cheap proxy for proof depth)"""
    return sum(1 for b in proof if b == 2)


def survey(paths, chk):
    st = {"events": 0, "sets_by_size": {}, "honest_queries": 0, "adv_proofs": 0, "adv_accepted_pairs": 0, "adv_kinds": {},
          "deep_honest_proofs": 0, "max_leafs": 0, "impl_panics": 0}
    for p in paths:
        for e in vlib.read_ndjson(p):
            st["events"] += 1
            n = len({_key(k) for k in e["leafs"]})
            b = "0" if n == 0 else "1" if n == 1 else "2" if n == 2 else "3-16" if n <= 16 else "17-400" if n <= 400 else ">400"
            st["sets_by_size"][b] = st["sets_by_size"].get(b, 0) + 1
            st["max_leafs"] = max(st["max_leafs"], n)
            h = hashlib.sha256(json.dumps(sorted(e["leafs"])).encode()).hexdigest()[:16]
            for q in e["q"]:
                st["honest_queries"] += 1
                g = q["gen"]
                if g["k"] == "panic":
                    st["impl_panics"] += 1
                if g["k"] == "ok" and nested_middles(g["proof"]) >= 2:
                    chk.nontrivial_add(("honest", h, bytes(q["item"])))
                    if nested_middles(g["proof"]) >= 200:
                        st["deep_honest_proofs"] += 1
            for a in e["adv"]:
                st["adv_proofs"] += 1
                kind = a["kind"].split("@")[0]
                st["adv_kinds"][kind] = st["adv_kinds"].get(kind, 0) + 1
                acc = sum(1 for v in a["v"] if v["k"] in ("yes", "no"))
                st["impl_panics"] += sum(1 for v in a["v"] if v["k"] == "panic")
                st["adv_accepted_pairs"] += acc
                if acc:
                    chk.nontrivial_add(("adv", h, hashlib.sha256(bytes(a["p"])).hexdigest()[:16]))
            if len(chk.samples) < 3 and e["adv"] and e["q"] and n in (2, 3):
                chk.sample({"leafs": e["leafs"], "root": e["root"], "item": e["q"][0]["item"], "gen": e["q"][0]["gen"],
                            "adversarial": {"kind": e["adv"][0]["kind"], "proof": e["adv"][0]["p"], "verdicts": [v["k"] for v in e["adv"][0]["v"]]}})
    return st


def run(tier):
    chk = vlib.Check("C12", tier)
    wd = vlib.workdir("C12")
    if tier == "quick":
        cfgs = [("quick", 5), ("low_quick", 4), ("exh", 1)]
    else:
        cfgs = [("top4", 8), ("stride", 6), ("low", 6), ("exh", 1)]
    paths = []
    runs = {}
    # the case cache is keyed by the MC module and its cfg; MerkleSet.tla itself must invalidate it too
    spec_key = hashlib.sha256(open(vlib.find_spec("MerkleSet.tla"), "rb").read()).hexdigest()[:16]
    for name, nshard in cfgs:
        cases, meta = gen_cases("MC_MerkleSet.tla", "MC_MerkleSet_%s.cfg" % name, workers=6, timeout=3000, key_extra=spec_key)
        chk.states += meta["distinct"]
        chk.transitions += meta["generated"]
        runs[name] = meta
        log("C12 model run %s: %d states, %d cases, %.0fs (cached after the first run)" % (name, meta["distinct"], meta["cases"], meta["wall"]))
        t = os.path.join(wd, "mc-%s.ndjson" % name)
        vlib.harness(["merkle", "--cases", cases, "--seed", chk.seed, "--out", t])
        paths += shard_file(t, nshard, wd, "mc-%s" % name) if nshard > 1 else [t]
    t = os.path.join(wd, "random.ndjson")
    if tier == "quick":
        vlib.harness(["merkle", "--seed", chk.seed, "--out", t, "--small", 150, "--mid", 8, "--big", 2, "--maxleafs", 2000, "--maxadv", 28, "--deep", 20])
        paths += shard_file(t, 6, wd, "random")
    else:
        vlib.harness(["merkle", "--seed", chk.seed, "--out", t, "--small", 3000, "--mid", 120, "--big", 24, "--maxleafs", 2000, "--maxadv", 40, "--deep", 30])
        paths += shard_file(t, 24, wd, "random")
    log("C12 validating %d trace files" % len(paths))
    stats = validate_all(paths, chk, jobs=6)
    log("C12 traces validated: %r" % stats)
    sv = survey(paths, chk)
    wire = [(i, e) for (i, cls, e) in getattr(chk, "raw_mismatches", []) if cls == "WIRE"]
    if wire:
        log("NOTE: %d event(s) where the implementation's proof bytes or its verdict on a malformed proof differ from the "
            "specification's wire format although the property holds (class WIRE, information only)" % len(wire))
    # vacuity guard: every branch of the verdict must have been exercised, on the specification's own classification
    need = {"spec_parse": 20, "spec_trailing": 20, "spec_depth": 2, "spec_audit": 500, "spec_root": 500, "spec_structurally_valid": 150,
            "pairs_yes": 25, "pairs_no": 80, "pairs_lookup_err": 100, "honest_queries": 500}
    low = {k: (stats[k], v) for k, v in need.items() if stats[k] < v}
    if low or sv["deep_honest_proofs"] < 10 or sv["max_leafs"] < 400:
        raise ToolError("C12 vacuity guard: too little exercised (have, need) %r deep=%d max_leafs=%d" % (low, sv["deep_honest_proofs"], sv["max_leafs"]))
    chk.extra["model_runs"] = runs
    chk.extra["spec_classification_of_adversarial_proofs"] = stats
    chk.extra["trace_survey"] = sv
    chk.extra["wire_format_differences_information_only"] = len(wire)
    chk.extra["exhaustive"] = False
    chk.rule = ("M: MC_MerkleSet checks Canonical (all orders, duplicates), Complete and Sound on every set of embedded model keys up to the size bound, at real depth 256 "
                "(Sound over: all proof terms of height <= 2 in the 2-bit universe; all root-plausible terms of height <= D+1; all single and selected double rewrites of every "
                "honest proof; honest proofs of neighbouring sets). G/R: every state is replayed: roots of 3 orders x 2 root functions, generate_proof and "
                "validate_merkle_proof for every item, validate_merkle_proof of every adversarial term for every item. T: seeded random sets of 0..2000 real leaves with "
                "near-collisions, structure- and byte-level mutations of the implementation's own proofs; Trace_MerkleSet recomputes RefRoot / Classify. "
                "non-trivial = distinct (set, item) whose honest proof nests >= 2 middle nodes + distinct (set, adversarial proof) that the implementation accepts as a "
                "proof for the root (verdict Ok) for at least one item")
    chk.assumptions = ["SHA-256 via JDK override; the guided family prunes only terms that would need a SHA-256 collision to match the root",
                       "compared as violations: roots, inclusion flag, acceptance of honest proofs, no wrong Ok verdict; rejection of malformed proofs and exact proof bytes "
                       "are compared too but reported as information (the property does not state them)",
                       "a panic of validate_merkle_proof on an adversarial proof is not counted as a C12 violation (it is not an Ok verdict)"]
    return chk.finish()


def replay(path):
    """re-run recorded failing events: their leaf list, items and adversarial proofs become one case each"""
    items = json.load(open(path))
    chk = vlib.Check("C12", "quick")
    wd = vlib.workdir("C12")
    cf_ = os.path.join(wd, "replay-cases.ndjson")
    n = 0
    with open(cf_, "w") as f:
        for it in items:
            e = it.get("case", {})
            if e.get("k") != "set":
                continue
            f.write(json.dumps({"emb": "replay", "leafs": e["leafs"], "items": [q["item"] for q in e["q"]], "adv": [a["p"] for a in e["adv"]]}) + "\n")
            n += 1
    if not n:
        raise ToolError("no replayable event in %s" % path)
    t = os.path.join(wd, "replay.ndjson")
    vlib.harness(["merkle", "--cases", cf_, "--seed", chk.seed, "--out", t])
    validate_all([t], chk, jobs=1)
    chk.rule = "replay of %d recorded events" % n
    return chk.finish()
