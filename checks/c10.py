"""C10 - block builders emit exactly the accepted bundles within the cost limit.

M  MC_BlockBuilder: every interleaving of accepted / rejected adds (all four exits of add_spend_bundles, declared
   costs landing on =, -1, +1 of each guard in every reachable state) for both builders over scaled constants:
   AllOrNothing (action property), EstimateUpper, WithinLimit, FinalizeEnabled, OutputIsAccepted, SigIsAggregate,
   CostIsConsensus, LaterOutputUnaffected (+ the toy serializer / interner stay inside the envelopes and the
   triangle inequality, checked as ASSUMEs).
G  the same model with the history in the state: every finalized state is a replay case (batch classes + the
   menu label of each declared cost + the predicted exit); exhaustive to a small depth, simulated beyond.
R  the harness scales every case up: real signed bundles per class, declared costs recomputed from the labels on
   the real builder state, lowered max_block_cost_clvm.
T  seeded random histories over synthetic bundles and /repo/test-bundles.
   Every recorded history (R and T) is validated by TLC against Trace_BlockBuilder.
"""
import hashlib
import json
import os
from collections import Counter
from checks.common import *

CLASSES = ["C10", "C10done", "C10E", "C10L"]


def sig(e):
    """stable signature of a rejected event (the mismatch class is added by validate())"""
    s = {"event": e.get("k"), "kind": e.get("_kind")}
    if e.get("k") == "finalize":
        res = str(e.get("res", ""))
        s["result"] = "ok" if res == "ok" else res.split(":")[0]
        if res == "ok":
            tw = e.get("twin", {})
            s["estimate_below_cost"] = e["est"] < e["cost"]
            s["no_add_reached_serializer"] = bool(e.get("_stale"))
            s["twin"] = "not_run" if not tw.get("ran") else "same_cost" if tw.get("cost_equal") else "other_cost"
            s["twin_same_spends_and_sig"] = bool(tw.get("ran") and tw.get("spends_equal") and tw.get("sig_equal"))
            s["after_rejected_attempts"] = e.get("rejected_attempts", 0) > 0
    elif e.get("k") == "add":
        res = str(e.get("res", ""))
        s["result"] = "ok" if res == "ok" else res.split(":")[0]
        s["added"] = e.get("added")
    return s


def annotate(path):
    """rewrite an event file with the builder kind (and staleness) on every event, for signatures only"""
    out = []
    kind = None
    stale = False
    for e in vlib.read_ndjson(path):
        if e["k"] == "reset":
            kind = e["kind"]
            stale = kind == "compressed"
        elif e["k"] == "add":
            # byte_cost is computed as soon as an add gets past the two early exits
            if e.get("exit") in ("accept", "after"):
                stale = False
        e["_kind"] = kind
        e["_stale"] = stale
        out.append(e)
    with open(path, "w") as f:
        for e in out:
            f.write(json.dumps(e) + "\n")
    return out


def shard_by_reset(path, n, outdir, prefix):
    """split an event file at reset events into n files (a history never spans two files)"""
    size = os.path.getsize(path)
    target = size / max(n, 1)
    outs = []
    cur = None
    written = 0
    with open(path) as f:
        for line in f:
            if cur is None or ('"k": "reset"' in line and written >= target and len(outs) < n):
                if cur:
                    cur.close()
                cur = open(os.path.join(outdir, "%s-%d.ndjson" % (prefix, len(outs))), "w")
                outs.append(cur.name)
                written = 0
            cur.write(line)
            written += len(line)
    if cur:
        cur.close()
    return outs


def history_of(evs, idx):
    """the events of the history that contains event number idx (1-based), up to that event"""
    j = idx - 1
    while j > 0 and evs[j]["k"] != "reset":
        j -= 1
    return evs[j:idx]


def attach_histories(chk, files):
    import re
    out = []
    for s, d, e in chk.violations:
        m = re.search(r"event (\d+) of (\S+) rejected", d)
        if m and m.group(2) in files and isinstance(e, dict) and "history" not in e:
            hist = history_of(files[m.group(2)], int(m.group(1)))
            slim = []
            for h in hist:
                h = {k: v for k, v in h.items() if k not in ("spends",)}
                if "rbg2" in h and isinstance(h["rbg2"], dict):
                    h["rbg2"] = {k: v for k, v in h["rbg2"].items() if k != "coins"}
                slim.append(h)
            e = {"history": slim}
        out.append((s, d, e))
    chk.violations = out


def run(tier):
    chk = vlib.Check("C10", tier)
    wd = vlib.workdir("C10")
    for f in os.listdir(wd):
        if f.endswith(".ndjson"):
            os.unlink(os.path.join(wd, f))
    quick = tier == "quick"
    # M: the invariants on every reachable state (histories merged by the view)
    mcfg = "MC_BlockBuilder_quick.cfg" if quick else "MC_BlockBuilder.cfg"
    _, meta = gen_cases("MC_BlockBuilder.tla", mcfg, workers=6, timeout=2400)
    chk.states += meta["distinct"]
    chk.transitions += meta["generated"]
    chk.extra["model_runs"] = {mcfg: meta}
    # G: replay cases (exhaustive shallow + simulated deep)
    gens = [("MC_BlockBuilder_gen_quick.cfg" if quick else "MC_BlockBuilder_gen.cfg", None, None),
            ("MC_BlockBuilder_sim.cfg", 40 if quick else 300, 14)]
    paths = []
    hits = {"hit": 0, "miss": 0}
    exits = Counter()
    for gi, (gcfg, simulate, depth) in enumerate(gens):
        cases, gmeta = gen_cases("MC_BlockBuilder.tla", gcfg, workers=6, timeout=2400, simulate=simulate, depth=depth, seed=7 if simulate else None)
        if not simulate:
            chk.states += gmeta["distinct"]
            chk.transitions += gmeta["generated"]
        chk.extra["model_runs"][gcfg] = gmeta
        # R: the cases on the real builders
        t = os.path.join(wd, "replay%d.ndjson" % gi)
        p = vlib.harness(["builder", "--cases", cases, "--seed", chk.seed + gi, "--out", t])
        st = json.loads(p.stdout.strip().splitlines()[-1])
        hits["hit"] += st["hit"]
        hits["miss"] += st["miss"]
        exits.update(st["exits"])
        paths.append(t)
    # T: seeded random histories
    t = os.path.join(wd, "random.ndjson")
    p = vlib.harness(["builder", "--seed", chk.seed, "--out", t, "--hist", 120 if quick else 2000, "--len", 14, "--bundles", os.path.join(vlib.REPO, "test-bundles")])
    st = json.loads(p.stdout.strip().splitlines()[-1])
    exits.update(st["exits"])
    chk.extra["test_bundles_in_pool"] = st["test_bundles"]
    paths.append(t)
    shards = []
    files = {}
    for i, pth in enumerate(paths):
        annotate(pth)
        for s in shard_by_reset(pth, 2 if quick else 8, wd, "part%d" % i):
            shards.append(s)
            files[os.path.basename(s)] = list(vlib.read_ndjson(s))
    validate_parallel("Trace_BlockBuilder.tla", shards, chk, "builder", sig_fn=sig, jobs=6, classes=CLASSES, timeout=3000)
    attach_histories(chk, files)
    for i, cls, e in getattr(chk, "raw_mismatches", []):
        if cls not in CLASSES:
            raise ToolError("trace plumbing mismatch (%s) at event %d" % (cls, i))
    by_cls = Counter(cls for _, cls, _ in getattr(chk, "raw_mismatches", []))
    chk.extra["rejected_events_by_class"] = dict(by_cls)
    # evidence statistics and vacuity guards
    nhist = 0
    fin = Counter()
    seen = set()
    frontier = Counter()
    for evs in files.values():
        for e in evs:
            if e["k"] == "reset":
                nhist += 1
            elif e["k"] == "add" and e.get("res") == "ok":
                key = (e["_kind"], e["exit"], e["lbl"])
                if e["exit"] != "accept" or e["lbl"] != "truthful":
                    # non-trivial: a rejected attempt, or an accepted one whose declared cost was placed on a guard
                    chk.nontrivial_add(hashlib.sha256(json.dumps([e["_kind"], e["sigs"], e["declared"], e["cost_after"], e["added"], e["done"]]).encode()).hexdigest()[:20])
                if e["lbl"] in ("fit0", "fit+1", "fit-1", "near0", "near+1", "pre0", "pre+1", "pre-1"):
                    frontier[(e["_kind"], e["lbl"], e["exit"])] += 1
                if key not in seen and len(chk.samples) < 5 and e["exit"] != "full":
                    seen.add(key)
                    chk.sample({k: v for k, v in e.items() if k != "spends"})
            elif e["k"] == "finalize" and e.get("res") == "ok":
                fin[(e["_kind"], "mixed" if e["rejected_attempts"] > 0 and e["accepted_attempts"] > 0 else "plain")] += 1
                if e["rejected_attempts"] > 0 and e["accepted_attempts"] > 1 and len(chk.samples) < 7:
                    chk.sample({k: v for k, v in e.items() if k not in ("spends", "rbg2")})
    chk.extra["histories"] = nhist
    chk.extra["exits_taken"] = {k: v for k, v in sorted(exits.items())}
    chk.extra["finalized"] = {"%s/%s" % k: v for k, v in fin.items()}
    chk.extra["replay_exit_prediction"] = hits
    for kind in ("compressed", "interned"):
        for ex in ("full", "declared", "after", "accept"):
            n = sum(v for k, v in exits.items() if k.startswith("%s:%s:" % (kind, ex)))
            if n < 10:
                raise ToolError("C10 vacuity guard: exit %s of the %s builder taken only %d times" % (ex, kind, n))
        for lbl, ex in (("fit0", "accept"), ("fit+1", "after"), ("pre0", "after"), ("pre+1", "declared"), ("near0", "accept"), ("near+1", "accept")):
            if frontier[(kind, lbl, ex)] < 3:
                raise ToolError("C10 vacuity guard: frontier %s -> %s of the %s builder hit only %d times" % (lbl, ex, kind, frontier[(kind, lbl, ex)]))
        if fin[(kind, "mixed")] < 10:
            raise ToolError("C10 vacuity guard: only %d finalized %s histories with accepted and rejected attempts" % (fin[(kind, "mixed")], kind))
    if hits["hit"] < 3 * hits["miss"]:
        raise ToolError("C10 vacuity guard: the scaled-up histories took the predicted exit only %d of %d times" % (hits["hit"], hits["hit"] + hits["miss"]))
    chk.rule = ("M: MC_BlockBuilder (%s) checks AllOrNothing, EstimateUpper, WithinLimit, FinalizeEnabled, OutputIsAccepted, SigIsAggregate, CostIsConsensus and "
                "LaterOutputUnaffected on every state reachable by add attempts whose declared cost is 0 / truthful / max / on =,-1,+1 of each guard, for both builders; "
                "R: every finalized history of the history-tracking model (exhaustive shallow, simulated deep) is rebuilt with real signed bundles and the same labels; "
                "T: seeded random histories incl. /repo/test-bundles; all events validated by Trace_BlockBuilder (tentative sizes inferred, generator decoded by clvmr, "
                "signature = blst sum of the accepted bundles' signatures and checked by run_block_generator2, cost = run_block_generator2's cost when truthful, twin builder "
                "without the rejected attempts); non-trivial = an add attempt that was rejected or whose declared cost was placed on a guard, distinct by "
                "(builder, bundles, declared, resulting estimate, verdict)") % mcfg
    chk.assumptions = ["max_block_cost_clvm is lowered to 10^8 so that all quantities fit TLC integers; the guard arithmetic is scale free; u64 overflow of absurd declared costs is not explored",
                       "max_block_cost_clvm >= cost of the empty block (ConfigOk)",
                       "the serializer / interner are not modelled: tentative and exact sizes are inputs constrained by TentativeSizes / FinalSizes (triangle inequality of interning as an explicit envelope)",
                       "consensus cost = run_block_generator2 (bound to the specification by C04/C07/C08)", "SHA-256 and BLS as provided by sha2 / blst"]
    chk.extra["exhaustive"] = True
    chk.extra["model_constants"] = [mcfg] + [g[0] for g in gens]
    return chk.finish()


def replay(path):
    """re-run the histories of a replay file on the current tree (same builder, same bundle classes / test bundles,
    same declared-cost labels; synthetic bundles are regenerated) and validate them again"""
    wd = vlib.workdir("C10")
    vlib.EVID = os.path.join(wd, "replay-evidence")  # a replay must not overwrite the evidence of the last run
    chk = vlib.Check("C10", "quick")
    cases = os.path.join(wd, "replay-cases.ndjson")
    n = 0
    with open(cases, "w") as f:
        for it in json.load(open(path)):
            h = it.get("case", {}).get("history")
            if not h or h[0].get("k") != "reset":
                continue
            steps = []
            for e in h[1:]:
                if e["k"] == "add":
                    steps.append({"b": [i if c == "T" else c for i, c in zip(e["sigs"], e["classes"])], "lbl": e["lbl"], "exit": e.get("exit", "")})
            f.write(json.dumps({"kind": h[0]["kind"], "steps": steps}) + "\n")
            n += 1
    if not n:
        raise ToolError("no replayable history in %s" % path)
    t = os.path.join(wd, "replayed.ndjson")
    vlib.harness(["builder", "--cases", cases, "--seed", chk.seed, "--out", t, "--bundles", os.path.join(vlib.REPO, "test-bundles")])
    evs = annotate(t)
    validate_parallel("Trace_BlockBuilder.tla", [t], chk, "builder-replay", sig_fn=sig, jobs=1, classes=CLASSES)
    attach_histories(chk, {os.path.basename(t): evs})
    chk.rule = "replay of %d recorded histories" % n
    return chk.finish()
