"""X04 (growth, not a listed property) - the interned-generator cost model: interned_vbytes is a function of the
value of the tree, obeys the triangle inequality, and the interned block builder's running estimate is the
from-scratch sum of isolated spend sizes, an upper bound of the exact size finalize() charges."""
import json
import os
import time
from checks.common import *

W = 4  # TLC workers / parallel TLC processes (shared machine)


def sig(e):
    return {"event": e.get("k"), "origin": e.get("o", "hist")}


def pack(paths, n, wd):
    """distribute the events of the harness outputs over n trace files of about equal size without cutting a
    history (reset .. fin); one TLC process per file (TLC start-up dominates small traces)"""
    units, cur = [], None
    for p in paths:
        with open(p) as f:
            for line in f:
                if len(line) < 200 and '"k":"reset"' in line:
                    cur = [line]
                    units.append(cur)
                elif cur is not None:
                    cur.append(line)
                    if '"k":"fin"' in line and '"gen_vb"' in line:
                        cur = None
                else:
                    units.append([line])
    units.sort(key=lambda u: -sum(map(len, u)))
    size = [0] * n
    outs = [open(os.path.join(wd, "trace-%d.ndjson" % i), "w") for i in range(n)]
    for u in units:
        i = size.index(min(size))
        size[i] += sum(map(len, u)) + 4000 * len(u)
        outs[i].writelines(u)
    for o in outs:
        o.close()
    return [o.name for o in outs if os.path.getsize(o.name) > 0]


def tree_weight_unshared(tbl, root):
    """weight of the tree with every occurrence counted (no interning); python ints do not overflow"""
    w = [0] * (len(tbl) + 1)
    for i, nd in enumerate(tbl, 1):
        w[i] = len(nd["a"]) + 2 if "a" in nd else 3 + w[nd["l"]] + w[nd["r"]]
    return w[root]


def run(tier):
    chk = vlib.Check("X04", tier)
    wd = vlib.workdir("X04")
    quick = tier == "quick"
    # M + G: the laws of Interning.tla on every small table / every short builder history; each is a replay case
    dag_cfgs = ["MC_Interning_quick.cfg", "MC_Interning_wide_quick.cfg"] if quick else ["MC_Interning.cfg", "MC_Interning_quick.cfg", "MC_Interning_wide.cfg", "MC_Interning_deep.cfg"]
    hist_cfgs = ["MC_Interning_hist_quick.cfg"] if quick else ["MC_Interning_hist.cfg", "MC_Interning_hist2.cfg"]
    raw = []
    mc = {}
    cfgs = dag_cfgs + hist_cfgs
    # quick: the three small models side by side (2 + 1 + 1 workers); thorough: one after the other with W workers
    with cf.ThreadPoolExecutor(max_workers=3 if quick else 1) as ex:
        gens = list(ex.map(lambda ic: gen_cases("MC_Interning.tla", ic[1], workers=(2 if ic[0] == 0 else 1) if quick else W, timeout=1500), enumerate(cfgs)))
    log("X04 models: %.0fs (%s)" % (time.time() - chk.t0, ", ".join("%s %.0fs" % (c, g[1].get("wall", 0)) for c, g in zip(cfgs, gens))))
    for i, cfg in enumerate(cfgs):
        cases, meta = gens[i]
        chk.states += meta["distinct"]
        chk.transitions += meta["generated"]
        mc[cfg] = {"states": meta["distinct"], "cases": meta["cases"]}
        if meta["cases"] == 0:
            raise ToolError("no cases from " + cfg)
        # R: the cases through the real code; the events are judged by TLC below
        t = os.path.join(wd, "mc%d.ndjson" % i)
        vlib.harness(["interning", "--cases", cases, "--seed", chk.seed + i, "--out", t])
        raw.append(t)
    # T: seeded random tables (heavy sharing, duplicates, garbage, big atoms), real bundles, random histories
    t1 = os.path.join(wd, "random.ndjson")
    t2 = os.path.join(wd, "bundles.ndjson")
    t3 = os.path.join(wd, "hist.ndjson")
    if quick:
        vlib.harness(["interning", "--seed", chk.seed, "--out", t1, "--random", 600, "--big-atoms", 1])
        vlib.harness(["interning", "--seed", chk.seed, "--out", t2, "--bundles", 10, "--bundle-nodes", 2500])
        vlib.harness(["interning", "--seed", chk.seed, "--out", t3, "--hist", 200])
    else:
        vlib.harness(["interning", "--seed", chk.seed, "--out", t1, "--random", 10000, "--big-atoms", 1])
        vlib.harness(["interning", "--seed", chk.seed, "--out", t2, "--bundles", 92, "--bundle-nodes", 6000])
        vlib.harness(["interning", "--seed", chk.seed, "--out", t3, "--hist", 2500])
    raw += [t1, t2, t3]
    paths = pack(raw, W, wd)
    log("X04 harness done: %.0fs" % (time.time() - chk.t0))
    validate_parallel("Trace_Interning.tla", paths, chk, "intern", sig_fn=sig, jobs=W, classes=["X04"], timeout=2400)
    log("X04 traces validated: %.0fs" % (time.time() - chk.t0))
    if any(cls != "X04" for _, cls, _ in getattr(chk, "raw_mismatches", [])):
        raise ToolError("malformed events: %r" % [(i, cls) for i, cls, _ in chk.raw_mismatches if cls != "X04"][:5])

    # what was exercised (measured from the events)
    st = {"trees": 0, "shared": 0, "unfold_big": 0, "rbg2_ok": 0, "bundles": 0, "sb_ok": 0, "rbg2sb_ok": 0, "hist": 0, "accept": 0,
          "rollback": 0, "pre": 0, "full": 0, "done_by_skips": 0, "fin": 0, "fin_rbg2_ok": 0, "fin_est_gt_exact": 0}
    nsamp = {"t": 0, "h": 0}
    for p in paths:
        cur = cpb = mx = None
        ops = []
        for e in vlib.read_ndjson(p):
            if e["k"] == "tree":
                st["trees"] += 1
                st["rbg2_ok"] += e["rbg2"]["k"] == "ok"
                st["unfold_big"] += not e["vbu"]
                if "items" in e:
                    st["bundles"] += 1
                    st["sb_ok"] += e["sb"]["k"] == "ok"
                    st["rbg2sb_ok"] += e["rbg2sb"]["k"] == "ok"
                # non-trivial: interning matters - the interned size is smaller than the weight of the plain tree
                if 0 <= e["vb"] < tree_weight_unshared(e["tbl"], e["root"]):
                    st["shared"] += 1
                    chk.nontrivial_add(("t", json.dumps(e["tbl"][:e["root"]])))
                    if e["o"] not in ("mc", "bundle") and len(e["tbl"]) < 12 and nsamp["t"] < 2:
                        nsamp["t"] += 1
                        chk.sample({k: e[k] for k in ("k", "o", "tbl", "root", "cpb", "vb", "vbb", "vbu", "serlen", "rbg2") if k in e}, limit=6)
            elif e["k"] == "reset":
                cpb, mx = e["cpb"], e["max"]
                cur = 11 * cpb + 20
                ops = []
                st["hist"] += 1
            elif e["k"] == "add" and e["res"] == "ok":
                if e["added"]:
                    kind = "accept"
                elif cur + 6000000 > mx:
                    kind = "full"
                elif cur + e["declared"] > mx:
                    kind = "pre"
                else:
                    kind = "rollback"
                st[kind] += 1
                st["done_by_skips"] += (not e["added"]) and e["done"] and kind != "full"
                ops.append((kind, json.dumps(e["batch"]), e["declared"]))
                cur = e["cost"]
            elif e["k"] == "fin" and e["res"] == "ok":
                st["fin"] += 1
                st["fin_rbg2_ok"] += e["rbg2"]["k"] == "ok"
                st["fin_est_gt_exact"] += cur > e["cost"]
                kinds = {o[0] for o in ops}
                # non-trivial: an accepted batch AND a batch rejected after the tentative build in one history
                if "accept" in kinds and "rollback" in kinds:
                    chk.nontrivial_add(("h", cpb, mx, tuple(ops)))
                    if nsamp["h"] < 2 and len(ops) <= 4:
                        nsamp["h"] += 1
                        chk.sample({"cpb": cpb, "max": mx, "ops": [(k, d) for k, _, d in ops], "estimate": cur, "finalize": e["cost"]}, limit=6)
    chk.extra["exercised"] = st
    chk.extra["model_constants"] = mc
    for k in ("shared", "unfold_big", "rbg2_ok", "sb_ok", "rbg2sb_ok", "accept", "rollback", "pre", "full", "done_by_skips", "fin_rbg2_ok", "fin_est_gt_exact"):
        # (the counters are measured on what the code returned: with violations at hand they prove nothing either way)
        if st[k] == 0 and not chk.violations:
            raise ToolError("vacuous run: no event of kind %s" % k)
    if st["rbg2_ok"] != st["trees"]:
        # (q . (() . TREE)) always runs; an error is a mismatch already reported by TLC, but make sure it is
        if not chk.violations:
            raise ToolError("run_block_generator2 failed on %d dead-weight generators but TLC did not flag it" % (st["trees"] - st["rbg2_ok"]))
    chk.rule = ("cases = every node table (atoms from a small alphabet incl. empty / 1-byte / multi-byte, duplicates, arbitrary sharing, garbage) and "
                "every builder history (accept / reject before build / reject after tentative build / block full, declared costs on each guard +-1) "
                "enumerated by TLC (MC_Interning), + seeded random tables, doubling chains, 8 KiB atoms, real bundles of /repo/test-bundles and random "
                "histories; each goes through interned_vbytes (shared, unshared, back-reference round trip), run_block_generator2 / run_spendbundle "
                "under INTERNED_GENERATOR and InternedBlockBuilder, and is judged by Trace_Interning; non-trivial = a table whose interned size is below "
                "the weight of its plain tree (interning matters), or a history with an accepted batch and a batch rolled back after the tentative build")
    chk.extra["exhaustive"] = False
    chk.assumptions = ["clvmr's intern_tree / back-reference (de)serialiser are part of the code under test only through their results",
                       "TLC integers: every cost is kept below 2^31 by lowering max_block_cost_clvm / cost_per_byte in the harness's ConsensusConstants"]
    return chk.finish()
