"""C20 - Python JSON representation round-trips every exported value.

M  MC_JsonDict "model": ToJ / FromJ of spec/JsonDict.tla over all JSON-able combinator terms of depth <= 2, model
   structs (upper-cased keys, tuple structs, opt2 wire fields, block / proof-of-space views): FromJ inverts ToJ,
   every applicable single-position corruption is rejected, integer JSON is accepted exactly in range.
G  MC_JsonDict "gen": the schema + JSON views extracted from the current sources; for every registry type and four
   canonical values TLC enumerates every applicable (path, corruption class) and emits them as replay cases.
R+T the pyo3-embedded harness (harness/vhpy) converts values of every exported class (TLC cases, schema-generated
   boundary values, `arbitrary` values) with to_json_dict / from_json_dict, applies the corruptions (TLC's and its own
   enumeration on the real values) and logs everything; Trace_Json re-parses the encoding with Streamable.tla,
   recomputes the JSON form, the corrupted value and the verdict of FromJ.
"""
import hashlib
import json
import os
import re
import sys
from checks.common import *

CLASSES = ["C20.json", "C20.back", "C20.corrupt"]
CORR_CLASSES = ["hex_short", "hex_long", "hex_odd", "hex_bad_first", "hex_bad_last", "no0x", "int_2w", "int_m1", "int_minm1",
                "enum_oob", "len_short", "len_long", "key_removed", "null_val"]
CRATES = ["chia-protocol", "chia-bls", "chia-consensus", "chia-datalayer"]
BLOCK_TAIL = [("transactions_generator", {"k": "opt", "t": {"k": "prog"}}, 1),
              ("transactions_generator_ref_list", {"k": "vec", "t": {"k": "u", "n": 4}}, 2),
              ("transactions_generator_buffer", {"k": "opt", "t": {"k": "vec", "t": {"k": "u", "n": 1}}}, 3),
              ("version", {"k": "u", "n": 1}, 4)]
B32 = {"k": "bytesn", "n": 32}
POS_FIELDS = [("challenge", B32), ("pool_public_key", {"k": "opt", "t": {"k": "g1"}}), ("pool_contract_puzzle_hash", {"k": "opt", "t": B32}),
              ("plot_public_key", {"k": "g1"}), ("version", {"k": "u", "n": 1}), ("plot_index", {"k": "u", "n": 2}),
              ("meta_group", {"k": "u", "n": 1}), ("strength", {"k": "u", "n": 1}), ("size", {"k": "u", "n": 1}), ("proof", {"k": "bytes"})]


def codes(s):
    return list(s.encode("utf-8"))


def uppercase_structs(repo):
    """names of the structs that carry #[py_uppercase] (inside a cfg_attr or directly)"""
    out = set()
    for c in CRATES:
        for dp, _, fns in os.walk(os.path.join(repo, "crates", c, "src")):
            for fn in fns:
                if not fn.endswith(".rs"):
                    continue
                src = open(os.path.join(dp, fn), encoding="utf-8").read()
                for m in re.finditer(r"\bpy_uppercase\b", src):
                    nxt = re.compile(r"\b(struct|enum|fn|impl|mod)\s+(\w+)").search(src, m.end())
                    if nxt and nxt.group(1) == "struct":
                        out.add(nxt.group(2))
    return out


def struct_literal_map(body, name):
    """`Ok(Self { a: x, b, ... })` -> {field: variable}"""
    m = re.search(r"Ok\(\s*(?:Self|%s)\s*\{" % re.escape(name), body)
    if not m:
        return None
    depth, i = 0, m.end() - 1
    j = i
    while True:
        if body[j] == "{":
            depth += 1
        elif body[j] == "}":
            depth -= 1
            if depth == 0:
                break
        j += 1
    out = {}
    for part in body[i + 1:j].split(","):
        part = part.strip()
        if not part:
            continue
        if ":" in part:
            a, b = part.split(":", 1)
            out[a.strip()] = b.strip()
        else:
            out[part] = part
    return out


def build_jschema(repo, names):
    sys.path.insert(0, os.path.join(vlib.V, "tools"))
    import schema
    ext = schema.Extractor(repo)
    res = ext.build(names)
    types = res["types"]
    upper = uppercase_structs(repo)
    by_pub = {}
    for key in list(ext.defs) + list(ext.manual):
        by_pub[ext.pubname(*key)] = key
    views, junmod = {}, {}
    for pn, t in types.items():
        key = by_pub.get(pn)
        if t["k"] == "enum":
            continue
        d = ext.defs.get(key)
        if d is None or d[0] != "struct":
            junmod[pn] = "no struct definition found for the JSON view"
            continue
        decl = d[1]
        ns = key[0]
        try:
            declt = [(fn, ext.term(ft, ns)) for fn, ft in decl]
        except schema.Unmodelled as e:
            junmod[pn] = "field type: %s" % e
            continue
        jfs = None
        if t["k"] == "struct" and key not in ext.no_streamable:
            if [f["n"] for f in t["fs"]] != [fn for fn, _ in decl]:
                junmod[pn] = "wire fields and struct fields differ"
                continue
            jfs = [{"n": fn, "c": codes(fn), "t": ft, "w": i + 1, "s": 0} for i, (fn, ft) in enumerate(declt)]
        elif t["k"] == "struct":
            lit = struct_literal_map(ext.manual.get(key, ""), key[1])
            if lit is None:
                junmod[pn] = "hand-written codec: struct literal not found"
                continue
            jfs = []
            for fn, ft in declt:
                var = lit.get(fn)
                loc = None
                for i, wf in enumerate(t["fs"]):
                    parts = wf["n"].split("+")
                    if len(parts) == 1 and parts[0] == var and wf["t"] == ft:
                        loc = (i + 1, 0)
                    elif len(parts) == 2 and var in parts and wf["t"]["k"] == "opt2":
                        s = parts.index(var) + 1
                        if ft == {"k": "opt", "t": wf["t"]["a" if s == 1 else "b"]}:
                            loc = (i + 1, s)
                if loc is None:
                    jfs = None
                    junmod[pn] = "hand-written codec: field %s not located on the wire" % fn
                    break
                jfs.append({"n": fn, "c": codes(fn), "t": ft, "w": loc[0], "s": loc[1]})
            if jfs is None:
                continue
        elif t["k"] == "block":
            lead = [f["n"] for f in t["fs"]]
            if [fn for fn, _ in declt] != lead + [x[0] for x in BLOCK_TAIL] or [ft for _, ft in declt[len(lead):]] != [x[1] for x in BLOCK_TAIL] \
                    or [ft for _, ft in declt[:len(lead)]] != [f["t"] for f in t["fs"]]:
                junmod[pn] = "block struct fields are not <leading fields> + generator tail"
                continue
            jfs = [{"n": fn, "c": codes(fn), "t": ft, "w": i + 1, "s": 0} for i, (fn, ft) in enumerate(declt[:len(lead)])]
            jfs += [{"n": fn, "c": codes(fn), "t": ft, "w": 0, "s": s} for fn, ft, s in BLOCK_TAIL]
        elif t["k"] == "pos":
            if declt != POS_FIELDS:
                junmod[pn] = "ProofOfSpace struct fields changed"
                continue
            jfs = [{"n": fn, "c": codes(fn), "t": ft, "w": 0, "s": i + 1} for i, (fn, ft) in enumerate(declt)]
        nt = t["k"] == "struct" and len(decl) == 1 and decl[0][0] == "field_0"
        views[pn] = {"up": key[1] in upper, "nt": nt, "jfs": jfs}
    # a type is JSON-modelled only if everything it refers to is
    def refs_of(pn):
        out = set(schema.refs(types[pn]))
        if pn in views:
            out |= set(schema.refs(views[pn]["jfs"]))
        return out
    changed = True
    while changed:
        changed = False
        for pn in list(types):
            if pn in junmod:
                continue
            for r in refs_of(pn):
                if r in junmod or r not in types:
                    junmod[pn] = "refers to JSON-unmodelled " + r
                    changed = True
                    break
    top = {nm: t for nm, t in res["top"].items() if not any(r in junmod for r in schema.refs(t))}
    for nm in res["top"]:
        if nm not in top:
            res["unmodelled"][nm] = "JSON view unmodelled"
    for pn in junmod:
        views.pop(pn, None)
    # views of unmodelled types must not dangle in TLC records: keep only consistent entries
    return {"types": {k: v for k, v in types.items() if k not in junmod}, "views": views, "top": top,
            "unmodelled": dict(res["unmodelled"], **{k: "json: " + v for k, v in junmod.items()}),
            "upper": sorted(u for u in upper if any(by_pub.get(p, ("", ""))[1] == u for p in views))}


def nested_options(js):
    """fields Option<Option<..>> (also through transparent tuple structs): Some(None) has no JSON form of its own"""
    types, views = js["types"], js["views"]
    def isopt(t):
        if t["k"] == "opt":
            return True
        if t["k"] == "ref" and t["name"] in views and views[t["name"]]["nt"]:
            return isopt(views[t["name"]]["jfs"][0]["t"])
        return False
    found = []
    def walk(t, where):
        k = t["k"]
        if k == "opt":
            if isopt(t["t"]):
                found.append(where)
            walk(t["t"], where)
        elif k in ("vec", "arr"):
            walk(t["t"], where)
        elif k == "tup":
            for x in t["ts"]:
                walk(x, where)
    for pn, v in views.items():
        for f in v["jfs"]:
            walk(f["t"], pn + "." + f["n"])
    for nm, t in js["top"].items():
        walk(t, nm)
    return found
