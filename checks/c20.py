"""C20 - Python JSON representation round-trips every exported value.

M  MC_JsonDict "model": ToJ / FromJ of spec/JsonDict.tla over all JSON-able combinator terms of depth <= 1 (quick) / 3 (thorough), model
   structs (upper-cased keys, tuple structs, opt2 wire fields, block / proof-of-space views): FromJ inverts ToJ,
   every applicable single-position corruption is rejected, integer JSON is accepted exactly in range.
G  MC_JsonDict "gen": the schema + JSON views extracted from the current sources; for every registry type and three (quick) / four
   canonical values TLC enumerates every applicable (path, corruption class) and emits them as replay cases.
R+T the pyo3-embedded harness (harness/vhpy) converts values of every exported class (TLC cases, schema-generated
   boundary values, `arbitrary` values) with to_json_dict / from_json_dict, applies the corruptions (TLC's and its own
   enumeration on the real values) and logs everything; Trace_Json re-parses the encoding with Streamable.tla,
   recomputes the JSON form, the corrupted value and the verdict of FromJ.
"""
import hashlib
import json
import os
import re
import sys
from checks.common import *

CLASSES = ["C20.json", "C20.back", "C20.corrupt"]
CORR_CLASSES = ["hex_short", "hex_long", "hex_odd", "hex_bad_first", "hex_bad_last", "no0x", "int_2w", "int_m1", "int_minm1",
                "enum_oob", "len_short", "len_long", "key_removed", "null_val"]
CRATES = ["chia-protocol", "chia-bls", "chia-consensus", "chia-datalayer"]
BLOCK_TAIL = [("transactions_generator", {"k": "opt", "t": {"k": "prog"}}, 1),
              ("transactions_generator_ref_list", {"k": "vec", "t": {"k": "u", "n": 4}}, 2),
              ("transactions_generator_buffer", {"k": "opt", "t": {"k": "vec", "t": {"k": "u", "n": 1}}}, 3),
              ("version", {"k": "u", "n": 1}, 4)]
B32 = {"k": "bytesn", "n": 32}
POS_FIELDS = [("challenge", B32), ("pool_public_key", {"k": "opt", "t": {"k": "g1"}}), ("pool_contract_puzzle_hash", {"k": "opt", "t": B32}),
              ("plot_public_key", {"k": "g1"}), ("version", {"k": "u", "n": 1}), ("plot_index", {"k": "u", "n": 2}),
              ("meta_group", {"k": "u", "n": 1}), ("strength", {"k": "u", "n": 1}), ("size", {"k": "u", "n": 1}), ("proof", {"k": "bytes"})]


def codes(s):
    return list(s.encode("utf-8"))


def uppercase_structs(repo):
    """names of the structs that carry #[py_uppercase] (inside a cfg_attr or directly)"""
    out = set()
    for c in CRATES:
        for dp, _, fns in os.walk(os.path.join(repo, "crates", c, "src")):
            for fn in fns:
                if not fn.endswith(".rs"):
                    continue
                src = open(os.path.join(dp, fn), encoding="utf-8").read()
                for m in re.finditer(r"\bpy_uppercase\b", src):
                    nxt = re.compile(r"\b(struct|enum|fn|impl|mod)\s+(\w+)").search(src, m.end())
                    if nxt and nxt.group(1) == "struct":
                        out.add(nxt.group(2))
    return out


def struct_literal_map(body, name):
    """`Ok(Self { a: x, b, ... })` -> {field: variable}"""
    m = re.search(r"Ok\(\s*(?:Self|%s)\s*\{" % re.escape(name), body)
    if not m:
        return None
    depth, i = 0, m.end() - 1
    j = i
    while True:
        if body[j] == "{":
            depth += 1
        elif body[j] == "}":
            depth -= 1
            if depth == 0:
                break
        j += 1
    out = {}
    for part in body[i + 1:j].split(","):
        part = part.strip()
        if not part:
            continue
        if ":" in part:
            a, b = part.split(":", 1)
            out[a.strip()] = b.strip()
        else:
            out[part] = part
    return out


def build_jschema(repo, names):
    sys.path.insert(0, os.path.join(vlib.V, "tools"))
    import schema
    ext = schema.Extractor(repo)
    res = ext.build(names)
    types = res["types"]
    upper = uppercase_structs(repo)
    by_pub = {}
    for key in list(ext.defs) + list(ext.manual):
        by_pub[ext.pubname(*key)] = key
    views, junmod = {}, {}
    for pn, t in types.items():
        key = by_pub.get(pn)
        if t["k"] == "enum":
            continue
        d = ext.defs.get(key)
        if d is None or d[0] != "struct":
            junmod[pn] = "no struct definition found for the JSON view"
            continue
        decl = d[1]
        ns = key[0]
        try:
            declt = [(fn, ext.term(ft, ns)) for fn, ft in decl]
        except schema.Unmodelled as e:
            junmod[pn] = "field type: %s" % e
            continue
        jfs = None
        if t["k"] == "struct" and key not in ext.no_streamable:
            if [f["n"] for f in t["fs"]] != [fn for fn, _ in decl]:
                junmod[pn] = "wire fields and struct fields differ"
                continue
            jfs = [{"n": fn, "c": codes(fn), "t": ft, "w": i + 1, "s": 0} for i, (fn, ft) in enumerate(declt)]
        elif t["k"] == "struct":
            lit = struct_literal_map(ext.manual.get(key, ""), key[1])
            if lit is None:
                junmod[pn] = "hand-written codec: struct literal not found"
                continue
            jfs = []
            for fn, ft in declt:
                var = lit.get(fn)
                loc = None
                for i, wf in enumerate(t["fs"]):
                    parts = wf["n"].split("+")
                    if len(parts) == 1 and parts[0] == var and wf["t"] == ft:
                        loc = (i + 1, 0)
                    elif len(parts) == 2 and var in parts and wf["t"]["k"] == "opt2":
                        s = parts.index(var) + 1
                        if ft == {"k": "opt", "t": wf["t"]["a" if s == 1 else "b"]}:
                            loc = (i + 1, s)
                if loc is None:
                    jfs = None
                    junmod[pn] = "hand-written codec: field %s not located on the wire" % fn
                    break
                jfs.append({"n": fn, "c": codes(fn), "t": ft, "w": loc[0], "s": loc[1]})
            if jfs is None:
                continue
        elif t["k"] == "block":
            lead = [f["n"] for f in t["fs"]]
            if [fn for fn, _ in declt] != lead + [x[0] for x in BLOCK_TAIL] or [ft for _, ft in declt[len(lead):]] != [x[1] for x in BLOCK_TAIL] \
                    or [ft for _, ft in declt[:len(lead)]] != [f["t"] for f in t["fs"]]:
                junmod[pn] = "block struct fields are not <leading fields> + generator tail"
                continue
            jfs = [{"n": fn, "c": codes(fn), "t": ft, "w": i + 1, "s": 0} for i, (fn, ft) in enumerate(declt[:len(lead)])]
            jfs += [{"n": fn, "c": codes(fn), "t": ft, "w": 0, "s": s} for fn, ft, s in BLOCK_TAIL]
        elif t["k"] == "pos":
            if declt != POS_FIELDS:
                junmod[pn] = "ProofOfSpace struct fields changed"
                continue
            jfs = [{"n": fn, "c": codes(fn), "t": ft, "w": 0, "s": i + 1} for i, (fn, ft) in enumerate(declt)]
        nt = t["k"] == "struct" and len(decl) == 1 and decl[0][0] == "field_0"
        views[pn] = {"up": key[1] in upper, "nt": nt, "jfs": jfs}
    # a type is JSON-modelled only if everything it refers to is
    def refs_of(pn):
        out = set(schema.refs(types[pn]))
        if pn in views:
            out |= set(schema.refs(views[pn]["jfs"]))
        return out
    changed = True
    while changed:
        changed = False
        for pn in list(types):
            if pn in junmod:
                continue
            for r in refs_of(pn):
                if r in junmod or r not in types:
                    junmod[pn] = "refers to JSON-unmodelled " + r
                    changed = True
                    break
    top = {nm: t for nm, t in res["top"].items() if not any(r in junmod for r in schema.refs(t))}
    for nm in res["top"]:
        if nm not in top:
            res["unmodelled"][nm] = "JSON view unmodelled"
    for pn in junmod:
        views.pop(pn, None)
    # views of unmodelled types must not dangle in TLC records: keep only consistent entries
    return {"types": {k: v for k, v in types.items() if k not in junmod}, "views": views, "top": top,
            "unmodelled": dict(res["unmodelled"], **{k: "json: " + v for k, v in junmod.items()}),
            "upper": sorted(u for u in upper if any(by_pub.get(p, ("", ""))[1] == u for p in views))}


def nested_options(js):
    """fields Option<Option<..>> (also through transparent tuple structs): Some(None) has no JSON form of its own"""
    types, views = js["types"], js["views"]
    def isopt(t):
        if t["k"] == "opt":
            return True
        if t["k"] == "ref" and t["name"] in views and views[t["name"]]["nt"]:
            return isopt(views[t["name"]]["jfs"][0]["t"])
        return False
    found = []
    def walk(t, where):
        k = t["k"]
        if k == "opt":
            if isopt(t["t"]):
                found.append(where)
            walk(t["t"], where)
        elif k in ("vec", "arr"):
            walk(t["t"], where)
        elif k == "tup":
            for x in t["ts"]:
                walk(x, where)
    for pn, v in views.items():
        for f in v["jfs"]:
            walk(f["t"], pn + "." + f["n"])
    for nm, t in js["top"].items():
        walk(t, nm)
    return found


# ---------------------------------------------------------------------------------------------------
# driver
# ---------------------------------------------------------------------------------------------------
def prepare_schema(wd):
    """registry names from the Python-linked harness, type terms and JSON views from the current sources"""
    p = vlib.harness(["list"], pkg="vhpy")
    names = [l.strip() for l in p.stdout.splitlines() if l.strip()]
    if len(names) < 100:
        raise ToolError("type registry too small: %d" % len(names))
    js = build_jschema(vlib.REPO, names)
    # Option<Option<T>>: Some(None) and None share the JSON form null, the model has no JSON-able term for it; such a type
    # stays in the registry (round trip of its values is still judged by C20.back) but is not modelled
    nested = nested_options(js)
    if nested:
        import schema
        bad = set(w.split(".")[0] for w in nested)
        changed = True
        while changed:
            changed = False
            for pn in list(js["types"]):
                if pn in bad:
                    continue
                rs = set(schema.refs(js["types"][pn])) | (set(schema.refs(js["views"][pn]["jfs"])) if pn in js["views"] else set())
                if rs & bad:
                    bad.add(pn)
                    changed = True
        for nm in list(js["top"]):
            if nm in bad or set(schema.refs(js["top"][nm])) & bad:
                del js["top"][nm]
                js["unmodelled"][nm] = "json: nested Option (Some(None) has no JSON form of its own): " + ", ".join(nested)
    path = os.path.join(wd, "jschema.json")
    with open(path, "w") as f:
        json.dump(js, f, sort_keys=True)
    os.environ["JSCHEMA"] = path  # read by MC_JsonDict (mode gen) and Trace_Json (IOEnv.JSCHEMA)
    return path, js, names


def eff(js, t, j):
    """JsonDict!Eff: the type that renders j"""
    while True:
        k = t["k"]
        if k == "opt":
            if j["k"] == "null":
                return t
            t = t["t"]
        elif k == "ref":
            d = js["types"][t["name"]]
            if d["k"] == "enum":
                return d
            v = js["views"][t["name"]]
            if not v["nt"]:
                return t
            t = v["jfs"][0]["t"]
        else:
            return t


def target_of(js, T, j, path, cls):
    """(type kind at the end of the path, width or None, key of the last dict step or None); None if the path does not fit"""
    t, key = T, None
    try:
        for d, i in enumerate(path):
            e = eff(js, t, j)
            if e["k"] in ("vec", "arr"):
                t, j = e["t"], j["v"][i - 1]
            elif e["k"] == "tup":
                t, j = e["ts"][i - 1], j["v"][i - 1]
            elif e["k"] == "ref":
                ent = j["v"][i - 1]
                key = bytes(ent["key"]).decode("utf-8", "replace")
                t, j = js["views"][e["name"]]["jfs"][i - 1]["t"], ent["val"]
                if d + 1 == len(path) and cls in ("key_removed", "null_val"):
                    return t["k"], t.get("n"), key
            else:
                return None
        e = eff(js, t, j)
        return e["k"], (len(e["ts"]) if e["k"] == "tup" else e.get("n")), key
    except (KeyError, IndexError, TypeError):
        return None


def corr_sig(js, e, c):
    tg = target_of(js, js["top"][e["type"]], e["json"], c["p"], c["c"]) if e["type"] in js["top"] else None
    s = {"type": e["type"], "class": "C20.corrupt", "corruption": c["c"], "kind": tg[0] if tg else "?"}
    if tg and tg[1] is not None:
        s["n"] = tg[1]
    if tg and tg[2] is not None:
        s["field"] = tg[2]
    return s


def trim(e, cs=None, seed=None):
    """the part of an event that reproduces it (replay files must stay small)"""
    out = {"type": e["type"], "src": e["src"], "bytes": e["bytes"], "to": e["to"], "cs": [{"p": c["p"], "c": c["c"], "r": c["r"], "nv": c.get("nv")} for c in (cs or [])]}
    b = e.get("back", {})
    out["back"] = {"r": b.get("r"), "eq": b.get("eq"), "msg": b.get("msg"), "same_bytes": b.get("bytes") == e["bytes"], "same_hash": b.get("hash") == e.get("hash")}
    if len(json.dumps(e["json"])) < 4000:
        out["json"] = e["json"]
    if seed is not None:
        out["seed"] = seed
    return out


def classify(chk, js):
    """turn the mismatches reported by Trace_Json into violations (C20.*) or a tool error (TOOL)"""
    mism = getattr(chk, "raw_mismatches", [])
    tool = [m for m in mism if m[1] == "TOOL"]
    if tool:
        i, cls, e = tool[0]
        why = "rebuilt=%s walk=%s" % (e.get("rebuilt"), e.get("walk"))
        raise ToolError("harness and specification disagree about the experiment itself for %d events (class TOOL), e.g. type %s src %s %s bytes %s"
                        % (len(tool), e.get("type"), e.get("src"), why, json.dumps(e.get("bytes"))[:300]))
    for i, cls, e in mism:
        if cls == "C20.corrupt":
            acc = [c for c in e["cs"] if c["r"] == "ok"]
            if not acc:
                raise ToolError("Trace_Json reports an accepted corruption but the event has none: type %s" % e.get("type"))
            for c in acc:
                s = corr_sig(js, e, c)
                chk.violation(s, "from_json_dict of %s accepts its JSON form corrupted by %s at path %s (target %s%s%s)"
                              % (e["type"], c["c"], c["p"], s["kind"], s.get("n", ""), " field " + s["field"] if "field" in s else ""), trim(e, [c], chk.seed))
        elif cls == "C20.json":
            chk.violation({"type": e["type"], "class": cls, "src": e["src"]},
                          "to_json_dict of %s: the JSON form is not the one the specification prescribes for the encoded value (src %s, %d bytes)"
                          % (e["type"], e["src"], len(e["bytes"])), trim(e, None, chk.seed))
        elif cls == "C20.back":
            b = e.get("back", {})
            s = {"type": e["type"], "class": cls, "src": e["src"], "to": e["to"], "back": b.get("r"), "eq": bool(b.get("eq")),
                 "same_bytes": b.get("bytes") == e["bytes"], "same_hash": b.get("hash") == e.get("hash")}
            chk.violation(s, "%s: to_json_dict / from_json_dict does not give back an equal value with identical encoding and hash (to=%s back=%s eq=%s same_bytes=%s same_hash=%s %s)"
                          % (e["type"], s["to"], s["back"], s["eq"], s["same_bytes"], s["same_hash"], (b.get("msg") or "")[:100]), trim(e, None, chk.seed))
        else:
            raise ToolError("unknown mismatch class %r" % (cls,))


def has_wide_int(j, nbytes):
    k = j.get("k")
    if k == "int":
        return len(j["v"]) > nbytes
    if k == "list":
        return any(has_wide_int(x, nbytes) for x in j["v"])
    if k == "dict":
        return any(has_wide_int(x["val"], nbytes) for x in j["v"])
    return False


def shape_counts(j, out):
    """which shapes of the hand-written codecs (block versions, proof-of-space versions) a JSON form contains"""
    k = j.get("k")
    if k == "list":
        for x in j["v"]:
            shape_counts(x, out)
    elif k == "dict":
        d = {bytes(x["key"]).decode("utf-8", "replace"): x["val"] for x in j["v"]}
        if "transactions_generator_buffer" in d and "version" in d:
            ver = d["version"].get("v")
            if ver == [] and d["transactions_generator"].get("k") != "null":
                out["block_v0_generator"] = out.get("block_v0_generator", 0) + 1
            if ver == [] and d["transactions_generator_ref_list"].get("v"):
                out["block_v0_ref_list"] = out.get("block_v0_ref_list", 0) + 1
            if ver == [1] and d["transactions_generator_buffer"].get("k") == "list":
                out["block_v1_buffer"] = out.get("block_v1_buffer", 0) + 1
            if ver == [1] and d["transactions_generator_buffer"].get("k") == "null":
                out["block_v1_no_buffer"] = out.get("block_v1_no_buffer", 0) + 1
        if "plot_index" in d and "version" in d:
            ver = d["version"].get("v")
            key = "pos_v%d" % (ver[0] if ver else 0)
            out[key] = out.get(key, 0) + 1
        for x in j["v"]:
            shape_counts(x["val"], out)


def model_check(chk, tier):
    cfg = "MC_JsonDict_quick.cfg" if tier == "quick" else "MC_JsonDict.cfg"
    _, meta = gen_cases("MC_JsonDict.tla", cfg, workers=6, timeout=3000)
    chk.states += meta["distinct"]
    chk.transitions += meta["generated"]
    chk.extra.setdefault("model_runs", {})[cfg] = meta
    return meta


def gen_stage(chk, tier, schema_path):
    gcfg = "MC_JsonDict_gen_quick.cfg" if tier == "quick" else "MC_JsonDict_gen.cfg"
    h = hashlib.sha256(open(schema_path, "rb").read()).hexdigest()
    cases, gmeta = gen_cases("MC_JsonDict.tla", gcfg, workers=6, timeout=3000, key_extra="jschema:" + h, env={"JSCHEMA": schema_path})
    chk.states += gmeta["distinct"]
    chk.transitions += gmeta["generated"]
    chk.extra.setdefault("model_runs", {})[gcfg] = gmeta
    if gmeta["cases"] == 0:
        raise ToolError("MC_JsonDict (gen) produced no replay case")
    return cases, gmeta


def validate_traces(chk, paths, js, jobs=6):
    validate_parallel("Trace_Json.tla", paths, chk, "json", jobs=jobs, classes=[], xmx="3g")
    classify(chk, js)


def run(tier):
    chk = vlib.Check("C20", tier)
    wd = vlib.workdir("C20")
    model_check(chk, tier)
    schema_path, js, names = prepare_schema(wd)
    cases, gmeta = gen_stage(chk, tier, schema_path)
    t = os.path.join(wd, "trace.ndjson")
    args = ["record", "--schema", schema_path, "--out", t, "--cases", cases, "--seed", chk.seed]
    if tier == "quick":
        args += ["--gen", 2, "--arb", 2, "--own", 16, "--max-bytes", 12000]
        nshards = 6
    else:
        args += ["--gen", 64, "--arb", 64, "--own", 96, "--max-bytes", 20000]
        nshards = 48
    p = vlib.harness(args, pkg="vhpy", timeout=3000)
    try:
        hstats = json.loads(p.stdout.strip().splitlines()[-1])
    except (ValueError, IndexError):
        raise ToolError("vhpy record printed no statistics:\n" + p.stdout[-500:] + p.stderr[-1500:])
    if hstats["unlocated"]:
        raise ToolError("%d corruptions asked for by TLC could not be located in the JSON form produced by the code (harness walker and spec disagree)" % hstats["unlocated"])
    paths = shard_file(t, nshards, wd, "trace")
    validate_traces(chk, paths, js)
    # statistics, vacuity guards
    by_src = hstats["by_src"]
    by_ck = {}
    types_seen, mod_seen, upper_seen = set(), set(), 0
    wide = back_ok = ncorr = ncorr_rej = ncorr_acc = nnull = 0
    sampled = set()
    shapes = {}
    upper_types = set(pn for pn, v in js["views"].items() if v["up"])
    for pth in paths:
        for e in vlib.read_ndjson(pth):
            h = hashlib.sha256(bytes(e["bytes"])).hexdigest()[:24]
            types_seen.add(e["type"])
            back_ok += e["back"]["r"] == "ok" and bool(e["back"]["eq"])
            if e["src"] != "min":
                chk.nontrivial_add((e["type"], h))
            if e["m"]:
                mod_seen.add(e["type"])
                T = js["top"][e["type"]]
                wide += has_wide_int(e["json"], 8)
                shape_counts(e["json"], shapes)
                if e["type"] in upper_types and e["json"].get("k") == "dict" and e["json"]["v"] and bytes(e["json"]["v"][0]["key"]).isupper():
                    upper_seen += 1
                for c in e["cs"]:
                    ncorr += 1
                    ncorr_rej += c["r"] != "ok"
                    ncorr_acc += c["r"] == "ok"
                    tg = target_of(js, T, e["json"], c["p"], c["c"])
                    key = "%s/%s%s" % (c["c"], tg[0] if tg else "?", tg[1] if tg and tg[1] is not None and tg[0] in ("u", "i", "tup", "arr") else "")
                    by_ck[key] = by_ck.get(key, 0) + 1
                    chk.nontrivial_add((e["type"], h, tuple(c["p"]), c["c"]))
            if e["src"] not in sampled and len(e["bytes"]) < 60 and (e["cs"] or not e["m"]):
                sampled.add(e["src"])
                chk.sample({"type": e["type"], "src": e["src"], "bytes": e["bytes"], "json": e["json"], "back": {k: e["back"][k] for k in ("r", "eq")},
                            "corruptions": [{k: c[k] for k in ("p", "c", "nv", "r")} for c in e["cs"][:4]]}, limit=7)
    cbc = hstats["corr_by_class"]
    missing_cls = [c for c in CORR_CLASSES if cbc.get(c, 0) == 0]
    missing_src = [s for s in ("tlc", "min", "max", "gen", "arb") if by_src.get(s, 0) == 0]
    need_ck = ["int_2w/u1", "int_2w/u4", "int_2w/u8", "int_2w/u16", "int_minm1/i8", "int_minm1/i16", "int_m1/u8", "len_short/tup2", "len_long/tup3", "len_short/arr", "len_long/arr",
               "hex_odd/bytesn", "hex_short/bytesn", "hex_long/bytesn", "no0x/bytesn", "hex_odd/bytes", "hex_short/g1", "hex_short/g2", "hex_short/prog", "enum_oob/enum"]
    missing_ck = [k for k in need_ck if not any(x == k or (k.endswith("/arr") and x.startswith(k)) for x in by_ck)]
    missing_ck += [k for k in ("block_v0_generator", "block_v0_ref_list", "block_v1_buffer", "block_v1_no_buffer", "pos_v0", "pos_v1") if shapes.get(k, 0) == 0]
    # a vacuity guard must not mask a violation: a changed JSON form (e.g. lower-cased keys) empties some of these counters
    if not chk.violations and not chk.known_hit:
        if missing_cls or missing_src or missing_ck or ncorr_rej < 5000 or back_ok < 800 or len(types_seen) < 150 or len(mod_seen) < 140 or wide < 20 \
                or (upper_types and upper_seen == 0):
            raise ToolError("C20 vacuity guard: classes never applied=%r sources missing=%r (class, target) pairs missing=%r corruptions rejected=%d round trips=%d types=%d modelled=%d "
                            "values with ints above 2^64=%d upper-cased dicts=%d" % (missing_cls, missing_src, missing_ck, ncorr_rej, back_ok, len(types_seen), len(mod_seen), wide, upper_seen))
        if ncorr != sum(cbc.values()):
            raise ToolError("corruption count of the harness (%d) and of the trace (%d) differ" % (sum(cbc.values()), ncorr))
    chk.extra["events_by_source"] = by_src
    chk.extra["tlc_replay_cases"] = gmeta["cases"]
    chk.extra["round_trips_equal"] = back_ok
    chk.extra["corruptions_judged"] = ncorr
    chk.extra["corruptions_rejected_by_code"] = ncorr_rej
    chk.extra["corruptions_accepted_by_code"] = ncorr_acc
    chk.extra["corruptions_panicked"] = hstats["corr_panic"]
    chk.extra["corruptions_by_class"] = cbc
    chk.extra["corruptions_by_class_and_target"] = dict(sorted(by_ck.items()))
    chk.extra["values_with_ints_above_2^64"] = wide
    chk.extra["upper_cased_dicts"] = upper_seen
    chk.extra["hand_written_codec_shapes"] = shapes
    chk.extra["arbitrary_values_without_canonical_encoding"] = hstats["arb_noncanonical"]
    chk.extra["generated_encodings_rejected_by_from_bytes"] = hstats["invalid_generated"]
    chk.extra["types_probed"] = len(types_seen)
    chk.extra["types_in_registry"] = hstats["registry"]
    chk.extra["types_modelled"] = len(js["top"])
    chk.extra["unmodelled"] = js["unmodelled"]
    chk.extra["exhaustive"] = False
    chk.extra["model_constants"] = {"model": "combinator terms of depth <= %d (3 = depth 2 + options / vectors of all depth-1 terms + all leaf pairs) over 16 leaf types + 10 model structs (upper-cased, tuple struct, opt2, block, proof of space), "
                                             "LenW=4 HashW=2 G1W=2 G2W=3; integer lattice {0, 2^(8n-1), 2^(8n)} +- {0,1,2}, n in {1,2,4,8,16}" % (1 if tier == "quick" else 3),
                                    "gen": "schema of the current sources, real widths, canonical value variants %s of every registry type" % ("{2,3,4}" if tier == "quick" else "{1,2,3,4}")}
    chk.rule = ("one case = (exported class, encoding of a value): TLC-enumerated canonical values with every applicable (path, corruption class), schema-generated minimal / maximal / "
                "random boundary values and `arbitrary` values with the harness's own enumeration of corruptions (sampled, every class represented); each value goes through "
                "to_json_dict and from_json_dict in an embedded interpreter, each corruption through from_json_dict; Trace_Json recomputes the JSON form from the encoding, the "
                "corrupted value and the verdict of FromJ. distinct_nontrivial = distinct (class, encoding, path, corruption class) experiments (each one a rejection branch of "
                "FromJ) + distinct (class, encoding) round trips of values other than the all-default minimal value")
    chk.assumptions = ["the JSON views (field names, order, upper-casing, wire position) are extracted from the current sources by checks/c20.py + tools/schema.py",
                       "point validity and program length are oracle facts from raw blst / clvmr, also for byte strings met only on the JSON side",
                       "Python objects outside the JSON model (bool for int, str / dict for list, list of ints for a BLS element) are not judged",
                       "equality of the value after the round trip is observed through PartialEq, the re-encoding and the streamable hash, not reconstructed in TLA+",
                       "SecretKey and GTElement have no schema term: round-trip clauses only",
                       "a missing key is judged only for non-optional fields; a panic inside from_json_dict counts as rejection (it surfaces as a Python exception) and is counted"]
    return chk.finish()


def replay(path):
    """re-run the cases of a replay file: the encodings with their corruptions as TLC-style cases, plus the
    generated / arbitrary values of the involved types under the recorded seed"""
    wd = vlib.workdir("C20")
    vlib.EVID = os.path.join(wd, "replay-evidence")
    vlib.REPLAYS = os.path.join(wd, "replay-out")  # a replay must not overwrite the evidence of the last run
    chk = vlib.Check("C20", "quick")
    schema_path, js, names = prepare_schema(wd)
    cases = os.path.join(wd, "replay-cases.ndjson")
    types, seed = [], chk.seed
    with open(cases, "w") as f:
        for v in json.load(open(path)):
            e = v["case"]
            seed = e.get("seed", seed)
            if e["type"] not in types:
                types.append(e["type"])
            if e.get("src") != "raw":
                f.write(json.dumps({"type": e["type"], "bytes": e["bytes"], "cs": [{"p": c["p"], "c": c["c"]} for c in e.get("cs", [])]}) + "\n")
    t = os.path.join(wd, "replay.ndjson")
    vlib.harness(["record", "--schema", schema_path, "--out", t, "--cases", cases, "--seed", seed, "--types", "|".join(types), "--gen", 4, "--arb", 8, "--own", 64], pkg="vhpy")
    validate_traces(chk, [t], js, jobs=1)
    return chk.finish()
