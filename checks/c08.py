"""C08 - what the mempool validated is what the block yields."""
from checks.common import *
from checks import sb_pipeline


def run(tier):
    chk = vlib.Check("C08", tier)
    res = sb_pipeline.run(tier, chk.seed)
    sb_pipeline.apply(chk, res, ["C08"])
    st = res["stats"]
    if st["direct_ok"] < 50 or st["plain_ok"] < 50 or st["builders_ok"] < 50:
        raise ToolError("C08 vacuity guard: %r" % st)
    chk.rule = ("M: MC_Bundle proves the length formula (predicted = serialised length) and the fixed quote overhead over amounts of every encoding-length class x reveals x "
                "flags; every bundle is replayed and, with seeded random bundles (salted identity puzzles, condition generator) and recorded test-bundles, run through "
                "run_spendbundle, solution_generator, solution_generator_backrefs, both block builders, calculate_generator_length and run_block_generator2 on each generator; "
                "TLC (Trace_Bundle) checks run_spendbundle against Bundle.tla, byte-exact plain generator, lengths, equal decision and conditions, exact cost delta, "
                "builder cost = consensus cost; non-trivial = accepted bundles with spends, distinct by (spends, flags, limit)")
    chk.assumptions = ["CLVM execution results are oracle inputs from clvmr", "puzzle reveals are plainly serialised (the property's premise)"]
    chk.extra["exhaustive"] = False
    return chk.finish()
