"""C09 - trusted fast paths report what full validation reports."""
from checks.common import *
from checks import gen_pipeline


def run(tier):
    chk = vlib.Check("C09", tier)
    res = gen_pipeline.run(tier, chk.seed)
    gen_pipeline.apply(chk, res, ["C09", "C09L", "C09W"])
    if res["stats"].get("with_listing", 0) < 50:
        raise ToolError("C09 vacuity guard: only %d accepted generators with a logged condition listing" % res["stats"].get("with_listing", 0))
    if res["stats"]["with_trusted"] < 100:
        raise ToolError("C09 vacuity guard: only %d accepted generators with trusted helper outputs" % res["stats"]["with_trusted"])
    try:
        from checks import sb_pipeline
        s = sb_pipeline.run(tier, chk.seed)
        sb_pipeline.apply(chk, s, ["C09", "C09P"])
    except ImportError:
        pass
    chk.rule = ("for every generator accepted by run_block_generator2 in the C07 streams: additions_and_removals, get_coinspends_for_trusted_block (+ rebuilt generator "
                "re-validated), get_coinspends_with_conditions_for_trusted_block (coins in order; its raw condition listing must contain exactly the validated created coins and AGG_SIG_ME conditions of each spend) and get_puzzle_and_solution_for_coin for removed coins and a non-member are compared by TLC "
                "with the trusted view derived from the validated conditions (removals as a sequence, additions as a multiset of (coin, hint) with the validation hint rule)")
    chk.assumptions = ["CLVM execution results are oracle inputs", "a known finding on spends with extension data can mask other lookup defects in the same event"]
    chk.extra["exhaustive"] = False
    return chk.finish()
