"""C18 - DataLayer Merkle blob stays a valid authenticated map under any history."""
import hashlib
import json
import os
from checks.common import *

OPNAME = {"insert": "insert", "upsert": "upsert", "delete": "delete", "batch": "batch_insert", "calc": "calculate_lazy_hashes", "reload": "reload"}


def sig(e):
    """Stable signature of a rejected event: the call, whether its arguments repeat a key / leaf hash that the
    blob (or the same batch) already holds (key wins over hash), and how the call returned."""
    if e.get("k") != "op":
        return {"event": e.get("k")}
    m = e.get("meta", {})
    dup = "key" if m.get("dup_key") else "hash" if m.get("dup_hash") else "none"
    s = {"op": OPNAME.get(e["op"]["k"], e["op"]["k"]), "dup": dup, "result": e["res"]["k"]}
    if e["op"]["k"] == "insert":
        s["loc"] = e["op"]["loc"]["k"]
    return s


def shard_by_reset(path, n, outdir, prefix, max_bytes=12 << 20):
    """split an event file at `reset` events into about n files of similar size (a history never spans two files)"""
    size = os.path.getsize(path)
    n = max(n, 1 + size // max_bytes)
    target = size / n
    outs = []
    cur = None
    written = 0
    with open(path) as f:
        for line in f:
            if cur is None or (line.startswith('{"k":"reset"}') and written >= target):
                if cur:
                    cur.close()
                cur = open(os.path.join(outdir, "%s-%d.ndjson" % (prefix, len(outs))), "w")
                outs.append(cur.name)
                written = 0
            cur.write(line)
            written += len(line)
    if cur:
        cur.close()
    return outs


def history_of(path, idx):
    """the calls that lead to event number idx (1-based) of an event file, that event's call included"""
    stack = []
    for i, e in enumerate(vlib.read_ndjson(path), 1):
        if e["k"] == "reset":
            stack = []
        elif e["k"] == "pop":
            stack.pop()
        else:
            stack.append(e["op"])
        if i == idx:
            return list(stack)
    return []


def attach_histories(chk, paths):
    """a rejected event is only replayable together with its history: store both in the replay file"""
    import re
    byname = {os.path.basename(p): p for p in paths}
    out = []
    for s, d, e in chk.violations:
        m = re.search(r"event (\d+) of (\S+) rejected", d)
        if m and m.group(2) in byname and isinstance(e, dict) and "hist" not in e:
            e = {"hist": history_of(byname[m.group(2)], int(m.group(1))), "event": e}
        out.append((s, d, e))
    chk.violations = out


def nleaves(t):
    return 0 if t["t"] == "E" else 2 ** 20 if t["t"] == "X" else 1 if t["t"] == "L" else nleaves(t["l"]) + nleaves(t["r"])


def run(tier):
    chk = vlib.Check("C18", tier)
    wd = vlib.workdir("C18")
    for f in os.listdir(wd):
        if f.endswith(".ndjson"):
            os.unlink(os.path.join(wd, f))
    quick = tier == "quick"
    # M + G: invariants of MerkleBlob.tla on every state; one history per (state, last call).
    # R: the histories replayed on a real MerkleBlob (trie replay)
    cfgs = ["MC_MerkleBlob_quick.cfg", "MC_MerkleBlob_quick4.cfg"] if quick else ["MC_MerkleBlob.cfg", "MC_MerkleBlob_wide.cfg"]
    paths = []
    chk.extra["model_runs"] = {}
    for ci, cfg in enumerate(cfgs):
        cases, meta = gen_cases("MC_MerkleBlob.tla", cfg, workers=6, timeout=2400)
        chk.states += meta["distinct"]
        chk.transitions += meta["generated"]
        t1 = os.path.join(wd, "replay%d.ndjson" % ci)
        p = vlib.harness(["merkleblob", "--cases", cases, "--seed", chk.seed, "--out", t1])
        chk.extra["model_runs"][cfg] = dict(meta, replay=p.stderr.strip().splitlines()[-1:])
        paths += shard_by_reset(t1, 4 if quick else 12, wd, "replay%d" % ci)
    # T: seeded random histories, small key space (collisions) and a large one
    t2 = os.path.join(wd, "random.ndjson")
    vlib.harness(["merkleblob", "--seed", chk.seed, "--out", t2, "--hist", 24 if quick else 400, "--len", 50, "--keys", 20, "--hashes", 12])
    paths += shard_by_reset(t2, 2 if quick else 12, wd, "random")
    t3 = os.path.join(wd, "wide.ndjson")
    vlib.harness(["merkleblob", "--seed", chk.seed + 1, "--out", t3, "--hist", 1 if quick else 12, "--len", 120 if quick else 400, "--wide", 1, "--proofs", 3])
    paths += shard_by_reset(t3, 1 if quick else 6, wd, "wide")
    validate_parallel("Trace_MerkleBlob.tla", paths, chk, "mblob", sig_fn=sig, jobs=6, classes=["C18"], timeout=3000)
    attach_histories(chk, paths)
    for i, cls, e in getattr(chk, "raw_mismatches", []):
        if cls != "C18":
            raise ToolError("trace plumbing mismatch (%s) at event %d" % (cls, i))
    sigs = {}
    for i, cls, e in getattr(chk, "raw_mismatches", []):
        k = json.dumps(sig(e), sort_keys=True)
        sigs[k] = sigs.get(k, 0) + 1
    chk.extra["rejected_events_by_signature"] = sigs
    # evidence statistics and vacuity guards
    okc = {}
    failc = {}
    stats = {"delete_to_0": 0, "delete_to_1": 0, "delete_to_2": 0, "free_index_reuse": 0, "proofs_checked": 0, "max_leaves": 0,
             "batch_ok_on_0": 0, "batch_ok_on_1": 0, "batch_ok_on_2": 0, "batch_ok_on_n": 0, "batch_sizes": set(), "auto_inserts": 0, "dirty_trees": 0}
    seen = set()
    for p in paths:
        for e in vlib.read_ndjson(p):
            if e["k"] != "op":
                continue
            kind = e["op"]["k"]
            ok = e["res"]["k"] == "ok"
            (okc if ok else failc)[kind] = (okc if ok else failc).get(kind, 0) + 1
            n_after = nleaves(e["tree"])
            m = e["meta"]
            if n_after < 2 ** 20:
                stats["max_leaves"] = max(stats["max_leaves"], n_after)
            if ok and kind == "delete" and n_after <= 2:
                stats["delete_to_%d" % n_after] += 1
            if ok and kind == "batch" and not m["dup_key"] and not m["dup_hash"]:
                stats["batch_ok_on_%s" % (m["n_before"] if m["n_before"] <= 2 else "n")] += 1
                stats["batch_sizes"].add(len(e["op"]["items"]))
            if ok and kind in ("insert", "batch") and n_after > m["n_before"] and m["blocks_after"] - m["blocks_before"] < 2 * (n_after - m["n_before"]) and m["n_before"] >= 2:
                stats["free_index_reuse"] += 1
            if ok and kind == "insert" and e["op"]["loc"]["k"] == "auto" and m["n_before"] >= 2:
                stats["auto_inserts"] += 1
            if '"d": true' in json.dumps(e["tree"]):
                stats["dirty_trees"] += 1
            if e["lazy"]["k"] == "ok":
                stats["proofs_checked"] += len(e["lazy"]["proofs"])
            changed = ok and kind in ("insert", "upsert", "delete") or (ok and kind == "batch" and e["op"]["items"])
            rejected = not ok
            if changed or rejected:
                chk.nontrivial_add(hashlib.sha256(json.dumps([e["op"], e["tree"]], sort_keys=True).encode()).hexdigest()[:20])
            skey = (kind, ok)
            if skey not in seen and len(json.dumps(e)) < 6000:
                seen.add(skey)
                chk.sample({k: e[k] for k in ("op", "res", "tree", "kv", "integrity", "reload", "meta")}, limit=8)
    stats["batch_sizes"] = sorted(stats["batch_sizes"])
    chk.extra["calls_ok"] = okc
    chk.extra["calls_failed"] = failc
    chk.extra["history_stats"] = stats
    # vacuity guards (a run that already reports violations is not additionally turned into a tool error:
    # histories end at the first divergence, so a broken blob legitimately shortens the run)
    vac = []
    need = {"insert": 100, "upsert": 50, "delete": 50, "batch": 30, "calc": 20, "reload": 20}
    for k, n in need.items():
        if okc.get(k, 0) < n:
            vac.append("only %d successful %s calls" % (okc.get(k, 0), k))
    for k in ("insert", "upsert", "delete"):
        if failc.get(k, 0) < 20:
            vac.append("only %d failing %s calls" % (failc.get(k, 0), k))
    for k in ("delete_to_0", "delete_to_1", "delete_to_2", "free_index_reuse", "batch_ok_on_0", "batch_ok_on_1", "batch_ok_on_2", "batch_ok_on_n", "auto_inserts", "dirty_trees", "proofs_checked"):
        if stats[k] < 5:
            vac.append("%s = %d" % (k, stats[k]))
    chk.extra["vacuity_guard"] = vac or "passed"
    if vac and not chk.violations:
        raise ToolError("C18 vacuity guard: " + "; ".join(vac))
    chk.rule = ("M: MC_MerkleBlob (%s) checks RefinesMap, Integrity, clean-hash correctness, FailedIsStutter, ReloadEquivalent, RootHashDef and ProofsValid on every state "
                "reachable by insert(any location)/upsert/delete/batch_insert/calculate_lazy_hashes/reload over the stated key and hash menus; "
                "R: one history per distinct (state, last call) is replayed on a real MerkleBlob; T: seeded random histories (20 keys / 12 hashes, and a large key space); "
                "after every call the public API projection (tree walk, get_keys_values, check_integrity, reload, root and inclusion proofs after calculate_lazy_hashes on a clone) "
                "is validated by Trace_MerkleBlob with the real SHA-256; non-trivial = a call that changed the blob or was rejected by a guard, distinct by (call, resulting tree)") % "+".join(cfgs)
    chk.assumptions = ["SHA-256 via JDK override (collision resistance); internal hashes are a free constructor in the model-checking run",
                       "insert locations: Auto, AsRoot, a live leaf, index 0, and the smallest block index that is not part of the tree (a freed block or the first index beyond the blob; expected to be rejected)",
                       "tree shape is compared (explicit locations, sibling promotion on delete, batch subtree attached left of the first breadth-first leaf, as DESIGN 3/C18 prescribes); internal hashes and dirty bits only after calculate_lazy_hashes",
                       "the Auto insert location is not predicted: any leaf/side is accepted and pinned by the logged shape"]
    chk.extra["exhaustive"] = False
    chk.extra["model_checking_complete_within_bounds"] = True  # TLC finished the state graph of every cfg (histories <= MaxOps calls over the menus)
    chk.extra["model_constants"] = cfgs
    return chk.finish()


def replay(path):
    """re-run the histories of a replay file on the current tree and validate them again"""
    wd = vlib.workdir("C18")
    vlib.EVID = os.path.join(wd, "replay-evidence")  # a replay must not overwrite the evidence of the last run
    chk = vlib.Check("C18", "quick")
    cases = os.path.join(wd, "replay-cases.ndjson")
    n = 0
    with open(cases, "w") as f:
        for it in json.load(open(path)):
            c = it.get("case", {})
            if c.get("hist"):
                # every prefix, so that the trie replay reaches the last call
                f.write(json.dumps({"hist": c["hist"]}) + "\n")
                n += 1
    if not n:
        raise ToolError("no replayable history in %s" % path)
    t = os.path.join(wd, "replayed.ndjson")
    vlib.harness(["merkleblob", "--cases", cases, "--seed", chk.seed, "--out", t])
    validate_parallel("Trace_MerkleBlob.tla", [t], chk, "mblob-replay", sig_fn=sig, jobs=1, classes=["C18"])
    attach_histories(chk, [t])
    chk.rule = "replay of %d recorded histories" % n
    return chk.finish()
