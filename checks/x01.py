"""X01 (growth, not a listed property) - fork activation flags are a monotone function of height."""
import os
from checks.common import *


def run(tier):
    chk = vlib.Check("X01", tier)
    wd = vlib.workdir("X01")
    r = vlib.tlc("MC_GetFlags.tla", workers=2, timeout=600, tag="gf")
    if not r.ok:
        raise ToolError("MC_GetFlags failed:\n" + (r.error or r.out[-2000:]))
    chk.add_tlc(r)
    t = os.path.join(wd, "flags.ndjson")
    vlib.harness(["getflags", "--seed", chk.seed, "--out", t, "--n", 300 if tier == "quick" else 20000])
    validate_parallel("Trace_GetFlags.tla", shard_file(t, 2 if tier == "quick" else 8, wd, "flags"), chk, "gf", jobs=4, classes=["X01"])
    n = 0
    for e in vlib.read_ndjson(t):
        if e["flags"]:
            n += 1
            chk.nontrivial_add((tuple(e["h"]), tuple(e["hf2"]), tuple(e["sf8"]), tuple(e["sf9"])))
            chk.sample(e, limit=2)
    chk.rule = "random fork-height orderings x heights at each threshold +-1; non-trivial = at least one fork flag active"
    return chk.finish()
