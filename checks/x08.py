"""X08 (growth, not a listed property) - SHA-256 in pure TLA+ = the Java override; chia_sha2::Sha256 is chunking-irrelevant."""
import os
from checks.common import *

SPEC_T = "Trace_Sha256Stream.tla"


def histories(path):
    """split an event file into histories (a history starts at a `reset` event); events before the first reset are singletons"""
    hs, cur = [], None
    with open(path) as f:
        for line in f:
            if line.startswith('{"k":"reset"'):
                if cur:
                    hs.append(cur)
                cur = [line]
            elif cur is None:
                hs.append([line])
            else:
                cur.append(line)
    if cur:
        hs.append(cur)
    return hs


def write_shards(groups, n, blkmax, wd, prefix, max_bytes=24 << 20):
    """distribute groups of lines over >= n files of similar size; every file starts with the cfg event (BlkMax of the trace spec)"""
    total = sum(len(l) for g in groups for l in g)
    n = max(1, min(max(n, 1 + total // max_bytes), len(groups)))
    files = [[0, []] for _ in range(n)]
    for g in sorted(groups, key=lambda g: -sum(len(l) for l in g)):
        f = min(files, key=lambda f: f[0])
        f[0] += sum(len(l) for l in g)
        f[1].append(g)
    outs = []
    for i, (_, gs) in enumerate(files):
        p = os.path.join(wd, "%s-%d.ndjson" % (prefix, i))
        with open(p, "w") as o:
            o.write('{"k":"cfg","blkmax":%d}\n' % blkmax)
            for g in gs:
                o.writelines(g)
        outs.append(p)
    return outs


def sig(e):
    s = {"event": e.get("k")}
    if e.get("k") in ("update", "clone", "finalize"):
        s["panic"] = bool(e.get("panic"))
    if e.get("k") == "panic":
        s["what"] = e.get("what")
    return s


def run(tier):
    chk = vlib.Check("X08", tier)
    wd = vlib.workdir("X08")
    for f in os.listdir(wd):
        if f.endswith(".ndjson"):
            os.unlink(os.path.join(wd, f))
    quick = tier == "quick"
    # M (library level): pure TLA+ SHA-256 = Java override = NIST digests
    r = vlib.tlc("MC_Sha256Def.tla", cfg="MC_Sha256Def.cfg" if quick else "MC_Sha256Def_thorough.cfg", workers=4, timeout=2400,
                 env={"X08SEED": chk.seed % 60000 + 1}, tag="shadef")
    if not r.ok:
        chk.violation({"stage": "MC_Sha256Def"}, "the pure TLA+ SHA-256 disagrees with the Java override / NIST vectors:\n" + (r.error or r.out[-1500:]), {"seed": chk.seed})
        return chk.finish()
    chk.add_tlc(r)
    rl = [int(x) for x in r.tags.get("RNDLEN", [])]
    chk.extra["sha256def"] = {"states": r.distinct, "wall": round(r.wall, 1), "random_messages": len(rl), "random_max_len": max(rl or [0]),
                              "random_multi_block": sum(1 for x in rl if x >= 56)}
    if not rl or max(rl) < 120 or chk.extra["sha256def"]["random_multi_block"] < 5:
        raise ToolError("vacuous: the random messages of MC_Sha256Def do not reach three blocks: %r" % rl[:20])
    # M (stream level): block-buffer machine = one-shot pure definition = override, every chunking / clone history
    cases_p, meta_p = gen_cases("MC_Sha256Stream.tla", "MC_Sha256Stream_pure.cfg" if quick else "MC_Sha256Stream_pure_thorough.cfg", workers=4, timeout=2400)
    # G: the full menu with the override only
    cases_g, meta_g = gen_cases("MC_Sha256Stream.tla", "MC_Sha256Stream_gen.cfg" if quick else "MC_Sha256Stream_gen_thorough.cfg", workers=4, timeout=2400)
    for m in (meta_p, meta_g):
        chk.states += m["distinct"]
        chk.transitions += m["generated"]
    chk.extra["model_runs"] = {"pure": meta_p, "gen": meta_g}
    # R: replay both case sets on real hashers (seeded random data); T: seeded random histories and the users
    paths = []
    t = os.path.join(wd, "replay_p.raw")
    vlib.harness(["sha256stream", "--cases", cases_p, "--seed", chk.seed, "--out", t])
    hp = histories(t)
    npure = 60 if quick else 1500
    step = max(1, len(hp) // npure)
    paths += write_shards(hp[::step][:npure], 1 if quick else 6, 200 if quick else 400, wd, "replayp")
    t = os.path.join(wd, "replay_g.raw")
    vlib.harness(["sha256stream", "--cases", cases_g, "--seed", chk.seed + 1, "--out", t])
    hg = histories(t)
    chk.extra["replayed_model_histories"] = len(hp) + len(hg)
    if quick and len(hg) > 2000:
        # every model history is replayed on the real code; the quick tier validates a seed-dependent sample of them
        import random
        hg = random.Random(chk.seed).sample(hg, 2000)
    paths += write_shards(hg, 2 if quick else 8, 0, wd, "replayg")
    t = os.path.join(wd, "small.raw")
    vlib.harness(["sha256stream", "--seed", chk.seed + 2, "--out", t, "--small", 30 if quick else 1500, "--users", 8 if quick else 150, "--uoff", 52])
    paths += write_shards(histories(t), 1 if quick else 8, 200, wd, "small")
    t = os.path.join(wd, "random.raw")
    vlib.harness(["sha256stream", "--seed", chk.seed + 3, "--out", t, "--small", 100 if quick else 2000, "--medium", 20 if quick else 300,
                  "--big", 1 if quick else 6, "--users", 200 if quick else 5000])
    paths += write_shards(histories(t), 2 if quick else 10, 0, wd, "random")
    validate_parallel(SPEC_T, paths, chk, "sha", sig_fn=sig, jobs=6, classes=["X08"], timeout=3000)
    # statistics and vacuity guards
    st = {"histories": 0, "finalized": 0, "clones": 0, "empty_chunks": 0, "empty_after_nonempty": 0, "straddling_chunks": 0, "max_bytes": 0,
          "pure_finalized": 0, "atoms": 0, "pairs": 0, "coinids": 0, "trees": 0}
    for p in paths:
        blk = 0
        absorbed = {}
        for e in vlib.read_ndjson(p):
            k = e["k"]
            if k == "cfg":
                blk = e["blkmax"]
            elif k == "reset":
                st["histories"] += 1
                absorbed = {}
                nh = 0
                chunks = {}
            elif k == "new":
                nh += 1
                absorbed[nh] = 0
                chunks[nh] = ()
            elif k == "clone":
                nh += 1
                absorbed[nh] = absorbed[e["h"]]
                chunks[nh] = chunks[e["h"]] + ("c",)
                st["clones"] += 1
            elif k == "update":
                n = len(e["data"])
                a = absorbed[e["h"]]
                if n == 0:
                    st["empty_chunks"] += 1
                    if a > 0:
                        st["empty_after_nonempty"] += 1
                if n > 0 and a % 64 != 0 and (a % 64) + n > 64:
                    st["straddling_chunks"] += 1
                absorbed[e["h"]] = a + n
                chunks[e["h"]] += (n,)
            elif k == "finalize":
                st["finalized"] += 1
                a = absorbed[e["h"]]
                st["max_bytes"] = max(st["max_bytes"], a)
                if blk and a <= blk:
                    st["pure_finalized"] += 1
                if len(chunks[e["h"]]) > 1:
                    chk.nontrivial_add(chunks[e["h"]])
                    if "c" in chunks[e["h"]] and a > 64:
                        chk.sample({"chunking": chunks[e["h"]], "digest": e["digest"]}, limit=3)
            elif k in ("atom", "pair", "coinid", "tree"):
                st[k + "s"] += 1
                if blk and k == "atom":
                    st["pure_finalized"] += 1
    chk.extra["trace_stats"] = st
    for key in ("clones", "empty_after_nonempty", "straddling_chunks", "pure_finalized", "atoms", "pairs", "coinids", "trees"):
        if st[key] == 0:
            raise ToolError("vacuous run: no %s in the traces" % key)
    if st["max_bytes"] < (1 << 20):
        raise ToolError("vacuous run: no 1 MiB history")
    chk.rule = ("TLC-generated chunkings / clone histories over the boundary menu + seeded random histories up to 1 MiB; "
                "non-trivial = distinct (chunk lengths, clone points) sequence of a finalized hasher with at least two calls before finalize")
    chk.assumptions = ["the harness links the default sha2 back end of chia-sha2 (the cargo feature `openssl` is not enabled in harness/vh/Cargo.toml)",
                       "TLC's integer arithmetic, sequences and functions are trusted; the Java SHA-256 override is NOT (it is checked against the pure definition)"]
    return chk.finish()
