"""C03 - time-lock aggregation and checking equal per-condition semantics."""
import json
import os
from checks.common import *


def sig(e):
    return {"event": "tl", "parse_ok": e.get("parse_ok")}


def run(tier):
    chk = vlib.Check("C03", tier)
    wd = vlib.workdir("C03")
    cfg = "MC_TimeLocks.cfg" if tier == "quick" else "MC_TimeLocks_3.cfg"
    # M: Equiv / ImpossibleSound over multisets of boundary assertions x chain lattice; G: every bundle is a case
    cases, meta = gen_cases("MC_TimeLocks.tla", cfg, workers=12, timeout=7200)
    chk.states += meta["distinct"]
    chk.transitions += meta["generated"]
    chk.extra["model"] = {"cfg": cfg, **meta}
    t1 = os.path.join(wd, "replay.ndjson")
    vlib.harness(["timelocks", "--cases", cases, "--seed", chk.seed, "--out", t1, "--chains", 6 if tier == "quick" else 4])
    t2 = os.path.join(wd, "random.ndjson")
    vlib.harness(["timelocks", "--seed", chk.seed, "--out", t2, "--n", 4000 if tier == "quick" else 60000, "--chains", 10])
    paths = shard_file(t1, 4 if tier == "quick" else 16, wd, "replay") + shard_file(t2, 3 if tier == "quick" else 16, wd, "random")
    validate_parallel("Trace_TimeLocks.tla", paths, chk, "tl", sig_fn=sig, jobs=8, classes=["C03"])
    npass = nfail = nparse_rej = 0
    for p in paths:
        for e in vlib.read_ndjson(p):
            if not e["parse_ok"]:
                nparse_rej += 1
            oks = [c["ok"] for c in e["chains"]]
            npass += sum(1 for o in oks if o is True)
            nfail += sum(1 for o in oks if o is False)
            # non-trivial: the same bundle passes in one chain state and fails in another
            if True in oks and False in oks:
                chk.nontrivial_add(json.dumps(e["tree"])[:3000])
                chk.sample({"tree": e["tree"], "chains": e["chains"][:3]}, limit=3)
    if npass < 200 or len(chk.nontrivial) < 50:
        raise ToolError("C03 vacuity guard: too few passing chain states (%d) / boundary bundles (%d)" % (npass, len(chk.nontrivial)))
    chk.extra.update({"chain_verdicts_pass": npass, "chain_verdicts_fail": nfail, "bundles_rejected_at_parse": nparse_rej, "exhaustive": False})
    chk.rule = ("M: MC_TimeLocks proves fold+check_time_locks == per-assertion semantics for all multisets of <= %s boundary assertions (10 kinds x {-1,0,1,2,MAX-1,MAX,MAX+1}) "
                "incl. an ephemeral second spend, over the chain lattice; every bundle is replayed and, with seeded random bundles (signed 0..10-byte arguments), run through "
                "parse_spends + check_time_locks(nowrap) in several consistent chain states next to the boundaries; Trace_TimeLocks requires each verdict to equal the "
                "per-assertion oracle; non-trivial = bundles whose verdict differs between two of their chain states" % ("2" if tier == "quick" else "3"))
    chk.assumptions = ["chain states are consistent (coin confirmed no later than the previous transaction block) and below the type maxima, where saturating = exact arithmetic",
                       "legacy wrapping mode (nowrap=false) is not judged"]
    return chk.finish()
