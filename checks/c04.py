"""C04 - cost charged equals the consensus cost table and the limit is exact."""
from checks.common import *
from checks import cond_pipeline


def run(tier):
    chk = vlib.Check("C04", tier)
    res = cond_pipeline.run(tier, chk.seed)
    cond_pipeline.apply(chk, res, ["C04"],
        "M: CostIsTableSum (countdown = declarative table sum, three accumulators consistent), CostWithinLimit and LimitExact (accepted at total, "
        "CostExceeded at total-1) are invariants of MC_Cond incl. all 256 two-byte opcodes and SOFTFORK boundary arguments in both fork modes; "
        "T: reported cost/condition_cost/per-spend costs compared with the machine on every event; accepted bundles re-run at limit=total and total-1")
    try:
        from checks import gen_pipeline
        g = gen_pipeline.run(tier, chk.seed)
        gen_pipeline.apply(chk, g, ["C04"])
    except ImportError:
        pass
    try:
        from checks import sb_pipeline
        b = sb_pipeline.run(tier, chk.seed)
        sb_pipeline.apply(chk, b, ["C04"])
    except ImportError:
        pass
    chk.assumptions = ["cost table literals in Conditions.tla are the consensus rule (a change to them is a violation by design)"]
    chk.extra["exhaustive"] = False
    return chk.finish()
