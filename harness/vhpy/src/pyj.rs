//! Tagged JSON model values (the representation of spec/JsonDict.tla) <-> Python objects <-> trace JSON.
//! Python ints of any size travel as big-endian magnitude bytes (TLC integers are 32-bit).
use crate::util::{from_jbytes, jbytes};
use pyo3::prelude::*;
use pyo3::types::{PyBool, PyBytes, PyDict, PyInt, PyList, PyString};
use serde_json::{json, Value};

#[derive(Clone, Debug, PartialEq)]
pub enum J {
    Int { neg: bool, mag: Vec<u8> },
    Str(Vec<u8>),
    Bool(bool),
    Null,
    List(Vec<J>),
    Dict(Vec<(Vec<u8>, J)>),
    /// a Python object outside the JSON model (never equal to anything in the spec)
    Other(String),
}

fn norm(mut b: Vec<u8>) -> Vec<u8> {
    let s = b.iter().position(|x| *x != 0).unwrap_or(b.len());
    b.drain(..s);
    b
}

impl J {
    pub fn uint(mag: Vec<u8>) -> J {
        J::Int { neg: false, mag: norm(mag) }
    }
    pub fn int(neg: bool, mag: Vec<u8>) -> J {
        let mag = norm(mag);
        J::Int { neg: neg && !mag.is_empty(), mag }
    }

    /// is the string "0x" + lowercase hex of whole bytes? then return the bytes (transport form "hex")
    fn as_hex(s: &[u8]) -> Option<Vec<u8>> {
        if s.len() < 2 || s[0] != b'0' || s[1] != b'x' || s.len() % 2 != 0 {
            return None;
        }
        let h = &s[2..];
        if !h.iter().all(|c| c.is_ascii_digit() || (b'a'..=b'f').contains(c)) {
            return None;
        }
        hex::decode(h).ok()
    }

    pub fn to_trace(&self) -> Value {
        match self {
            J::Int { neg, mag } => json!({"k": "int", "neg": neg, "v": jbytes(mag)}),
            J::Str(s) => match J::as_hex(s) {
                Some(b) => json!({"k": "hex", "v": jbytes(&b)}),
                None => json!({"k": "str", "v": jbytes(s)}),
            },
            J::Bool(b) => json!({"k": "bool", "v": b}),
            J::Null => json!({"k": "null"}),
            J::List(l) => json!({"k": "list", "v": l.iter().map(|x| x.to_trace()).collect::<Vec<_>>()}),
            J::Dict(d) => json!({"k": "dict", "v": d.iter().map(|(k, v)| json!({"key": jbytes(k), "val": v.to_trace()})).collect::<Vec<_>>()}),
            J::Other(r) => json!({"k": "other", "v": r}),
        }
    }

    #[allow(dead_code)]
    pub fn from_trace(v: &Value) -> J {
        match v["k"].as_str().unwrap_or("") {
            "int" => J::int(v["neg"].as_bool().unwrap_or(false), from_jbytes(&v["v"])),
            "str" => J::Str(from_jbytes(&v["v"])),
            "hex" => J::Str(format!("0x{}", hex::encode(from_jbytes(&v["v"]))).into_bytes()),
            "bool" => J::Bool(v["v"].as_bool().unwrap_or(false)),
            "null" => J::Null,
            "list" => J::List(v["v"].as_array().map(|a| a.iter().map(J::from_trace).collect()).unwrap_or_default()),
            "dict" => J::Dict(v["v"].as_array().map(|a| a.iter().map(|e| (from_jbytes(&e["key"]), J::from_trace(&e["val"]))).collect()).unwrap_or_default()),
            _ => J::Other(v["v"].as_str().unwrap_or("").to_string()),
        }
    }

    /// number of characters / nodes: a size measure for budgets
    pub fn size(&self) -> usize {
        match self {
            J::Int { mag, .. } => 2 + mag.len(),
            J::Str(s) => 2 + s.len(),
            J::List(l) => 2 + l.iter().map(|x| x.size()).sum::<usize>(),
            J::Dict(d) => 2 + d.iter().map(|(k, v)| k.len() + v.size()).sum::<usize>(),
            _ => 2,
        }
    }
}

/// Python object -> model value (bool before int: bool is a subclass of int)
pub fn from_py(o: &Bound<'_, PyAny>) -> PyResult<J> {
    if o.is_none() {
        return Ok(J::Null);
    }
    if let Ok(b) = o.cast::<PyBool>() {
        return Ok(J::Bool(b.is_true()));
    }
    if o.is_instance_of::<PyInt>() {
        let zero = 0i32.into_pyobject(o.py())?;
        let neg = o.lt(&zero)?;
        let a = o.call_method0("__abs__")?;
        let bits: usize = a.call_method0("bit_length")?.extract()?;
        let n = bits.div_ceil(8);
        let bytes = a.call_method1("to_bytes", (n, "big"))?;
        let mag: Vec<u8> = bytes.cast::<PyBytes>()?.as_bytes().to_vec();
        return Ok(J::int(neg, mag));
    }
    if let Ok(s) = o.cast::<PyString>() {
        return Ok(J::Str(s.to_str()?.as_bytes().to_vec()));
    }
    if let Ok(l) = o.cast::<PyList>() {
        let mut v = Vec::with_capacity(l.len());
        for x in l.iter() {
            v.push(from_py(&x)?);
        }
        return Ok(J::List(v));
    }
    if let Ok(d) = o.cast::<PyDict>() {
        let mut v = Vec::with_capacity(d.len());
        for (k, x) in d.iter() {
            let key = match k.cast::<PyString>() {
                Ok(s) => s.to_str()?.as_bytes().to_vec(),
                Err(_) => return Ok(J::Other(format!("dict with non-str key {}", k.repr()?))),
            };
            v.push((key, from_py(&x)?));
        }
        return Ok(J::Dict(v));
    }
    Ok(J::Other(format!("{}", o.get_type().repr()?)))
}

/// model value -> a fresh Python object
pub fn to_py<'py>(py: Python<'py>, j: &J) -> PyResult<Bound<'py, PyAny>> {
    Ok(match j {
        J::Null => py.None().into_bound(py),
        J::Bool(b) => PyBool::new(py, *b).to_owned().into_any(),
        J::Int { neg, mag } => {
            let int_t = py.get_type::<PyInt>();
            let v = int_t.call_method1("from_bytes", (PyBytes::new(py, mag), "big"))?;
            if *neg { v.call_method0("__neg__")? } else { v }
        }
        J::Str(s) => PyString::new(py, std::str::from_utf8(s).map_err(|e| pyo3::exceptions::PyValueError::new_err(e.to_string()))?).into_any(),
        J::List(l) => {
            let out = PyList::empty(py);
            for x in l {
                out.append(to_py(py, x)?)?;
            }
            out.into_any()
        }
        J::Dict(d) => {
            let out = PyDict::new(py);
            for (k, x) in d {
                out.set_item(std::str::from_utf8(k).unwrap_or("?"), to_py(py, x)?)?;
            }
            out.into_any()
        }
        J::Other(_) => py.None().into_bound(py),
    })
}
